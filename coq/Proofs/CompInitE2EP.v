(* CompInitE2EP.v — the seven initializers' Init END TO END through package tensor: the translated Init programs
   (component/initializers) run with the oracle [cextI] of Model/CompExt.v, in which tensorInitConf and the entry points
   tensor.RandU / tensor.RandN / tensor.Full are LINKED by running their own translated programs (those with [cext2]:
   prepareConfig, validateConfig linked in turn).  What is left to [lib] is the cputensor constructor.
   0. tensorInitConf returns the config (CPU, GradTrack = true);
   1. every Init ends in the cputensor constructor with the model's scale formulas and gradient tracking ON
      (property C18: every initializer returns a tracked tensor);
   2. a panic can only come from the cputensor call itself. *)
From Coq Require Import String List ZArith Bool Lia Arith.
From Qeep Require Import Model.Scalar Model.Nd Model.Fill Model.Data Model.Valid Model.Api Model.Grad Model.Backprop
     Model.Components Model.DataIR Model.HeapExt Model.GoComp Model.CompExt Proofs.DataIRP Proofs.CompTensorP.
From Qeep Require Model.GoIR.
Import ListNotations.
Local Open Scope string_scope.
Local Open Scope Z_scope.
Local Open Scope list_scope.

Section CompInitE2E.
Context {A : Type} {SA : Scalar A}.
Notation heap := (@heap A).
Notation dval := (@dval A).
Variables (fltb fleb : A -> A -> bool) (lib : string -> list dval -> heap -> option (list dval * heap)).
Notation run2 p := (drun cfapp heap (cext2 fltb fleb lib) p).   (* the entry points of package tensor *)
Notation runI p := (drun cfapp heap (cextI fltb fleb lib) p).   (* the Init methods, end to end *)

Ltac start p := unfold drun, p; cbn [pmain dbody plocals dparams dbind]; dxs.

(* ================= 0. tensorInitConf ================= *)

(* &tensor.Config{Device: tensor.CPU, GradTrack: true} *)
Definition initConf : dval := DL [DI 1; DB true].

Theorem tensorInitConf_run fuel depth (h : heap) :
  outcome (runI c_initializers_tensorInitConf fuel depth [] h) = Some ([initConf], h).
Proof. start c_initializers_tensorInitConf. reflexivity. Qed.

(* it does not depend on the oracle *)
Lemma tensorInitConf_run2 fuel depth (h : heap) :
  outcome (run2 c_initializers_tensorInitConf fuel depth [] h) = Some ([initConf], h).
Proof. start c_initializers_tensorInitConf. reflexivity. Qed.

(* a linked function of [siblingsI] is its own program run with [cext2] *)
Lemma cextI_tensorInitConf_prog args (h : heap) :
  cextI fltb fleb lib "tensorInitConf" args h = outcome (run2 c_initializers_tensorInitConf sibFuel sibFuel args h).
Proof. reflexivity. Qed.
Lemma cextI_RandU args (h : heap) :
  cextI fltb fleb lib "tensor.RandU" args h = outcome (run2 c_tensor_RandU sibFuel sibFuel args h).
Proof. reflexivity. Qed.
Lemma cextI_RandN args (h : heap) :
  cextI fltb fleb lib "tensor.RandN" args h = outcome (run2 c_tensor_RandN sibFuel sibFuel args h).
Proof. reflexivity. Qed.
Lemma cextI_Full args (h : heap) :
  cextI fltb fleb lib "tensor.Full" args h = outcome (run2 c_tensor_Full sibFuel sibFuel args h).
Proof. reflexivity. Qed.

Theorem cextI_tensorInitConf (h : heap) :
  cextI fltb fleb lib "tensorInitConf" [] h = Some ([initConf], h).
Proof. rewrite cextI_tensorInitConf_prog. apply tensorInitConf_run2. Qed.

(* the conversion int -> float64 is not linked: it reaches the leaf oracle *)
Lemma cextI_float64 z (h : heap) :
  cextI fltb fleb lib "float64" [DI z] h = if 0 <=? z then Some ([DF (sofnat (Z.to_nat z))], h) else None.
Proof. reflexivity. Qed.

Lemma sqrtOver_eq c n : @sqrtOver A SA c n = ssqrt (sdiv (sconst c 0) (sofnat (Z.to_nat n))).
Proof. reflexivity. Qed.

(* initConf is the valid config (CPU, tracking) of CompTensorP's theorems *)
Lemma initConf_cfg : initConf = cfgOf (Some (1, DB true)).
Proof. reflexivity. Qed.

(* the entry points of package tensor, called with initConf, are the cputensor call with tracking ON *)
Lemma linked_RandU (sh l u : dval) (h : heap) :
  isCall (run2 c_tensor_RandU sibFuel sibFuel [sh; l; u; initConf] h) (lib "cputensor.RandU" [sh; l; u; DB true] h).
Proof. rewrite initConf_cfg. exact (RandU_spec fltb fleb lib sibFuel sibFuel sh l u (Some (1, DB true)) h). Qed.
Lemma linked_RandN (sh m s : dval) (h : heap) :
  isCall (run2 c_tensor_RandN sibFuel sibFuel [sh; m; s; initConf] h) (lib "cputensor.RandN" [sh; m; s; DB true] h).
Proof. rewrite initConf_cfg. exact (RandN_spec fltb fleb lib sibFuel sibFuel sh m s (Some (1, DB true)) h). Qed.
Lemma linked_Full (sh v : dval) (h : heap) :
  isCall (run2 c_tensor_Full sibFuel sibFuel [sh; v; initConf] h) (lib "cputensor.Full" [sh; v; DB true] h).
Proof. rewrite initConf_cfg. exact (Full_spec fltb fleb lib sibFuel sibFuel sh v (Some (1, DB true)) h). Qed.

(* last two statements of every Init: the linked call [outcome inner] and the return of its two results *)
Ltac finish S :=
  destruct S as [S1 [S2 S3]];
  split; [|split];
  [ intros r0 r1 h2 Hcall; rewrite (S1 r0 r1 h2 Hcall); dxs; reflexivity
  | intros Hcall; rewrite (S2 Hcall); reflexivity
  | intros rs h2 Hcall Hl; rewrite (S3 rs h2 Hcall Hl); reflexivity ].

(* ================= 1. Init end to end ================= *)

Theorem Full_Init_e2e fuel depth (v : A) (sh : dval) (h : heap) :
  isCall (runI c_Full_Init fuel depth [DF v; sh] h) (lib "cputensor.Full" [sh; DF v; DB true] h).
Proof.
  start c_Full_Init. rewrite cextI_tensorInitConf. dxs. rewrite cextI_Full.
  pose proof (linked_Full sh (DF v) h) as S. finish S.
Qed.

Theorem XavierUniform_Init_e2e fuel depth (fi fo : Z) (sh : dval) (h : heap) :
  0 <= fi + fo ->
  let r := sqrtOver 6 (fi + fo) in
  isCall (runI c_XavierUniform_Init fuel depth [DI fi; DI fo; sh] h)
         (lib "cputensor.RandU" [sh; DF (ssub (sconst 0 0) r); DF r; DB true] h).
Proof.
  intros Hn r. subst r. rewrite sqrtOver_eq.
  start c_XavierUniform_Init. rewrite cextI_float64. apply Z.leb_le in Hn. rewrite Hn. dxs.
  cbn [asFloats cfapp String.eqb Ascii.eqb Bool.eqb]. dxs.
  rewrite cextI_tensorInitConf. dxs. rewrite cextI_RandU.
  match goal with |- context [run2 c_tensor_RandU _ _ [_; ?l; ?u; _] _] =>
    pose proof (linked_RandU sh l u h) as S end.
  finish S.
Qed.

Theorem XavierNormal_Init_e2e fuel depth (fi fo : Z) (sh : dval) (h : heap) :
  0 <= fi + fo ->
  isCall (runI c_XavierNormal_Init fuel depth [DI fi; DI fo; sh] h)
         (lib "cputensor.RandN" [sh; DF (sconst 0 0); DF (sqrtOver 2 (fi + fo)); DB true] h).
Proof.
  intros Hn. rewrite sqrtOver_eq.
  start c_XavierNormal_Init. rewrite cextI_float64. apply Z.leb_le in Hn. rewrite Hn. dxs.
  cbn [asFloats cfapp String.eqb Ascii.eqb Bool.eqb]. dxs.
  rewrite cextI_tensorInitConf. dxs. rewrite cextI_RandN.
  match goal with |- context [run2 c_tensor_RandN _ _ [_; ?m; ?s; _] _] =>
    pose proof (linked_RandN sh m s h) as S end.
  finish S.
Qed.

Theorem HeUniform_Init_e2e fuel depth (f : Z) (sh : dval) (h : heap) :
  0 <= f ->
  let r := sqrtOver 6 f in
  isCall (runI c_HeUniform_Init fuel depth [DI f; sh] h)
         (lib "cputensor.RandU" [sh; DF (ssub (sconst 0 0) r); DF r; DB true] h).
Proof.
  intros Hn r. subst r. rewrite sqrtOver_eq.
  start c_HeUniform_Init. rewrite cextI_float64. apply Z.leb_le in Hn. rewrite Hn. dxs.
  cbn [asFloats cfapp String.eqb Ascii.eqb Bool.eqb]. dxs.
  rewrite cextI_tensorInitConf. dxs. rewrite cextI_RandU.
  match goal with |- context [run2 c_tensor_RandU _ _ [_; ?l; ?u; _] _] =>
    pose proof (linked_RandU sh l u h) as S end.
  finish S.
Qed.

Theorem HeNormal_Init_e2e fuel depth (f : Z) (sh : dval) (h : heap) :
  0 <= f ->
  isCall (runI c_HeNormal_Init fuel depth [DI f; sh] h)
         (lib "cputensor.RandN" [sh; DF (sconst 0 0); DF (sqrtOver 2 f); DB true] h).
Proof.
  intros Hn. rewrite sqrtOver_eq.
  start c_HeNormal_Init. rewrite cextI_float64. apply Z.leb_le in Hn. rewrite Hn. dxs.
  cbn [asFloats cfapp String.eqb Ascii.eqb Bool.eqb]. dxs.
  rewrite cextI_tensorInitConf. dxs. rewrite cextI_RandN.
  match goal with |- context [run2 c_tensor_RandN _ _ [_; ?m; ?s; _] _] =>
    pose proof (linked_RandN sh m s h) as S end.
  finish S.
Qed.

Theorem Uniform_Init_e2e fuel depth (l u : A) (sh : dval) (h : heap) :
  isCall (runI c_Uniform_Init fuel depth [DF l; DF u; sh] h) (lib "cputensor.RandU" [sh; DF l; DF u; DB true] h).
Proof.
  start c_Uniform_Init. rewrite cextI_tensorInitConf. dxs. rewrite cextI_RandU.
  pose proof (linked_RandU sh (DF l) (DF u) h) as S. finish S.
Qed.

Theorem Normal_Init_e2e fuel depth (m s : A) (sh : dval) (h : heap) :
  isCall (runI c_Normal_Init fuel depth [DF m; DF s; sh] h) (lib "cputensor.RandN" [sh; DF m; DF s; DB true] h).
Proof.
  start c_Normal_Init. rewrite cextI_tensorInitConf. dxs. rewrite cextI_RandN.
  pose proof (linked_RandN sh (DF m) (DF s) h) as S. finish S.
Qed.

(* a negative fan (excluded by the constructors) panics in the conversion, before package tensor is reached *)
Theorem HeUniform_Init_e2e_neg fuel depth (f : Z) (sh : dval) (h : heap) :
  f < 0 -> runI c_HeUniform_Init fuel depth [DI f; sh] h = DPanic heap.
Proof.
  intros Hn. start c_HeUniform_Init. rewrite cextI_float64. apply Z.leb_gt in Hn. rewrite Hn. reflexivity.
Qed.

(* ================= 2. no panic of its own ================= *)
(* the "unreachable" panic of the device switch of package tensor, the error branch of prepareConfig and the
   conversion are not reached: the outcome is a panic only if the cputensor call itself failed (no result, or not
   two results) *)

Corollary XavierUniform_never_reaches_a_panic fuel depth (fi fo : Z) (sh : dval) (h : heap) :
  0 <= fi + fo ->
  runI c_XavierUniform_Init fuel depth [DI fi; DI fo; sh] h = DPanic heap ->
  let r := sqrtOver 6 (fi + fo) in
  libFails 2 (lib "cputensor.RandU" [sh; DF (ssub (sconst 0 0) r); DF r; DB true] h).
Proof. intros Hn E. exact (isCall_panic _ _ (XavierUniform_Init_e2e fuel depth fi fo sh h Hn) E). Qed.

Corollary XavierNormal_never_reaches_a_panic fuel depth (fi fo : Z) (sh : dval) (h : heap) :
  0 <= fi + fo ->
  runI c_XavierNormal_Init fuel depth [DI fi; DI fo; sh] h = DPanic heap ->
  libFails 2 (lib "cputensor.RandN" [sh; DF (sconst 0 0); DF (sqrtOver 2 (fi + fo)); DB true] h).
Proof. intros Hn E. exact (isCall_panic _ _ (XavierNormal_Init_e2e fuel depth fi fo sh h Hn) E). Qed.

Corollary HeUniform_never_reaches_a_panic fuel depth (f : Z) (sh : dval) (h : heap) :
  0 <= f ->
  runI c_HeUniform_Init fuel depth [DI f; sh] h = DPanic heap ->
  let r := sqrtOver 6 f in
  libFails 2 (lib "cputensor.RandU" [sh; DF (ssub (sconst 0 0) r); DF r; DB true] h).
Proof. intros Hn E. exact (isCall_panic _ _ (HeUniform_Init_e2e fuel depth f sh h Hn) E). Qed.

Corollary HeNormal_never_reaches_a_panic fuel depth (f : Z) (sh : dval) (h : heap) :
  0 <= f ->
  runI c_HeNormal_Init fuel depth [DI f; sh] h = DPanic heap ->
  libFails 2 (lib "cputensor.RandN" [sh; DF (sconst 0 0); DF (sqrtOver 2 f); DB true] h).
Proof. intros Hn E. exact (isCall_panic _ _ (HeNormal_Init_e2e fuel depth f sh h Hn) E). Qed.

Corollary Uniform_never_reaches_a_panic fuel depth (l u : A) (sh : dval) (h : heap) :
  runI c_Uniform_Init fuel depth [DF l; DF u; sh] h = DPanic heap ->
  libFails 2 (lib "cputensor.RandU" [sh; DF l; DF u; DB true] h).
Proof. intros E. exact (isCall_panic _ _ (Uniform_Init_e2e fuel depth l u sh h) E). Qed.

Corollary Normal_never_reaches_a_panic fuel depth (m s : A) (sh : dval) (h : heap) :
  runI c_Normal_Init fuel depth [DF m; DF s; sh] h = DPanic heap ->
  libFails 2 (lib "cputensor.RandN" [sh; DF m; DF s; DB true] h).
Proof. intros E. exact (isCall_panic _ _ (Normal_Init_e2e fuel depth m s sh h) E). Qed.

Corollary Full_never_reaches_a_panic fuel depth (v : A) (sh : dval) (h : heap) :
  runI c_Full_Init fuel depth [DF v; sh] h = DPanic heap ->
  libFails 2 (lib "cputensor.Full" [sh; DF v; DB true] h).
Proof. intros E. exact (isCall_panic _ _ (Full_Init_e2e fuel depth v sh h) E). Qed.

(* C18 in one sentence: whatever an Init returns is what cputensor returned for a request with tracking ON *)
Corollary Full_Init_returns_tracked fuel depth (v : A) (sh : dval) (vs : list dval) (h h2 : heap) :
  outcome (runI c_Full_Init fuel depth [DF v; sh] h) = Some (vs, h2) ->
  lib "cputensor.Full" [sh; DF v; DB true] h = Some (vs, h2).
Proof.
  intros E. destruct (Full_Init_e2e fuel depth v sh h) as [S1 [S2 S3]].
  destruct (lib "cputensor.Full" [sh; DF v; DB true] h) as [[rs h3]|] eqn:L.
  - destruct rs as [|a0 [|a1 [|a2 rs]]];
      try (rewrite (S3 _ _ eq_refl) in E; [discriminate E | cbn [length]; lia]).
    rewrite (S1 a0 a1 h3 eq_refl) in E. exact E.
  - rewrite (S2 eq_refl) in E. discriminate E.
Qed.

End CompInitE2E.
Print Assumptions tensorInitConf_run.
Print Assumptions cextI_tensorInitConf.
Print Assumptions Full_Init_e2e.
Print Assumptions XavierUniform_Init_e2e.
Print Assumptions XavierNormal_Init_e2e.
Print Assumptions HeUniform_Init_e2e.
Print Assumptions HeNormal_Init_e2e.
Print Assumptions Uniform_Init_e2e.
Print Assumptions Normal_Init_e2e.
Print Assumptions HeUniform_Init_e2e_neg.
Print Assumptions XavierUniform_never_reaches_a_panic.
Print Assumptions XavierNormal_never_reaches_a_panic.
Print Assumptions HeUniform_never_reaches_a_panic.
Print Assumptions HeNormal_never_reaches_a_panic.
Print Assumptions Uniform_never_reaches_a_panic.
Print Assumptions Normal_never_reaches_a_panic.
Print Assumptions Full_never_reaches_a_panic.
Print Assumptions Full_Init_returns_tracked.

(* ================= examples over the free scalar algebra [term] ================= *)
Module Examples.
Definition tb (a b : term) : bool := true.
(* a cputensor that echoes its arguments; RandN fails; Full returns one result only.  Nothing is said about
   tensorInitConf / tensor.*: they are linked *)
Definition elib (f : string) (args : list (@dval term)) (h : @heap term)
  : option (list (@dval term) * @heap term) :=
  if String.eqb f "cputensor.RandN" then None
  else if String.eqb f "cputensor.Full" then Some ([DI 5], h)
  else Some ([DL (DI 7 :: args); DI 0], h).
Definition elib2 (f : string) (args : list (@dval term)) (h : @heap term)
  : option (list (@dval term) * @heap term) := Some ([DL (DI 7 :: args); DI 0], h).
Definition h0 : @heap term := [].
Notation erunI p := (drun cfapp (@heap term) (cextI tb tb elib) p 0%nat 0%nat).
Notation erunI2 p := (drun cfapp (@heap term) (cextI tb tb elib2) p 0%nat 0%nat).

Example ex_tensorInitConf : cextI tb tb elib "tensorInitConf" [] h0 = Some ([DL [DI 1; DB true]], h0).
Proof. vm_compute. reflexivity. Qed.

Example ex_XavierUniform_Init_e2e :
  outcome (erunI c_XavierUniform_Init [DI 4; DI 3; DL [DI 2]] h0)
  = Some ([DL [DI 7; DL [DI 2];
               DF (TBin BSub (TConst 0 0) (TUn USqrt (TBin BDiv (TConst 6 0) (TNat 7))));
               DF (TUn USqrt (TBin BDiv (TConst 6 0) (TNat 7))); DB true]; DI 0], h0).
Proof. vm_compute. reflexivity. Qed.

Example ex_Uniform_Init_e2e :
  outcome (erunI c_Uniform_Init [DF (TConst (-5) (-2)); DF (TConst 5 (-2)); DL [DI 2; DI 3]] h0)
  = Some ([DL [DI 7; DL [DI 2; DI 3]; DF (TConst (-5) (-2)); DF (TConst 5 (-2)); DB true]; DI 0], h0).
Proof. vm_compute. reflexivity. Qed.

Example ex_Full_Init_e2e :
  outcome (erunI2 c_Full_Init [DF (TConst 3 0); DL [DI 2]] h0)
  = Some ([DL [DI 7; DL [DI 2]; DF (TConst 3 0); DB true]; DI 0], h0).
Proof. vm_compute. reflexivity. Qed.

Example ex_HeNormal_Init_e2e :
  outcome (erunI2 c_HeNormal_Init [DI 5; DL [DI 2; DI 3]] h0)
  = Some ([DL [DI 7; DL [DI 2; DI 3]; DF (TConst 0 0); DF (TUn USqrt (TBin BDiv (TConst 2 0) (TNat 5))); DB true];
           DI 0], h0).
Proof. vm_compute. reflexivity. Qed.

(* a panic comes from cputensor only: no result, or the wrong number of results; or from a negative fan *)
Example ex_HeNormal_lib_fails : erunI c_HeNormal_Init [DI 5; DL [DI 2; DI 3]] h0 = DPanic _.
Proof. vm_compute. reflexivity. Qed.
Example ex_Full_lib_arity : erunI c_Full_Init [DF (TConst 3 0); DL [DI 2]] h0 = DPanic _.
Proof. vm_compute. reflexivity. Qed.
Example ex_HeUniform_neg : erunI2 c_HeUniform_Init [DI (-5); DL [DI 2]] h0 = DPanic _.
Proof. vm_compute. reflexivity. Qed.
End Examples.
