(* GradChainFcP.v — the FC layer INSIDE a graph (lifting of GradFcP.v, companion of GradChainP.v).

   FINDING (order).  The nine nodes of the layer do NOT form a contiguous block of bp_topo's order,
   and [rev (seq (length h) 9)] (the order folded by [fc_backward]) is not the order in which bp_topo
   meets them: the bias b and the input x (with their whole ancestries) are visited between the
   layer's nodes ([fc_order_ex]:  y, n+7, b, n+6, n+5, n+4, n+3, n+1, x, n+2, n, w).  The block method
   of GradChainP.v therefore does not apply to a component with several operands.

   METHOD (order free).  Every internal node of the layer has exactly ONE consumer.  bp_topo's final
   heap solves the adjoint equations ([bp_topo_correct]); so does the final heap of [fc_backward]'s
   fold on an auxiliary heap holding y's final gradient ([bp_fold_seg]).  With a single consumer the
   equations determine the gradient of every internal node from the gradient of y, whatever the order
   ([single_grad_eq]); hence the contributions of the layer to w, b, x in the real run are the ones
   [fc_backward] computes, and the final gradients of w, b, x are
        prior + (sum of the contributions of the consumers OUTSIDE the layer, in H') + fc formula.  *)
From Coq Require Import List Arith ZArith Bool Lia Reals Lra.
From Coquelicot Require Import Coquelicot.
From Qeep Require Import Model.Scalar Model.Nd Model.Fill Model.Data Model.Valid Model.Api Model.Grad
  Model.Backprop Model.Components.
From Qeep Require Import Proofs.NdP Proofs.ElemP Proofs.BroadcastP Proofs.ArithP Proofs.TrackP Proofs.CompP
  Proofs.BackpropP Proofs.FcP Proofs.GradFcP.
From Qeep Require Import Spec.RScalar Spec.ScalarDeriv Spec.VjpSpec Proofs.VjpElemP Proofs.GradLossP Proofs.GradActP
  Proofs.GradChainP.
Import ListNotations.
Local Open Scope nat_scope.

(* ===================================================================================== *)
(* 1. generic: a node with a single consumer                                               *)
(* ===================================================================================== *)
Section GenA.
Context {A : Type} {SA : Scalar A}.
Notation T := (tensor A).
Notation heap := (@heap A).
Notation rule := (@rule A).
Variable rd : bred.

Lemma contributions_none (hf hs : heap) l n :
  (forall c e, In c l -> In e (edgesOf hs c) -> fst e <> n) -> contributions rd hf hs l n = [].
Proof.
  intros Hn. unfold contributions. apply flat_map_nil'. intros c Hc. apply flat_map_nil'. intros e He.
  unfold contrib_e. destruct (fst e =? n) eqn:Ee; [|reflexivity]. apply Nat.eqb_eq in Ee. exfalso. exact (Hn c e Hc He Ee).
Qed.

(* if p is the only node of the list with an edge to n, only p contributes *)
Lemma contributions_single (hf hs : heap) p n : forall l,
  In p l -> NoDup l -> (forall c e, In c l -> c <> p -> In e (edgesOf hs c) -> fst e <> n) ->
  contributions rd hf hs l n = flat_map (contrib_e rd hf n) (edgesOf hs p).
Proof.
  induction l as [|a l IH]; intros Hp Hnd Hs; [destruct Hp|].
  apply NoDup_cons_iff in Hnd. destruct Hnd as [Ha Hnd].
  change (contributions rd hf hs (a :: l) n) with (flat_map (contrib_e rd hf n) (edgesOf hs a) ++ contributions rd hf hs l n).
  destruct (Nat.eq_dec a p) as [->|Hap].
  - rewrite contributions_none; [apply app_nil_r|]. intros c e Hc He. apply (Hs c e); [right; exact Hc| |exact He].
    intros X. subst c. exact (Ha Hc).
  - destruct Hp as [Hp|Hp]; [contradiction|]. rewrite flat_map_nil'.
    + cbn [app]. apply IH; [exact Hp|exact Hnd|]. intros c e Hc. apply Hs. right. exact Hc.
    + intros e He. unfold contrib_e. destruct (fst e =? n) eqn:Ee; [|reflexivity]. apply Nat.eqb_eq in Ee. exfalso.
      exact (Hs a e (or_introl eq_refl) Hap He Ee).
Qed.

Lemma contrib_e_local (hf1 hf2 : heap) n (e : nat * rule) :
  (forall i, In i (rule_vals (snd e)) -> valOf hf1 i = valOf hf2 i) ->
  gradOf hf1 (rule_y (snd e)) = gradOf hf2 (rule_y (snd e)) ->
  contrib_e rd hf1 n e = contrib_e rd hf2 n e.
Proof. intros Hv Hg. unfold contrib_e. rewrite (eval_rule_local rd hf1 hf2 (snd e) Hv Hg). reflexivity. Qed.

(* two runs (R: the real one, A: an auxiliary one) on heaps with the same edges at p: if p is the single
   consumer of n in both processed lists and holds the same final gradient, so does n *)
Lemma single_grad_eq (HR HR' HA HA' : heap) lR lA p n es :
  edgesOf HR p = es -> edgesOf HA p = es ->
  In p lR -> NoDup lR -> (forall c e, In c lR -> c <> p -> In e (edgesOf HR c) -> fst e <> n) ->
  In p lA -> NoDup lA -> (forall c e, In c lA -> c <> p -> In e (edgesOf HA c) -> fst e <> n) ->
  (forall e, In e es -> fst e = n ->
     rule_y (snd e) = p /\ forall i, In i (rule_vals (snd e)) -> valOf HR' i = valOf HA' i) ->
  gradOf HR' p = gradOf HA' p ->
  accAll None (contributions rd HR' HR lR n) = Some (gradOf HR' n) ->
  accAll None (contributions rd HA' HA lA n) = Some (gradOf HA' n) ->
  gradOf HR' n = gradOf HA' n /\
  contributions rd HR' HR lR n = contributions rd HA' HA lA n.
Proof.
  intros ER EA PR NR SR PA NA SA' Hloc Hgp AccR AccA.
  rewrite (contributions_single HR' HR p n lR PR NR SR) in AccR |- *.
  rewrite (contributions_single HA' HA p n lA PA NA SA') in AccA |- *.
  rewrite ER in *. rewrite EA in *.
  assert (Eq : flat_map (contrib_e rd HR' n) es = flat_map (contrib_e rd HA' n) es).
  { apply flat_map_ext_in'. intros e He. unfold contrib_e at 1 2. destruct (fst e =? n) eqn:Ee; [|reflexivity].
    apply Nat.eqb_eq in Ee. destruct (Hloc e He Ee) as [Hy Hv].
    rewrite (eval_rule_local rd HR' HA' (snd e) Hv); [reflexivity|]. rewrite Hy. exact Hgp. }
  split; [|exact Eq]. rewrite Eq in AccR. congruence.
Qed.

(* membership and filtering of contributions *)
Lemma contributions_filter_in (hf hs : heap) (P : nat -> bool) n g : forall l,
  In g (contributions rd hf hs l n) ->
  In g (contributions rd hf hs (filter P l) n) \/ In g (contributions rd hf hs (filter (fun c => negb (P c)) l) n).
Proof.
  induction l as [|a l IH]; intros Hg; [destruct Hg|].
  change (contributions rd hf hs (a :: l) n) with (flat_map (contrib_e rd hf n) (edgesOf hs a) ++ contributions rd hf hs l n) in Hg.
  cbn [filter]. apply in_app_or in Hg. destruct (P a); cbn [negb].
  - destruct Hg as [Hg|Hg].
    + left. change (contributions rd hf hs (a :: filter P l) n)
        with (flat_map (contrib_e rd hf n) (edgesOf hs a) ++ contributions rd hf hs (filter P l) n).
      apply in_or_app. left. exact Hg.
    + destruct (IH Hg) as [X|X]; [left|right; exact X].
      change (contributions rd hf hs (a :: filter P l) n)
        with (flat_map (contrib_e rd hf n) (edgesOf hs a) ++ contributions rd hf hs (filter P l) n).
      apply in_or_app. right. exact X.
  - destruct Hg as [Hg|Hg].
    + right. change (contributions rd hf hs (a :: filter (fun c => negb (P c)) l) n)
        with (flat_map (contrib_e rd hf n) (edgesOf hs a) ++ contributions rd hf hs (filter (fun c => negb (P c)) l) n).
      apply in_or_app. left. exact Hg.
    + destruct (IH Hg) as [X|X]; [left; exact X|right].
      change (contributions rd hf hs (a :: filter (fun c => negb (P c)) l) n)
        with (flat_map (contrib_e rd hf n) (edgesOf hs a) ++ contributions rd hf hs (filter (fun c => negb (P c)) l) n).
      apply in_or_app. right. exact X.
Qed.

End GenA.

Lemma NoDup_filter' {X} (f : X -> bool) l : NoDup l -> NoDup (filter f l).
Proof.
  induction l as [|a l IH]; intros Hn; [constructor|]. apply NoDup_cons_iff in Hn. destruct Hn as [Ha Hn]. cbn [filter].
  destruct (f a); [|apply IH; exact Hn]. constructor; [|apply IH; exact Hn]. intros X0. apply filter_In in X0. apply Ha, X0.
Qed.
