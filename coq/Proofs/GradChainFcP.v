(* GradChainFcP.v — the FC layer INSIDE a graph (lifting of GradFcP.v, companion of GradChainP.v).

   FINDING (order).  The nine nodes of the layer do NOT form a contiguous block of bp_topo's order,
   and [rev (seq (length h) 9)] (the order folded by [fc_backward]) is not the order in which bp_topo
   meets them: the bias b and the input x (with their whole ancestries) are visited between the
   layer's nodes ([fc_order_ex]:  y, n+7, b, n+6, n+5, n+4, n+3, n+1, x, n+2, n, w).  The block method
   of GradChainP.v therefore does not apply to a component with several operands.

   METHOD (order free).  Every internal node of the layer has exactly ONE consumer.  bp_topo's final
   heap solves the adjoint equations ([bp_topo_correct]); so does the final heap of [fc_backward]'s
   fold on an auxiliary heap holding y's final gradient ([bp_fold_seg]).  With a single consumer the
   equations determine the gradient of every internal node from the gradient of y, whatever the order
   ([single_grad_eq]); hence the contributions of the layer to w, b, x in the real run are the ones
   [fc_backward] computes, and the final gradients of w, b, x are
        prior + (sum of the contributions of the consumers OUTSIDE the layer, in H') + fc formula.  *)
From Coq Require Import List Arith ZArith Bool Lia Reals Lra.
From Coquelicot Require Import Coquelicot.
From Qeep Require Import Model.Scalar Model.Nd Model.Fill Model.Data Model.Valid Model.Api Model.Grad
  Model.Backprop Model.Components.
From Qeep Require Import Proofs.NdP Proofs.ElemP Proofs.BroadcastP Proofs.ArithP Proofs.TrackP Proofs.CompP
  Proofs.BackpropP Proofs.FcP Proofs.GradFcP.
From Qeep Require Import Spec.RScalar Spec.ScalarDeriv Spec.VjpSpec Proofs.VjpElemP Proofs.VjpGatherP Proofs.GradLossP Proofs.GradActP
  Proofs.GradChainP.
Import ListNotations.
Local Open Scope nat_scope.

(* ===================================================================================== *)
(* 1. generic: a node with a single consumer                                               *)
(* ===================================================================================== *)
Section GenA.
Context {A : Type} {SA : Scalar A}.
Notation T := (tensor A).
Notation heap := (@heap A).
Notation rule := (@rule A).
Variable rd : bred.

Lemma contributions_none (hf hs : heap) l n :
  (forall c e, In c l -> In e (edgesOf hs c) -> fst e <> n) -> contributions rd hf hs l n = [].
Proof.
  intros Hn. unfold contributions. apply flat_map_nil'. intros c Hc. apply flat_map_nil'. intros e He.
  unfold contrib_e. destruct (fst e =? n) eqn:Ee; [|reflexivity]. apply Nat.eqb_eq in Ee. exfalso. exact (Hn c e Hc He Ee).
Qed.

(* if p is the only node of the list with an edge to n, only p contributes *)
Lemma contributions_single (hf hs : heap) p n : forall l,
  In p l -> NoDup l -> (forall c e, In c l -> c <> p -> In e (edgesOf hs c) -> fst e <> n) ->
  contributions rd hf hs l n = flat_map (contrib_e rd hf n) (edgesOf hs p).
Proof.
  induction l as [|a l IH]; intros Hp Hnd Hs; [destruct Hp|].
  apply NoDup_cons_iff in Hnd. destruct Hnd as [Ha Hnd].
  change (contributions rd hf hs (a :: l) n) with (flat_map (contrib_e rd hf n) (edgesOf hs a) ++ contributions rd hf hs l n).
  destruct (Nat.eq_dec a p) as [->|Hap].
  - rewrite contributions_none; [apply app_nil_r|]. intros c e Hc He. apply (Hs c e); [right; exact Hc| |exact He].
    intros X. subst c. exact (Ha Hc).
  - destruct Hp as [Hp|Hp]; [contradiction|]. rewrite flat_map_nil'.
    + cbn [app]. apply IH; [exact Hp|exact Hnd|]. intros c e Hc. apply Hs. right. exact Hc.
    + intros e He. unfold contrib_e. destruct (fst e =? n) eqn:Ee; [|reflexivity]. apply Nat.eqb_eq in Ee. exfalso.
      exact (Hs a e (or_introl eq_refl) Hap He Ee).
Qed.

Lemma contrib_e_local (hf1 hf2 : heap) n (e : nat * rule) :
  (forall i, In i (rule_vals (snd e)) -> valOf hf1 i = valOf hf2 i) ->
  gradOf hf1 (rule_y (snd e)) = gradOf hf2 (rule_y (snd e)) ->
  contrib_e rd hf1 n e = contrib_e rd hf2 n e.
Proof. intros Hv Hg. unfold contrib_e. rewrite (eval_rule_local rd hf1 hf2 (snd e) Hv Hg). reflexivity. Qed.

(* two runs (R: the real one, A: an auxiliary one) on heaps with the same edges at p: if p is the single
   consumer of n in both processed lists and holds the same final gradient, so does n *)
Lemma single_grad_eq (HR HR' HA HA' : heap) lR lA p n es :
  edgesOf HR p = es -> edgesOf HA p = es ->
  In p lR -> NoDup lR -> (forall c e, In c lR -> c <> p -> In e (edgesOf HR c) -> fst e <> n) ->
  In p lA -> NoDup lA -> (forall c e, In c lA -> c <> p -> In e (edgesOf HA c) -> fst e <> n) ->
  (forall e, In e es -> fst e = n ->
     rule_y (snd e) = p /\ forall i, In i (rule_vals (snd e)) -> valOf HR' i = valOf HA' i) ->
  gradOf HR' p = gradOf HA' p ->
  accAll None (contributions rd HR' HR lR n) = Some (gradOf HR' n) ->
  accAll None (contributions rd HA' HA lA n) = Some (gradOf HA' n) ->
  gradOf HR' n = gradOf HA' n /\
  contributions rd HR' HR lR n = contributions rd HA' HA lA n.
Proof.
  intros ER EA PR NR SR PA NA SA' Hloc Hgp AccR AccA.
  rewrite (contributions_single HR' HR p n lR PR NR SR) in AccR |- *.
  rewrite (contributions_single HA' HA p n lA PA NA SA') in AccA |- *.
  rewrite ER in *. rewrite EA in *.
  assert (Eq : flat_map (contrib_e rd HR' n) es = flat_map (contrib_e rd HA' n) es).
  { apply flat_map_ext_in'. intros e He. unfold contrib_e at 1 2. destruct (fst e =? n) eqn:Ee; [|reflexivity].
    apply Nat.eqb_eq in Ee. destruct (Hloc e He Ee) as [Hy Hv].
    rewrite (eval_rule_local rd HR' HA' (snd e) Hv); [reflexivity|]. rewrite Hy. exact Hgp. }
  split; [|exact Eq]. rewrite Eq in AccR. congruence.
Qed.

(* membership and filtering of contributions *)
Lemma contributions_filter_in (hf hs : heap) (P : nat -> bool) n g : forall l,
  In g (contributions rd hf hs l n) ->
  In g (contributions rd hf hs (filter P l) n) \/ In g (contributions rd hf hs (filter (fun c => negb (P c)) l) n).
Proof.
  induction l as [|a l IH]; intros Hg; [destruct Hg|].
  change (contributions rd hf hs (a :: l) n) with (flat_map (contrib_e rd hf n) (edgesOf hs a) ++ contributions rd hf hs l n) in Hg.
  cbn [filter]. apply in_app_or in Hg. destruct (P a); cbn [negb].
  - destruct Hg as [Hg|Hg].
    + left. change (contributions rd hf hs (a :: filter P l) n)
        with (flat_map (contrib_e rd hf n) (edgesOf hs a) ++ contributions rd hf hs (filter P l) n).
      apply in_or_app. left. exact Hg.
    + destruct (IH Hg) as [X|X]; [left|right; exact X].
      change (contributions rd hf hs (a :: filter P l) n)
        with (flat_map (contrib_e rd hf n) (edgesOf hs a) ++ contributions rd hf hs (filter P l) n).
      apply in_or_app. right. exact X.
  - destruct Hg as [Hg|Hg].
    + right. change (contributions rd hf hs (a :: filter (fun c => negb (P c)) l) n)
        with (flat_map (contrib_e rd hf n) (edgesOf hs a) ++ contributions rd hf hs (filter (fun c => negb (P c)) l) n).
      apply in_or_app. left. exact Hg.
    + destruct (IH Hg) as [X|X]; [left; exact X|right].
      change (contributions rd hf hs (a :: filter (fun c => negb (P c)) l) n)
        with (flat_map (contrib_e rd hf n) (edgesOf hs a) ++ contributions rd hf hs (filter (fun c => negb (P c)) l) n).
      apply in_or_app. right. exact X.
Qed.

End GenA.

Lemma NoDup_filter' {X} (f : X -> bool) l : NoDup l -> NoDup (filter f l).
Proof.
  induction l as [|a l IH]; intros Hn; [constructor|]. apply NoDup_cons_iff in Hn. destruct Hn as [Ha Hn]. cbn [filter].
  destruct (f a); [|apply IH; exact Hn]. constructor; [|apply IH; exact Hn]. intros X0. apply filter_In in X0. apply Ha, X0.
Qed.

(* ===================================================================================== *)
(* 2. reals: a target of the component with other consumers in the graph                   *)
(* ===================================================================================== *)
Local Open Scope R_scope.

Section FcChain.
Variables (thr : R) (draw : bool -> nat -> R).
Local Hint Extern 0 (Scalar R) => exact (R_scalar thr draw) : typeclass_instances.
Notation T := (tensor R).
Notation heap := (@heap R).
Notation rule := (@rule R).
Notation idseal := (fun (_ : option nat) (g : T) => g).
Notation prior := GradActP.prior.
Notation prior_ok := GradActP.prior_ok.

Lemma sumC_filter_split rd (hf hs : heap) (P : nat -> bool) n idx : forall l,
  sumC (contributions rd hf hs l n) idx =
  sumC (contributions rd hf hs (filter P l) n) idx + sumC (contributions rd hf hs (filter (fun c => negb (P c)) l) n) idx.
Proof.
  induction l as [|a l IH]; [cbn; ring|].
  change (contributions rd hf hs (a :: l) n) with (flat_map (contrib_e rd hf n) (edgesOf hs a) ++ contributions rd hf hs l n).
  rewrite sumC_app, IH. cbn [filter]. destruct (P a); cbn [negb].
  - change (contributions rd hf hs (a :: filter P l) n)
      with (flat_map (contrib_e rd hf n) (edgesOf hs a) ++ contributions rd hf hs (filter P l) n).
    rewrite sumC_app. ring.
  - change (contributions rd hf hs (a :: filter (fun c => negb (P c)) l) n)
      with (flat_map (contrib_e rd hf n) (edgesOf hs a) ++ contributions rd hf hs (filter (fun c => negb (P c)) l) n).
    rewrite sumC_app. ring.
Qed.

Lemma okPrior_ok (o : option T) ds : GradFcP.okPrior o ds <-> prior_ok ds o.
Proof.
  unfold GradFcP.okPrior, GradActP.prior_ok. destruct o as [g|].
  - split; [intros Hk; apply Hk; reflexivity|intros Hk g0 Eg; inversion Eg; subst; exact Hk].
  - split; [trivial|intros _ g0 Eg; discriminate].
Qed.

(* TARGET LEMMA.  t is an operand of the component [comp]; inside the component its only consumer is p,
   through the single edge (t, rl); in the auxiliary run p contributes gA.  Then, in the real run,
   t ends with  prior + (contributions of the consumers outside comp) + gA. *)
Lemma target_grad rd (H H' hA hA' : heap) order lA comp p t rl ds gA :
  rules_own H ->
  NoDup order -> In p order -> In p comp ->
  (forall c e, In c comp -> c <> p -> In e (edgesOf H c) -> fst e <> t) ->
  In p lA -> NoDup lA -> (forall c e, In c lA -> c <> p -> In e (edgesOf hA c) -> fst e <> t) ->
  edgesOf H p = [(t, rl)] -> edgesOf hA p = [(t, rl)] ->
  rule_y rl = p -> (forall i, In i (rule_vals rl) -> valOf H' i = valOf hA' i) ->
  gradOf H' p = gradOf hA' p ->
  accAll (gradOf H t) (contributions rd H' H order t) = Some (gradOf H' t) ->
  accAll None (contributions rd hA' hA lA t) = Some (Some gA) ->
  wf gA -> dims gA = ds -> prior_ok ds (gradOf H t) ->
  let out := filter (fun c => negb (memb c comp)) order in
  (forall g, In g (contributions rd H' H out t) -> wf g /\ dims g = ds) ->
  exists gt, gradOf H' t = Some gt /\ dims gt = ds /\ wf gt /\
    forall idx, validIdx ds idx ->
      elt gt idx = prior (gradOf H t) idx + sumC (contributions rd H' H out t) idx + elt gA idx.
Proof.
  intros Hown Hnd Hpo Hpc Hsc HpA HndA HsA EH EA Hy Hv Hgp AccT AccA WgA DgA Hpr out Hout.
  set (P := fun c => negb (memb c comp)) in *.
  set (inC := filter (fun c => negb (P c)) order).
  assert (HinC : forall c, In c inC -> In c comp).
  { intros c Hc. apply filter_In in Hc. destruct Hc as [_ Hc]. unfold P in Hc. rewrite negb_involutive in Hc. apply memb_in. exact Hc. }
  assert (HpinC : In p inC).
  { apply filter_In. split; [exact Hpo|]. unfold P. rewrite negb_involutive. apply memb_in. exact Hpc. }
  (* the component's share, in both runs *)
  assert (CR : contributions rd H' H inC t = flat_map (contrib_e rd H' t) [(t, rl)]).
  { rewrite <- EH. apply contributions_single; [exact HpinC|apply NoDup_filter'; exact Hnd|].
    intros c e Hc. apply Hsc. apply HinC. exact Hc. }
  assert (CA : contributions rd hA' hA lA t = flat_map (contrib_e rd hA' t) [(t, rl)]).
  { rewrite <- EA. apply contributions_single; assumption. }
  assert (Eq : contrib_e rd H' t (t, rl) = contrib_e rd hA' t (t, rl)).
  { apply contrib_e_local; cbn [snd]; [exact Hv|rewrite Hy; exact Hgp]. }
  cbn [flat_map] in CR, CA. rewrite Eq in CR. rewrite CA in AccA.
  assert (EgA : contrib_e rd hA' t (t, rl) = [gA]).
  { destruct (contrib_e rd hA' t (t, rl)) as [|g1 [|g2 rest]] eqn:Ec.
    - cbn in AccA. discriminate.
    - cbn in AccA. congruence.
    - exfalso. unfold contrib_e in Ec. destruct (fst (t, rl) =? t)%nat; [|discriminate].
      destruct (eval_rule rd hA' (snd (t, rl))); discriminate. }
  rewrite EgA in CR. cbn [app] in CR.
  (* every contribution is well shaped *)
  assert (Hall : forall g, In g (contributions rd H' H order t) -> wf g /\ dims g = ds).
  { intros g Hg. destruct (contributions_filter_in rd H' H P t g order Hg) as [X|X]; [apply Hout; exact X|].
    fold inC in X. rewrite CR in X. destruct X as [<-|[]]. split; assumption. }
  destruct (accAll_R thr draw ds (contributions rd H' H order t) (gradOf H t) Hpr Hall) as (o' & Ea & Pok & _ & Sum).
  rewrite Ea in AccT. inversion AccT as [Eo]. clear AccT.
  assert (Hne : o' <> None).
  { apply (accAll_nonempty (gradOf H t) (contributions rd H' H order t) o' Ea).
    intros X. assert (In gA (contributions rd H' H order t)); [|rewrite X in *; contradiction].
    assert (In gA (contributions rd H' H inC t)) by (rewrite CR; left; reflexivity).
    unfold contributions in *. apply in_flat_map in H0. destruct H0 as (c & Hc & Hg). apply in_flat_map. exists c.
    split; [|exact Hg]. apply filter_In in Hc. apply Hc. }
  destruct o' as [gt|]; [|congruence]. exists gt. split; [symmetry; exact Eo|]. destruct Pok as [Wt Dt].
  split; [exact Dt|]. split; [exact Wt|]. intros idx Hi. specialize (Sum idx Hi). cbn [GradActP.prior] in Sum. rewrite Sum.
  rewrite (sumC_filter_split rd H' H P t idx order). fold inC. rewrite CR. fold out. cbn [sumC fold_right]. ring.
Qed.

End FcChain.

(* ===================================================================================== *)
(* 3. helpers                                                                              *)
(* ===================================================================================== *)
Local Open Scope nat_scope.
Section Helpers.
Context {A : Type} {SA : Scalar A}.
Notation heap := (@heap A).

Lemma rules_own_prefS (h1 H : heap) : prefS h1 H -> rules_own H -> rules_own h1.
Proof.
  intros [_ P] Ho c nd e Hn He. assert (Hc : c < length h1) by (apply nth_error_Some; congruence).
  destruct (P c Hc) as (_ & _ & Ee). apply (rules_own_edgesOf _ Ho). rewrite <- Ee. unfold edgesOf. rewrite Hn. exact He.
Qed.

Lemma wf_heap_prefS (h1 H : heap) : prefS h1 H -> wf_heap H -> wf_heap h1.
Proof.
  intros [_ P] Ho c nd e Hn He. assert (Hc : c < length h1) by (apply nth_error_Some; congruence).
  destruct (P c Hc) as (_ & _ & Ee). apply (wf_heap_edgesOf _ Ho). rewrite <- Ee. unfold edgesOf. rewrite Hn. exact He.
Qed.

(* a strictly decreasing list of nodes of a heap whose edges point to smaller ids has no back edge *)
Fixpoint desc (l : list nat) : Prop :=
  match l with [] => True | c :: rest => (forall c', In c' rest -> c' < c) /\ desc rest end.

Lemma noback_desc (hh : heap) : wf_heap hh -> forall l, desc l -> noback hh l.
Proof.
  intros W. induction l as [|c l IH]; intros Hd; cbn [noback]; [trivial|]. destruct Hd as [Hc Hd]. split; [|apply IH; exact Hd].
  intros c' e Hc' He _ X. pose proof (wf_heap_edgesOf _ W _ _ He). specialize (Hc c' Hc'). lia.
Qed.

Lemma desc_NoDup : forall l, desc l -> NoDup l.
Proof.
  induction l as [|c l IH]; intros Hd; [constructor|]. destruct Hd as [Hc Hd]. constructor; [|apply IH; exact Hd].
  intros X. specialize (Hc c X). lia.
Qed.

Lemma gradOf_setGrad_same (h : heap) i g : i < length h -> gradOf (setGrad h i g) i = g.
Proof. intros Hi. rewrite gradOf_setGrad, Nat.eqb_refl. apply Nat.ltb_lt in Hi. rewrite Hi. reflexivity. Qed.

Lemma gradOf_setGrad_other (h : heap) i g j : j <> i -> gradOf (setGrad h i g) j = gradOf h j.
Proof. intros Hj. rewrite gradOf_setGrad. apply Nat.eqb_neq in Hj. rewrite Hj. reflexivity. Qed.

End Helpers.
