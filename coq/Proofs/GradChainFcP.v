(* GradChainFcP.v — the FC layer INSIDE a graph (lifting of GradFcP.v, companion of GradChainP.v).

   FINDING (order).  The nine nodes of the layer do NOT form a contiguous block of bp_topo's order,
   and [rev (seq (length h) 9)] (the order folded by [fc_backward]) is not the order in which bp_topo
   meets them: the bias b and the input x (with their whole ancestries) are visited between the
   layer's nodes ([fc_order_ex]:  y, n+7, b, n+6, n+5, n+4, n+3, n+1, x, n+2, n, w).  The block method
   of GradChainP.v therefore does not apply to a component with several operands.

   METHOD (order free).  Every internal node of the layer has exactly ONE consumer.  bp_topo's final
   heap solves the adjoint equations ([bp_topo_correct]); so does the final heap of [fc_backward]'s
   fold on an auxiliary heap holding y's final gradient ([bp_fold_seg]).  With a single consumer the
   equations determine the gradient of every internal node from the gradient of y, whatever the order
   ([single_grad_eq]); hence the contributions of the layer to w, b, x in the real run are the ones
   [fc_backward] computes, and the final gradients of w, b, x are
        prior + (sum of the contributions of the consumers OUTSIDE the layer, in H') + fc formula.  *)
From Coq Require Import List Arith ZArith Bool Lia Reals Lra.
From Coquelicot Require Import Coquelicot.
From Qeep Require Import Model.Scalar Model.Nd Model.Fill Model.Data Model.Valid Model.Api Model.Grad
  Model.Backprop Model.Components.
From Qeep Require Import Proofs.NdP Proofs.ElemP Proofs.BroadcastP Proofs.ArithP Proofs.TrackP Proofs.CompP
  Proofs.BackpropP Proofs.FcP Proofs.GradFcP.
From Qeep Require Import Spec.RScalar Spec.ScalarDeriv Spec.VjpSpec Proofs.VjpElemP Proofs.VjpGatherP Proofs.GradLossP Proofs.GradActP
  Proofs.GradChainP.
Import ListNotations.
Local Open Scope nat_scope.

(* ===================================================================================== *)
(* 1. generic: a node with a single consumer                                               *)
(* ===================================================================================== *)
Section GenA.
Context {A : Type} {SA : Scalar A}.
Notation T := (tensor A).
Notation heap := (@heap A).
Notation rule := (@rule A).
Variable rd : bred.

Lemma contributions_none (hf hs : heap) l n :
  (forall c e, In c l -> In e (edgesOf hs c) -> fst e <> n) -> contributions rd hf hs l n = [].
Proof.
  intros Hn. unfold contributions. apply flat_map_nil'. intros c Hc. apply flat_map_nil'. intros e He.
  unfold contrib_e. destruct (fst e =? n) eqn:Ee; [|reflexivity]. apply Nat.eqb_eq in Ee. exfalso. exact (Hn c e Hc He Ee).
Qed.

(* if p is the only node of the list with an edge to n, only p contributes *)
Lemma contributions_single (hf hs : heap) p n : forall l,
  In p l -> NoDup l -> (forall c e, In c l -> c <> p -> In e (edgesOf hs c) -> fst e <> n) ->
  contributions rd hf hs l n = flat_map (contrib_e rd hf n) (edgesOf hs p).
Proof.
  induction l as [|a l IH]; intros Hp Hnd Hs; [destruct Hp|].
  apply NoDup_cons_iff in Hnd. destruct Hnd as [Ha Hnd].
  change (contributions rd hf hs (a :: l) n) with (flat_map (contrib_e rd hf n) (edgesOf hs a) ++ contributions rd hf hs l n).
  destruct (Nat.eq_dec a p) as [->|Hap].
  - rewrite contributions_none; [apply app_nil_r|]. intros c e Hc He. apply (Hs c e); [right; exact Hc| |exact He].
    intros X. subst c. exact (Ha Hc).
  - destruct Hp as [Hp|Hp]; [contradiction|]. rewrite flat_map_nil'.
    + cbn [app]. apply IH; [exact Hp|exact Hnd|]. intros c e Hc. apply Hs. right. exact Hc.
    + intros e He. unfold contrib_e. destruct (fst e =? n) eqn:Ee; [|reflexivity]. apply Nat.eqb_eq in Ee. exfalso.
      exact (Hs a e (or_introl eq_refl) Hap He Ee).
Qed.

Lemma contrib_e_local (hf1 hf2 : heap) n (e : nat * rule) :
  (forall i, In i (rule_vals (snd e)) -> valOf hf1 i = valOf hf2 i) ->
  gradOf hf1 (rule_y (snd e)) = gradOf hf2 (rule_y (snd e)) ->
  contrib_e rd hf1 n e = contrib_e rd hf2 n e.
Proof. intros Hv Hg. unfold contrib_e. rewrite (eval_rule_local rd hf1 hf2 (snd e) Hv Hg). reflexivity. Qed.

(* two runs (R: the real one, A: an auxiliary one) on heaps with the same edges at p: if p is the single
   consumer of n in both processed lists and holds the same final gradient, so does n *)
Lemma single_grad_eq (HR HR' HA HA' : heap) lR lA p n es :
  edgesOf HR p = es -> edgesOf HA p = es ->
  In p lR -> NoDup lR -> (forall c e, In c lR -> c <> p -> In e (edgesOf HR c) -> fst e <> n) ->
  In p lA -> NoDup lA -> (forall c e, In c lA -> c <> p -> In e (edgesOf HA c) -> fst e <> n) ->
  (forall e, In e es -> fst e = n ->
     rule_y (snd e) = p /\ forall i, In i (rule_vals (snd e)) -> valOf HR' i = valOf HA' i) ->
  gradOf HR' p = gradOf HA' p ->
  accAll None (contributions rd HR' HR lR n) = Some (gradOf HR' n) ->
  accAll None (contributions rd HA' HA lA n) = Some (gradOf HA' n) ->
  gradOf HR' n = gradOf HA' n /\
  contributions rd HR' HR lR n = contributions rd HA' HA lA n.
Proof.
  intros ER EA PR NR SR PA NA SA' Hloc Hgp AccR AccA.
  rewrite (contributions_single HR' HR p n lR PR NR SR) in AccR |- *.
  rewrite (contributions_single HA' HA p n lA PA NA SA') in AccA |- *.
  rewrite ER in *. rewrite EA in *.
  assert (Eq : flat_map (contrib_e rd HR' n) es = flat_map (contrib_e rd HA' n) es).
  { apply flat_map_ext_in'. intros e He. unfold contrib_e at 1 2. destruct (fst e =? n) eqn:Ee; [|reflexivity].
    apply Nat.eqb_eq in Ee. destruct (Hloc e He Ee) as [Hy Hv].
    rewrite (eval_rule_local rd HR' HA' (snd e) Hv); [reflexivity|]. rewrite Hy. exact Hgp. }
  split; [|exact Eq]. rewrite Eq in AccR. congruence.
Qed.

(* membership and filtering of contributions *)
Lemma contributions_filter_in (hf hs : heap) (P : nat -> bool) n g : forall l,
  In g (contributions rd hf hs l n) ->
  In g (contributions rd hf hs (filter P l) n) \/ In g (contributions rd hf hs (filter (fun c => negb (P c)) l) n).
Proof.
  induction l as [|a l IH]; intros Hg; [destruct Hg|].
  change (contributions rd hf hs (a :: l) n) with (flat_map (contrib_e rd hf n) (edgesOf hs a) ++ contributions rd hf hs l n) in Hg.
  cbn [filter]. apply in_app_or in Hg. destruct (P a); cbn [negb].
  - destruct Hg as [Hg|Hg].
    + left. change (contributions rd hf hs (a :: filter P l) n)
        with (flat_map (contrib_e rd hf n) (edgesOf hs a) ++ contributions rd hf hs (filter P l) n).
      apply in_or_app. left. exact Hg.
    + destruct (IH Hg) as [X|X]; [left|right; exact X].
      change (contributions rd hf hs (a :: filter P l) n)
        with (flat_map (contrib_e rd hf n) (edgesOf hs a) ++ contributions rd hf hs (filter P l) n).
      apply in_or_app. right. exact X.
  - destruct Hg as [Hg|Hg].
    + right. change (contributions rd hf hs (a :: filter (fun c => negb (P c)) l) n)
        with (flat_map (contrib_e rd hf n) (edgesOf hs a) ++ contributions rd hf hs (filter (fun c => negb (P c)) l) n).
      apply in_or_app. left. exact Hg.
    + destruct (IH Hg) as [X|X]; [left; exact X|right].
      change (contributions rd hf hs (a :: filter (fun c => negb (P c)) l) n)
        with (flat_map (contrib_e rd hf n) (edgesOf hs a) ++ contributions rd hf hs (filter (fun c => negb (P c)) l) n).
      apply in_or_app. right. exact X.
Qed.

End GenA.

Lemma NoDup_filter' {X} (f : X -> bool) l : NoDup l -> NoDup (filter f l).
Proof.
  induction l as [|a l IH]; intros Hn; [constructor|]. apply NoDup_cons_iff in Hn. destruct Hn as [Ha Hn]. cbn [filter].
  destruct (f a); [|apply IH; exact Hn]. constructor; [|apply IH; exact Hn]. intros X0. apply filter_In in X0. apply Ha, X0.
Qed.

(* ===================================================================================== *)
(* 2. reals: a target of the component with other consumers in the graph                   *)
(* ===================================================================================== *)
Local Open Scope R_scope.

Section FcChain.
Variables (thr : R) (draw : bool -> nat -> R).
Local Hint Extern 0 (Scalar R) => exact (R_scalar thr draw) : typeclass_instances.
Notation T := (tensor R).
Notation heap := (@heap R).
Notation rule := (@rule R).
Notation idseal := (fun (_ : option nat) (g : T) => g).
Notation prior := GradActP.prior.
Notation prior_ok := GradActP.prior_ok.

Lemma sumC_filter_split rd (hf hs : heap) (P : nat -> bool) n idx : forall l,
  sumC (contributions rd hf hs l n) idx =
  sumC (contributions rd hf hs (filter P l) n) idx + sumC (contributions rd hf hs (filter (fun c => negb (P c)) l) n) idx.
Proof.
  induction l as [|a l IH]; [cbn; ring|].
  change (contributions rd hf hs (a :: l) n) with (flat_map (contrib_e rd hf n) (edgesOf hs a) ++ contributions rd hf hs l n).
  rewrite sumC_app, IH. cbn [filter]. destruct (P a); cbn [negb].
  - change (contributions rd hf hs (a :: filter P l) n)
      with (flat_map (contrib_e rd hf n) (edgesOf hs a) ++ contributions rd hf hs (filter P l) n).
    rewrite sumC_app. ring.
  - change (contributions rd hf hs (a :: filter (fun c => negb (P c)) l) n)
      with (flat_map (contrib_e rd hf n) (edgesOf hs a) ++ contributions rd hf hs (filter (fun c => negb (P c)) l) n).
    rewrite sumC_app. ring.
Qed.

Lemma okPrior_ok (o : option T) ds : GradFcP.okPrior o ds <-> prior_ok ds o.
Proof.
  unfold GradFcP.okPrior, GradActP.prior_ok. destruct o as [g|].
  - split; [intros Hk; apply Hk; reflexivity|intros Hk g0 Eg; inversion Eg; subst; exact Hk].
  - split; [trivial|intros _ g0 Eg; discriminate].
Qed.

(* TARGET LEMMA.  t is an operand of the component [comp]; inside the component its only consumer is p,
   through the single edge (t, rl); in the auxiliary run p contributes gA.  Then, in the real run,
   t ends with  prior + (contributions of the consumers outside comp) + gA. *)
Lemma target_grad rd (H H' hA hA' : heap) order lA comp p t rl ds gA :
  rules_own H ->
  NoDup order -> In p order -> In p comp ->
  (forall c e, In c comp -> c <> p -> In e (edgesOf H c) -> fst e <> t) ->
  In p lA -> NoDup lA -> (forall c e, In c lA -> c <> p -> In e (edgesOf hA c) -> fst e <> t) ->
  edgesOf H p = [(t, rl)] -> edgesOf hA p = [(t, rl)] ->
  rule_y rl = p -> (forall i, In i (rule_vals rl) -> valOf H' i = valOf hA' i) ->
  gradOf H' p = gradOf hA' p ->
  accAll (gradOf H t) (contributions rd H' H order t) = Some (gradOf H' t) ->
  accAll None (contributions rd hA' hA lA t) = Some (Some gA) ->
  wf gA -> dims gA = ds -> prior_ok ds (gradOf H t) ->
  let out := filter (fun c => negb (memb c comp)) order in
  (forall g, In g (contributions rd H' H out t) -> wf g /\ dims g = ds) ->
  exists gt, gradOf H' t = Some gt /\ dims gt = ds /\ wf gt /\
    forall idx, validIdx ds idx ->
      elt gt idx = prior (gradOf H t) idx + sumC (contributions rd H' H out t) idx + elt gA idx.
Proof.
  intros Hown Hnd Hpo Hpc Hsc HpA HndA HsA EH EA Hy Hv Hgp AccT AccA WgA DgA Hpr out Hout.
  set (P := fun c => negb (memb c comp)) in *.
  set (inC := filter (fun c => negb (P c)) order).
  assert (HinC : forall c, In c inC -> In c comp).
  { intros c Hc. apply filter_In in Hc. destruct Hc as [_ Hc]. unfold P in Hc. rewrite negb_involutive in Hc. apply memb_in. exact Hc. }
  assert (HpinC : In p inC).
  { apply filter_In. split; [exact Hpo|]. unfold P. rewrite negb_involutive. apply memb_in. exact Hpc. }
  (* the component's share, in both runs *)
  assert (CR : contributions rd H' H inC t = flat_map (contrib_e rd H' t) [(t, rl)]).
  { rewrite <- EH. apply contributions_single; [exact HpinC|apply NoDup_filter'; exact Hnd|].
    intros c e Hc. apply Hsc. apply HinC. exact Hc. }
  assert (CA : contributions rd hA' hA lA t = flat_map (contrib_e rd hA' t) [(t, rl)]).
  { rewrite <- EA. apply contributions_single; assumption. }
  assert (Eq : contrib_e rd H' t (t, rl) = contrib_e rd hA' t (t, rl)).
  { apply contrib_e_local; cbn [snd]; [exact Hv|rewrite Hy; exact Hgp]. }
  cbn [flat_map] in CR, CA. rewrite Eq in CR. rewrite CA in AccA.
  assert (EgA : contrib_e rd hA' t (t, rl) = [gA]).
  { destruct (contrib_e rd hA' t (t, rl)) as [|g1 [|g2 rest]] eqn:Ec.
    - cbn in AccA. discriminate.
    - cbn in AccA. congruence.
    - exfalso. unfold contrib_e in Ec. destruct (fst (t, rl) =? t)%nat; [|discriminate].
      destruct (eval_rule rd hA' (snd (t, rl))); discriminate. }
  rewrite EgA in CR. cbn [app] in CR.
  (* every contribution is well shaped *)
  assert (Hall : forall g, In g (contributions rd H' H order t) -> wf g /\ dims g = ds).
  { intros g Hg. destruct (contributions_filter_in rd H' H P t g order Hg) as [X|X]; [apply Hout; exact X|].
    fold inC in X. rewrite CR in X. destruct X as [<-|[]]. split; assumption. }
  destruct (accAll_R thr draw ds (contributions rd H' H order t) (gradOf H t) Hpr Hall) as (o' & Ea & Pok & _ & Sum).
  rewrite Ea in AccT. inversion AccT as [Eo]. clear AccT.
  assert (Hne : o' <> None).
  { apply (accAll_nonempty (gradOf H t) (contributions rd H' H order t) o' Ea).
    intros X. assert (In gA (contributions rd H' H order t)); [|rewrite X in *; contradiction].
    assert (In gA (contributions rd H' H inC t)) by (rewrite CR; left; reflexivity).
    unfold contributions in *. apply in_flat_map in H0. destruct H0 as (c & Hc & Hg). apply in_flat_map. exists c.
    split; [|exact Hg]. apply filter_In in Hc. apply Hc. }
  destruct o' as [gt|]; [|congruence]. exists gt. split; [symmetry; exact Eo|]. destruct Pok as [Wt Dt].
  split; [exact Dt|]. split; [exact Wt|]. intros idx Hi. specialize (Sum idx Hi). cbn [GradActP.prior] in Sum. rewrite Sum.
  rewrite (sumC_filter_split rd H' H P t idx order). fold inC. rewrite CR. fold out. cbn [sumC fold_right]. ring.
Qed.

End FcChain.

(* ===================================================================================== *)
(* 3. helpers                                                                              *)
(* ===================================================================================== *)
Local Open Scope nat_scope.
Section Helpers.
Context {A : Type} {SA : Scalar A}.
Notation heap := (@heap A).

Lemma rules_own_prefS (h1 H : heap) : prefS h1 H -> rules_own H -> rules_own h1.
Proof.
  intros [_ P] Ho c nd e Hn He. assert (Hc : c < length h1) by (apply nth_error_Some; congruence).
  destruct (P c Hc) as (_ & _ & Ee). apply (rules_own_edgesOf _ Ho). rewrite <- Ee. unfold edgesOf. rewrite Hn. exact He.
Qed.

Lemma wf_heap_prefS (h1 H : heap) : prefS h1 H -> wf_heap H -> wf_heap h1.
Proof.
  intros [_ P] Ho c nd e Hn He. assert (Hc : c < length h1) by (apply nth_error_Some; congruence).
  destruct (P c Hc) as (_ & _ & Ee). apply (wf_heap_edgesOf _ Ho). rewrite <- Ee. unfold edgesOf. rewrite Hn. exact He.
Qed.

(* a strictly decreasing list of nodes of a heap whose edges point to smaller ids has no back edge *)
Fixpoint desc (l : list nat) : Prop :=
  match l with [] => True | c :: rest => (forall c', In c' rest -> c' < c) /\ desc rest end.

Lemma noback_desc (hh : heap) : wf_heap hh -> forall l, desc l -> noback hh l.
Proof.
  intros W. induction l as [|c l IH]; intros Hd; cbn [noback]; [trivial|]. destruct Hd as [Hc Hd]. split; [|apply IH; exact Hd].
  intros c' e Hc' He _ X. pose proof (wf_heap_edgesOf _ W _ _ He). specialize (Hc c' Hc'). lia.
Qed.

Lemma desc_NoDup : forall l, desc l -> NoDup l.
Proof.
  induction l as [|c l IH]; intros Hd; [constructor|]. destruct Hd as [Hc Hd]. constructor; [|apply IH; exact Hd].
  intros X. specialize (Hc c X). lia.
Qed.

Lemma gradOf_setGrad_same (h : heap) i g : i < length h -> gradOf (setGrad h i g) i = g.
Proof. intros Hi. rewrite gradOf_setGrad, Nat.eqb_refl. apply Nat.ltb_lt in Hi. rewrite Hi. reflexivity. Qed.

Lemma gradOf_setGrad_other (h : heap) i g j : j <> i -> gradOf (setGrad h i g) j = gradOf h j.
Proof. intros Hj. rewrite gradOf_setGrad. apply Nat.eqb_neq in Hj. rewrite Hj. reflexivity. Qed.

End Helpers.

(* the observers of the nine nodes of [fc_heap] *)
Section FcObs.
Context {A : Type} {SA : Scalar A}.
Notation T := (tensor A).
Notation heap := (@heap A).

Lemma fc_heap_obs (h : heap) w b x tx (w1v x1v bwv bxv y1v y2v by2v bbv yv : T) name :
  let h1 := fc_heap h w b x tx w1v x1v bwv bxv y1v y2v by2v bbv yv name in
  let n := length h in
  let n1 := S n in let n2 := S n1 in let n3 := S n2 in let n4 := S n3 in
  let n5 := S n4 in let n6 := S n5 in let n7 := S n6 in let n8 := S n7 in
  (edgesOf h1 n = [(w, RReshape n w)] /\ trackedOf h1 n = true) /\
  (edgesOf h1 n1 = (if tx then [(x, RReshape n1 x)] else []) /\ trackedOf h1 n1 = tx) /\
  (edgesOf h1 n2 = [(n, RBroadcast n2 n)] /\ trackedOf h1 n2 = true) /\
  (edgesOf h1 n3 = (if tx then [(n1, RBroadcast n3 n1)] else []) /\ trackedOf h1 n3 = tx) /\
  (edgesOf h1 n4 = [(n2, RMatMulA n4 n3); (n3, RMatMulB n4 n2)] /\ trackedOf h1 n4 = true) /\
  (edgesOf h1 n5 = [(n4, RSumAlong n5 n4 2%Z)] /\ trackedOf h1 n5 = true) /\
  (edgesOf h1 n6 = [(n5, RBroadcast n6 n5)] /\ trackedOf h1 n6 = true) /\
  (edgesOf h1 n7 = [(b, RBroadcast n7 b)] /\ trackedOf h1 n7 = true) /\
  (edgesOf h1 n8 = [(n6, RId n8); (n7, RId n8)] /\ trackedOf h1 n8 = true).
Proof.
  cbv zeta. unfold fc_heap. cbv zeta.
  repeat split.
  - at_rw edgesOf_at (length h) 0. reflexivity.
  - at_rw trackedOf_at (length h) 0. reflexivity.
  - at_rw edgesOf_at (S (length h)) 1. reflexivity.
  - at_rw trackedOf_at (S (length h)) 1. reflexivity.
  - at_rw edgesOf_at (S (S (length h))) 2. reflexivity.
  - at_rw trackedOf_at (S (S (length h))) 2. reflexivity.
  - at_rw edgesOf_at (S (S (S (length h)))) 3. reflexivity.
  - at_rw trackedOf_at (S (S (S (length h)))) 3. reflexivity.
  - at_rw edgesOf_at (S (S (S (S (length h))))) 4. reflexivity.
  - at_rw trackedOf_at (S (S (S (S (length h))))) 4. reflexivity.
  - at_rw edgesOf_at (S (S (S (S (S (length h)))))) 5. reflexivity.
  - at_rw trackedOf_at (S (S (S (S (S (length h)))))) 5. reflexivity.
  - at_rw edgesOf_at (S (S (S (S (S (S (length h))))))) 6. reflexivity.
  - at_rw trackedOf_at (S (S (S (S (S (S (length h))))))) 6. reflexivity.
  - at_rw edgesOf_at (S (S (S (S (S (S (S (length h)))))))) 7. reflexivity.
  - at_rw trackedOf_at (S (S (S (S (S (S (S (length h)))))))) 7. reflexivity.
  - at_rw edgesOf_at (S (S (S (S (S (S (S (S (length h))))))))) 8. reflexivity.
  - at_rw trackedOf_at (S (S (S (S (S (S (S (S (length h))))))))) 8. reflexivity.
Qed.
End FcObs.

(* ===================================================================================== *)
(* 4. the FC layer in a graph                                                              *)
(* ===================================================================================== *)
Local Open Scope R_scope.
Section FcMain.
Variables (thr : R) (draw : bool -> nat -> R).
Local Hint Extern 0 (Scalar R) => exact (R_scalar thr draw) : typeclass_instances.
Notation T := (tensor R).
Notation heap := (@heap R).
Notation rule := (@rule R).
Notation idseal := (fun (_ : option nat) (g : T) => g).
Notation prior := GradActP.prior.
Notation prior_ok := GradActP.prior_ok.

(* [c] ranges over the nine nodes: none but p has an edge to the node at hand *)
Ltac fc_sing E0 E1 E2 E3 E4 E5 E6 E7 E8 :=
  let c := fresh "c" in let e := fresh "e" in let Hc := fresh "Hc" in let Hne := fresh "Hne" in
  let He := fresh "He" in let X := fresh "X" in
  intros c e Hc Hne He X; cbn [In] in Hc;
  repeat (destruct Hc as [Hc|Hc];
    [subst c;
     first [rewrite E0 in He|rewrite E1 in He|rewrite E2 in He|rewrite E3 in He|rewrite E4 in He
           |rewrite E5 in He|rewrite E6 in He|rewrite E7 in He|rewrite E8 in He];
     try (match type of He with context [if ?t then _ else _] => destruct t end); cbn [In] in He;
     repeat (destruct He as [He|He]; [subst e; cbn [fst] in X; first [nlia|congruence]|]); destruct He|]);
  destruct Hc.

(* the edge of p into the node at hand reads p's gradient and values of the layer only *)
Ltac fc_loc :=
  let e := fresh "e" in let He := fresh "He" in let Hf := fresh "Hf" in
  intros e He Hf; cbn [In] in He;
  repeat (destruct He as [He|He];
    [subst e; cbn [fst snd] in Hf |- *;
     first [ exfalso; nlia
           | split; [reflexivity|]; let i := fresh "i" in let Hi := fresh "Hi" in
             cbn [rule_vals]; intros i Hi; cbn [In] in Hi; repeat (destruct Hi as [Hi|Hi]; [subst i; nlia|]); destruct Hi ]|]);
  destruct He.

Theorem fc_backward_in_graph rd (h h1 H H' : heap) w b x name (wv bv xv : T) O B F y r log gy :
  valOf h w = Some wv -> valOf h b = Some bv -> valOf h x = Some xv ->
  wf wv -> wf bv -> wf xv -> dims wv = [O] -> dims bv = [O] -> dims xv = [B; F] ->
  trackedOf h w = true -> dirtyOf h w = false -> trackedOf h b = true -> dirtyOf h b = false ->
  dirtyOf h x = false -> w <> b ->
  fc_forward h w b [Some x] name = (h1, Ok y) ->
  let n := length h in
  let ints := [n; S n; S (S n); S (S (S n)); S (S (S (S n))); S (S (S (S (S n)))); S (S (S (S (S (S n)))));
               S (S (S (S (S (S (S n))))))] in
  prefS h1 H -> rules_own H -> wf_heap H -> no_outside_edge H y ints ->
  In y (topoOrder H r) ->
  (forall c, In c ints -> gradOf H c = None) ->
  prior_ok [O] (gradOf H w) -> prior_ok [O] (gradOf H b) -> prior_ok [B; F] (gradOf H x) ->
  bp_topo rd idseal H r = (H', log, Ok tt) ->
  gradOf H' y = Some gy -> wf gy -> dims gy = [B; O] ->
  let out := outsideOf H r y ints in
  (forall g, In g (contributions rd H' H out w) -> wf g /\ dims g = [O]) ->
  (forall g, In g (contributions rd H' H out b) -> wf g /\ dims g = [O]) ->
  (forall g, In g (contributions rd H' H out x) -> wf g /\ dims g = [B; F]) ->
  y = S (S (S (S (S (S (S (S n))))))) /\
  (exists gw, gradOf H' w = Some gw /\ dims gw = [O] /\ wf gw /\
     forall o, (o < O)%nat ->
       elt gw [o] = prior (gradOf H w) [o] + sumC (contributions rd H' H out w) [o] +
                    rdc rd B * SumN B (fun bi => elt gy [bi; o] * SumN F (fun d => elt xv [bi; d]))) /\
  (exists gb, gradOf H' b = Some gb /\ dims gb = [O] /\ wf gb /\
     forall o, (o < O)%nat ->
       elt gb [o] = prior (gradOf H b) [o] + sumC (contributions rd H' H out b) [o] +
                    rdc rd B * SumN B (fun bi => elt gy [bi; o])) /\
  (trackedOf h x = true ->
   exists gx, gradOf H' x = Some gx /\ dims gx = [B; F] /\ wf gx /\
     forall bi d, (bi < B)%nat -> (d < F)%nat ->
       elt gx [bi; d] = prior (gradOf H x) [bi; d] + sumC (contributions rd H' H out x) [bi; d] +
                        SumN O (fun o => elt gy [bi; o] * elt wv [o])).
Proof.
  intros Vw Vb Vx Ww Wb Wx Dw Db Dx Tw Dtw Tb Dtb Dtx Nwb E n ints P Hown Hwf NE Hin Hint0 Pw Pb Px Ebp Hgy Wgy Dgy out
         Houtw Houtb Houtx.
  destruct (fc_structure h w b x name wv bv xv h1 y Vw Vb Vx Tw Dtw Tb Dtb Dtx E)
    as (w1v & x1v & bwv & bxv & y1v & y2v & by2v & bbv & yv & _ & _ & _ & _ & _ & _ & _ & _ & _ & Ey & Eh).
  fold n in Ey. subst y. split; [reflexivity|].
  remember (trackedOf h x) as tx eqn:Etx.
  set (n1 := S n) in *. set (n2 := S n1) in *. set (n3 := S n2) in *. set (n4 := S n3) in *.
  set (n5 := S n4) in *. set (n6 := S n5) in *. set (n7 := S n6) in *. set (n8 := S n7) in *.
  subst ints.
  assert (Hn1 : n1 = S n) by reflexivity. assert (Hn2 : n2 = S n1) by reflexivity. assert (Hn3 : n3 = S n2) by reflexivity.
  assert (Hn4 : n4 = S n3) by reflexivity. assert (Hn5 : n5 = S n4) by reflexivity. assert (Hn6 : n6 = S n5) by reflexivity.
  assert (Hn7 : n7 = S n6) by reflexivity. assert (Hn8 : n8 = S n7) by reflexivity.
  assert (Lw : (w < n)%nat) by (eapply valOf_some_lt; eauto).
  assert (Lb : (b < n)%nat) by (eapply valOf_some_lt; eauto).
  assert (Lx : (x < n)%nat) by (eapply valOf_some_lt; eauto).
  assert (Nwx : w <> x) by (intros X; subst x; assert (wv = xv) by congruence; subst xv; rewrite Dw in Dx; discriminate).
  assert (Nbx : b <> x) by (intros X; subst x; assert (bv = xv) by congruence; subst xv; rewrite Db in Dx; discriminate).
  assert (L1 : length h1 = S n8).
  { rewrite Eh. unfold fc_heap. rewrite app_length. cbn [length]. unfold n8, n7, n6, n5, n4, n3, n2, n1, n. lia. }
  (* the nine nodes, in h1 and in H *)
  pose proof (fc_heap_obs h w b x tx w1v x1v bwv bxv y1v y2v by2v bbv yv name) as Ob. cbv zeta in Ob. rewrite <- Eh in Ob.
  fold n n1 n2 n3 n4 n5 n6 n7 n8 in Ob.
  destruct Ob as ((E0 & T0) & (E1 & T1) & (E2 & T2) & (E3 & T3) & (E4 & T4) & (E5 & T5) & (E6 & T6) & (E7 & T7) & (E8 & T8)).
  assert (EHall : forall i, (i < S n8)%nat -> edgesOf H i = edgesOf h1 i).
  { intros i Hi. symmetry. apply (proj2 P). rewrite L1. exact Hi. }
  assert (THall : forall i, (i < S n8)%nat -> trackedOf H i = trackedOf h1 i).
  { intros i Hi. symmetry. apply (proj2 P). rewrite L1. exact Hi. }
  assert (Told : forall i, (i < n)%nat -> trackedOf h1 i = trackedOf h i).
  { intros i Hi. rewrite Eh. unfold fc_heap. cbv zeta. apply trackedOf_app. exact Hi. }
  (* the real run *)
  assert (Hr : trackedOf H r = true) by (eapply in_topo_tracked; exact Hin).
  destruct (bp_topo_correct rd H r H' log Hown Hwf Hr Ebp) as (rv & ones & _ & _ & _ & RS & _ & Racc & _ & _ & _).
  destruct (topoOrder_facts H r Hwf Hr) as (Hnd & Htr & Hord & _ & _ & Hle & _). cbv zeta in Racc, Hnd, Htr, Hord, Hle.
  set (order := topoOrder H r) in *.
  assert (Hyr : (n8 <= r)%nat) by (apply Hle; exact Hin).
  (* the auxiliary run: y holds gy, nothing else holds a gradient *)
  set (hA := setGrad (setGrad (setGrad (setGrad h1 n8 (Some gy)) w None) b None) x None).
  assert (SA : sameS h1 hA) by (repeat (eapply sameS_trans; [|apply sameS_setGrad]); apply sameS_refl).
  assert (EAall : forall i, edgesOf hA i = edgesOf h1 i) by (intros i; symmetry; apply (sameS_edges _ _ SA)).
  assert (TAall : forall i, trackedOf hA i = trackedOf h1 i) by (intros i; symmetry; apply (sameS_trk _ _ SA)).
  assert (GAy : gradOf hA n8 = Some gy).
  { unfold hA. rewrite !gradOf_setGrad_other by nlia. apply gradOf_setGrad_same. rewrite L1. nlia. }
  assert (GAw : gradOf hA w = None).
  { unfold hA. rewrite !gradOf_setGrad_other by (first [exact Nwx|exact Nwb]). apply gradOf_setGrad_same.
    rewrite length_setGrad, L1. nlia. }
  assert (GAb : gradOf hA b = None).
  { unfold hA. rewrite gradOf_setGrad_other by exact Nbx. apply gradOf_setGrad_same. rewrite !length_setGrad, L1. nlia. }
  assert (GAx : gradOf hA x = None).
  { unfold hA. apply gradOf_setGrad_same. rewrite !length_setGrad, L1. nlia. }
  assert (GAi : forall i, (n <= i < n8)%nat -> gradOf hA i = None).
  { intros i Hi. unfold hA. rewrite !gradOf_setGrad_other by nlia. rewrite Eh. apply fc_heap_grad_new. fold n. nlia. }
  destruct (fc_backward thr draw rd h w b x name wv bv xv O B F h1 n8 hA [] gy
              Vw Vb Vx Ww Wb Wx Dw Db Dx Tw Dtw Tb Dtb Dtx Nwb E SA GAy Wgy Dgy)
    as (_ & _ & hA' & logA & EfA & SAA & _ & (gwA & GwA & DwA & WwA & FwA) & (gbA & GbA & DbA & WbA & FbA) & HxA);
    [exact GAi|rewrite GAw; apply okPrior_None|rewrite GAb; apply okPrior_None|rewrite GAx; apply okPrior_None|].
  rewrite <- Etx in HxA. rewrite GAw in FwA. rewrite GAb in FbA.
  set (lA := rev (seq (length h) 9)) in *.
  assert (ElA : lA = [n8; n7; n6; n5; n4; n3; n2; n1; n]) by reflexivity.
  assert (Dsc : desc lA).
  { rewrite ElA. cbn [desc]. repeat (split; [intros c' Hc'; cbn [In] in Hc'; first [contradiction|nlia]|]). exact I. }
  assert (NDA : NoDup lA) by (apply desc_NoDup; exact Dsc).
  assert (HownA : rules_own hA) by (eapply rules_own_sameS; [exact SA|]; eapply rules_own_prefS; eauto).
  assert (HwfA : wf_heap hA) by (eapply wf_heap_sameS; [exact SA|]; eapply wf_heap_prefS; eauto).
  destruct (bp_fold_seg rd lA hA [] hA' logA HownA HwfA NDA (noback_desc hA HwfA lA Dsc) EfA) as (_ & AccA & _).
  assert (Vag : forall i, (i < S n8)%nat -> valOf H' i = valOf hA' i).
  { intros i Hi. rewrite (proj1 (RS i)). rewrite <- (proj1 (proj2 P i ltac:(rewrite L1; exact Hi))).
    rewrite (sameS_val _ _ SA), (sameS_val _ _ SAA). reflexivity. }
  assert (LAcomp : forall c, In c lA -> In c [n8; n; n1; n2; n3; n4; n5; n6; n7]).
  { intros c Hc. rewrite ElA in Hc. cbn [In] in Hc |- *. tauto. }
  assert (Lcomp : forall c, In c [n8; n; n1; n2; n3; n4; n5; n6; n7] -> (c < S n8)%nat).
  { intros c Hc. cbn [In] in Hc. nlia. }
  (* one step down the layer: p is the single consumer of the internal node nn *)
  assert (Step : forall p nn es,
     edgesOf h1 p = es -> (p < S n8)%nat -> In p order -> In p lA -> In nn [n; n1; n2; n3; n4; n5; n6; n7] -> trackedOf h1 nn = true ->
     (exists e, In e es /\ fst e = nn) ->
     (forall c e, In c [n8; n; n1; n2; n3; n4; n5; n6; n7] -> c <> p -> In e (edgesOf h1 c) -> fst e <> nn) ->
     (forall e, In e es -> fst e = nn ->
        rule_y (snd e) = p /\ forall i, In i (rule_vals (snd e)) -> (i < S n8)%nat) ->
     gradOf H' p = gradOf hA' p ->
     gradOf H' nn = gradOf hA' nn /\ In nn order).
  { intros p nn es Ep Lp Po Pa Hnn Tnn (e0 & He0 & Hf0) Hsing Hloc Hgp.
    assert (Lnn : (n <= nn < n8)%nat) by (cbn [In] in Hnn; nlia).
    assert (Onn : In nn order).
    { rewrite <- Hf0. apply (ordered_in H order Hord p e0 Po); [rewrite EHall by exact Lp; rewrite Ep; exact He0|].
      rewrite Hf0, THall by nlia. exact Tnn. }
    split; [|exact Onn].
    pose proof (Racc nn Onn) as AccR. rewrite (Hint0 nn Hnn) in AccR.
    assert (Xr : (nn =? r)%nat = false) by (apply Nat.eqb_neq; nlia). rewrite Xr in AccR. cbn [app] in AccR.
    pose proof (AccA nn ltac:(rewrite TAall; exact Tnn)) as AccAn. rewrite (GAi nn Lnn) in AccAn.
    apply (single_grad_eq rd H H' hA hA' order lA p nn es); try assumption.
    - rewrite EHall by exact Lp. exact Ep.
    - rewrite EAall. exact Ep.
    - intros c e Hc Hne He X. assert (Hcc : In c [n8; n; n1; n2; n3; n4; n5; n6; n7]) by (apply (NE c e He); rewrite X; exact Hnn).
      apply (Hsing c e Hcc Hne); [rewrite <- EHall by (apply Lcomp; exact Hcc); exact He|exact X].
    - intros c e Hc Hne He X. apply (Hsing c e (LAcomp c Hc) Hne); [rewrite <- EAall; exact He|exact X].
    - intros e He Hf. destruct (Hloc e He Hf) as [Hy Hv]. split; [exact Hy|]. intros i Hi. apply Vag. apply Hv. exact Hi. }
  (* y: the auxiliary run leaves gy on y *)
  assert (G8 : gradOf H' n8 = gradOf hA' n8).
  { pose proof (AccA n8 ltac:(rewrite TAall; exact T8)) as A8. rewrite GAy in A8.
    rewrite contributions_none in A8; [cbn [accAll] in A8; congruence|].
    intros c e Hc He X. pose proof (wf_heap_edgesOf _ HwfA _ _ He). pose proof (Lcomp c (LAcomp c Hc)). nlia. }
  assert (P8 : In n8 lA) by (rewrite ElA; in_solve). assert (P6 : In n6 lA) by (rewrite ElA; in_solve).
  assert (P5 : In n5 lA) by (rewrite ElA; in_solve). assert (P4 : In n4 lA) by (rewrite ElA; in_solve).
  assert (P3 : In n3 lA) by (rewrite ElA; in_solve). assert (P2 : In n2 lA) by (rewrite ElA; in_solve).
  assert (P1 : In n1 lA) by (rewrite ElA; in_solve). assert (P0 : In n lA) by (rewrite ElA; in_solve).
  assert (P7 : In n7 lA) by (rewrite ElA; in_solve).
  destruct (Step n8 n6 _ E8 ltac:(nlia) Hin P8 ltac:(in_solve) T6) as [G6 O6];
    [exists (n6, RId n8); split; [in_solve|reflexivity]|fc_sing E0 E1 E2 E3 E4 E5 E6 E7 E8|fc_loc|exact G8|].
  destruct (Step n8 n7 _ E8 ltac:(nlia) Hin P8 ltac:(in_solve) T7) as [G7 O7];
    [exists (n7, RId n8); split; [in_solve|reflexivity]|fc_sing E0 E1 E2 E3 E4 E5 E6 E7 E8|fc_loc|exact G8|].
  destruct (Step n6 n5 _ E6 ltac:(nlia) O6 P6 ltac:(in_solve) T5) as [G5 O5];
    [exists (n5, RBroadcast n6 n5); split; [in_solve|reflexivity]|fc_sing E0 E1 E2 E3 E4 E5 E6 E7 E8|fc_loc|exact G6|].
  destruct (Step n5 n4 _ E5 ltac:(nlia) O5 P5 ltac:(in_solve) T4) as [G4 O4];
    [exists (n4, RSumAlong n5 n4 2%Z); split; [in_solve|reflexivity]|fc_sing E0 E1 E2 E3 E4 E5 E6 E7 E8|fc_loc|exact G5|].
  destruct (Step n4 n2 _ E4 ltac:(nlia) O4 P4 ltac:(in_solve) T2) as [G2 O2];
    [exists (n2, RMatMulA n4 n3); split; [in_solve|reflexivity]|fc_sing E0 E1 E2 E3 E4 E5 E6 E7 E8|fc_loc|exact G4|].
  destruct (Step n2 n _ E2 ltac:(nlia) O2 P2 ltac:(in_solve) T0) as [G0 O0];
    [exists (n, RBroadcast n2 n); split; [in_solve|reflexivity]|fc_sing E0 E1 E2 E3 E4 E5 E6 E7 E8|fc_loc|exact G2|].
  assert (TwH : trackedOf H w = true) by (rewrite THall by nlia; rewrite Told by exact Lw; exact Tw).
  assert (Ow : In w order).
  { apply (ordered_in H order Hord n (w, RReshape n w) O0); [rewrite EHall by nlia; rewrite E0; left; reflexivity|exact TwH]. }
  pose proof (Racc w Ow) as Accw. assert (Xw : (w =? r)%nat = false) by (apply Nat.eqb_neq; nlia).
  rewrite Xw in Accw. cbn [app] in Accw.
  pose proof (AccA w ltac:(rewrite TAall, Told by exact Lw; exact Tw)) as AccwA. rewrite GAw, GwA in AccwA.
  destruct (target_grad thr draw rd H H' hA hA' order lA [n8; n; n1; n2; n3; n4; n5; n6; n7] n w (RReshape n w) [O] gwA Hown Hnd O0 ltac:(in_solve))
    as (gw & Hgw & Dgw & Wgw & Fw);
    [intros c e Hc Hne He; rewrite EHall in He by (apply Lcomp; exact Hc); revert c e Hc Hne He; fc_sing E0 E1 E2 E3 E4 E5 E6 E7 E8
    |exact P0|exact NDA
    |intros c e Hc Hne He; rewrite EAall in He; apply LAcomp in Hc; revert c e Hc Hne He; fc_sing E0 E1 E2 E3 E4 E5 E6 E7 E8
    |rewrite EHall by nlia; exact E0|rewrite EAall; exact E0|reflexivity
    |intros i Hi; cbn [rule_vals In] in Hi; repeat (destruct Hi as [Hi|Hi]; [subst i; apply Vag; nlia|]); destruct Hi
    |exact G0|exact Accw|exact AccwA|exact WwA|exact DwA|exact Pw|exact Houtw|].
  assert (TbH : trackedOf H b = true) by (rewrite THall by nlia; rewrite Told by exact Lb; exact Tb).
  assert (Ob : In b order).
  { apply (ordered_in H order Hord n7 (b, RBroadcast n7 b) O7); [rewrite EHall by nlia; rewrite E7; left; reflexivity|exact TbH]. }
  pose proof (Racc b Ob) as Accb. assert (Xb : (b =? r)%nat = false) by (apply Nat.eqb_neq; nlia).
  rewrite Xb in Accb. cbn [app] in Accb.
  pose proof (AccA b ltac:(rewrite TAall, Told by exact Lb; exact Tb)) as AccbA. rewrite GAb, GbA in AccbA.
  destruct (target_grad thr draw rd H H' hA hA' order lA [n8; n; n1; n2; n3; n4; n5; n6; n7] n7 b (RBroadcast n7 b) [O] gbA Hown Hnd O7 ltac:(in_solve))
    as (gb & Hgb & Dgb & Wgb & Fb);
    [intros c e Hc Hne He; rewrite EHall in He by (apply Lcomp; exact Hc); revert c e Hc Hne He; fc_sing E0 E1 E2 E3 E4 E5 E6 E7 E8
    |exact P7|exact NDA
    |intros c e Hc Hne He; rewrite EAall in He; apply LAcomp in Hc; revert c e Hc Hne He; fc_sing E0 E1 E2 E3 E4 E5 E6 E7 E8
    |rewrite EHall by nlia; exact E7|rewrite EAall; exact E7|reflexivity
    |intros i Hi; cbn [rule_vals In] in Hi; repeat (destruct Hi as [Hi|Hi]; [subst i; apply Vag; nlia|]); destruct Hi
    |exact G7|exact Accb|exact AccbA|exact WbA|exact DbA|exact Pb|exact Houtb|].
  split; [|split].
  - exists gw. split; [exact Hgw|]. split; [exact Dgw|]. split; [exact Wgw|]. intros o Ho.
    rewrite (Fw [o]) by (repeat constructor; exact Ho). rewrite (FwA o Ho). cbn [GradFcP.prior].
    change out with (filter (fun c => negb (memb c [n8; n; n1; n2; n3; n4; n5; n6; n7])) order). ring.
  - exists gb. split; [exact Hgb|]. split; [exact Dgb|]. split; [exact Wgb|]. intros o Ho.
    rewrite (Fb [o]) by (repeat constructor; exact Ho). rewrite (FbA o Ho). cbn [GradFcP.prior].
    change out with (filter (fun c => negb (memb c [n8; n; n1; n2; n3; n4; n5; n6; n7])) order). ring.
  - intros Htx. destruct tx; [|discriminate Htx]. clear Htx. cbn iota in E1, E3.
    destruct HxA as (gxA & GxA & DxA & WxA & FxA). rewrite GAx in FxA.
    destruct (Step n4 n3 _ E4 ltac:(nlia) O4 P4 ltac:(in_solve) T3) as [G3 O3];
      [exists (n3, RMatMulB n4 n2); split; [in_solve|reflexivity]|fc_sing E0 E1 E2 E3 E4 E5 E6 E7 E8|fc_loc|exact G4|].
    destruct (Step n3 n1 _ E3 ltac:(nlia) O3 P3 ltac:(in_solve) T1) as [G1 O1];
      [exists (n1, RBroadcast n3 n1); split; [in_solve|reflexivity]|fc_sing E0 E1 E2 E3 E4 E5 E6 E7 E8|fc_loc|exact G3|].
    assert (TxH : trackedOf H x = true) by (rewrite THall by nlia; rewrite Told by exact Lx; exact (eq_sym Etx)).
    assert (Ox : In x order).
    { apply (ordered_in H order Hord n1 (x, RReshape n1 x) O1); [rewrite EHall by nlia; rewrite E1; left; reflexivity|exact TxH]. }
    pose proof (Racc x Ox) as Accx. assert (Xx : (x =? r)%nat = false) by (apply Nat.eqb_neq; nlia).
    rewrite Xx in Accx. cbn [app] in Accx.
    pose proof (AccA x ltac:(rewrite TAall, Told by exact Lx; exact (eq_sym Etx))) as AccxA. rewrite GAx, GxA in AccxA.
    destruct (target_grad thr draw rd H H' hA hA' order lA [n8; n; n1; n2; n3; n4; n5; n6; n7] n1 x (RReshape n1 x) [B; F] gxA Hown Hnd O1 ltac:(in_solve))
    as (gx & Hgx & Dgx & Wgx & Fx);
    [intros c e Hc Hne He; rewrite EHall in He by (apply Lcomp; exact Hc); revert c e Hc Hne He; fc_sing E0 E1 E2 E3 E4 E5 E6 E7 E8
    |exact P1|exact NDA
    |intros c e Hc Hne He; rewrite EAall in He; apply LAcomp in Hc; revert c e Hc Hne He; fc_sing E0 E1 E2 E3 E4 E5 E6 E7 E8
    |rewrite EHall by nlia; exact E1|rewrite EAall; exact E1|reflexivity
    |intros i Hi; cbn [rule_vals In] in Hi; repeat (destruct Hi as [Hi|Hi]; [subst i; apply Vag; nlia|]); destruct Hi
    |exact G1|exact Accx|exact AccxA|exact WxA|exact DxA|exact Px|exact Houtx|].
    exists gx. split; [exact Hgx|]. split; [exact Dgx|]. split; [exact Wgx|]. intros bi d Hbi Hd.
    rewrite (Fx [bi; d]) by (repeat constructor; assumption). rewrite (FxA bi d Hbi Hd). cbn [GradFcP.prior].
    change out with (filter (fun c => negb (memb c [n8; n; n1; n2; n3; n4; n5; n6; n7])) order). ring.
Qed.

End FcMain.

(* ===================================================================================== *)
(* 5. examples                                                                             *)
(* ===================================================================================== *)
Module GradChainFcExamples.
Section Ex.
Variable draw : bool -> nat -> R.
Local Hint Extern 0 (Scalar R) => exact (R_scalar 0 draw) : typeclass_instances.
Notation heap := (@heap R).
Notation idseal := (fun (_ : option nat) (g : tensor R) => g).
Local Open Scope R_scope.

Ltac rlazy := lazy -[Rpow Rmult Rplus Rminus Rdiv Rinv Ropp tanh cosh exp IZR dec2R Rmax Rmin Rabs Rle_dec].
Ltac rlazy_in Hyp := lazy -[Rpow Rmult Rplus Rminus Rdiv Rinv Ropp tanh cosh exp IZR dec2R Rmax Rmin Rabs Rle_dec] in Hyp.

Tactic Notation "own_cases" integer(n) :=
  let c := fresh "c" in let nd := fresh "nd" in let e := fresh "e" in let Hn := fresh "Hn" in let He := fresh "He" in
  intros c nd e Hn He;
  do n (destruct c as [|c]; [rlazy_in Hn; inversion Hn; subst nd; cbn [nedges In] in He;
                             repeat (destruct He as [He|He]; [subst e; first [reflexivity | cbn [fst]; lia]|]); destruct He|]);
  destruct c; rlazy_in Hn; discriminate Hn.

Tactic Notation "noe_cases" integer(n) :=
  let c := fresh "c" in let e := fresh "e" in let He := fresh "He" in let Hi := fresh "Hi" in
  intros c e He Hi;
  do n (destruct c as [|c];
        [rlazy_in He;
         repeat (destruct He as [He|He];
                 [subst e; first [ solve [in_solve]
                                 | exfalso; cbn [fst In] in Hi; repeat (destruct Hi as [Hi|Hi]; [discriminate Hi|]); exact Hi ]|]);
         try (destruct He)|]);
  destruct c; rlazy_in He; destruct He.

(* FINDING: W, B, x tracked leaves 0, 1, 2; the layer's nodes 3..11, y = 11.  bp_topo's order visits b
   between the layer's nodes 10 and 9 and x between 4 and 5: the nine nodes are not a contiguous block
   and the decreasing order [rev (seq 3 9)] folded by [fc_backward] is not bp_topo's order. *)
Definition fh1 : heap := fst (fc_forward eh 0 1 [Some 2%nat] None).

Example fc_order_ex :
  topoOrder fh1 11 = [11; 10; 1; 9; 8; 7; 6; 4; 2; 5; 3; 0]%nat /\
  ~ exists pre post, topoOrder fh1 11 = pre ++ rev (seq 3 9) ++ post.
Proof.
  assert (E : topoOrder fh1 11 = [11; 10; 1; 9; 8; 7; 6; 4; 2; 5; 3; 0]%nat) by reflexivity.
  split; [exact E|]. rewrite E. intros (pre & post & X). cbn [seq rev app] in X.
  destruct pre as [|a pre]; cbn [app] in X; [discriminate X|].
  inversion X as [[Ha Hrest]]. clear X.
  assert (Hin : In 11%nat [10; 1; 9; 8; 7; 6; 4; 2; 5; 3; 0]%nat) by (rewrite Hrest; apply in_or_app; right; left; reflexivity).
  cbn [In] in Hin. repeat (destruct Hin as [Hin|Hin]; [discriminate Hin|]). exact Hin.
Qed.

(* NON-VACUITY: x = x0.Scale(2) is an interior node (3), the layer's nodes are 4..12 (y = 12), the root
   is r = y.Scale(3) (13).  Order: [13; 12; 11; 1; 10; 9; 8; 7; 5; 3; 2; 6; 4; 0]. *)
Definition fh0 : heap := fst (h_scale eh 2 2 (Some 3%nat)).
Definition fh2 : heap := fst (fc_forward fh0 0 1 [Some 3%nat] (Some 4%nat)).
Definition fH : heap := fst (h_scale fh2 12 3 (Some 5%nat)).
Definition fX : tensor R := mkT [2%nat; 2%nat] (Vec [Vec [Sc (2 * 1); Sc (2 * 5)]; Vec [Sc (2 * 2); Sc (2 * 7)]]).
Definition m22 (a b c d : R) : tensor R := mkT [2%nat; 2%nat] (Vec [Vec [Sc a; Sc b]; Vec [Sc c; Sc d]]).
Lemma wf_m22 a b c d : wf (m22 a b c d).
Proof. split; cbn; repeat constructor. Qed.

Lemma fh2_eq : fc_forward fh0 0 1 [Some 3%nat] (Some 4%nat) = (fh2, Ok 12%nat).
Proof. reflexivity. Qed.
Lemma fH_pref : prefS fh2 fH.
Proof. split; [rlazy; lia|]. intros i Hi. do 13 (destruct i as [|i]; [repeat split|]). rlazy_in Hi. lia. Qed.
Lemma fH_own : rules_own fH.
Proof. own_cases 14. Qed.
Lemma fH_wf : wf_heap fH.
Proof. own_cases 14. Qed.
Lemma fH_noe : no_outside_edge fH 12 [4; 5; 6; 7; 8; 9; 10; 11]%nat.
Proof. noe_cases 14. Qed.

Example fc_in_graph_ex :
  topoOrder fH 13 = [13; 12; 11; 1; 10; 9; 8; 7; 5; 3; 2; 6; 4; 0]%nat /\
  exists H' log gy gw gb gx,
    bp_topo RedSum idseal fH 13 = (H', log, Ok tt) /\ gradOf H' 12 = Some gy /\
    gradOf H' 0 = Some gw /\ gradOf H' 1 = Some gb /\ gradOf H' 3 = Some gx /\
    (forall bi o, (bi < 2)%nat -> (o < 2)%nat -> elt gy [bi; o] = 3) /\
    elt gw [0%nat] = 90 /\ elt gw [1%nat] = 90 /\ elt gb [0%nat] = 6 /\ elt gb [1%nat] = 6 /\
    elt gx [0%nat; 0%nat] = 15 /\ elt gx [1%nat; 1%nat] = 15.
Proof.
  split; [reflexivity|].
  destruct (bp_topo RedSum idseal fH 13) as [[H' lg] r] eqn:E.
  assert (Er : r = Ok tt) by (change r with (snd (H', lg, r)); rewrite <- E; vm_compute; reflexivity). subst r.
  assert (Eg : exists a b c d, gradOf H' 12 = Some (m22 (3 * Rpow a (dec2R 0 0)) (3 * Rpow b (dec2R 0 0))
                                                       (3 * Rpow c (dec2R 0 0)) (3 * Rpow d (dec2R 0 0)))).
  { change H' with (fst (fst (H', lg, Ok tt))). rewrite <- E. rlazy. do 4 eexists. reflexivity. }
  destruct Eg as (ga & gb0 & gc & gd & Eg).
  set (gy := m22 (3 * Rpow ga (dec2R 0 0)) (3 * Rpow gb0 (dec2R 0 0)) (3 * Rpow gc (dec2R 0 0)) (3 * Rpow gd (dec2R 0 0))) in *.
  destruct (fc_backward_in_graph 0 draw RedSum fh0 fh2 fH H' 0 1 3 (Some 4%nat) eW eB fX 2 2 2 12 13 lg gy)
    as (_ & (gw & Hgw & _ & _ & Fw) & (gb & Hgb & _ & _ & Fb) & Hx);
    [reflexivity|reflexivity|reflexivity|apply wf_eW|apply wf_eB|apply wf_m22|reflexivity|reflexivity|reflexivity
    |reflexivity|reflexivity|reflexivity|reflexivity|reflexivity|lia|exact fh2_eq|apply fH_pref|apply fH_own|apply fH_wf
    |apply fH_noe|rlazy; auto 20| |exact I|exact I|exact I|exact E|exact Eg|apply wf_m22|reflexivity| | | |].
  - intros c Hc. cbn [In length eh fh0] in Hc. repeat (destruct Hc as [Hc|Hc]; [subst c; reflexivity|]). destruct Hc.
  - intros g Hg. exfalso. rlazy_in Hg. exact Hg.
  - intros g Hg. exfalso. rlazy_in Hg. exact Hg.
  - intros g Hg. exfalso. rlazy_in Hg. exact Hg.
  - destruct (Hx eq_refl) as (gx & Hgx & _ & _ & Fx).
    assert (Y : forall bi o, (bi < 2)%nat -> (o < 2)%nat -> elt gy [bi; o] = 3).
    { intros bi o Hb Ho. destruct bi as [|[|bi]]; [| |lia]; (destruct o as [|[|o]]; [| |lia]);
        unfold gy; cbn; rewrite dec2R_0, Rpow_0; ring. }
    exists H', lg, gy, gw, gb, gx. split; [reflexivity|]. split; [exact Eg|]. split; [exact Hgw|]. split; [exact Hgb|].
    split; [exact Hgx|]. split; [exact Y|].
    match type of Fw with context [contributions RedSum H' fH ?o 0%nat] =>
      assert (Cw : contributions RedSum H' fH o 0%nat = []) by (rlazy; reflexivity) end.
    match type of Fb with context [contributions RedSum H' fH ?o 1%nat] =>
      assert (Cb : contributions RedSum H' fH o 1%nat = []) by (rlazy; reflexivity) end.
    match type of Fx with context [contributions RedSum H' fH ?o 3%nat] =>
      assert (Cx : contributions RedSum H' fH o 3%nat = []) by (rlazy; reflexivity) end.
    assert (G0 : gradOf fH 0 = None) by reflexivity. assert (G1 : gradOf fH 1 = None) by reflexivity.
    assert (G3 : gradOf fH 3 = None) by reflexivity.
    repeat split.
    + rewrite (Fw 0%nat) by lia. rewrite Cw, G0. unfold SumN, ReduceRP.Rsum. cbn [map seq fold_right].
      rewrite !Y by lia. cbn. unfold rdc. ring.
    + rewrite (Fw 1%nat) by lia. rewrite Cw, G0. unfold SumN, ReduceRP.Rsum. cbn [map seq fold_right].
      rewrite !Y by lia. cbn. unfold rdc. ring.
    + rewrite (Fb 0%nat) by lia. rewrite Cb, G1. unfold SumN, ReduceRP.Rsum. cbn [map seq fold_right].
      rewrite !Y by lia. cbn. unfold rdc. ring.
    + rewrite (Fb 1%nat) by lia. rewrite Cb, G1. unfold SumN, ReduceRP.Rsum. cbn [map seq fold_right].
      rewrite !Y by lia. cbn. unfold rdc. ring.
    + rewrite (Fx 0%nat 0%nat) by lia. rewrite Cx, G3. unfold SumN, ReduceRP.Rsum. cbn [map seq fold_right].
      rewrite !Y by lia. cbn. ring.
    + rewrite (Fx 1%nat 1%nat) by lia. rewrite Cx, G3. unfold SumN, ReduceRP.Rsum. cbn [map seq fold_right].
      rewrite !Y by lia. cbn. ring.
Qed.

End Ex.
End GradChainFcExamples.

Print Assumptions single_grad_eq.
Print Assumptions contributions_single.
Print Assumptions fc_heap_obs.
Print Assumptions target_grad.
Print Assumptions fc_backward_in_graph.
Print Assumptions GradChainFcExamples.fc_order_ex.
Print Assumptions GradChainFcExamples.fc_in_graph_ex.
