(* DataApplyP.v — applyUnaryFuncOnTensorElemWise / applyBinaryFuncOnTensorsElemWise
   (tensor/internal/cputensor/operators.go) as translated by harness/gox into the DataIR programs
   GoData.d_applyUnary / GoData.d_applyBinary compute Model/Data.v calc1/apply1 and calc2/apply2. *)
From Coq Require Import String List ZArith Bool Lia Arith.
From Qeep Require Import Model.Scalar Model.Nd Model.Fill Model.Data Model.DataIR Model.GoData
     Proofs.DataIRP Proofs.DataAtP.
From Qeep Require Model.GoIR.
Import ListNotations.
Local Open Scope string_scope.
Local Open Scope Z_scope.
Local Open Scope list_scope.

Section DataApply.
Context {A : Type} {SA : Scalar A}.
Variable fapp : string -> list A -> option A.
Variables (St : Type) (ext : string -> list (@dval A) -> St -> option (list (@dval A) * St)).
Notation dval := (@dval A).
Notation denv := (@denv A).

(* ---------- generic facts ---------- *)

(* an assignment inside a closure to an existing local goes to the local frame *)
Lemma vassign_local (g l : denv) x (v w : dval) :
  dlookup l x = Some w -> vassign false g l x v = (g, dupd l x v).
Proof. intros Hl. unfold vassign, dhas. rewrite Hl. reflexivity. Qed.

Lemma setSlot_local (g l : denv) x n (v : dval) m m' :
  dlookup l x = Some (DL m) -> setNthD m n v = Some m' ->
  setSlot false g l x n v = Some (g, dupd l x (DL m')).
Proof.
  intros Hl Hs. unfold setSlot, vlookup. rewrite Hl, Hs, (vassign_local g l x _ _ Hl). reflexivity.
Qed.

Lemma setNthD_same (m : list dval) n v : nth_error m n = Some v -> setNthD m n v = Some m.
Proof.
  revert n; induction m as [|x m IH]; intros [|n] H; cbn in *; try discriminate.
  - now inversion H.
  - now rewrite (IH n H).
Qed.

Lemma setNthD_lt (m : list dval) n v : (n < length m)%nat -> exists m', setNthD m n v = Some m'.
Proof.
  revert n; induction m as [|x m IH]; intros [|n] H; cbn in *; try lia; eauto.
  destruct (IH n ltac:(lia)) as [m' ->]. eauto.
Qed.

Lemma setNthD_app (p q : list dval) x v : setNthD (p ++ x :: q) (length p) v = Some (p ++ v :: q).
Proof. induction p as [|y p IH]; cbn; [reflexivity | now rewrite IH]. Qed.

Lemma dcopyInto_same_len (dst src : list dval) : length dst = length src -> dcopyInto dst src = src.
Proof.
  revert src; induction dst as [|x dst IH]; intros [|y src] H; cbn in *; try discriminate; try reflexivity.
  f_equal. apply IH. lia.
Qed.

Lemma make_copy_dims (ds : list nat) :
  dcopyInto (repeat (@DI A 0) (Z.to_nat (dlen (map (fun n : nat => @DI A (Z.of_nat n)) ds))))
            (map (fun n : nat => DI (Z.of_nat n)) ds) = map (fun n : nat => DI (Z.of_nat n)) ds.
Proof. apply dcopyInto_same_len. rewrite dlen_map, Nat2Z.id, repeat_length, map_length. reflexivity. Qed.

Lemma dlen_nonneg (m : list dval) : (0 <=? dlen m) = true.
Proof. apply Z.leb_le. unfold dlen. lia. Qed.

Lemma callLD_S locals fuel d fn vs (s : St) (g : denv) :
  callLD fapp St ext locals fuel (S d) fn vs s g =
  match dlookupFn locals fn with
  | Some fd =>
      match dbind (dparams fd) vs with
      | Some l0 =>
          match dexec fapp St ext (callLD fapp St ext locals fuel d) fuel false (dbody fd) s g l0 with
          | DNormal _ s1 g1 l1 | DRet _ _ s1 g1 l1 =>
              match ptrOuts (dparams fd) l1 with Some outs => CRet St outs s1 g1 | None => CPanic St end
          | DFuel _ => CFuel St
          | _ => CPanic St
          end
      | None => CPanic St
      end
  | None => CPanic St
  end.
Proof. reflexivity. Qed.

(* dims[0] and dims[1:] on an embedded non-empty shape *)
Lemma dnats_cons n ds : @dnats A (n :: ds) = DL (DI (Z.of_nat n) :: map (fun k => DI (Z.of_nat k)) ds).
Proof. reflexivity. Qed.

Lemma dlen_cons_eqb (x : dval) m : (dlen (x :: m) =? 0) = false.
Proof. unfold dlen. cbn [length]. apply Z.eqb_neq. lia. Qed.

Lemma sub1_ok (x : dval) m :
  ((0 <=? 1) && (1 <=? dlen (x :: m)) && (dlen (x :: m) <=? dlen (x :: m)))%bool = true.
Proof.
  unfold dlen; cbn [length]. rewrite !andb_true_iff. repeat split; apply Z.leb_le; lia.
Qed.

Lemma sub1_tail (x : dval) m : firstn (Z.to_nat (dlen (x :: m) - 1)) (skipn (Z.to_nat 1) (x :: m)) = m.
Proof.
  unfold dlen; cbn [length]. replace (Z.to_nat 1) with 1%nat by reflexivity. cbn [skipn].
  replace (Z.to_nat (Z.of_nat (S (length m)) - 1)) with (length m) by lia. apply firstn_all.
Qed.


Ltac dl := repeat rewrite dlookup_dupd; cbn [String.eqb Ascii.eqb Bool.eqb]; try eassumption; try reflexivity.

(* ================= unary ================= *)
Section Unary.
Variable f : A -> A.
Hypothesis Hsuf : forall a, fapp "suf" [a] = Some (f a).

Definition Inv1 (l : denv) (dv av rv : dval) (ar rr : list dval) : Prop :=
  dlookup l "dims" = Some dv /\ dlookup l "a" = Some av /\ dlookup l "r" = Some rv /\
  dlookup l "aRows" = Some (DL ar) /\ dlookup l "rRows" = Some (DL rr).

Definition row1 (ds : list nat) (rows : list (nd A)) (i : nat) : option (nd A) :=
  do ai <- nth_error rows i; calc1 f ds ai.

(* the loop of calcData for any body that behaves like  calcData(dims, &aRows[i], &rRows[i]) *)
Lemma calc1_loop (body : St -> denv -> denv -> @doutcome A St)
      (assign : denv -> denv -> Z -> dval -> denv * denv) (ds : list nat) (rows : list (nd A)) (dv av rv : dval) :
  (forall s g l (i : nat) v rr,
      Inv1 l dv av rv (map emb rows) rr -> (i < length rr)%nat ->
      let '(g0, l0) := assign g l (Z.of_nat i) v in
      match row1 ds rows i with
      | Some ri => exists l1 rr', body s g0 l0 = DNormal St s g l1 /\ setNthD rr i (emb ri) = Some rr' /\
                                  Inv1 l1 dv av rv (map emb rows) rr'
      | None => body s g0 l0 = DPanic St
      end) ->
  forall n i (done : list (nd A)) s g l,
  length done = i -> Inv1 l dv av rv (map emb rows) (map emb done ++ repeat DNil n) ->
  match mapM (row1 ds rows) (seq i n) with
  | Some outs => exists l1, drangeLoop St body assign (repeat DNil n) (Z.of_nat i) s g l = DNormal St s g l1 /\
                            Inv1 l1 dv av rv (map emb rows) (map emb (done ++ outs))
  | None => drangeLoop St body assign (repeat DNil n) (Z.of_nat i) s g l = DPanic St
  end.
Proof.
  intros Hb. induction n as [|n IH]; intros i done s g l Hlen HI.
  - cbn [seq mapM repeat drangeLoop]. exists l. split; [reflexivity|].
    cbn [repeat] in HI. rewrite !app_nil_r in *. exact HI.
  - cbn [seq mapM repeat drangeLoop].
    assert (Hi : (i < length (map emb done ++ repeat (@DNil A) (S n)))%nat).
    { rewrite app_length, map_length, repeat_length. lia. }
    pose proof (Hb s g l i DNil _ HI Hi) as H1.
    destruct (assign g l (Z.of_nat i) DNil) as [g0 l0].
    destruct (row1 ds rows i) as [ri|]; cbn [obind].
    + destruct H1 as [l1 [rr' [Hb1 [Hset HI1]]]]. rewrite Hb1.
      cbn [repeat] in Hset. rewrite <- Hlen, <- (map_length emb) in Hset.
      rewrite setNthD_app in Hset. inversion Hset; subst rr'; clear Hset.
      replace (Z.of_nat i + 1) with (Z.of_nat (S i)) by lia.
      specialize (IH (S i) (done ++ [ri]) s g l1).
      rewrite app_length, Hlen in IH. cbn [length] in IH. specialize (IH ltac:(lia)).
      rewrite map_app in IH. cbn [map] in IH. rewrite <- app_assoc in IH. cbn [app] in IH.
      specialize (IH HI1).
      destruct (mapM (row1 ds rows) (seq (S i) n)) as [outs|]; cbn [obind].
      * destruct IH as [l2 [HL HI2]]. exists l2. split; [exact HL|].
        rewrite <- app_assoc in HI2. exact HI2.
      * exact IH.
    + rewrite H1. reflexivity.
Qed.


Lemma calcData1 (ds : list nat) :
  forall d fuel (a : nd A) (r0 : dval) s g,
  (length ds <= d)%nat ->
  callLD fapp St ext (plocals d_applyUnary) fuel (S d) "calcData" [dnats ds; emb a; r0] s g =
  match calc1 f ds a with
  | Some r => CRet St [emb a; emb r] s g
  | None => CPanic St
  end.
Proof.
  induction ds as [|n ds IH]; intros d fuel a r0 s g Hd.
  - rewrite callLD_S. set (cl := callLD fapp St ext (plocals d_applyUnary) fuel d). unfold d_applyUnary.
    cbn [plocals dlookupFn String.eqb Ascii.eqb Bool.eqb dbind dparams dbody]. dxs. unfold dnats. cbn [map dlen length Z.of_nat Z.eqb].
    destruct a as [x|rows]; cbn [calc1 asF obind].
    + cbn [emb asFloats]. rewrite Hsuf. dxs. cbn [ptrOuts dlookup String.eqb Ascii.eqb Bool.eqb]. reflexivity.
    + rewrite emb_Vec. reflexivity.
  - destruct d as [|d]; [cbn in Hd; lia|].
    rewrite callLD_S. set (cl := callLD fapp St ext (plocals d_applyUnary) fuel (S d)).
    assert (Hcl : forall (a : nd A) (r0 : dval) s g,
              cl "calcData" [dnats ds; emb a; r0] s g =
              match calc1 f ds a with Some r => CRet St [emb a; emb r] s g | None => CPanic St end).
    { intros. apply IH. cbn in Hd; lia. }
    clearbody cl. clear IH.
    unfold d_applyUnary.
    cbn [plocals dlookupFn String.eqb Ascii.eqb Bool.eqb dbind dparams dbody]. dxs.
    rewrite dnats_cons. cbn [devalBin]. rewrite dlen_cons_eqb. dxs.
    destruct a as [x|rows]; cbn [calc1 asV obind]; [reflexivity|].
    rewrite emb_Vec.
    dxs. rewrite didx_nonneg by lia. cbn [Z.to_nat nth_error].
    replace (0 <=? Z.of_nat n) with true by (symmetry; apply Z.leb_le; lia).
    rewrite Nat2Z.id. dxs.
    rewrite sub1_ok, sub1_tail. dxs.
    match goal with |- context [drangeLoop St ?b ?asg _ _ _ _ _] =>
      pose proof (calc1_loop b asg ds rows (dnats ds) (DL (map emb rows)) r0) as HL
    end.
    match type of HL with ?P -> _ => assert (Hspec : P) end.
    { clear HL. intros s0 g0 l i v rr [HI1 [HI2 [HI3 [HI4 HI5]]]] Hi.
      cbn [vdefine].
      unfold row1. dxs. unfold vlookup. rewrite !dlookup_dupd. cbn [String.eqb Ascii.eqb Bool.eqb].
      rewrite HI1, HI4, HI5, didx_nat, nth_error_map_emb.
      destruct (nth_error rows i) as [ai|] eqn:Ea; cbn [option_map obind]; [|reflexivity].
      destruct (nth_error rr i) as [x|] eqn:Er; [|apply nth_error_None in Er; lia].
      rewrite Hcl.
      destruct (calc1 f ds ai) as [ri|]; [|reflexivity].
      destruct (setNthD_lt rr i (emb ri) Hi) as [rr' Hrr].
      rewrite (setSlot_local g0 _ "aRows" i (emb ai) (map emb rows) (map emb rows));
        [ | dl | apply setNthD_same; rewrite nth_error_map_emb, Ea; reflexivity ].
      rewrite !dlookup_dupd. cbn [String.eqb Ascii.eqb Bool.eqb]. rewrite didx_nat.
      rewrite (setSlot_local g0 _ "rRows" i (emb ri) rr rr'); [ | dl | exact Hrr ].
      eexists; exists rr'. split; [reflexivity|]. split; [exact Hrr|].
      unfold Inv1. repeat split; dl. }
    match goal with |- context [drangeLoop St _ _ _ _ _ _ ?l0] =>
      specialize (HL Hspec n 0%nat [] s g l0 eq_refl)
    end.
    cbn [map app Z.of_nat] in HL.
    specialize (HL ltac:(unfold Inv1, dnats; cbn [dlookup String.eqb Ascii.eqb Bool.eqb]; repeat split; reflexivity)).
    change (fun i : nat => do ai <- nth_error rows i; calc1 f ds ai) with (row1 ds rows).
    destruct (mapM (row1 ds rows) (seq 0 n)) as [outs|]; cbn [obind].
    + destruct HL as [l1 [HL [HI1 [HI2 [HI3 [HI4 HI5]]]]]]. unfold dnats in HL. rewrite HL. dxs.
      unfold vlookup. rewrite HI5. unfold vassign, dhas. rewrite HI3.
      cbn [ptrOuts]. rewrite !dlookup_dupd. cbn [String.eqb Ascii.eqb Bool.eqb]. rewrite HI2, emb_Vec. reflexivity.
    + unfold dnats in HL. rewrite HL. reflexivity.
Qed.

Theorem data_apply1_body fuel depth (ds : list nat) (x : nd A) (s : St) :
  (length ds < depth)%nat ->
  match apply1 f (mkT ds x) with
  | Some t' => exists g l,
      dexec fapp St ext (callLD fapp St ext (plocals d_applyUnary) fuel depth) fuel true (dbody (pmain d_applyUnary)) s
            [("t.dims", dnats ds); ("t.data", emb x)] [] = DRet St [dnats (dims t'); emb (data t')] s g l
  | None =>
      dexec fapp St ext (callLD fapp St ext (plocals d_applyUnary) fuel depth) fuel true (dbody (pmain d_applyUnary)) s
            [("t.dims", dnats ds); ("t.data", emb x)] [] = DPanic St
  end.
Proof.
  intros Hdep. destruct depth as [|d]; [lia|].
  pose proof (fun r0 g => calcData1 ds d fuel x r0 s g ltac:(lia)) as HC.
  set (cl := callLD fapp St ext (plocals d_applyUnary) fuel (S d)) in *. clearbody cl.
  assert (HE : dexec fapp St ext cl fuel true (dbody (pmain d_applyUnary)) s
                 [("t.dims", dnats ds); ("t.data", emb x)] [] =
               match calc1 f ds x with
               | Some r => DRet St [dnats ds; emb r] s
                             [("t.dims", dnats ds); ("t.data", emb x); ("o.dims", dnats ds); ("o.data", emb r)] []
               | None => DPanic St
               end).
  { unfold d_applyUnary. cbn [pmain dbody]. dxs. unfold dnats at 1. cbn iota.
    rewrite dlen_nonneg. dxs. unfold dnats at 1. cbn iota. rewrite make_copy_dims. dxs.
    fold (@dnats A ds).
    rewrite HC.
    destruct (calc1 f ds x) as [r|]; [|reflexivity]. dxs. reflexivity. }
  unfold apply1. cbn [dims data]. rewrite HE.
  destruct (calc1 f ds x) as [r|]; cbn [obind dims data]; eauto.
Qed.

Theorem data_apply1 fuel depth (t : tensor A) (s : St) :
  (length (dims t) < depth)%nat ->
  match apply1 f t with
  | Some t' => exists g l,
      drun fapp St ext d_applyUnary fuel depth [dnats (dims t); emb (data t)] s =
      DRet St [dnats (dims t'); emb (data t')] s g l
  | None => drun fapp St ext d_applyUnary fuel depth [dnats (dims t); emb (data t)] s = DPanic St
  end.
Proof. destruct t as [ds x]. cbn [dims data]. exact (data_apply1_body fuel depth ds x s). Qed.

End Unary.

(* ================= binary ================= *)
Section Binary.
Variable f : A -> A -> A.
Hypothesis Hsbf : forall a b, fapp "sbf" [a; b] = Some (f a b).

Definition Inv2 (l : denv) (dv av bv rv : dval) (ar br rr : list dval) : Prop :=
  dlookup l "dims" = Some dv /\ dlookup l "a" = Some av /\ dlookup l "b" = Some bv /\ dlookup l "r" = Some rv /\
  dlookup l "aRows" = Some (DL ar) /\ dlookup l "bRows" = Some (DL br) /\ dlookup l "rRows" = Some (DL rr).

Definition row2 (ds : list nat) (rowsA rowsB : list (nd A)) (i : nat) : option (nd A) :=
  do ai <- nth_error rowsA i; do bi <- nth_error rowsB i; calc2 f ds ai bi.

(* the loop of calcData for any body that behaves like  calcData(dims, &aRows[i], &bRows[i], &rRows[i]) *)
Lemma calc2_loop (body : St -> denv -> denv -> @doutcome A St)
      (assign : denv -> denv -> Z -> dval -> denv * denv) (ds : list nat) (rowsA rowsB : list (nd A))
      (dv av bv rv : dval) :
  (forall s g l (i : nat) v rr,
      Inv2 l dv av bv rv (map emb rowsA) (map emb rowsB) rr -> (i < length rr)%nat ->
      let '(g0, l0) := assign g l (Z.of_nat i) v in
      match row2 ds rowsA rowsB i with
      | Some ri => exists l1 rr', body s g0 l0 = DNormal St s g l1 /\ setNthD rr i (emb ri) = Some rr' /\
                                  Inv2 l1 dv av bv rv (map emb rowsA) (map emb rowsB) rr'
      | None => body s g0 l0 = DPanic St
      end) ->
  forall n i (done : list (nd A)) s g l,
  length done = i ->
  Inv2 l dv av bv rv (map emb rowsA) (map emb rowsB) (map emb done ++ repeat DNil n) ->
  match mapM (row2 ds rowsA rowsB) (seq i n) with
  | Some outs => exists l1, drangeLoop St body assign (repeat DNil n) (Z.of_nat i) s g l = DNormal St s g l1 /\
                            Inv2 l1 dv av bv rv (map emb rowsA) (map emb rowsB) (map emb (done ++ outs))
  | None => drangeLoop St body assign (repeat DNil n) (Z.of_nat i) s g l = DPanic St
  end.
Proof.
  intros Hb. induction n as [|n IH]; intros i done s g l Hlen HI.
  - cbn [seq mapM repeat drangeLoop]. exists l. split; [reflexivity|].
    cbn [repeat] in HI. rewrite !app_nil_r in *. exact HI.
  - cbn [seq mapM repeat drangeLoop].
    assert (Hi : (i < length (map emb done ++ repeat (@DNil A) (S n)))%nat).
    { rewrite app_length, map_length, repeat_length. lia. }
    pose proof (Hb s g l i DNil _ HI Hi) as H1.
    destruct (assign g l (Z.of_nat i) DNil) as [g0 l0].
    destruct (row2 ds rowsA rowsB i) as [ri|]; cbn [obind].
    + destruct H1 as [l1 [rr' [Hb1 [Hset HI1]]]]. rewrite Hb1.
      cbn [repeat] in Hset. rewrite <- Hlen, <- (map_length emb) in Hset.
      rewrite setNthD_app in Hset. inversion Hset; subst rr'; clear Hset.
      replace (Z.of_nat i + 1) with (Z.of_nat (S i)) by lia.
      specialize (IH (S i) (done ++ [ri]) s g l1).
      rewrite app_length, Hlen in IH. cbn [length] in IH. specialize (IH ltac:(lia)).
      rewrite map_app in IH. cbn [map] in IH. rewrite <- app_assoc in IH. cbn [app] in IH.
      specialize (IH HI1).
      destruct (mapM (row2 ds rowsA rowsB) (seq (S i) n)) as [outs|]; cbn [obind].
      * destruct IH as [l2 [HL HI2]]. exists l2. split; [exact HL|].
        rewrite <- app_assoc in HI2. exact HI2.
      * exact IH.
    + rewrite H1. reflexivity.
Qed.

Lemma calcData2 (ds : list nat) :
  forall d fuel (a b : nd A) (r0 : dval) s g,
  (length ds <= d)%nat ->
  callLD fapp St ext (plocals d_applyBinary) fuel (S d) "calcData" [dnats ds; emb a; emb b; r0] s g =
  match calc2 f ds a b with
  | Some r => CRet St [emb a; emb b; emb r] s g
  | None => CPanic St
  end.
Proof.
  induction ds as [|n ds IH]; intros d fuel a b r0 s g Hd.
  - rewrite callLD_S. set (cl := callLD fapp St ext (plocals d_applyBinary) fuel d). unfold d_applyBinary.
    cbn [plocals dlookupFn String.eqb Ascii.eqb Bool.eqb dbind dparams dbody]. dxs.
    unfold dnats. cbn [map dlen length Z.of_nat Z.eqb].
    destruct a as [x|rowsA]; cbn [calc2 asF obind].
    + destruct b as [y|rowsB]; cbn [asF obind].
      * cbn [emb asFloats]. rewrite Hsbf. dxs. cbn [ptrOuts dlookup String.eqb Ascii.eqb Bool.eqb]. reflexivity.
      * rewrite emb_Vec. reflexivity.
    + rewrite emb_Vec. reflexivity.
  - destruct d as [|d]; [cbn in Hd; lia|].
    rewrite callLD_S. set (cl := callLD fapp St ext (plocals d_applyBinary) fuel (S d)).
    assert (Hcl : forall (a b : nd A) (r0 : dval) s g,
              cl "calcData" [dnats ds; emb a; emb b; r0] s g =
              match calc2 f ds a b with Some r => CRet St [emb a; emb b; emb r] s g | None => CPanic St end).
    { intros. apply IH. cbn in Hd; lia. }
    clearbody cl. clear IH.
    unfold d_applyBinary.
    cbn [plocals dlookupFn String.eqb Ascii.eqb Bool.eqb dbind dparams dbody]. dxs.
    rewrite dnats_cons. cbn [devalBin]. rewrite dlen_cons_eqb. dxs.
    destruct a as [x|rowsA]; cbn [calc2 asV obind]; [reflexivity|].
    rewrite (emb_Vec rowsA).
    dxs.
    destruct b as [y|rowsB]; cbn [asV obind]; [reflexivity|].
    rewrite (emb_Vec rowsB). dxs.
    rewrite didx_nonneg by lia. cbn [Z.to_nat nth_error].
    replace (0 <=? Z.of_nat n) with true by (symmetry; apply Z.leb_le; lia).
    rewrite Nat2Z.id. dxs.
    rewrite sub1_ok, sub1_tail. dxs.
    match goal with |- context [drangeLoop St ?b ?asg _ _ _ _ _] =>
      pose proof (calc2_loop b asg ds rowsA rowsB (dnats ds) (DL (map emb rowsA)) (DL (map emb rowsB)) r0) as HL
    end.
    match type of HL with ?P -> _ => assert (Hspec : P) end.
    { clear HL. intros s0 g0 l i v rr [HI1 [HI2 [HI3 [HI4 [HI5 [HI6 HI7]]]]]] Hi.
      cbn [vdefine].
      unfold row2. dxs. unfold vlookup. rewrite !dlookup_dupd. cbn [String.eqb Ascii.eqb Bool.eqb].
      rewrite HI1, HI5, HI6, HI7, didx_nat, !nth_error_map_emb.
      destruct (nth_error rowsA i) as [ai|] eqn:Ea; cbn [option_map obind]; [|reflexivity].
      destruct (nth_error rowsB i) as [bi|] eqn:Eb; cbn [option_map obind]; [|reflexivity].
      destruct (nth_error rr i) as [x|] eqn:Er; [|apply nth_error_None in Er; lia].
      rewrite Hcl.
      destruct (calc2 f ds ai bi) as [ri|]; [|reflexivity].
      destruct (setNthD_lt rr i (emb ri) Hi) as [rr' Hrr].
      rewrite (setSlot_local g0 _ "aRows" i (emb ai) (map emb rowsA) (map emb rowsA));
        [ | dl | apply setNthD_same; rewrite nth_error_map_emb, Ea; reflexivity ].
      rewrite !dlookup_dupd. cbn [String.eqb Ascii.eqb Bool.eqb]. rewrite didx_nat.
      rewrite (setSlot_local g0 _ "bRows" i (emb bi) (map emb rowsB) (map emb rowsB));
        [ | dl | apply setNthD_same; rewrite nth_error_map_emb, Eb; reflexivity ].
      rewrite !dlookup_dupd. cbn [String.eqb Ascii.eqb Bool.eqb]. rewrite didx_nat.
      rewrite (setSlot_local g0 _ "rRows" i (emb ri) rr rr'); [ | dl | exact Hrr ].
      eexists; exists rr'. split; [reflexivity|]. split; [exact Hrr|].
      unfold Inv2. repeat split; dl. }
    match goal with |- context [drangeLoop St _ _ _ _ _ _ ?l0] =>
      specialize (HL Hspec n 0%nat [] s g l0 eq_refl)
    end.
    cbn [map app Z.of_nat] in HL.
    specialize (HL ltac:(unfold Inv2, dnats; cbn [dlookup String.eqb Ascii.eqb Bool.eqb]; repeat split; reflexivity)).
    change (fun i : nat => do ai <- nth_error rowsA i; do bi <- nth_error rowsB i; calc2 f ds ai bi)
      with (row2 ds rowsA rowsB).
    destruct (mapM (row2 ds rowsA rowsB) (seq 0 n)) as [outs|]; cbn [obind].
    + destruct HL as [l1 [HL [HI1 [HI2 [HI3 [HI4 [HI5 [HI6 HI7]]]]]]]]. unfold dnats in HL. rewrite HL. dxs.
      unfold vlookup. rewrite HI7. unfold vassign, dhas. rewrite HI4.
      cbn [ptrOuts]. rewrite !dlookup_dupd. cbn [String.eqb Ascii.eqb Bool.eqb].
      rewrite HI2, HI3, emb_Vec. reflexivity.
    + unfold dnats in HL. rewrite HL. reflexivity.
Qed.

Theorem data_apply2_body fuel depth (ds ds2 : list nat) (x y : nd A) (s : St) :
  (length ds < depth)%nat ->
  match apply2 f (mkT ds x) (mkT ds2 y) with
  | Some t' => exists g l,
      dexec fapp St ext (callLD fapp St ext (plocals d_applyBinary) fuel depth) fuel true (dbody (pmain d_applyBinary)) s
            [("t1.dims", dnats ds); ("t1.data", emb x); ("t2.dims", dnats ds2); ("t2.data", emb y)] [] =
      DRet St [dnats (dims t'); emb (data t')] s g l
  | None =>
      dexec fapp St ext (callLD fapp St ext (plocals d_applyBinary) fuel depth) fuel true (dbody (pmain d_applyBinary)) s
            [("t1.dims", dnats ds); ("t1.data", emb x); ("t2.dims", dnats ds2); ("t2.data", emb y)] [] = DPanic St
  end.
Proof.
  intros Hdep. destruct depth as [|d]; [lia|].
  pose proof (fun r0 g => calcData2 ds d fuel x y r0 s g ltac:(lia)) as HC.
  set (cl := callLD fapp St ext (plocals d_applyBinary) fuel (S d)) in *. clearbody cl.
  assert (HE : dexec fapp St ext cl fuel true (dbody (pmain d_applyBinary)) s
                 [("t1.dims", dnats ds); ("t1.data", emb x); ("t2.dims", dnats ds2); ("t2.data", emb y)] [] =
               match calc2 f ds x y with
               | Some r => DRet St [dnats ds; emb r] s
                             [("t1.dims", dnats ds); ("t1.data", emb x); ("t2.dims", dnats ds2); ("t2.data", emb y);
                              ("o.dims", dnats ds); ("o.data", emb r)] []
               | None => DPanic St
               end).
  { unfold d_applyBinary. cbn [pmain dbody]. dxs. unfold dnats at 1. cbn iota.
    rewrite dlen_nonneg. dxs. unfold dnats at 1. cbn iota. rewrite make_copy_dims. dxs.
    fold (@dnats A ds).
    rewrite HC.
    destruct (calc2 f ds x y) as [r|]; [|reflexivity]. dxs. reflexivity. }
  unfold apply2. cbn [dims data]. rewrite HE.
  destruct (calc2 f ds x y) as [r|]; cbn [obind dims data]; eauto.
Qed.

Theorem data_apply2 fuel depth (t1 t2 : tensor A) (s : St) :
  (length (dims t1) < depth)%nat ->
  match apply2 f t1 t2 with
  | Some t' => exists g l,
      drun fapp St ext d_applyBinary fuel depth [dnats (dims t1); emb (data t1); dnats (dims t2); emb (data t2)] s =
      DRet St [dnats (dims t'); emb (data t')] s g l
  | None =>
      drun fapp St ext d_applyBinary fuel depth [dnats (dims t1); emb (data t1); dnats (dims t2); emb (data t2)] s =
      DPanic St
  end.
Proof.
  destruct t1 as [ds x], t2 as [ds2 y]. cbn [dims data]. exact (data_apply2_body fuel depth ds ds2 x y s).
Qed.

End Binary.

End DataApply.

Print Assumptions calcData1.
Print Assumptions calcData2.
Print Assumptions data_apply1_body.
Print Assumptions data_apply1.
Print Assumptions data_apply2_body.
Print Assumptions data_apply2.

(* ---------- concrete runs over the free term algebra ---------- *)
Section Examples.
Let fappT (nm : string) (args : list term) : option term :=
  match args with
  | [a] => if String.eqb nm "suf" then Some (TUn UExp a) else None
  | [a; b] => if String.eqb nm "sbf" then Some (TBin BAdd a b) else None
  | _ => None
  end.
Let extT (_ : string) (_ : list (@dval term)) (_ : unit) : option (list (@dval term) * unit) := None.
Let v (k : nat) : nd term := Sc (TVal 0 k).
Let w (k : nat) : nd term := Sc (TVal 1 k).
Let X : nd term := Vec [Vec [v 0; v 1; v 2]; Vec [v 3; v 4; v 5]].
Let Y : nd term := Vec [Vec [w 0; w 1; w 2]; Vec [w 3; w 4; w 5]].

Example apply1_run :
  match drun fappT unit extT d_applyUnary 0 3 [dnats [2; 3]%nat; emb X] tt with
  | DRet _ vs _ _ _ => Some vs
  | _ => None
  end = option_map (fun t' => [dnats (dims t'); emb (data t')]) (apply1 (TUn UExp) (mkT [2; 3]%nat X)).
Proof. vm_compute. reflexivity. Qed.

(* dims say 3 rows, the data has 2: aRows[2] panics / the model returns None *)
Example apply1_panic :
  drun fappT unit extT d_applyUnary 0 3 [dnats [3; 3]%nat; emb X] tt = DPanic unit /\
  apply1 (TUn UExp) (mkT [3; 3]%nat X) = None.
Proof. vm_compute. split; reflexivity. Qed.

(* dims say 1 row, the data has 2: only the first row is visited, in Go and in the model *)
Example apply1_prefix :
  match drun fappT unit extT d_applyUnary 0 3 [dnats [1; 2]%nat; emb X] tt with
  | DRet _ vs _ _ _ => Some vs
  | _ => None
  end = Some [dnats [1; 2]%nat; emb (Vec [Vec [Sc (TUn UExp (TVal 0 0)); Sc (TUn UExp (TVal 0 1))]])].
Proof. vm_compute. reflexivity. Qed.

Example apply2_run :
  match drun fappT unit extT d_applyBinary 0 3 [dnats [2; 3]%nat; emb X; dnats [2; 3]%nat; emb Y] tt with
  | DRet _ vs _ _ _ => Some vs
  | _ => None
  end = option_map (fun t' => [dnats (dims t'); emb (data t')])
                   (apply2 (TBin BAdd) (mkT [2; 3]%nat X) (mkT [2; 3]%nat Y)).
Proof. vm_compute. reflexivity. Qed.

(* the second operand is too shallow: the assertion of b to []any panics / the model returns None *)
Example apply2_panic :
  drun fappT unit extT d_applyBinary 0 3 [dnats [2; 3]%nat; emb X; dnats [2]%nat; emb (Vec [w 0; w 1])] tt = DPanic unit /\
  apply2 (TBin BAdd) (mkT [2; 3]%nat X) (mkT [2]%nat (Vec [w 0; w 1])) = None.
Proof. vm_compute. split; reflexivity. Qed.
End Examples.
