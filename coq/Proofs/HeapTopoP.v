(* HeapTopoP.v — gradtrack.topologicalOrder (tensor/internal/gradtrack/back_propagation.go) as translated by
   harness/gox into the DataIR program GoGrad.g_topologicalOrder (recursive closure [visit] appending to the captured
   lists [visited] / [order], marking contexts spent through the heap oracle, then an in-place two-index reversal)
   computes the model's Backprop.topoOrder and leaves the heap Backprop.markDirty h (topoOrder h root): the program
   agrees with the entry "topologicalOrder" of the oracle Model/HeapExt.v. *)
From Coq Require Import String List ZArith Bool Lia Arith.
From Qeep Require Import Model.Scalar Model.Nd Model.Fill Model.Data Model.Valid Model.Api Model.Grad Model.Backprop.
From Qeep Require Import Model.DataIR Model.GoGrad Model.HeapExt Proofs.DataIRP.
From Qeep Require Proofs.BackpropP.
From Qeep Require Model.GoIR.
Import ListNotations.
Local Open Scope string_scope.
Local Open Scope Z_scope.
Local Open Scope list_scope.

(* ------------------------------------------------------------------------------------ *)
(* generic list facts                                                                    *)
(* ------------------------------------------------------------------------------------ *)

Lemma nth_error_ext_eq {X} : forall (l1 l2 : list X), (forall j, nth_error l1 j = nth_error l2 j) -> l1 = l2.
Proof.
  induction l1 as [|a l1 IH]; intros [|b l2] H.
  - reflexivity.
  - specialize (H 0%nat). discriminate.
  - specialize (H 0%nat). discriminate.
  - pose proof (H 0%nat) as H0. cbn in H0. inversion H0; subst. f_equal. apply IH. intros j. exact (H (S j)).
Qed.

Lemma nth_error_mid {X} (a : list X) x b : nth_error (a ++ x :: b) (length a) = Some x.
Proof. rewrite nth_error_app2 by lia. rewrite Nat.sub_diag. reflexivity. Qed.

Section SetNth.
Context {A : Type} {SA : Scalar A}.
Notation dval := (@dval A).

Lemma setNthD_mid (a : list dval) x b v : setNthD (a ++ x :: b) (length a) v = Some (a ++ v :: b).
Proof.
  induction a as [|y a IH]; cbn [app length setNthD]; [reflexivity|]. rewrite IH. reflexivity.
Qed.
End SetNth.

(* ------------------------------------------------------------------------------------ *)
(* (b) the in-place reversal loop                                                        *)
(* ------------------------------------------------------------------------------------ *)
Section RevLoop.
Context {A : Type} {SA : Scalar A}.
Variable St : Type.
Notation dval := (@dval A).
Notation denv := (@denv A).

(* for any condition / body / post behaving like  i < j ;  order[i], order[j] = order[j], order[i] ;  i, j = i+1, j-1
   at main level (l = []) *)
Lemma rev_loop (cond : denv -> denv -> option dval) (body post : St -> denv -> denv -> @doutcome A St) :
  (forall g i j, dlookup g "i" = Some (DI i) -> dlookup g "j" = Some (DI j) -> cond g [] = Some (DB (i <? j))) ->
  (forall s g (i j : nat) m x y m1 m2,
      dlookup g "order" = Some (DL m) -> dlookup g "i" = Some (DI (Z.of_nat i)) -> dlookup g "j" = Some (DI (Z.of_nat j)) ->
      nth_error m i = Some x -> nth_error m j = Some y ->
      setNthD m i y = Some m1 -> setNthD m1 j x = Some m2 ->
      exists g1, body s g [] = DNormal St s g1 [] /\
                 dlookup g1 "order" = Some (DL m2) /\ dlookup g1 "i" = Some (DI (Z.of_nat i)) /\
                 dlookup g1 "j" = Some (DI (Z.of_nat j))) ->
  (forall s g i j v,
      dlookup g "order" = Some v -> dlookup g "i" = Some (DI i) -> dlookup g "j" = Some (DI j) ->
      exists g1, post s g [] = DNormal St s g1 [] /\
                 dlookup g1 "order" = Some v /\ dlookup g1 "i" = Some (DI (i + 1)) /\ dlookup g1 "j" = Some (DI (j - 1))) ->
  forall fuel (mid a b : list dval) s g,
  (length mid < fuel)%nat ->
  dlookup g "order" = Some (DL (a ++ mid ++ b)) ->
  dlookup g "i" = Some (DI (Z.of_nat (length a))) ->
  dlookup g "j" = Some (DI (Z.of_nat (length a) + Z.of_nat (length mid) - 1)) ->
  exists g', dforLoop St fuel cond body post s g [] = DNormal St s g' [] /\
             dlookup g' "order" = Some (DL (a ++ rev mid ++ b)).
Proof.
  intros Hc Hb Hp. induction fuel as [|fuel IH]; intros mid a b s g Hf Ho Hi Hj; [lia|].
  cbn [dforLoop]. rewrite (Hc g _ _ Hi Hj).
  destruct mid as [|x mid].
  { cbn [length Z.of_nat]. replace (Z.of_nat (length a) <? Z.of_nat (length a) + 0 - 1) with false
      by (symmetry; apply Z.ltb_ge; lia).
    exists g. split; [reflexivity|exact Ho]. }
  destruct (@exists_last _ (x :: mid)) as (mid' & y & E); [discriminate|].
  destruct mid' as [|x' mid'].
  { (* one element *)
    cbn [app] in E. inversion E; subst. cbn [length].
    replace (Z.of_nat (length a) <? Z.of_nat (length a) + Z.of_nat 1 - 1) with false
      by (symmetry; apply Z.ltb_ge; lia).
    exists g. split; [reflexivity|exact Ho]. }
  cbn [app] in E. inversion E as [[Ex Em]]. subst x' mid. clear E.
  assert (Hlen : (length (x :: mid' ++ [y]) = S (S (length mid')))%nat).
  { cbn [length]. rewrite app_length. cbn [length]. lia. }
  rewrite Hlen in Hj, Hf |- *.
  replace (Z.of_nat (length a) <? Z.of_nat (length a) + Z.of_nat (S (S (length mid'))) - 1) with true
    by (symmetry; apply Z.ltb_lt; lia).
  set (jn := (length a + S (length mid'))%nat).
  assert (Hj' : dlookup g "j" = Some (DI (Z.of_nat jn))).
  { rewrite Hj. do 2 f_equal. unfold jn. lia. }
  set (m := a ++ (x :: mid' ++ [y]) ++ b) in *.
  assert (Em : m = a ++ x :: (mid' ++ y :: b)).
  { unfold m. cbn [app]. rewrite <- app_assoc. reflexivity. }
  assert (Em' : m = (a ++ x :: mid') ++ y :: b).
  { rewrite Em. rewrite <- app_assoc. reflexivity. }
  assert (Hjl : jn = length (a ++ x :: mid')).
  { unfold jn. rewrite app_length. cbn [length]. lia. }
  assert (Hnx : nth_error m (length a) = Some x) by (rewrite Em; apply nth_error_mid).
  assert (Hny : nth_error m jn = Some y) by (rewrite Em', Hjl; apply nth_error_mid).
  assert (Hs1 : setNthD m (length a) y = Some (a ++ y :: (mid' ++ y :: b))) by (rewrite Em; apply setNthD_mid).
  assert (Hs2 : setNthD (a ++ y :: (mid' ++ y :: b)) jn x = Some ((a ++ y :: mid') ++ x :: b)).
  { replace (a ++ y :: mid' ++ y :: b) with ((a ++ y :: mid') ++ y :: b) by (rewrite <- app_assoc; reflexivity).
    replace jn with (length (a ++ y :: mid')) by (rewrite Hjl, !app_length; reflexivity).
    apply setNthD_mid. }
  destruct (Hb s g _ _ _ _ _ _ _ Ho Hi Hj' Hnx Hny Hs1 Hs2) as (g1 & Eb & Ho1 & Hi1 & Hj1).
  rewrite Eb.
  destruct (Hp s g1 _ _ _ Ho1 Hi1 Hj1) as (g2 & Ep & Ho2 & Hi2 & Hj2).
  rewrite Ep.
  assert (Ho2' : dlookup g2 "order" = Some (DL ((a ++ [y]) ++ mid' ++ ([x] ++ b)))).
  { rewrite Ho2. do 2 f_equal. rewrite <- !app_assoc. reflexivity. }
  assert (Hi2' : dlookup g2 "i" = Some (DI (Z.of_nat (length (a ++ [y]))))).
  { rewrite Hi2. do 2 f_equal. rewrite app_length. cbn [length]. lia. }
  assert (Hj2' : dlookup g2 "j" = Some (DI (Z.of_nat (length (a ++ [y])) + Z.of_nat (length mid') - 1))).
  { rewrite Hj2. do 2 f_equal. unfold jn. rewrite app_length. cbn [length]. lia. }
  destruct (IH mid' (a ++ [y]) ([x] ++ b) s g2 ltac:(lia) Ho2' Hi2' Hj2') as (g' & El & Ho').
  exists g'. split; [exact El|]. rewrite Ho'. do 2 f_equal.
  cbn [rev]. rewrite rev_app_distr. cbn [rev app]. rewrite <- !app_assoc. reflexivity.
Qed.
End RevLoop.

(* ------------------------------------------------------------------------------------ *)
(* the oracle entries used by topologicalOrder                                           *)
(* ------------------------------------------------------------------------------------ *)
Section Topo.
Context {A : Type} {SA : Scalar A}.
Variable fapp : string -> list A -> option A.
Variable rd : bred.
Notation heap := (@heap A).
Notation dval := (@dval A).
Notation denv := (@denv A).
Notation rule := (@rule A).

Definition ids (l : list nat) : list dval := map (fun i => DI (Z.of_nat i)) l.

Lemma nodeId_nat (h : heap) n : (n < length h)%nat -> nodeId h (DI (Z.of_nat n)) = Some n.
Proof.
  intros H. unfold nodeId. rewrite Nat2Z.id.
  assert (E1 : (0 <=? Z.of_nat n) = true) by (apply Z.leb_le; lia).
  assert (E2 : Nat.ltb n (length h) = true) by (apply Nat.ltb_lt; exact H).
  rewrite E1, E2. reflexivity.
Qed.

Lemma nodeId_nat_out (h : heap) n : (length h <= n)%nat -> nodeId h (DI (Z.of_nat n)) = None.
Proof.
  intros H. unfold nodeId. rewrite Nat2Z.id.
  assert (E2 : Nat.ltb n (length h) = false) by (apply Nat.ltb_ge; exact H).
  rewrite E2, andb_false_r. reflexivity.
Qed.

Lemma hext_tracked (h : heap) n : (n < length h)%nat ->
  hext rd "get.tracked" [DI (Z.of_nat n)] h = Some ([DB (trackedOf h n)], h).
Proof. intros H. unfold hext. cbn [String.eqb Ascii.eqb Bool.eqb]. rewrite (nodeId_nat h n H). reflexivity. Qed.

Lemma hext_tracked_out (h : heap) n : (length h <= n)%nat ->
  hext rd "get.tracked" [DI (Z.of_nat n)] h = None.
Proof. intros H. unfold hext. cbn [String.eqb Ascii.eqb Bool.eqb]. rewrite (nodeId_nat_out h n H). reflexivity. Qed.

Lemma hext_ctxOf (h : heap) n : (n < length h)%nat ->
  hext rd "gradContextOf" [DI (Z.of_nat n)] h = Some ([DI (Z.of_nat n)], h).
Proof. intros H. unfold hext. cbn [String.eqb Ascii.eqb Bool.eqb]. rewrite (nodeId_nat h n H). reflexivity. Qed.

Lemma hext_backEdges (h : heap) n : (n < length h)%nat ->
  hext rd "get.backEdges" [DI (Z.of_nat n)] h = Some ([encEdges n (edgesOf h n)], h).
Proof. intros H. unfold hext. cbn [String.eqb Ascii.eqb Bool.eqb]. rewrite (nodeId_nat h n H). reflexivity. Qed.

Lemma hext_setDirty (h : heap) n b : (n < length h)%nat ->
  hext rd "set.bpdirty" [DI (Z.of_nat n); DB b] h = Some ([], setDirty h n b).
Proof. intros H. unfold hext. cbn [String.eqb Ascii.eqb Bool.eqb]. rewrite (nodeId_nat h n H). reflexivity. Qed.

Lemma hext_topo (h : heap) n : (n < length h)%nat ->
  hext rd "topologicalOrder" [DI (Z.of_nat n)] h = Some ([DL (ids (topoOrder h n))], markDirty h (topoOrder h n)).
Proof. intros H. unfold hext. cbn [String.eqb Ascii.eqb Bool.eqb]. rewrite (nodeId_nat h n H). reflexivity. Qed.

Lemma hext_topo_out (h : heap) n : (length h <= n)%nat -> hext rd "topologicalOrder" [DI (Z.of_nat n)] h = None.
Proof. intros H. unfold hext. cbn [String.eqb Ascii.eqb Bool.eqb]. rewrite (nodeId_nat_out h n H). reflexivity. Qed.

(* marking during the visit = marking afterwards *)
Lemma setDirty_markDirty (h : heap) vis n :
  setDirty (markDirty h vis) n true = markDirty h (n :: vis).
Proof.
  apply nth_error_ext_eq. intros j. unfold setDirty.
  rewrite BackpropP.nth_error_updNode, !BackpropP.nth_error_markDirty.
  destruct (nth_error h j) as [nd|]; [|reflexivity]. f_equal.
  unfold memb. cbn [existsb]. fold (memb j vis).
  destruct (Nat.eqb j n); cbn [orb]; destruct (memb j vis); reflexivity.
Qed.

Lemma markDirty_ext (h : heap) l1 l2 : (forall x, memb x l1 = memb x l2) -> markDirty h l1 = markDirty h l2.
Proof.
  intros H. apply nth_error_ext_eq. intros j. rewrite !BackpropP.nth_error_markDirty. rewrite H. reflexivity.
Qed.

Lemma member_ids n l :
  existsb (fun v : dval => match v with DI w => w =? Z.of_nat n | _ => false end) (ids l) = memb n l.
Proof.
  unfold memb, ids. induction l as [|a l IH]; cbn [map existsb]; [reflexivity|]. rewrite IH. f_equal.
  destruct (Nat.eqb n a) eqn:E.
  - apply Nat.eqb_eq in E. subst. apply Z.eqb_refl.
  - apply Nat.eqb_neq in E. apply Z.eqb_neq. lia.
Qed.

Lemma memb_rev n l : memb n (rev l) = memb n l.
Proof.
  destruct (memb n l) eqn:E.
  - apply BackpropP.memb_in. apply -> in_rev. apply BackpropP.memb_in. exact E.
  - destruct (memb n (rev l)) eqn:E2; [|reflexivity].
    apply BackpropP.memb_in in E2. apply in_rev in E2. apply BackpropP.memb_in in E2. congruence.
Qed.

(* ------------------------------------------------------------------------------------ *)
(* (a) the closure [visit]                                                               *)
(* ------------------------------------------------------------------------------------ *)
Notation locals := (plocals g_topologicalOrder).
Variable h : heap.                       (* the heap before the call *)
Hypothesis W : BackpropP.wf_heap h.

(* the captured lists hold the model's state (the model conses, Go appends), the current heap is h with the
   visited contexts marked spent *)
Definition Inv (g : denv) (hc : heap) (st : list nat * list nat) : Prop :=
  dlookup g "visited" = Some (DL (ids (rev (fst st)))) /\
  dlookup g "order" = Some (DL (ids (rev (snd st)))) /\
  hc = markDirty h (fst st).

(* the frame of one invocation of visit(gctx = n) *)
Definition Linv (l : denv) (n : nat) : Prop :=
  dlookup l "gctx" = Some (DI (Z.of_nat n)) /\ dlookup l "order" = None /\ dlookup l "visited" = None.

Lemma Linv_dupd l n x v : Linv l n -> x <> "gctx" -> x <> "order" -> x <> "visited" -> Linv (dupd l x v) n.
Proof.
  intros (L1 & L2 & L3) N1 N2 N3. unfold Linv. rewrite !dlookup_dupd.
  apply not_eq_sym in N1, N2, N3. apply String.eqb_neq in N1, N2, N3. rewrite N1, N2, N3. auto.
Qed.

Definition encEdge (n : nat) (p : nat * (nat * rule)) : dval :=
  DL [DI (Z.of_nat (fst (snd p))); DI (Z.of_nat n); DI (Z.of_nat (fst p))].

(* the loop  for _, e := range gctx.backEdges { visit(gradContextOf(e.target)) }  for any body behaving like the call *)
Lemma visit_loop (f n : nat) (body : heap -> denv -> denv -> @doutcome A heap)
      (assign : denv -> denv -> Z -> dval -> denv * denv) :
  (forall g l k v, assign g l k v = (g, dupd (dupd l "_" (DI k)) "e" v)) ->
  (forall hc g l t own kk st,
      Inv g hc st -> Linv l n -> dlookup l "e" = Some (DL [DI (Z.of_nat t); own; kk]) -> (t < n)%nat ->
      exists g1 l1 hc1, body hc g l = DNormal heap hc1 g1 l1 /\ Inv g1 hc1 (dfs f h t st) /\ Linv l1 n) ->
  forall (es : list (nat * rule)) k0 k hc g l st,
  Forall (fun e : nat * rule => (fst e < n)%nat) es -> Inv g hc st -> Linv l n ->
  exists g1 l1 hc1,
    drangeLoop heap body assign (map (encEdge n) (combine (seq k0 (length es)) es)) k hc g l = DNormal heap hc1 g1 l1 /\
    Inv g1 hc1 (fold_left (fun s e => dfs f h (fst e) s) es st) /\ Linv l1 n.
Proof.
  intros Hasg Hbody. induction es as [|e es IH]; intros k0 k hc g l st Hes Hi Hl.
  - cbn. exists g, l, hc. auto.
  - inversion Hes as [|? ? He Hes']; subst.
    cbn [length seq combine map drangeLoop fold_left]. rewrite Hasg.
    set (l0 := dupd (dupd l "_" (DI k)) "e" (encEdge n (k0, e))).
    assert (Hl0 : Linv l0 n).
    { unfold l0. apply Linv_dupd; [apply Linv_dupd; [exact Hl| | |]| | |]; discriminate. }
    assert (He0 : dlookup l0 "e" = Some (DL [DI (Z.of_nat (fst e)); DI (Z.of_nat n); DI (Z.of_nat k0)])).
    { unfold l0. rewrite dlookup_dupd. cbn [String.eqb Ascii.eqb Bool.eqb]. reflexivity. }
    destruct (Hbody hc g l0 (fst e) _ _ st Hi Hl0 He0 He) as (g1 & l1 & hc1 & Eb & Hi1 & Hl1).
    rewrite Eb.
    destruct (IH (S k0) (k + 1) hc1 g1 l1 _ Hes' Hi1 Hl1) as (g2 & l2 & hc2 & El & Hi2 & Hl2).
    exists g2, l2, hc2. auto.
Qed.

Lemma callLD_S (fuel d : nat) fn vs s (g : denv) :
  callLD fapp heap (hext rd) locals fuel (S d) fn vs s g =
  match dlookupFn locals fn with
  | Some fd =>
      match dbind (dparams fd) vs with
      | Some l0 =>
          match dexec fapp heap (hext rd) (callLD fapp heap (hext rd) locals fuel d) fuel false (dbody fd) s g l0 with
          | DNormal _ s1 g1 l1 | DRet _ _ s1 g1 l1 =>
              match ptrOuts (dparams fd) l1 with Some outs => CRet heap outs s1 g1 | None => CPanic heap end
          | DFuel _ => CFuel heap
          | _ => CPanic heap
          end
      | None => CPanic heap
      end
  | None => CPanic heap
  end.
Proof. reflexivity. Qed.

Definition visit_spec (callL : string -> list dval -> heap -> denv -> @cres A heap) (f : nat) : Prop :=
  forall n st hc g, (n < f)%nat -> (n < length h)%nat -> Inv g hc st ->
  exists g' hc', callL "visit" [DI (Z.of_nat n)] hc g = CRet heap [] hc' g' /\ Inv g' hc' (dfs f h n st).

Lemma visit_closure fuel : forall f d, (f <= d)%nat -> visit_spec (callLD fapp heap (hext rd) locals fuel d) f.
Proof.
  induction f as [|f IH]; intros d Hd n st hc g Hn Hnl Hi; [lia|].
  destruct d as [|d]; [lia|].
  assert (Hcl : visit_spec (callLD fapp heap (hext rd) locals fuel d) f) by (apply IH; lia).
  clear IH.
  rewrite callLD_S. set (cl := callLD fapp heap (hext rd) locals fuel d) in *.
  cbn [dlookupFn plocals g_topologicalOrder String.eqb Ascii.eqb Bool.eqb dbind dparams dbody].
  destruct Hi as (Hv & Ho & Hh). subst hc.
  dxs.
  rewrite hext_tracked by (rewrite BackpropP.length_markDirty; exact Hnl).
  rewrite BackpropP.trackedOf_markDirty.
  cbn [dfs].
  destruct (trackedOf h n) eqn:Et; cbn [negb orb].
  2:{ dxs. cbn [ptrOuts]. exists g, (markDirty h (fst st)). split; [reflexivity|]. unfold Inv. auto. }
  dxs. rewrite Hv. rewrite member_ids, memb_rev.
  destruct (memb n (fst st)) eqn:Em.
  { dxs. cbn [ptrOuts]. exists g, (markDirty h (fst st)). split; [reflexivity|]. unfold Inv. auto. }
  dxs. unfold dhas. rewrite Hv. dxs.
  rewrite hext_setDirty by (rewrite BackpropP.length_markDirty; exact Hnl).
  rewrite setDirty_markDirty. dxs.
  rewrite hext_backEdges by (rewrite BackpropP.length_markDirty; exact Hnl).
  rewrite BackpropP.edgesOf_markDirty. dxs.
  unfold encEdges.
  match goal with |- context [drangeLoop heap ?b ?asg _ _ _ ?g0 ?l0] =>
    pose proof (visit_loop f n b asg) as HL; set (gstart := g0) in *; set (lstart := l0) in *
  end.
  match type of HL with ?P -> _ => assert (Hasg : P) end.
  { intros g1 l1 k v. reflexivity. }
  specialize (HL Hasg).
  match type of HL with ?P -> _ => assert (Hbody : P) end.
  { intros hc g1 l1 t own kk st1 Hi1 Hl1 He1 Ht. dxs.
    destruct Hl1 as (L1 & L2 & L3). pose proof Hi1 as (Hv1 & Ho1 & Hh1).
    assert (Htl : (t < length hc)%nat) by (subst hc; rewrite BackpropP.length_markDirty; lia).
    unfold vlookup at 1. rewrite He1. cbn [didx Z.leb Z.compare Z.to_nat nth_error].
    rewrite hext_ctxOf by exact Htl. dxs.
    unfold vlookup at 1. rewrite dlookup_dupd. cbn [String.eqb Ascii.eqb Bool.eqb].
    destruct (Hcl t st1 hc g1 ltac:(lia) ltac:(lia) Hi1) as (g' & hc' & Ec & Hi').
    rewrite Ec. exists g', (dupd l1 "$3" (DI (Z.of_nat t))), hc'. split; [reflexivity|]. split; [exact Hi'|].
    apply Linv_dupd; [unfold Linv; auto| | |]; discriminate. }
  specialize (HL Hbody).
  assert (Hes : Forall (fun e : nat * rule => (fst e < n)%nat) (edgesOf h n)).
  { apply Forall_forall. intros e He. exact (BackpropP.wf_heap_edgesOf h W n e He). }
  assert (Hi0 : Inv gstart (markDirty h (n :: fst st)) (n :: fst st, snd st)).
  { unfold Inv, gstart. cbn [fst snd rev]. rewrite !dlookup_dupd. cbn [String.eqb Ascii.eqb Bool.eqb].
    split; [|split; [exact Ho|reflexivity]]. unfold ids. rewrite map_app. reflexivity. }
  assert (Hl0 : Linv lstart n) by (unfold Linv, lstart; cbn; auto).
  destruct (HL (edgesOf h n) 0%nat 0 _ gstart lstart _ Hes Hi0 Hl0) as (g2 & l2 & hc2 & El & Hi2 & Hl2).
  unfold encEdge in El. rewrite El. clear El HL Hbody Hasg.
  set (st2 := fold_left (fun s e => dfs f h (fst e) s) (edgesOf h n) (n :: fst st, snd st)) in *.
  destruct Hi2 as (Hv2 & Ho2 & Hh2). destruct Hl2 as (L1 & L2 & L3).
  dxs. unfold vlookup, vassign, dhas. rewrite L1, L2, Ho2. dxs. cbn [ptrOuts].
  eexists. exists hc2. split; [reflexivity|].
  unfold Inv. cbn [fst snd rev]. rewrite !dlookup_dupd. cbn [String.eqb Ascii.eqb Bool.eqb].
  split; [exact Hv2|]. split; [|exact Hh2]. unfold ids. rewrite map_app. reflexivity.
Qed.

(* ------------------------------------------------------------------------------------ *)
(* (c) the whole function                                                                *)
(* ------------------------------------------------------------------------------------ *)
Lemma markDirty_nil : markDirty h [] = h.
Proof.
  apply nth_error_ext_eq. intros j. rewrite BackpropP.nth_error_markDirty. cbn [memb existsb].
  destruct (nth_error h j); reflexivity.
Qed.

Lemma if_same {X} (b : bool) (x : X) : (if b then x else x) = x.
Proof. destruct b; reflexivity. Qed.

(* the top-level search: visited and finished contexts coincide, and there are at most root+1 of them *)
Lemma dfs_top_facts (root : nat) :
  let st := dfs (S root) h root ([], []) in
  (forall x, memb x (fst st) = memb x (snd st)) /\ (length (snd st) <= S root)%nat.
Proof.
  intros st.
  assert (Hinv0 : BackpropP.dinv h root ([], [])).
  { unfold BackpropP.dinv. cbn [fst snd BackpropP.ordered]. split; [intros ? []|]. split; [exact I|].
    split; [constructor|]. split; intros ? []. }
  destruct (BackpropP.dfs_spec h W (S root) root ([], []) ltac:(lia) Hinv0) as (J & _ & _ & Jo & _).
  cbn zeta in *. fold st in J, Jo. destruct J as (J1 & _ & J3 & _ & _).
  destruct (BackpropP.dfs_new h W (S root) root ([], [])) as (new & En & Hnew).
  fold st in En. cbn [snd] in En. rewrite app_nil_r in En.
  split.
  - intros x. destruct (memb x (snd st)) eqn:E2.
    + apply BackpropP.memb_in. apply J1. apply BackpropP.memb_in. exact E2.
    + destruct (memb x (fst st)) eqn:E1; [|reflexivity].
      apply BackpropP.memb_in in E1.
      assert (Hn : ~ In x (snd st)) by (intro X; apply BackpropP.memb_in in X; congruence).
      destruct (Jo x E1 Hn) as [[] _].
  - apply Nat.le_trans with (length (seq 0 (S root))); [|rewrite seq_length; lia].
    apply NoDup_incl_length; [exact J3|].
    intros c Hc. apply in_seq. rewrite En in Hc. destruct (Hnew c Hc) as [Hle _]. lia.
Qed.

Lemma setSlot_main (g : denv) x n v m m' :
  dlookup g x = Some (DL m) -> setNthD m n v = Some m' -> setSlot true g [] x n v = Some (dupd g x (DL m'), []).
Proof.
  intros Hg Hs. unfold setSlot, vlookup. cbn [dlookup]. rewrite Hg, Hs. unfold vassign. cbn [dhas dlookup].
  rewrite if_same. reflexivity.
Qed.

Lemma vassign_main (g : denv) x v : vassign true g [] x v = (dupd g x v, []).
Proof. unfold vassign. cbn [dhas dlookup]. apply if_same. Qed.

Ltac dl := rewrite ?dlookup_dupd; cbn [String.eqb Ascii.eqb Bool.eqb].

Theorem topo_run (root fuel depth : nat) :
  (root < length h)%nat -> (root < depth)%nat -> (length h < fuel)%nat ->
  exists g l,
    drun fapp heap (hext rd) g_topologicalOrder fuel depth [DI (Z.of_nat root)] h =
    DRet heap [DL (ids (topoOrder h root))] (markDirty h (topoOrder h root)) g l.
Proof.
  intros Hr Hd Hf.
  unfold drun. cbn [pmain dparams dbind dbody g_topologicalOrder]. dxs.
  set (g0 := [("root", DI (Z.of_nat root)); ("order", DL []); ("visited", DL [])] : denv).
  assert (Hi0 : Inv g0 h ([], [])).
  { unfold Inv, g0. cbn [fst snd rev ids map dlookup String.eqb Ascii.eqb Bool.eqb]. rewrite markDirty_nil. auto. }
  destruct (visit_closure fuel (S root) depth ltac:(lia) root ([], []) h g0 ltac:(lia) Hr Hi0)
    as (g1 & hc1 & Ec & Hv1 & Ho1 & Hh1).
  rewrite Ec. dxs.
  fold (topoOrder h root) in Ho1.
  set (st1 := dfs (S root) h root ([], [])) in *.
  dl. rewrite Ho1. dxs. dl. dxs. dl. dxs.
  match goal with |- context [dforLoop heap _ ?c ?b ?p _ ?gs _] =>
    pose proof (rev_loop heap c b p) as HL; set (gstart := gs) in *
  end.
  match type of HL with ?P -> _ => assert (Hc : P) end.
  { intros g i j Hi Hj. cbn [vlookup dlookup]. rewrite Hi, Hj. reflexivity. }
  specialize (HL Hc).
  match type of HL with ?P -> _ => assert (Hb : P) end.
  { intros s g i j m x y m1 m2 Ho Hi Hj Hnx Hny Hs1 Hs2. dxs.
    rewrite Ho, Hj, didx_nat, Hny. dxs. dl. rewrite Ho, Hi, didx_nat, Hnx. dxs. dl.
    rewrite Hi, didx_nat.
    rewrite (setSlot_main _ "order" i y m m1) by (dl; assumption). dxs. dl.
    rewrite Hj, didx_nat.
    rewrite (setSlot_main _ "order" j x m1 m2) by (dl; auto).
    eexists. split; [reflexivity|]. dl. auto. }
  specialize (HL Hb).
  match type of HL with ?P -> _ => assert (Hp : P) end.
  { intros s g i j v Ho Hi Hj. dxs. rewrite Hi. dxs. dl. rewrite Hj. dxs. dl.
    rewrite if_same. dxs. dl. rewrite if_same.
    eexists. split; [reflexivity|]. dl. auto. }
  specialize (HL Hp). clear Hc Hb Hp.
  destruct (dfs_top_facts root) as (Fm & Fl). fold st1 in Fm, Fl. change (snd st1) with (topoOrder h root) in Fm, Fl.
  assert (Hlen : length (ids (rev (topoOrder h root))) = length (topoOrder h root)).
  { unfold ids. rewrite map_length, rev_length. reflexivity. }
  destruct (HL fuel (ids (rev (topoOrder h root))) [] [] hc1 gstart) as (g2 & El & Ho2).
  - rewrite Hlen. lia.
  - unfold gstart. dl. rewrite app_nil_r. exact Ho1.
  - unfold gstart. dl. reflexivity.
  - unfold gstart. dl. unfold dlen. cbn [length Z.of_nat Z.add]. reflexivity.
  - rewrite El. dxs. rewrite Ho2. exists g2, []. f_equal.
    + cbn [app]. rewrite app_nil_r. unfold ids. rewrite <- map_rev, rev_involutive. reflexivity.
    + rewrite Hh1. apply markDirty_ext. exact Fm.
Qed.

(* a root that is not a node of the heap: the first context access fails, as does the oracle entry *)
Lemma topo_run_out (root fuel depth : nat) :
  (length h <= root)%nat -> (0 < depth)%nat ->
  drun fapp heap (hext rd) g_topologicalOrder fuel depth [DI (Z.of_nat root)] h = DPanic heap.
Proof.
  intros Hr Hd. destruct depth as [|d]; [lia|].
  unfold drun. cbn [pmain dparams dbind dbody g_topologicalOrder]. dxs.
  rewrite callLD_S.
  cbn [dlookupFn plocals g_topologicalOrder String.eqb Ascii.eqb Bool.eqb dbind dparams dbody]. dxs.
  rewrite hext_tracked_out by exact Hr. reflexivity.
Qed.

End Topo.

(* ------------------------------------------------------------------------------------ *)
(* main theorems                                                                         *)
(* ------------------------------------------------------------------------------------ *)
Section Main.
Context {A : Type} {SA : Scalar A}.
Variable fapp : string -> list A -> option A.
Variable rd : bred.
Notation heap := (@heap A).
Notation dval := (@dval A).

(* (a) the closure: visit(n), run with captured lists holding the model's search state (visited, order) — Go appends,
   the model conses — on the heap h with the visited contexts marked, ends in the state of Backprop.dfs *)
Theorem heap_visit (h : heap) (fuel f d n : nat) (st : list nat * list nat) (g : @denv A) :
  BackpropP.wf_heap h -> (n < f)%nat -> (f <= d)%nat -> (n < length h)%nat ->
  dlookup g "visited" = Some (DL (map (fun i => DI (Z.of_nat i)) (rev (fst st)))) ->
  dlookup g "order" = Some (DL (map (fun i => DI (Z.of_nat i)) (rev (snd st)))) ->
  exists g',
    callLD fapp heap (hext rd) (plocals g_topologicalOrder) fuel d "visit" [DI (Z.of_nat n)] (markDirty h (fst st)) g =
    CRet heap [] (markDirty h (fst (dfs f h n st))) g' /\
    dlookup g' "visited" = Some (DL (map (fun i => DI (Z.of_nat i)) (rev (fst (dfs f h n st))))) /\
    dlookup g' "order" = Some (DL (map (fun i => DI (Z.of_nat i)) (rev (snd (dfs f h n st))))).
Proof.
  intros W Hn Hd Hl Hv Ho.
  destruct (visit_closure fapp rd h W fuel f d Hd n st (markDirty h (fst st)) g Hn Hl) as (g' & hc' & Ec & Hv' & Ho' & Hh').
  { unfold Inv. auto. }
  subst hc'. exists g'. auto.
Qed.

(* (c) the function: the order and the heap of the model (depth > root suffices) *)
Theorem heap_topologicalOrder_strong (h : heap) (root fuel depth : nat) :
  BackpropP.wf_heap h -> (root < length h)%nat -> (root < depth)%nat -> (length h < fuel)%nat ->
  exists g l,
    drun fapp heap (hext rd) g_topologicalOrder fuel depth [DI (Z.of_nat root)] h =
    DRet heap [DL (map (fun i => DI (Z.of_nat i)) (topoOrder h root))] (markDirty h (topoOrder h root)) g l.
Proof. intros W. exact (topo_run fapp rd h W root fuel depth). Qed.

Theorem heap_topologicalOrder (h : heap) (root fuel depth : nat) :
  BackpropP.wf_heap h -> (root < length h)%nat -> (depth > root + 1)%nat -> (fuel > length h)%nat ->
  exists g l,
    drun fapp heap (hext rd) g_topologicalOrder fuel depth [DI (Z.of_nat root)] h =
    DRet heap [DL (map (fun i => DI (Z.of_nat i)) (topoOrder h root))] (markDirty h (topoOrder h root)) g l.
Proof. intros W Hr Hd Hf. apply heap_topologicalOrder_strong; [exact W|exact Hr|lia|lia]. Qed.

(* the program IS the oracle entry "topologicalOrder" of Model/HeapExt.v: same results, same final heap, and it
   panics exactly when the entry is undefined (root not a node of the heap) *)
Theorem heap_topologicalOrder_oracle (h : heap) (root fuel depth : nat) :
  BackpropP.wf_heap h -> (depth > root + 1)%nat -> (fuel > length h)%nat ->
  match hext rd "topologicalOrder" [DI (Z.of_nat root)] h with
  | Some (rs, h') => exists g l,
      drun fapp heap (hext rd) g_topologicalOrder fuel depth [DI (Z.of_nat root)] h = DRet heap rs h' g l
  | None => drun fapp heap (hext rd) g_topologicalOrder fuel depth [DI (Z.of_nat root)] h = DPanic heap
  end.
Proof.
  intros W Hd Hf. destruct (Nat.lt_ge_cases root (length h)) as [Hr|Hr].
  - rewrite (hext_topo rd h root Hr). apply heap_topologicalOrder; assumption.
  - rewrite (hext_topo_out rd h root Hr). apply topo_run_out; [exact Hr|lia].
Qed.

End Main.

Print Assumptions rev_loop.
Print Assumptions heap_visit.
Print Assumptions heap_topologicalOrder_strong.
Print Assumptions heap_topologicalOrder.
Print Assumptions heap_topologicalOrder_oracle.

(* the heap of TrackEx (Proofs/TrackP.v): y = m.Add(c) (id 5) reaches its tracked Broadcast operand 3, then m (2),
   then the leaf x (0); the run returns [5; 3; 2; 0] and leaves exactly these contexts spent *)
From Qeep Require Proofs.TrackP.
Module TopoEx.
Import TrackP.TrackEx.
#[local] Existing Instance Z_scalar.

Example topo_example :
  match drun (fun _ _ => None) (@heap Z) (hext RedSum) g_topologicalOrder 10 10 [DI 5] e5 with
  | DRet _ [DL l] h' _ _ =>
      l = [DI 5; DI 3; DI 2; DI 0] /\ h' = markDirty e5 [5; 3; 2; 0]%nat /\
      map (@ndirty Z) h' = [true; false; true; true; false; true; false; false]
  | _ => False
  end.
Proof. vm_compute. repeat split; reflexivity. Qed.

Example topo_example_oracle :
  match drun (fun _ _ => None) (@heap Z) (hext RedSum) g_topologicalOrder 10 10 [DI 5] e5,
        hext RedSum "topologicalOrder" [DI 5] e5 with
  | DRet _ rs h' _ _, Some (rs', h'') => rs = rs' /\ h' = h''
  | _, _ => False
  end.
Proof. vm_compute. split; reflexivity. Qed.
End TopoEx.
