(* FcP.v — the fully connected layer (component/layers/fc.go) against the exact element
   expression, for an arbitrary [Scalar A] with no laws (property C16).

   1. value projection of MatMul / Dot on the heap ([h_matmul_tracks], [h_dot_tracks]);
   2. [fc_forward_tracks] (the layer is its value-level composition), [fc_val_spec] /
      [fc_forward_spec] (shape [B; O], exact element formula), [fc_forward_rejects];
   3. [fc_rows_independent];
   4. the parameter cells of the scenario level ([fc_weights_live]). *)
From Coq Require Import List Arith ZArith Bool Lia.
From Qeep Require Import Model.Scalar Model.Nd Model.Fill Model.Data Model.Valid Model.Api Model.Grad
  Model.Backprop Model.Components Model.Scenario.
From Qeep Require Import Proofs.NdP Proofs.ElemP Proofs.ReshapeP Proofs.BroadcastP Proofs.ReduceP Proofs.ArithP
  Proofs.MatMulP Proofs.TrackP Proofs.CompP.
Import ListNotations.

Section FcP.
Context {A : Type} {SA : Scalar A}.
Notation T := (tensor A).
Notation heap := (@heap A).
Notation hres := (@hres A).

(* ================================================================== *)
(*  1. MatMul / Dot on the heap                                        *)
(* ================================================================== *)

(* the common skeleton: two public Broadcast calls, then the data-layer function *)
Definition binop_val (s1 s2 : list Z) (f : T -> T -> option T) (xv uv : T) : res T :=
  dor t1 <- v_broadcast xv s1; dor t2 <- v_broadcast uv s2; of_opt (f t1 t2).

Theorem h_binop_tracks (h : heap) x u s1 s2 f edges name xv uv :
  valOf h x = Some xv -> valOf h u = Some uv ->
  tracks h (h_binop h x u s1 s2 f edges name) (binop_val s1 s2 f xv uv) name.
Proof.
  intros Hx Hu. unfold h_binop, h_bcast2, binop_val.
  pose proof (h_broadcast_tracks h x s1 None xv Hx) as H1.
  destruct (v_broadcast xv s1) as [v1| |]; cbn [tracks res_bind] in *.
  - destruct H1 as (h1 & b1 & E1 & Hext1 & Hle1 & HS1 & Hv1 & _). rewrite E1.
    pose proof (h_broadcast_tracks h1 u s2 None uv (extends_valOf _ _ _ _ Hext1 Hu)) as H2.
    destruct (v_broadcast uv s2) as [v2| |]; cbn [tracks res_bind] in *.
    + destruct H2 as (h2 & b2 & E2 & Hext2 & Hle2 & HS2 & Hv2 & _). rewrite E2.
      rewrite (extends_valOf _ _ _ _ Hext2 Hv1), Hv2.
      destruct (f v1 v2) as [v|]; cbn [of_opt tracks]; [|reflexivity].
      cbv zeta. eapply produces_weaken; [eapply extends_trans; eauto|]. apply alloc_produces.
    + rewrite H2. reflexivity.
    + rewrite H2. reflexivity.
  - rewrite H1. reflexivity.
  - rewrite H1. reflexivity.
Qed.

Theorem h_matmul_tracks (h : heap) x u name xv uv : valOf h x = Some xv -> valOf h u = Some uv ->
  tracks h (h_matmul h x u name) (v_matmul xv uv) name.
Proof.
  intros Hx Hu. unfold h_matmul, v_matmul. rewrite Hx, Hu.
  destruct (validateMatMulDims (zdims xv) (zdims uv)); [|reflexivity]. cbv zeta.
  pose proof (h_binop_tracks h x u
                (map Z.of_nat (mmShape (targetBroadcastDims (dims xv) (dims uv)) (dims xv)))
                (map Z.of_nat (mmShape (targetBroadcastDims (dims xv) (dims uv)) (dims uv)))
                matMul (fun y a1 a2 => [(a1, RMatMulA y a2); (a2, RMatMulB y a1)]) name xv uv Hx Hu) as H.
  unfold binop_val in H. unfold v_bcastMM. cbv zeta.
  destruct (v_broadcast xv _) as [t1| |]; cbn [res_bind] in *; try exact H.
  destruct (v_broadcast uv _) as [t2| |]; cbn [res_bind fst snd] in *; exact H.
Qed.

Theorem h_dot_tracks (h : heap) x u name xv uv : valOf h x = Some xv -> valOf h u = Some uv ->
  tracks h (h_dot h x u name) (v_dot xv uv) name.
Proof.
  intros Hx Hu. unfold h_dot, v_dot. rewrite Hx, Hu.
  destruct (validateDotProductDims (zdims xv) (zdims uv)); [|reflexivity]. cbv zeta.
  pose proof (h_binop_tracks h x u
                (map Z.of_nat (targetBroadcastDims (dims xv) (dims uv)))
                (map Z.of_nat (targetBroadcastDims (dims xv) (dims uv)))
                dot (fun y a1 a2 => [(a1, RDot y a2); (a2, RDot y a1)]) name xv uv Hx Hu) as H.
  unfold binop_val in H. unfold v_bcast2. cbv zeta.
  destruct (v_broadcast xv _) as [t1| |]; cbn [res_bind] in *; try exact H.
  destruct (v_broadcast uv _) as [t2| |]; cbn [res_bind fst snd] in *; exact H.
Qed.

Lemma h_matmul_missing (h : heap) x u name : valOf h x = None \/ valOf h u = None ->
  h_matmul h x u name = (h, Panic).
Proof.
  intros [H|H]; unfold h_matmul; rewrite H; [reflexivity|]. destruct (valOf h x); reflexivity.
Qed.

(* ================================================================== *)
(*  2. the layer at the value level                                    *)
(* ================================================================== *)

(* the composition of fc.go at the value level, in the order of the Go code *)
Definition fc_val (wv bv xv : T) : res T :=
  dor w1 <- v_unsqueeze wv 1%Z;
  dor x1 <- v_unsqueeze xv 1%Z;
  dor y1 <- v_matmul w1 x1;
  dor y2 <- v_reduceAlong RdSum y1 2%Z;
  v_arith BiAdd y2 bv.

(* the heap call is the value-level composition, whatever the values are (rank-2 input) *)
Theorem fc_forward_tracks (h : heap) w b x name wv bv xv :
  valOf h w = Some wv -> valOf h b = Some bv -> valOf h x = Some xv -> length (dims xv) = 2 ->
  tracks h (fc_forward h w b [Some x] name) (fc_val wv bv xv) name.
Proof.
  intros Hw Hb Hx Hr. unfold fc_forward, fc_val. cbn [oneInput]. unfold rankOf. rewrite Hx, Hr.
  cbn [Nat.eqb negb]. apply tracks_atomically.
  eapply tracks_w_bind; [apply tracks_is_w, h_unsqueeze_tracks, Hw|].
  intros h1 w1 w1v X1 _ Hw1 _.
  eapply tracks_w_bind; [apply tracks_is_w, h_unsqueeze_tracks, (extends_valOf _ _ _ _ X1 Hx)|].
  intros h2 x1 x1v X2 _ Hx1 _.
  eapply tracks_w_bind;
    [apply tracks_is_w, h_matmul_tracks; [exact (extends_valOf _ _ _ _ X2 Hw1)|exact Hx1]|].
  intros h3 y1 y1v X3 _ Hy1 _.
  eapply tracks_w_bind; [apply tracks_is_w, h_reduceAlong_tracks, Hy1|].
  intros h4 y2 y2v X4 _ Hy2 _.
  apply tracks_is_w, h_arith_tracks; [exact Hy2|].
  exact (extends_valOf _ _ _ _ X4 (extends_valOf _ _ _ _ X3 (extends_valOf _ _ _ _ X2 (extends_valOf _ _ _ _ X1 Hb)))).
Qed.

(* ---- element bookkeeping ---- *)

Lemma map_Some_inj {X} (l1 l2 : list X) : map Some l1 = map Some l2 -> l1 = l2.
Proof.
  revert l2. induction l1 as [|a l1 IH]; intros [|b l2] H; cbn in H; try discriminate; [reflexivity|].
  inversion H; subst. f_equal. apply IH. assumption.
Qed.

(* a reshaped tensor read at an index with the same row-major position *)
Lemma reshaped_get (t r : T) shape idx idx' : wf t -> reshaped A t r shape ->
  validIdx shape idx -> validIdx (dims t) idx' -> flatIdx shape idx = flatIdx (dims t) idx' ->
  get (data r) idx = get (data t) idx'.
Proof.
  intros [Hwt _] (Hd & [Hwr _] & Hfl) Hv Hv' E. rewrite Hd in Hwr.
  rewrite <- (flat_nth A shape (data r) idx Hwr Hv), Hfl, E. apply (flat_nth A (dims t)); assumption.
Qed.

(* the part before the bias: W.UnSqueeze(1).MatMul(x.UnSqueeze(1)).SumAlong(2) *)
Definition fc_pre (wv xv : T) : res T :=
  dor w1 <- v_unsqueeze wv 1%Z;
  dor x1 <- v_unsqueeze xv 1%Z;
  dor y1 <- v_matmul w1 x1;
  v_reduceAlong RdSum y1 2%Z.

Lemma fc_val_pre (wv bv xv : T) : fc_val wv bv xv = dor y2 <- fc_pre wv xv; v_arith BiAdd y2 bv.
Proof.
  unfold fc_val, fc_pre. destruct (v_unsqueeze wv 1%Z) as [w1| |]; cbn [res_bind]; try reflexivity.
  destruct (v_unsqueeze xv 1%Z) as [x1| |]; cbn [res_bind]; try reflexivity.
  destruct (v_matmul w1 x1) as [y1| |]; cbn [res_bind]; reflexivity.
Qed.

(* (Σ_d  0 + W[o] * x[b][d]) with the evaluation order of the code: the MatMul element is the
   one-term left fold from 0 (inner dimension 1), SumAlong the left fold from 0 over d = 0..F-1 *)
Definition fcSum (wv xv : T) (F bi o : nat) : A :=
  fold_left sadd (map (fun d => sadd s0 (smul (elt (data wv) [o]) (elt (data xv) [bi; d]))) (seq 0 F)) s0.

(* y[b][o] = (Σ_d  0 + W[o] * x[b][d])  +  B[o] *)
Definition fcEl (wv bv xv : T) (F bi o : nat) : A := sadd (fcSum wv xv F bi o) (elt (data bv) [o]).

Theorem fc_pre_spec (wv xv : T) O B F : wf wv -> wf xv -> dims wv = [O] -> dims xv = [B; F] ->
  exists y2, fc_pre wv xv = Ok y2 /\ dims y2 = [B; O] /\ wf y2 /\
    forall bi o, bi < B -> o < O -> get (data y2) [bi; o] = Some (fcSum wv xv F bi o).
Proof.
  intros Ww Wx Ew Ex. unfold fc_pre.
  (* w1 := w.UnSqueeze(1) : [O] -> [O; 1] *)
  destruct (v_unsqueeze_spec A wv 1%Z Ww) as [Hu1 _].
  destruct Hu1 as (w1 & E1 & R1); [apply validateUnSqueezeDim_iff; rewrite Ew; cbn; lia|].
  rewrite E1. cbn [res_bind]. change (Z.to_nat 1) with 1 in R1. rewrite Ew in R1. cbn [unsqueezeDims firstn skipn app] in R1.
  pose proof R1 as (Dw1 & Ww1 & _).
  (* x1 := x.UnSqueeze(1) : [B; F] -> [B; 1; F] *)
  destruct (v_unsqueeze_spec A xv 1%Z Wx) as [Hu2 _].
  destruct Hu2 as (x1 & E2 & R2); [apply validateUnSqueezeDim_iff; rewrite Ex; cbn; lia|].
  rewrite E2. cbn [res_bind]. change (Z.to_nat 1) with 1 in R2. rewrite Ex in R2. cbn [unsqueezeDims firstn skipn app] in R2.
  pose proof R2 as (Dx1 & Wx1 & _).
  (* y1 := w1.MatMul(x1) : [O; 1] x [B; 1; F] -> [B; O; F] *)
  destruct (v_matmul_spec w1 x1 Ww1 Wx1) as (Hm & _ & _).
  pose proof (Hm [] [B] O 1 F Dw1 Dx1 I) as Hm'. cbv zeta in Hm'.
  change (targetBroadcastDims [] [B]) with [B] in Hm'. cbn [app] in Hm'.
  destruct Hm' as (y1 & E3 & Dy1 & Wy1 & G1). rewrite E3. cbn [res_bind].
  (* y2 := y1.SumAlong(2) : [B; O; F] -> [B; O] *)
  assert (Hrg : (0 <= 2 < Z.of_nat (length (dims y1)))%Z) by (rewrite Dy1; cbn; lia).
  pose proof (v_reduceAlong_elems RdSum y1 2%Z Wy1 Hrg) as Hr. cbv zeta in Hr.
  change (Z.to_nat 2) with 2 in Hr. rewrite Dy1 in Hr. cbn [squeezeDims firstn skipn app nth] in Hr.
  destruct Hr as (y2 & E4 & Dy2 & Wy2 & G2). rewrite E4.
  exists y2. split; [reflexivity|]. split; [exact Dy2|]. split; [exact Wy2|].
  intros bi o Hbi Ho.
  assert (Vbo : validIdx [B; O] [bi; o]) by (apply validIdx2; auto).
  destruct (G2 _ Vbo) as (fibre & Efib & Gy2). rewrite Gy2. cbn [app] in Efib.
  assert (fibre = map (fun d => sadd s0 (smul (elt (data wv) [o]) (elt (data xv) [bi; d]))) (seq 0 F)) as ->;
    [|reflexivity].
  apply map_Some_inj. rewrite Efib, map_map.
  apply map_ext_in. intros d Hd. apply in_seq in Hd.
  (* the MatMul element: inner dimension 1 *)
  pose proof (G1 [bi] o d) as Gm. cbn [app] in Gm. rewrite Gm by (repeat constructor; lia).
  cbn [seq fold_left]. f_equal. f_equal. f_equal.
  - (* w1[o][0] = w[o] *)
    apply elt_get_eq. unfold bproj. cbn [length Nat.sub skipn combine map app].
    apply (reshaped_get wv w1 [O; 1] [o; 0] [o] Ww R1); [apply validIdx2; lia|rewrite Ew; apply validIdx1; exact Ho|].
    rewrite Ew. cbn. lia.
  - (* x1[b][0][d] = x[b][d] *)
    apply elt_get_eq. rewrite (bproj_id [B] [bi]) by (apply validIdx1; exact Hbi). cbn [app].
    apply (reshaped_get xv x1 [B; 1; F] [bi; 0; d] [bi; d] Wx R2);
      [repeat constructor; lia|rewrite Ex; apply validIdx2; lia|].
    rewrite Ex. cbn. lia.
Qed.

Theorem fc_val_spec (wv bv xv : T) O B F : wf wv -> wf bv -> wf xv ->
  dims wv = [O] -> dims bv = [O] -> dims xv = [B; F] ->
  exists r, fc_val wv bv xv = Ok r /\ dims r = [B; O] /\ wf r /\
    forall bi o, bi < B -> o < O -> get (data r) [bi; o] = Some (fcEl wv bv xv F bi o).
Proof.
  intros Ww Wb Wx Ew Eb Ex. rewrite fc_val_pre.
  destruct (fc_pre_spec wv xv O B F Ww Wx Ew Ex) as (y2 & E4 & Dy2 & Wy2 & G2). rewrite E4. cbn [res_bind].
  (* result := y2.Add(b) : [B; O] + [O] -> [B; O] *)
  pose proof (v_arith_spec BiAdd y2 bv Wy2 Wb) as Ha. cbv zeta in Ha. destruct Ha as [Ha _].
  rewrite Dy2, Eb in Ha.
  assert (Et : targetBroadcastDims [B; O] [O] = [B; O])
    by (unfold targetBroadcastDims; cbn; rewrite Nat.max_id; reflexivity).
  rewrite Et in Ha.
  destruct Ha as (r & E5 & Dr & Wr & G3); [unfold bcompat2; cbn; auto|].
  exists r. split; [exact E5|]. split; [exact Dr|]. split; [exact Wr|].
  intros bi o Hbi Ho.
  assert (Vbo : validIdx [B; O] [bi; o]) by (apply validIdx2; auto).
  assert (Vo : validIdx [O] [o]) by (apply validIdx1; auto).
  rewrite (G3 _ Vbo). rewrite (bproj_id [B; O] _ Vbo).
  assert (Ep : bproj [O] [B; O] [bi; o] = [o]).
  { unfold bproj. cbn. destruct (O =? 1) eqn:E; [|reflexivity]. apply Nat.eqb_eq in E. f_equal. lia. }
  rewrite Ep. rewrite <- Eb in Vo. rewrite (elt_some _ _ _ (proj1 Wb) Vo).
  rewrite (G2 bi o Hbi Ho). reflexivity.
Qed.

(* the operands read by the formula are the elements of W, B and x *)
Lemma fc_operands (wv bv xv : T) O B F : wf wv -> wf bv -> wf xv ->
  dims wv = [O] -> dims bv = [O] -> dims xv = [B; F] ->
  forall bi o d, bi < B -> o < O -> d < F ->
    get (data wv) [o] = Some (elt (data wv) [o]) /\ get (data bv) [o] = Some (elt (data bv) [o]) /\
    get (data xv) [bi; d] = Some (elt (data xv) [bi; d]).
Proof.
  intros [Ww _] [Wb _] [Wx _] Ew Eb Ex bi o d Hbi Ho Hd. rewrite Ew in Ww. rewrite Eb in Wb. rewrite Ex in Wx.
  split; [apply (elt_some [O]); [exact Ww|apply validIdx1; exact Ho]|].
  split; [apply (elt_some [O]); [exact Wb|apply validIdx1; exact Ho]|].
  apply (elt_some [B; F]); [exact Wx|apply validIdx2; auto].
Qed.

(* wf tensors of these shapes have positive sizes *)
Lemma fc_sizes_pos (wv xv : T) O B F : wf wv -> wf xv -> dims wv = [O] -> dims xv = [B; F] -> 0 < O /\ 0 < B /\ 0 < F.
Proof.
  intros [_ Pw] [_ Px] Ew Ex. rewrite Ew in Pw. rewrite Ex in Px.
  inversion Pw as [|? ? HO _]; subst. inversion Px as [|? ? HB Px']; subst. inversion Px' as [|? ? HF _]; subst. auto.
Qed.

(* ---- the user-facing statement (C16) ---- *)
Theorem fc_forward_spec (h : heap) w b x name (wv bv xv : T) O B F :
  valOf h w = Some wv -> valOf h b = Some bv -> valOf h x = Some xv ->
  wf wv -> wf bv -> wf xv -> dims wv = [O] -> dims bv = [O] -> dims xv = [B; F] ->
  exists r, produces h (fc_forward h w b [Some x] name) r name /\ dims r = [B; O] /\ wf r /\
    forall bi o, bi < B -> o < O ->
      get (data r) [bi; o] =
      Some (sadd (fold_left sadd
                    (map (fun d => sadd s0 (smul (elt (data wv) [o]) (elt (data xv) [bi; d]))) (seq 0 F)) s0)
                 (elt (data bv) [o])).
Proof.
  intros Hw Hb Hx Ww Wb Wx Ew Eb Ex.
  destruct (fc_val_spec wv bv xv O B F Ww Wb Wx Ew Eb Ex) as (r & Er & Hr). exists r. split; [|exact Hr].
  pose proof (fc_forward_tracks h w b x name wv bv xv Hw Hb Hx ltac:(rewrite Ex; reflexivity)) as H.
  rewrite Er in H. exact H.
Qed.

(* ---- rejections ---- *)

(* not exactly one non-nil input, or an input whose rank is not 2: error, heap unchanged *)
Theorem fc_forward_rejects (h : heap) w b xs name :
  (oneInput xs = None -> fc_forward h w b xs name = (h, Err)) /\
  (forall x, xs = [Some x] -> rankOf h x <> 2 -> fc_forward h w b xs name = (h, Err)).
Proof.
  split.
  - intros E. unfold fc_forward. rewrite E. reflexivity.
  - intros x -> Hr. unfold fc_forward. cbn [oneInput].
    destruct (rankOf h x =? 2) eqn:E; [apply Nat.eqb_eq in E; contradiction|reflexivity].
Qed.

(* whatever the arguments: a call that does not return a tensor leaves the heap as it was *)
Theorem fc_forward_fail_frame (h : heap) w b xs name :
  (forall id, snd (fc_forward h w b xs name) <> Ok id) -> fst (fc_forward h w b xs name) = h.
Proof.
  unfold fc_forward. destruct (oneInput xs) as [x|]; [|reflexivity].
  destruct (negb (rankOf h x =? 2)); [reflexivity|].
  match goal with |- context [atomically h ?e] => destruct e as [h1 [id| |]] end; cbn; intros H;
    [exfalso; apply (H id); reflexivity|reflexivity|reflexivity].
Qed.

(* a bias that cannot be broadcast against [B; O]  (e.g. [O'] with O' <> O and neither 1):
   Add returns an error, the layer reports it and nothing is left behind *)
Theorem fc_forward_bias_mismatch (h : heap) w b x name (wv bv xv : T) O B F :
  valOf h w = Some wv -> valOf h b = Some bv -> valOf h x = Some xv ->
  wf wv -> wf bv -> wf xv -> dims wv = [O] -> dims xv = [B; F] -> ~ bcompat2 [B; O] (dims bv) ->
  fc_forward h w b [Some x] name = (h, Err).
Proof.
  intros Hw Hb Hx Ww Wb Wx Ew Ex Hn.
  pose proof (fc_forward_tracks h w b x name wv bv xv Hw Hb Hx ltac:(rewrite Ex; reflexivity)) as H.
  rewrite fc_val_pre in H.
  destruct (fc_pre_spec wv xv O B F Ww Wx Ew Ex) as (y2 & E4 & Dy2 & Wy2 & _). rewrite E4 in H. cbn [res_bind] in H.
  pose proof (v_arith_spec BiAdd y2 bv Wy2 Wb) as Ha. cbv zeta in Ha. destruct Ha as [_ Ha].
  rewrite Dy2 in Ha. rewrite (Ha Hn) in H. exact H.
Qed.

Corollary fc_forward_bias_len_mismatch (h : heap) w b x name (wv bv xv : T) O O' B F :
  valOf h w = Some wv -> valOf h b = Some bv -> valOf h x = Some xv ->
  wf wv -> wf bv -> wf xv -> dims wv = [O] -> dims bv = [O'] -> dims xv = [B; F] ->
  O' <> O -> O <> 1 -> O' <> 1 ->
  fc_forward h w b [Some x] name = (h, Err).
Proof.
  intros Hw Hb Hx Ww Wb Wx Ew Eb Ex N1 N2 N3.
  apply (fc_forward_bias_mismatch h w b x name wv bv xv O B F); try assumption.
  rewrite Eb. unfold bcompat2. cbn. intros [[H|[H|H]] _]; congruence.
Qed.

(* well-formed operands never make the layer panic, whatever their shapes *)
Lemma v_unsqueeze_wf (t r : T) dim : wf t -> v_unsqueeze t dim = Ok r -> wf r.
Proof.
  intros Wt E. destruct (v_unsqueeze_spec A t dim Wt) as [H1 H2].
  destruct (validateUnSqueezeDim dim (zdims t)).
  - destruct (H1 eq_refl) as (r' & Er & _ & Wr & _). congruence.
  - rewrite (H2 eq_refl) in E. discriminate.
Qed.

Lemma v_unsqueeze_no_panic (t : T) dim : wf t -> v_unsqueeze t dim <> Panic.
Proof.
  intros Wt E. destruct (v_unsqueeze_spec A t dim Wt) as [H1 H2].
  destruct (validateUnSqueezeDim dim (zdims t)).
  - destruct (H1 eq_refl) as (r' & Er & _). congruence.
  - rewrite (H2 eq_refl) in E. discriminate.
Qed.

Lemma v_matmul_wf (t u r : T) : wf t -> wf u -> v_matmul t u = Ok r -> wf r.
Proof.
  intros Wt Wu E. destruct (v_matmul_ok_iff t u Wt Wu) as [[H _] _].
  destruct (H (ex_intro _ r E)) as (p1 & p2 & m & n & k & E1 & E2 & Hc).
  destruct (v_matmul_spec t u Wt Wu) as (Hs & _). pose proof (Hs p1 p2 m n k E1 E2 Hc) as Hs'. cbv zeta in Hs'.
  destruct Hs' as (r' & Er & _ & Wr & _). congruence.
Qed.

Lemma v_reduceAlong_wf rd (t r : T) dim : wf t -> v_reduceAlong rd t dim = Ok r -> wf r.
Proof.
  intros Wt E. destruct (v_reduceAlong_spec rd t dim Wt) as [H1 H2].
  destruct (Z_le_dec 0 dim) as [Ha|Ha]; [destruct (Z_lt_dec dim (Z.of_nat (length (dims t)))) as [Hb|Hb]|].
  - destruct (H1 (conj Ha Hb)) as (r' & Er & _ & _ & Wr). congruence.
  - rewrite H2 in E by lia. discriminate.
  - rewrite H2 in E by lia. discriminate.
Qed.

Theorem fc_val_no_panic (wv bv xv : T) : wf wv -> wf bv -> wf xv -> fc_val wv bv xv <> Panic.
Proof.
  intros Ww Wb Wx. unfold fc_val.
  destruct (v_unsqueeze wv 1%Z) as [w1| |] eqn:E1; cbn [res_bind];
    [|discriminate|exfalso; exact (v_unsqueeze_no_panic wv 1%Z Ww E1)].
  destruct (v_unsqueeze xv 1%Z) as [x1| |] eqn:E2; cbn [res_bind];
    [|discriminate|exfalso; exact (v_unsqueeze_no_panic xv 1%Z Wx E2)].
  pose proof (v_unsqueeze_wf _ _ _ Ww E1) as Ww1. pose proof (v_unsqueeze_wf _ _ _ Wx E2) as Wx1.
  destruct (v_matmul w1 x1) as [y1| |] eqn:E3; cbn [res_bind];
    [|discriminate|exfalso; apply (proj2 (v_matmul_ok_iff w1 x1 Ww1 Wx1) E3)].
  pose proof (v_matmul_wf _ _ _ Ww1 Wx1 E3) as Wy1.
  destruct (v_reduceAlong RdSum y1 2%Z) as [y2| |] eqn:E4; cbn [res_bind];
    [|discriminate|exfalso; apply (v_reduceAlong_never_panics RdSum y1 2%Z Wy1 E4)].
  pose proof (v_reduceAlong_wf _ _ _ _ Wy1 E4) as Wy2.
  exact (proj2 (v_arith_ok_iff BiAdd y2 bv Wy2 Wb)).
Qed.

Lemma oneInput_some (xs : list targ) x : oneInput xs = Some x -> xs = [Some x].
Proof. destruct xs as [|[y|] [|z r]]; cbn; intros E; try discriminate. inversion E; reflexivity. Qed.

Theorem fc_forward_never_panics (h : heap) w b xs name (wv bv : T) :
  (forall i v, valOf h i = Some v -> wf v) -> valOf h w = Some wv -> valOf h b = Some bv ->
  snd (fc_forward h w b xs name) <> Panic.
Proof.
  intros Hwf Hw Hb. unfold fc_forward. destruct (oneInput xs) as [x|] eqn:Eo; [|discriminate].
  destruct (negb (rankOf h x =? 2)) eqn:Er; [discriminate|].
  apply negb_false_iff, Nat.eqb_eq in Er. unfold rankOf in Er.
  destruct (valOf h x) as [xv|] eqn:Hx; [|discriminate].
  apply oneInput_some in Eo. subst xs.
  pose proof (fc_forward_tracks h w b x name wv bv xv Hw Hb Hx Er) as H.
  unfold fc_forward in H. cbn [oneInput] in H. unfold rankOf in H. rewrite Hx, Er in H. cbn [Nat.eqb negb] in H.
  pose proof (fc_val_no_panic wv bv xv (Hwf _ _ Hw) (Hwf _ _ Hb) (Hwf _ _ Hx)) as Hn.
  destruct (fc_val wv bv xv) as [v| |]; cbn [tracks] in H.
  - destruct H as (h' & id & -> & _). discriminate.
  - rewrite H. discriminate.
  - contradiction.
Qed.

(* ================================================================== *)
(*  3. every output row depends on its own input row only              *)
(* ================================================================== *)

Theorem fc_rows_independent (wv bv xv xv' : T) F bi bi' :
  (forall d, d < F -> get (data xv) [bi; d] = get (data xv') [bi'; d]) ->
  forall o, fcEl wv bv xv F bi o = fcEl wv bv xv' F bi' o.
Proof.
  intros H o. unfold fcEl, fcSum. f_equal. f_equal. apply map_ext_in. intros d Hd. apply in_seq in Hd.
  rewrite (elt_get_eq _ _ _ _ (H d ltac:(lia))). reflexivity.
Qed.

(* two calls (possibly on different heaps, different batch sizes) with the same parameters:
   rows computed from equal input rows are equal *)
Corollary fc_forward_rows_independent (h h' : heap) w b x w' b' x' name name' (wv bv xv xv' : T) O B B' F bi bi' :
  valOf h w = Some wv -> valOf h b = Some bv -> valOf h x = Some xv ->
  valOf h' w' = Some wv -> valOf h' b' = Some bv -> valOf h' x' = Some xv' ->
  wf wv -> wf bv -> wf xv -> wf xv' -> dims wv = [O] -> dims bv = [O] -> dims xv = [B; F] -> dims xv' = [B'; F] ->
  bi < B -> bi' < B' ->
  (forall d, d < F -> get (data xv) [bi; d] = get (data xv') [bi'; d]) ->
  exists r r', produces h (fc_forward h w b [Some x] name) r name /\
               produces h' (fc_forward h' w' b' [Some x'] name') r' name' /\
               forall o, o < O -> get (data r) [bi; o] = get (data r') [bi'; o].
Proof.
  intros Hw Hb Hx Hw' Hb' Hx' Ww Wb Wx Wx' Ew Eb Ex Ex' Hbi Hbi' Hrow.
  destruct (fc_forward_spec h w b x name wv bv xv O B F Hw Hb Hx Ww Wb Wx Ew Eb Ex) as (r & P & _ & _ & G).
  destruct (fc_forward_spec h' w' b' x' name' wv bv xv' O B' F Hw' Hb' Hx' Ww Wb Wx' Ew Eb Ex') as (r' & P' & _ & _ & G').
  exists r, r'. split; [exact P|]. split; [exact P'|]. intros o Ho.
  rewrite (G bi o Hbi Ho), (G' bi' o Hbi' Ho). f_equal.
  apply (fc_rows_independent wv bv xv xv' F bi bi' Hrow o).
Qed.

End FcP.

(* ================================================================== *)
(*  4. the parameter cells at the scenario level                       *)
(* ================================================================== *)
Section FcScenario.
Context {A : Type} {SA : Scalar A}.
Notation T := (tensor A).
Notation heap := (@heap A).
Notation obj := (@obj A).
Notation state := (@state A).
Notation cmd := (@cmd A).
Variable rd : bred.
Variable sealv : nat -> T -> T.
Variable sealg : nat -> option nat -> T -> T.
Variables (c_eps c_one_m_eps : A) (c_leaky c_sgd_lr dFull dUniL dUniU dNorM dNorS : dec) (c_softmax_dim : Z).

Local Notation stepS := (step rd sealv sealg c_eps c_one_m_eps c_leaky c_sgd_lr dFull dUniL dUniU dNorM dNorS c_softmax_dim).

(* ---- the environment update ---- *)
Lemma setNthObj_length (env : list obj) i o : length (setNthObj env i o) = length env.
Proof. unfold setNthObj. apply mapi_length. Qed.

Lemma setNthObj_same (env : list obj) i o : i < length env -> nth_error (setNthObj env i o) i = Some o.
Proof.
  intros Hi. unfold setNthObj. rewrite mapi_nth.
  destruct (nth_error env i) as [o'|] eqn:E; [|apply nth_error_None in E; lia].
  cbn [option_map fst snd]. rewrite Nat.eqb_refl. reflexivity.
Qed.

Lemma setNthObj_other (env : list obj) i j o : j <> i -> nth_error (setNthObj env i o) j = nth_error env j.
Proof.
  intros Hj. unfold setNthObj. rewrite mapi_nth. destruct (nth_error env j) as [o'|]; [|reflexivity].
  cbn [option_map fst snd]. destruct (j =? i) eqn:E; [apply Nat.eqb_eq in E; contradiction|reflexivity].
Qed.

(* the two cells of the layer object [fc] *)
Definition fcCells (s : state) (fc : nat) : option (option nat * option nat) :=
  match nth_error (st_env s) fc with Some (OFC w b) => Some (w, b) | _ => None end.

Definition setCell (c : option nat * option nat) (p : bool * nat) : option nat * option nat :=
  if fst p then (fst c, Some (snd p)) else (Some (snd p), snd c).

(* ---- one CFCSet: *Weights()[k] = t ---- *)
Lemma step_fcset (s : state) fc bias t w b x :
  nth_error (st_env s) fc = Some (OFC w b) -> lookupT s t = Some x ->
  stepS s (CFCSet fc bias t) =
  (mkState (st_heap s) (setNthObj (st_env s) fc (if bias then OFC w (Some x) else OFC (Some x) b) ++ [ONone]) (st_rng s),
   ObOk).
Proof. intros Hfc Ht. unfold step. rewrite Hfc, Ht. reflexivity. Qed.

Theorem fcset_spec (s : state) fc bias t w b x :
  fcCells s fc = Some (w, b) -> lookupT s t = Some x ->
  let s' := fst (stepS s (CFCSet fc bias t)) in
  snd (stepS s (CFCSet fc bias t)) = ObOk /\
  st_heap s' = st_heap s /\ st_rng s' = st_rng s /\ length (st_env s') = S (length (st_env s)) /\
  fcCells s' fc = Some (setCell (w, b) (bias, x)) /\
  (forall j, j <> fc -> j < length (st_env s) -> nth_error (st_env s') j = nth_error (st_env s) j) /\
  (forall j, lookupT s' j = lookupT s j).
Proof.
  intros Hc Ht. unfold fcCells in Hc.
  destruct (nth_error (st_env s) fc) as [[| | w' b'| | |]|] eqn:Hfc; try discriminate. inversion Hc; subst w' b'.
  assert (Hlt : fc < length (st_env s)) by (apply nth_error_Some; congruence).
  cbv zeta. rewrite (step_fcset s fc bias t w b x Hfc Ht). cbn [fst snd st_heap st_env st_rng].
  set (o := if bias then OFC w (Some x) else OFC (Some x) b).
  split; [reflexivity|]. split; [reflexivity|]. split; [reflexivity|].
  split; [rewrite app_length, setNthObj_length; cbn; lia|].
  split.
  { unfold fcCells. cbn [st_env]. rewrite nth_error_app1 by (rewrite setNthObj_length; exact Hlt).
    rewrite setNthObj_same by exact Hlt. unfold o, setCell. destruct bias; reflexivity. }
  split.
  { intros j Hj Hjl. rewrite nth_error_app1 by (rewrite setNthObj_length; exact Hjl). apply setNthObj_other, Hj. }
  intros j. unfold lookupT. cbn [st_env].
  destruct (Nat.lt_ge_cases j (length (st_env s))) as [Hjl|Hjl].
  - rewrite nth_error_app1 by (rewrite setNthObj_length; exact Hjl).
    destruct (Nat.eq_dec j fc) as [->|Hj].
    + rewrite setNthObj_same by exact Hlt. rewrite Hfc. unfold o. destruct bias; reflexivity.
    + rewrite setNthObj_other by exact Hj. reflexivity.
  - rewrite nth_error_app2 by (rewrite setNthObj_length; exact Hjl). rewrite setNthObj_length.
    rewrite (proj2 (nth_error_None (st_env s) j) Hjl).
    destruct (j - length (st_env s)) as [|[|k]]; reflexivity.
Qed.

(* ---- CFCForward reads the cells: Forward uses the tensors the pointers address NOW ---- *)
Theorem step_fcforward (s : state) fc w b xs args :
  fcCells s fc = Some (Some w, Some b) -> mapM (lookupArg s) xs = Some args ->
  stepS s (CFCForward fc xs) = fin sealv s (fc_forward (st_heap s) w b args (Some (length (st_env s)))).
Proof.
  intros Hc Ha. unfold fcCells in Hc.
  destruct (nth_error (st_env s) fc) as [[| | w' b'| | |]|] eqn:Hfc; try discriminate. inversion Hc; subst w' b'.
  unfold step. rewrite Hfc, Ha. reflexivity.
Qed.

(* ---- any sequence of CFCSet commands on [fc] ---- *)
Definition steps (s : state) (cs : list cmd) : state := fold_left (fun s c => fst (stepS s c)) cs s.

(* the last tensor written into a cell (or the previous content [d] if it was never written) *)
Definition lastOf (bias : bool) (l : list (bool * nat)) (d : option nat) : option nat :=
  match find (fun p => Bool.eqb (fst p) bias) (rev l) with Some p => Some (snd p) | None => d end.

Lemma fold_setCell (l : list (bool * nat)) c :
  fold_left setCell l c = (lastOf false l (fst c), lastOf true l (snd c)).
Proof.
  induction l as [|p l IH] using rev_ind.
  - destruct c; reflexivity.
  - rewrite fold_left_app. cbn [fold_left]. rewrite IH. unfold lastOf. rewrite rev_app_distr. cbn [rev app find].
    unfold setCell. destruct p as [[|] x]; cbn [fst snd Bool.eqb]; reflexivity.
Qed.

Lemma lookupArg_ext (s s' : state) : (forall j, lookupT s' j = lookupT s j) -> forall a, lookupArg s' a = lookupArg s a.
Proof. intros H [n|]; cbn; [rewrite H|]; reflexivity. Qed.

(* l lists the assignments in order: (bias?, (scenario name t of the tensor, its node id x)) *)
Theorem fcsets_spec (l : list (bool * (nat * nat))) : forall (s : state) fc w0 b0,
  fcCells s fc = Some (w0, b0) ->
  Forall (fun q => lookupT s (fst (snd q)) = Some (snd (snd q))) l ->
  let cmds := map (fun q => CFCSet fc (fst q) (fst (snd q))) l in
  let rl := map (fun q => (fst q, snd (snd q))) l in
  let s' := steps s cmds in
  st_heap s' = st_heap s /\ st_rng s' = st_rng s /\ length (st_env s') = length (st_env s) + length l /\
  fcCells s' fc = Some (fold_left setCell rl (w0, b0)) /\
  (forall j, lookupT s' j = lookupT s j).
Proof.
  induction l as [|[bias [t x]] l IH]; intros s fc w0 b0 Hc Hl; cbv zeta.
  - cbn. repeat split; auto.
  - inversion Hl as [|q l' Hq Hl']; subst. cbn [fst snd] in Hq.
    pose proof (fcset_spec s fc bias t w0 b0 x Hc Hq) as H1. cbv zeta in H1.
    destruct H1 as (_ & Hh & Hr & Hlen & Hc1 & _ & Hlk).
    cbn [map fst snd steps fold_left]. set (s1 := fst (stepS s (CFCSet fc bias t))) in *.
    assert (Hl1 : Forall (fun q => lookupT s1 (fst (snd q)) = Some (snd (snd q))) l).
    { eapply Forall_impl; [|exact Hl']. intros q Hq'. cbn beta in *. rewrite Hlk. exact Hq'. }
    destruct (setCell (w0, b0) (bias, x)) as [w1 b1] eqn:Esc.
    pose proof (IH s1 fc w1 b1 Hc1 Hl1) as H2. cbv zeta in H2. unfold steps in H2.
    destruct H2 as (Hh2 & Hr2 & Hlen2 & Hc2 & Hlk2).
    split; [congruence|]. split; [congruence|]. split; [rewrite Hlen2, Hlen; cbn; lia|].
    split; [exact Hc2|]. intros j. rewrite Hlk2. apply Hlk.
Qed.

(* C16, last sentence: after ANY sequence of writes through the pointers returned by Weights(),
   the next Forward uses, for each cell, the LAST tensor written (or the original one) *)
Theorem fc_weights_live (l : list (bool * (nat * nat))) (s : state) fc w0 b0 w b xs args :
  fcCells s fc = Some (w0, b0) ->
  Forall (fun q => lookupT s (fst (snd q)) = Some (snd (snd q))) l ->
  let cmds := map (fun q => CFCSet fc (fst q) (fst (snd q))) l in
  let rl := map (fun q => (fst q, snd (snd q))) l in
  let s' := steps s cmds in
  lastOf false rl w0 = Some w -> lastOf true rl b0 = Some b ->
  mapM (lookupArg s) xs = Some args ->
  st_heap s' = st_heap s /\
  stepS s' (CFCForward fc xs) = fin sealv s' (fc_forward (st_heap s) w b args (Some (length (st_env s) + length l))).
Proof.
  intros Hc Hl. cbv zeta. intros Hw Hb Ha.
  pose proof (fcsets_spec l s fc w0 b0 Hc Hl) as H. cbv zeta in H. destruct H as (Hh & _ & Hlen & Hc' & Hlk).
  split; [exact Hh|]. rewrite fold_setCell in Hc'. cbn [fst snd] in Hc'. rewrite Hw, Hb in Hc'.
  rewrite (step_fcforward _ fc w b xs args Hc'); [rewrite Hh, Hlen; reflexivity|].
  rewrite <- Ha. apply mapM_ext. intros a _. apply lookupArg_ext, Hlk.
Qed.

(* the two single-assignment cases spelled out *)
Corollary fcset_weight_then_forward (s : state) fc w0 b t x xs args :
  fcCells s fc = Some (w0, Some b) -> lookupT s t = Some x -> mapM (lookupArg s) xs = Some args ->
  let s' := fst (stepS s (CFCSet fc false t)) in
  stepS s' (CFCForward fc xs) = fin sealv s' (fc_forward (st_heap s) x b args (Some (S (length (st_env s))))).
Proof.
  intros Hc Ht Ha. cbv zeta.
  pose proof (fc_weights_live [(false, (t, x))] s fc w0 (Some b) x b xs args Hc ltac:(repeat constructor; exact Ht)) as H.
  cbv zeta in H. destruct (H eq_refl eq_refl Ha) as [_ H']. cbn [map fst snd steps fold_left length] in H'.
  rewrite Nat.add_1_r in H'. exact H'.
Qed.

Corollary fcset_bias_then_forward (s : state) fc w b0 t x xs args :
  fcCells s fc = Some (Some w, b0) -> lookupT s t = Some x -> mapM (lookupArg s) xs = Some args ->
  let s' := fst (stepS s (CFCSet fc true t)) in
  stepS s' (CFCForward fc xs) = fin sealv s' (fc_forward (st_heap s) w x args (Some (S (length (st_env s))))).
Proof.
  intros Hc Ht Ha. cbv zeta.
  pose proof (fc_weights_live [(true, (t, x))] s fc (Some w) b0 w x xs args Hc ltac:(repeat constructor; exact Ht)) as H.
  cbv zeta in H. destruct (H eq_refl eq_refl Ha) as [_ H']. cbn [map fst snd steps fold_left length] in H'.
  rewrite Nat.add_1_r in H'. exact H'.
Qed.

(* ... and what the caller then observes: the tensor computed from the values of the tensors
   written last (everything of C16 in one statement at the scenario level) *)
Theorem fc_weights_live_obs (l : list (bool * (nat * nat))) (s : state) fc w0 b0 w b tx x (wv bv xv : T) O B F :
  fcCells s fc = Some (w0, b0) ->
  Forall (fun q => lookupT s (fst (snd q)) = Some (snd (snd q))) l ->
  let cmds := map (fun q => CFCSet fc (fst q) (fst (snd q))) l in
  let rl := map (fun q => (fst q, snd (snd q))) l in
  let s' := steps s cmds in
  lastOf false rl w0 = Some w -> lastOf true rl b0 = Some b -> lookupT s tx = Some x ->
  valOf (st_heap s) w = Some wv -> valOf (st_heap s) b = Some bv -> valOf (st_heap s) x = Some xv ->
  wf wv -> wf bv -> wf xv -> dims wv = [O] -> dims bv = [O] -> dims xv = [B; F] ->
  exists r, snd (stepS s' (CFCForward fc [Some tx])) = ObTensor [B; O] (flat (data r)) /\
    dims r = [B; O] /\ wf r /\
    forall bi o, bi < B -> o < O -> get (data r) [bi; o] = Some (fcEl wv bv xv F bi o).
Proof.
  intros Hc Hl. cbv zeta. intros Hw Hb Hx Vw Vb Vx Ww Wb Wx Ew Eb Ex.
  assert (Ha : mapM (lookupArg s) [Some tx] = Some [Some x]) by (cbn; rewrite Hx; reflexivity).
  pose proof (fc_weights_live l s fc w0 b0 w b [Some tx] [Some x] Hc Hl) as H. cbv zeta in H.
  destruct (H Hw Hb Ha) as [_ E]. rewrite E.
  destruct (fc_forward_spec (st_heap s) w b x (Some (length (st_env s) + length l)) wv bv xv O B F
              Vw Vb Vx Ww Wb Wx Ew Eb Ex) as (r & (h' & id & Er & _ & _ & _ & Hv & _) & Dr & Wr & G).
  exists r. rewrite Er. unfold fin, tensorObs. cbn [snd]. rewrite Hv, Dr. auto.
Qed.

End FcScenario.

(* ================================================================== *)
(*  non-vacuity                                                        *)
(* ================================================================== *)
Module FcExamples.
Import CompExamples.
Close Scope Z_scope.

Definition tW : tensor Z := mkT [2] (Vec [Sc 2; Sc 3])%Z.
Definition tB : tensor Z := mkT [2] (Vec [Sc 10; Sc 20])%Z.
Definition tB3 : tensor Z := mkT [3] (Vec [Sc 10; Sc 20; Sc 30])%Z.
Definition tX : tensor Z := mkT [2; 3] (Vec [Vec [Sc 1; Sc 2; Sc 3]; Vec [Sc 4; Sc 5; Sc 6]])%Z.
Lemma wf_tW : wf tW. Proof. split; [apply wfndb_spec; reflexivity|repeat constructor]. Qed.
Lemma wf_tB : wf tB. Proof. split; [apply wfndb_spec; reflexivity|repeat constructor]. Qed.
Lemma wf_tB3 : wf tB3. Proof. split; [apply wfndb_spec; reflexivity|repeat constructor]. Qed.
Lemma wf_tX : wf tX. Proof. split; [apply wfndb_spec; reflexivity|repeat constructor]. Qed.

(* nodes 0..3: W, B, x, a bias of the wrong length *)
Definition h0 : @heap Z :=
  fst (leaf (fst (leaf (fst (leaf (fst (leaf [] tW true None)) tB true None)) tX false (Some 0))) tB3 true None).

Example matmul_dot_tracks_ex :
  (exists h', h_matmul h0 2 2 None = (h0, Err) /\ h_dot h0 2 2 (Some 5) = (h', Ok 6) /\
              valOf h' 6 = Some (mkT [2] (Vec [Sc 14; Sc 77])%Z)) /\
  v_matmul tX tX = Err /\ v_dot tX tX = Ok (mkT [2] (Vec [Sc 14; Sc 77])%Z).
Proof. split; [eexists|]; vm_compute; auto. Qed.

(* y = [[2*(1+2+3)+10, 3*(1+2+3)+20]; [2*(4+5+6)+10, 3*(4+5+6)+20]] *)
Example fc_ex :
  exists h', fc_forward h0 0 1 [Some 2] (Some 9) = (h', Ok 12) /\ length h' = 13 /\
    valOf h' 12 = Some (mkT [2; 2] (Vec [Vec [Sc 22; Sc 38]; Vec [Sc 40; Sc 65]])%Z).
Proof. eexists. vm_compute. auto. Qed.

(* through the theorem: element [1; 0] is ((0 + (0+2*4)) + (0+2*5)) + (0+2*6)) + 10 *)
Example fc_spec_inst :
  exists r, produces h0 (fc_forward h0 0 1 [Some 2] None) r None /\ dims r = [2; 2] /\
    get (data r) [1; 0] = Some (((0 + (0 + 2 * 4)) + (0 + 2 * 5)) + (0 + 2 * 6) + 10)%Z.
Proof.
  destruct (fc_forward_spec h0 0 1 2 None tW tB tX 2 2 3 eq_refl eq_refl eq_refl wf_tW wf_tB wf_tX eq_refl eq_refl eq_refl)
    as (r & P & D & _ & G).
  exists r. split; [exact P|]. split; [exact D|]. rewrite (G 1 0) by lia. reflexivity.
Qed.

Example fc_reject_ex :
  fc_forward h0 0 1 [] None = (h0, Err) /\ fc_forward h0 0 1 [None] None = (h0, Err) /\
  fc_forward h0 0 1 [Some 2; Some 2] None = (h0, Err) /\
  fc_forward h0 0 1 [Some 0] None = (h0, Err) /\          (* rank 1 input *)
  fc_forward h0 0 3 [Some 2] None = (h0, Err) /\          (* bias of length 3 against 2 outputs *)
  fc_forward h0 0 99 [Some 2] None = (h0, Panic).         (* dangling bias reference *)
Proof. vm_compute. repeat split. Qed.

Example fc_bias_mismatch_inst : fc_forward h0 0 3 [Some 2] (Some 9) = (h0, Err).
Proof.
  apply (fc_forward_bias_len_mismatch h0 0 3 2 (Some 9) tW tB3 tX 2 3 2 3 eq_refl eq_refl eq_refl
           wf_tW wf_tB3 wf_tX eq_refl eq_refl eq_refl); lia.
Qed.

(* rows: row 1 of x equals row 0 of x' = [[4;5;6]] *)
Definition tX' : tensor Z := mkT [1; 3] (Vec [Vec [Sc 4; Sc 5; Sc 6]])%Z.
Example fc_rows_ex : forall o, fcEl tW tB tX 3 1 o = fcEl tW tB tX' 3 0 o.
Proof. apply fc_rows_independent. intros [|[|[|d]]] Hd; reflexivity. Qed.

(* scenario level: NewFC with zero weights, then *Weights()[0] = W, *Weights()[1] = B;
   every Forward uses the tensors in the cells at that moment, the last write wins *)
Definition runZ := @run Z z_scalar RedSum (fun _ t => t) (fun _ _ t => t) 0%Z 1%Z
                        (1, 0)%Z (1, 0)%Z (0, 0)%Z (0, 0)%Z (1, 0)%Z (0, 0)%Z (1, 0)%Z 1%Z.
Example fc_weights_live_ex :
  runZ [CLeaf [2] [2; 3]%Z true; CLeaf [2] [10; 20]%Z true; CLeaf [2; 3] [1; 2; 3; 4; 5; 6]%Z false;
        CFCNew 3 2 (Some (Some (IFull None))) None;
        CFCForward 3 [Some 2];
        CFCSet 3 false 0; CFCForward 3 [Some 2];
        CFCSet 3 true 1; CFCSet 3 false 1; CFCSet 3 false 0; CFCForward 3 [Some 2]]
  = [ObTensor [2] [2; 3]%Z; ObTensor [2] [10; 20]%Z; ObTensor [2; 3] [1; 2; 3; 4; 5; 6]%Z; ObOk;
     ObTensor [2; 2] [0; 0; 0; 0]%Z;
     ObOk; ObTensor [2; 2] [12; 18; 30; 45]%Z;
     ObOk; ObOk; ObOk; ObTensor [2; 2] [22; 38; 40; 65]%Z].
Proof. vm_compute. reflexivity. Qed.

Example lastOf_ex : lastOf false [(false, 7); (true, 8); (false, 9)] None = Some 9 /\
                    lastOf true [(false, 7); (true, 8); (false, 9)] None = Some 8 /\
                    lastOf true [(false, 7)] (Some 1) = Some 1.
Proof. vm_compute. auto. Qed.

End FcExamples.

Print Assumptions h_binop_tracks.
Print Assumptions h_matmul_tracks.
Print Assumptions h_dot_tracks.
Print Assumptions fc_forward_tracks.
Print Assumptions fc_val_spec.
Print Assumptions fc_forward_spec.
Print Assumptions fc_forward_rejects.
Print Assumptions fc_forward_fail_frame.
Print Assumptions fc_forward_bias_mismatch.
Print Assumptions fc_forward_never_panics.
Print Assumptions fc_rows_independent.
Print Assumptions fc_forward_rows_independent.
Print Assumptions fcset_spec.
Print Assumptions step_fcforward.
Print Assumptions fc_weights_live.
Print Assumptions fc_weights_live_obs.
