(* GoGenP3.v — the integer code of the element generator broadcastElemGenerator
   (tensor/internal/cputensor/shape_modifiers.go), as translated by harness/gox (Model/GoFns.v),
   computes the generator step / initial state of Model/Fill.v (bstep, bsrcidx, bcInit).
   See coq/GOIR_NOTES.md. *)
From Coq Require Import String List ZArith Bool Lia Arith.
From Qeep Require Import Model.GoIR Model.GoFns Model.Fill Proofs.GoIRP.
Import ListNotations.
Local Open Scope string_scope.
Local Open Scope Z_scope.
Local Open Scope list_scope.

(* ---------- small list facts ---------- *)

Notation natV := (fun n : nat => VI (Z.of_nat n)).

Lemma nth_mid (A : list val) v B n : n = length A -> nth_error (A ++ v :: B) n = Some v.
Proof. intros ->. rewrite nth_error_app2, Nat.sub_diag by lia. reflexivity. Qed.

Lemma set_mid (A : list val) x v B n : n = length A -> setNthV (A ++ x :: B) n v = Some (A ++ v :: B).
Proof.
  intros ->. induction A as [|a A IH]; cbn [app length setNthV]; [reflexivity|]. now rewrite IH.
Qed.

Lemma map_repeat_natV (n : nat) : repeat (VI 0) n = map natV (repeat 0%nat n).
Proof. induction n; cbn; [reflexivity | now f_equal]. Qed.

Lemma lookup_upd_ne (e : env) (x y : string) (v : val) : y <> x -> lookup (upd e x v) y = lookup e y.
Proof. intros H. rewrite lookup_upd. apply String.eqb_neq in H. now rewrite H. Qed.

(* ---------- the model state, seen from the Go variables ---------- *)

(* the source dimension / the source index digit of one target position (none for the extra leading ones) *)
Definition d1 (p : bpos) : list nat := match bsrc p with Some d => [d] | None => [] end.
Definition s1 (p : bpos) : list nat := match bsrc p with Some _ => [bstt p] | None => [] end.
Definition dsOf (ps : list bpos) : list nat := flat_map d1 ps.
Definition sts (ps : list bpos) : list nat := flat_map s1 ps.

Lemma bsrcidx_sts ps : bsrcidx ps = rev (sts ps).
Proof.
  unfold bsrcidx, sts. f_equal. induction ps as [|p ps IH]; [reflexivity|].
  cbn [filter flat_map]. unfold s1 at 1. destruct (bsrc p); cbn [map app]; now rewrite IH.
Qed.

Lemma sts_dsOf_length ps : length (sts ps) = length (dsOf ps).
Proof.
  unfold sts, dsOf. induction ps as [|p ps IH]; [reflexivity|].
  cbn [flat_map]. rewrite !app_length, IH. unfold s1, d1. now destruct (bsrc p).
Qed.

Lemma split_rpt pre p rest :
  rev (map brpt (pre ++ p :: rest)) = rev (map brpt rest) ++ brpt p :: rev (map brpt pre).
Proof. rewrite map_app, rev_app_distr. cbn [map rev]. now rewrite <- app_assoc. Qed.

Lemma split_shp pre p rest :
  rev (map bshp (pre ++ p :: rest)) = rev (map bshp rest) ++ bshp p :: rev (map bshp pre).
Proof. rewrite map_app, rev_app_distr. cbn [map rev]. now rewrite <- app_assoc. Qed.

Lemma split_sts pre p rest :
  bsrcidx (pre ++ p :: rest) = rev (sts rest) ++ rev (s1 p) ++ rev (sts pre).
Proof.
  rewrite bsrcidx_sts. unfold sts. rewrite flat_map_app. cbn [flat_map].
  now rewrite !rev_app_distr, <- app_assoc.
Qed.

Lemma split_ds pre p rest :
  rev (dsOf (pre ++ p :: rest)) = rev (dsOf rest) ++ rev (d1 p) ++ rev (dsOf pre).
Proof.
  unfold dsOf. rewrite flat_map_app. cbn [flat_map].
  now rewrite !rev_app_distr, <- app_assoc.
Qed.

(* positions with a source dimension come first (least significant) *)
Fixpoint sorted (ps : list bpos) : Prop :=
  match ps with
  | [] => True
  | p :: r => (bsrc p = None -> dsOf r = []) /\ sorted r
  end.

(* ---------- the code ---------- *)

Lemma shape_broadcastElemGenerator_outer :
  itemShape broadcastElemGenerator_outer = [None; Some "return <closure>"].
Proof. reflexivity. Qed.
Lemma shape_broadcastElemGenerator_step :
  itemShape broadcastElemGenerator_step = [Some "elem := t.dataAt(state)"; None; Some "return elem"].
Proof. reflexivity. Qed.

Definition broadcastElemGenerator_outer_code : stmt := nth 0 (codeOf broadcastElemGenerator_outer) SSkip.
Definition broadcastElemGenerator_step_code : stmt := nth 0 (codeOf broadcastElemGenerator_step) SSkip.

(* rewrite with every lookup fact in the context *)
Ltac lkh := repeat match goal with H : lookup _ _ = Some _ |- _ => rewrite H end.
Ltac gxe := repeat (progress (gxs; lkh; rewrite ?idxOf_nat, ?zlenV_map)).
(* ... and evaluate element reads / writes at position |A| of lists  map natV A ++ v :: B *)
Ltac ev G0 G1 G2 G3 :=
  repeat (progress (gxe; unfold setElem; rewrite ?map_app; cbn [map];
                    rewrite ?nth_mid by (rewrite map_length; lia);
                    rewrite ?set_mid by (rewrite map_length; lia);
                    rewrite ?G0, ?G1, ?G2, ?G3)).

(* close a body specification goal  exists e', bframe e e' /\ <outcome> (upd ...) = <outcome> e' /\ lookups of e' *)
Ltac bfin :=
  eexists; split; [|split; [reflexivity|]];
  [ intros y Y1 Y2 Y3 Y4; rewrite !lookup_upd_ne by assumption; reflexivity
  | repeat split; lk; lkh; unfold nats; rewrite ?map_app; cbn [map];
    rewrite ?Nat2Z.inj_succ; unfold Z.succ; cbn [Z.of_nat]; auto ].

(* the variables the step code writes *)
Definition bframe (e e' : env) : Prop :=
  forall y, y <> "state" -> y <> "repeat" -> y <> "i" -> y <> "j" -> lookup e' y = lookup e y.

(* ---------- the loop
     for j >= 0 { if i >= 0 && state[i] < t.dims[i]-1 { state[i]++; break }
                  else if i >= 0 { state[i] = 0; repeat[j]++
                                   if t.dims[i] == shape[j] || repeat[j] == shape[j] { repeat[j] = 0; i--; j-- } else { break } }
                  else { repeat[j]++; if repeat[j] == shape[j] { repeat[j] = 0; j-- } else { break } } }
   for an arbitrary loop (condition, body, post statement) that behaves like the Go one ---------- *)
(* i >= 0: state = A ++ x :: B, t.dims = S1 ++ d :: S2, repeat = C ++ r :: D, shape = T1 ++ sh :: T2, i = |A| = |S1|, j = |C| = |T1| *)
Definition some_spec (body : env -> outcome) : Prop :=
  forall e (A B : list nat) x S1 d S2 C r D T1 sh T2 (n m : nat),
  n = length A -> n = length S1 -> m = length C -> m = length T1 ->
  lookup e "state" = Some (nats (A ++ x :: B)) -> lookup e "t.dims" = Some (nats (S1 ++ d :: S2)) ->
  lookup e "repeat" = Some (nats (C ++ r :: D)) -> lookup e "shape" = Some (nats (T1 ++ sh :: T2)) ->
  lookup e "i" = Some (VI (Z.of_nat n)) -> lookup e "j" = Some (VI (Z.of_nat m)) ->
  exists e', bframe e e' /\
    if (S x <? d)%nat
    then body e = OBreak e' /\ lookup e' "state" = Some (nats (A ++ S x :: B)) /\
         lookup e' "repeat" = Some (nats (C ++ r :: D))
    else if (d =? sh)%nat || (S r =? sh)%nat
    then body e = ONormal e' /\ lookup e' "state" = Some (nats (A ++ 0%nat :: B)) /\
         lookup e' "repeat" = Some (nats (C ++ 0%nat :: D)) /\
         lookup e' "i" = Some (VI (Z.of_nat n - 1)) /\ lookup e' "j" = Some (VI (Z.of_nat m - 1))
    else body e = OBreak e' /\ lookup e' "state" = Some (nats (A ++ 0%nat :: B)) /\
         lookup e' "repeat" = Some (nats (C ++ S r :: D)).
(* i < 0 *)
Definition none_spec (body : env -> outcome) : Prop :=
  forall e (st : list nat) C r D T1 sh T2 (m : nat),
  m = length C -> m = length T1 ->
  lookup e "state" = Some (nats st) ->
  lookup e "repeat" = Some (nats (C ++ r :: D)) -> lookup e "shape" = Some (nats (T1 ++ sh :: T2)) ->
  lookup e "i" = Some (VI (-1)) -> lookup e "j" = Some (VI (Z.of_nat m)) ->
  exists e', bframe e e' /\ lookup e' "state" = Some (nats st) /\
    if (S r =? sh)%nat
    then body e = ONormal e' /\ lookup e' "repeat" = Some (nats (C ++ 0%nat :: D)) /\
         lookup e' "i" = Some (VI (-1)) /\ lookup e' "j" = Some (VI (Z.of_nat m - 1))
    else body e = OBreak e' /\ lookup e' "repeat" = Some (nats (C ++ S r :: D)).

Section Loop.
Variables (cond : env -> option val) (body post : env -> outcome).
Hypothesis Hcond : forall e z, lookup e "j" = Some (VI z) -> cond e = Some (VB (z >=? 0)).
Hypothesis Hpost : forall e, post e = ONormal e.
Hypothesis Hsome : some_spec body.
Hypothesis Hnone : none_spec body.

Variables (src shape : list nat).

Definition LInv (pre rest : list bpos) (e0 e : env) : Prop :=
  lookup e "t.dims" = Some (nats src) /\ lookup e "shape" = Some (nats shape) /\
  lookup e "state" = Some (nats (bsrcidx (pre ++ rest))) /\
  lookup e "repeat" = Some (nats (rev (map brpt (pre ++ rest)))) /\
  lookup e "j" = Some (VI (Z.of_nat (length rest) - 1)) /\
  lookup e "i" = Some (VI (Z.of_nat (length (dsOf rest)) - 1)) /\
  bframe e0 e.

Lemma bc_loop : forall (rest pre : list bpos) (e0 e : env) (fuel : nat),
  (length rest < fuel)%nat ->
  src = rev (dsOf (pre ++ rest)) -> shape = rev (map bshp (pre ++ rest)) -> sorted rest ->
  LInv pre rest e0 e ->
  exists e', forLoop fuel cond body post e = ONormal e' /\
    lookup e' "state" = Some (nats (bsrcidx (pre ++ bstep rest))) /\
    lookup e' "repeat" = Some (nats (rev (map brpt (pre ++ bstep rest)))) /\
    bframe e0 e'.
Proof.
  induction rest as [|p rest IH]; intros pre e0 e fuel Hf Hs Hsh Hso (Hd & Hshp & Hst & Hrp & Hj & Hi & Hfr);
    (destruct fuel as [|fuel]; [cbn in Hf; lia|]); cbn [forLoop]; rewrite (Hcond _ _ Hj).
  - cbn [length Z.of_nat]. change (0 - 1 >=? 0) with false. exists e. cbn [bstep]. auto.
  - replace (Z.of_nat (length (p :: rest)) - 1) with (Z.of_nat (length rest)) in * by (cbn [length]; lia).
    replace (Z.of_nat (length rest) >=? 0) with true by (symmetry; rewrite Z.geb_leb; apply Z.leb_le; lia).
    destruct Hso as [Hn Hso].
    assert (Happ : forall q X, (pre ++ [q]) ++ X = pre ++ q :: X) by (intros; now rewrite <- app_assoc).
    rewrite split_sts in Hst. rewrite split_rpt in Hrp. rewrite split_ds in Hs. rewrite split_shp in Hsh.
    assert (Hdl : dsOf (p :: rest) = d1 p ++ dsOf rest) by reflexivity.
    rewrite Hdl in Hi. clear Hdl.
    cbn [bstep]. unfold s1, d1 in Hst, Hs, Hi.
    destruct (bsrc p) as [d|] eqn:Ep.
    + cbn [rev app] in Hst, Hs.
      replace (Z.of_nat (length ([d] ++ dsOf rest)) - 1) with (Z.of_nat (length (dsOf rest))) in Hi
        by (cbn [app length]; lia).
      destruct (Hsome e (rev (sts rest)) (rev (sts pre)) (bstt p) (rev (dsOf rest)) d (rev (dsOf pre))
                 (rev (map brpt rest)) (brpt p) (rev (map brpt pre))
                 (rev (map bshp rest)) (bshp p) (rev (map bshp pre)) (length (dsOf rest)) (length rest))
        as [e' [Hfr' Hres]].
      * now rewrite rev_length, sts_dsOf_length.
      * now rewrite rev_length.
      * now rewrite rev_length, map_length.
      * now rewrite rev_length, map_length.
      * exact Hst.
      * rewrite <- Hs. exact Hd.
      * exact Hrp.
      * rewrite <- Hsh. exact Hshp.
      * exact Hi.
      * exact Hj.
      * assert (Htr : bframe e0 e') by (intros y H1 H2 H3 H4; rewrite Hfr' by assumption; now apply Hfr).
        destruct (S (bstt p) <? d)%nat.
        { destruct Hres as (Hb & Hst' & Hrp'). rewrite Hb. exists e'. split; [reflexivity|].
          rewrite split_sts, split_rpt. unfold s1. cbn [bsrc bstt brpt rev app]. auto. }
        destruct ((d =? bshp p)%nat || (S (brpt p) =? bshp p)%nat).
        2:{ destruct Hres as (Hb & Hst' & Hrp'). rewrite Hb. exists e'. split; [reflexivity|].
            rewrite split_sts, split_rpt. unfold s1. cbn [bsrc bstt brpt rev app]. auto. }
        destruct Hres as (Hb & Hst' & Hrp' & Hi' & Hj'). rewrite Hb, Hpost.
        destruct (IH (pre ++ [mkBpos (Some d) (bshp p) 0 0]) e0 e' fuel) as [e'' [He'' [Hs'' [Hr'' Hf'']]]].
        { cbn [length] in Hf. lia. }
        { rewrite Happ, split_ds. unfold d1. cbn [bsrc rev app]. exact Hs. }
        { rewrite Happ, split_shp. cbn [bshp]. exact Hsh. }
        { exact Hso. }
        { unfold LInv. rewrite Happ, split_sts, split_rpt. unfold s1. cbn [bsrc bstt brpt rev app].
          repeat split; try assumption.
          - rewrite Hfr' by discriminate. exact Hd.
          - rewrite Hfr' by discriminate. exact Hshp. }
        exists e''. rewrite Happ in Hs'', Hr''. auto.
    + cbn [rev app] in Hst, Hs. specialize (Hn eq_refl). rewrite Hn in Hi. cbn [app length Z.of_nat] in Hi.
      change (0 - 1) with (-1) in Hi.
      destruct (Hnone e (rev (sts rest) ++ rev (sts pre))
                 (rev (map brpt rest)) (brpt p) (rev (map brpt pre))
                 (rev (map bshp rest)) (bshp p) (rev (map bshp pre)) (length rest))
        as [e' [Hfr' [Hst' Hres]]].
      * now rewrite rev_length, map_length.
      * now rewrite rev_length, map_length.
      * exact Hst.
      * exact Hrp.
      * rewrite <- Hsh. exact Hshp.
      * exact Hi.
      * exact Hj.
      * assert (Htr : bframe e0 e') by (intros y H1 H2 H3 H4; rewrite Hfr' by assumption; now apply Hfr).
        destruct (S (brpt p) =? bshp p)%nat.
        2:{ destruct Hres as (Hb & Hrp'). rewrite Hb. exists e'. split; [reflexivity|].
            rewrite split_sts, split_rpt. unfold s1. cbn [bsrc bstt brpt rev app]. auto. }
        destruct Hres as (Hb & Hrp' & Hi' & Hj'). rewrite Hb, Hpost.
        destruct (IH (pre ++ [mkBpos None (bshp p) 0 0]) e0 e' fuel) as [e'' [He'' [Hs'' [Hr'' Hf'']]]].
        { cbn [length] in Hf. lia. }
        { rewrite Happ, split_ds. unfold d1. cbn [bsrc rev app]. exact Hs. }
        { rewrite Happ, split_shp. cbn [bshp]. exact Hsh. }
        { exact Hso. }
        { unfold LInv. rewrite Happ, split_sts, split_rpt. unfold s1. cbn [bsrc bstt brpt rev app].
          rewrite Hn. cbn [length Z.of_nat]. change (0 - 1) with (-1).
          repeat split; try assumption.
          - rewrite Hfr' by discriminate. exact Hd.
          - rewrite Hfr' by discriminate. exact Hshp. }
        exists e''. rewrite Happ in Hs'', Hr''. auto.
Qed.
End Loop.

(* ---------- well-formed model states and their representation ---------- *)

(* ps has the structure of bcInit src shape = mkbpos (rev src) (rev shape), with arbitrary bstt / brpt *)
Definition bwf (src shape : list nat) (ps : list bpos) : Prop :=
  (length src <= length shape)%nat /\
  map bsrc ps = map bsrc (bcInit src shape) /\ map bshp ps = map bshp (bcInit src shape).

(* the Go variables hold the model state ps *)
Definition bRep (src shape : list nat) (ps : list bpos) (e : env) : Prop :=
  lookup e "t.dims" = Some (nats src) /\ lookup e "shape" = Some (nats shape) /\
  lookup e "state" = Some (nats (bsrcidx ps)) /\ lookup e "repeat" = Some (nats (rev (map brpt ps))).

Lemma mkbpos_bshp rsh : forall rs, map bshp (mkbpos rs rsh) = rsh.
Proof. induction rsh as [|sh rsh IH]; intros [|d rs]; cbn; auto; now rewrite IH. Qed.

Lemma mkbpos_bsrc_nil rsh : map bsrc (mkbpos [] rsh) = repeat None (length rsh).
Proof. induction rsh as [|sh rsh IH]; cbn; auto; now rewrite IH. Qed.

Lemma mkbpos_bsrc rsh : forall rs, (length rs <= length rsh)%nat ->
  map bsrc (mkbpos rs rsh) = map Some rs ++ repeat None (length rsh - length rs).
Proof.
  induction rsh as [|sh rsh IH]; intros [|d rs] H; cbn in H; try lia.
  - reflexivity.
  - cbn [mkbpos map bsrc app length Nat.sub repeat]. now rewrite mkbpos_bsrc_nil.
  - cbn [mkbpos map bsrc app length Nat.sub]. rewrite IH by lia. reflexivity.
Qed.

Lemma ds_none k : forall ps, map bsrc ps = repeat None k -> dsOf ps = [] /\ sorted ps.
Proof.
  induction k as [|k IH]; intros [|p ps] H; cbn in H; try discriminate.
  - split; [reflexivity | exact I].
  - injection H as Hp Hps. destruct (IH ps Hps) as [Hd Hso].
    split.
    + unfold dsOf. cbn [flat_map]. unfold d1 at 1. rewrite Hp. exact Hd.
    + cbn [sorted]. auto.
Qed.

Lemma ds_some rs k : forall ps, map bsrc ps = map Some rs ++ repeat None k -> dsOf ps = rs /\ sorted ps.
Proof.
  induction rs as [|d rs IH]; intros ps H.
  - now apply ds_none with k.
  - destruct ps as [|p ps]; cbn in H; [discriminate|]. injection H as Hp Hps.
    destruct (IH ps Hps) as [Hd Hso]. split.
    + unfold dsOf. cbn [flat_map]. unfold d1 at 1. rewrite Hp. cbn [app]. f_equal. exact Hd.
    + cbn [sorted]. split; [congruence | exact Hso].
Qed.

Lemma bwf_facts src shape ps : bwf src shape ps ->
  src = rev (dsOf ps) /\ shape = rev (map bshp ps) /\ sorted ps /\ length ps = length shape.
Proof.
  intros (Hl & Hs & Hsh). unfold bcInit in *.
  rewrite mkbpos_bshp in Hsh. rewrite mkbpos_bsrc in Hs by (rewrite !rev_length; lia).
  destruct (ds_some _ _ _ Hs) as [Hd Hso].
  repeat split.
  - now rewrite Hd, rev_involutive.
  - now rewrite Hsh, rev_involutive.
  - exact Hso.
  - rewrite <- (map_length bshp), Hsh. apply rev_length.
Qed.

Lemma bstep_bsrc ps : map bsrc (bstep ps) = map bsrc ps.
Proof.
  induction ps as [|p ps IH]; [reflexivity|]. cbn [bstep].
  destruct (bsrc p) as [d|] eqn:Ep.
  - destruct (S (bstt p) <? d)%nat; [cbn; now rewrite Ep|].
    destruct ((d =? bshp p)%nat || (S (brpt p) =? bshp p)%nat); cbn; rewrite ?IH, Ep; reflexivity.
  - destruct (S (brpt p) =? bshp p)%nat; cbn; rewrite ?IH, Ep; reflexivity.
Qed.

Lemma bstep_bshp ps : map bshp (bstep ps) = map bshp ps.
Proof.
  induction ps as [|p ps IH]; [reflexivity|]. cbn [bstep].
  destruct (bsrc p) as [d|] eqn:Ep.
  - destruct (S (bstt p) <? d)%nat; [reflexivity|].
    destruct ((d =? bshp p)%nat || (S (brpt p) =? bshp p)%nat); cbn; rewrite ?IH; reflexivity.
  - destruct (S (brpt p) =? bshp p)%nat; cbn; rewrite ?IH; reflexivity.
Qed.

Lemma bwf_bstep src shape ps : bwf src shape ps -> bwf src shape (bstep ps).
Proof. intros (Hl & Hs & Hsh). repeat split; [exact Hl | now rewrite bstep_bsrc | now rewrite bstep_bshp]. Qed.

Lemma bwf_bcInit src shape : (length src <= length shape)%nat -> bwf src shape (bcInit src shape).
Proof. intros H. repeat split. exact H. Qed.

(* ---------- the step ---------- *)

Theorem go_broadcastElemGenerator_step call fuel (src shape : list nat) (ps : list bpos) (e : env) :
  (S (S (length shape)) <= fuel)%nat -> bwf src shape ps -> bRep src shape ps e ->
  exists e', exec call fuel broadcastElemGenerator_step_code e = ONormal e' /\
    bRep src shape (bstep ps) e' /\ bwf src shape (bstep ps) /\ bframe e e'.
Proof.
  intros Hf Hwf (Hd & Hsh & Hst & Hrp).
  destruct (bwf_facts _ _ _ Hwf) as (Fs & Fsh & Fso & Flen).
  unfold broadcastElemGenerator_step_code, broadcastElemGenerator_step. cbn [codeOf nth].
  gxe.
  match goal with |- context [forLoop _ ?c ?b ?p ?e0] =>
    assert (Hc : forall e z, lookup e "j" = Some (VI z) -> c e = Some (VB (z >=? 0)));
    [| assert (Hp : forall e, p e = ONormal e);
       [| assert (Hso : some_spec b);
          [| assert (Hno : none_spec b);
             [| destruct (bc_loop c b p Hc Hp Hso Hno src shape ps [] e e0 fuel) as [e' [He' [Hs' [Hr' Hfr']]]] ]]]]
  end.
  - intros e1 z Hj. gxe. reflexivity.
  - intros e1. gxs. reflexivity.
  - intros e1 A B x S1 d S2 C r D T1 sh T2 n m Hn1 Hn2 Hm1 Hm2 Hst1 Hd1 Hrp1 Hsh1 Hi1 Hj1.
    clear Hd Hsh Hst Hrp.
    assert (G0 : Z.of_nat n >=? 0 = true) by (rewrite Z.geb_leb; apply Z.leb_le; lia).
    assert (G1 : (Z.of_nat x <? Z.of_nat d - 1) = (S x <? d)%nat)
      by (destruct (S x <? d)%nat eqn:E;
          [apply Nat.ltb_lt in E; apply Z.ltb_lt; lia | apply Nat.ltb_ge in E; apply Z.ltb_ge; lia]).
    assert (G2 : (Z.of_nat d =? Z.of_nat sh) = (d =? sh)%nat)
      by (destruct (d =? sh)%nat eqn:E;
          [apply Nat.eqb_eq in E; apply Z.eqb_eq; lia | apply Nat.eqb_neq in E; apply Z.eqb_neq; lia]).
    assert (G3 : (Z.of_nat r + 1 =? Z.of_nat sh) = (S r =? sh)%nat)
      by (destruct (S r =? sh)%nat eqn:E;
          [apply Nat.eqb_eq in E; apply Z.eqb_eq; lia | apply Nat.eqb_neq in E; apply Z.eqb_neq; lia]).
    destruct (S x <? d)%nat; [|destruct (d =? sh)%nat; [|destruct (S r =? sh)%nat]]; cbn [orb];
      ev G0 G1 G2 G3; bfin.
  - intros e1 st C r D T1 sh T2 m Hm1 Hm2 Hst1 Hrp1 Hsh1 Hi1 Hj1.
    clear Hd Hsh Hst Hrp.
    assert (G0 : (-1 >=? 0) = false) by reflexivity.
    assert (G3 : (Z.of_nat r + 1 =? Z.of_nat sh) = (S r =? sh)%nat)
      by (destruct (S r =? sh)%nat eqn:E;
          [apply Nat.eqb_eq in E; apply Z.eqb_eq; lia | apply Nat.eqb_neq in E; apply Z.eqb_neq; lia]).
    destruct (S r =? sh)%nat; ev G0 G0 G0 G3;
      (eexists; split; [|split; [|split; [reflexivity|]]];
       [ intros y Y1 Y2 Y3 Y4; rewrite !lookup_upd_ne by assumption; reflexivity
       | lk; lkh; reflexivity
       | repeat split; lk; lkh; unfold nats; rewrite ?map_app; cbn [map];
         rewrite ?Nat2Z.inj_succ; unfold Z.succ; cbn [Z.of_nat]; auto ]).
  - rewrite Flen. lia.
  - exact Fs.
  - exact Fsh.
  - exact Fso.
  - unfold LInv. cbn [app]. repeat split; lk; auto.
    + now rewrite Flen.
    + do 3 f_equal. rewrite Fs at 1. now rewrite rev_length.
    + intros y Y1 Y2 Y3 Y4. rewrite !lookup_upd_ne by assumption. reflexivity.
  - cbn [app] in Hs', Hr'. exists e'. split; [exact He'|]. split; [|split; [now apply bwf_bstep | exact Hfr']].
    repeat split; auto.
    + rewrite Hfr' by discriminate. exact Hd.
    + rewrite Hfr' by discriminate. exact Hsh.
Qed.

(* ---------- the initial state ---------- *)

Lemma rev_repeat {T} (x : T) n : rev (repeat x n) = repeat x n.
Proof.
  induction n as [|n IH]; [reflexivity|]. cbn [repeat rev]. rewrite IH.
  clear IH. induction n as [|n IH]; [reflexivity|]. cbn [repeat app]. now rewrite IH.
Qed.

Lemma sts_mkbpos_nil rsh : sts (mkbpos [] rsh) = [].
Proof. induction rsh as [|sh rsh IH]; [reflexivity|]. exact IH. Qed.

Lemma sts_mkbpos rsh : forall rs, (length rs <= length rsh)%nat -> sts (mkbpos rs rsh) = repeat 0%nat (length rs).
Proof.
  induction rsh as [|sh rsh IH]; intros [|d rs] H; cbn in H; try lia.
  - reflexivity.
  - apply sts_mkbpos_nil.
  - cbn [mkbpos length repeat]. unfold sts. cbn [flat_map]. unfold s1 at 1. cbn [bsrc bstt app]. f_equal.
    apply IH. lia.
Qed.

Lemma brpt_mkbpos rsh : forall rs, map brpt (mkbpos rs rsh) = repeat 0%nat (length rsh).
Proof. induction rsh as [|sh rsh IH]; intros [|d rs]; cbn; auto; now rewrite IH. Qed.

Lemma bcInit_zeros src shape : (length src <= length shape)%nat ->
  bsrcidx (bcInit src shape) = repeat 0%nat (length src) /\
  rev (map brpt (bcInit src shape)) = repeat 0%nat (length shape).
Proof.
  intros H. unfold bcInit. split.
  - rewrite bsrcidx_sts, sts_mkbpos by (rewrite !rev_length; lia). now rewrite rev_repeat, rev_length.
  - now rewrite brpt_mkbpos, rev_repeat, rev_length.
Qed.

(* state := make([]int, len(t.dims)); repeat := make([]int, len(shape)) *)
Theorem go_broadcastElemGenerator_outer call fuel (src shape : list nat) (e : env) :
  lookup e "t.dims" = Some (nats src) -> lookup e "shape" = Some (nats shape) ->
  exists e', exec call fuel broadcastElemGenerator_outer_code e = ONormal e' /\
    lookup e' "state" = Some (nats (repeat 0%nat (length src))) /\
    lookup e' "repeat" = Some (nats (repeat 0%nat (length shape))) /\
    forall y, y <> "state" -> y <> "repeat" -> lookup e' y = lookup e y.
Proof.
  intros Hd Hsh.
  unfold broadcastElemGenerator_outer_code, broadcastElemGenerator_outer. cbn [codeOf nth].
  gxe.
  replace (0 <=? Z.of_nat (length src)) with true by (symmetry; apply Z.leb_le; lia).
  gxe.
  replace (0 <=? Z.of_nat (length shape)) with true by (symmetry; apply Z.leb_le; lia).
  gxe. rewrite !Nat2Z.id, !map_repeat_natV.
  eexists. split; [reflexivity|]. repeat split.
  - now lk.
  - now lk.
  - intros y Y1 Y2. now rewrite !lookup_upd_ne by assumption.
Qed.

(* ... which represents the model's initial state bcInit src shape *)
Corollary go_broadcastElemGenerator_outer_bcInit call fuel (src shape : list nat) (e : env) :
  (length src <= length shape)%nat ->
  lookup e "t.dims" = Some (nats src) -> lookup e "shape" = Some (nats shape) ->
  exists e', exec call fuel broadcastElemGenerator_outer_code e = ONormal e' /\
    bRep src shape (bcInit src shape) e' /\ bwf src shape (bcInit src shape) /\
    forall y, y <> "state" -> y <> "repeat" -> lookup e' y = lookup e y.
Proof.
  intros Hl Hd Hsh.
  destruct (go_broadcastElemGenerator_outer call fuel src shape e Hd Hsh) as [e' (He' & Hs' & Hr' & Hfr)].
  destruct (bcInit_zeros src shape Hl) as [Z1 Z2].
  exists e'. split; [exact He'|]. split; [|split; [now apply bwf_bcInit | exact Hfr]].
  unfold bRep. rewrite Z1, Z2. repeat split; auto.
  - rewrite Hfr by discriminate. exact Hd.
  - rewrite Hfr by discriminate. exact Hsh.
Qed.

(* ---------- n steps ---------- *)

Fixpoint bcSteps (call : string -> list val -> outcome) (fuel n : nat) (e : env) : outcome :=
  match n with
  | O => ONormal e
  | S n' => match exec call fuel broadcastElemGenerator_step_code e with
            | ONormal e' => bcSteps call fuel n' e'
            | o => o
            end
  end.

Lemma iter_shift {T} (f : T -> T) n x : Nat.iter n f (f x) = Nat.iter (S n) f x.
Proof.
  induction n as [|n IH]; [reflexivity|].
  change (Nat.iter (S n) f (f x)) with (f (Nat.iter n f (f x))). rewrite IH. reflexivity.
Qed.

Corollary go_broadcastElemGenerator_steps call fuel (src shape : list nat) (n : nat) :
  forall (ps : list bpos) (e : env),
  (S (S (length shape)) <= fuel)%nat -> bwf src shape ps -> bRep src shape ps e ->
  exists e', bcSteps call fuel n e = ONormal e' /\
    bRep src shape (Nat.iter n bstep ps) e' /\ bwf src shape (Nat.iter n bstep ps).
Proof.
  induction n as [|n IH]; intros ps e Hf Hwf Hrep.
  - exists e. cbn. auto.
  - cbn [bcSteps].
    destruct (go_broadcastElemGenerator_step call fuel src shape ps e Hf Hwf Hrep) as [e1 (He1 & Hr1 & Hw1 & _)].
    rewrite He1. destruct (IH (bstep ps) e1 Hf Hw1 Hr1) as [e' (He' & Hr' & Hw')].
    exists e'. rewrite <- iter_shift. auto.
Qed.

Definition exCall : string -> list val -> outcome := fun _ _ => OPanic.
Definition exEnv : env := [("t.dims", nats [2; 1]%nat); ("shape", nats [3; 2; 2]%nat)].

(* t.dims = [2;1] broadcast to shape = [3;2;2]: the initial state, then 7 steps (target index (1,1,1)) *)
Example ex_broadcastElemGenerator_run :
  match exec exCall 5 broadcastElemGenerator_outer_code exEnv with
  | ONormal e0 =>
      match bcSteps exCall 5 7 e0 with
      | ONormal e => Some (lookup e0 "state", lookup e0 "repeat", lookup e "state", lookup e "repeat")
      | _ => None
      end
  | _ => None
  end = Some (Some (nats [0; 0]%nat), Some (nats [0; 0; 0]%nat), Some (nats [1; 0]%nat), Some (nats [1; 0; 1]%nat)).
Proof. vm_compute. reflexivity. Qed.

Example ex_broadcastElemGenerator_model :
  let ps := Nat.iter 7 bstep (bcInit [2; 1]%nat [3; 2; 2]%nat) in
  (bsrcidx ps, rev (map brpt ps)) = ([1; 0]%nat, [1; 0; 1]%nat).
Proof. vm_compute. reflexivity. Qed.

(* every one of the 12 steps of that broadcast (and the wrap-around) agrees with the model *)
Example ex_broadcastElemGenerator_all :
  forallb (fun n =>
    match exec exCall 5 broadcastElemGenerator_outer_code exEnv with
    | ONormal e0 =>
        match bcSteps exCall 5 n e0 with
        | ONormal e =>
            let ps := Nat.iter n bstep (bcInit [2; 1]%nat [3; 2; 2]%nat) in
            match lookup e "state", lookup e "repeat" with
            | Some (VL a), Some (VL b) =>
                (if list_eq_dec Z.eq_dec (map (fun v => match v with VI z => z | _ => -1 end) a) (map Z.of_nat (bsrcidx ps)) then true else false)
                && (if list_eq_dec Z.eq_dec (map (fun v => match v with VI z => z | _ => -1 end) b) (map Z.of_nat (rev (map brpt ps))) then true else false)
            | _, _ => false
            end
        | _ => false
        end
    | _ => false
    end) (seq 0 14) = true.
Proof. vm_compute. reflexivity. Qed.

Lemma codeOf_broadcastElemGenerator_outer :
  codeOf broadcastElemGenerator_outer = [broadcastElemGenerator_outer_code].
Proof. reflexivity. Qed.
Lemma codeOf_broadcastElemGenerator_step :
  codeOf broadcastElemGenerator_step = [broadcastElemGenerator_step_code].
Proof. reflexivity. Qed.

Print Assumptions shape_broadcastElemGenerator_outer.
Print Assumptions shape_broadcastElemGenerator_step.
Print Assumptions go_broadcastElemGenerator_outer.
Print Assumptions go_broadcastElemGenerator_outer_bcInit.
Print Assumptions go_broadcastElemGenerator_step.
Print Assumptions go_broadcastElemGenerator_steps.
