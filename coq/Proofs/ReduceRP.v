(* ReduceRP.v — the reducers' exact expressions read over the reals: left folds are the sum,
   the maximum / minimum, the arithmetic mean, the unbiased sample variance and its root. *)
From Coq Require Import List Arith Lia Reals Lra.
From Qeep Require Import Model.Scalar Proofs.ReduceP Spec.RScalar.
Import ListNotations.
Open Scope R_scope.

Definition Rsum (xs : list R) : R := fold_right Rplus 0 xs.

Lemma fold_left_Rplus xs : forall a, fold_left Rplus xs a = a + Rsum xs.
Proof. induction xs as [|x xs IH]; intros a; cbn [fold_left Rsum fold_right]; [ring|rewrite IH; unfold Rsum; ring]. Qed.

Section R.
Variable thr : R.
Variable draw : bool -> nat -> R.
Local Instance RS : Scalar R := R_scalar thr draw.

Theorem sum_is_sum xs : sumL xs = Rsum xs.
Proof. unfold sumL. cbn. rewrite fold_left_Rplus. ring. Qed.

Theorem mean_is_arithmetic_mean xs : meanL xs = Rsum xs / INR (length xs).
Proof. unfold meanL. rewrite sum_is_sum. reflexivity. Qed.

Lemma Rpow_2 x : Rpow x (dec2R 2 0) = x * x.
Proof.
  unfold dec2R. cbn [powerRZ]. replace (2 * 1) with 2 by ring. unfold Rpow.
  assert (E : Int_part 2 = 2%Z).
  { replace 2 with (INR 2) by (cbn; lra). rewrite Int_part_INR. reflexivity. }
  destruct (Req_EM_T 2 (IZR (Int_part 2))) as [_|N]; [|rewrite E in N; contradiction N; reflexivity].
  rewrite E. unfold powerRZ. cbn [Pos.to_nat Pos.iter_op Nat.add pow]. simpl. ring.
Qed.

Lemma fold_sq xs mu : forall a,
  fold_left (fun s x => sadd s (spow (ssub x mu) (sconst 2 0))) xs a = a + Rsum (map (fun x => (x - mu) * (x - mu)) xs).
Proof.
  induction xs as [|x xs IH]; intros a; cbn [fold_left map].
  - unfold Rsum; cbn [fold_right]. ring.
  - rewrite IH. unfold Rsum; cbn [fold_right]. cbn [sadd spow ssub sconst RS R_scalar]. rewrite Rpow_2. ring.
Qed.

(* unbiased sample variance: Σ (x - mean)^2 / (n - 1) for n > 1, and 0 for a single element *)
Theorem var_is_unbiased_sample_variance xs :
  varL xs = if Nat.ltb 1 (length xs)
            then Rsum (map (fun x => (x - meanL xs) * (x - meanL xs)) xs) / (INR (length xs) - 1)
            else 0.
Proof.
  unfold varL. destruct (Nat.ltb 1 (length xs)); [|reflexivity].
  rewrite fold_sq. cbn [s0 s1 sdiv ssub sofnat RS R_scalar]. f_equal. ring.
Qed.

Theorem std_is_root_of_variance xs : stdL xs = sqrt (varL xs).
Proof. reflexivity. Qed.

(* the reducer's  if a > b {a} else {b}  is the maximum; starting below every element (the
   library starts from -Inf) the fold is an upper bound that is attained *)
Lemma selgt_is_Rmax a b : (if Rgt_dec a b then a else b) = Rmax a b.
Proof. unfold Rmax. destruct (Rgt_dec a b), (Rle_dec a b); lra. Qed.
Lemma sellt_is_Rmin a b : (if Rlt_dec a b then a else b) = Rmin a b.
Proof. unfold Rmin. destruct (Rlt_dec a b), (Rle_dec a b); lra. Qed.

Theorem max_fold_upper_bound_attained xs : forall m0,
  let m := fold_left (fun a b => if Rgt_dec a b then a else b) xs m0 in
  m0 <= m /\ (forall x, In x xs -> x <= m) /\ (m = m0 \/ In m xs).
Proof.
  induction xs as [|x xs IH]; intros m0; cbn [fold_left].
  - split; [lra|]. split; [intros x []|left; reflexivity].
  - rewrite selgt_is_Rmax. destruct (IH (Rmax m0 x)) as (H1 & H2 & H3). cbn zeta in *.
    set (m := fold_left _ xs (Rmax m0 x)) in *.
    pose proof (Rmax_l m0 x). pose proof (Rmax_r m0 x).
    split; [lra|]. split.
    + intros y [->|Hy]; [lra|apply H2; exact Hy].
    + destruct H3 as [H3|H3]; [|right; right; exact H3].
      unfold Rmax in H3. destruct (Rle_dec m0 x); [right; left; symmetry; exact H3|left; exact H3].
Qed.

Theorem min_fold_lower_bound_attained xs : forall m0,
  let m := fold_left (fun a b => if Rlt_dec a b then a else b) xs m0 in
  m <= m0 /\ (forall x, In x xs -> m <= x) /\ (m = m0 \/ In m xs).
Proof.
  induction xs as [|x xs IH]; intros m0; cbn [fold_left].
  - split; [lra|]. split; [intros x []|left; reflexivity].
  - rewrite sellt_is_Rmin. destruct (IH (Rmin m0 x)) as (H1 & H2 & H3). cbn zeta in *.
    set (m := fold_left _ xs (Rmin m0 x)) in *.
    pose proof (Rmin_l m0 x). pose proof (Rmin_r m0 x).
    split; [lra|]. split.
    + intros y [->|Hy]; [lra|apply H2; exact Hy].
    + destruct H3 as [H3|H3]; [|right; right; exact H3].
      unfold Rmin in H3. destruct (Rle_dec m0 x); [left; exact H3|right; left; symmetry; exact H3].
Qed.

End R.
