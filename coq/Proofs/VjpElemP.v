(* VjpElemP.v — the backward rules of the ELEMENT-WISE operations are vector-Jacobian products
   (property C02), for the real-number instance [R_scalar thr draw].
   Every rule gets (a) an evaluation lemma [..._eval]: under well-formedness and equal shapes only
   (no differentiability guard) [eval_rule] is [Ok], the result has the operand's shape and the
   stated element formula ("never fails"), and (b) a theorem [vjp_...]: under the guard of
   differentiability the result is the VJP  g_i = Σ_j gy_j ∂F_j/∂x_i  of the forward map F. *)
From Coq Require Import List Arith ZArith Bool Lia Reals Lra.
From Coquelicot Require Import Coquelicot.
From Qeep Require Import Model.Scalar Model.Nd Model.Fill Model.Data Model.Valid Model.Api Model.Grad.
From Qeep Require Import Proofs.NdP Proofs.ElemP Proofs.BroadcastP Proofs.ArithP.
From Qeep Require Import Spec.RScalar Spec.ScalarDeriv Spec.VjpSpec.
Import ListNotations.
Local Open Scope R_scope.

(* ================================================================================= *)
(* 1. generic: an element-wise map has a diagonal Jacobian                            *)
(* ================================================================================= *)

Lemma idx_eqb_refl i : idx_eqb i i = true.
Proof. apply idx_eqb_eq. reflexivity. Qed.

(* one-variable derivative along the coordinate line through x i *)
Lemma is_derive_shift (f : R -> R) (a d : R) :
  is_derive f a d -> is_derive (fun t => f (a + t)) 0 d.
Proof.
  intros H.
  assert (H0 : is_derive f (a + 0) d) by (rewrite Rplus_0_r; exact H).
  pose proof (is_derive_comp f (fun t => a + t) 0 d 1 H0) as Hc.
  assert (Hs : is_derive (fun t : R => a + t) 0 1) by (auto_derive; [exact I|ring]).
  specialize (Hc Hs). unfold scal in Hc; cbn in Hc. unfold mult in Hc; cbn in Hc.
  rewrite Rmult_1_l in Hc. exact Hc.
Qed.

(* F a idx = f idx (a idx): output j depends on input j only.  [f] may depend on the position
   (binary operations with the other operand held fixed). *)
Lemma vjp_pointwise_idx ds (f : list nat -> R -> R) (f' x gy g : assignment) :
  (forall idx, validIdx ds idx -> is_derive (f idx) (x idx) (f' idx)) ->
  (forall idx, validIdx ds idx -> g idx = gy idx * f' idx) ->
  is_vjp ds ds (fun a idx => f idx (a idx)) x gy g.
Proof.
  intros Hd Hg i Hi.
  exists (fun j => if idx_eqb j i then f' i else 0). split.
  - intros j Hj. unfold is_partial, perturb. destruct (idx_eqb j i) eqn:E.
    + apply idx_eqb_eq in E. subst j. apply is_derive_shift. apply Hd. exact Hi.
    + apply (is_derive_const (f j (x j)) 0).
  - rewrite (Hg i Hi).
    rewrite (sumIdx_ext ds _ (fun j => if idx_eqb j i then gy j * f' i else 0)).
    + rewrite (sumIdx_single ds i (fun j => gy j * f' i) Hi). reflexivity.
    + intros j _. destruct (idx_eqb j i); [reflexivity|ring].
Qed.

Lemma vjp_pointwise ds (f : R -> R) (f' x gy g : assignment) :
  (forall idx, validIdx ds idx -> is_derive f (x idx) (f' idx)) ->
  (forall idx, validIdx ds idx -> g idx = gy idx * f' idx) ->
  is_vjp ds ds (fun a idx => f (a idx)) x gy g.
Proof. intros Hd Hg. apply (vjp_pointwise_idx ds (fun _ => f) f'); assumption. Qed.

(* two-operand version: F a b idx = f (a idx) (b idx), with respect to EACH operand *)
Lemma vjp_pointwise2_l ds (f : R -> R -> R) (f' x b gy g : assignment) :
  (forall idx, validIdx ds idx -> is_derive (fun v => f v (b idx)) (x idx) (f' idx)) ->
  (forall idx, validIdx ds idx -> g idx = gy idx * f' idx) ->
  is_vjp ds ds (fun a idx => f (a idx) (b idx)) x gy g.
Proof. intros Hd Hg. apply (vjp_pointwise_idx ds (fun idx v => f v (b idx)) f'); assumption. Qed.

Lemma vjp_pointwise2_r ds (f : R -> R -> R) (f' a x gy g : assignment) :
  (forall idx, validIdx ds idx -> is_derive (fun v => f (a idx) v) (x idx) (f' idx)) ->
  (forall idx, validIdx ds idx -> g idx = gy idx * f' idx) ->
  is_vjp ds ds (fun b idx => f (a idx) (b idx)) x gy g.
Proof. intros Hd Hg. apply (vjp_pointwise_idx ds (fun idx v => f (a idx) v) f'); assumption. Qed.

(* the forward map only matters up to pointwise equality *)
Lemma is_vjp_ext dsx dsy (F G : assignment -> assignment) x gy g :
  (forall a j, F a j = G a j) -> is_vjp dsx dsy F x gy g -> is_vjp dsx dsy G x gy g.
Proof.
  intros E H i Hi. destruct (H i Hi) as (D & HD & Hg). exists D. split; [|exact Hg].
  intros j Hj. unfold is_partial. apply (is_derive_ext (fun t => F (perturb x i t) j)).
  - intros t. apply E.
  - apply HD. exact Hj.
Qed.

(* ================================================================================= *)
(* 2. scalar facts about the real instance: [Rpow], decimal literals                  *)
(* ================================================================================= *)

Lemma Int_part_IZR z : Int_part (IZR z) = z.
Proof.
  unfold Int_part. rewrite <- (tech_up (IZR z) (z + 1)).
  - lia.
  - apply IZR_lt. lia.
  - rewrite plus_IZR. lra.
Qed.

Lemma Rpow_IZR x z : Rpow x (IZR z) = powerRZ x z.
Proof.
  unfold Rpow. rewrite Int_part_IZR.
  destruct (Req_EM_T (IZR z) (IZR z)) as [_|N]; [reflexivity|contradiction N; reflexivity].
Qed.

(* natural-number exponents: the integer power, at every base including 0 *)
Lemma Rpow_INR x n : Rpow x (INR n) = x ^ n.
Proof. rewrite INR_IZR_INZ, Rpow_IZR. symmetry. apply pow_powerRZ. Qed.

Lemma Rpow_0 x : Rpow x 0 = 1.
Proof. rewrite (Rpow_IZR x 0). reflexivity. Qed.

Lemma Rpow_2 x : Rpow x 2 = x * x.
Proof. rewrite (Rpow_IZR x 2). change (powerRZ x 2) with (x ^ 2). ring. Qed.

Lemma Rpow_m2 x : Rpow x (-2) = / x ^ 2.
Proof. rewrite (Rpow_IZR x (-2)). change (powerRZ x (-2)) with (/ x ^ 2). reflexivity. Qed.

Lemma INR_pred n : (1 <= n)%nat -> INR n - 1 = INR (pred n).
Proof. intros H. destruct n as [|n]; [lia|]. rewrite S_INR. cbn [pred]. ring. Qed.

(* positive base: the real power, whatever the exponent *)
Lemma Rpow_pos x a : 0 < x -> Rpow x a = Rpower x a.
Proof.
  intros H. unfold Rpow. destruct (Req_EM_T a (IZR (Int_part a))) as [E|_]; [|reflexivity].
  rewrite powerRZ_Rpower by exact H. rewrite <- E. reflexivity.
Qed.

Lemma dec2R_0 : dec2R 0 0 = 0.        Proof. unfold dec2R; cbn; ring. Qed.
Lemma dec2R_1 : dec2R 1 0 = 1.        Proof. unfold dec2R; cbn; ring. Qed.
Lemma dec2R_m1 : dec2R (-1) 0 = -1.   Proof. unfold dec2R; cbn; ring. Qed.
Lemma dec2R_2 : dec2R 2 0 = 2.        Proof. unfold dec2R; cbn; ring. Qed.
Lemma dec2R_m2 : dec2R (-2) 0 = -2.   Proof. unfold dec2R; cbn; ring. Qed.
Lemma dec2R_half : dec2R 5 (-1) = / 2.
Proof. unfold dec2R. change (powerRZ 10 (-1)) with (/ 10 ^ 1). field. Qed.

(* element-wise max / min in the first argument, away from ties (local constancy / identity) *)
Lemma ball_R (x y e : R) : ball x e y -> Rabs (y - x) < e.
Proof. intros H. exact H. Qed.

Lemma d_max_gt a b : b < a -> is_derive (fun v => Rmax v b) a 1.
Proof.
  intros H. assert (Hp : 0 < a - b) by lra.
  apply (is_derive_ext_loc (fun v => v)); [|auto_derive; [exact I|ring]].
  exists (mkposreal (a - b) Hp). intros v Hv. apply ball_R in Hv. cbn in Hv.
  apply Rabs_def2 in Hv. rewrite Rmax_left; lra.
Qed.
Lemma d_max_lt a b : a < b -> is_derive (fun v => Rmax v b) a 0.
Proof.
  intros H. assert (Hp : 0 < b - a) by lra.
  apply (is_derive_ext_loc (fun _ => b)); [|auto_derive; [exact I|ring]].
  exists (mkposreal (b - a) Hp). intros v Hv. apply ball_R in Hv. cbn in Hv.
  apply Rabs_def2 in Hv. rewrite Rmax_right; lra.
Qed.
Lemma d_min_lt a b : a < b -> is_derive (fun v => Rmin v b) a 1.
Proof.
  intros H. assert (Hp : 0 < b - a) by lra.
  apply (is_derive_ext_loc (fun v => v)); [|auto_derive; [exact I|ring]].
  exists (mkposreal (b - a) Hp). intros v Hv. apply ball_R in Hv. cbn in Hv.
  apply Rabs_def2 in Hv. rewrite Rmin_left; lra.
Qed.
Lemma d_min_gt a b : b < a -> is_derive (fun v => Rmin v b) a 0.
Proof.
  intros H. assert (Hp : 0 < a - b) by lra.
  apply (is_derive_ext_loc (fun _ => b)); [|auto_derive; [exact I|ring]].
  exists (mkposreal (a - b) Hp). intros v Hv. apply ball_R in Hv. cbn in Hv.
  apply Rabs_def2 in Hv. rewrite Rmin_right; lra.
Qed.

(* the model's power at a positive base: a * x^(a-1), whatever the exponent *)
Lemma d_Rpow_pos x a : 0 < x -> is_derive (fun v => Rpow v a) x (a * Rpower x (a - 1)).
Proof.
  intros H. apply (is_derive_ext_loc (fun v => Rpower v a)); [|apply d_Rpower; exact H].
  exists (mkposreal x H). intros v Hv. apply ball_R in Hv. cbn in Hv.
  apply Rabs_def2 in Hv. symmetry. apply Rpow_pos. lra.
Qed.

(* natural exponents at every base *)
Lemma d_Rpow_nat x n : is_derive (fun v => Rpow v (INR n)) x (INR n * x ^ pred n).
Proof.
  apply (is_derive_ext (fun v => v ^ n)); [intros v; symmetry; apply Rpow_INR|apply d_pow_nat].
Qed.

(* exponent 0: constant 1, also at base 0 *)
Lemma d_Rpow_0 x : is_derive (fun v => Rpow v 0) x 0.
Proof.
  apply (is_derive_ext (fun _ => 1)); [intros v; symmetry; apply Rpow_0|].
  apply (is_derive_const 1 x).
Qed.

(* ================================================================================= *)
(* 3. the rules                                                                       *)
(* ================================================================================= *)

Section VjpElem.
Variables (thr : R) (draw : bool -> nat -> R).
Local Hint Extern 0 (Scalar R) => exact (R_scalar thr draw) : typeclass_instances.
Notation T := (tensor R).
Notation cstR := (@cst R (R_scalar thr draw)).

(* ---- the fields of the instance, folded ---- *)
Lemma uF_scale a v : unaryF (UScale a) v = a * v.  Proof. reflexivity. Qed.
Lemma uF_pow a v : unaryF (UPow a) v = Rpow v a.    Proof. reflexivity. Qed.
Lemma uF_exp v : unaryF UExpo v = exp v.            Proof. reflexivity. Qed.
Lemma uF_ln v : unaryF ULn v = ln v.                Proof. reflexivity. Qed.
Lemma uF_sin v : unaryF USine v = sin v.            Proof. reflexivity. Qed.
Lemma uF_cos v : unaryF UCosine v = cos v.          Proof. reflexivity. Qed.
Lemma uF_tan v : unaryF UTang v = tan v.            Proof. reflexivity. Qed.
Lemma uF_sinh v : unaryF USinH v = sinh v.          Proof. reflexivity. Qed.
Lemma uF_cosh v : unaryF UCosH v = cosh v.          Proof. reflexivity. Qed.
Lemma uF_tanh v : unaryF UTanH v = tanh v.          Proof. reflexivity. Qed.
Lemma bF_add a b : binaryF BiAdd a b = a + b.       Proof. reflexivity. Qed.
Lemma bF_sub a b : binaryF BiSub a b = a - b.       Proof. reflexivity. Qed.
Lemma bF_mul a b : binaryF BiMul a b = a * b.       Proof. reflexivity. Qed.
Lemma bF_div a b : binaryF BiDiv a b = a / b.       Proof. reflexivity. Qed.
Lemma bF_max a b : binaryF BiElMax a b = Rmax a b.  Proof. reflexivity. Qed.
Lemma bF_min a b : binaryF BiElMin a b = Rmin a b.  Proof. reflexivity. Qed.
Definition eqt (a b : R) : R := if Rle_dec (Rabs (a - b)) thr then 1 else 0.
Lemma bF_eq a b : binaryF BiEq a b = eqt a b.       Proof. reflexivity. Qed.
Lemma cst_R m e : cst m e = dec2R m e.              Proof. reflexivity. Qed.
Lemma ssub_R a b : ssub a b = a - b.                Proof. reflexivity. Qed.

(* ---- element-level reading of the value-level API on reals ---- *)
Lemma elt_get (t : T) idx v : get (data t) idx = Some v -> elt t idx = v.
Proof. intros E. unfold elt. rewrite E. reflexivity. Qed.

Lemma un_elt (u : unary) (t : T) : wf t ->
  exists r, v_unary u t = Ok r /\ dims r = dims t /\ wf r /\
    forall idx, validIdx (dims t) idx -> elt r idx = unaryF u (elt t idx).
Proof.
  intros Hw. destruct (v_unary_spec u t Hw) as (r & Er & Hd & Hwr & Hg).
  exists r. split; [exact Er|]. split; [exact Hd|]. split; [exact Hwr|].
  intros idx Hv. destruct (get_wf R _ _ _ (proj1 Hw) Hv) as (x & Ex).
  unfold elt. rewrite (Hg idx Hv), Ex. reflexivity.
Qed.

Lemma ar_elt (b : binary) (t u : T) : wf t -> wf u -> dims t = dims u ->
  exists r, v_arith b t u = Ok r /\ dims r = dims t /\ wf r /\
    forall idx, validIdx (dims t) idx -> elt r idx = binaryF b (elt t idx) (elt u idx).
Proof.
  intros Ht Hu E. destruct (v_arith_same_dims b t u Ht Hu E) as (_ & _ & r & Er & Hd & Hwr & Hg).
  exists r. split; [exact Er|]. split; [exact Hd|]. split; [exact Hwr|].
  intros idx Hv. destruct (Hg idx Hv) as (x & y & Ex & Ey & Ez).
  rewrite (elt_get _ _ _ Ex), (elt_get _ _ _ Ey), (elt_get _ _ _ Ez). reflexivity.
Qed.

Lemma same_elt (b : binary) (t u : T) : wf t -> wf u -> dims t = dims u ->
  exists r, v_same b t u = Ok r /\ dims r = dims t /\ wf r /\
    forall idx, validIdx (dims t) idx -> elt r idx = binaryF b (elt t idx) (elt u idx).
Proof.
  intros Ht Hu E. destruct (v_same_spec b t u Ht Hu) as [H _].
  destruct (H E) as (r & Er & Hd & Hwr & Hg).
  exists r. split; [exact Er|]. split; [exact Hd|]. split; [exact Hwr|].
  intros idx Hv. destruct (get_wf R _ _ _ (proj1 Ht) Hv) as (x & Ex).
  pose proof Hv as Hv'. rewrite E in Hv'. destruct (get_wf R _ _ _ (proj1 Hu) Hv') as (y & Ey).
  unfold elt. rewrite (Hg idx Hv), Ex, Ey. reflexivity.
Qed.

Implicit Types (rd : bred) (h : @heap R) (xv yv gy av bv ov : T).

(* open a rule on the heap *)
Ltac open_rule :=
  unfold eval_rule, gy_of, val_of;
  repeat match goal with H : valOf _ _ = Some _ |- _ => rewrite H end;
  repeat match goal with H : gradOf _ _ = Some _ |- _ => rewrite H end;
  cbn [of_opt res_bind].
(* one value-level call *)
Tactic Notation "step_un" constr(u) constr(t) constr(W) ident(r) ident(E) ident(D) ident(W') ident(G) :=
  destruct (un_elt u t W) as (r & E & D & W' & G); rewrite E; cbn [res_bind].
Tactic Notation "step_ar" constr(b) constr(t) constr(u) constr(Wt) constr(Wu) ident(r) ident(E) ident(D) ident(W') ident(G) :=
  destruct (ar_elt b t u Wt Wu ltac:(congruence)) as (r & E & D & W' & G); rewrite E; cbn [res_bind].
Tactic Notation "step_same" constr(b) constr(t) constr(u) constr(Wt) constr(Wu) ident(r) ident(E) ident(D) ident(W') ident(G) :=
  destruct (same_elt b t u Wt Wu ltac:(congruence)) as (r & E & D & W' & G); rewrite E; cbn [res_bind].
Ltac close_rule g W := exists g; split; [reflexivity|]; split; [congruence|]; split; [exact W|].

Tactic Notation "from_eval" constr(L) ident(g) ident(E) ident(D) ident(W) ident(G) :=
  destruct L as (g & E & D & W & G); exists g; split; [exact E|]; split; [exact D|]; split; [exact W|].

(* ================= unary math rules: gradient = gy * f'(x) ================= *)

(* ---------- Sin ---------- *)
Lemma rsin_eval rd h y x xv gy :
  valOf h x = Some xv -> gradOf h y = Some gy -> wf xv -> wf gy -> dims gy = dims xv ->
  exists g, eval_rule rd h (RSin y x) = Ok g /\ dims g = dims xv /\ wf g /\
    forall idx, validIdx (dims xv) idx -> elt g idx = elt gy idx * cos (elt xv idx).
Proof.
  intros Hx Hg Wx Wg Ed. open_rule.
  step_un (@UCosine R) xv Wx c Ec Dc Wc Gc.
  step_ar BiMul gy c Wg Wc g Eg Dg Wg' Gg.
  close_rule g Wg'. intros idx Hv.
  rewrite Gg by (rewrite Ed; exact Hv). rewrite Gc by exact Hv. reflexivity.
Qed.

Theorem vjp_sin rd h y x xv gy :
  valOf h x = Some xv -> gradOf h y = Some gy -> wf xv -> wf gy -> dims gy = dims xv ->
  exists g, eval_rule rd h (RSin y x) = Ok g /\ dims g = dims xv /\ wf g /\
    is_vjp (dims xv) (dims xv) (fun a idx => sin (a idx)) (elt xv) (elt gy) (elt g).
Proof.
  intros Hx Hg Wx Wg Ed. from_eval (rsin_eval rd h y x xv gy Hx Hg Wx Wg Ed) g E D W G.
  apply (vjp_pointwise (dims xv) sin (fun idx => cos (elt xv idx))); [|exact G].
  intros idx _. apply d_sin.
Qed.

(* ---------- Cos ---------- *)
Lemma rcos_eval rd h y x xv gy :
  valOf h x = Some xv -> gradOf h y = Some gy -> wf xv -> wf gy -> dims gy = dims xv ->
  exists g, eval_rule rd h (RCos y x) = Ok g /\ dims g = dims xv /\ wf g /\
    forall idx, validIdx (dims xv) idx -> elt g idx = elt gy idx * - sin (elt xv idx).
Proof.
  intros Hx Hg Wx Wg Ed. open_rule.
  step_un (@USine R) xv Wx c Ec Dc Wc Gc.
  step_un (UScale (cstR (-1) 0)) c Wc c2 Ec2 Dc2 Wc2 Gc2.
  step_ar BiMul gy c2 Wg Wc2 g Eg Dg Wg' Gg.
  close_rule g Wg'. intros idx Hv.
  rewrite Gg by (rewrite Ed; exact Hv). rewrite Gc2 by (rewrite Dc; exact Hv). rewrite Gc by exact Hv.
  rewrite bF_mul, uF_scale, uF_sin, cst_R, dec2R_m1. ring.
Qed.

Theorem vjp_cos rd h y x xv gy :
  valOf h x = Some xv -> gradOf h y = Some gy -> wf xv -> wf gy -> dims gy = dims xv ->
  exists g, eval_rule rd h (RCos y x) = Ok g /\ dims g = dims xv /\ wf g /\
    is_vjp (dims xv) (dims xv) (fun a idx => cos (a idx)) (elt xv) (elt gy) (elt g).
Proof.
  intros Hx Hg Wx Wg Ed. from_eval (rcos_eval rd h y x xv gy Hx Hg Wx Wg Ed) g E D W G.
  apply (vjp_pointwise (dims xv) cos (fun idx => - sin (elt xv idx))); [|exact G].
  intros idx _. apply d_cos.
Qed.

(* ---------- Tan ---------- *)
Lemma rtan_eval rd h y x xv gy :
  valOf h x = Some xv -> gradOf h y = Some gy -> wf xv -> wf gy -> dims gy = dims xv ->
  exists g, eval_rule rd h (RTan y x) = Ok g /\ dims g = dims xv /\ wf g /\
    forall idx, validIdx (dims xv) idx -> elt g idx = elt gy idx * / (cos (elt xv idx)) ^ 2.
Proof.
  intros Hx Hg Wx Wg Ed. open_rule.
  step_un (@UCosine R) xv Wx c Ec Dc Wc Gc.
  step_un (UPow (cstR (-2) 0)) c Wc c2 Ec2 Dc2 Wc2 Gc2.
  step_ar BiMul gy c2 Wg Wc2 g Eg Dg Wg' Gg.
  close_rule g Wg'. intros idx Hv.
  rewrite Gg by (rewrite Ed; exact Hv). rewrite Gc2 by (rewrite Dc; exact Hv). rewrite Gc by exact Hv.
  rewrite bF_mul, uF_pow, uF_cos, cst_R, dec2R_m2, Rpow_m2. reflexivity.
Qed.

Theorem vjp_tan rd h y x xv gy :
  valOf h x = Some xv -> gradOf h y = Some gy -> wf xv -> wf gy -> dims gy = dims xv ->
  (forall idx, validIdx (dims xv) idx -> cos (elt xv idx) <> 0) ->
  exists g, eval_rule rd h (RTan y x) = Ok g /\ dims g = dims xv /\ wf g /\
    is_vjp (dims xv) (dims xv) (fun a idx => tan (a idx)) (elt xv) (elt gy) (elt g).
Proof.
  intros Hx Hg Wx Wg Ed Hc. from_eval (rtan_eval rd h y x xv gy Hx Hg Wx Wg Ed) g E D W G.
  apply (vjp_pointwise (dims xv) tan (fun idx => / (cos (elt xv idx)) ^ 2)); [|exact G].
  intros idx Hv. apply d_tan. apply Hc. exact Hv.
Qed.

(* ---------- Sinh ---------- *)
Lemma rsinh_eval rd h y x xv gy :
  valOf h x = Some xv -> gradOf h y = Some gy -> wf xv -> wf gy -> dims gy = dims xv ->
  exists g, eval_rule rd h (RSinh y x) = Ok g /\ dims g = dims xv /\ wf g /\
    forall idx, validIdx (dims xv) idx -> elt g idx = elt gy idx * cosh (elt xv idx).
Proof.
  intros Hx Hg Wx Wg Ed. open_rule.
  step_un (@UCosH R) xv Wx c Ec Dc Wc Gc.
  step_ar BiMul gy c Wg Wc g Eg Dg Wg' Gg.
  close_rule g Wg'. intros idx Hv.
  rewrite Gg by (rewrite Ed; exact Hv). rewrite Gc by exact Hv. reflexivity.
Qed.

Theorem vjp_sinh rd h y x xv gy :
  valOf h x = Some xv -> gradOf h y = Some gy -> wf xv -> wf gy -> dims gy = dims xv ->
  exists g, eval_rule rd h (RSinh y x) = Ok g /\ dims g = dims xv /\ wf g /\
    is_vjp (dims xv) (dims xv) (fun a idx => sinh (a idx)) (elt xv) (elt gy) (elt g).
Proof.
  intros Hx Hg Wx Wg Ed. from_eval (rsinh_eval rd h y x xv gy Hx Hg Wx Wg Ed) g E D W G.
  apply (vjp_pointwise (dims xv) sinh (fun idx => cosh (elt xv idx))); [|exact G].
  intros idx _. apply d_sinh.
Qed.

(* ---------- Cosh ---------- *)
Lemma rcosh_eval rd h y x xv gy :
  valOf h x = Some xv -> gradOf h y = Some gy -> wf xv -> wf gy -> dims gy = dims xv ->
  exists g, eval_rule rd h (RCosh y x) = Ok g /\ dims g = dims xv /\ wf g /\
    forall idx, validIdx (dims xv) idx -> elt g idx = elt gy idx * sinh (elt xv idx).
Proof.
  intros Hx Hg Wx Wg Ed. open_rule.
  step_un (@USinH R) xv Wx c Ec Dc Wc Gc.
  step_ar BiMul gy c Wg Wc g Eg Dg Wg' Gg.
  close_rule g Wg'. intros idx Hv.
  rewrite Gg by (rewrite Ed; exact Hv). rewrite Gc by exact Hv. reflexivity.
Qed.

Theorem vjp_cosh rd h y x xv gy :
  valOf h x = Some xv -> gradOf h y = Some gy -> wf xv -> wf gy -> dims gy = dims xv ->
  exists g, eval_rule rd h (RCosh y x) = Ok g /\ dims g = dims xv /\ wf g /\
    is_vjp (dims xv) (dims xv) (fun a idx => cosh (a idx)) (elt xv) (elt gy) (elt g).
Proof.
  intros Hx Hg Wx Wg Ed. from_eval (rcosh_eval rd h y x xv gy Hx Hg Wx Wg Ed) g E D W G.
  apply (vjp_pointwise (dims xv) cosh (fun idx => sinh (elt xv idx))); [|exact G].
  intros idx _. apply d_cosh.
Qed.

(* ---------- Tanh ---------- *)
Lemma rtanh_eval rd h y x xv gy :
  valOf h x = Some xv -> gradOf h y = Some gy -> wf xv -> wf gy -> dims gy = dims xv ->
  exists g, eval_rule rd h (RTanh y x) = Ok g /\ dims g = dims xv /\ wf g /\
    forall idx, validIdx (dims xv) idx -> elt g idx = elt gy idx * / (cosh (elt xv idx)) ^ 2.
Proof.
  intros Hx Hg Wx Wg Ed. open_rule.
  step_un (@UCosH R) xv Wx c Ec Dc Wc Gc.
  step_un (UPow (cstR (-2) 0)) c Wc c2 Ec2 Dc2 Wc2 Gc2.
  step_ar BiMul gy c2 Wg Wc2 g Eg Dg Wg' Gg.
  close_rule g Wg'. intros idx Hv.
  rewrite Gg by (rewrite Ed; exact Hv). rewrite Gc2 by (rewrite Dc; exact Hv). rewrite Gc by exact Hv.
  rewrite bF_mul, uF_pow, uF_cosh, cst_R, dec2R_m2, Rpow_m2. reflexivity.
Qed.

Theorem vjp_tanh rd h y x xv gy :
  valOf h x = Some xv -> gradOf h y = Some gy -> wf xv -> wf gy -> dims gy = dims xv ->
  exists g, eval_rule rd h (RTanh y x) = Ok g /\ dims g = dims xv /\ wf g /\
    is_vjp (dims xv) (dims xv) (fun a idx => tanh (a idx)) (elt xv) (elt gy) (elt g).
Proof.
  intros Hx Hg Wx Wg Ed. from_eval (rtanh_eval rd h y x xv gy Hx Hg Wx Wg Ed) g E D W G.
  apply (vjp_pointwise (dims xv) tanh (fun idx => / (cosh (elt xv idx)) ^ 2)); [|exact G].
  intros idx _. apply d_tanh.
Qed.

(* ---------- Log: gy / x ---------- *)
Lemma rlog_eval rd h y x xv gy :
  valOf h x = Some xv -> gradOf h y = Some gy -> wf xv -> wf gy -> dims gy = dims xv ->
  exists g, eval_rule rd h (RLog y x) = Ok g /\ dims g = dims xv /\ wf g /\
    forall idx, validIdx (dims xv) idx -> elt g idx = elt gy idx * / elt xv idx.
Proof.
  intros Hx Hg Wx Wg Ed. open_rule.
  step_ar BiDiv gy xv Wg Wx g Eg Dg Wg' Gg.
  close_rule g Wg'. intros idx Hv.
  rewrite Gg by (rewrite Ed; exact Hv). reflexivity.
Qed.

Theorem vjp_log rd h y x xv gy :
  valOf h x = Some xv -> gradOf h y = Some gy -> wf xv -> wf gy -> dims gy = dims xv ->
  (forall idx, validIdx (dims xv) idx -> 0 < elt xv idx) ->
  exists g, eval_rule rd h (RLog y x) = Ok g /\ dims g = dims xv /\ wf g /\
    is_vjp (dims xv) (dims xv) (fun a idx => ln (a idx)) (elt xv) (elt gy) (elt g).
Proof.
  intros Hx Hg Wx Wg Ed Hp. from_eval (rlog_eval rd h y x xv gy Hx Hg Wx Wg Ed) g E D W G.
  apply (vjp_pointwise (dims xv) ln (fun idx => / elt xv idx)); [|exact G].
  intros idx Hv. apply d_ln. apply Hp. exact Hv.
Qed.

(* ---------- Exp: the rule multiplies by the OUTPUT value y = exp x ---------- *)
Lemma rexp_eval rd h y yv gy :
  valOf h y = Some yv -> gradOf h y = Some gy -> wf yv -> wf gy -> dims gy = dims yv ->
  exists g, eval_rule rd h (RExp y) = Ok g /\ dims g = dims yv /\ wf g /\
    forall idx, validIdx (dims yv) idx -> elt g idx = elt gy idx * elt yv idx.
Proof.
  intros Hy Hg Wy Wg Ed. open_rule.
  step_ar BiMul gy yv Wg Wy g Eg Dg Wg' Gg.
  close_rule g Wg'. intros idx Hv.
  rewrite Gg by (rewrite Ed; exact Hv). reflexivity.
Qed.

Theorem vjp_exp rd h y xv yv gy :
  valOf h y = Some yv -> gradOf h y = Some gy -> wf yv -> wf gy -> dims gy = dims xv -> dims yv = dims xv ->
  (forall idx, validIdx (dims xv) idx -> elt yv idx = exp (elt xv idx)) ->
  exists g, eval_rule rd h (RExp y) = Ok g /\ dims g = dims xv /\ wf g /\
    is_vjp (dims xv) (dims xv) (fun a idx => exp (a idx)) (elt xv) (elt gy) (elt g).
Proof.
  intros Hy Hg Wy Wg Ed Edy Hyv.
  destruct (rexp_eval rd h y yv gy Hy Hg Wy Wg ltac:(congruence)) as (g & E & D & W & G).
  exists g. split; [exact E|]. split; [congruence|]. split; [exact W|].
  apply (vjp_pointwise (dims xv) exp (fun idx => exp (elt xv idx))).
  - intros idx _. apply d_exp.
  - intros idx Hv. rewrite G by (rewrite Edy; exact Hv). rewrite Hyv by exact Hv. reflexivity.
Qed.

(* ================= Scale, Add, Sub ================= *)

(* ---------- Scale(a): a * gy.  Linear: differentiable at every operand value [xv]. ---------- *)
Lemma rscale_eval rd h y a gy :
  gradOf h y = Some gy -> wf gy ->
  exists g, eval_rule rd h (RScale y a) = Ok g /\ dims g = dims gy /\ wf g /\
    forall idx, validIdx (dims gy) idx -> elt g idx = elt gy idx * a.
Proof.
  intros Hg Wg. open_rule.
  step_un (UScale a) gy Wg g Eg Dg Wg' Gg.
  close_rule g Wg'. intros idx Hv. rewrite Gg by exact Hv. rewrite uF_scale. ring.
Qed.

Theorem vjp_scale rd h y a xv gy :
  gradOf h y = Some gy -> wf gy -> dims gy = dims xv ->
  exists g, eval_rule rd h (RScale y a) = Ok g /\ dims g = dims xv /\ wf g /\
    is_vjp (dims xv) (dims xv) (fun a' idx => a * a' idx) (elt xv) (elt gy) (elt g).
Proof.
  intros Hg Wg Ed. destruct (rscale_eval rd h y a gy Hg Wg) as (g & E & D & W & G).
  exists g. split; [exact E|]. split; [congruence|]. split; [exact W|].
  apply (vjp_pointwise (dims xv) (fun v => a * v) (fun _ => a)).
  - intros idx _. apply d_scale.
  - intros idx Hv. apply G. rewrite Ed. exact Hv.
Qed.

(* ---------- Id: Add (both operands) and Sub (first operand): the gradient is gy itself ---------- *)
Lemma rid_eval rd h y gy : gradOf h y = Some gy -> eval_rule rd h (RId y) = Ok gy.
Proof. intros Hg. open_rule. reflexivity. Qed.

Theorem vjp_id rd h y xv gy (o : assignment) :
  gradOf h y = Some gy -> wf gy -> dims gy = dims xv ->
  exists g, eval_rule rd h (RId y) = Ok g /\ dims g = dims xv /\ wf g /\
    is_vjp (dims xv) (dims xv) (fun a idx => a idx + o idx) (elt xv) (elt gy) (elt g) /\   (* Add, first operand *)
    is_vjp (dims xv) (dims xv) (fun b idx => o idx + b idx) (elt xv) (elt gy) (elt g) /\   (* Add, second operand *)
    is_vjp (dims xv) (dims xv) (fun a idx => a idx - o idx) (elt xv) (elt gy) (elt g).     (* Sub, first operand *)
Proof.
  intros Hg Wg Ed. exists gy. split; [apply rid_eval; exact Hg|]. split; [exact Ed|]. split; [exact Wg|].
  split; [|split].
  - apply (vjp_pointwise2_l (dims xv) Rplus (fun _ => 1)); [intros idx _; apply d_add_l|intros idx _; ring].
  - apply (vjp_pointwise2_r (dims xv) Rplus (fun _ => 1)); [intros idx _; apply d_add_r|intros idx _; ring].
  - apply (vjp_pointwise2_l (dims xv) Rminus (fun _ => 1)); [intros idx _; apply d_sub_l|intros idx _; ring].
Qed.

(* ---------- Neg: Sub, second operand ---------- *)
Lemma rneg_eval rd h y gy :
  gradOf h y = Some gy -> wf gy ->
  exists g, eval_rule rd h (RNeg y) = Ok g /\ dims g = dims gy /\ wf g /\
    forall idx, validIdx (dims gy) idx -> elt g idx = elt gy idx * -1.
Proof.
  intros Hg Wg. open_rule.
  step_un (UScale (cstR (-1) 0)) gy Wg g Eg Dg Wg' Gg.
  close_rule g Wg'. intros idx Hv. rewrite Gg by exact Hv. rewrite uF_scale, cst_R, dec2R_m1. ring.
Qed.

Theorem vjp_neg rd h y xv gy (o : assignment) :
  gradOf h y = Some gy -> wf gy -> dims gy = dims xv ->
  exists g, eval_rule rd h (RNeg y) = Ok g /\ dims g = dims xv /\ wf g /\
    is_vjp (dims xv) (dims xv) (fun b idx => o idx - b idx) (elt xv) (elt gy) (elt g).
Proof.
  intros Hg Wg Ed. destruct (rneg_eval rd h y gy Hg Wg) as (g & E & D & W & G).
  exists g. split; [exact E|]. split; [congruence|]. split; [exact W|].
  apply (vjp_pointwise2_r (dims xv) Rminus (fun _ => -1)).
  - intros idx _. apply d_sub_r.
  - intros idx Hv. apply G. rewrite Ed. exact Hv.
Qed.

(* ================= Mul, Div ================= *)

(* ---------- Mul: gy * (other operand) ---------- *)
Lemma rmul_eval rd h y o ov gy :
  valOf h o = Some ov -> gradOf h y = Some gy -> wf ov -> wf gy -> dims gy = dims ov ->
  exists g, eval_rule rd h (RMul y o) = Ok g /\ dims g = dims ov /\ wf g /\
    forall idx, validIdx (dims ov) idx -> elt g idx = elt gy idx * elt ov idx.
Proof.
  intros Ho Hg Wo Wg Ed. open_rule.
  step_ar BiMul gy ov Wg Wo g Eg Dg Wg' Gg.
  close_rule g Wg'. intros idx Hv. rewrite Gg by (rewrite Ed; exact Hv). reflexivity.
Qed.

Theorem vjp_mul rd h y o xv ov gy :
  valOf h o = Some ov -> gradOf h y = Some gy -> wf ov -> wf gy -> dims gy = dims xv -> dims ov = dims xv ->
  exists g, eval_rule rd h (RMul y o) = Ok g /\ dims g = dims xv /\ wf g /\
    is_vjp (dims xv) (dims xv) (fun a idx => a idx * elt ov idx) (elt xv) (elt gy) (elt g) /\  (* first operand *)
    is_vjp (dims xv) (dims xv) (fun b idx => elt ov idx * b idx) (elt xv) (elt gy) (elt g).    (* second operand *)
Proof.
  intros Ho Hg Wo Wg Ed Edo.
  destruct (rmul_eval rd h y o ov gy Ho Hg Wo Wg ltac:(congruence)) as (g & E & D & W & G).
  exists g. split; [exact E|]. split; [congruence|]. split; [exact W|].
  assert (G' : forall idx, validIdx (dims xv) idx -> elt g idx = elt gy idx * elt ov idx)
    by (intros idx Hv; apply G; rewrite Edo; exact Hv).
  split.
  - apply (vjp_pointwise2_l (dims xv) Rmult (elt ov)); [intros idx _; apply d_mul_l|exact G'].
  - apply (vjp_pointwise2_r (dims xv) Rmult (elt ov)); [intros idx _; apply d_mul_r|exact G'].
Qed.

(* ---------- Div, numerator: gy / b ---------- *)
Lemma rdiva_eval rd h y b bv gy :
  valOf h b = Some bv -> gradOf h y = Some gy -> wf bv -> wf gy -> dims gy = dims bv ->
  exists g, eval_rule rd h (RDivA y b) = Ok g /\ dims g = dims bv /\ wf g /\
    forall idx, validIdx (dims bv) idx -> elt g idx = elt gy idx * / elt bv idx.
Proof.
  intros Hb Hg Wb Wg Ed. open_rule.
  step_ar BiDiv gy bv Wg Wb g Eg Dg Wg' Gg.
  close_rule g Wg'. intros idx Hv. rewrite Gg by (rewrite Ed; exact Hv). reflexivity.
Qed.

Theorem vjp_div_a rd h y b xv bv gy :
  valOf h b = Some bv -> gradOf h y = Some gy -> wf bv -> wf gy -> dims gy = dims xv -> dims bv = dims xv ->
  (forall idx, validIdx (dims xv) idx -> elt bv idx <> 0) ->
  exists g, eval_rule rd h (RDivA y b) = Ok g /\ dims g = dims xv /\ wf g /\
    is_vjp (dims xv) (dims xv) (fun a idx => a idx / elt bv idx) (elt xv) (elt gy) (elt g).
Proof.
  intros Hb Hg Wb Wg Ed Edb Hnz.
  destruct (rdiva_eval rd h y b bv gy Hb Hg Wb Wg ltac:(congruence)) as (g & E & D & W & G).
  exists g. split; [exact E|]. split; [congruence|]. split; [exact W|].
  apply (vjp_pointwise2_l (dims xv) Rdiv (fun idx => / elt bv idx)).
  - intros idx Hv. apply d_div_l. apply Hnz. exact Hv.
  - intros idx Hv. apply G. rewrite Edb. exact Hv.
Qed.

(* ---------- Div, denominator: gy * ((-1 * a) / b^2) ---------- *)
Lemma rdivb_eval rd h y a b av bv gy :
  valOf h a = Some av -> valOf h b = Some bv -> gradOf h y = Some gy -> wf av -> wf bv -> wf gy ->
  dims gy = dims bv -> dims av = dims bv ->
  exists g, eval_rule rd h (RDivB y a b) = Ok g /\ dims g = dims bv /\ wf g /\
    forall idx, validIdx (dims bv) idx -> elt g idx = elt gy idx * (- elt av idx / (elt bv idx) ^ 2).
Proof.
  intros Ha Hb Hg Wa Wb Wg Ed Eda. open_rule.
  step_un (UScale (cstR (-1) 0)) av Wa n En Dn Wn Gn.
  step_un (UPow (cstR 2 0)) bv Wb d Ed' Dd Wd Gd.
  step_ar BiDiv n d Wn Wd gb Egb Dgb Wgb Ggb.
  step_ar BiMul gy gb Wg Wgb g Eg Dg Wg' Gg.
  close_rule g Wg'. intros idx Hv.
  rewrite Gg by (rewrite Ed; exact Hv). rewrite Ggb by (rewrite Dn, Eda; exact Hv).
  rewrite Gn by (rewrite Eda; exact Hv). rewrite Gd by exact Hv.
  rewrite bF_mul, bF_div, uF_scale, uF_pow, (cst_R (-1) 0), (cst_R 2 0), dec2R_m1, dec2R_2, Rpow_2.
  unfold Rdiv. f_equal. replace (elt bv idx ^ 2) with (elt bv idx * elt bv idx) by ring. ring.
Qed.

Theorem vjp_div_b rd h y a b av bv gy :
  valOf h a = Some av -> valOf h b = Some bv -> gradOf h y = Some gy -> wf av -> wf bv -> wf gy ->
  dims gy = dims bv -> dims av = dims bv ->
  (forall idx, validIdx (dims bv) idx -> elt bv idx <> 0) ->
  exists g, eval_rule rd h (RDivB y a b) = Ok g /\ dims g = dims bv /\ wf g /\
    is_vjp (dims bv) (dims bv) (fun b' idx => elt av idx / b' idx) (elt bv) (elt gy) (elt g).
Proof.
  intros Ha Hb Hg Wa Wb Wg Ed Eda Hnz.
  from_eval (rdivb_eval rd h y a b av bv gy Ha Hb Hg Wa Wb Wg Ed Eda) g E D W G.
  apply (vjp_pointwise2_r (dims bv) Rdiv (fun idx => - elt av idx / (elt bv idx) ^ 2)); [|exact G].
  intros idx Hv. apply d_div_r. apply Hnz. exact Hv.
Qed.

(* ================= Pow ================= *)
Lemma sconst_R m e : sconst m e = dec2R m e.  Proof. reflexivity. Qed.

(* (i) exponent 0 (decided on the literal): the rule returns toZeros gy *)
Lemma rpow_eval_zero rd h y x a xv gy :
  valOf h x = Some xv -> gradOf h y = Some gy -> wf gy -> dims gy = dims xv ->
  exists g, eval_rule rd h (RPow y x a true) = Ok g /\ dims g = dims xv /\ wf g /\
    forall idx, validIdx (dims xv) idx -> elt g idx = 0.
Proof.
  intros Hx Hg Wg Ed. open_rule. unfold toZeros.
  step_un (@UScale R (@sconst R (R_scalar thr draw) 0 0)) gy Wg g Eg Dg Wg' Gg.
  close_rule g Wg'. intros idx Hv. rewrite Gg by (rewrite Ed; exact Hv).
  rewrite uF_scale, sconst_R, dec2R_0. ring.
Qed.

(* x^0 = 1 is differentiable everywhere, including x = 0, with derivative 0 *)
Theorem vjp_pow_zero rd h y x xv gy :
  valOf h x = Some xv -> gradOf h y = Some gy -> wf gy -> dims gy = dims xv ->
  exists g, eval_rule rd h (RPow y x 0 true) = Ok g /\ dims g = dims xv /\ wf g /\
    is_vjp (dims xv) (dims xv) (fun a' idx => Rpow (a' idx) 0) (elt xv) (elt gy) (elt g).
Proof.
  intros Hx Hg Wg Ed. from_eval (rpow_eval_zero rd h y x 0 xv gy Hx Hg Wg Ed) g E Dg W G.
  apply (vjp_pointwise (dims xv) (fun v => Rpow v 0) (fun _ => 0)).
  - intros idx _. apply d_Rpow_0.
  - intros idx Hv. rewrite (G idx Hv). ring.
Qed.

(* exponent not the literal 0:  gy * (a * x^(a-1)) *)
Lemma rpow_eval rd h y x a xv gy :
  valOf h x = Some xv -> gradOf h y = Some gy -> wf xv -> wf gy -> dims gy = dims xv ->
  exists g, eval_rule rd h (RPow y x a false) = Ok g /\ dims g = dims xv /\ wf g /\
    forall idx, validIdx (dims xv) idx -> elt g idx = elt gy idx * (a * Rpow (elt xv idx) (a - 1)).
Proof.
  intros Hx Hg Wx Wg Ed. open_rule.
  step_un (UPow (@ssub R (R_scalar thr draw) a (cstR 1 0))) xv Wx p Ep Dp Wp Gp.
  step_un (UScale a) p Wp q Eqq Dq Wq Gq.
  step_ar BiMul gy q Wg Wq g Eg Dg Wg' Gg.
  close_rule g Wg'. intros idx Hv.
  rewrite Gg by (rewrite Ed; exact Hv). rewrite Gq by (rewrite Dp; exact Hv). rewrite Gp by exact Hv.
  rewrite bF_mul, uF_scale, uF_pow, ssub_R, cst_R, dec2R_1. reflexivity.
Qed.

(* (ii) natural exponent n >= 1: x^n at EVERY x (including 0), derivative n * x^(n-1) *)
Theorem vjp_pow_nat rd h y x n xv gy :
  valOf h x = Some xv -> gradOf h y = Some gy -> wf xv -> wf gy -> dims gy = dims xv -> (1 <= n)%nat ->
  exists g, eval_rule rd h (RPow y x (INR n) false) = Ok g /\ dims g = dims xv /\ wf g /\
    is_vjp (dims xv) (dims xv) (fun a' idx => Rpow (a' idx) (INR n)) (elt xv) (elt gy) (elt g) /\
    is_vjp (dims xv) (dims xv) (fun a' idx => a' idx ^ n) (elt xv) (elt gy) (elt g).
Proof.
  intros Hx Hg Wx Wg Ed Hn. from_eval (rpow_eval rd h y x (INR n) xv gy Hx Hg Wx Wg Ed) g E Dg W G.
  assert (V : is_vjp (dims xv) (dims xv) (fun a' idx => Rpow (a' idx) (INR n)) (elt xv) (elt gy) (elt g)).
  { apply (vjp_pointwise (dims xv) (fun v => Rpow v (INR n)) (fun idx => INR n * elt xv idx ^ pred n)).
    - intros idx _. apply d_Rpow_nat.
    - intros idx Hv. rewrite (G idx Hv), (INR_pred n Hn), Rpow_INR. reflexivity. }
  split; [exact V|].
  apply (is_vjp_ext _ _ (fun a' idx => Rpow (a' idx) (INR n))); [|exact V].
  intros a' j. apply Rpow_INR.
Qed.

(* (iii) arbitrary real exponent, every element positive *)
Theorem vjp_pow_pos rd h y x a xv gy :
  valOf h x = Some xv -> gradOf h y = Some gy -> wf xv -> wf gy -> dims gy = dims xv ->
  (forall idx, validIdx (dims xv) idx -> 0 < elt xv idx) ->
  exists g, eval_rule rd h (RPow y x a false) = Ok g /\ dims g = dims xv /\ wf g /\
    is_vjp (dims xv) (dims xv) (fun a' idx => Rpow (a' idx) a) (elt xv) (elt gy) (elt g).
Proof.
  intros Hx Hg Wx Wg Ed Hp. from_eval (rpow_eval rd h y x a xv gy Hx Hg Wx Wg Ed) g E Dg W G.
  apply (vjp_pointwise (dims xv) (fun v => Rpow v a) (fun idx => a * Rpower (elt xv idx) (a - 1))).
  - intros idx Hv. apply d_Rpow_pos. apply Hp. exact Hv.
  - intros idx Hv. rewrite (G idx Hv), (Rpow_pos _ _ (Hp idx Hv)). reflexivity.
Qed.

(* ================= ElMax / ElMin ================= *)

Lemma eqt_near a b : Rabs (a - b) <= thr -> eqt a b = 1.
Proof. intros H. unfold eqt. destruct (Rle_dec (Rabs (a - b)) thr) as [_|N]; [reflexivity|contradiction]. Qed.
Lemma eqt_far a b : thr < Rabs (a - b) -> eqt a b = 0.
Proof. intros H. unfold eqt. destruct (Rle_dec (Rabs (a - b)) thr) as [L|_]; [lra|reflexivity]. Qed.
Lemma eqt_same a : 0 <= thr -> eqt a a = 1.
Proof. intros H. apply eqt_near. replace (a - a) with 0 by ring. rewrite Rabs_R0. exact H. Qed.

(* formula level: gy * ([y = a] - 0.5 * [a = b]) with the threshold equality *)
Lemma relsel_eval rd h y a b yv av bv gy :
  valOf h y = Some yv -> valOf h a = Some av -> valOf h b = Some bv -> gradOf h y = Some gy ->
  wf yv -> wf av -> wf bv -> wf gy -> dims yv = dims av -> dims bv = dims av -> dims gy = dims av ->
  exists g, eval_rule rd h (RElSel y a b) = Ok g /\ dims g = dims av /\ wf g /\
    forall idx, validIdx (dims av) idx ->
      elt g idx = elt gy idx * (eqt (elt yv idx) (elt av idx) - / 2 * eqt (elt av idx) (elt bv idx)).
Proof.
  intros Hy Ha Hb Hg Wy Wa Wb Wg Edy Edb Edg. open_rule.
  step_same BiEq yv av Wy Wa ga Ega Dga Wga Gga.
  step_same BiEq av bv Wa Wb eqv Eeq Deq Weq Geq.
  step_un (UScale (cstR 5 (-1))) eqv Weq half Eh Dh Wh Gh.
  step_ar BiSub ga half Wga Wh ga2 Ega2 Dga2 Wga2 Gga2.
  step_ar BiMul gy ga2 Wg Wga2 g Eg Dg Wg' Gg.
  close_rule g Wg'. intros idx Hv.
  rewrite Gg by (rewrite Edg; exact Hv). rewrite Gga2 by (rewrite Dga, Edy; exact Hv).
  rewrite Gga by (rewrite Edy; exact Hv). rewrite Gh by (rewrite Deq; exact Hv). rewrite Geq by exact Hv.
  rewrite bF_mul, bF_sub, uF_scale, !bF_eq, cst_R, dec2R_half. reflexivity.
Qed.

(* within the threshold (in particular at an exact tie) each operand receives half of gy *)
Theorem elsel_tie_formula rd h y a b yv av bv gy :
  valOf h y = Some yv -> valOf h a = Some av -> valOf h b = Some bv -> gradOf h y = Some gy ->
  wf yv -> wf av -> wf bv -> wf gy -> dims yv = dims av -> dims bv = dims av -> dims gy = dims av ->
  0 <= thr ->
  exists g, eval_rule rd h (RElSel y a b) = Ok g /\ dims g = dims av /\ wf g /\
    (forall idx, validIdx (dims av) idx -> elt av idx = elt bv idx ->
       elt yv idx = Rmax (elt av idx) (elt bv idx) \/ elt yv idx = Rmin (elt av idx) (elt bv idx) ->
       elt g idx = elt gy idx * / 2) /\
    (forall idx, validIdx (dims av) idx -> Rabs (elt av idx - elt bv idx) <= thr ->
       elt yv idx = elt av idx \/ elt yv idx = elt bv idx ->
       elt g idx = elt gy idx * / 2).
Proof.
  intros Hy Ha Hb Hg Wy Wa Wb Wg Edy Edb Edg Ht.
  from_eval (relsel_eval rd h y a b yv av bv gy Hy Ha Hb Hg Wy Wa Wb Wg Edy Edb Edg) g E Dg W G.
  assert (Near : forall idx, validIdx (dims av) idx -> Rabs (elt av idx - elt bv idx) <= thr ->
       elt yv idx = elt av idx \/ elt yv idx = elt bv idx -> elt g idx = elt gy idx * / 2).
  { intros idx Hv Hn Hyv. rewrite (G idx Hv), (eqt_near _ _ Hn).
    assert (E1 : eqt (elt yv idx) (elt av idx) = 1).
    { destruct Hyv as [-> | ->]; [apply eqt_same; exact Ht|]. apply eqt_near. rewrite Rabs_minus_sym. exact Hn. }
    rewrite E1. field. }
  split; [|exact Near].
  intros idx Hv Eab Hyv. apply (Near idx Hv).
  - rewrite Eab. replace (elt bv idx - elt bv idx) with 0 by ring. rewrite Rabs_R0. exact Ht.
  - left. rewrite <- Eab in Hyv. unfold Rmax, Rmin in Hyv.
    destruct (Rle_dec (elt av idx) (elt av idx)); destruct Hyv; assumption.
Qed.

(* analytic, away from the threshold: ElMax *)
Theorem vjp_elmax rd h y a b yv av bv gy :
  valOf h y = Some yv -> valOf h a = Some av -> valOf h b = Some bv -> gradOf h y = Some gy ->
  wf yv -> wf av -> wf bv -> wf gy -> dims yv = dims av -> dims bv = dims av -> dims gy = dims av ->
  (forall idx, validIdx (dims av) idx -> elt yv idx = Rmax (elt av idx) (elt bv idx)) ->
  0 <= thr ->
  (forall idx, validIdx (dims av) idx -> thr < Rabs (elt av idx - elt bv idx)) ->
  exists g, eval_rule rd h (RElSel y a b) = Ok g /\ dims g = dims av /\ wf g /\
    is_vjp (dims av) (dims av) (fun a' idx => Rmax (a' idx) (elt bv idx)) (elt av) (elt gy) (elt g).
Proof.
  intros Hy Ha Hb Hg Wy Wa Wb Wg Edy Edb Edg Hyv Ht Hfar.
  from_eval (relsel_eval rd h y a b yv av bv gy Hy Ha Hb Hg Wy Wa Wb Wg Edy Edb Edg) g E Dg W G.
  apply (vjp_pointwise2_l (dims av) Rmax (fun idx => if Rlt_dec (elt bv idx) (elt av idx) then 1 else 0)).
  - intros idx Hv. specialize (Hfar idx Hv).
    destruct (Rlt_dec (elt bv idx) (elt av idx)) as [L|N]; [apply d_max_gt; exact L|].
    apply d_max_lt. destruct (Req_dec (elt av idx) (elt bv idx)) as [Eab|Ne]; [|lra].
    rewrite Eab in Hfar. replace (elt bv idx - elt bv idx) with 0 in Hfar by ring. rewrite Rabs_R0 in Hfar. lra.
  - intros idx Hv. specialize (Hfar idx Hv). rewrite (G idx Hv), (Hyv idx Hv), (eqt_far _ _ Hfar).
    destruct (Rlt_dec (elt bv idx) (elt av idx)) as [L|N].
    + rewrite Rmax_left by lra. rewrite (eqt_same _ Ht). ring.
    + rewrite Rmax_right by lra. rewrite eqt_far by (rewrite Rabs_minus_sym; exact Hfar). ring.
Qed.

(* analytic, away from the threshold: ElMin *)
Theorem vjp_elmin rd h y a b yv av bv gy :
  valOf h y = Some yv -> valOf h a = Some av -> valOf h b = Some bv -> gradOf h y = Some gy ->
  wf yv -> wf av -> wf bv -> wf gy -> dims yv = dims av -> dims bv = dims av -> dims gy = dims av ->
  (forall idx, validIdx (dims av) idx -> elt yv idx = Rmin (elt av idx) (elt bv idx)) ->
  0 <= thr ->
  (forall idx, validIdx (dims av) idx -> thr < Rabs (elt av idx - elt bv idx)) ->
  exists g, eval_rule rd h (RElSel y a b) = Ok g /\ dims g = dims av /\ wf g /\
    is_vjp (dims av) (dims av) (fun a' idx => Rmin (a' idx) (elt bv idx)) (elt av) (elt gy) (elt g).
Proof.
  intros Hy Ha Hb Hg Wy Wa Wb Wg Edy Edb Edg Hyv Ht Hfar.
  from_eval (relsel_eval rd h y a b yv av bv gy Hy Ha Hb Hg Wy Wa Wb Wg Edy Edb Edg) g E Dg W G.
  apply (vjp_pointwise2_l (dims av) Rmin (fun idx => if Rlt_dec (elt av idx) (elt bv idx) then 1 else 0)).
  - intros idx Hv. specialize (Hfar idx Hv).
    destruct (Rlt_dec (elt av idx) (elt bv idx)) as [L|N]; [apply d_min_lt; exact L|].
    apply d_min_gt. destruct (Req_dec (elt av idx) (elt bv idx)) as [Eab|Ne]; [|lra].
    rewrite Eab in Hfar. replace (elt bv idx - elt bv idx) with 0 in Hfar by ring. rewrite Rabs_R0 in Hfar. lra.
  - intros idx Hv. specialize (Hfar idx Hv). rewrite (G idx Hv), (Hyv idx Hv), (eqt_far _ _ Hfar).
    destruct (Rlt_dec (elt av idx) (elt bv idx)) as [L|N].
    + rewrite Rmin_left by lra. rewrite (eqt_same _ Ht). ring.
    + rewrite Rmin_right by lra. rewrite eqt_far by (rewrite Rabs_minus_sym; exact Hfar). ring.
Qed.

(* the same rule serves the SECOND operand of ElMax(b, a) / ElMin(b, a): [h_elsel] records the edge
   (u, RElSel y u x) for  y = ElMax(x, u) *)
Corollary vjp_elmax_r rd h y a b yv av bv gy :
  valOf h y = Some yv -> valOf h a = Some av -> valOf h b = Some bv -> gradOf h y = Some gy ->
  wf yv -> wf av -> wf bv -> wf gy -> dims yv = dims av -> dims bv = dims av -> dims gy = dims av ->
  (forall idx, validIdx (dims av) idx -> elt yv idx = Rmax (elt bv idx) (elt av idx)) ->
  0 <= thr ->
  (forall idx, validIdx (dims av) idx -> thr < Rabs (elt av idx - elt bv idx)) ->
  exists g, eval_rule rd h (RElSel y a b) = Ok g /\ dims g = dims av /\ wf g /\
    is_vjp (dims av) (dims av) (fun a' idx => Rmax (elt bv idx) (a' idx)) (elt av) (elt gy) (elt g).
Proof.
  intros Hy Ha Hb Hg Wy Wa Wb Wg Edy Edb Edg Hyv Ht Hfar.
  assert (Hyv' : forall idx, validIdx (dims av) idx -> elt yv idx = Rmax (elt av idx) (elt bv idx))
    by (intros idx Hv; rewrite Rmax_comm; apply Hyv; exact Hv).
  from_eval (vjp_elmax rd h y a b yv av bv gy Hy Ha Hb Hg Wy Wa Wb Wg Edy Edb Edg Hyv' Ht Hfar) g E Dg W V.
  apply (is_vjp_ext _ _ (fun a' idx => Rmax (a' idx) (elt bv idx))); [|exact V].
  intros a' j. apply Rmax_comm.
Qed.

Corollary vjp_elmin_r rd h y a b yv av bv gy :
  valOf h y = Some yv -> valOf h a = Some av -> valOf h b = Some bv -> gradOf h y = Some gy ->
  wf yv -> wf av -> wf bv -> wf gy -> dims yv = dims av -> dims bv = dims av -> dims gy = dims av ->
  (forall idx, validIdx (dims av) idx -> elt yv idx = Rmin (elt bv idx) (elt av idx)) ->
  0 <= thr ->
  (forall idx, validIdx (dims av) idx -> thr < Rabs (elt av idx - elt bv idx)) ->
  exists g, eval_rule rd h (RElSel y a b) = Ok g /\ dims g = dims av /\ wf g /\
    is_vjp (dims av) (dims av) (fun a' idx => Rmin (elt bv idx) (a' idx)) (elt av) (elt gy) (elt g).
Proof.
  intros Hy Ha Hb Hg Wy Wa Wb Wg Edy Edb Edg Hyv Ht Hfar.
  assert (Hyv' : forall idx, validIdx (dims av) idx -> elt yv idx = Rmin (elt av idx) (elt bv idx))
    by (intros idx Hv; rewrite Rmin_comm; apply Hyv; exact Hv).
  from_eval (vjp_elmin rd h y a b yv av bv gy Hy Ha Hb Hg Wy Wa Wb Wg Edy Edb Edg Hyv' Ht Hfar) g E Dg W V.
  apply (is_vjp_ext _ _ (fun a' idx => Rmin (a' idx) (elt bv idx))); [|exact V].
  intros a' j. apply Rmin_comm.
Qed.

(* FINDING (library behaviour, not a model defect): the tie test uses the THRESHOLD equality, so at a
   near tie 0 < |a - b| <= thr — where ElMax is differentiable, with partial derivative 1 in the larger
   operand — the rule still hands each operand gy/2.  The VJP statement is false there. *)
Lemma elt_sc v : elt (mkT [] (Sc v)) [] = v.
Proof. reflexivity. Qed.

Theorem vjp_elmax_near_tie_refuted rd : 0 < thr ->
  exists (h : @heap R) y a b yv av bv gy g,
    valOf h y = Some yv /\ valOf h a = Some av /\ valOf h b = Some bv /\ gradOf h y = Some gy /\
    wf yv /\ wf av /\ wf bv /\ wf gy /\ dims yv = dims av /\ dims bv = dims av /\ dims gy = dims av /\
    (forall idx, validIdx (dims av) idx -> elt yv idx = Rmax (elt av idx) (elt bv idx)) /\
    (forall idx, validIdx (dims av) idx -> elt bv idx < elt av idx) /\   (* no tie: differentiable here *)
    eval_rule rd h (RElSel y a b) = Ok g /\
    ~ is_vjp (dims av) (dims av) (fun a' idx => Rmax (a' idx) (elt bv idx)) (elt av) (elt gy) (elt g).
Proof.
  intros Ht.
  pose (av := mkT [] (Sc thr) : T). pose (bv := mkT [] (Sc 0) : T).
  pose (yv := mkT [] (Sc (Rmax thr 0)) : T). pose (gy := mkT [] (Sc 1) : T).
  pose (h := [mkNode av true false None [] None; mkNode bv true false None [] None;
              mkNode yv true false (Some gy) [(0%nat, RElSel 2 0 1); (1%nat, RElSel 2 1 0)] None] : @heap R).
  assert (Wsc : forall v, wf (mkT [] (Sc v) : T)) by (intros v; split; cbn; [exact I|constructor]).
  assert (Hy : valOf h 2 = Some yv) by reflexivity.
  assert (Ha : valOf h 0 = Some av) by reflexivity.
  assert (Hb : valOf h 1 = Some bv) by reflexivity.
  assert (Hg : gradOf h 2 = Some gy) by reflexivity.
  assert (Hle : 0 <= thr) by lra.
  destruct (elsel_tie_formula rd h 2 0 1 yv av bv gy Hy Ha Hb Hg (Wsc _) (Wsc _) (Wsc _) (Wsc _)
              eq_refl eq_refl eq_refl Hle) as (g & E & Dg & W & _ & Near).
  assert (Vnil : validIdx (dims av) []) by constructor.
  assert (Gnil : elt g [] = / 2).
  { rewrite (Near [] Vnil).
    - unfold gy. rewrite elt_sc. ring.
    - unfold av, bv. rewrite !elt_sc. rewrite Rabs_right; lra.
    - left. unfold yv, av. rewrite !elt_sc. apply Rmax_left. lra. }
  exists h, 2%nat, 0%nat, 1%nat, yv, av, bv, gy, g.
  repeat (split; [first [reflexivity | apply Wsc | assumption]|]).
  split; [intros idx Hv; apply validIdx_nil in Hv; subst idx; reflexivity|].
  split; [intros idx Hv; apply validIdx_nil in Hv; subst idx; unfold av, bv; rewrite !elt_sc; exact Ht|].
  split; [exact E|].
  intros V. destruct (V [] Vnil) as (D & HD & Hsum).
  specialize (HD [] Vnil). unfold is_partial in HD.
  assert (H1 : is_derive (fun t => Rmax (perturb (elt av) [] t []) (elt bv [])) 0 1).
  { apply (is_derive_ext (fun t => Rmax (elt av [] + t) (elt bv []))).
    - intros t. unfold perturb. rewrite idx_eqb_refl. reflexivity.
    - apply (is_derive_shift (fun v => Rmax v (elt bv []))). apply d_max_gt.
      unfold av, bv. rewrite !elt_sc. exact Ht. }
  apply is_derive_unique in HD. apply is_derive_unique in H1. rewrite H1 in HD.
  rewrite Gnil in Hsum. change (dims av) with (@nil nat) in Hsum.
  unfold sumIdx in Hsum. cbn [allIdx map fold_right] in Hsum.
  rewrite <- HD in Hsum. unfold gy in Hsum. rewrite elt_sc in Hsum. lra.
Qed.

End VjpElem.

(* ================================================================================= *)
(* 4. examples: the hypotheses are satisfiable, the conclusions non-trivial           *)
(* ================================================================================= *)
Module VjpElemExamples.
Section Ex.
Variables (thr : R) (draw : bool -> nat -> R).
Local Hint Extern 0 (Scalar R) => exact (R_scalar thr draw) : typeclass_instances.

Definition xv : tensor R := mkT [2%nat] (Vec [Sc 1; Sc 2]).
Definition gy : tensor R := mkT [2%nat] (Vec [Sc 3; Sc 4]).
Definition yv : tensor R := mkT [2%nat] (Vec [Sc (sin 1); Sc (sin 2)]).
Definition lv : tensor R := mkT [2%nat] (Vec [Sc (ln 1); Sc (ln 2)]).

Lemma wf_vec2 (a b : R) : wf (mkT [2%nat] (Vec [Sc a; Sc b])).
Proof. split; cbn; repeat constructor. Qed.

Lemma valid2 idx : validIdx [2%nat] idx -> idx = [0%nat] \/ idx = [1%nat].
Proof.
  intros Hv. apply validIdx_cons in Hv as (i & r & -> & Hi & Hr). apply validIdx_nil in Hr; subst r.
  destruct i as [|[|i]]; [left; reflexivity|right; reflexivity|lia].
Qed.

(* the heap the tracked call  y := Sin(x)  builds on a tracked leaf, with y's gradient set to gy *)
Definition h0 : @heap R := fst (leaf [] xv true None).
Example h_math_sin : h_math h0 FSin 0 None =
  ([mkNode xv true false None [] None; mkNode yv true false None [(0%nat, RSin 1 0)] None], Ok 1%nat).
Proof. reflexivity. Qed.

Definition hS : @heap R :=
  [mkNode xv true false None [] None; mkNode yv true false (Some gy) [(0%nat, RSin 1 0)] None].

Example sin_ex rd : exists g, eval_rule rd hS (RSin 1 0) = Ok g /\ dims g = [2%nat] /\ wf g /\
  elt g [1%nat] = 4 * cos 2 /\
  is_vjp [2%nat] [2%nat] (fun a idx => sin (a idx)) (elt xv) (elt gy) (elt g).
Proof.
  destruct (rsin_eval thr draw rd hS 1 0 xv gy eq_refl eq_refl (wf_vec2 _ _) (wf_vec2 _ _) eq_refl)
    as (g & E & D & W & G).
  destruct (vjp_sin thr draw rd hS 1 0 xv gy eq_refl eq_refl (wf_vec2 _ _) (wf_vec2 _ _) eq_refl)
    as (g' & E' & _ & _ & V).
  assert (g' = g) by congruence. subst g'.
  exists g. split; [exact E|]. split; [exact D|]. split; [exact W|]. split; [|exact V].
  rewrite G by (repeat constructor). reflexivity.
Qed.

(* a guarded rule: Log on positive elements *)
Definition hL : @heap R :=
  [mkNode xv true false None [] None; mkNode lv true false (Some gy) [(0%nat, RLog 1 0)] None].
Example log_guard : forall idx, validIdx (dims xv) idx -> 0 < elt xv idx.
Proof. intros idx Hv. destruct (valid2 idx Hv) as [-> | ->]; unfold elt; cbn; lra. Qed.
Example log_ex rd : exists g, eval_rule rd hL (RLog 1 0) = Ok g /\ dims g = [2%nat] /\ wf g /\
  is_vjp [2%nat] [2%nat] (fun a idx => ln (a idx)) (elt xv) (elt gy) (elt g).
Proof.
  exact (vjp_log thr draw rd hL 1 0 xv gy eq_refl eq_refl (wf_vec2 _ _) (wf_vec2 _ _) eq_refl log_guard).
Qed.

(* Pow with exponent 2 at a tensor containing 0: x = [0; 2], gradient gy * 2x = [0; 16] *)
Definition zv : tensor R := mkT [2%nat] (Vec [Sc 0; Sc 2]).
Definition pv : tensor R := mkT [2%nat] (Vec [Sc (Rpow 0 2); Sc (Rpow 2 2)]).
Definition hP : @heap R :=
  [mkNode zv true false None [] None; mkNode pv true false (Some gy) [(0%nat, RPow 1 0 (INR 2) false)] None].
Example pow_ex rd : exists g, eval_rule rd hP (RPow 1 0 (INR 2) false) = Ok g /\ dims g = [2%nat] /\ wf g /\
  elt g [0%nat] = 0 /\ elt g [1%nat] = 16 /\
  is_vjp [2%nat] [2%nat] (fun a idx => a idx ^ 2) (elt zv) (elt gy) (elt g).
Proof.
  destruct (rpow_eval thr draw rd hP 1 0 (INR 2) zv gy eq_refl eq_refl (wf_vec2 _ _) (wf_vec2 _ _) eq_refl)
    as (g & E & D & W & G).
  destruct (vjp_pow_nat thr draw rd hP 1 0 2 zv gy eq_refl eq_refl (wf_vec2 _ _) (wf_vec2 _ _) eq_refl
              ltac:(lia)) as (g' & E' & _ & _ & _ & V).
  assert (g' = g) by congruence. subst g'.
  exists g. split; [exact E|]. split; [exact D|]. split; [exact W|].
  assert (P : forall v, Rpow v (INR 2 - 1) = v) by (intros v; rewrite (INR_pred 2) by lia; rewrite Rpow_INR; cbn; ring).
  split; [|split; [|exact V]].
  - rewrite G by (repeat constructor). rewrite P. unfold elt; cbn. ring.
  - rewrite G by (repeat constructor). rewrite P. unfold elt; cbn. ring.
Qed.
End Ex.

(* ElMax with the threshold 0: a = [1; 5], b = [2; 3], y = max = [2; 5]; gradient of a is [0; 4] *)
Section ExMax.
Variable draw : bool -> nat -> R.
Definition av : tensor R := mkT [2%nat] (Vec [Sc 1; Sc 5]).
Definition bv : tensor R := mkT [2%nat] (Vec [Sc 2; Sc 3]).
Definition mv : tensor R := mkT [2%nat] (Vec [Sc (Rmax 1 2); Sc (Rmax 5 3)]).
Definition hM : @heap R :=
  [mkNode av true false None [] None; mkNode bv true false None [] None;
   mkNode mv true false (Some gy) [(0%nat, RElSel 2 0 1); (1%nat, RElSel 2 1 0)] None].
Example elmax_ex rd : exists g, eval_rule (SA:=R_scalar 0 draw) rd hM (RElSel 2 0 1) = Ok g /\ dims g = [2%nat] /\ wf g /\
  is_vjp [2%nat] [2%nat] (fun a' idx => Rmax (a' idx) (elt bv idx)) (elt av) (elt gy) (elt g).
Proof.
  apply (vjp_elmax 0 draw rd hM 2 0 1 mv av bv gy eq_refl eq_refl eq_refl eq_refl
           (wf_vec2 _ _) (wf_vec2 _ _) (wf_vec2 _ _) (wf_vec2 _ _) eq_refl eq_refl eq_refl).
  - intros idx Hv. destruct (valid2 idx Hv) as [-> | ->]; reflexivity.
  - lra.
  - intros idx Hv. destruct (valid2 idx Hv) as [-> | ->]; unfold elt; cbn; unfold Rabs; destruct (Rcase_abs _); lra.
Qed.
End ExMax.
End VjpElemExamples.

Print Assumptions vjp_pointwise_idx.
Print Assumptions vjp_pointwise.
Print Assumptions vjp_pointwise2_l.
Print Assumptions vjp_pointwise2_r.
Print Assumptions vjp_scale.
Print Assumptions vjp_exp.
Print Assumptions vjp_log.
Print Assumptions vjp_sin.
Print Assumptions vjp_cos.
Print Assumptions vjp_tan.
Print Assumptions vjp_sinh.
Print Assumptions vjp_cosh.
Print Assumptions vjp_tanh.
Print Assumptions vjp_pow_zero.
Print Assumptions vjp_pow_nat.
Print Assumptions vjp_pow_pos.
Print Assumptions vjp_id.
Print Assumptions vjp_neg.
Print Assumptions vjp_mul.
Print Assumptions vjp_div_a.
Print Assumptions vjp_div_b.
Print Assumptions relsel_eval.
Print Assumptions elsel_tie_formula.
Print Assumptions vjp_elmax.
Print Assumptions vjp_elmin.
Print Assumptions vjp_elmax_r.
Print Assumptions vjp_elmin_r.
Print Assumptions vjp_elmax_near_tie_refuted.
