(* FillP.v — initWith over a deterministic generator is tabulation from the stream position.
   [fill_spec]: if on every state satisfying an invariant the generator yields [out s] and
   moves to [next s] (which again satisfies the invariant), then filling shape [ds] from
   state [s] yields the nested value whose element at multi-index idx is
   [out (iter next (flatIdx ds idx) s)], and leaves the state advanced by [prodn ds]. *)
From Coq Require Import List Arith ZArith Bool Lia.
From Qeep Require Import Model.Scalar Model.Nd Model.Fill Proofs.NdP.
Import ListNotations.

Section FillSpec.
Variables (A St : Type).
Variable g : St -> option (nd A * St).
Variable out : St -> nd A.
Variable next : St -> St.
Variable Inv : St -> Prop.
Hypothesis Hg : forall s, Inv s -> g s = Some (out s, next s).
Hypothesis Hnext : forall s, Inv s -> Inv (next s).

Fixpoint iter (n : nat) (s : St) : St := match n with O => s | S n' => iter n' (next s) end.

Lemma iter_add a b s : iter (a + b) s = iter b (iter a s).
Proof. revert s; induction a as [|a IH]; cbn; intros s; [reflexivity|apply IH]. Qed.

Lemma iter_inv n : forall s, Inv s -> Inv (iter n s).
Proof. induction n as [|n IH]; cbn; intros s H; [exact H|apply IH, Hnext, H]. Qed.

(* tabulation by stream position *)
Fixpoint tabS (ds : list nat) (s : St) : nd A :=
  match ds with
  | [] => out s
  | d :: r => Vec (map (fun k => tabS r (iter (k * prodn r) s)) (seq 0 d))
  end.

Lemma rep_spec (f : St -> option (nd A * St)) (h : St -> nd A) (m : nat) :
  (forall s, Inv s -> f s = Some (h s, iter m s)) ->
  forall n s, Inv s ->
    rep n f s = Some (map (fun k => h (iter (k * m) s)) (seq 0 n), iter (n * m) s).
Proof.
  intros Hf n. induction n as [|n IH]; intros s Hs; cbn [rep]; [reflexivity|].
  rewrite (Hf s Hs). cbn [obind]. rewrite (IH (iter m s) (iter_inv m s Hs)). cbn [obind].
  f_equal. f_equal.
  - cbn [seq map]. f_equal. rewrite <- seq_shift, map_map. apply map_ext. intros k.
    cbn [Nat.mul]. rewrite iter_add. reflexivity.
  - cbn [Nat.mul]. rewrite iter_add. reflexivity.
Qed.

Theorem fill_spec ds : forall s, Inv s -> fill ds g s = Some (tabS ds s, iter (prodn ds) s).
Proof.
  induction ds as [|d r IH]; intros s Hs; cbn [fill tabS prodn fold_right].
  - rewrite (Hg s Hs). cbn. reflexivity.
  - fold (prodn r). rewrite (rep_spec (fill r g) (tabS r) (prodn r) IH d s Hs). cbn [obind]. reflexivity.
Qed.

Corollary initWith_spec ds s : Inv s -> initWith ds g s = Some (tabS ds s).
Proof. intros Hs. unfold initWith. rewrite (fill_spec ds s Hs). reflexivity. Qed.

(* when the generator emits scalars, the result is the tabulation of an index function *)
Variable outA : St -> A.
Hypothesis Hout : forall s, out s = Sc (outA s).

Lemma tabS_tab ds : forall s, tabS ds s = tab ds (fun idx => outA (iter (flatIdx ds idx) s)).
Proof.
  induction ds as [|d r IH]; intros s; cbn [tabS tab].
  - rewrite Hout. reflexivity.
  - f_equal. apply map_ext. intros k. rewrite IH. apply (tab_ext A r). intros idx Hv.
    cbn [flatIdx]. rewrite iter_add. reflexivity.
Qed.

End FillSpec.
