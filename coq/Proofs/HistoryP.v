(* HistoryP.v — C08 at the level of histories:
     I.  forward values never depend on tracking: two states that differ only in tracking flags,
         spent flags, gradients and back edges produce the same value observables for every
         command that does not read a gradient, and remain such states ([step_values],
         [run_values]); corollary for the concurrent model ([reads_only_values]);
     II. in EVERY state (hence after any history) the context of the tensor a command creates
         follows the three-way rule on the contexts of its operands ([step_track_rule]),
         comparisons / gradient tensors / optimizer results are untracked ([step_untracked]).
   Everything for arbitrary [Scalar A], [rd], sealing functions and constants. *)
From Coq Require Import List Arith ZArith Bool Lia.
From Qeep Require Import Model.Scalar Model.Nd Model.Fill Model.Data Model.Valid Model.Api Model.Grad
     Model.Backprop Model.Components Model.Scenario Model.Conc.
From Qeep Require Import Proofs.NdP Proofs.TrackP Proofs.DfsP Proofs.BpFlagsP Proofs.StepP.
Import ListNotations.

Section HistoryP.
Context {A : Type} {SA : Scalar A}.
Notation T := (tensor A).
Notation heap := (@heap A).
Notation node := (@node A).
Notation rule := (@rule A).
Notation hres := (@hres A).
Notation state := (@state A).
Notation cmd := (@cmd A).
Notation obj := (@obj A).
Notation obs := (@obs A).

(* ================================================================== *)
(*  I.a  chains of tracked methods on value-equal heaps                 *)
(* ================================================================== *)
Lemma sim_bind (r1 r2 : hres) (f1 f2 : heap -> nat -> hres) :
  sim r1 r2 -> (forall h1 h2 id, erase h1 = erase h2 -> sim (f1 h1 id) (f2 h2 id)) ->
  sim (hbind r1 f1) (hbind r2 f2).
Proof.
  intros [Sr Se] Hf. destruct r1 as [h1 q1], r2 as [h2 q2]. cbn [fst snd] in *. subst q2.
  destruct q1 as [id| |]; cbn [hbind]; [apply Hf; exact Se|split; [reflexivity|exact Se]|split; [reflexivity|exact Se]].
Qed.

Lemma sim_atomically (h1 h2 : heap) (r1 r2 : hres) : erase h1 = erase h2 -> sim r1 r2 ->
  sim (atomically h1 r1) (atomically h2 r2).
Proof.
  intros E [Sr Se]. destruct r1 as [k1 q1], r2 as [k2 q2]. cbn [fst snd] in *. subst q2.
  destruct q1 as [id| |]; cbn [atomically]; split; cbn [fst snd]; auto.
Qed.

Lemma sim_fail (h1 h2 : heap) (r : res nat) : erase h1 = erase h2 -> sim (h1, r) (h2, r).
Proof. apply sim_same. Qed.

Lemma rankOf_erase (h1 h2 : heap) x : erase h1 = erase h2 -> rankOf h1 x = rankOf h2 x.
Proof. intros E. unfold rankOf. rewrite (valOf_erase_eq _ _ E). reflexivity. Qed.
Lemma dim0Of_erase (h1 h2 : heap) x : erase h1 = erase h2 -> dim0Of h1 x = dim0Of h2 x.
Proof. intros E. unfold dim0Of. rewrite (valOf_erase_eq _ _ E). reflexivity. Qed.
Lemma dim1Of_erase (h1 h2 : heap) x : erase h1 = erase h2 -> dim1Of h1 x = dim1Of h2 x.
Proof. intros E. unfold dim1Of. rewrite (valOf_erase_eq _ _ E). reflexivity. Qed.

Lemma lossArgs1_erase (h1 h2 : heap) yp yt : erase h1 = erase h2 -> lossArgs1 h1 yp yt = lossArgs1 h2 yp yt.
Proof.
  intros E. unfold lossArgs1. destruct yp as [p|]; [|reflexivity]. destruct yt as [t|]; [|reflexivity].
  rewrite (rankOf_erase _ _ p E), (rankOf_erase _ _ t E), (dim0Of_erase _ _ p E), (dim0Of_erase _ _ t E). reflexivity.
Qed.

(* the primitives (instances of TrackP's C-lemmas with identical arguments) *)
Lemma v_scale (h1 h2 : heap) x a n1 n2 : erase h1 = erase h2 -> sim (h_scale h1 x a n1) (h_scale h2 x a n2).
Proof. apply h_op1_values. Qed.
Lemma v_pow (h1 h2 : heap) x a az n1 n2 : erase h1 = erase h2 -> sim (h_pow h1 x a az n1) (h_pow h2 x a az n2).
Proof. apply h_op1_values. Qed.
Lemma v_math (h1 h2 : heap) f x n1 n2 : erase h1 = erase h2 -> sim (h_math h1 f x n1) (h_math h2 f x n2).
Proof. apply h_op1_values. Qed.
Lemma v_transpose (h1 h2 : heap) x n1 n2 : erase h1 = erase h2 -> sim (h_transpose h1 x n1) (h_transpose h2 x n2).
Proof. apply h_op1_values. Qed.
Lemma v_reshape (h1 h2 : heap) x sh n1 n2 : erase h1 = erase h2 -> sim (h_reshape h1 x sh n1) (h_reshape h2 x sh n2).
Proof. apply h_op1_values. Qed.
Lemma v_broadcast (h1 h2 : heap) x sh n1 n2 : erase h1 = erase h2 -> sim (h_broadcast h1 x sh n1) (h_broadcast h2 x sh n2).
Proof. apply h_op1_values. Qed.
Lemma v_unsqueeze (h1 h2 : heap) x d n1 n2 : erase h1 = erase h2 -> sim (h_unsqueeze h1 x d n1) (h_unsqueeze h2 x d n2).
Proof. apply h_op1_values. Qed.
Lemma v_squeeze (h1 h2 : heap) x d n1 n2 : erase h1 = erase h2 -> sim (h_squeeze h1 x d n1) (h_squeeze h2 x d n2).
Proof. apply h_op1_values. Qed.
Lemma v_flatten (h1 h2 : heap) x d n1 n2 : erase h1 = erase h2 -> sim (h_flatten h1 x d n1) (h_flatten h2 x d n2).
Proof. apply h_op1_values. Qed.
Lemma v_reduceAlong (h1 h2 : heap) r x d n1 n2 : erase h1 = erase h2 -> sim (h_reduceAlong h1 r x d n1) (h_reduceAlong h2 r x d n2).
Proof. apply h_op1_values. Qed.
Lemma v_slice (h1 h2 : heap) x idx n1 n2 : erase h1 = erase h2 -> sim (h_slice h1 x idx n1) (h_slice h2 x idx n2).
Proof. apply h_op1_values. Qed.

Ltac vchain E :=
  repeat (apply sim_bind; [|clear E; intros ? ? ? E]);
  first [apply v_scale; exact E|apply v_pow; exact E|apply v_math; exact E|apply v_unsqueeze; exact E
        |apply v_reduceAlong; exact E|apply h_matmul_values; exact E|apply h_arith_values; exact E
        |apply h_elsel_values; exact E].

Lemma v_fc_forward (h1 h2 : heap) w b xs nm : erase h1 = erase h2 -> sim (fc_forward h1 w b xs nm) (fc_forward h2 w b xs nm).
Proof.
  intros E. unfold fc_forward. destruct (oneInput xs) as [x|]; [|apply sim_fail; exact E].
  rewrite (rankOf_erase _ _ x E). destruct (negb (rankOf h2 x =? 2)); [apply sim_fail; exact E|].
  apply sim_atomically; [exact E|]. vchain E.
Qed.

Lemma v_relu (h1 h2 : heap) xs nm : erase h1 = erase h2 -> sim (relu_forward h1 xs nm) (relu_forward h2 xs nm).
Proof.
  intros E. unfold relu_forward. destruct (oneInput xs) as [x|]; [|apply sim_fail; exact E].
  apply sim_atomically; [exact E|]. vchain E.
Qed.

Lemma v_leaky (h1 h2 : heap) m xs nm : erase h1 = erase h2 -> sim (leaky_forward h1 m xs nm) (leaky_forward h2 m xs nm).
Proof.
  intros E. unfold leaky_forward. destruct (oneInput xs) as [x|]; [|apply sim_fail; exact E].
  apply sim_atomically; [exact E|]. vchain E.
Qed.

Lemma v_sigmoid (h1 h2 : heap) xs nm : erase h1 = erase h2 -> sim (sigmoid_forward h1 xs nm) (sigmoid_forward h2 xs nm).
Proof.
  intros E. unfold sigmoid_forward. destruct (oneInput xs) as [x|]; [|apply sim_fail; exact E].
  apply sim_atomically; [exact E|]. vchain E.
Qed.

Lemma v_tanh (h1 h2 : heap) xs nm : erase h1 = erase h2 -> sim (tanh_forward h1 xs nm) (tanh_forward h2 xs nm).
Proof.
  intros E. unfold tanh_forward. destruct (oneInput xs) as [x|]; [|apply sim_fail; exact E]. apply v_math. exact E.
Qed.

Lemma v_softmax (h1 h2 : heap) d xs nm : erase h1 = erase h2 -> sim (softmax_forward h1 d xs nm) (softmax_forward h2 d xs nm).
Proof.
  intros E. unfold softmax_forward. destruct (oneInput xs) as [x|]; [|apply sim_fail; exact E].
  rewrite (rankOf_erase _ _ x E). destruct (rankOf h2 x <=? d); [apply sim_fail; exact E|].
  apply sim_atomically; [exact E|]. vchain E.
Qed.

Lemma v_clip (h1 h2 : heap) x l u : erase h1 = erase h2 -> sim (clip h1 x l u) (clip h2 x l u).
Proof. intros E. unfold clip. vchain E. Qed.

Ltac vchain2 E :=
  repeat (apply sim_bind; [|clear E; intros ? ? ? E]);
  first [apply v_clip; exact E|apply v_scale; exact E|apply v_pow; exact E|apply v_math; exact E
        |apply v_reduceAlong; exact E|apply h_arith_values; exact E|apply h_elsel_values; exact E].

Lemma v_mse (h1 h2 : heap) yp yt nm : erase h1 = erase h2 -> sim (mse_compute h1 yp yt nm) (mse_compute h2 yp yt nm).
Proof.
  intros E. unfold mse_compute. rewrite (lossArgs1_erase _ _ yp yt E).
  destruct (lossArgs1 h2 yp yt) as [[p t]|]; [|apply sim_fail; exact E].
  apply sim_atomically; [exact E|]. vchain2 E.
Qed.

Lemma v_bce e1 e2 (h1 h2 : heap) yp yt nm : erase h1 = erase h2 -> sim (bce_compute e1 e2 h1 yp yt nm) (bce_compute e1 e2 h2 yp yt nm).
Proof.
  intros E. unfold bce_compute. rewrite (lossArgs1_erase _ _ yp yt E).
  destruct (lossArgs1 h2 yp yt) as [[p t]|]; [|apply sim_fail; exact E].
  apply sim_atomically; [exact E|]. vchain2 E.
Qed.

Lemma v_ce e1 e2 (h1 h2 : heap) yp yt nm : erase h1 = erase h2 -> sim (ce_compute e1 e2 h1 yp yt nm) (ce_compute e1 e2 h2 yp yt nm).
Proof.
  intros E. unfold ce_compute. destruct yp as [p|]; [|apply sim_fail; exact E]. destruct yt as [t|]; [|apply sim_fail; exact E].
  rewrite (rankOf_erase _ _ p E), (rankOf_erase _ _ t E), (dim0Of_erase _ _ p E), (dim0Of_erase _ _ t E),
          (dim1Of_erase _ _ p E), (dim1Of_erase _ _ t E).
  match goal with |- context [if ?c then _ else _] => destruct c end; [|apply sim_fail; exact E].
  apply sim_atomically; [exact E|]. vchain2 E.
Qed.

Lemma erase_snoc (h : heap) n : erase (h ++ [n]) = erase h ++ [nval n].
Proof. unfold erase. rewrite map_app. reflexivity. Qed.

Lemma v_init d1 d2 d3 d4 d5 (h1 h2 : heap) sp shape pos n1 n2 : erase h1 = erase h2 ->
  let a := init_run d1 d2 d3 d4 d5 h1 sp shape pos n1 in
  let b := init_run d1 d2 d3 d4 d5 h2 sp shape pos n2 in
  sim (fst a) (fst b) /\ snd a = snd b.
Proof.
  intros E. cbv zeta. unfold init_run. destruct (negb (init_valid d2 d3 d5 sp)); [split; [apply sim_fail; exact E|reflexivity]|].
  destruct (init_value d1 d2 d3 d4 d5 sp shape pos) as [v| |]; [|split; [apply sim_fail; exact E|reflexivity]..].
  rewrite !leaf_eq. cbn [fst snd]. split; [|reflexivity]. split; cbn [fst snd].
  - rewrite (erase_eq_length _ _ E). reflexivity.
  - rewrite !erase_snoc, E. reflexivity.
Qed.

Lemma v_fc_new d1 d2 d3 d4 d5 (h1 h2 : heap) i o wi bi pos : erase h1 = erase h2 ->
  let a := fc_new d1 d2 d3 d4 d5 h1 i o wi bi pos in
  let b := fc_new d1 d2 d3 d4 d5 h2 i o wi bi pos in
  erase (fst (fst a)) = erase (fst (fst b)) /\ snd (fst a) = snd (fst b) /\ snd a = snd b.
Proof.
  intros E. cbv zeta. unfold fc_new. destruct ((i <=? 0)%Z || (o <=? 0)%Z); [cbn; auto|].
  set (ws := match wi with Some (Some s) => s | _ => IXavierUniform (Some (i, o)) end).
  set (bs := match bi with Some (Some s) => s | _ => IFull (Some (0%Z, 0%Z)) end).
  assert (Main :
    let a := match init_run d1 d2 d3 d4 d5 h1 ws [o] pos None with
      | (k1, Ok w, pos1) =>
          match init_run d1 d2 d3 d4 d5 k1 bs [o] pos1 None with
          | (k2, Ok b, pos2) => (k2, Ok (w, b), pos2)
          | (_, Err, _) => (h1, Err, pos)
          | (_, Panic, _) => (h1, Panic, pos)
          end
      | (_, Err, _) => (h1, Err, pos)
      | (_, Panic, _) => (h1, Panic, pos)
      end in
    let b := match init_run d1 d2 d3 d4 d5 h2 ws [o] pos None with
      | (k1, Ok w, pos1) =>
          match init_run d1 d2 d3 d4 d5 k1 bs [o] pos1 None with
          | (k2, Ok b, pos2) => (k2, Ok (w, b), pos2)
          | (_, Err, _) => (h2, Err, pos)
          | (_, Panic, _) => (h2, Panic, pos)
          end
      | (_, Err, _) => (h2, Err, pos)
      | (_, Panic, _) => (h2, Panic, pos)
      end in
    erase (fst (fst a)) = erase (fst (fst b)) /\ snd (fst a) = snd (fst b) /\ snd a = snd b).
  { cbv zeta. pose proof (v_init d1 d2 d3 d4 d5 h1 h2 ws [o] pos None None E) as V1. cbv zeta in V1.
    destruct (init_run d1 d2 d3 d4 d5 h1 ws [o] pos None) as [[k1 r1] p1].
    destruct (init_run d1 d2 d3 d4 d5 h2 ws [o] pos None) as [[k2 r2] p2].
    destruct V1 as [[Vr Ve] Vp]. cbn [fst snd] in *. subst r2 p2.
    destruct r1 as [w| |]; [|cbn; auto..].
    pose proof (v_init d1 d2 d3 d4 d5 k1 k2 bs [o] p1 None None Ve) as V2. cbv zeta in V2.
    destruct (init_run d1 d2 d3 d4 d5 k1 bs [o] p1 None) as [[m1 q1] pp1].
    destruct (init_run d1 d2 d3 d4 d5 k2 bs [o] p1 None) as [[m2 q2] pp2].
    destruct V2 as [[Wr We] Wp]. cbn [fst snd] in *. subst q2 pp2.
    destruct q1 as [b| |]; cbn; auto. }
  destruct wi as [[s1|]|]; destruct bi as [[s2|]|]; try exact Main; cbn; auto.
Qed.

Lemma v_acc (h1 h2 : heap) a p t : erase h1 = erase h2 -> acc_accumulate h1 a p t = acc_accumulate h2 a p t.
Proof.
  intros E. unfold acc_accumulate. rewrite (lossArgs1_erase _ _ p t E).
  destruct (lossArgs1 h2 p t) as [[x y]|]; [|reflexivity].
  rewrite (valOf_erase_eq _ _ E x), (valOf_erase_eq _ _ E y). reflexivity.
Qed.

(* ================================================================== *)
(*  I.b  one command on two states that differ only in the contexts     *)
(* ================================================================== *)
Variable rd : bred.
Variable sealv : nat -> T -> T.
Variable sealg : nat -> option nat -> T -> T.
Variables (c_eps c_one_m_eps : A) (c_leaky c_sgd_lr dFull dUniL dUniU dNorM dNorS : dec) (c_softmax_dim : Z).
Notation step := (step rd sealv sealg c_eps c_one_m_eps c_leaky c_sgd_lr dFull dUniL dUniU dNorM dNorS c_softmax_dim).
Notation run_from := (run_from rd sealv sealg c_eps c_one_m_eps c_leaky c_sgd_lr dFull dUniL dUniU dNorM dNorS c_softmax_dim).
Notation exec := (exec rd sealv sealg c_eps c_one_m_eps c_leaky c_sgd_lr dFull dUniL dUniU dNorM dNorS c_softmax_dim).

(* same values, same environment, same position of the random source; tracking flags, spent flags,
   gradients, back edges (and node names) are unconstrained *)
Definition ssim (s1 s2 : state) : Prop :=
  erase (st_heap s1) = erase (st_heap s2) /\ st_env s1 = st_env s2 /\ st_rng s1 = st_rng s2.

Lemma ssim_refl s : ssim s s.
Proof. repeat split. Qed.

(* commands that read a gradient *)
Definition reads_grad (c : cmd) : bool :=
  match c with CGradOf _ | CSGDUpdate _ _ => true | _ => false end.

Definition Q (p1 p2 : state * obs) : Prop := ssim (fst p1) (fst p2) /\ snd p1 = snd p2.

Lemma erase_sealNode (h1 h2 : heap) id nm : erase h1 = erase h2 -> erase (sealNode sealv h1 id nm) = erase (sealNode sealv h2 id nm).
Proof.
  intros E. apply nth_error_ext_len.
  - rewrite !erase_length. unfold sealNode. rewrite !updNode_length. apply erase_eq_length. exact E.
  - intros j _. unfold erase, sealNode. rewrite !nth_error_map, !updNode_nth.
    assert (X : option_map (@nval A) (nth_error h1 j) = option_map (@nval A) (nth_error h2 j)).
    { rewrite <- !nth_error_map. fold (erase h1). fold (erase h2). rewrite E. reflexivity. }
    destruct (nth_error h1 j) as [n1|], (nth_error h2 j) as [n2|]; cbn in X |- *; try discriminate; [|reflexivity].
    inversion X as [X1]. destruct (j =? id); cbn; congruence.
Qed.

Lemma tensorObs_erase (h1 h2 : heap) id : erase h1 = erase h2 -> tensorObs h1 id = tensorObs h2 id.
Proof. intros E. unfold tensorObs. rewrite (valOf_erase_eq _ _ E). reflexivity. Qed.

Lemma Q_push s1 s2 h1 h2 o rng ob : ssim s1 s2 -> erase h1 = erase h2 -> Q (push s1 h1 o rng, ob) (push s2 h2 o rng, ob).
Proof. intros (E & Ev & Er) Eh. split; [|reflexivity]. split; [exact Eh|]. cbn. rewrite Ev. auto. Qed.

Lemma Q_plain s1 s2 o : ssim s1 s2 -> Q (plain s1 o) (plain s2 o).
Proof. intros H. unfold plain. destruct H as (E & Ev & Er). rewrite Er. apply Q_push; [repeat split; assumption|exact E]. Qed.

Lemma Q_bad s1 s2 : ssim s1 s2 -> Q (bad s1) (bad s2).
Proof. intros H. apply (Q_plain s1 s2 ObBad H). Qed.

Lemma Q_scalarObs s1 s2 r : ssim s1 s2 -> Q (scalarObs s1 r) (scalarObs s2 r).
Proof. intros H. apply Q_plain. exact H. Qed.

Lemma Q_fin s1 s2 r1 r2 : ssim s1 s2 -> sim r1 r2 -> Q (fin sealv s1 r1) (fin sealv s2 r2).
Proof.
  intros (E & Ev & Er) [Sr Se]. destruct s1 as [k1 env1 g1], s2 as [k2 env2 g2]. cbn [st_heap st_env st_rng] in *.
  subst env2 g2. unfold fin. destruct r1 as [h1 q1], r2 as [h2 q2]. cbn [fst snd st_env st_rng st_heap] in *. subst q2.
  destruct q1 as [id| |].
  - rewrite (tensorObs_erase _ _ id Se). split; [|reflexivity]. cbn [fst push st_env st_rng].
    split; [cbn [st_heap]; apply erase_sealNode; exact Se|]. cbn. split; reflexivity.
  - split; [|reflexivity]. cbn. repeat split. exact E.
  - split; [|reflexivity]. cbn. repeat split. exact E.
Qed.

Lemma Q_of_value s1 s2 v tr : ssim s1 s2 -> Q (of_value sealv s1 v tr) (of_value sealv s2 v tr).
Proof.
  intros H. pose proof H as (E & Ev & Er). unfold of_value. destruct v as [t| |]; apply Q_fin; try exact H.
  - rewrite !leaf_eq, Ev. split; cbn [fst snd]; [rewrite (erase_eq_length _ _ E); reflexivity|].
    rewrite !erase_snoc, E. reflexivity.
  - apply sim_fail. exact E.
  - apply sim_fail. exact E.
Qed.

Lemma bp_erase (sg : option nat -> T -> T) (h : heap) root h' log r : bp_topo rd sg h root = (h', log, r) -> erase h' = erase h.
Proof.
  intros E. destruct (bp_nodes rd sg h root h' log r E) as [Hl Hn].
  apply nth_error_ext_len; [rewrite !erase_length; exact Hl|].
  intros j _. unfold erase. rewrite !nth_error_map. destruct (nth_error h j) as [n|] eqn:En.
  - destruct (Hn j n En) as (n' & Hn' & V & _). rewrite Hn'. cbn. congruence.
  - assert (X : nth_error h' j = None) by (apply nth_error_None; rewrite Hl; apply nth_error_None; exact En).
    rewrite X. reflexivity.
Qed.

Ltac Q_prim E :=
  first [apply v_scale; exact E|apply v_pow; exact E|apply v_math; exact E|apply h_cmp_values; exact E
        |apply h_elsel_values; exact E|apply h_arith_values; exact E|apply h_dot_values; exact E
        |apply h_matmul_values; exact E|apply v_transpose; exact E|apply v_reshape; exact E
        |apply v_broadcast; exact E|apply v_unsqueeze; exact E|apply v_squeeze; exact E|apply v_flatten; exact E
        |apply v_reduceAlong; exact E|apply v_slice; exact E|apply h_patch_values; exact E
        |apply h_concat_values; exact E|apply v_fc_forward; exact E|apply v_relu; exact E|apply v_sigmoid; exact E
        |apply v_tanh; exact E|apply v_leaky; exact E|apply v_softmax; exact E|apply v_mse; exact E
        |apply v_bce; exact E|apply v_ce; exact E].

Ltac Q_term H E :=
  first [ apply Q_fin; [exact H|Q_prim E] | apply Q_plain; exact H | apply Q_bad; exact H
        | apply Q_of_value; exact H | apply Q_scalarObs; exact H | apply Q_push; [exact H|exact E] ].

Ltac Q_auto H E :=
  repeat first
    [ Q_term H E
    | progress rewrite !(valOf_erase_eq _ _ E)
    | progress rewrite !(fun id => tensorObs_erase _ _ id E)
    | match goal with
      | |- Q (match ?x with _ => _ end) (match ?x with _ => _ end) => destruct x eqn:?; cbv beta iota
      | |- Q (if ?x then _ else _) (if ?x then _ else _) => destruct x eqn:?
      end ].

Theorem step_values (s1 s2 : state) (c : cmd) : ssim s1 s2 -> reads_grad c = false ->
  ssim (fst (step s1 c)) (fst (step s2 c)) /\ (is_bp c = false -> snd (step s1 c) = snd (step s2 c)).
Proof.
  intros H Hc.
  destruct (is_bp c) eqn:Hb.
  { (* BackPropagate: values, environment, random source agree whatever the outcomes *)
    destruct c; try discriminate. split; [|discriminate].
    destruct H as (E & Ev & Er). destruct s1 as [k1 env g], s2 as [k2 env2 g2]. cbn [st_heap st_env st_rng] in *. subst env2 g2.
    unfold Scenario.step.
    change (lookupArg {| st_heap := k1; st_env := env; st_rng := g |}) with (lookupArg {| st_heap := k2; st_env := env; st_rng := g |}).
    destruct (lookupArg {| st_heap := k2; st_env := env; st_rng := g |} t) as [[x|]|]; cbn [st_heap st_env st_rng].
    - destruct (bp_topo rd (sealg (length env)) k1 x) as [[h1' log1] r1] eqn:B1.
      destruct (bp_topo rd (sealg (length env)) k2 x) as [[h2' log2] r2] eqn:B2.
      apply bp_erase in B1. apply bp_erase in B2.
      destruct r1 as [[]| |], r2 as [[]| |]; unfold ssim, plain; cbn [fst snd push st_heap st_env st_rng];
        (split; [congruence|split; reflexivity]).
    - unfold ssim, plain; cbn [fst snd push st_heap st_env st_rng]. split; [exact E|split; reflexivity].
    - unfold ssim, bad; cbn [fst snd push st_heap st_env st_rng]. split; [exact E|split; reflexivity]. }
  assert (G : Q (step s1 c) (step s2 c)); [|destruct G as [G1 G2]; split; [exact G1|intros _; exact G2]].
  pose proof H as (E & Ev & Er). destruct s1 as [k1 env g], s2 as [k2 env2 g2]. cbn [st_heap st_env st_rng] in E, Ev, Er. subst env2 g2.
  destruct c; try discriminate; unfold Scenario.step; cbv beta iota zeta; cbn [st_heap st_env st_rng];
    change (lookupT {| st_heap := k1; st_env := env; st_rng := g |}) with (lookupT {| st_heap := k2; st_env := env; st_rng := g |});
    change (lookupArg {| st_heap := k1; st_env := env; st_rng := g |}) with (lookupArg {| st_heap := k2; st_env := env; st_rng := g |});
    rewrite ?(valOf_erase_eq k1 k2 E), ?(fun id => tensorObs_erase k1 k2 id E).
  all: try solve [Q_auto H E].
  - (* CRandU *)
    destruct (negb (cfg_ok c)); [apply Q_plain; exact H|].
    pose proof (Q_of_value _ _ (v_randu ds (dcst l) (dcst u) (dec_lt l u) g) (cfg_track c) H) as [(G1 & G2 & G3) G4].
    destruct (of_value sealv {| st_heap := k1; st_env := env; st_rng := g |} _ _) as [s1' o1].
    destruct (of_value sealv {| st_heap := k2; st_env := env; st_rng := g |} _ _) as [s2' o2].
    cbn [fst snd] in *. subst o2. split; [|reflexivity]. cbn [fst]. repeat split; cbn [st_heap st_env st_rng]; assumption.
  - (* CRandN *)
    destruct (negb (cfg_ok c)); [apply Q_plain; exact H|].
    pose proof (Q_of_value _ _ (v_randn ds (dcst m) (dcst s) (dec_pos s) g) (cfg_track c) H) as [(G1 & G2 & G3) G4].
    destruct (of_value sealv {| st_heap := k1; st_env := env; st_rng := g |} _ _) as [s1' o1].
    destruct (of_value sealv {| st_heap := k2; st_env := env; st_rng := g |} _ _) as [s2' o2].
    cbn [fst snd] in *. subst o2. split; [|reflexivity]. cbn [fst]. repeat split; cbn [st_heap st_env st_rng]; assumption.
  - (* CReset *)
    destruct (lookupT {| st_heap := k2; st_env := env; st_rng := g |} t) as [x|]; [|apply Q_bad; exact H].
    apply Q_push; [exact H|].
    destruct (h_reset_spec k1 x tracked) as (_ & _ & _ & R1). destruct (h_reset_spec k2 x tracked) as (_ & _ & _ & R2).
    congruence.
  - (* CFCNew *)
    pose proof (v_fc_new dFull dUniL dUniU dNorM dNorS k1 k2 inputs outputs wi bi g E) as V. cbv zeta in V.
    destruct (fc_new dFull dUniL dUniU dNorM dNorS k1 inputs outputs wi bi g) as [[h1' r1] g1].
    destruct (fc_new dFull dUniL dUniU dNorM dNorS k2 inputs outputs wi bi g) as [[h2' r2] g2].
    cbn [fst snd] in V. destruct V as (V1 & V2 & V3). subst r2 g2.
    destruct r1 as [[w b]| |]; [|apply Q_plain; exact H|apply Q_plain; exact H].
    apply Q_push; assumption.
  - (* CFCSet *)
    destruct (nth_error env fc) as [[| |w b| | |]|]; try (apply Q_bad; exact H).
    destruct (lookupT {| st_heap := k2; st_env := env; st_rng := g |} t) as [x|]; [|apply Q_bad; exact H].
    split; [|reflexivity]. cbn [fst]. repeat split. exact E.
  - (* CAccumulate *)
    destruct (nth_error env acc) as [[| | | |a|]|]; try (apply Q_bad; exact H).
    destruct (lookupArg {| st_heap := k2; st_env := env; st_rng := g |} yp) as [p|]; [|apply Q_bad; exact H].
    destruct (lookupArg {| st_heap := k2; st_env := env; st_rng := g |} yt) as [t|]; [|apply Q_bad; exact H].
    rewrite (v_acc k1 k2 a p t E). destruct (acc_accumulate k2 a p t) as [a' r].
    destruct r as [u| |]; [|apply Q_plain; exact H|apply Q_plain; exact H].
    split; [|reflexivity]. cbn [fst]. repeat split. exact E.
  - (* CInit *)
    pose proof (v_init dFull dUniL dUniU dNorM dNorS k1 k2 s shape g (Some (length env)) (Some (length env)) E) as V.
    cbv zeta in V.
    destruct (init_run dFull dUniL dUniU dNorM dNorS k1 s shape g (Some (length env))) as [[h1' r1] g1].
    destruct (init_run dFull dUniL dUniU dNorM dNorS k2 s shape g (Some (length env))) as [[h2' r2] g2].
    cbn [fst snd] in V. destruct V as ([V1 V2] & V3). cbn [fst snd] in V1, V2. subst r2 g2.
    destruct r1 as [id| |]; [|apply Q_plain; exact H|apply Q_plain; exact H].
    unfold fin_rng.
    pose proof (Q_fin _ _ (h1', Ok id) (h2', Ok id) H (conj eq_refl V2)) as [(G1 & G2 & G3) G4].
    destruct (fin sealv {| st_heap := k1; st_env := env; st_rng := g |} (h1', Ok id)) as [s1' o1].
    destruct (fin sealv {| st_heap := k2; st_env := env; st_rng := g |} (h2', Ok id)) as [s2' o2].
    cbn [fst snd] in *. subst o2. split; [|reflexivity]. cbn [fst]. repeat split; cbn [st_heap st_env st_rng]; assumption.
Qed.

(* lifted to histories: same value observables at every position that is not a back-propagation *)
Fixpoint no_grad_reads (cs : list cmd) : bool :=
  match cs with [] => true | c :: r => negb (reads_grad c) && no_grad_reads r end.

Theorem exec_values (s1 s2 : state) cs : ssim s1 s2 -> no_grad_reads cs = true -> ssim (exec s1 cs) (exec s2 cs).
Proof.
  revert s1 s2. induction cs as [|c cs IH]; intros s1 s2 H Hc; cbn [StepP.exec]; [exact H|].
  cbn [no_grad_reads] in Hc. apply andb_true_iff in Hc. destruct Hc as [Hc1 Hc2]. apply negb_true_iff in Hc1.
  apply IH; [|exact Hc2]. apply (step_values s1 s2 c H Hc1).
Qed.

Theorem run_values (s1 s2 : state) cs : ssim s1 s2 -> no_grad_reads cs = true ->
  length (run_from s1 cs) = length (run_from s2 cs) /\
  forall k c, nth_error cs k = Some c -> is_bp c = false -> nth_error (run_from s1 cs) k = nth_error (run_from s2 cs) k.
Proof.
  intros H Hc. split; [rewrite !run_from_length; reflexivity|].
  intros k c Hk Hb. rewrite !(run_from_nth _ _ _ _ _ _ _ _ _ _ _ _ _ _ _ _ _ Hk). f_equal.
  assert (Hpre : no_grad_reads (firstn k cs) = true).
  { clear -Hc. revert k. induction cs as [|c0 cs IH]; intros [|k]; cbn in *; try reflexivity.
    apply andb_true_iff in Hc. destruct Hc as [H1 H2]. rewrite H1. cbn. apply IH. exact H2. }
  assert (Hck : reads_grad c = false).
  { clear -Hc Hk. revert k Hk. induction cs as [|c0 cs IH]; intros [|k] Hk; cbn in *; try discriminate.
    - inversion Hk; subst. apply andb_true_iff in Hc. destruct Hc as [H1 _]. apply negb_true_iff in H1. exact H1.
    - apply andb_true_iff in Hc. destruct Hc as [_ H2]. eapply IH; eauto. }
  apply (step_values _ _ c (exec_values s1 s2 (firstn k cs) H Hpre) Hck). exact Hb.
Qed.

(* forward-only programs (no BackPropagate, no gradient read): ALL observables coincide *)
Corollary run_values_forward (s1 s2 : state) cs : ssim s1 s2 ->
  forallb (fun c => negb (reads_grad c) && negb (is_bp c)) cs = true -> run_from s1 cs = run_from s2 cs.
Proof.
  revert s1 s2. induction cs as [|c cs IH]; intros s1 s2 H Hc; [reflexivity|].
  cbn [forallb] in Hc. apply andb_true_iff in Hc. destruct Hc as [Hc1 Hc2]. apply andb_true_iff in Hc1. destruct Hc1 as [Hr Hb].
  apply negb_true_iff in Hr. apply negb_true_iff in Hb.
  destruct (step_values s1 s2 c H Hr) as [G1 G2]. specialize (G2 Hb).
  cbn [Scenario.run_from]. destruct (step s1 c) as [s1' o1], (step s2 c) as [s2' o2]. cbn [fst snd] in *. subst o2.
  f_equal. apply IH; assumption.
Qed.

(* C20, [reads_only_shared]: a goroutine that runs forward computations only reads the VALUES of the
   shared prefix: replacing gradients, tracking flags, spent flags and back edges of the shared
   tensors (e.g. by what other goroutines' histories left there) does not change what it observes *)
Corollary reads_only_values (s1 s2 : state) prog :
  map (@nval A) (st_heap s1) = map (@nval A) (st_heap s2) -> st_env s1 = st_env s2 -> st_rng s1 = st_rng s2 ->
  forallb (fun c => negb (reads_grad c) && negb (is_bp c)) prog = true ->
  run_from s1 prog = run_from s2 prog.
Proof. intros E1 E2 E3. apply run_values_forward. repeat split; assumption. Qed.

(* the same with the syntactic class [forward_only] of Model/Conc.v *)
Corollary reads_only_shared (s1 s2 : state) prog :
  map (@nval A) (st_heap s1) = map (@nval A) (st_heap s2) -> st_env s1 = st_env s2 -> st_rng s1 = st_rng s2 ->
  forallb (@forward_only A) prog = true -> run_from s1 prog = run_from s2 prog.
Proof.
  intros E1 E2 E3 Hf. apply reads_only_values; try assumption.
  rewrite forallb_forall in Hf |- *. intros c Hc. specialize (Hf c Hc). destruct c; try discriminate; reflexivity.
Qed.

(* ================================================================== *)
(*  II.  the tracking rule in every state                               *)
(* ================================================================== *)

(* the tensor created by the command that took [s] to [s'] (the entry under the reserved name) *)
Definition created (s s' : state) : option nat :=
  match nth_error (st_env s') (length (st_env s)) with Some (OTensor id) => Some id | _ => None end.

Definition is_cmp (b : binary) : bool :=
  match b with BiEq | BiNe | BiGt | BiGe | BiLt | BiLe => true | _ => false end.

(* the operand tensors of the single-method commands that propagate gradient tracking *)
Definition operands (s : state) (c : cmd) : option (list nat) :=
  match c with
  | CScale t _ | CPow t _ | CMath _ t | CTranspose t | CReshape t _ | CBroadcast t _ | CUnsqueeze t _
  | CSqueeze t _ | CFlatten t _ | CAlong _ t _ | CSlice t _ => do x <- lookupT s t; Some [x]
  | CBin b t (Some u) => if is_cmp b then None else do x <- lookupT s t; do y <- lookupT s u; Some [x; y]
  | CDot t (Some u) | CMatMul t (Some u) | CPatch t _ (Some u) => do x <- lookupT s t; do y <- lookupT s u; Some [x; y]
  | CConcat ts _ => do args <- mapM (lookupArg s) ts; mapM (fun a => a) args
  | _ => None
  end.

Lemma fin_created (s : state) (r : heap * res nat) id : created s (fst (fin sealv s r)) = Some id ->
  exists h', r = (h', Ok id) /\ st_heap (fst (fin sealv s r)) = sealNode sealv h' id (length (st_env s)).
Proof.
  unfold created, fin. destruct r as [h' [id'| |]]; cbn [fst push st_env st_heap]; rewrite nth_error_snoc_new; try discriminate.
  intros X. inversion X; subst. exists h'. auto.
Qed.

Lemma plain_created (s : state) o : created s (fst (plain s o)) = None.
Proof. unfold created, plain. cbn [fst push st_env]. rewrite nth_error_snoc_new. reflexivity. Qed.

Lemma bad_created (s : state) : created s (fst (bad s)) = None.
Proof. apply (plain_created s ObBad). Qed.

Lemma sealNode_node (h : heap) id nm n : nth_error h id = Some n ->
  exists n', nth_error (sealNode sealv h id nm) id = Some n' /\ ntracked n' = ntracked n /\ ndirty n' = ndirty n /\
             ngrad n' = ngrad n /\ nedges n' = nedges n /\ nname n' = nname n /\ nval n' = sealv nm (nval n).
Proof.
  intros Hn. unfold sealNode. rewrite updNode_nth_same, Hn. cbn [option_map]. eexists. split; [reflexivity|].
  cbn. repeat split.
Qed.

Lemma ctx_rule_fields (h : heap) ops (n n' : node) :
  ntracked n' = ntracked n -> ndirty n' = ndirty n -> ngrad n' = ngrad n -> nedges n' = nedges n ->
  ctx_rule h ops n -> ctx_rule h ops n'.
Proof. unfold ctx_rule. intros -> -> -> ->. auto. Qed.

(* the statement for a result produced through [fin] *)
Lemma fin_rule (s : state) (r : heap * res nat) id ops :
  created s (fst (fin sealv s r)) = Some id ->
  (forall h', r = (h', Ok id) -> exists n, nth_error h' id = Some n /\ ctx_rule (st_heap s) ops n /\
                                           nname n = Some (length (st_env s))) ->
  exists n, nth_error (st_heap (fst (fin sealv s r))) id = Some n /\ ctx_rule (st_heap s) ops n /\
            nname n = Some (length (st_env s)).
Proof.
  intros Hc Hr. destruct (fin_created s r id Hc) as (h' & Er & Eh). destruct (Hr h' Er) as (n & Hn & Hrule & Hnm).
  destruct (sealNode_node h' id (length (st_env s)) n Hn) as (n' & Hn' & F1 & F2 & F3 & F4 & F5 & _).
  exists n'. rewrite Eh. split; [exact Hn'|]. split; [eapply ctx_rule_fields; eauto|congruence].
Qed.

Ltac op1_case Hops Hc :=
  match type of Hops with
  | context [lookupT ?s ?t] =>
      destruct (lookupT s t) as [x|] eqn:El; [|discriminate]; cbn [obind] in Hops; inversion Hops; subst;
      eapply fin_rule; [exact Hc|]; intros h' Er;
      unfold h_scale, h_pow, h_math, h_transpose, h_reshape, h_broadcast, h_unsqueeze, h_squeeze, h_flatten,
             h_reduceAlong, h_slice in Er;
      apply h_op1_track in Er; destruct Er as (n & Hn & Hr & Hnm & _); exists n; auto
  end.

(* C08: after ANY history (in every state), the tensor created by a tracking-propagating method is
   tracked iff some operand is tracked and none is spent, spent iff some operand is spent, has no
   gradient, and has no back edge unless it is tracked *)
Theorem step_track_rule (s : state) (c : cmd) ops id :
  operands s c = Some ops -> created s (fst (step s c)) = Some id ->
  exists n, nth_error (st_heap (fst (step s c))) id = Some n /\ ctx_rule (st_heap s) ops n /\
            nname n = Some (length (st_env s)).
Proof.
  intros Hops Hc. destruct c; cbn [operands] in Hops; try discriminate; unfold Scenario.step in Hc |- *.
  - op1_case Hops Hc.
  - op1_case Hops Hc.
  - op1_case Hops Hc.
  - (* CBin *)
    destruct u as [u|]; [|discriminate]. destruct (is_cmp b) eqn:Eb; [discriminate|].
    destruct (lookupT s t) as [x|] eqn:El; [|discriminate]. cbn [obind] in Hops.
    unfold lookupArg in Hc |- *. destruct (lookupT s u) as [y|] eqn:Eu; [|discriminate]. cbn [obind] in Hops, Hc |- *.
    inversion Hops; subst.
    destruct b; try discriminate; (eapply fin_rule; [exact Hc|]); intros h' Er;
      (first [apply h_arith_track in Er|apply h_elsel_track in Er]); destruct Er as (n & Hn & Hr & Hnm & _); exists n; auto.
  - (* CDot *)
    destruct u as [u|]; [|discriminate]. destruct (lookupT s t) as [x|] eqn:El; [|discriminate]. cbn [obind] in Hops.
    unfold lookupArg in Hc |- *. destruct (lookupT s u) as [y|] eqn:Eu; [|discriminate]. cbn [obind] in Hops, Hc |- *.
    inversion Hops; subst. eapply fin_rule; [exact Hc|]. intros h' Er.
    apply h_dot_track in Er. destruct Er as (n & Hn & Hr & Hnm & _). exists n; auto.
  - (* CMatMul *)
    destruct u as [u|]; [|discriminate]. destruct (lookupT s t) as [x|] eqn:El; [|discriminate]. cbn [obind] in Hops.
    unfold lookupArg in Hc |- *. destruct (lookupT s u) as [y|] eqn:Eu; [|discriminate]. cbn [obind] in Hops, Hc |- *.
    inversion Hops; subst. eapply fin_rule; [exact Hc|]. intros h' Er.
    apply h_matmul_track in Er. destruct Er as (n & Hn & Hr & Hnm & _). exists n; auto.
  - op1_case Hops Hc.
  - op1_case Hops Hc.
  - op1_case Hops Hc.
  - op1_case Hops Hc.
  - op1_case Hops Hc.
  - op1_case Hops Hc.
  - op1_case Hops Hc.
  - op1_case Hops Hc.
  - (* CPatch *)
    destruct u as [u|]; [|discriminate]. destruct (lookupT s t) as [x|] eqn:El; [|discriminate]. cbn [obind] in Hops.
    unfold lookupArg in Hc |- *. destruct (lookupT s u) as [y|] eqn:Eu; [|discriminate]. cbn [obind] in Hops, Hc |- *.
    inversion Hops; subst. eapply fin_rule; [exact Hc|]. intros h' Er.
    apply h_patch_track in Er. destruct Er as (n & Hn & Hr & Hnm & _). exists n; auto.
  - (* CConcat *)
    destruct (mapM (lookupArg s) ts) as [args|] eqn:Ea; [|discriminate]. cbn [obind] in Hops.
    destruct (length args <? 2); [rewrite plain_created in Hc; discriminate|].
    rewrite Hops in Hc |- *. eapply fin_rule; [exact Hc|]. intros h' Er.
    apply h_concat_track in Er. destruct Er as (n & Hn & Hr & Hnm & _). exists n; auto.
Qed.

(* anything computed from a spent tensor is untracked, spent itself, and has no back edge *)
Corollary step_spent_operand (s : state) (c : cmd) ops id x :
  operands s c = Some ops -> created s (fst (step s c)) = Some id -> In x ops -> dirtyOf (st_heap s) x = true ->
  exists n, nth_error (st_heap (fst (step s c))) id = Some n /\ ntracked n = false /\ ndirty n = true /\ nedges n = [].
Proof.
  intros Hops Hc Hx Hd. destruct (step_track_rule s c ops id Hops Hc) as (n & Hn & Hr & _).
  exists n. split; [exact Hn|]. eapply ctx_rule_dirty; eauto.
Qed.

Corollary step_tracked_iff (s : state) (c : cmd) ops id :
  operands s c = Some ops -> created s (fst (step s c)) = Some id ->
  trackedOf (st_heap (fst (step s c))) id = true <->
  (exists x, In x ops /\ trackedOf (st_heap s) x = true) /\ (forall x, In x ops -> dirtyOf (st_heap s) x = false).
Proof.
  intros Hops Hc. destruct (step_track_rule s c ops id Hops Hc) as (n & Hn & Hr & _).
  unfold trackedOf at 1. rewrite Hn. apply ctx_rule_tracked_iff. exact Hr.
Qed.

(* comparisons, gradient tensors and optimizer results are never tracked *)
Theorem step_untracked (s : state) (c : cmd) id :
  (match c with CBin b _ _ => is_cmp b | CGradOf _ => true | CSGDUpdate _ _ => true | _ => false end) = true ->
  created s (fst (step s c)) = Some id ->
  exists n, nth_error (st_heap (fst (step s c))) id = Some n /\ ntracked n = false /\ nedges n = [] /\ ngrad n = None /\
            ndirty n = (match c with CBin _ _ _ => false | _ => true end).
Proof.
  intros Hk Hc. destruct c; try discriminate; unfold Scenario.step in Hc |- *.
  - (* comparison *)
    destruct (lookupT s t) as [x|]; [|rewrite bad_created in Hc; discriminate].
    destruct (lookupArg s u) as [[y|]|]; [|rewrite plain_created in Hc; discriminate|rewrite bad_created in Hc; discriminate].
    destruct b; try discriminate; destruct (fin_created _ _ _ Hc) as (h' & Er & Eh); rewrite Eh;
      apply h_cmp_track in Er; destruct Er as (n & Hn & F1 & F2 & F3 & F4 & _);
      destruct (sealNode_node h' id (length (st_env s)) n Hn) as (n' & Hn' & G1 & G2 & G3 & G4 & _);
      exists n'; (split; [exact Hn'|]); repeat split; congruence.
  - (* Gradient() *)
    destruct (lookupT s t) as [x|]; [|rewrite bad_created in Hc; discriminate].
    destruct (gradOf (st_heap s) x) as [g|]; [|rewrite plain_created in Hc; discriminate].
    rewrite alloc_eq in Hc |- *. cbv beta iota in Hc |- *.
    destruct (fin_created _ _ _ Hc) as (h' & Er & Eh). rewrite Eh. inversion Er; subst.
    match goal with |- context [sealNode sealv (?h0 ++ [?a]) _ _] =>
      destruct (sealNode_node (h0 ++ [a]) (length h0) (length (st_env s)) a (nth_error_snoc_new h0 a))
        as (n' & Hn' & G1 & G2 & G3 & G4 & _) end.
    exists n'. split; [exact Hn'|]. cbn in *. auto.
  - (* SGD Update *)
    assert (Upd : forall k (content : option nat) (store : nat -> obj) lr,
      created s (fst (
        let (h', r) := sgd_update (st_heap s) lr content (Some (length (st_env s))) in
        match r with
        | Ok id => ({| st_heap := sealNode sealv h' id (length (st_env s));
                      st_env := setNthObj (st_env s) k (store id) ++ [OTensor id];
                      st_rng := st_rng s |}, tensorObs h' id)
        | Err => plain s ObErr
        | Panic => plain s ObPanic
        end)) = Some id ->
      exists n, nth_error (st_heap (fst (
        let (h', r) := sgd_update (st_heap s) lr content (Some (length (st_env s))) in
        match r with
        | Ok id => ({| st_heap := sealNode sealv h' id (length (st_env s));
                      st_env := setNthObj (st_env s) k (store id) ++ [OTensor id];
                      st_rng := st_rng s |}, tensorObs h' id)
        | Err => plain s ObErr
        | Panic => plain s ObPanic
        end))) id = Some n /\ ntracked n = false /\ nedges n = [] /\ ngrad n = None /\ ndirty n = true).
    { intros k content store lr. unfold sgd_update.
      destruct content as [w|]; [|intros X; rewrite plain_created in X; discriminate].
      destruct (valOf (st_heap s) w) as [wv|]; [|intros X; rewrite plain_created in X; discriminate].
      destruct (gradOf (st_heap s) w) as [g|]; [|intros X; rewrite plain_created in X; discriminate].
      match goal with |- context [match ?c with Ok _ => _ | Err => _ | Panic => _ end] => destruct c as [v| |] end;
        [|intros X; rewrite plain_created in X; discriminate..].
      rewrite alloc_eq. cbn [fst st_heap st_env]. unfold created. cbn [st_env].
      rewrite nth_error_app2 by (rewrite setNthObj_length; lia). rewrite setNthObj_length, Nat.sub_diag. cbn [nth_error].
      intros X. inversion X; subst id.
      match goal with |- context [sealNode sealv (?h0 ++ [?a]) _ _] =>
        destruct (sealNode_node (h0 ++ [a]) (length h0) (length (st_env s)) a (nth_error_snoc_new h0 a))
          as (n' & Hn' & G1 & G2 & G3 & G4 & _) end.
      exists n'. split; [exact Hn'|]. cbn in *. auto. }
    destruct (nth_error (st_env s) sgd) as [[| | |lr| |]|]; try (rewrite bad_created in Hc; discriminate).
    destruct cell as [fc|fc|cl|]; [| | |rewrite plain_created in Hc; discriminate].
    + destruct (nth_error (st_env s) fc) as [[| |w b| | |]|]; try (rewrite bad_created in Hc; discriminate).
      apply (Upd fc w (fun id => OFC (Some id) b) lr Hc).
    + destruct (nth_error (st_env s) fc) as [[| |w b| | |]|]; try (rewrite bad_created in Hc; discriminate).
      apply (Upd fc b (fun id => OFC w (Some id)) lr Hc).
    + destruct (nth_error (st_env s) cl) as [[| | | | |t]|]; try (rewrite bad_created in Hc; discriminate).
      apply (Upd cl t (fun id => OCell (Some id)) lr Hc).
Qed.

(* the same statements about the states reached by arbitrary histories from the empty state *)
Corollary history_track_rule (cs : list cmd) (c : cmd) ops id :
  let s := exec init_state cs in
  operands s c = Some ops -> created s (fst (step s c)) = Some id ->
  exists n, nth_error (st_heap (exec init_state (cs ++ [c]))) id = Some n /\ ctx_rule (st_heap s) ops n.
Proof.
  cbv zeta. intros Hops Hc. rewrite exec_app. cbn [StepP.exec].
  destruct (step_track_rule _ c ops id Hops Hc) as (n & Hn & Hr & _). exists n. auto.
Qed.

End HistoryP.

(* ================================================================== *)
(*  Examples                                                           *)
(* ================================================================== *)
Module HistoryEx.
Import TrackEx StepEx.
#[local] Existing Instance Z_scalar.
Local Open Scope Z_scope.

(* two states with the same values but different contexts: in the second one x was back-propagated
   through (spent, has a gradient) and c is tracked *)
Definition sA : @state Z := execZ init_state [CLeaf [2%nat] [3; 5] true; CLeaf [2%nat] [1; 1] false; CNop; CNop].
Definition sB : @state Z := execZ init_state [CLeaf [2%nat] [3; 5] true; CLeaf [2%nat] [1; 1] true; CBackprop (Some 0%nat); CReset 1 true].

Definition fwd : list (@cmd Z) := [CScale 0 (2, 0); CBin BiAdd 4 (Some 1%nat); CBin BiGt 0 (Some 1%nat); CReduce RdSum 5; CAct AkRelu [Some 5%nat]].

Example ex_ssim : ssim sA sB /\ StepEx.flagsOf (st_heap sA) <> StepEx.flagsOf (st_heap sB).
Proof. split; [vm_compute; repeat split|vm_compute; discriminate]. Qed.

Example ex_run_values : runZ sA fwd = runZ sB fwd /\
  runZ sA fwd = [ObTensor [2%nat] [6; 10]; ObTensor [2%nat] [7; 11]; ObTensor [2%nat] [1; 1]; ObScalar 18; ObTensor [2%nat] [7; 11]] /\
  StepEx.flagsOf (st_heap (execZ sA fwd)) <> StepEx.flagsOf (st_heap (execZ sB fwd)).
Proof.
  split; [|split; [vm_compute; reflexivity|vm_compute; discriminate]].
  apply run_values_forward; [apply ex_ssim|reflexivity].
Qed.

(* the tracking rule on the same two states: x*2 is tracked in sA; in sB it is computed from a spent tensor *)
Example ex_rule :
  trackedOf (st_heap (fst (stepZ sA (CScale 0 (2, 0))))) 2 = true /\
  trackedOf (st_heap (fst (stepZ sB (CScale 0 (2, 0))))) 2 = false /\ dirtyOf (st_heap (fst (stepZ sB (CScale 0 (2, 0))))) 2 = true.
Proof.
  split.
  - apply (step_tracked_iff RedSum idv idg 0 1 d0 d0 d0 d0 d0 d0 d0 0 sA (CScale 0 (2, 0)) [0%nat] 2 eq_refl eq_refl).
    split; [exists 0%nat; split; [left; reflexivity|reflexivity]|]. intros x [<-|[]]. reflexivity.
  - destruct (step_spent_operand RedSum idv idg 0 1 d0 d0 d0 d0 d0 d0 d0 0 sB (CScale 0 (2, 0)) [0%nat] 2 0 eq_refl eq_refl
                (or_introl eq_refl) eq_refl) as (n & Hn & H1 & H2 & _).
    unfold trackedOf, dirtyOf. rewrite Hn. auto.
Qed.
End HistoryEx.

(* ================================================================== *)
(*  III.  the flags are a function of flags, command and outcome        *)
(* ================================================================== *)
Section FlagsP.
Context {A : Type} {SA : Scalar A}.
Notation T := (tensor A).
Notation heap := (@heap A).
Notation node := (@node A).
Notation rule := (@rule A).
Notation hres := (@hres A).
Notation state := (@state A).
Notation cmd := (@cmd A).
Notation obj := (@obj A).
Notation obs := (@obs A).

(* the abstract flag state of a heap *)
Definition nflag (n : node) : bool * bool * list nat := (ntracked n, ndirty n, map fst (nedges n)).
Definition flags (h : heap) : list (bool * bool * list nat) := map nflag h.

Lemma flags_length (h : heap) : length (flags h) = length h.
Proof. apply map_length. Qed.
Lemma flags_eq_length (h1 h2 : heap) : flags h1 = flags h2 -> length h1 = length h2.
Proof. intros E. rewrite <- (flags_length h1), <- (flags_length h2), E. reflexivity. Qed.
Lemma flags_app (h l : heap) : flags (h ++ l) = flags h ++ flags l.
Proof. apply map_app. Qed.

Lemma flags_nth (h1 h2 : heap) i : flags h1 = flags h2 ->
  option_map nflag (nth_error h1 i) = option_map nflag (nth_error h2 i).
Proof. intros E. rewrite <- !nth_error_map. fold (flags h1). fold (flags h2). rewrite E. reflexivity. Qed.

Lemma flags_tracked (h1 h2 : heap) : flags h1 = flags h2 -> forall i, trackedOf h1 i = trackedOf h2 i.
Proof.
  intros E i. pose proof (flags_nth h1 h2 i E) as X. unfold trackedOf.
  destruct (nth_error h1 i) as [n1|], (nth_error h2 i) as [n2|]; cbn in X; try discriminate; [|reflexivity].
  unfold nflag in X. congruence.
Qed.
Lemma flags_dirty (h1 h2 : heap) : flags h1 = flags h2 -> forall i, dirtyOf h1 i = dirtyOf h2 i.
Proof.
  intros E i. pose proof (flags_nth h1 h2 i E) as X. unfold dirtyOf.
  destruct (nth_error h1 i) as [n1|], (nth_error h2 i) as [n2|]; cbn in X; try discriminate; [|reflexivity].
  unfold nflag in X. congruence.
Qed.
Lemma flags_targets (h1 h2 : heap) : flags h1 = flags h2 -> forall i, map fst (edgesOf h1 i) = map fst (edgesOf h2 i).
Proof.
  intros E i. pose proof (flags_nth h1 h2 i E) as X. unfold edgesOf.
  destruct (nth_error h1 i) as [n1|], (nth_error h2 i) as [n2|]; cbn in X; try discriminate; [|reflexivity].
  unfold nflag in X. congruence.
Qed.

Lemma existsb_ext' {X} (f g : X -> bool) l : (forall x, f x = g x) -> existsb f l = existsb g l.
Proof. intros H. induction l as [|a l IH]; cbn; [reflexivity|]. rewrite H, IH. reflexivity. Qed.

(* the context of a result is a function of the operands' flags and the edge targets *)
Lemma nflag_ctx (h1 h2 : heap) ops (es1 es2 : list (nat * rule)) v1 v2 n1 n2 :
  flags h1 = flags h2 -> map fst es1 = map fst es2 ->
  nflag (ctxNode v1 (mkCtx h1 ops es1) n1) = nflag (ctxNode v2 (mkCtx h2 ops es2) n2).
Proof.
  intros E Ee. unfold mkCtx.
  rewrite (existsb_ext' _ _ ops (flags_dirty h1 h2 E)), (existsb_ext' _ _ ops (flags_tracked h1 h2 E)).
  destruct (existsb (dirtyOf h2) ops); [reflexivity|]. destruct (existsb (trackedOf h2) ops); cbn; [|reflexivity].
  unfold nflag; cbn. rewrite Ee. reflexivity.
Qed.

Lemma flags_snoc_ctx (h1 h2 : heap) ops (es1 es2 : list (nat * rule)) v1 v2 n1 n2 :
  flags h1 = flags h2 -> map fst es1 = map fst es2 ->
  flags (h1 ++ [ctxNode v1 (mkCtx h1 ops es1) n1]) = flags (h2 ++ [ctxNode v2 (mkCtx h2 ops es2) n2]).
Proof.
  intros E Ee. rewrite !flags_app. rewrite E. f_equal. cbn. f_equal. apply nflag_ctx; assumption.
Qed.

(* two runs of (possibly different, value-wise) methods agree on the flags whenever both succeed *)
Definition FS (r1 r2 : hres) : Prop :=
  forall id1 id2, snd r1 = Ok id1 -> snd r2 = Ok id2 -> id1 = id2 /\ flags (fst r1) = flags (fst r2).

Lemma FS_fail_l (r1 r2 : hres) : (forall id, snd r1 <> Ok id) -> FS r1 r2.
Proof. intros H id1 id2 E1 _. exfalso. apply (H id1 E1). Qed.
Lemma FS_fail_r (r1 r2 : hres) : (forall id, snd r2 <> Ok id) -> FS r1 r2.
Proof. intros H id1 id2 _ E2. exfalso. apply (H id2 E2). Qed.

Lemma FS_bind (r1 r2 : hres) (f1 f2 : heap -> nat -> hres) :
  FS r1 r2 -> (forall h1 h2 id, flags h1 = flags h2 -> FS (f1 h1 id) (f2 h2 id)) -> FS (hbind r1 f1) (hbind r2 f2).
Proof.
  intros H Hf. destruct r1 as [h1 [i1| |]]; [|apply FS_fail_l; intros id; discriminate..].
  destruct r2 as [h2 [i2| |]]; [|apply FS_fail_r; intros id; discriminate..].
  destruct (H i1 i2 eq_refl eq_refl) as [-> E]. cbn [hbind]. apply Hf. exact E.
Qed.

Lemma FS_atomically (h1 h2 : heap) (r1 r2 : hres) : FS r1 r2 -> FS (atomically h1 r1) (atomically h2 r2).
Proof.
  intros H. destruct r1 as [k1 [i1| |]]; [|apply FS_fail_l; intros id; discriminate..].
  destruct r2 as [k2 [i2| |]]; [|apply FS_fail_r; intros id; discriminate..]. exact H.
Qed.

Lemma FS_op1 (h1 h2 : heap) x f1 f2 mk1 mk2 n1 n2 : flags h1 = flags h2 ->
  FS (h_op1 h1 x f1 mk1 n1) (h_op1 h2 x f2 mk2 n2).
Proof.
  intros E id1 id2 E1 E2.
  destruct (h_op1 h1 x f1 mk1 n1) as [k1 r1] eqn:I1. destruct (h_op1 h2 x f2 mk2 n2) as [k2 r2] eqn:I2.
  cbn [fst snd] in *. subst r1 r2. apply h_op1_inv in I1. apply h_op1_inv in I2.
  destruct I1 as (xv1 & v1 & _ & _ & -> & ->). destruct I2 as (xv2 & v2 & _ & _ & -> & ->).
  split; [apply flags_eq_length; exact E|]. apply flags_snoc_ctx; [exact E|reflexivity].
Qed.

Lemma FS_cmp (h1 h2 : heap) b1 b2 x1 x2 u1 u2 n1 n2 : flags h1 = flags h2 ->
  FS (h_cmp h1 b1 x1 u1 n1) (h_cmp h2 b2 x2 u2 n2).
Proof.
  intros E id1 id2 E1 E2.
  destruct (h_cmp h1 b1 x1 u1 n1) as [k1 r1] eqn:I1. destruct (h_cmp h2 b2 x2 u2 n2) as [k2 r2] eqn:I2.
  cbn [fst snd] in *. subst r1 r2. apply h_cmp_inv in I1. apply h_cmp_inv in I2.
  destruct I1 as (? & ? & ? & _ & _ & _ & -> & ->). destruct I2 as (? & ? & ? & _ & _ & _ & -> & ->).
  split; [apply flags_eq_length; exact E|]. rewrite !flags_app, E. reflexivity.
Qed.

Lemma FS_elsel (h1 h2 : heap) b1 b2 x u n1 n2 : flags h1 = flags h2 ->
  FS (h_elsel h1 b1 x u n1) (h_elsel h2 b2 x u n2).
Proof.
  intros E id1 id2 E1 E2.
  destruct (h_elsel h1 b1 x u n1) as [k1 r1] eqn:I1. destruct (h_elsel h2 b2 x u n2) as [k2 r2] eqn:I2.
  cbn [fst snd] in *. subst r1 r2. apply h_elsel_inv in I1. apply h_elsel_inv in I2.
  destruct I1 as (? & ? & ? & _ & _ & _ & -> & ->). destruct I2 as (? & ? & ? & _ & _ & _ & -> & ->).
  split; [apply flags_eq_length; exact E|]. apply flags_snoc_ctx; [exact E|reflexivity].
Qed.

Lemma FS_patch (h1 h2 : heap) x i1 i2 p n1 n2 : flags h1 = flags h2 ->
  FS (h_patch h1 x i1 p n1) (h_patch h2 x i2 p n2).
Proof.
  intros E id1 id2 E1 E2.
  destruct (h_patch h1 x i1 p n1) as [k1 r1] eqn:I1. destruct (h_patch h2 x i2 p n2) as [k2 r2] eqn:I2.
  cbn [fst snd] in *. subst r1 r2. apply h_patch_inv in I1. apply h_patch_inv in I2.
  destruct I1 as (? & ? & ? & _ & _ & _ & -> & ->). destruct I2 as (? & ? & ? & _ & _ & _ & -> & ->).
  split; [apply flags_eq_length; exact E|]. apply flags_snoc_ctx; [exact E|reflexivity].
Qed.

Lemma concat_targets y d (xs : list nat) (vs : list T) base : length vs = length xs ->
  map fst (concatEdges y d (combine xs vs) base) = xs.
Proof.
  intros Hl. rewrite concatEdges_map_fst. revert vs Hl. induction xs as [|x xs IH]; intros [|v vs] Hl; cbn in *; try discriminate; [reflexivity|].
  f_equal. apply IH. congruence.
Qed.

Lemma FS_concat (h1 h2 : heap) xs d1 d2 n1 n2 : flags h1 = flags h2 ->
  FS (h_concat h1 xs d1 n1) (h_concat h2 xs d2 n2).
Proof.
  intros E id1 id2 E1 E2.
  destruct (h_concat h1 xs d1 n1) as [k1 r1] eqn:I1. destruct (h_concat h2 xs d2 n2) as [k2 r2] eqn:I2.
  cbn [fst snd] in *. subst r1 r2. apply h_concat_inv in I1. apply h_concat_inv in I2.
  destruct I1 as (vs1 & ? & M1 & _ & -> & ->). destruct I2 as (vs2 & ? & M2 & _ & -> & ->).
  split; [apply flags_eq_length; exact E|]. apply flags_snoc_ctx; [exact E|].
  rewrite !concat_targets; [reflexivity|apply (mapM_length _ _ _ M2)|apply (mapM_length _ _ _ M1)].
Qed.

Lemma FS_binop (h1 h2 : heap) x u s1 s2 s1' s2' f1 f2 ed1 ed2 n1 n2 : flags h1 = flags h2 ->
  (forall y y' a1 a2, map fst (ed1 y a1 a2) = map fst (ed2 y' a1 a2)) ->
  FS (h_binop h1 x u s1 s2 f1 ed1 n1) (h_binop h2 x u s1' s2' f2 ed2 n2).
Proof.
  intros E Hed id1 id2 E1 E2.
  destruct (h_binop h1 x u s1 s2 f1 ed1 n1) as [k1 r1] eqn:I1. destruct (h_binop h2 x u s1' s2' f2 ed2 n2) as [k2 r2] eqn:I2.
  cbn [fst snd] in *. subst r1 r2. apply h_binop_inv in I1. apply h_binop_inv in I2.
  destruct I1 as (? & ? & a1 & a2 & a & _ & _ & _ & _ & _ & -> & ->).
  destruct I2 as (? & ? & b1 & b2 & b & _ & _ & _ & _ & _ & -> & ->).
  pose proof (flags_eq_length _ _ E) as L. split; [congruence|].
  assert (N1 : nflag (bnode1 h1 x a1) = nflag (bnode1 h2 x b1)).
  { unfold bnode1. apply nflag_ctx; [exact E|reflexivity]. }
  assert (F1 : flags (h1 ++ [bnode1 h1 x a1]) = flags (h2 ++ [bnode1 h2 x b1])).
  { rewrite !flags_app, E. cbn. rewrite N1. reflexivity. }
  assert (N2 : nflag (bnode2 h1 x u a1 a2) = nflag (bnode2 h2 x u b1 b2)).
  { unfold bnode2. apply nflag_ctx; [exact F1|reflexivity]. }
  assert (F2 : flags (h1 ++ [bnode1 h1 x a1] ++ [bnode2 h1 x u a1 a2]) = flags (h2 ++ [bnode1 h2 x b1] ++ [bnode2 h2 x u b1 b2])).
  { rewrite !flags_app, E. cbn. rewrite N1, N2. reflexivity. }
  assert (N3 : nflag (rnode h1 x u a1 a2 a ed1 n1) = nflag (rnode h2 x u b1 b2 b ed2 n2)).
  { unfold rnode. cbv zeta. rewrite L. apply nflag_ctx; [exact F2|apply Hed]. }
  rewrite !flags_app, E. cbn. rewrite N1, N2, N3. reflexivity.
Qed.

Lemma arith_targets b y y' a1 a2 : map fst (@arithEdges A b y a1 a2) = map fst (@arithEdges A b y' a1 a2).
Proof. destruct b; reflexivity. Qed.

Lemma FS_arith (h1 h2 : heap) b x u n1 n2 : flags h1 = flags h2 -> FS (h_arith h1 b x u n1) (h_arith h2 b x u n2).
Proof.
  intros E. unfold h_arith.
  destruct (valOf h1 x); [|apply FS_fail_l; intros id; discriminate]. destruct (valOf h1 u); [|apply FS_fail_l; intros id; discriminate].
  destruct (valOf h2 x); [|apply FS_fail_r; intros id; discriminate]. destruct (valOf h2 u); [|apply FS_fail_r; intros id; discriminate].
  apply FS_binop; [exact E|]. intros. apply arith_targets.
Qed.

Lemma FS_dot (h1 h2 : heap) x u n1 n2 : flags h1 = flags h2 -> FS (h_dot h1 x u n1) (h_dot h2 x u n2).
Proof.
  intros E. unfold h_dot.
  destruct (valOf h1 x) as [a1|]; [|apply FS_fail_l; intros id; discriminate]. destruct (valOf h1 u) as [a2|]; [|apply FS_fail_l; intros id; discriminate].
  destruct (valOf h2 x) as [b1|]; [|apply FS_fail_r; intros id; discriminate]. destruct (valOf h2 u) as [b2|]; [|apply FS_fail_r; intros id; discriminate].
  destruct (validateDotProductDims (zdims a1) (zdims a2)); [|apply FS_fail_l; intros id; discriminate].
  destruct (validateDotProductDims (zdims b1) (zdims b2)); [|apply FS_fail_r; intros id; discriminate].
  apply FS_binop; [exact E|]. intros. reflexivity.
Qed.

Lemma FS_matmul (h1 h2 : heap) x u n1 n2 : flags h1 = flags h2 -> FS (h_matmul h1 x u n1) (h_matmul h2 x u n2).
Proof.
  intros E. unfold h_matmul.
  destruct (valOf h1 x) as [a1|]; [|apply FS_fail_l; intros id; discriminate]. destruct (valOf h1 u) as [a2|]; [|apply FS_fail_l; intros id; discriminate].
  destruct (valOf h2 x) as [b1|]; [|apply FS_fail_r; intros id; discriminate]. destruct (valOf h2 u) as [b2|]; [|apply FS_fail_r; intros id; discriminate].
  destruct (validateMatMulDims (zdims a1) (zdims a2)); [|apply FS_fail_l; intros id; discriminate].
  destruct (validateMatMulDims (zdims b1) (zdims b2)); [|apply FS_fail_r; intros id; discriminate].
  apply FS_binop; [exact E|]. intros. reflexivity.
Qed.

Lemma FS_alloc0 (h1 h2 : heap) v1 v2 tr di n1 n2 : flags h1 = flags h2 ->
  FS (let '(h', id) := alloc h1 v1 (tr, di, []) n1 in (h', Ok id)) (let '(h', id) := alloc h2 v2 (tr, di, []) n2 in (h', Ok id)).
Proof.
  intros E id1 id2. rewrite !alloc_eq. cbn [fst snd]. intros X1 X2. inversion X1; inversion X2; subst.
  split; [apply flags_eq_length; exact E|]. rewrite !flags_app, E. reflexivity.
Qed.

(* --- components --- *)
Ltac fs_fail := first [apply FS_fail_l; intros ?; discriminate|apply FS_fail_r; intros ?; discriminate].

Ltac fchain E :=
  repeat (apply FS_bind; [|clear E; intros ? ? ? E]);
  first [apply FS_op1; exact E|apply FS_matmul; exact E|apply FS_arith; exact E|apply FS_elsel; exact E].

Lemma FS_fc_forward (h1 h2 : heap) w b xs n1 n2 : flags h1 = flags h2 -> FS (fc_forward h1 w b xs n1) (fc_forward h2 w b xs n2).
Proof.
  intros E. unfold fc_forward. destruct (oneInput xs) as [x|]; [|fs_fail].
  destruct (negb (rankOf h1 x =? 2)); [fs_fail|]. destruct (negb (rankOf h2 x =? 2)); [fs_fail|].
  apply FS_atomically. unfold h_unsqueeze, h_reduceAlong. fchain E.
Qed.

Lemma FS_relu (h1 h2 : heap) xs n1 n2 : flags h1 = flags h2 -> FS (relu_forward h1 xs n1) (relu_forward h2 xs n2).
Proof.
  intros E. unfold relu_forward. destruct (oneInput xs) as [x|]; [|fs_fail].
  apply FS_atomically. unfold h_scale. fchain E.
Qed.

Lemma FS_leaky (h1 h2 : heap) m1 m2 xs n1 n2 : flags h1 = flags h2 -> FS (leaky_forward h1 m1 xs n1) (leaky_forward h2 m2 xs n2).
Proof.
  intros E. unfold leaky_forward. destruct (oneInput xs) as [x|]; [|fs_fail].
  apply FS_atomically. unfold h_scale. fchain E.
Qed.

Lemma FS_sigmoid (h1 h2 : heap) xs n1 n2 : flags h1 = flags h2 -> FS (sigmoid_forward h1 xs n1) (sigmoid_forward h2 xs n2).
Proof.
  intros E. unfold sigmoid_forward. destruct (oneInput xs) as [x|]; [|fs_fail].
  apply FS_atomically. unfold h_scale, h_pow, h_math. fchain E.
Qed.

Lemma FS_tanh (h1 h2 : heap) xs n1 n2 : flags h1 = flags h2 -> FS (tanh_forward h1 xs n1) (tanh_forward h2 xs n2).
Proof.
  intros E. unfold tanh_forward. destruct (oneInput xs) as [x|]; [|fs_fail]. unfold h_math. apply FS_op1. exact E.
Qed.

Lemma FS_softmax (h1 h2 : heap) d xs n1 n2 : flags h1 = flags h2 -> FS (softmax_forward h1 d xs n1) (softmax_forward h2 d xs n2).
Proof.
  intros E. unfold softmax_forward. destruct (oneInput xs) as [x|]; [|fs_fail].
  destruct (rankOf h1 x <=? d); [fs_fail|]. destruct (rankOf h2 x <=? d); [fs_fail|].
  apply FS_atomically. unfold h_unsqueeze, h_reduceAlong, h_math. fchain E.
Qed.

Lemma FS_clip (h1 h2 : heap) x l1 u1 l2 u2 : flags h1 = flags h2 -> FS (clip h1 x l1 u1) (clip h2 x l2 u2).
Proof. intros E. unfold clip, h_scale, h_pow. fchain E. Qed.

Ltac fchain2 E :=
  repeat (apply FS_bind; [|clear E; intros ? ? ? E]);
  first [apply FS_clip; exact E|apply FS_op1; exact E|apply FS_arith; exact E|apply FS_elsel; exact E].

Lemma lossArgs1_some (h : heap) yp yt p t : lossArgs1 h yp yt = Some (p, t) -> yp = Some p /\ yt = Some t.
Proof.
  unfold lossArgs1. destruct yp as [p'|]; [|discriminate]. destruct yt as [t'|]; [|discriminate].
  destruct (_ && _); [|discriminate]. intros X. inversion X; subst. auto.
Qed.

Lemma FS_mse (h1 h2 : heap) yp yt n1 n2 : flags h1 = flags h2 -> FS (mse_compute h1 yp yt n1) (mse_compute h2 yp yt n2).
Proof.
  intros E. unfold mse_compute.
  destruct (lossArgs1 h1 yp yt) as [[p t]|] eqn:L1; [|fs_fail]. destruct (lossArgs1 h2 yp yt) as [[p' t']|] eqn:L2; [|fs_fail].
  apply lossArgs1_some in L1. apply lossArgs1_some in L2. destruct L1 as [-> ->]. destruct L2 as [X1 X2]. inversion X1; inversion X2; subst.
  apply FS_atomically. unfold h_pow, h_reduceAlong. fchain2 E.
Qed.

Lemma FS_bce e1 e2 e1' e2' (h1 h2 : heap) yp yt n1 n2 : flags h1 = flags h2 ->
  FS (bce_compute e1 e2 h1 yp yt n1) (bce_compute e1' e2' h2 yp yt n2).
Proof.
  intros E. unfold bce_compute.
  destruct (lossArgs1 h1 yp yt) as [[p t]|] eqn:L1; [|fs_fail]. destruct (lossArgs1 h2 yp yt) as [[p' t']|] eqn:L2; [|fs_fail].
  apply lossArgs1_some in L1. apply lossArgs1_some in L2. destruct L1 as [-> ->]. destruct L2 as [X1 X2]. inversion X1; inversion X2; subst.
  apply FS_atomically. unfold h_pow, h_reduceAlong, h_math, h_scale. fchain2 E.
Qed.

Lemma FS_ce e1 e2 e1' e2' (h1 h2 : heap) yp yt n1 n2 : flags h1 = flags h2 ->
  FS (ce_compute e1 e2 h1 yp yt n1) (ce_compute e1' e2' h2 yp yt n2).
Proof.
  intros E. unfold ce_compute. destruct yp as [p|]; [|fs_fail]. destruct yt as [t|]; [|fs_fail].
  match goal with |- FS (if ?c then _ else _) _ => destruct c end; [|fs_fail].
  match goal with |- FS _ (if ?c then _ else _) => destruct c end; [|fs_fail].
  apply FS_atomically. unfold h_pow, h_reduceAlong, h_math, h_scale. fchain2 E.
Qed.

Lemma FS_sgd (h1 h2 : heap) lr1 lr2 cell n1 n2 : flags h1 = flags h2 -> FS (sgd_update h1 lr1 cell n1) (sgd_update h2 lr2 cell n2).
Proof.
  intros E. unfold sgd_update. destruct cell as [w|]; [|fs_fail].
  destruct (valOf h1 w); [|fs_fail]. destruct (gradOf h1 w); [|fs_fail].
  destruct (valOf h2 w); [|fs_fail]. destruct (gradOf h2 w); [|fs_fail].
  match goal with |- FS (match ?c with Ok _ => _ | Err => _ | Panic => _ end) _ => destruct c end; [|fs_fail..].
  match goal with |- FS _ (match ?c with Ok _ => _ | Err => _ | Panic => _ end) => destruct c end; [|fs_fail..].
  apply FS_alloc0. exact E.
Qed.

Lemma F_init d1 d2 d3 d4 d5 (h1 h2 : heap) sp shape p1 p2 n1 n2 k1 k2 i1 i2 q1 q2 : flags h1 = flags h2 ->
  init_run d1 d2 d3 d4 d5 h1 sp shape p1 n1 = (k1, Ok i1, q1) ->
  init_run d1 d2 d3 d4 d5 h2 sp shape p2 n2 = (k2, Ok i2, q2) -> i1 = i2 /\ flags k1 = flags k2.
Proof.
  intros E. unfold init_run. destruct (negb (init_valid d2 d3 d5 sp)); [discriminate|].
  destruct (init_value d1 d2 d3 d4 d5 sp shape p1) as [v1| |]; try discriminate.
  destruct (init_value d1 d2 d3 d4 d5 sp shape p2) as [v2| |]; try discriminate.
  rewrite !leaf_eq. intros X1 X2. inversion X1; inversion X2; subst.
  split; [apply flags_eq_length; exact E|]. rewrite !flags_app, E. reflexivity.
Qed.

Lemma F_fc_new d1 d2 d3 d4 d5 (h1 h2 : heap) i o wi bi p1 p2 k1 k2 wb1 wb2 q1 q2 : flags h1 = flags h2 ->
  fc_new d1 d2 d3 d4 d5 h1 i o wi bi p1 = (k1, Ok wb1, q1) ->
  fc_new d1 d2 d3 d4 d5 h2 i o wi bi p2 = (k2, Ok wb2, q2) -> wb1 = wb2 /\ flags k1 = flags k2.
Proof.
  intros E. unfold fc_new. destruct ((i <=? 0)%Z || (o <=? 0)%Z); [discriminate|].
  set (ws := match wi with Some (Some s) => s | _ => IXavierUniform (Some (i, o)) end).
  set (bs := match bi with Some (Some s) => s | _ => IFull (Some (0%Z, 0%Z)) end).
  assert (Main :
    match init_run d1 d2 d3 d4 d5 h1 ws [o] p1 None with
      | (m1, Ok w, pos1) =>
          match init_run d1 d2 d3 d4 d5 m1 bs [o] pos1 None with
          | (m2, Ok b, pos2) => (m2, Ok (w, b), pos2)
          | (_, Err, _) => (h1, Err, p1)
          | (_, Panic, _) => (h1, Panic, p1)
          end
      | (_, Err, _) => (h1, Err, p1)
      | (_, Panic, _) => (h1, Panic, p1)
      end = (k1, Ok wb1, q1) ->
    match init_run d1 d2 d3 d4 d5 h2 ws [o] p2 None with
      | (m1, Ok w, pos1) =>
          match init_run d1 d2 d3 d4 d5 m1 bs [o] pos1 None with
          | (m2, Ok b, pos2) => (m2, Ok (w, b), pos2)
          | (_, Err, _) => (h2, Err, p2)
          | (_, Panic, _) => (h2, Panic, p2)
          end
      | (_, Err, _) => (h2, Err, p2)
      | (_, Panic, _) => (h2, Panic, p2)
      end = (k2, Ok wb2, q2) -> wb1 = wb2 /\ flags k1 = flags k2).
  { destruct (init_run d1 d2 d3 d4 d5 h1 ws [o] p1 None) as [[m1 [w1| |]] pp1] eqn:I1; try discriminate.
    destruct (init_run d1 d2 d3 d4 d5 h2 ws [o] p2 None) as [[m2 [w2| |]] pp2] eqn:I2; try discriminate.
    destruct (F_init _ _ _ _ _ _ _ _ _ _ _ _ _ _ _ _ _ _ _ E I1 I2) as [-> E'].
    destruct (init_run d1 d2 d3 d4 d5 m1 bs [o] pp1 None) as [[mm1 [b1| |]] ppp1] eqn:J1; try discriminate.
    destruct (init_run d1 d2 d3 d4 d5 m2 bs [o] pp2 None) as [[mm2 [b2| |]] ppp2] eqn:J2; try discriminate.
    destruct (F_init _ _ _ _ _ _ _ _ _ _ _ _ _ _ _ _ _ _ _ E' J1 J2) as [-> E''].
    intros X1 X2. inversion X1; inversion X2; subst. auto. }
  destruct wi as [[s1|]|]; destruct bi as [[s2|]|]; try exact Main; discriminate.
Qed.

(* --- ResetGradContext, sealing, back-propagation --- *)
Lemma flags_updNode_same (h : heap) i f : (forall n, nflag (f n) = nflag n) -> flags (updNode h i f) = flags h.
Proof.
  intros Hf. apply nth_error_ext_len; [rewrite !flags_length; apply updNode_length|].
  intros j _. unfold flags. rewrite !nth_error_map, updNode_nth. destruct (nth_error h j) as [n|]; [|reflexivity].
  cbn. destruct (j =? i); [rewrite Hf|]; reflexivity.
Qed.

Lemma flags_reset (h1 h2 : heap) x b : flags h1 = flags h2 -> flags (h_reset h1 x b) = flags (h_reset h2 x b).
Proof.
  intros E. apply nth_error_ext_len.
  - rewrite !flags_length. unfold h_reset. rewrite !updNode_length. apply flags_eq_length. exact E.
  - intros j _. unfold flags, h_reset. rewrite !nth_error_map, !updNode_nth.
    pose proof (flags_nth h1 h2 j E) as X.
    destruct (nth_error h1 j) as [n1|], (nth_error h2 j) as [n2|]; cbn in X |- *; try discriminate; [|reflexivity].
    destruct (j =? x); [reflexivity|]. congruence.
Qed.

Definition dflag (b : bool) (f : bool * bool * list nat) : bool * bool * list nat :=
  if b then (fst (fst f), true, snd f) else f.

Lemma flags_markDirty_nth (h : heap) l j :
  nth_error (flags (markDirty h l)) j = option_map (dflag (memb j l)) (nth_error (flags h) j).
Proof.
  unfold flags. rewrite !nth_error_map, markDirty_nth. destruct (nth_error h j) as [n|]; [|reflexivity].
  cbn. destruct (memb j l); reflexivity.
Qed.

Lemma flags_markDirty (h1 h2 : heap) l : flags h1 = flags h2 -> flags (markDirty h1 l) = flags (markDirty h2 l).
Proof.
  intros E. apply nth_error_ext_len.
  - rewrite !flags_length, !markDirty_length. apply flags_eq_length. exact E.
  - intros j _. rewrite !flags_markDirty_nth, E. reflexivity.
Qed.

Lemma flags_markDirty_nil (h : heap) : flags (markDirty h []) = flags h.
Proof.
  apply nth_error_ext_len; [rewrite !flags_length; apply markDirty_length|].
  intros j _. rewrite flags_markDirty_nth. cbn. destruct (nth_error (flags h) j); reflexivity.
Qed.

Lemma same_skel_flags (h h' : heap) : same_skel h h' -> flags h = flags h'.
Proof.
  intros E. unfold same_skel in E. unfold flags.
  assert (X : forall k : heap, map nflag k = map (fun sk : T * bool * bool * list (nat * rule) * option nat =>
              (snd (fst (fst (fst sk))), snd (fst (fst sk)), map fst (snd (fst sk)))) (map skel k)).
  { intros k. rewrite map_map. apply map_ext. intros n. reflexivity. }
  rewrite !X, E. reflexivity.
Qed.

Lemma fold_left_targets {S} (F : nat -> S -> S) (es : list (nat * rule)) (init : S) :
  fold_left (fun s e => F (fst e) s) es init = fold_left (fun s t => F t s) (map fst es) init.
Proof. revert init. induction es as [|e es IH]; intros init; cbn; [reflexivity|apply IH]. Qed.

Lemma dfs_flags (h1 h2 : heap) : flags h1 = flags h2 -> forall fuel n st, dfs fuel h1 n st = dfs fuel h2 n st.
Proof.
  intros E. induction fuel as [|f IH]; intros n st; [reflexivity|]. cbn [dfs].
  rewrite (flags_tracked _ _ E n). destruct (negb (trackedOf h2 n) || memb n (fst st)); [reflexivity|].
  rewrite !(fold_left_targets (fun t s => dfs f _ t s)). rewrite (flags_targets _ _ E n).
  assert (X : forall l init, fold_left (fun s t => dfs f h1 t s) l init = fold_left (fun s t => dfs f h2 t s) l init).
  { induction l as [|t l IHl]; intros init; cbn; [reflexivity|]. rewrite IH. apply IHl. }
  rewrite X. reflexivity.
Qed.

(* the visiting order of a back-propagation is a function of the flags *)
Lemma topoOrder_flags (h1 h2 : heap) x : flags h1 = flags h2 -> topoOrder h1 x = topoOrder h2 x.
Proof. intros E. unfold topoOrder. rewrite (dfs_flags h1 h2 E). reflexivity. Qed.

Lemma bp_flags_ok rd sg (h : heap) root h' log : bp_topo rd sg h root = (h', log, Ok tt) ->
  flags h' = flags (markDirty h (topoOrder h root)).
Proof.
  unfold bp_topo. destruct (trackedOf h root) eqn:Ht; cbn [negb].
  2:{ intros X. inversion X; subst. rewrite topoOrder_untracked by exact Ht. symmetry. apply flags_markDirty_nil. }
  set (order := topoOrder h root). set (h1 := markDirty h order).
  destruct (valOf h1 root) as [rv|]; [|discriminate].
  destruct (toOnes rv) as [ones| |]; [|discriminate..].
  destruct (accumulate h1 root ones) as [h2 r2] eqn:Ea. apply accumulate_ok in Ea. destruct Ea as [(Sa & _) _].
  destruct r2 as [u| |]; [|discriminate..]. intros E.
  assert (Htriv : forall (n : nat) (e : nat * rule), True -> In e (edgesOf h1 n) -> trackedOf h1 (fst e) = true -> True) by auto.
  destruct (fold_nodes_frame rd sg (fun _ => True) h1 Htriv order h2 [] (Ok tt) h' log (Ok tt)
              (same_skel_sym _ _ Sa) (fun _ _ => I) E) as ((Sf & _) & _).
  symmetry. apply same_skel_flags. eapply same_skel_trans; eauto.
Qed.

(* ================================================================== *)
(*  the state level                                                    *)
(* ================================================================== *)
Variable rd : bred.
Variable sealv : nat -> T -> T.
Variable sealg : nat -> option nat -> T -> T.
Variables (c_eps c_one_m_eps : A) (c_leaky c_sgd_lr dFull dUniL dUniU dNorM dNorS : dec) (c_softmax_dim : Z).
Notation step := (step rd sealv sealg c_eps c_one_m_eps c_leaky c_sgd_lr dFull dUniL dUniU dNorM dNorS c_softmax_dim).
Notation exec := (exec rd sealv sealg c_eps c_one_m_eps c_leaky c_sgd_lr dFull dUniL dUniU dNorM dNorS c_softmax_dim).

(* API objects up to their numeric payload *)
Inductive oshape := SNone | STensor (id : nat) | SFC (w b : option nat) | SSGD | SAcc | SCell (t : option nat).
Definition shapeOf (o : obj) : oshape :=
  match o with
  | ONone => SNone | OTensor id => STensor id | OFC w b => SFC w b | OSGD _ => SSGD | OAcc _ => SAcc | OCell t => SCell t
  end.

Definition fssim (s1 s2 : state) : Prop :=
  flags (st_heap s1) = flags (st_heap s2) /\ map shapeOf (st_env s1) = map shapeOf (st_env s2).

(* the shape-level outcome of a command: did the call deliver its result? *)
Definition okObs (o : obs) : bool := match o with ObErr | ObPanic | ObBad | ObNil => false | _ => true end.

Definition G (p1 p2 : state * obs) : Prop := okObs (snd p1) = okObs (snd p2) -> fssim (fst p1) (fst p2).

Lemma shape_nth (e1 e2 : list obj) k : map shapeOf e1 = map shapeOf e2 ->
  option_map shapeOf (nth_error e1 k) = option_map shapeOf (nth_error e2 k).
Proof. intros E. rewrite <- !nth_error_map, E. reflexivity. Qed.

Lemma shape_length (e1 e2 : list obj) : map shapeOf e1 = map shapeOf e2 -> length e1 = length e2.
Proof. intros E. rewrite <- (map_length shapeOf e1), <- (map_length shapeOf e2), E. reflexivity. Qed.

Lemma lookupT_shape (s1 s2 : state) : map shapeOf (st_env s1) = map shapeOf (st_env s2) -> forall t, lookupT s1 t = lookupT s2 t.
Proof.
  intros E t. unfold lookupT. pose proof (shape_nth _ _ t E) as X.
  destruct (nth_error (st_env s1) t) as [[]|], (nth_error (st_env s2) t) as [[]|]; cbn in X; try discriminate; try reflexivity.
  congruence.
Qed.

Lemma lookupArg_shape (s1 s2 : state) : map shapeOf (st_env s1) = map shapeOf (st_env s2) -> forall a, lookupArg s1 a = lookupArg s2 a.
Proof. intros E [t|]; [|reflexivity]. unfold lookupArg. rewrite (lookupT_shape s1 s2 E). reflexivity. Qed.

Lemma lookupArgs_shape (s1 s2 : state) : map shapeOf (st_env s1) = map shapeOf (st_env s2) ->
  forall ts, mapM (lookupArg s1) ts = mapM (lookupArg s2) ts.
Proof. intros E ts. apply mapM_ext. intros a _. apply lookupArg_shape. exact E. Qed.

Lemma shape_snoc (e1 e2 : list obj) o1 o2 : map shapeOf e1 = map shapeOf e2 -> shapeOf o1 = shapeOf o2 ->
  map shapeOf (e1 ++ [o1]) = map shapeOf (e2 ++ [o2]).
Proof. intros E Eo. rewrite !map_app, E. cbn. rewrite Eo. reflexivity. Qed.

Lemma shape_setNth (e1 e2 : list obj) k o1 o2 : map shapeOf e1 = map shapeOf e2 -> shapeOf o1 = shapeOf o2 ->
  map shapeOf (setNthObj e1 k o1) = map shapeOf (setNthObj e2 k o2).
Proof.
  intros E Eo. apply nth_error_ext_len.
  - rewrite !map_length, !setNthObj_length. apply shape_length. exact E.
  - intros j _. rewrite !nth_error_map, !setNthObj_nth. pose proof (shape_nth _ _ j E) as X.
    destruct (nth_error e1 j) as [a|], (nth_error e2 j) as [b|]; cbn in X |- *; try discriminate; [|reflexivity].
    destruct (j =? k); congruence.
Qed.

Lemma flags_sealNode (h : heap) id nm : flags (sealNode sealv h id nm) = flags h.
Proof. apply flags_updNode_same. reflexivity. Qed.

Lemma G_push s1 s2 h1 h2 o1 o2 g1 g2 b1 b2 : fssim s1 s2 -> flags h1 = flags h2 -> shapeOf o1 = shapeOf o2 ->
  G (push s1 h1 o1 g1, b1) (push s2 h2 o2 g2, b2).
Proof. intros [E Ev] Eh Eo _. split; [exact Eh|]. cbn. apply shape_snoc; assumption. Qed.

Lemma G_plain s1 s2 o1 o2 : fssim s1 s2 -> G (plain s1 o1) (plain s2 o2).
Proof. intros H. apply G_push; [exact H|apply H|reflexivity]. Qed.

Lemma okw_tensorObs (h : heap) (r : hres) k id : okw h r -> r = (k, Ok id) -> okObs (tensorObs k id) = true.
Proof.
  intros (_ & Hid & _) ->. destruct (Hid id eq_refl) as [_ L]. cbn [fst] in L.
  unfold tensorObs, valOf. destruct (lt_nth_some k id ltac:(lia)) as [n Hn]. rewrite Hn. reflexivity.
Qed.

Lemma G_fin s1 s2 r1 r2 : fssim s1 s2 -> okw (st_heap s1) r1 -> okw (st_heap s2) r2 -> FS r1 r2 ->
  G (fin sealv s1 r1) (fin sealv s2 r2).
Proof.
  intros H W1 W2 HF. pose proof H as [E Ev]. unfold fin.
  destruct r1 as [k1 [i1| |]] eqn:R1, r2 as [k2 [i2| |]] eqn:R2;
    try (apply G_push; [exact H|exact E|reflexivity]).
  - destruct (HF i1 i2 eq_refl eq_refl) as [-> Ek]. cbn [fst] in Ek.
    apply G_push; [exact H| |reflexivity]. rewrite !flags_sealNode. exact Ek.
  - intros X. cbn [snd] in X. rewrite (okw_tensorObs _ _ _ _ W1 eq_refl) in X. discriminate.
  - intros X. cbn [snd] in X. rewrite (okw_tensorObs _ _ _ _ W1 eq_refl) in X. discriminate.
  - intros X. cbn [snd] in X. rewrite (okw_tensorObs _ _ _ _ W2 eq_refl) in X. discriminate.
  - intros X. cbn [snd] in X. rewrite (okw_tensorObs _ _ _ _ W2 eq_refl) in X. discriminate.
Qed.

Lemma G_fin_plain s1 s2 r1 o : fssim s1 s2 -> okw (st_heap s1) r1 -> okObs o = false -> G (fin sealv s1 r1) (plain s2 o).
Proof.
  intros H W1 Ho. pose proof H as [E Ev]. unfold fin. destruct r1 as [k1 [i1| |]] eqn:R1; try (apply G_plain; exact H).
  intros X. cbn [snd plain] in X. rewrite (okw_tensorObs _ _ _ _ W1 eq_refl), Ho in X. discriminate.
Qed.

Lemma G_plain_fin s1 s2 r2 o : fssim s1 s2 -> okw (st_heap s2) r2 -> okObs o = false -> G (plain s1 o) (fin sealv s2 r2).
Proof.
  intros H W2 Ho. pose proof H as [E Ev]. unfold fin. destruct r2 as [k2 [i2| |]] eqn:R2; try (apply G_plain; exact H).
  intros X. cbn [snd plain] in X. rewrite (okw_tensorObs _ _ _ _ W2 eq_refl), Ho in X. discriminate.
Qed.

Lemma G_of_value s1 s2 v1 v2 tr : fssim s1 s2 -> G (of_value sealv s1 v1 tr) (of_value sealv s2 v2 tr).
Proof.
  intros H. unfold of_value.
  assert (Ff : forall s : state, forall r : res nat, (forall id, r <> Ok id) -> okw (st_heap s) (st_heap s, r)).
  { intros s r Hr. apply okw_fail. exact Hr. }
  destruct v1 as [t1| |], v2 as [t2| |]; apply G_fin; try exact H;
    try (unfold leaf; apply okw_alloc0); try (apply okw_fail; intros ?; discriminate);
    try (apply FS_fail_l; intros ?; discriminate); try (apply FS_fail_r; intros ?; discriminate).
  unfold leaf. apply FS_alloc0. apply H.
Qed.

Ltac okw_all :=
  first [apply okw_scale|apply okw_pow|apply okw_math|apply okw_cmp|apply okw_elsel|apply okw_arith|apply okw_dot
        |apply okw_matmul|apply okw_transpose|apply okw_reshape|apply okw_broadcast|apply okw_unsqueeze
        |apply okw_squeeze|apply okw_flatten|apply okw_reduceAlong|apply okw_slice|apply okw_patch|apply okw_concat
        |apply okw_fc_forward|apply okw_relu|apply okw_sigmoid|apply okw_tanh|apply okw_leaky|apply okw_softmax
        |apply okw_mse|apply okw_bce|apply okw_ce|apply okw_alloc0].

Ltac FS_all E :=
  first [apply FS_cmp; exact E|apply FS_elsel; exact E|apply FS_arith; exact E|apply FS_dot; exact E
        |apply FS_matmul; exact E|apply FS_patch; exact E|apply FS_concat; exact E
        |apply FS_fc_forward; exact E|apply FS_relu; exact E|apply FS_sigmoid; exact E|apply FS_tanh; exact E
        |apply FS_leaky; exact E|apply FS_softmax; exact E|apply FS_mse; exact E|apply FS_bce; exact E|apply FS_ce; exact E
        |apply FS_alloc0; exact E
        |unfold h_scale, h_pow, h_math, h_transpose, h_reshape, h_broadcast, h_unsqueeze, h_squeeze, h_flatten,
                h_reduceAlong, h_slice; apply FS_op1; exact E].

Ltac G_term H E :=
  first [ apply G_fin; [exact H|okw_all|okw_all|FS_all E]
        | apply G_plain; exact H
        | apply G_of_value; exact H
        | apply G_fin_plain; [exact H|okw_all|reflexivity]
        | apply G_plain_fin; [exact H|okw_all|reflexivity]
        | apply G_push; [exact H|exact E|reflexivity] ].

Ltac G_auto H E RW :=
  repeat first
    [ G_term H E
    | progress RW
    | match goal with
      | |- G (match ?x with _ => _ end) _ => destruct x eqn:?; cbv beta iota
      | |- G (if ?x then _ else _) _ => destruct x eqn:?
      | |- G _ (match ?x with _ => _ end) => destruct x eqn:?; cbv beta iota
      | |- G _ (if ?x then _ else _) => destruct x eqn:?
      end ].

(* C08, history level: the flags after a command are a function of the flags before, the
   command and the shape-level outcome; values enter only through whether the call succeeded *)
Theorem step_flags (s1 s2 : state) (c : cmd) : fssim s1 s2 ->
  okObs (snd (step s1 c)) = okObs (snd (step s2 c)) -> fssim (fst (step s1 c)) (fst (step s2 c)).
Proof.
  intros H. change (G (step s1 c) (step s2 c)). pose proof H as [E Ev].
  destruct c; unfold Scenario.step, bad, scalarObs; cbv beta iota zeta;
    rewrite ?(lookupT_shape s1 s2 Ev), ?(lookupArg_shape s1 s2 Ev), ?(lookupArgs_shape s1 s2 Ev).
  all: try solve [G_auto H E ltac:(rewrite ?(lookupT_shape s1 s2 Ev), ?(lookupArg_shape s1 s2 Ev))].
  - (* CRandU *)
    destruct (negb (cfg_ok c)); [apply G_plain; exact H|].
    pose proof (G_of_value s1 s2 (v_randu ds (dcst l) (dcst u) (dec_lt l u) (st_rng s1))
                  (v_randu ds (dcst l) (dcst u) (dec_lt l u) (st_rng s2)) (cfg_track c) H) as X.
    destruct (of_value sealv s1 _ _) as [s1' o1]. destruct (of_value sealv s2 _ _) as [s2' o2].
    intros Ho. exact (X Ho).
  - (* CRandN *)
    destruct (negb (cfg_ok c)); [apply G_plain; exact H|].
    pose proof (G_of_value s1 s2 (v_randn ds (dcst m) (dcst s) (dec_pos s) (st_rng s1))
                  (v_randn ds (dcst m) (dcst s) (dec_pos s) (st_rng s2)) (cfg_track c) H) as X.
    destruct (of_value sealv s1 _ _) as [s1' o1]. destruct (of_value sealv s2 _ _) as [s2' o2].
    intros Ho. exact (X Ho).
  - (* CBackprop *)
    destruct (lookupArg s2 t) as [[x|]|]; [|apply G_plain; exact H|apply G_push; [exact H|exact E|reflexivity]].
    destruct (bp_topo rd (sealg (length (st_env s1))) (st_heap s1) x) as [[h1' log1] r1] eqn:B1.
    destruct (bp_topo rd (sealg (length (st_env s2))) (st_heap s2) x) as [[h2' log2] r2] eqn:B2.
    destruct r1 as [[]| |], r2 as [[]| |]; try (apply G_plain; exact H); try (intros X; discriminate X).
    apply G_push; [exact H| |reflexivity].
    rewrite (bp_flags_ok _ _ _ _ _ _ B1), (bp_flags_ok _ _ _ _ _ _ B2), (topoOrder_flags _ _ x E).
    apply flags_markDirty. exact E.
  - (* CReset *)
    destruct (lookupT s2 t) as [x|]; [|apply G_push; [exact H|exact E|reflexivity]].
    apply G_push; [exact H|apply flags_reset; exact E|reflexivity].
  - (* CFCNew *)
    destruct (fc_new dFull dUniL dUniU dNorM dNorS (st_heap s1) inputs outputs wi bi (st_rng s1)) as [[h1' r1] g1] eqn:F1.
    destruct (fc_new dFull dUniL dUniU dNorM dNorS (st_heap s2) inputs outputs wi bi (st_rng s2)) as [[h2' r2] g2] eqn:F2.
    destruct r1 as [[w1 b1]| |], r2 as [[w2 b2]| |]; try (apply G_plain; exact H); try (intros X; discriminate X).
    destruct (F_fc_new _ _ _ _ _ _ _ _ _ _ _ _ _ _ _ _ _ _ _ E F1 F2) as [Ewb Ef]. inversion Ewb; subst.
    apply G_push; [exact H|exact Ef|reflexivity].
  - (* CFCSet *)
    pose proof (shape_nth _ _ fc Ev) as Hs.
    destruct (nth_error (st_env s1) fc) as [[]|], (nth_error (st_env s2) fc) as [[]|]; cbn in Hs; try discriminate Hs;
      try (apply G_push; [exact H|exact E|reflexivity]).
    inversion Hs; subst. destruct (lookupT s2 t) as [x|]; [|apply G_push; [exact H|exact E|reflexivity]].
    intros _. split; [exact E|]. cbn [fst st_env]. apply shape_snoc; [|reflexivity]. apply shape_setNth; [exact Ev|].
    destruct bias; reflexivity.
  - (* CFCForward *)
    pose proof (shape_nth _ _ fc Ev) as Hs.
    destruct (nth_error (st_env s1) fc) as [[| |[w1|] [b1|]| | |]|], (nth_error (st_env s2) fc) as [[| |[w2|] [b2|]| | |]|];
      cbn in Hs; try discriminate Hs; try (apply G_push; [exact H|exact E|reflexivity]).
    inversion Hs; subst. destruct (mapM (lookupArg s2) xs) as [args|]; [|apply G_push; [exact H|exact E|reflexivity]].
    apply G_fin; [exact H|apply okw_fc_forward|apply okw_fc_forward|apply FS_fc_forward; exact E].
  - (* CSGDUpdate *)
    assert (Upd : forall k (content : option nat) (st1 st2 : nat -> obj) lr1 lr2,
      (forall id, shapeOf (st1 id) = shapeOf (st2 id)) ->
      G (let (h', r) := sgd_update (st_heap s1) lr1 content (Some (length (st_env s1))) in
         match r with
         | Ok id => ({| st_heap := sealNode sealv h' id (length (st_env s1));
                       st_env := setNthObj (st_env s1) k (st1 id) ++ [OTensor id];
                       st_rng := st_rng s1 |}, tensorObs h' id)
         | Err => plain s1 ObErr
         | Panic => plain s1 ObPanic
         end)
        (let (h', r) := sgd_update (st_heap s2) lr2 content (Some (length (st_env s2))) in
         match r with
         | Ok id => ({| st_heap := sealNode sealv h' id (length (st_env s2));
                       st_env := setNthObj (st_env s2) k (st2 id) ++ [OTensor id];
                       st_rng := st_rng s2 |}, tensorObs h' id)
         | Err => plain s2 ObErr
         | Panic => plain s2 ObPanic
         end)).
    { intros k content st1 st2 lr1 lr2 Hst.
      pose proof (okw_sgd (st_heap s1) lr1 content (Some (length (st_env s1)))) as W1.
      pose proof (okw_sgd (st_heap s2) lr2 content (Some (length (st_env s2)))) as W2.
      pose proof (FS_sgd (st_heap s1) (st_heap s2) lr1 lr2 content (Some (length (st_env s1))) (Some (length (st_env s2))) E) as HF.
      destruct (sgd_update (st_heap s1) lr1 content _) as [k1 [i1| |]] eqn:R1;
      destruct (sgd_update (st_heap s2) lr2 content _) as [k2 [i2| |]] eqn:R2; try (apply G_plain; exact H).
      - destruct (HF i1 i2 eq_refl eq_refl) as [-> Ek]. cbn [fst] in Ek. intros _. split.
        + cbn [fst st_heap]. rewrite !flags_sealNode. exact Ek.
        + cbn [fst st_env]. apply shape_snoc; [|reflexivity]. apply shape_setNth; [exact Ev|apply Hst].
      - intros X. cbn [snd plain] in X. rewrite (okw_tensorObs _ _ _ _ W1 eq_refl) in X. discriminate.
      - intros X. cbn [snd plain] in X. rewrite (okw_tensorObs _ _ _ _ W1 eq_refl) in X. discriminate.
      - intros X. cbn [snd plain] in X. rewrite (okw_tensorObs _ _ _ _ W2 eq_refl) in X. discriminate.
      - intros X. cbn [snd plain] in X. rewrite (okw_tensorObs _ _ _ _ W2 eq_refl) in X. discriminate. }
    pose proof (shape_nth _ _ sgd Ev) as Hs.
    destruct (nth_error (st_env s1) sgd) as [[| | |lr1| |]|], (nth_error (st_env s2) sgd) as [[| | |lr2| |]|];
      cbn in Hs; try discriminate Hs; try (apply G_push; [exact H|exact E|reflexivity]).
    destruct cell as [fc|fc|cl|]; [| | |apply G_plain; exact H].
    + pose proof (shape_nth _ _ fc Ev) as Hf.
      destruct (nth_error (st_env s1) fc) as [[]|], (nth_error (st_env s2) fc) as [[]|]; cbn in Hf; try discriminate Hf;
        try (apply G_push; [exact H|exact E|reflexivity]).
      inversion Hf; subst. apply Upd. intros id. reflexivity.
    + pose proof (shape_nth _ _ fc Ev) as Hf.
      destruct (nth_error (st_env s1) fc) as [[]|], (nth_error (st_env s2) fc) as [[]|]; cbn in Hf; try discriminate Hf;
        try (apply G_push; [exact H|exact E|reflexivity]).
      inversion Hf; subst. apply Upd. intros id. reflexivity.
    + pose proof (shape_nth _ _ cl Ev) as Hf.
      destruct (nth_error (st_env s1) cl) as [[]|], (nth_error (st_env s2) cl) as [[]|]; cbn in Hf; try discriminate Hf;
        try (apply G_push; [exact H|exact E|reflexivity]).
      inversion Hf; subst. apply Upd. intros id. reflexivity.
  - (* CAccumulate *)
    pose proof (shape_nth _ _ acc Ev) as Hs.
    destruct (nth_error (st_env s1) acc) as [[]|], (nth_error (st_env s2) acc) as [[]|]; cbn in Hs; try discriminate Hs;
      try (apply G_push; [exact H|exact E|reflexivity]).
    destruct (lookupArg s2 yp) as [p|]; [|apply G_push; [exact H|exact E|reflexivity]].
    destruct (lookupArg s2 yt) as [t|]; [|apply G_push; [exact H|exact E|reflexivity]].
    destruct (acc_accumulate (st_heap s1) _ p t) as [a1 [u1| |]]; destruct (acc_accumulate (st_heap s2) _ p t) as [a2 [u2| |]];
      try (apply G_plain; exact H); try (intros X; discriminate X).
    intros _. split; [exact E|]. cbn [fst st_env]. apply shape_snoc; [|reflexivity]. apply shape_setNth; [exact Ev|reflexivity].
  - (* CInit *)
    destruct (init_run dFull dUniL dUniU dNorM dNorS (st_heap s1) s shape (st_rng s1) (Some (length (st_env s1)))) as [[h1' r1] g1] eqn:I1.
    destruct (init_run dFull dUniL dUniU dNorM dNorS (st_heap s2) s shape (st_rng s2) (Some (length (st_env s2)))) as [[h2' r2] g2] eqn:I2.
    pose proof (okw_init _ _ _ _ _ _ _ _ _ _ _ _ _ I1) as W1. pose proof (okw_init _ _ _ _ _ _ _ _ _ _ _ _ _ I2) as W2.
    assert (HF : FS (h1', r1) (h2', r2)).
    { intros i1 i2 X1 X2. cbn [fst snd] in *. subst r1 r2. apply (F_init _ _ _ _ _ _ _ _ _ _ _ _ _ _ _ _ _ _ _ E I1 I2). }
    pose proof (G_fin s1 s2 (h1', r1) (h2', r2) H W1 W2 HF) as X.
    destruct r1 as [i1| |], r2 as [i2| |]; try (apply G_plain; exact H); unfold fin_rng;
      try (unfold fin in X |- *; exact X).
Qed.


(* lifted to histories: the flags reached are a function of the commands and of their shape-level outcomes *)
Notation run_from := (run_from rd sealv sealg c_eps c_one_m_eps c_leaky c_sgd_lr dFull dUniL dUniU dNorM dNorS c_softmax_dim).

Theorem exec_flags (s1 s2 : state) cs : fssim s1 s2 ->
  map okObs (run_from s1 cs) = map okObs (run_from s2 cs) -> fssim (exec s1 cs) (exec s2 cs).
Proof.
  revert s1 s2. induction cs as [|c cs IH]; intros s1 s2 H Ho; cbn [StepP.exec]; [exact H|].
  cbn [Scenario.run_from] in Ho. pose proof (step_flags s1 s2 c H) as X.
  destruct (step s1 c) as [s1' o1], (step s2 c) as [s2' o2]. cbn [map fst snd] in *. inversion Ho as [[Ho1 Ho2]].
  apply IH; [apply X; exact Ho1|exact Ho2].
Qed.

Corollary history_flags (cs : list cmd) (s2 : state) :
  flags (st_heap s2) = [] -> st_env s2 = [] ->
  map okObs (run_from init_state cs) = map okObs (run_from s2 cs) ->
  flags (st_heap (exec init_state cs)) = flags (st_heap (exec s2 cs)).
Proof.
  intros E1 E2 Ho. apply (exec_flags init_state s2 cs); [|exact Ho]. split; cbn; [rewrite E1|rewrite E2]; reflexivity.
Qed.

End FlagsP.

Module FlagsEx.
Import StepEx.   (* not TrackEx: it has its own [flags] *)
#[local] Existing Instance TrackEx.Z_scalar.
Local Open Scope Z_scope.

(* same contexts, different values *)
Definition sC : @state Z := execZ init_state [CLeaf [2%nat] [3; 5] true; CLeaf [2%nat] [1; 1] false].
Definition sD : @state Z := execZ init_state [CLeaf [2%nat] [30; 50] true; CLeaf [2%nat] [-1; 7] false].
Definition prog : list (@cmd Z) :=
  [CScale 0 (2, 0); CBin BiMul 2 (Some 1%nat); CBin BiGt 0 (Some 1%nat); CBackprop (Some 3%nat); CGradOf 0; CReset 2 true;
   CScale 0 (3, 0); CAct AkRelu [Some 2%nat]].

Example ex_flags :
  fssim sC sD /\ runZ sC prog <> runZ sD prog /\
  map okObs (runZ sC prog) = map okObs (runZ sD prog) /\
  flags (st_heap (execZ sC prog)) = flags (st_heap (execZ sD prog)) /\
  flags (st_heap (execZ sC prog)) =
    [(true, true, []); (false, false, []); (true, false, []); (true, true, [2%nat]); (false, false, []);
     (true, true, [3%nat; 4%nat]); (false, false, []); (false, true, []); (false, true, []);
     (true, false, [2%nat]); (true, false, [9%nat; 2%nat])].
Proof.
  assert (F : fssim sC sD) by (split; vm_compute; reflexivity).
  assert (O : map okObs (runZ sC prog) = map okObs (runZ sD prog)) by (vm_compute; reflexivity).
  split; [exact F|]. split; [vm_compute; discriminate|]. split; [exact O|]. split.
  - destruct (exec_flags RedSum idv idg 0 1 d0 d0 d0 d0 d0 d0 d0 0 sC sD prog F O) as [X _]. exact X.
  - vm_compute. reflexivity.
Qed.
End FlagsEx.

Print Assumptions step_values.
Print Assumptions exec_values.
Print Assumptions run_values.
Print Assumptions run_values_forward.
Print Assumptions reads_only_values.
Print Assumptions reads_only_shared.
Print Assumptions step_track_rule.
Print Assumptions step_spent_operand.
Print Assumptions step_tracked_iff.
Print Assumptions step_untracked.
Print Assumptions history_track_rule.
Print Assumptions step_flags.
Print Assumptions exec_flags.
Print Assumptions topoOrder_flags.
Print Assumptions bp_flags_ok.
