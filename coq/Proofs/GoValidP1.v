(* GoValidP1.v — ValidateInputDims (tensor/internal/validator/initializers.go), ValidateSliceIndexAgainstDims and
   ValidatePatchIndexAgainstDims (tensor/internal/validator/accessors.go) as translated by harness/gox compute
   Model/Valid.v validateInputDims / validateSliceIndexAgainstDims / validatePatchIndexAgainstDims, for all inputs. *)
From Coq Require Import String List ZArith Bool Lia Arith.
From Qeep Require Import Model.GoIR Model.GoFns Model.Nd Model.Valid Proofs.GoIRP.
Import ListNotations.
Local Open Scope string_scope.
Local Open Scope Z_scope.
Local Open Scope list_scope.

(* ================= 1. ValidateInputDims ================= *)

Lemma inputDims_loop (body : env -> outcome) :
  (forall e k a,
     body (upd (upd e "i" (VI k)) "d" (VI a)) =
     if a <=? 0 then ORet [VI 1] else ONormal (upd (upd e "i" (VI k)) "d" (VI a))) ->
  forall (dims : list Z) (k : Z) (e : env),
  (validateInputDims dims = true -> exists e', rangeLoop body "i" "d" (map VI dims) k e = ONormal e') /\
  (validateInputDims dims = false -> rangeLoop body "i" "d" (map VI dims) k e = ORet [VI 1]).
Proof.
  intros Hb. unfold validateInputDims.
  induction dims as [|a dims IH]; intros k e.
  - cbn. split; [eauto | discriminate].
  - cbn [map rangeLoop forallb]. rewrite Hb.
    destruct (a <=? 0); cbn [negb andb].
    + split; [discriminate | reflexivity].
    + apply IH.
Qed.

Theorem go_ValidateInputDims call fuel (dims : list Z) :
  exec call fuel (fbody ValidateInputDims) [("dims", ints dims)]
  = ORet [errOf (validateInputDims dims)].
Proof.
  unfold ValidateInputDims. cbn [fbody].
  gxs.
  match goal with |- context [rangeLoop ?b _ _ _ _ ?e0] =>
    assert (Hspec : forall e k a,
       b (upd (upd e "i" (VI k)) "d" (VI a)) =
       if a <=? 0 then ORet [VI 1] else ONormal (upd (upd e "i" (VI k)) "d" (VI a)));
    [| destruct (inputDims_loop b Hspec dims 0 e0) as [HT HF]]
  end.
  - intros e k a. gxs. destruct (a <=? 0); gxs; reflexivity.
  - destruct (validateInputDims dims).
    + destruct (HT eq_refl) as [e' He']. rewrite He'. gxs. reflexivity.
    + rewrite (HF eq_refl). reflexivity.
Qed.

Corollary run_ValidateInputDims fuel (dims : list Z) :
  run ftab fuel ValidateInputDims [ints dims] = ORet [errOf (validateInputDims dims)].
Proof. unfold run. cbn [fparams ValidateInputDims bindArgs]. apply go_ValidateInputDims. Qed.

Example ex_ValidateInputDims :
  run ftab 1 ValidateInputDims [ints [3; 4; 0; 2]] = ORet [VI 1] /\
  run ftab 1 ValidateInputDims [ints [3; 4; 1; 2]] = ORet [VI 0].
Proof. vm_compute. split; reflexivity. Qed.

(* ================= 2. ValidateSliceIndexAgainstDims ================= *)

(* the loop of ValidateSliceIndexAgainstDims, for any body that behaves like the Go body *)
Lemma sliceIndex_loop (D : list Z) (body : env -> outcome) :
  (forall e k f t d, lookup e "dims" = Some (ints D) -> nth_error D k = Some d ->
     body (upd (upd e "i" (VI (Z.of_nat k))) "idx" (VR f t)) =
     if (f =? 0) && (t =? 0) then OContinue (upd (upd e "i" (VI (Z.of_nat k))) "idx" (VR f t))
     else if f >=? t then ORet [VI 1]
     else if (f <? 0) || (f >=? d) || (t <? 1) || (t >=? d + 1) then ORet [VI 1]
     else ONormal (upd (upd e "i" (VI (Z.of_nat k))) "idx" (VR f t))) ->
  forall (index : list (Z * Z)) (dims pre : list Z) (e : env),
  D = pre ++ dims -> (length index <= length dims)%nat -> lookup e "dims" = Some (ints D) ->
  (sliceRangesOk index dims = true ->
     exists e', rangeLoop body "i" "idx" (map (fun r => VR (fst r) (snd r)) index) (Z.of_nat (length pre)) e = ONormal e') /\
  (sliceRangesOk index dims = false ->
     rangeLoop body "i" "idx" (map (fun r => VR (fst r) (snd r)) index) (Z.of_nat (length pre)) e = ORet [VI 1]).
Proof.
  intros Hb. induction index as [|[f t] index IH]; intros dims pre e HD Hlen Hd.
  - cbn. split; [eauto | discriminate].
  - destruct dims as [|d dims]; [cbn in Hlen; lia|].
    cbn [length] in Hlen.
    assert (Hn : nth_error D (length pre) = Some d).
    { subst D. rewrite nth_error_app2, Nat.sub_diag by lia. reflexivity. }
    cbn [map rangeLoop sliceRangesOk fst snd]. rewrite (Hb _ _ _ _ _ Hd Hn).
    assert (Hnext : forall e1, lookup e1 "dims" = Some (ints D) ->
      (sliceRangesOk index dims = true ->
         exists e', rangeLoop body "i" "idx" (map (fun r => VR (fst r) (snd r)) index) (Z.of_nat (length pre) + 1) e1 = ONormal e') /\
      (sliceRangesOk index dims = false ->
         rangeLoop body "i" "idx" (map (fun r => VR (fst r) (snd r)) index) (Z.of_nat (length pre) + 1) e1 = ORet [VI 1])).
    { intros e1 He1.
      replace (Z.of_nat (length pre) + 1) with (Z.of_nat (length (pre ++ [d]))) by (rewrite app_length; cbn; lia).
      apply IH; [subst D; now rewrite <- app_assoc | lia | exact He1]. }
    destruct ((f =? 0) && (t =? 0)); cbn [andb].
    + apply Hnext. now lk.
    + destruct (f >=? t); cbn [negb andb].
      * split; [discriminate | reflexivity].
      * destruct ((f <? 0) || (f >=? d) || (t <? 1) || (t >=? d + 1)); cbn [negb andb].
        -- split; [discriminate | reflexivity].
        -- apply Hnext. now lk.
Qed.

Theorem go_ValidateSliceIndexAgainstDims call fuel (index : list (Z * Z)) (dims : list Z) :
  exec call fuel (fbody ValidateSliceIndexAgainstDims) [("index", ranges index); ("dims", ints dims)]
  = ORet [errOf (validateSliceIndexAgainstDims index dims)].
Proof.
  unfold validateSliceIndexAgainstDims, ValidateSliceIndexAgainstDims, zrange. cbn [fbody].
  gxs.
  rewrite !zlenV_map. rewrite Z.gtb_ltb.
  destruct (length index <=? length dims)%nat eqn:El.
  - apply Nat.leb_le in El.
    replace (Z.of_nat (length dims) <? Z.of_nat (length index)) with false by (symmetry; apply Z.ltb_ge; lia).
    gxs.
    match goal with |- context [rangeLoop ?b _ _ _ _ ?e0] =>
      assert (Hspec : forall e k f t d, lookup e "dims" = Some (ints dims) -> nth_error dims k = Some d ->
         b (upd (upd e "i" (VI (Z.of_nat k))) "idx" (VR f t)) =
         if (f =? 0) && (t =? 0) then OContinue (upd (upd e "i" (VI (Z.of_nat k))) "idx" (VR f t))
         else if f >=? t then ORet [VI 1]
         else if (f <? 0) || (f >=? d) || (t <? 1) || (t >=? d + 1) then ORet [VI 1]
         else ONormal (upd (upd e "i" (VI (Z.of_nat k))) "idx" (VR f t)));
      [| destruct (sliceIndex_loop dims b Hspec index dims [] e0 eq_refl El eq_refl) as [HT HF]]
    end.
    + intros e k f t d Hd En. gxs.
      destruct (f =? 0); gxs.
      * destruct (t =? 0); gxs; [reflexivity|].
        destruct (f >=? t); gxs; [reflexivity|].
        rewrite ?Hd; gxs. rewrite ?idxOf_nat, ?nth_error_map_VI, ?En; cbn [option_map]; gxs.
        destruct (f <? 0); gxs.
        { destruct (t =? f + 1); gxs; rewrite ?Hd; gxs; rewrite ?idxOf_nat, ?nth_error_map_VI, ?En; cbn [option_map]; gxs; reflexivity. }
        rewrite ?Hd; gxs. rewrite ?idxOf_nat, ?nth_error_map_VI, ?En; cbn [option_map]; gxs.
        destruct (f >=? d); gxs.
        { destruct (t =? f + 1); gxs; rewrite ?Hd; gxs; rewrite ?idxOf_nat, ?nth_error_map_VI, ?En; cbn [option_map]; gxs; reflexivity. }
        destruct (t <? 1); gxs.
        { destruct (t =? f + 1); gxs; rewrite ?Hd; gxs; rewrite ?idxOf_nat, ?nth_error_map_VI, ?En; cbn [option_map]; gxs; reflexivity. }
        rewrite ?Hd; gxs. rewrite ?idxOf_nat, ?nth_error_map_VI, ?En; cbn [option_map]; gxs.
        destruct (t >=? d + 1); gxs; [|reflexivity].
        destruct (t =? f + 1); gxs; rewrite ?Hd; gxs; rewrite ?idxOf_nat, ?nth_error_map_VI, ?En; cbn [option_map]; gxs; reflexivity.
      * destruct (f >=? t); gxs; [reflexivity|].
        destruct (f <? 0); gxs.
        { destruct (t =? f + 1); gxs; rewrite ?Hd; gxs; rewrite ?idxOf_nat, ?nth_error_map_VI, ?En; cbn [option_map]; gxs; reflexivity. }
        rewrite ?Hd; gxs. rewrite ?idxOf_nat, ?nth_error_map_VI, ?En; cbn [option_map]; gxs.
        destruct (f >=? d); gxs.
        { destruct (t =? f + 1); gxs; rewrite ?Hd; gxs; rewrite ?idxOf_nat, ?nth_error_map_VI, ?En; cbn [option_map]; gxs; reflexivity. }
        destruct (t <? 1); gxs.
        { destruct (t =? f + 1); gxs; rewrite ?Hd; gxs; rewrite ?idxOf_nat, ?nth_error_map_VI, ?En; cbn [option_map]; gxs; reflexivity. }
        rewrite ?Hd; gxs. rewrite ?idxOf_nat, ?nth_error_map_VI, ?En; cbn [option_map]; gxs.
        destruct (t >=? d + 1); gxs; [|reflexivity].
        destruct (t =? f + 1); gxs; rewrite ?Hd; gxs; rewrite ?idxOf_nat, ?nth_error_map_VI, ?En; cbn [option_map]; gxs; reflexivity.
    + cbn [length Z.of_nat] in HT, HF. cbn [andb].
      destruct (sliceRangesOk index dims).
      * destruct (HT eq_refl) as [e' He']. rewrite He'. gxs. reflexivity.
      * rewrite (HF eq_refl). reflexivity.
  - apply Nat.leb_gt in El.
    replace (Z.of_nat (length dims) <? Z.of_nat (length index)) with true by (symmetry; apply Z.ltb_lt; lia).
    gxs. reflexivity.
Qed.

Corollary run_ValidateSliceIndexAgainstDims fuel (index : list (Z * Z)) (dims : list Z) :
  run ftab fuel ValidateSliceIndexAgainstDims [ranges index; ints dims]
  = ORet [errOf (validateSliceIndexAgainstDims index dims)].
Proof. unfold run. cbn [fparams ValidateSliceIndexAgainstDims bindArgs]. apply go_ValidateSliceIndexAgainstDims. Qed.

Example ex_ValidateSliceIndexAgainstDims :
  run ftab 1 ValidateSliceIndexAgainstDims [ranges [(0, 0); (1, 3)]; ints [2; 3; 4]] = ORet [VI 0] /\
  run ftab 1 ValidateSliceIndexAgainstDims [ranges [(0, 0); (1, 4)]; ints [2; 3; 4]] = ORet [VI 1] /\
  run ftab 1 ValidateSliceIndexAgainstDims [ranges [(0, 0); (1, 2); (0, 0); (0, 1)]; ints [2; 3; 4]] = ORet [VI 1].
Proof. vm_compute. repeat split; reflexivity. Qed.

(* ================= 3. ValidatePatchIndexAgainstDims ================= *)

(* the call of ValidateSliceIndexAgainstDims through the function table *)
Lemma callD_ValidateSliceIndexAgainstDims fuel d (index : list (Z * Z)) (dims : list Z) :
  callD ftab fuel (S d) "ValidateSliceIndexAgainstDims" [ranges index; ints dims]
  = ORet [errOf (validateSliceIndexAgainstDims index dims)].
Proof.
  cbn [callD]. unfold ftab. cbn [lookupFn String.eqb Ascii.eqb Bool.eqb].
  change (fparams ValidateSliceIndexAgainstDims) with ["index"; "dims"]. cbn [bindArgs].
  rewrite go_ValidateSliceIndexAgainstDims. reflexivity.
Qed.

(* the counting loop of ValidatePatchIndexAgainstDims, for any cond / body / post that behave like the Go ones *)
Lemma patch_for (Sr D : list Z) (cond : env -> option val) (body post : env -> outcome) :
  (forall e z, lookup e "srcDims" = Some (ints Sr) -> lookup e "i" = Some (VI z) ->
     cond e = Some (VB (z <? Z.of_nat (length Sr)))) ->
  (forall e k s d, lookup e "srcDims" = Some (ints Sr) -> lookup e "dstDims" = Some (ints D) ->
     lookup e "i" = Some (VI (Z.of_nat k)) -> nth_error Sr k = Some s -> nth_error D k = Some d ->
     body e = if s >? d then ORet [VI 1] else ONormal e) ->
  (forall e z, lookup e "i" = Some (VI z) -> post e = ONormal (upd e "i" (VI (z + 1)))) ->
  forall (src dst ps pd : list Z) (e : env) (fuel : nat),
  Sr = ps ++ src -> D = pd ++ dst -> length ps = length pd -> length src = length dst ->
  lookup e "srcDims" = Some (ints Sr) -> lookup e "dstDims" = Some (ints D) ->
  lookup e "i" = Some (VI (Z.of_nat (length ps))) -> (length src < fuel)%nat ->
  (srcFits src dst = true ->
     exists e', forLoop fuel cond body post e = ONormal e' /\
       lookup e' "index" = lookup e "index" /\ lookup e' "srcDims" = lookup e "srcDims" /\
       lookup e' "dstDims" = lookup e "dstDims") /\
  (srcFits src dst = false -> forLoop fuel cond body post e = ORet [VI 1]).
Proof.
  intros Hc Hb Hp. induction src as [|s src IH]; intros dst ps pd e fuel HS HD Hpp Hlen Hs Hd Hi Hf;
    destruct dst as [|d dst]; cbn [length] in Hlen; try discriminate; (destruct fuel as [|fuel]; [cbn [length] in Hf; lia|]).
  - cbn [forLoop srcFits]. rewrite (Hc e _ Hs Hi).
    replace (Z.of_nat (length ps) <? Z.of_nat (length Sr)) with false
      by (symmetry; apply Z.ltb_ge; subst Sr; rewrite app_length; cbn; lia).
    split; [intros _; exists e; auto | discriminate].
  - cbn [forLoop srcFits]. rewrite (Hc e _ Hs Hi).
    replace (Z.of_nat (length ps) <? Z.of_nat (length Sr)) with true
      by (symmetry; apply Z.ltb_lt; subst Sr; rewrite app_length; cbn; lia).
    assert (Hn1 : nth_error Sr (length ps) = Some s).
    { subst Sr. rewrite nth_error_app2, Nat.sub_diag by lia. reflexivity. }
    assert (Hn2 : nth_error D (length ps) = Some d).
    { subst D. rewrite Hpp, nth_error_app2, Nat.sub_diag by lia. reflexivity. }
    rewrite (Hb e _ _ _ Hs Hd Hi Hn1 Hn2).
    destruct (s >? d); cbn [negb andb].
    + split; [discriminate | reflexivity].
    + rewrite (Hp e _ Hi).
      destruct (IH dst (ps ++ [s]) (pd ++ [d]) (upd e "i" (VI (Z.of_nat (length ps) + 1))) fuel) as [HT HF].
      * subst Sr. now rewrite <- app_assoc.
      * subst D. now rewrite <- app_assoc.
      * rewrite !app_length; cbn; lia.
      * lia.
      * now lk.
      * now lk.
      * lk. rewrite app_length; cbn. do 2 f_equal. lia.
      * cbn [length] in Hf. lia.
      * split; [|exact HF].
        intros Ht. destruct (HT Ht) as [e' [He' [H1 [H2 H3]]]].
        exists e'. split; [exact He'|]. revert H1 H2 H3. lk. auto.
Qed.

(* the covering loop of ValidatePatchIndexAgainstDims, for any body that behaves like the Go body *)
Lemma covers_loop (Sr : list Z) (body : env -> outcome) :
  (forall e k f t s, lookup e "srcDims" = Some (ints Sr) -> nth_error Sr k = Some s ->
     body (upd (upd e "i" (VI (Z.of_nat k))) "idx" (VR f t)) =
     if (f =? 0) && (t =? 0) then OContinue (upd (upd e "i" (VI (Z.of_nat k))) "idx" (VR f t))
     else if t - f =? s then ONormal (upd (upd e "i" (VI (Z.of_nat k))) "idx" (VR f t))
     else ORet [VI 1]) ->
  forall (index : list (Z * Z)) (src pre : list Z) (e : env),
  Sr = pre ++ src -> (length index <= length src)%nat -> lookup e "srcDims" = Some (ints Sr) ->
  (coversSrc index src = true ->
     exists e', rangeLoop body "i" "idx" (map (fun r => VR (fst r) (snd r)) index) (Z.of_nat (length pre)) e = ONormal e') /\
  (coversSrc index src = false ->
     rangeLoop body "i" "idx" (map (fun r => VR (fst r) (snd r)) index) (Z.of_nat (length pre)) e = ORet [VI 1]).
Proof.
  intros Hb. induction index as [|[f t] index IH]; intros src pre e HS Hlen Hs.
  - cbn. split; [eauto | discriminate].
  - destruct src as [|s src]; [cbn in Hlen; lia|].
    cbn [length] in Hlen.
    assert (Hn : nth_error Sr (length pre) = Some s).
    { subst Sr. rewrite nth_error_app2, Nat.sub_diag by lia. reflexivity. }
    cbn [map rangeLoop coversSrc fst snd]. rewrite (Hb _ _ _ _ _ Hs Hn).
    assert (Hnext : forall e1, lookup e1 "srcDims" = Some (ints Sr) ->
      (coversSrc index src = true ->
         exists e', rangeLoop body "i" "idx" (map (fun r => VR (fst r) (snd r)) index) (Z.of_nat (length pre) + 1) e1 = ONormal e') /\
      (coversSrc index src = false ->
         rangeLoop body "i" "idx" (map (fun r => VR (fst r) (snd r)) index) (Z.of_nat (length pre) + 1) e1 = ORet [VI 1])).
    { intros e1 He1.
      replace (Z.of_nat (length pre) + 1) with (Z.of_nat (length (pre ++ [s]))) by (rewrite app_length; cbn; lia).
      apply IH; [subst Sr; now rewrite <- app_assoc | lia | exact He1]. }
    destruct ((f =? 0) && (t =? 0)); cbn [andb].
    + apply Hnext. now lk.
    + destruct (t - f =? s); cbn [andb].
      * apply Hnext. now lk.
      * split; [discriminate | reflexivity].
Qed.

(* for any [call] that answers the ValidateSliceIndexAgainstDims call as the model does *)
Lemma go_ValidatePatchIndexAgainstDims_gen call fuel (index : list (Z * Z)) (src dst : list Z) :
  call "ValidateSliceIndexAgainstDims" [ranges index; ints dst] = ORet [errOf (validateSliceIndexAgainstDims index dst)] ->
  (S (length src) <= fuel)%nat ->
  exec call fuel (fbody ValidatePatchIndexAgainstDims)
    [("index", ranges index); ("srcDims", ints src); ("dstDims", ints dst)]
  = ORet [errOf (validatePatchIndexAgainstDims index src dst)].
Proof.
  intros Hcall Hfuel. cbn [ints ranges] in Hcall.
  unfold validatePatchIndexAgainstDims, ValidatePatchIndexAgainstDims. cbn [fbody].
  gxs.
  rewrite !zlenV_map.
  destruct (length src =? length dst)%nat eqn:El.
  2:{ apply Nat.eqb_neq in El.
      replace (Z.of_nat (length src) =? Z.of_nat (length dst)) with false by (symmetry; apply Z.eqb_neq; lia).
      gxs. reflexivity. }
  apply Nat.eqb_eq in El.
  replace (Z.of_nat (length src) =? Z.of_nat (length dst)) with true by (symmetry; apply Z.eqb_eq; lia).
  gxs.
  match goal with |- context [forLoop _ ?c ?b ?p ?e0] =>
    assert (Hc : forall e z, lookup e "srcDims" = Some (ints src) -> lookup e "i" = Some (VI z) ->
       c e = Some (VB (z <? Z.of_nat (length src))));
    [| assert (Hb : forall e k s d, lookup e "srcDims" = Some (ints src) -> lookup e "dstDims" = Some (ints dst) ->
         lookup e "i" = Some (VI (Z.of_nat k)) -> nth_error src k = Some s -> nth_error dst k = Some d ->
         b e = if s >? d then ORet [VI 1] else ONormal e);
      [| assert (Hp : forall e z, lookup e "i" = Some (VI z) -> p e = ONormal (upd e "i" (VI (z + 1))));
        [| destruct (patch_for src dst c b p Hc Hb Hp src dst [] [] e0 fuel eq_refl eq_refl eq_refl El
                       eq_refl eq_refl eq_refl) as [HT HF]; [lia|] ]]]
  end.
  - intros e z Hs Hi. cbn [eval]. rewrite Hi, Hs. cbn [ints evalBin]. rewrite zlenV_map. reflexivity.
  - intros e k s d Hs Hd Hi En1 En2. gxs.
    rewrite Hs, Hd, Hi; gxs. rewrite !idxOf_nat, !nth_error_map_VI, En1, En2; cbn [option_map]; gxs.
    destruct (s >? d); gxs; [|reflexivity].
    rewrite ?Hs, ?Hd, ?Hi; gxs. rewrite ?idxOf_nat, ?nth_error_map_VI, ?En1, ?En2; cbn [option_map]; gxs.
    rewrite ?Hs, ?Hd, ?Hi; gxs. rewrite ?idxOf_nat, ?nth_error_map_VI, ?En1, ?En2; cbn [option_map]; gxs.
    reflexivity.
  - intros e z Hi. gxs. rewrite Hi. gxs. reflexivity.
  - destruct (srcFits src dst).
    2:{ rewrite (HF eq_refl). reflexivity. }
    destruct (HT eq_refl) as [e1 [He1 [Hi1 [Hs1 Hd1]]]]. clear HT HF.
    cbn [lookup String.eqb Ascii.eqb Bool.eqb] in Hi1, Hs1, Hd1.
    rewrite He1. gxs. rewrite Hi1, Hd1. gxs. rewrite Hcall. cbn [assignAll].
    destruct (validateSliceIndexAgainstDims index dst) eqn:Ev; unfold errOf at 1; gxs.
    2:{ change (1 =? 0) with false. gxs. reflexivity. }
    change (0 =? 0) with true. gxs.
    rewrite Hi1. gxs.
    assert (Hlen : (length index <= length src)%nat).
    { unfold validateSliceIndexAgainstDims, zrange in Ev. apply andb_prop in Ev. destruct Ev as [Ev _].
      apply Nat.leb_le in Ev. lia. }
    match goal with |- context [rangeLoop ?b _ _ _ _ ?e0] =>
      assert (Hspec : forall e k f t s, lookup e "srcDims" = Some (ints src) -> nth_error src k = Some s ->
         b (upd (upd e "i" (VI (Z.of_nat k))) "idx" (VR f t)) =
         if (f =? 0) && (t =? 0) then OContinue (upd (upd e "i" (VI (Z.of_nat k))) "idx" (VR f t))
         else if t - f =? s then ONormal (upd (upd e "i" (VI (Z.of_nat k))) "idx" (VR f t))
         else ORet [VI 1]);
      [| assert (Hsrc : lookup e0 "srcDims" = Some (ints src)) by (lk; exact Hs1);
         destruct (covers_loop src b Hspec index src [] e0 eq_refl Hlen Hsrc) as [HT HF]]
    end.
    + intros e k f t s Hs En. gxs.
      destruct (f =? 0); gxs.
      * destruct (t =? 0); gxs; [reflexivity|].
        rewrite ?Hs; gxs. rewrite ?idxOf_nat, ?nth_error_map_VI, ?En; cbn [option_map]; gxs.
        destruct (t - f =? s); gxs; [reflexivity|].
        rewrite ?Hs; gxs. rewrite ?idxOf_nat, ?nth_error_map_VI, ?En; cbn [option_map]; gxs. reflexivity.
      * rewrite ?Hs; gxs. rewrite ?idxOf_nat, ?nth_error_map_VI, ?En; cbn [option_map]; gxs.
        destruct (t - f =? s); gxs; [reflexivity|].
        rewrite ?Hs; gxs. rewrite ?idxOf_nat, ?nth_error_map_VI, ?En; cbn [option_map]; gxs. reflexivity.
    + cbn [length Z.of_nat] in HT, HF. cbn [andb].
      destruct (coversSrc index src).
      * destruct (HT eq_refl) as [e' He']. rewrite He'. gxs. reflexivity.
      * rewrite (HF eq_refl). reflexivity.
Qed.

Theorem go_ValidatePatchIndexAgainstDims fuel d (index : list (Z * Z)) (src dst : list Z) :
  (S (length src) <= fuel)%nat ->
  exec (callD ftab fuel (S d)) fuel (fbody ValidatePatchIndexAgainstDims)
    [("index", ranges index); ("srcDims", ints src); ("dstDims", ints dst)]
  = ORet [errOf (validatePatchIndexAgainstDims index src dst)].
Proof.
  apply go_ValidatePatchIndexAgainstDims_gen. apply callD_ValidateSliceIndexAgainstDims.
Qed.

Corollary run_ValidatePatchIndexAgainstDims fuel (index : list (Z * Z)) (src dst : list Z) :
  (S (length src) <= fuel)%nat ->
  run ftab fuel ValidatePatchIndexAgainstDims [ranges index; ints src; ints dst]
  = ORet [errOf (validatePatchIndexAgainstDims index src dst)].
Proof.
  intros Hf. unfold run. cbn [fparams ValidatePatchIndexAgainstDims bindArgs].
  destruct fuel as [|fuel']; [lia|].
  apply go_ValidatePatchIndexAgainstDims. exact Hf.
Qed.

Example ex_ValidatePatchIndexAgainstDims :
  run ftab 4 ValidatePatchIndexAgainstDims [ranges [(0, 0); (1, 3)]; ints [2; 2; 4]; ints [2; 3; 4]] = ORet [VI 0] /\
  run ftab 4 ValidatePatchIndexAgainstDims [ranges [(0, 0); (0, 3)]; ints [2; 2; 4]; ints [2; 3; 4]] = ORet [VI 1] /\
  run ftab 4 ValidatePatchIndexAgainstDims [ranges [(0, 0); (1, 3)]; ints [2; 2; 5]; ints [2; 3; 4]] = ORet [VI 1] /\
  run ftab 3 ValidatePatchIndexAgainstDims [ranges [(0, 0); (1, 3)]; ints [2; 2; 4]; ints [2; 3; 4]] = OFuel.
Proof. vm_compute. repeat split; reflexivity. Qed.

Print Assumptions go_ValidateInputDims.
Print Assumptions run_ValidateInputDims.
Print Assumptions go_ValidateSliceIndexAgainstDims.
Print Assumptions run_ValidateSliceIndexAgainstDims.
Print Assumptions go_ValidatePatchIndexAgainstDims.
Print Assumptions run_ValidatePatchIndexAgainstDims.
