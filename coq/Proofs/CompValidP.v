(* CompValidP.v — the INPUT VALIDATORS of the component layer (component/**.go, translated by harness/gox/comp.go into
   the DataIR programs GoComp.c_*_validateInputs / c_*_toValidInputs / c_FC_validateInitializedWeights), run over the
   model's heap with the leaf oracle CompExt.cext0, ARE the tests of the hand-written model (Model/Components.v):
   lossArgs1 (MSE, BCE, Accuracy), lossArgs2 (CE), oneInput (activations), oneInput + rank tests (Softmax, FC), the
   case analysis of sgd_update (SGD), and the shape test of NewFC.  For all heaps, arguments, fuel and depth. *)
From Coq Require Import String List ZArith Bool Lia Arith.
From Qeep Require Import Model.Scalar Model.Nd Model.Fill Model.Data Model.Valid Model.Api Model.Grad Model.Backprop
     Model.Components Model.DataIR Model.HeapExt Model.GoComp Model.CompExt Proofs.DataIRP Proofs.HeapAccP.
From Qeep Require Model.GoIR.
Import ListNotations.
Local Open Scope string_scope.
Local Open Scope Z_scope.
Local Open Scope list_scope.

Section CompValid.
Context {A : Type} {SA : Scalar A}.
Variables (fltb fleb : A -> A -> bool).
Variable lib : string -> list (@dval A) -> @heap A -> option (list (@dval A) * @heap A).
Notation T := (tensor A).
Notation heap := (@heap A).
Notation dval := (@dval A).
Notation denv := (@denv A).
Notation run0 p := (drun cfapp heap (cext0 fltb fleb lib) p).

(* what a run returns: values and final heap; [None] = panic / out of fuel / fell off the end *)
Definition outcome (o : @doutcome A heap) : option (list dval * heap) :=
  match o with DRet _ vs s _ _ => Some (vs, s) | _ => None end.

(* the run neither panics nor runs out of fuel *)
Definition safe (o : @doutcome A heap) : Prop :=
  match o with DPanic _ => False | DFuel _ => False | _ => True end.

Lemma outcome_safe (o : @doutcome A heap) r : outcome o = Some r -> safe o.
Proof. destruct o; cbn; intros H; try discriminate; exact I. Qed.

(* a caller-side tensor argument whose node id (if any) is a node of the heap *)
Definition targOk (h : heap) (x : targ) : Prop := forall n, x = Some n -> (n < length h)%nat.

(* ================= facts about the heap ================= *)

(* a valid node id always has a value *)
Lemma valOf_valid (h : heap) (n : nat) : (n < length h)%nat -> exists v, valOf h n = Some v.
Proof.
  intros H. unfold valOf. destruct (nth_error h n) as [nd|] eqn:E.
  - eexists. reflexivity.
  - apply nth_error_None in E. lia.
Qed.

Lemma tens_node (h : heap) (n : nat) : (n < length h)%nat -> tens h (DI (Z.of_nat n)) = valOf h n.
Proof. intros H. unfold tens. rewrite (nodeId_nat h n H). reflexivity. Qed.

(* ================= the oracle entries used ================= *)

Lemma cext0_Shape v (h : heap) :
  cext0 fltb fleb lib "Shape" [v] h = do t <- tens h v; Some ([dnats (dims t)], h).
Proof. reflexivity. Qed.

Lemma cext0_Gradient v (h : heap) :
  cext0 fltb fleb lib "Gradient" [v] h =
  do n <- nodeId h v; Some ([match gradOf h n with Some g => embT g | None => DNil end], h).
Proof. reflexivity. Qed.

Lemma cext0_Shape_node (h : heap) (n : nat) (v : T) :
  (n < length h)%nat -> valOf h n = Some v ->
  cext0 fltb fleb lib "Shape" [DI (Z.of_nat n)] h = Some ([DL (map (fun k => DI (Z.of_nat k)) (dims v))], h).
Proof. intros Hn Hv. rewrite cext0_Shape, (tens_node h n Hn), Hv. reflexivity. Qed.

(* ================= arithmetic of the tests ================= *)

Lemma Zeqb_nat (a b : nat) : (Z.of_nat a =? Z.of_nat b) = Nat.eqb a b.
Proof.
  destruct (Nat.eqb a b) eqn:E.
  - apply Nat.eqb_eq in E. subst. apply Z.eqb_refl.
  - apply Nat.eqb_neq in E. apply Z.eqb_neq. lia.
Qed.

Lemma dlen_nats_eqb (l : list nat) (k : nat) :
  (dlen (map (fun n => @DI A (Z.of_nat n)) l) =? Z.of_nat k) = Nat.eqb (length l) k.
Proof. rewrite dlen_map. apply Zeqb_nat. Qed.

Lemma dlen_nats_eqb1 (l : list nat) : (dlen (map (fun n => @DI A (Z.of_nat n)) l) =? 1) = Nat.eqb (length l) 1.
Proof. exact (dlen_nats_eqb l 1). Qed.
Lemma dlen_nats_eqb2 (l : list nat) : (dlen (map (fun n => @DI A (Z.of_nat n)) l) =? 2) = Nat.eqb (length l) 2.
Proof. exact (dlen_nats_eqb l 2). Qed.

Lemma didx_0 : didx 0 = Some 0%nat. Proof. reflexivity. Qed.
Lemma didx_1 : didx 1 = Some 1%nat. Proof. reflexivity. Qed.

Lemma nth_error_nats (l : list nat) (i : nat) :
  (i < length l)%nat -> nth_error (map (fun n => @DI A (Z.of_nat n)) l) i = Some (DI (Z.of_nat (nth i l 0%nat))).
Proof.
  revert i. induction l as [|a l IH]; intros [|i] H; cbn in *; try lia; [reflexivity|]. apply IH. lia.
Qed.

(* stepping: structure of the statement, then the Shape oracle on a known node *)
Ltac stepc := dxs; cbn [outcome].

(* ================= 1. MSE / BCE / Accuracy: lossArgs1 ================= *)

(* the three programs have the same body; the proof script is shared *)
Ltac lossArgs1_proof h yp yt Hyp Hyt :=
  cbn [pmain dbody dparams plocals dbind];
  destruct yp as [p|]; [|destruct yt; cbn [dtarg lossArgs1]; stepc; reflexivity];
  destruct yt as [t|]; [|cbn [dtarg lossArgs1]; stepc; reflexivity];
  pose proof (Hyp p eq_refl) as Hp; pose proof (Hyt t eq_refl) as Ht;
  destruct (valOf_valid h p Hp) as [pv Hpv]; destruct (valOf_valid h t Ht) as [tv Htv];
  unfold lossArgs1, rankOf, dim0Of; rewrite Hpv, Htv; cbn [dtarg];
  stepc;
  rewrite (cext0_Shape_node h p pv Hp Hpv); stepc;
  rewrite (cext0_Shape_node h t tv Ht Htv); stepc;
  rewrite !dlen_nats_eqb1;
  destruct (Nat.eqb (length (dims pv)) 1) eqn:E1; cbn [negb andb]; [|stepc; reflexivity];
  destruct (Nat.eqb (length (dims tv)) 1) eqn:E2; cbn [negb andb]; [|stepc; reflexivity];
  apply Nat.eqb_eq in E1, E2;
  stepc; rewrite didx_0, !nth_error_nats by lia; stepc;
  rewrite Zeqb_nat;
  destruct (Nat.eqb (nth 0 (dims pv) 0%nat) (nth 0 (dims tv) 0%nat)); cbn [negb]; stepc; reflexivity.

Theorem MSE_validateInputs_spec fuel depth (h : heap) (yp yt : targ) :
  targOk h yp -> targOk h yt ->
  outcome (run0 c_MSE_validateInputs fuel depth [dtarg yp; dtarg yt] h) =
  Some ([DI (if lossArgs1 h yp yt then 0 else 1)], h).
Proof. intros Hyp Hyt. unfold c_MSE_validateInputs, drun. lossArgs1_proof h yp yt Hyp Hyt. Qed.

Theorem BCE_validateInputs_spec fuel depth (h : heap) (yp yt : targ) :
  targOk h yp -> targOk h yt ->
  outcome (run0 c_BCE_validateInputs fuel depth [dtarg yp; dtarg yt] h) =
  Some ([DI (if lossArgs1 h yp yt then 0 else 1)], h).
Proof. intros Hyp Hyt. unfold c_BCE_validateInputs, drun. lossArgs1_proof h yp yt Hyp Hyt. Qed.

Theorem Accuracy_validateInputs_spec fuel depth (h : heap) (ct cc : dval) (yp yt : targ) :
  targOk h yp -> targOk h yt ->
  outcome (run0 c_Accuracy_validateInputs fuel depth [ct; cc; dtarg yp; dtarg yt] h) =
  Some ([DI (if lossArgs1 h yp yt then 0 else 1)], h).
Proof. intros Hyp Hyt. unfold c_Accuracy_validateInputs, drun. lossArgs1_proof h yp yt Hyp Hyt. Qed.

(* ================= 2. CE: lossArgs2 ================= *)

Theorem CE_validateInputs_spec fuel depth (h : heap) (yp yt : targ) :
  targOk h yp -> targOk h yt ->
  outcome (run0 c_CE_validateInputs fuel depth [dtarg yp; dtarg yt] h) =
  Some ([DI (if lossArgs2 h yp yt then 0 else 1)], h).
Proof.
  intros Hyp Hyt. unfold c_CE_validateInputs, drun. cbn [pmain dbody dparams plocals dbind].
  destruct yp as [p|]; [|destruct yt; cbn [dtarg lossArgs2]; stepc; reflexivity].
  destruct yt as [t|]; [|cbn [dtarg lossArgs2]; stepc; reflexivity].
  pose proof (Hyp p eq_refl) as Hp. pose proof (Hyt t eq_refl) as Ht.
  destruct (valOf_valid h p Hp) as [pv Hpv]. destruct (valOf_valid h t Ht) as [tv Htv].
  unfold lossArgs2, rankOf, dim0Of, dim1Of. rewrite Hpv, Htv. cbn [dtarg].
  stepc.
  rewrite (cext0_Shape_node h p pv Hp Hpv). stepc.
  rewrite (cext0_Shape_node h t tv Ht Htv). stepc.
  rewrite !dlen_nats_eqb2.
  destruct (Nat.eqb (length (dims pv)) 2) eqn:E1; cbn [negb andb]; [|stepc; reflexivity].
  destruct (Nat.eqb (length (dims tv)) 2) eqn:E2; cbn [negb andb]; [|stepc; reflexivity].
  apply Nat.eqb_eq in E1, E2.
  stepc. rewrite didx_0, !nth_error_nats by lia. stepc.
  rewrite Zeqb_nat.
  destruct (Nat.eqb (nth 0 (dims pv) 0%nat) (nth 0 (dims tv) 0%nat)); cbn [negb andb]; [|stepc; reflexivity].
  stepc. rewrite didx_1, !nth_error_nats by lia. stepc.
  rewrite Zeqb_nat.
  destruct (Nat.eqb (nth 1 (dims pv) 0%nat) (nth 1 (dims tv) 0%nat)); cbn [negb]; stepc; reflexivity.
Qed.

(* ================= 3. activations: oneInput ================= *)

Lemma dlen_eqb1 (l : list dval) : (dlen l =? 1) = match l with [_] => true | _ => false end.
Proof.
  destruct l as [|a [|b r]]; [reflexivity | reflexivity |].
  unfold dlen. cbn [length]. apply Z.eqb_neq. lia.
Qed.

(* what the four activations (and the first half of Softmax / FC) return *)
Definition oneInputRet (xs : list targ) : list dval :=
  match oneInput xs with Some x => [DI (Z.of_nat x); DI 0] | None => [DNil; DI 1] end.

Ltac oneInput_proof xs :=
  cbn [pmain dbody dparams plocals dbind]; unfold oneInputRet;
  stepc; rewrite dlen_eqb1;
  destruct xs as [|[x|] [|y r]]; cbn [map dtarg oneInput negb]; stepc; try reflexivity;
  rewrite didx_0; cbn [nth_error]; stepc; reflexivity.

Theorem Relu_toValidInputs_spec fuel depth (h : heap) (xs : list targ) :
  outcome (run0 c_Relu_toValidInputs fuel depth [DL (map dtarg xs)] h) = Some (oneInputRet xs, h).
Proof. unfold c_Relu_toValidInputs, drun. oneInput_proof xs. Qed.

Theorem Sigmoid_toValidInputs_spec fuel depth (h : heap) (xs : list targ) :
  outcome (run0 c_Sigmoid_toValidInputs fuel depth [DL (map dtarg xs)] h) = Some (oneInputRet xs, h).
Proof. unfold c_Sigmoid_toValidInputs, drun. oneInput_proof xs. Qed.

Theorem Tanh_toValidInputs_spec fuel depth (h : heap) (xs : list targ) :
  outcome (run0 c_Tanh_toValidInputs fuel depth [DL (map dtarg xs)] h) = Some (oneInputRet xs, h).
Proof. unfold c_Tanh_toValidInputs, drun. oneInput_proof xs. Qed.

Theorem LeakyRelu_toValidInputs_spec fuel depth (h : heap) (m : dval) (xs : list targ) :
  outcome (run0 c_LeakyRelu_toValidInputs fuel depth [m; DL (map dtarg xs)] h) = Some (oneInputRet xs, h).
Proof. unfold c_LeakyRelu_toValidInputs, drun. oneInput_proof xs. Qed.

(* ================= 4. Softmax: oneInput, then  rank <= dim  ================= *)

(* every node id of the list is a node of the heap *)
Definition targsOk (h : heap) (xs : list targ) : Prop := forall n, In (Some n) xs -> (n < length h)%nat.

(* the exact returned list; the rank test is Go's  len(shape) <= c.dim  over int: when it fails Go returns the
   (non-nil) x together with the error *)
Definition softmaxRet (h : heap) (dim : Z) (xs : list targ) : list dval :=
  match oneInput xs with
  | Some x => [DI (Z.of_nat x); DI (if Z.of_nat (rankOf h x) <=? dim then 1 else 0)]
  | None => [DNil; DI 1]
  end.

Theorem Softmax_toValidInputs_spec fuel depth (h : heap) (dim : Z) (xs : list targ) :
  targsOk h xs ->
  outcome (run0 c_Softmax_toValidInputs fuel depth [DI dim; DL (map dtarg xs)] h) = Some (softmaxRet h dim xs, h).
Proof.
  intros Hok. unfold c_Softmax_toValidInputs, drun. cbn [pmain dbody dparams plocals dbind]. unfold softmaxRet.
  stepc. rewrite dlen_eqb1.
  destruct xs as [|[x|] [|y r]]; cbn [map dtarg oneInput negb]; stepc; try reflexivity;
    try (rewrite didx_0; cbn [nth_error]; stepc; reflexivity).
  rewrite didx_0; cbn [nth_error]; stepc.
  assert (Hx : (x < length h)%nat) by (apply Hok; left; reflexivity).
  destruct (valOf_valid h x Hx) as [v Hv].
  rewrite (cext0_Shape_node h x v Hx Hv). stepc.
  unfold rankOf. rewrite Hv. rewrite dlen_map.
  destruct (Z.of_nat (length (dims v)) <=? dim); stepc; reflexivity.
Qed.

(* in the terms of [softmax_forward]: for a dimension 0 <= dim the error flag is the test  rankOf h x <=? dim *)
Corollary Softmax_toValidInputs_model fuel depth (h : heap) (dim : Z) (xs : list targ) :
  0 <= dim -> targsOk h xs ->
  outcome (run0 c_Softmax_toValidInputs fuel depth [DI dim; DL (map dtarg xs)] h) =
  Some (match oneInput xs with
        | Some x => if (rankOf h x <=? Z.to_nat dim)%nat then [DI (Z.of_nat x); DI 1] else [DI (Z.of_nat x); DI 0]
        | None => [DNil; DI 1]
        end, h).
Proof.
  intros Hd Hok. rewrite (Softmax_toValidInputs_spec fuel depth h dim xs Hok). unfold softmaxRet.
  destruct (oneInput xs) as [x|]; [|reflexivity].
  destruct (Nat.leb (rankOf h x) (Z.to_nat dim)) eqn:E.
  - apply Nat.leb_le in E. destruct (Z.of_nat (rankOf h x) <=? dim) eqn:F; [reflexivity|]. apply Z.leb_gt in F. lia.
  - apply Nat.leb_gt in E. destruct (Z.of_nat (rankOf h x) <=? dim) eqn:F; [|reflexivity]. apply Z.leb_le in F. lia.
Qed.

(* error flag 0  iff  oneInput xs = Some x  and  dim < rank x *)
Corollary Softmax_toValidInputs_ok_iff fuel depth (h : heap) (dim : Z) (xs : list targ) :
  0 <= dim -> targsOk h xs ->
  forall vs h', outcome (run0 c_Softmax_toValidInputs fuel depth [DI dim; DL (map dtarg xs)] h) = Some (vs, h') ->
  (nth 1 vs DNil = DI 0 <-> exists x, oneInput xs = Some x /\ (Z.to_nat dim < rankOf h x)%nat).
Proof.
  intros Hd Hok vs h' H. rewrite (Softmax_toValidInputs_model fuel depth h dim xs Hd Hok) in H.
  injection H as Hvs _. subst vs.
  destruct (oneInput xs) as [x|].
  - destruct (Nat.leb (rankOf h x) (Z.to_nat dim)) eqn:E; cbn [nth].
    + apply Nat.leb_le in E. split; [discriminate|]. intros [x' [Hx' Hlt]]. inversion Hx'; subst. lia.
    + apply Nat.leb_gt in E. split; [|reflexivity]. intros _. exists x. split; [reflexivity | exact E].
  - cbn [nth]. split; [discriminate|]. intros [x' [Hx' _]]. discriminate.
Qed.

(* ================= 5. FC: oneInput, then  rank = 2  ================= *)

Definition fcRet (h : heap) (xs : list targ) : list dval :=
  match oneInput xs with
  | Some x => [DI (Z.of_nat x); DI (if Nat.eqb (rankOf h x) 2 then 0 else 1)]
  | None => [DNil; DI 1]
  end.

Theorem FC_toValidInputs_spec fuel depth (h : heap) (w b : dval) (xs : list targ) :
  targsOk h xs ->
  outcome (run0 c_FC_toValidInputs fuel depth [w; b; DL (map dtarg xs)] h) = Some (fcRet h xs, h).
Proof.
  intros Hok. unfold c_FC_toValidInputs, drun. cbn [pmain dbody dparams plocals dbind]. unfold fcRet.
  stepc. rewrite dlen_eqb1.
  destruct xs as [|[x|] [|y r]]; cbn [map dtarg oneInput negb]; stepc; try reflexivity;
    try (rewrite didx_0; cbn [nth_error]; stepc; reflexivity).
  rewrite didx_0; cbn [nth_error]; stepc.
  assert (Hx : (x < length h)%nat) by (apply Hok; left; reflexivity).
  destruct (valOf_valid h x Hx) as [v Hv].
  rewrite (cext0_Shape_node h x v Hx Hv). stepc.
  unfold rankOf. rewrite Hv. rewrite dlen_nats_eqb2.
  destruct (Nat.eqb (length (dims v)) 2); cbn [negb]; stepc; reflexivity.
Qed.

Corollary FC_toValidInputs_ok_iff fuel depth (h : heap) (w b : dval) (xs : list targ) :
  targsOk h xs ->
  forall vs h', outcome (run0 c_FC_toValidInputs fuel depth [w; b; DL (map dtarg xs)] h) = Some (vs, h') ->
  (nth 1 vs DNil = DI 0 <-> exists x, oneInput xs = Some x /\ rankOf h x = 2%nat).
Proof.
  intros Hok vs h' H. rewrite (FC_toValidInputs_spec fuel depth h w b xs Hok) in H.
  injection H as Hvs _. subst vs. unfold fcRet.
  destruct (oneInput xs) as [x|].
  - destruct (Nat.eqb (rankOf h x) 2) eqn:E; cbn [nth].
    + apply Nat.eqb_eq in E. split; [|reflexivity]. intros _. exists x. split; [reflexivity | exact E].
    + apply Nat.eqb_neq in E. split; [discriminate|]. intros [x' [Hx' Hr]]. inversion Hx'; subst. contradiction.
  - cbn [nth]. split; [discriminate|]. intros [x' [Hx' _]]. discriminate.
Qed.

(* ================= 6. SGD: the case analysis of sgd_update ================= *)

(* a *tensor.Tensor argument: nil pointer, or a cell holding nil / a node *)
Definition dcell (c : option targ) : dval := match c with None => DNil | Some w => DL [dtarg w] end.

Definition cellOk (h : heap) (c : option targ) : Prop := forall w, c = Some (Some w) -> (w < length h)%nat.

Definition sgdRet (h : heap) (c : option targ) : list dval :=
  match c with
  | Some (Some w) =>
      match gradOf h w with
      | Some g => [DI (Z.of_nat w); embT g; DI 0]
      | None => [DI (Z.of_nat w); DNil; DI 1]       (* "gradient is nil": Go returns the non-nil w with the error *)
      end
  | _ => [DNil; DNil; DI 1]                          (* nil pointer, or the cell holds nil *)
  end.

Theorem SGD_toValidInputs_spec fuel depth (h : heap) (lr : dval) (c : option targ) :
  cellOk h c ->
  outcome (run0 c_SGD_toValidInputs fuel depth [lr; dcell c] h) = Some (sgdRet h c, h).
Proof.
  intros Hok. unfold c_SGD_toValidInputs, drun. cbn [pmain dbody dparams plocals dbind]. unfold sgdRet.
  destruct c as [[w|]|]; cbn [dcell dtarg]; stepc; try reflexivity;
    rewrite didx_0; cbn [nth_error]; stepc; try reflexivity.
  assert (Hw : (w < length h)%nat) by (apply Hok; reflexivity).
  rewrite cext0_Gradient, (nodeId_nat h w Hw). cbn [obind]. stepc.
  destruct (gradOf h w) as [g|]; [unfold embT|]; stepc; reflexivity.
Qed.

(* returns  (w, g, nil)  iff the pointer is non-nil, holds the node w and w has the gradient g *)
Corollary SGD_toValidInputs_ok_iff fuel depth (h : heap) (lr : dval) (c : option targ) (w : nat) (g : T) :
  cellOk h c ->
  (outcome (run0 c_SGD_toValidInputs fuel depth [lr; dcell c] h) = Some ([DI (Z.of_nat w); embT g; DI 0], h)
   <-> c = Some (Some w) /\ gradOf h w = Some g).
Proof.
  intros Hok. rewrite (SGD_toValidInputs_spec fuel depth h lr c Hok). unfold sgdRet. split.
  - destruct c as [[w'|]|]; try discriminate.
    destruct (gradOf h w') as [g'|] eqn:Eg; [|discriminate].
    intros H. assert (Hw : Z.of_nat w' = Z.of_nat w) by congruence.
    assert (Hg : embT g' = embT g) by congruence. clear H. apply Nat2Z.inj in Hw. subst w'.
    assert (Hgg : unembT (embT g') = unembT (embT g)) by (rewrite Hg; reflexivity).
    rewrite !unembT_embT in Hgg. injection Hgg as Hgg. subst g'. split; [reflexivity | exact Eg].
  - intros [Hc Hg]. subst c. rewrite Hg. reflexivity.
Qed.

(* otherwise the error flag is 1, and that is exactly where the model's [sgd_update] answers Err *)
Corollary SGD_toValidInputs_err fuel depth (h : heap) (lr : dval) (c : option targ) :
  cellOk h c ->
  (forall w g, ~ (c = Some (Some w) /\ gradOf h w = Some g)) ->
  exists v1 v2, outcome (run0 c_SGD_toValidInputs fuel depth [lr; dcell c] h) = Some ([v1; v2; DI 1], h).
Proof.
  intros Hok Hno. rewrite (SGD_toValidInputs_spec fuel depth h lr c Hok). unfold sgdRet.
  destruct c as [[w|]|]; try (do 2 eexists; reflexivity).
  destruct (gradOf h w) as [g|] eqn:Eg; [|do 2 eexists; reflexivity].
  exfalso. apply (Hno w g). split; [reflexivity | exact Eg].
Qed.

(* the validator and the model's [sgd_update]: either the validator reports the error and [sgd_update] answers Err
   on the unchanged heap, or it returns (w, g) and [sgd_update] is the update computed from the value of w and g *)
Corollary SGD_toValidInputs_model fuel depth (h : heap) (lr : dval) (a : A) (cell : targ) (name : option nat) :
  targOk h cell ->
  (exists v1 v2,
     outcome (run0 c_SGD_toValidInputs fuel depth [lr; dcell (Some cell)] h) = Some ([v1; v2; DI 1], h) /\
     sgd_update h a cell name = (h, Err))
  \/
  (exists w wv g,
     cell = Some w /\ valOf h w = Some wv /\ gradOf h w = Some g /\
     outcome (run0 c_SGD_toValidInputs fuel depth [lr; dcell (Some cell)] h) = Some ([DI (Z.of_nat w); embT g; DI 0], h) /\
     sgd_update h a cell name =
     match (dor delta <- v_unary (UScale a) g; v_arith BiSub wv delta) with
     | Ok v => let '(h', id) := alloc h v (false, true, []) name in (h', Ok id)
     | Err => (h, Err)
     | Panic => (h, Panic)
     end).
Proof.
  intros Hok.
  assert (Hc : cellOk h (Some cell)).
  { intros w Hw. injection Hw as Hw. apply Hok. exact Hw. }
  rewrite (SGD_toValidInputs_spec fuel depth h lr (Some cell) Hc). unfold sgdRet, sgd_update.
  destruct cell as [w|]; [|left; do 2 eexists; split; reflexivity].
  destruct (valOf_valid h w (Hok w eq_refl)) as [wv Hwv]. rewrite Hwv.
  destruct (gradOf h w) as [g|] eqn:Eg; [|left; do 2 eexists; split; reflexivity].
  right. exists w, wv, g. repeat split; try reflexivity; assumption.
Qed.

(* ================= 7. validateInitializedWeights ================= *)

(* both non-nil, both of rank 1, both of length [outputs] *)
Definition initWeightsOk (h : heap) (w b : targ) (outputs : Z) : bool :=
  match w, b with
  | Some wn, Some bn =>
      Nat.eqb (rankOf h wn) 1 && Nat.eqb (rankOf h bn) 1 &&
      (Z.of_nat (dim0Of h wn) =? outputs) && (Z.of_nat (dim0Of h bn) =? outputs)
  | _, _ => false
  end.

Theorem FC_validateInitializedWeights_spec fuel depth (h : heap) (w b : targ) (inputs outputs : Z) (rest : dval) :
  targOk h w -> targOk h b ->
  outcome (run0 c_FC_validateInitializedWeights fuel depth [dtarg w; dtarg b; DL [DI inputs; DI outputs; rest]] h) =
  Some ([DI (if initWeightsOk h w b outputs then 0 else 1)], h).
Proof.
  intros Hw Hb. unfold c_FC_validateInitializedWeights, drun. cbn [pmain dbody dparams plocals dbind].
  destruct w as [wn|]; [|destruct b; cbn [dtarg initWeightsOk]; stepc; reflexivity].
  destruct b as [bn|]; [|cbn [dtarg initWeightsOk]; stepc; reflexivity].
  pose proof (Hw wn eq_refl) as Hwn. pose proof (Hb bn eq_refl) as Hbn.
  destruct (valOf_valid h wn Hwn) as [wv Hwv]. destruct (valOf_valid h bn Hbn) as [bv Hbv].
  unfold initWeightsOk, rankOf, dim0Of. rewrite Hwv, Hbv. cbn [dtarg].
  stepc.
  rewrite (cext0_Shape_node h wn wv Hwn Hwv). stepc.
  rewrite (cext0_Shape_node h bn bv Hbn Hbv). stepc.
  rewrite !dlen_nats_eqb1.
  destruct (Nat.eqb (length (dims wv)) 1) eqn:E1; cbn [negb andb]; [|stepc; reflexivity].
  destruct (Nat.eqb (length (dims bv)) 1) eqn:E2; cbn [negb andb]; [|stepc; reflexivity].
  apply Nat.eqb_eq in E1, E2.
  stepc. rewrite didx_0, didx_1, !nth_error_nats by lia. cbn [nth_error]. stepc.
  destruct (Z.of_nat (nth 0 (dims wv) 0%nat) =? outputs); cbn [negb andb]; stepc; [|reflexivity].
  rewrite didx_0, didx_1, !nth_error_nats by lia. cbn [nth_error]. stepc.
  destruct (Z.of_nat (nth 0 (dims bv) 0%nat) =? outputs); cbn [negb]; stepc; reflexivity.
Qed.

Corollary FC_validateInitializedWeights_ok_iff fuel depth (h : heap) (w b : targ) (inputs outputs : Z) (rest : dval) :
  targOk h w -> targOk h b ->
  (outcome (run0 c_FC_validateInitializedWeights fuel depth [dtarg w; dtarg b; DL [DI inputs; DI outputs; rest]] h) =
   Some ([DI 0], h)
   <-> exists wn bn, w = Some wn /\ b = Some bn /\ rankOf h wn = 1%nat /\ rankOf h bn = 1%nat /\
                     Z.of_nat (dim0Of h wn) = outputs /\ Z.of_nat (dim0Of h bn) = outputs).
Proof.
  intros Hw Hb. rewrite (FC_validateInitializedWeights_spec fuel depth h w b inputs outputs rest Hw Hb).
  unfold initWeightsOk. split.
  - destruct w as [wn|]; [|discriminate]. destruct b as [bn|]; [|discriminate].
    destruct (Nat.eqb (rankOf h wn) 1) eqn:E1; cbn [andb]; [|discriminate].
    destruct (Nat.eqb (rankOf h bn) 1) eqn:E2; cbn [andb]; [|discriminate].
    destruct (Z.of_nat (dim0Of h wn) =? outputs) eqn:E3; cbn [andb]; [|discriminate].
    destruct (Z.of_nat (dim0Of h bn) =? outputs) eqn:E4; [|discriminate].
    intros _. apply Nat.eqb_eq in E1, E2. apply Z.eqb_eq in E3, E4.
    exists wn, bn. repeat split; assumption.
  - intros [wn [bn [Hwn [Hbn [R1 [R2 [D1 D2]]]]]]]. subst w b.
    rewrite R1, R2, D1, D2, Z.eqb_refl. reflexivity.
Qed.

(* ================= never panics (what property C09 needs) ================= *)
(* for all arguments of the shapes above the run is neither DPanic nor DFuel (it is a DRet: see the *_spec theorems) *)

Corollary MSE_validateInputs_never_panics fuel depth (h : heap) (yp yt : targ) :
  targOk h yp -> targOk h yt -> safe (run0 c_MSE_validateInputs fuel depth [dtarg yp; dtarg yt] h).
Proof. intros H1 H2. eapply outcome_safe, MSE_validateInputs_spec; assumption. Qed.

Corollary BCE_validateInputs_never_panics fuel depth (h : heap) (yp yt : targ) :
  targOk h yp -> targOk h yt -> safe (run0 c_BCE_validateInputs fuel depth [dtarg yp; dtarg yt] h).
Proof. intros H1 H2. eapply outcome_safe, BCE_validateInputs_spec; assumption. Qed.

Corollary Accuracy_validateInputs_never_panics fuel depth (h : heap) (ct cc : dval) (yp yt : targ) :
  targOk h yp -> targOk h yt -> safe (run0 c_Accuracy_validateInputs fuel depth [ct; cc; dtarg yp; dtarg yt] h).
Proof. intros H1 H2. eapply outcome_safe, Accuracy_validateInputs_spec; assumption. Qed.

Corollary CE_validateInputs_never_panics fuel depth (h : heap) (yp yt : targ) :
  targOk h yp -> targOk h yt -> safe (run0 c_CE_validateInputs fuel depth [dtarg yp; dtarg yt] h).
Proof. intros H1 H2. eapply outcome_safe, CE_validateInputs_spec; assumption. Qed.

Corollary Relu_toValidInputs_never_panics fuel depth (h : heap) (xs : list targ) :
  safe (run0 c_Relu_toValidInputs fuel depth [DL (map dtarg xs)] h).
Proof. eapply outcome_safe, Relu_toValidInputs_spec. Qed.

Corollary Sigmoid_toValidInputs_never_panics fuel depth (h : heap) (xs : list targ) :
  safe (run0 c_Sigmoid_toValidInputs fuel depth [DL (map dtarg xs)] h).
Proof. eapply outcome_safe, Sigmoid_toValidInputs_spec. Qed.

Corollary Tanh_toValidInputs_never_panics fuel depth (h : heap) (xs : list targ) :
  safe (run0 c_Tanh_toValidInputs fuel depth [DL (map dtarg xs)] h).
Proof. eapply outcome_safe, Tanh_toValidInputs_spec. Qed.

Corollary LeakyRelu_toValidInputs_never_panics fuel depth (h : heap) (m : dval) (xs : list targ) :
  safe (run0 c_LeakyRelu_toValidInputs fuel depth [m; DL (map dtarg xs)] h).
Proof. eapply outcome_safe, LeakyRelu_toValidInputs_spec. Qed.

Corollary Softmax_toValidInputs_never_panics fuel depth (h : heap) (dim : Z) (xs : list targ) :
  targsOk h xs -> safe (run0 c_Softmax_toValidInputs fuel depth [DI dim; DL (map dtarg xs)] h).
Proof. intros H1. eapply outcome_safe, Softmax_toValidInputs_spec; assumption. Qed.

Corollary FC_toValidInputs_never_panics fuel depth (h : heap) (w b : dval) (xs : list targ) :
  targsOk h xs -> safe (run0 c_FC_toValidInputs fuel depth [w; b; DL (map dtarg xs)] h).
Proof. intros H1. eapply outcome_safe, FC_toValidInputs_spec; assumption. Qed.

Corollary SGD_toValidInputs_never_panics fuel depth (h : heap) (lr : dval) (c : option targ) :
  cellOk h c -> safe (run0 c_SGD_toValidInputs fuel depth [lr; dcell c] h).
Proof. intros H1. eapply outcome_safe, SGD_toValidInputs_spec; assumption. Qed.

Corollary FC_validateInitializedWeights_never_panics fuel depth (h : heap) (w b : targ) (inputs outputs : Z) (rest : dval) :
  targOk h w -> targOk h b ->
  safe (run0 c_FC_validateInitializedWeights fuel depth [dtarg w; dtarg b; DL [DI inputs; DI outputs; rest]] h).
Proof. intros H1 H2. eapply outcome_safe, FC_validateInitializedWeights_spec; assumption. Qed.

End CompValid.

Print Assumptions MSE_validateInputs_spec.
Print Assumptions BCE_validateInputs_spec.
Print Assumptions Accuracy_validateInputs_spec.
Print Assumptions CE_validateInputs_spec.
Print Assumptions Relu_toValidInputs_spec.
Print Assumptions Sigmoid_toValidInputs_spec.
Print Assumptions Tanh_toValidInputs_spec.
Print Assumptions LeakyRelu_toValidInputs_spec.
Print Assumptions Softmax_toValidInputs_spec.
Print Assumptions Softmax_toValidInputs_model.
Print Assumptions Softmax_toValidInputs_ok_iff.
Print Assumptions FC_toValidInputs_spec.
Print Assumptions FC_toValidInputs_ok_iff.
Print Assumptions SGD_toValidInputs_spec.
Print Assumptions SGD_toValidInputs_ok_iff.
Print Assumptions SGD_toValidInputs_err.
Print Assumptions SGD_toValidInputs_model.
Print Assumptions FC_validateInitializedWeights_spec.
Print Assumptions FC_validateInitializedWeights_ok_iff.
Print Assumptions MSE_validateInputs_never_panics.
Print Assumptions BCE_validateInputs_never_panics.
Print Assumptions Accuracy_validateInputs_never_panics.
Print Assumptions CE_validateInputs_never_panics.
Print Assumptions Relu_toValidInputs_never_panics.
Print Assumptions Sigmoid_toValidInputs_never_panics.
Print Assumptions Tanh_toValidInputs_never_panics.
Print Assumptions LeakyRelu_toValidInputs_never_panics.
Print Assumptions Softmax_toValidInputs_never_panics.
Print Assumptions FC_toValidInputs_never_panics.
Print Assumptions SGD_toValidInputs_never_panics.
Print Assumptions FC_validateInitializedWeights_never_panics.

(* ================= examples over the free scalar algebra [term] ================= *)
Section Examples.
Definition ex_lib (f : string) (a : list (@dval term)) (h : @heap term) : option (list (@dval term) * @heap term) := None.
Definition ex_tb (a b : term) := true.
Definition ex_vec : tensor term := mkT [2%nat] (Vec [Sc (TConst 1 0); Sc (TConst 2 0)]).
Definition ex_mat : tensor term := mkT [1%nat; 2%nat] (Vec [Vec [Sc (TConst 1 0); Sc (TConst 2 0)]]).
(* nodes 0, 1: vectors of length 2; node 2: a 1x2 matrix; node 3: a vector that has a gradient *)
Definition ex_h : @heap term :=
  [mkNode ex_vec false false None [] None; mkNode ex_vec false false None [] None;
   mkNode ex_mat false false None [] None; mkNode ex_vec true false (Some ex_vec) [] None].
Definition ex_run p args := outcome (drun cfapp (@heap term) (cext0 ex_tb ex_tb ex_lib) p 0 0 args ex_h).

Example ex_MSE_ok : ex_run c_MSE_validateInputs [dtarg (Some 0%nat); dtarg (Some 1%nat)] = Some ([DI 0], ex_h)
                    /\ lossArgs1 ex_h (Some 0%nat) (Some 1%nat) = Some (0%nat, 1%nat).
Proof. vm_compute. split; reflexivity. Qed.
Example ex_MSE_rank : ex_run c_MSE_validateInputs [dtarg (Some 0%nat); dtarg (Some 2%nat)] = Some ([DI 1], ex_h)
                      /\ lossArgs1 ex_h (Some 0%nat) (Some 2%nat) = None.
Proof. vm_compute. split; reflexivity. Qed.
Example ex_BCE_nil : ex_run c_BCE_validateInputs [dtarg None; dtarg (Some 1%nat)] = Some ([DI 1], ex_h).
Proof. vm_compute. reflexivity. Qed.
Example ex_Acc_ok : ex_run c_Accuracy_validateInputs [DI 7; DF (TConst 3 0); dtarg (Some 3%nat); dtarg (Some 1%nat)] = Some ([DI 0], ex_h).
Proof. vm_compute. reflexivity. Qed.
Example ex_CE_ok : ex_run c_CE_validateInputs [dtarg (Some 2%nat); dtarg (Some 2%nat)] = Some ([DI 0], ex_h)
                   /\ lossArgs2 ex_h (Some 2%nat) (Some 2%nat) = Some (2%nat, 2%nat).
Proof. vm_compute. split; reflexivity. Qed.
Example ex_CE_rank : ex_run c_CE_validateInputs [dtarg (Some 2%nat); dtarg (Some 0%nat)] = Some ([DI 1], ex_h).
Proof. vm_compute. reflexivity. Qed.
Example ex_Relu_ok : ex_run c_Relu_toValidInputs [DL (map dtarg [Some 1%nat])] = Some ([DI 1; DI 0], ex_h).
Proof. vm_compute. reflexivity. Qed.
Example ex_Tanh_nil : ex_run c_Tanh_toValidInputs [DL (map dtarg [None])] = Some ([DNil; DI 1], ex_h).
Proof. vm_compute. reflexivity. Qed.
Example ex_Sigmoid_two : ex_run c_Sigmoid_toValidInputs [DL (map dtarg [Some 0%nat; Some 1%nat])] = Some ([DNil; DI 1], ex_h).
Proof. vm_compute. reflexivity. Qed.
Example ex_Leaky_none : ex_run c_LeakyRelu_toValidInputs [DF (TConst 1 (-2)); DL (map dtarg [])] = Some ([DNil; DI 1], ex_h).
Proof. vm_compute. reflexivity. Qed.
Example ex_Softmax_ok : ex_run c_Softmax_toValidInputs [DI 1; DL (map dtarg [Some 2%nat])] = Some ([DI 2; DI 0], ex_h).
Proof. vm_compute. reflexivity. Qed.
Example ex_Softmax_rank : ex_run c_Softmax_toValidInputs [DI 2; DL (map dtarg [Some 2%nat])] = Some ([DI 2; DI 1], ex_h).
Proof. vm_compute. reflexivity. Qed.
Example ex_FC_ok : ex_run c_FC_toValidInputs [DI 0; DI 1; DL (map dtarg [Some 2%nat])] = Some ([DI 2; DI 0], ex_h).
Proof. vm_compute. reflexivity. Qed.
Example ex_FC_rank : ex_run c_FC_toValidInputs [DI 0; DI 1; DL (map dtarg [Some 0%nat])] = Some ([DI 0; DI 1], ex_h).
Proof. vm_compute. reflexivity. Qed.
Example ex_SGD_ok : ex_run c_SGD_toValidInputs [DF (TConst 1 (-2)); dcell (Some (Some 3%nat))] = Some ([DI 3; embT ex_vec; DI 0], ex_h).
Proof. vm_compute. reflexivity. Qed.
Example ex_SGD_nograd : ex_run c_SGD_toValidInputs [DF (TConst 1 (-2)); dcell (Some (Some 0%nat))] = Some ([DI 0; DNil; DI 1], ex_h).
Proof. vm_compute. reflexivity. Qed.
Example ex_SGD_nilptr : ex_run c_SGD_toValidInputs [DF (TConst 1 (-2)); dcell None] = Some ([DNil; DNil; DI 1], ex_h).
Proof. vm_compute. reflexivity. Qed.
Example ex_SGD_nilcell : ex_run c_SGD_toValidInputs [DF (TConst 1 (-2)); dcell (Some None)] = Some ([DNil; DNil; DI 1], ex_h).
Proof. vm_compute. reflexivity. Qed.
Example ex_Weights_ok : ex_run c_FC_validateInitializedWeights [dtarg (Some 0%nat); dtarg (Some 1%nat); DL [DI 5; DI 2; DNil]] = Some ([DI 0], ex_h).
Proof. vm_compute. reflexivity. Qed.
Example ex_Weights_len : ex_run c_FC_validateInitializedWeights [dtarg (Some 0%nat); dtarg (Some 1%nat); DL [DI 5; DI 3; DNil]] = Some ([DI 1], ex_h).
Proof. vm_compute. reflexivity. Qed.
(* the validity hypothesis on node ids is needed: a dangling id makes the Shape oracle (and Go: a nil receiver) panic *)
Example ex_dangling : ex_run c_MSE_validateInputs [dtarg (Some 9%nat); dtarg (Some 1%nat)] = None.
Proof. vm_compute. reflexivity. Qed.
End Examples.
