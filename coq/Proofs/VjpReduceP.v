(* VjpReduceP.v — the backward rules of the seven REDUCTIONS ALONG A DIMENSION are
   vector-Jacobian products (property C02), for the real-number instance [R_scalar thr draw].

   y = red_dim(x),  dims y = squeezeDims dim (dims x);  output element j depends on the fibre
   x[ins dim k j], k < n,  n := nth dim (dims x) 0.  The rule's dimension is [Z.of_nat dim] with
   [dim < length (dims x)]: exactly the Go ints the validator of the forward call accepts.

   A. index bookkeeping (del / ins of the reduced position, flatIdx, bproj, targetBroadcastDims).
   0. [reducerBroadcasted_get] (any scalar type) / [reducerBroadcasted_spec] (reals): UnSqueeze(dim)
      then Broadcast to x's shape copies the upstream gradient along the reduced dimension,
      gb i = gy (del dim i);  [arith_unsq_get]: t (op) UnSqueeze(u, dim) reads u at [del dim i].
   1. generic: [vjp_fibrewise] — a map that applies one function [phi] to every fibre has the block
      Jacobian  d y_j / d x_i = [del dim i = j] * d phi / d v_(nth dim i);  finite sums.
   2. formula level, no differentiability guard ("never fails" + exact element formula):
      [rsum_eval] [ravg_eval] [rvar_eval] [rstd_eval] [rext_eval];  [vjp_sumAlong] [vjp_avgAlong].
   3. one-variable analysis: [d_varN] [d_stdN] [d_extN] (local constancy at a strict extremum).
   4. analytic: [vjp_varAlong] [vjp_stdAlong] [vjp_extAlong] ([vjp_maxAlong] [vjp_minAlong] and the
      [.._ord] variants);  [forward_along], [forward_max_nonneg], [forward_min_nonpos]: the forward
      values are the maps F that are differentiated.
   5. examples. *)
From Coq Require Import List Arith ZArith Bool Lia Reals Lra.
From Coquelicot Require Import Coquelicot.
From Qeep Require Import Model.Scalar Model.Nd Model.Fill Model.Data Model.Valid Model.Api Model.Grad.
From Qeep Require Import Proofs.NdP Proofs.ElemP Proofs.OdometerP Proofs.ReshapeP Proofs.BroadcastP Proofs.ArithP.
From Qeep Require Import Proofs.ReduceP Proofs.ReduceRP.
From Qeep Require Import Spec.RScalar Spec.ScalarDeriv Spec.VjpSpec Proofs.VjpElemP.
Import ListNotations.
Local Open Scope nat_scope.

(* ================================================================================= *)
(* A. index bookkeeping: deleting / inserting the reduced position                    *)
(* ================================================================================= *)

Lemma vi_del dim : forall ds i, validIdx ds i -> validIdx (del dim ds) (del dim i).
Proof.
  induction dim as [|m IH]; intros ds i H; destruct H as [|a d i ds Ha Hr].
  - constructor.
  - rewrite !del_0. exact Hr.
  - constructor.
  - rewrite !del_S. constructor; [exact Ha|apply IH, Hr].
Qed.

Lemma vi_ins dim : forall ds j k, dim < length ds -> validIdx (del dim ds) j -> k < nth dim ds 0 ->
  validIdx ds (ins dim k j).
Proof.
  induction dim as [|m IH]; intros [|d ds] j k Hl Hv Hk; cbn [length] in Hl; try lia.
  - rewrite del_0 in Hv. rewrite ins_0. cbn [nth] in Hk. constructor; assumption.
  - rewrite del_S in Hv. apply validIdx_cons in Hv as (a & r & -> & Ha & Hr).
    rewrite ins_S. cbn [nth] in Hk. constructor; [exact Ha|]. apply IH; [lia|exact Hr|exact Hk].
Qed.

Lemma vi_ins1 dim : forall ds j, dim <= length ds -> validIdx ds j -> validIdx (ins dim 1 ds) (ins dim 0 j).
Proof.
  induction dim as [|m IH]; intros ds j Hl Hv.
  - rewrite !ins_0. constructor; [lia|exact Hv].
  - destruct Hv as [|a d j ds Ha Hr]; cbn [length] in Hl; [lia|].
    rewrite !ins_S. constructor; [exact Ha|]. apply IH; [lia|exact Hr].
Qed.

Lemma vi_nth dim : forall ds i, validIdx ds i -> dim < length ds -> nth dim i 0 < nth dim ds 0.
Proof.
  induction dim as [|m IH]; intros ds i H Hl; destruct H as [|a d i ds Ha Hr]; cbn [length] in Hl; try lia.
  - exact Ha.
  - cbn [nth]. apply IH; [exact Hr|lia].
Qed.

Lemma prodn_ins1 dim ds : prodn (ins dim 1 ds) = prodn ds.
Proof. exact (unsqueezeDims_prodn dim ds). Qed.

(* the row-major position is unchanged by inserting a dimension of size 1 *)
Lemma flatIdx_ins10 dim : forall ds j, dim <= length ds -> validIdx ds j ->
  flatIdx (ins dim 1 ds) (ins dim 0 j) = flatIdx ds j.
Proof.
  induction dim as [|m IH]; intros ds j Hl Hv.
  - rewrite !ins_0. cbn [flatIdx]. lia.
  - destruct Hv as [|a d j ds Ha Hr]; cbn [length] in Hl; [lia|].
    rewrite !ins_S. cbn [flatIdx]. rewrite prodn_ins1, IH by (try lia; exact Hr). reflexivity.
Qed.

Definition bc1 (d sh : nat) : Prop := d = sh \/ d = 1.

Lemma Forall2_bc1_ins dim : forall ds, dim < length ds -> Forall2 bc1 (ins dim 1 (del dim ds)) ds.
Proof.
  assert (R : forall l, Forall2 bc1 l l) by (induction l as [|a l IHl]; constructor; [left; reflexivity|exact IHl]).
  induction dim as [|m IH]; intros [|d ds] Hl; cbn [length] in Hl; try lia.
  - rewrite del_0, ins_0. constructor; [right; reflexivity|apply R].
  - rewrite del_S, ins_S. constructor; [left; reflexivity|apply IH; lia].
Qed.

Lemma ins1_del_length {X} dim (v : X) (l : list X) : dim < length l -> length (ins dim v (del dim l)) = length l.
Proof. intros H. rewrite ins_length, del_length by exact H. lia. Qed.

Lemma bcompat_ins1 dim ds : dim < length ds -> bcompat (ins dim 1 (del dim ds)) ds.
Proof.
  intros H. unfold bcompat. rewrite ins1_del_length by exact H. split; [lia|].
  rewrite Nat.sub_diag. cbn [skipn]. apply (Forall2_bc1_ins dim ds H).
Qed.

(* the broadcasting projection onto that shape zeroes the component [dim] *)
Lemma bproj_ins1 dim ds i : dim < length ds -> validIdx ds i ->
  bproj (ins dim 1 (del dim ds)) ds i = ins dim 0 (del dim i).
Proof.
  intros Hl Hv. unfold bproj. rewrite ins1_del_length by exact Hl. rewrite Nat.sub_diag. cbn [skipn].
  revert ds i Hl Hv. induction dim as [|m IH]; intros ds i Hl Hv;
    destruct Hv as [|a d i ds Ha Hr]; cbn [length] in Hl; try lia.
  - rewrite !del_0, !ins_0. cbn [combine map fst snd Nat.eqb]. f_equal.
    pose proof (bproj_id ds i Hr) as E. unfold bproj in E. rewrite Nat.sub_diag in E. exact E.
  - rewrite !del_S, !ins_S. cbn [combine map fst snd]. f_equal; [|apply IH; [lia|exact Hr]].
    destruct (Nat.eqb_spec d 1) as [E|E]; lia.
Qed.

Lemma tbdRev_bc1 : forall src ds, Forall2 bc1 src ds -> allpos ds -> tbdRev ds src = ds.
Proof.
  induction 1 as [|d sh src ds Hd _ IH]; intros Hp; [reflexivity|].
  inversion Hp as [|? ? Hsh Hp']; subst. cbn [tbdRev]. rewrite IH by exact Hp'. f_equal.
  destruct Hd as [->| ->]; lia.
Qed.

Lemma tbd_ins1 dim ds : allpos ds -> dim < length ds -> targetBroadcastDims ds (ins dim 1 (del dim ds)) = ds.
Proof.
  intros Hp Hl. unfold targetBroadcastDims. rewrite tbdRev_bc1.
  - apply rev_involutive.
  - apply Forall2_rev', Forall2_bc1_ins, Hl.
  - apply Forall_rev, Hp.
Qed.

Lemma ins_eq_iff {X} dim (k d : X) (j i : list X) : dim < length i -> dim <= length j ->
  (ins dim k j = i <-> del dim i = j /\ nth dim i d = k).
Proof.
  intros Hi Hj. split.
  - intros <-. split; [apply del_ins, Hj|apply nth_ins, Hj].
  - intros [<- <-]. apply ins_del, Hi.
Qed.

Lemma map_Some_inj' {X} (l1 l2 : list X) : map Some l1 = map Some l2 -> l1 = l2.
Proof.
  revert l2. induction l1 as [|a l1 IH]; intros [|b l2] H; cbn in H; try discriminate; [reflexivity|].
  inversion H; subst. f_equal. apply IH. assumption.
Qed.

(* ================================================================================= *)
(* 0. UnSqueeze(dim) + Broadcast to the operand's shape, for any scalar type           *)
(* ================================================================================= *)
Section RB.
Context {A : Type} {SA : Scalar A}.
Notation T := (tensor A).

Lemma unsq_bcast_get (u t : T) dim :
  wf u -> wf t -> dim < length (dims t) -> dims u = squeezeDims dim (dims t) ->
  exists o ub, v_unsqueeze u (Z.of_nat dim) = Ok o /\ v_broadcast o (zdims t) = Ok ub /\
    dims o = ins dim 1 (del dim (dims t)) /\ wf o /\ dims ub = dims t /\ wf ub /\
    forall i, validIdx (dims t) i -> get (data ub) i = get (data u) (del dim i).
Proof.
  intros Hu Ht Hl Hdu. rewrite squeezeDims_del in Hdu.
  assert (Hlu : length (dims u) = length (dims t) - 1) by (rewrite Hdu; apply del_length, Hl).
  assert (Hval : validateUnSqueezeDim (Z.of_nat dim) (zdims u) = true)
    by (apply validateUnSqueezeDim_iff; lia).
  destruct (v_unsqueeze_spec A u (Z.of_nat dim) Hu) as [H1 _].
  destruct (H1 Hval) as (o & Eo & Hdo & Hwo & Hfl). rewrite Nat2Z.id, Hdu in Hdo.
  change (unsqueezeDims dim (del dim (dims t))) with (ins dim 1 (del dim (dims t))) in Hdo.
  assert (Hvb : validateInputDims (zdims t) && validateBroadcast (zdims o) (zdims t) = true).
  { apply (validateBroadcast_shape_iff A o). exists (dims t). split; [reflexivity|].
    split; [exact (proj2 Ht)|]. rewrite Hdo. apply bcompat_ins1, Hl. }
  destruct (v_broadcast_spec A o (zdims t) Hwo) as [H2 _].
  destruct (H2 Hvb) as (ub & Eb & Hdb & Hwb & Hgb). unfold zdims in Hdb, Hgb. rewrite natsOf_of_nat in Hdb, Hgb.
  exists o, ub. repeat (split; [assumption|]).
  intros i Hv. rewrite (Hgb i Hv), Hdo, (bproj_ins1 dim (dims t) i Hl Hv).
  pose proof (vi_del dim _ _ Hv) as Hvd. rewrite <- Hdu in Hvd.
  assert (Hld : dim <= length (dims u)) by lia.
  pose proof (vi_ins1 dim _ _ Hld Hvd) as Hvo.
  destruct Hwo as [Hwo _]. rewrite Hdo, <- Hdu in Hwo.
  rewrite <- (flat_nth A _ _ _ Hwo Hvo), Hfl, (flatIdx_ins10 dim _ _ Hld Hvd).
  apply (flat_nth A _ _ _ (proj1 Hu) Hvd).
Qed.

(* key forward lemma for every reduction rule *)
Theorem reducerBroadcasted_get (gy xv : T) dim :
  wf gy -> wf xv -> dim < length (dims xv) -> dims gy = squeezeDims dim (dims xv) ->
  exists gb, reducerBroadcasted gy xv (Z.of_nat dim) = Ok gb /\ dims gb = dims xv /\ wf gb /\
    forall i, validIdx (dims xv) i -> get (data gb) i = get (data gy) (del dim i).
Proof.
  intros Hg Hx Hl Hd. destruct (unsq_bcast_get gy xv dim Hg Hx Hl Hd) as (o & gb & Eo & Eb & _ & _ & Hdb & Hwb & Hgb).
  exists gb. unfold reducerBroadcasted. rewrite Eo. cbn [res_bind]. rewrite Eb. auto.
Qed.

(* a binary arithmetic operation between t and the unsqueezed u: the implicit broadcasting
   reads u at the index with the reduced position deleted *)
Lemma arith_unsq_get (b : binary) (t u : T) dim :
  wf t -> wf u -> dim < length (dims t) -> dims u = squeezeDims dim (dims t) ->
  exists o r, v_unsqueeze u (Z.of_nat dim) = Ok o /\ v_arith b t o = Ok r /\ dims r = dims t /\ wf r /\
    forall i, validIdx (dims t) i ->
      exists a c, get (data t) i = Some a /\ get (data u) (del dim i) = Some c /\
                  get (data r) i = Some (binaryF b a c).
Proof.
  intros Ht Hu Hl Hd. destruct (unsq_bcast_get u t dim Hu Ht Hl Hd) as (o & ub & Eo & Eb & Hdo & Hwo & Hdb & Hwb & Hgb).
  pose proof (v_arith_eq_explicit b t o t ub Ht Hwo) as H. cbv zeta in H.
  rewrite Hdo, (tbd_ins1 dim (dims t) (proj2 Ht) Hl) in H.
  destruct (H (v_broadcast_id t Ht) Eb) as (_ & E & _).
  destruct (v_same_spec b t ub Ht Hwb) as [Hs _]. destruct (Hs (eq_sym Hdb)) as (r & Er & Hdr & Hwr & Hgr).
  exists o, r. split; [exact Eo|]. split; [rewrite E; exact Er|]. split; [exact Hdr|]. split; [exact Hwr|].
  intros i Hv. destruct (get_wf A _ _ _ (proj1 Ht) Hv) as (a & Ea).
  pose proof (vi_del dim _ _ Hv) as Hvd. rewrite <- squeezeDims_del, <- Hd in Hvd.
  destruct (get_wf A _ _ _ (proj1 Hu) Hvd) as (c & Ec).
  exists a, c. split; [exact Ea|]. split; [exact Ec|].
  rewrite (Hgr i Hv), Ea, (Hgb i Hv), Ec. reflexivity.
Qed.

End RB.

Local Open Scope R_scope.

(* ================================================================================= *)
(* 1. generic: a fibre-wise map has a block Jacobian                                  *)
(* ================================================================================= *)

(* the fibre of the assignment [a] through [j] along [dim], as a function of the position *)
Definition fib (a : assignment) (dim : nat) (j : list nat) : nat -> R := fun k => a (ins dim k j).
(* [c] with [t] added at position [k0] *)
Definition bump (c : nat -> R) (k0 : nat) (t : R) : nat -> R :=
  fun k => c k + (if (k =? k0)%nat then t else 0).

Lemma fib_perturb x i t dim j : (dim < length i)%nat -> (dim <= length j)%nat -> forall k,
  fib (perturb x i t) dim j k =
  if idx_eqb (del dim i) j then bump (fib x dim j) (nth dim i 0%nat) t k else fib x dim j k.
Proof.
  intros Hi Hj k. unfold fib, perturb, bump.
  pose proof (ins_eq_iff dim k 0%nat j i Hi Hj) as Hiff.
  destruct (idx_eqb (ins dim k j) i) eqn:E.
  - apply idx_eqb_eq in E. apply Hiff in E as [E1 E2].
    rewrite (proj2 (idx_eqb_eq _ _) E1). rewrite E2, Nat.eqb_refl. reflexivity.
  - destruct (idx_eqb (del dim i) j) eqn:E2; [|reflexivity].
    apply idx_eqb_eq in E2. destruct (Nat.eqb_spec k (nth dim i 0%nat)) as [E3|E3]; [|ring].
    exfalso. assert (E4 : ins dim k j = i) by (apply Hiff; split; [exact E2|symmetry; exact E3]).
    apply idx_eqb_eq in E4. congruence.
Qed.

(* F a j = phi (fibre of a through j): output j depends on fibre j only, and within it the
   partial derivative with respect to position k0 is the one-variable derivative of
   t |-> phi (fibre + t at k0).  The VJP collapses to one term. *)
Theorem vjp_fibrewise ds dim (phi : (nat -> R) -> R) (D : list nat -> nat -> R) (x gy g : assignment) :
  (dim < length ds)%nat ->
  (forall v w, (forall k, v k = w k) -> phi v = phi w) ->
  (forall j k0, validIdx (del dim ds) j -> (k0 < nth dim ds 0)%nat ->
     is_derive (fun t => phi (bump (fib x dim j) k0 t)) 0 (D j k0)) ->
  (forall i, validIdx ds i -> g i = gy (del dim i) * D (del dim i) (nth dim i 0%nat)) ->
  is_vjp ds (del dim ds) (fun a j => phi (fib a dim j)) x gy g.
Proof.
  intros Hl Hext Hd Hg i Hi.
  pose proof (validIdx_length _ _ Hi) as Li.
  pose proof (vi_del dim _ _ Hi) as Hj0.
  pose proof (vi_nth dim _ _ Hi Hl) as Hk0.
  set (j0 := del dim i) in *. set (k0 := nth dim i 0%nat) in *.
  exists (fun j => if idx_eqb j j0 then D j0 k0 else 0). split.
  - intros j Hj. pose proof (validIdx_length _ _ Hj) as Lj. rewrite del_length in Lj by exact Hl.
    unfold is_partial. destruct (idx_eqb j j0) eqn:E.
    + apply idx_eqb_eq in E. subst j.
      apply (is_derive_ext (fun t => phi (bump (fib x dim j0) k0 t))); [|apply Hd; assumption].
      intros t. apply Hext. intros k. rewrite fib_perturb by lia. fold j0 k0.
      rewrite idx_eqb_refl. reflexivity.
    + apply (is_derive_ext (fun _ => phi (fib x dim j))); [|apply (is_derive_const (phi (fib x dim j)) 0)].
      intros t. apply Hext. intros k. rewrite fib_perturb by lia. fold j0.
      destruct (idx_eqb j0 j) eqn:E2; [|reflexivity].
      apply idx_eqb_eq in E2. subst j. rewrite idx_eqb_refl in E. discriminate.
  - rewrite (Hg i Hi). fold j0 k0.
    rewrite (sumIdx_ext (del dim ds) _ (fun j => if idx_eqb j j0 then gy j * D j0 k0 else 0)).
    + rewrite (sumIdx_single (del dim ds) j0 (fun j => gy j * D j0 k0) Hj0). reflexivity.
    + intros j _. destruct (idx_eqb j j0); [reflexivity|ring].
Qed.

(* ---------- finite sums over a fibre ---------- *)
Lemma Rsum_ext_in {X} (l : list X) (f g : X -> R) :
  (forall x, In x l -> f x = g x) -> Rsum (map f l) = Rsum (map g l).
Proof. intros H. f_equal. apply map_ext_in, H. Qed.

Lemma Rsum_lin {X} (l : list X) p q (f g : X -> R) :
  Rsum (map (fun k => p * f k + q * g k) l) = p * Rsum (map f l) + q * Rsum (map g l).
Proof. unfold Rsum. induction l as [|a l IH]; cbn [map fold_right]; [ring|rewrite IH; ring]. Qed.

Lemma Rsum_const {X} (l : list X) q : Rsum (map (fun _ => q) l) = INR (length l) * q.
Proof.
  unfold Rsum. induction l as [|a l IH]; [cbn; ring|].
  cbn [map fold_right length]. rewrite IH, S_INR. ring.
Qed.

Lemma Rsum_single n : forall s k0 (h : nat -> R),
  Rsum (map (fun k => if (k =? k0)%nat then h k else 0) (seq s n)) =
  if ((s <=? k0) && (k0 <? s + n))%nat then h k0 else 0.
Proof.
  unfold Rsum. induction n as [|n IH]; intros s k0 h.
  - cbn [seq map fold_right].
    destruct (Nat.leb_spec s k0), (Nat.ltb_spec k0 (s + 0)); cbn [andb]; try reflexivity; lia.
  - cbn [seq map fold_right]. rewrite IH.
    destruct (Nat.eqb_spec s k0) as [E|E];
      destruct (Nat.leb_spec (S s) k0), (Nat.ltb_spec k0 (S s + n)), (Nat.leb_spec s k0), (Nat.ltb_spec k0 (s + S n));
      cbn [andb]; try lia; subst; lra.
Qed.

Lemma Rsum_bump c k0 t n : (k0 < n)%nat ->
  Rsum (map (bump c k0 t) (seq 0 n)) = Rsum (map c (seq 0 n)) + t.
Proof.
  intros H. unfold bump.
  rewrite (Rsum_ext_in _ _ (fun k => 1 * c k + 1 * (if (k =? k0)%nat then t else 0))) by (intros; ring).
  rewrite Rsum_lin, (Rsum_single n 0 k0 (fun _ => t)).
  destruct (Nat.leb_spec 0 k0), (Nat.ltb_spec k0 (0 + n)); cbn [andb]; try lia. ring.
Qed.

Lemma is_derive_Rsum (l : list nat) (f : nat -> R -> R) (d : nat -> R) t0 :
  (forall k, In k l -> is_derive (f k) t0 (d k)) ->
  is_derive (fun t => Rsum (map (fun k => f k t) l)) t0 (Rsum (map d l)).
Proof.
  unfold Rsum. induction l as [|a l IH]; intros H; cbn [map fold_right].
  - apply (is_derive_const 0 t0).
  - apply (is_derive_plus (f a) (fun t => fold_right Rplus 0 (map (fun k => f k t) l)) t0 (d a)).
    + apply H. left. reflexivity.
    + apply IH. intros k Hk. apply H. right. exact Hk.
Qed.

(* the one-variable derivatives of sum and mean in one position of the fibre *)
Definition sumN (n : nat) (v : nat -> R) : R := Rsum (map v (seq 0 n)).
Definition meanN (n : nat) (v : nat -> R) : R := sumN n v / INR n.

Lemma sumN_ext n v w : (forall k, v k = w k) -> sumN n v = sumN n w.
Proof. intros H. unfold sumN. f_equal. apply map_ext, H. Qed.

Lemma sumN_bump n c k0 t : (k0 < n)%nat -> sumN n (bump c k0 t) = sumN n c + t.
Proof. apply Rsum_bump. Qed.

Lemma d_sumN n c k0 : (k0 < n)%nat -> is_derive (fun t => sumN n (bump c k0 t)) 0 1.
Proof.
  intros H. apply (is_derive_ext (fun t => sumN n c + t)); [intros t; symmetry; apply sumN_bump, H|].
  auto_derive; [exact I|ring].
Qed.

Lemma d_meanN n c k0 : (k0 < n)%nat -> is_derive (fun t => meanN n (bump c k0 t)) 0 (/ INR n).
Proof.
  intros H. unfold meanN.
  assert (E : forall t, / INR n * (sumN n c + t) = sumN n (bump c k0 t) / INR n)
    by (intros t; rewrite sumN_bump by exact H; unfold Rdiv; ring).
  apply (is_derive_ext (fun t => / INR n * (sumN n c + t))).
  - exact E.
  - assert (Hd : is_derive (fun t => / INR n * (sumN n c + t)) 0 (/ INR n * 1))
      by (apply is_derive_scal; auto_derive; [exact I|ring]).
    rewrite Rmult_1_r in Hd. exact Hd.
Qed.

(* ================================================================================= *)
(* 2. the rules                                                                       *)
(* ================================================================================= *)
Section VjpReduce.
Variables (thr : R) (draw : bool -> nat -> R).
Local Hint Extern 0 (Scalar R) => exact (R_scalar thr draw) : typeclass_instances.
Notation T := (tensor R).
Notation cstR := (@cst R (R_scalar thr draw)).

Lemma elt_some (t : T) idx : wf t -> validIdx (dims t) idx -> get (data t) idx = Some (elt t idx).
Proof. intros [Hw _] Hv. destruct (get_wf R _ _ _ Hw Hv) as (a & E). unfold elt. rewrite E. reflexivity. Qed.

(* ---- 0. the key forward lemma at the level of real assignments ---- *)
Theorem reducerBroadcasted_spec (gy xv : T) dim :
  wf gy -> wf xv -> (dim < length (dims xv))%nat -> dims gy = squeezeDims dim (dims xv) ->
  exists gb, reducerBroadcasted gy xv (Z.of_nat dim) = Ok gb /\ dims gb = dims xv /\ wf gb /\
    forall i, validIdx (dims xv) i -> elt gb i = elt gy (del dim i).
Proof.
  intros Hg Hx Hl Hd. destruct (reducerBroadcasted_get gy xv dim Hg Hx Hl Hd) as (gb & E & Hdb & Hwb & Hgb).
  exists gb. repeat (split; [assumption|]). intros i Hv. unfold elt. rewrite (Hgb i Hv). reflexivity.
Qed.

Lemma arun_elt (b : binary) (t u : T) dim :
  wf t -> wf u -> (dim < length (dims t))%nat -> dims u = squeezeDims dim (dims t) ->
  exists o r, v_unsqueeze u (Z.of_nat dim) = Ok o /\ v_arith b t o = Ok r /\ dims r = dims t /\ wf r /\
    forall i, validIdx (dims t) i -> elt r i = binaryF b (elt t i) (elt u (del dim i)).
Proof.
  intros Ht Hu Hl Hd. destruct (arith_unsq_get b t u dim Ht Hu Hl Hd) as (o & r & Eo & Er & Hdr & Hwr & Hgr).
  exists o, r. repeat (split; [assumption|]). intros i Hv.
  destruct (Hgr i Hv) as (a & c & Ea & Ec & Eg). unfold elt. rewrite Ea, Ec, Eg. reflexivity.
Qed.

(* the forward operation, element-wise: the list reducer applied to the fibre *)
Lemma along_elt (r : reducer) (xv : T) dim : wf xv -> (dim < length (dims xv))%nat ->
  exists yv, v_reduceAlong r xv (Z.of_nat dim) = Ok yv /\ dims yv = squeezeDims dim (dims xv) /\ wf yv /\
    forall j, validIdx (squeezeDims dim (dims xv)) j ->
      elt yv j = redL r (map (fib (elt xv) dim j) (seq 0 (nth dim (dims xv) 0%nat))).
Proof.
  intros Hw Hl.
  pose proof (v_reduceAlong_elems r xv (Z.of_nat dim) Hw ltac:(lia)) as H. cbv zeta in H. rewrite Nat2Z.id in H.
  destruct H as (yv & E & Hd & Hwy & Hel). exists yv. repeat (split; [assumption|]). intros j Hv.
  destruct (Hel j Hv) as (fibre & Hf & Hg). unfold elt at 1. rewrite Hg. f_equal.
  apply map_Some_inj'. rewrite Hf, map_map. apply map_ext_in. intros k Hk. apply in_seq in Hk.
  change (firstn dim j ++ k :: skipn dim j) with (ins dim k j). unfold fib.
  apply elt_some; [exact Hw|]. apply vi_ins; [exact Hl|rewrite <- squeezeDims_del; exact Hv|lia].
Qed.

Implicit Types (rd : bred) (h : @heap R) (xv yv gy : T).

Ltac open_rule :=
  unfold eval_rule, gy_of, val_of;
  repeat match goal with H : valOf _ _ = Some _ |- _ => rewrite H end;
  repeat match goal with H : gradOf _ _ = Some _ |- _ => rewrite H end;
  cbn [of_opt res_bind].
Tactic Notation "from_eval" constr(L) ident(g) ident(E) ident(D) ident(W) ident(G) :=
  destruct L as (g & E & D & W & G); exists g; split; [exact E|]; split; [exact D|]; split; [exact W|].

(* ---------- SumAlong: g i = gy (del dim i) ---------- *)
Lemma rsum_eval rd h y x dim xv gy :
  valOf h x = Some xv -> gradOf h y = Some gy -> wf xv -> wf gy ->
  (dim < length (dims xv))%nat -> dims gy = squeezeDims dim (dims xv) ->
  exists g, eval_rule rd h (RSumAlong y x (Z.of_nat dim)) = Ok g /\ dims g = dims xv /\ wf g /\
    forall i, validIdx (dims xv) i -> elt g i = elt gy (del dim i).
Proof.
  intros Hx Hg Wx Wg Hl Ed. open_rule. exact (reducerBroadcasted_spec gy xv dim Wg Wx Hl Ed).
Qed.

Theorem vjp_sumAlong rd h y x dim xv gy :
  valOf h x = Some xv -> gradOf h y = Some gy -> wf xv -> wf gy ->
  (dim < length (dims xv))%nat -> dims gy = squeezeDims dim (dims xv) ->
  exists g, eval_rule rd h (RSumAlong y x (Z.of_nat dim)) = Ok g /\ dims g = dims xv /\ wf g /\
    is_vjp (dims xv) (squeezeDims dim (dims xv))
      (fun a j => Rsum (map (fun k => a (ins dim k j)) (seq 0 (nth dim (dims xv) 0%nat))))
      (elt xv) (elt gy) (elt g).
Proof.
  intros Hx Hg Wx Wg Hl Ed. from_eval (rsum_eval rd h y x dim xv gy Hx Hg Wx Wg Hl Ed) g E D W G.
  apply (vjp_fibrewise (dims xv) dim (sumN (nth dim (dims xv) 0%nat)) (fun _ _ => 1)).
  - exact Hl.
  - apply sumN_ext.
  - intros j k0 _ Hk. apply d_sumN, Hk.
  - intros i Hv. rewrite (G i Hv). ring.
Qed.

(* ---------- AvgAlong / MeanAlong: g i = gy (del dim i) / n ---------- *)
Lemma ravg_eval rd h y x dim xv gy :
  valOf h x = Some xv -> gradOf h y = Some gy -> wf xv -> wf gy ->
  (dim < length (dims xv))%nat -> dims gy = squeezeDims dim (dims xv) ->
  exists g, eval_rule rd h (RAvgAlong y x (Z.of_nat dim)) = Ok g /\ dims g = dims xv /\ wf g /\
    forall i, validIdx (dims xv) i -> elt g i = 1 / INR (nth dim (dims xv) 0%nat) * elt gy (del dim i).
Proof.
  intros Hx Hg Wx Wg Hl Ed. open_rule.
  destruct (reducerBroadcasted_spec gy xv dim Wg Wx Hl Ed) as (gb & Eb & Db & Wb & Gb). rewrite Eb. cbn [res_bind].
  unfold dimAt. rewrite Nat2Z.id.
  destruct (un_elt thr draw (UScale (sdiv (cstR 1 0) (sofnat (nth dim (dims xv) 0%nat)))) gb Wb) as (g & Eg & Dg & Wg' & Gg).
  exists g. split; [exact Eg|]. split; [congruence|]. split; [exact Wg'|].
  intros i Hv. rewrite Gg by (rewrite Db; exact Hv). rewrite (Gb i Hv), uF_scale.
  cbn [sdiv sofnat R_scalar]. rewrite cst_R, dec2R_1. reflexivity.
Qed.

Theorem vjp_avgAlong rd h y x dim xv gy :
  valOf h x = Some xv -> gradOf h y = Some gy -> wf xv -> wf gy ->
  (dim < length (dims xv))%nat -> dims gy = squeezeDims dim (dims xv) ->
  exists g, eval_rule rd h (RAvgAlong y x (Z.of_nat dim)) = Ok g /\ dims g = dims xv /\ wf g /\
    is_vjp (dims xv) (squeezeDims dim (dims xv))
      (fun a j => Rsum (map (fun k => a (ins dim k j)) (seq 0 (nth dim (dims xv) 0%nat)))
                  / INR (nth dim (dims xv) 0%nat))
      (elt xv) (elt gy) (elt g).
Proof.
  intros Hx Hg Wx Wg Hl Ed. from_eval (ravg_eval rd h y x dim xv gy Hx Hg Wx Wg Hl Ed) g E D W G.
  apply (vjp_fibrewise (dims xv) dim (meanN (nth dim (dims xv) 0%nat)) (fun _ _ => / INR (nth dim (dims xv) 0%nat))).
  - exact Hl.
  - intros v w Hvw. unfold meanN. rewrite (sumN_ext _ v w Hvw). reflexivity.
  - intros j k0 _ Hk. apply d_meanN, Hk.
  - intros i Hv. rewrite (G i Hv). unfold Rdiv. ring.
Qed.

Local Notation nOf xv dim := (nth dim (dims xv) 0%nat).

Lemma meanL_fib n (a : assignment) dim j :
  meanL (map (fib a dim j) (seq 0 n)) = meanN n (fib a dim j).
Proof.
  rewrite (mean_is_arithmetic_mean thr draw). rewrite map_length, seq_length. reflexivity.
Qed.

(* ---------- VarAlong, formula level ---------- *)
Lemma rvar_eval rd h y x dim xv gy :
  valOf h x = Some xv -> gradOf h y = Some gy -> wf xv -> wf gy ->
  (dim < length (dims xv))%nat -> dims gy = squeezeDims dim (dims xv) ->
  exists g, eval_rule rd h (RVarAlong y x (Z.of_nat dim)) = Ok g /\ dims g = dims xv /\ wf g /\
    forall i, validIdx (dims xv) i ->
      elt g i = if (nOf xv dim =? 1)%nat then 0
                else elt gy (del dim i) *
                     (2 / INR (nOf xv dim - 1) * (elt xv i - meanN (nOf xv dim) (fib (elt xv) dim (del dim i)))).
Proof.
  intros Hx Hg Wx Wg Hl Ed. open_rule.
  destruct (reducerBroadcasted_spec gy xv dim Wg Wx Hl Ed) as (gb & Eb & Db & Wb & Gb). rewrite Eb. cbn [res_bind].
  unfold dimAt. rewrite Nat2Z.id. cbv zeta.
  destruct (nOf xv dim =? 1)%nat eqn:En.
  - unfold toZeros. destruct (un_elt thr draw (UScale (sconst 0 0)) xv Wx) as (g & Eg & Dg & Wg' & Gg).
    exists g. split; [exact Eg|]. split; [exact Dg|]. split; [exact Wg'|].
    intros i Hv. rewrite (Gg i Hv), uF_scale, sconst_R, dec2R_0. ring.
  - destruct (along_elt RdMean xv dim Wx Hl) as (u & Eu & Du & Wu & Gu). rewrite Eu. cbn [res_bind].
    destruct (arun_elt BiSub xv u dim Wx Wu Hl Du) as (o & s & Eo & Es & Ds & Ws & Gs).
    rewrite Eo. cbn [res_bind]. rewrite Es. cbn [res_bind].
    destruct (un_elt thr draw (UScale (sdiv (cstR 2 0) (sofnat (nOf xv dim - 1)))) s Ws) as (c & Ec & Dc & Wc & Gc).
    rewrite Ec. cbn [res_bind].
    destruct (ar_elt thr draw BiMul gb c Wb Wc ltac:(congruence)) as (g & Eg & Dg & Wg' & Gg).
    exists g. split; [exact Eg|]. split; [congruence|]. split; [exact Wg'|].
    intros i Hv. pose proof (vi_del dim _ _ Hv) as Hvd.
    rewrite Gg by (rewrite Db; exact Hv). rewrite Gc by (rewrite Ds; exact Hv).
    rewrite (Gs i Hv), (Gb i Hv), (Gu _ Hvd). cbn [redL]. rewrite meanL_fib.
    rewrite bF_mul, uF_scale, bF_sub. cbn [sdiv sofnat R_scalar]. rewrite cst_R, dec2R_2. reflexivity.
Qed.

(* ---------- StdAlong, formula level ---------- *)
Lemma rstd_eval rd h y x dim xv yv gy :
  valOf h x = Some xv -> valOf h y = Some yv -> gradOf h y = Some gy -> wf xv -> wf yv -> wf gy ->
  (dim < length (dims xv))%nat ->
  dims yv = squeezeDims dim (dims xv) -> dims gy = squeezeDims dim (dims xv) ->
  exists g, eval_rule rd h (RStdAlong y x (Z.of_nat dim)) = Ok g /\ dims g = dims xv /\ wf g /\
    forall i, validIdx (dims xv) i ->
      elt g i = if (nOf xv dim =? 1)%nat then 0
                else elt gy (del dim i) *
                     (1 / INR (nOf xv dim - 1) *
                      ((elt xv i - meanN (nOf xv dim) (fib (elt xv) dim (del dim i))) / elt yv (del dim i))).
Proof.
  intros Hx Hy Hg Wx Wy Wg Hl Edy Ed. open_rule.
  destruct (reducerBroadcasted_spec gy xv dim Wg Wx Hl Ed) as (gb & Eb & Db & Wb & Gb). rewrite Eb. cbn [res_bind].
  unfold dimAt. rewrite Nat2Z.id. cbv zeta.
  destruct (nOf xv dim =? 1)%nat eqn:En.
  - unfold toZeros. destruct (un_elt thr draw (UScale (sconst 0 0)) xv Wx) as (g & Eg & Dg & Wg' & Gg).
    exists g. split; [exact Eg|]. split; [exact Dg|]. split; [exact Wg'|].
    intros i Hv. rewrite (Gg i Hv), uF_scale, sconst_R, dec2R_0. ring.
  - destruct (along_elt RdMean xv dim Wx Hl) as (u & Eu & Du & Wu & Gu). rewrite Eu. cbn [res_bind].
    destruct (arun_elt BiSub xv u dim Wx Wu Hl Du) as (o & s & Eo & Es & Ds & Ws & Gs).
    rewrite Eo. cbn [res_bind]. rewrite Es. cbn [res_bind].
    assert (Hls : (dim < length (dims s))%nat) by (rewrite Ds; exact Hl).
    assert (Edy' : dims yv = squeezeDims dim (dims s)) by (rewrite Ds; exact Edy).
    destruct (arun_elt BiDiv s yv dim Ws Wy Hls Edy') as (yu & q & Eyu & Eq & Dq & Wq & Gq).
    rewrite Eyu. cbn [res_bind]. rewrite Eq. cbn [res_bind].
    destruct (un_elt thr draw (UScale (sdiv (cstR 1 0) (sofnat (nOf xv dim - 1)))) q Wq) as (c & Ec & Dc & Wc & Gc).
    rewrite Ec. cbn [res_bind].
    destruct (ar_elt thr draw BiMul gb c Wb Wc ltac:(congruence)) as (g & Eg & Dg & Wg' & Gg).
    exists g. split; [exact Eg|]. split; [congruence|]. split; [exact Wg'|].
    intros i Hv. pose proof (vi_del dim _ _ Hv) as Hvd.
    rewrite Gg by (rewrite Db; exact Hv). rewrite Gc by (rewrite Dq, Ds; exact Hv).
    rewrite Gq by (rewrite Ds; exact Hv).
    rewrite (Gs i Hv), (Gb i Hv), (Gu _ Hvd). cbn [redL]. rewrite meanL_fib.
    rewrite bF_mul, uF_scale, bF_div, bF_sub. cbn [sdiv sofnat R_scalar]. rewrite cst_R, dec2R_1. reflexivity.
Qed.

(* ---------- MaxAlong / MinAlong, formula level: threshold equality with the broadcast output ---------- *)
Lemma rext_eval rd h y x dim xv yv gy :
  valOf h x = Some xv -> valOf h y = Some yv -> gradOf h y = Some gy -> wf xv -> wf yv -> wf gy ->
  (dim < length (dims xv))%nat ->
  dims yv = squeezeDims dim (dims xv) -> dims gy = squeezeDims dim (dims xv) ->
  exists g, eval_rule rd h (RExtAlong y x (Z.of_nat dim)) = Ok g /\ dims g = dims xv /\ wf g /\
    forall i, validIdx (dims xv) i ->
      elt g i = elt gy (del dim i) * eqt thr (elt xv i) (elt yv (del dim i)).
Proof.
  intros Hx Hy Hg Wx Wy Wg Hl Edy Ed. open_rule.
  destruct (reducerBroadcasted_spec gy xv dim Wg Wx Hl Ed) as (gb & Eb & Db & Wb & Gb). rewrite Eb. cbn [res_bind].
  destruct (reducerBroadcasted_spec yv xv dim Wy Wx Hl Edy) as (yb & Eyb & Dyb & Wyb & Gyb). rewrite Eyb. cbn [res_bind].
  destruct (same_elt thr draw BiEq xv yb Wx Wyb (eq_sym Dyb)) as (e & Ee & De & We & Ge). rewrite Ee. cbn [res_bind].
  destruct (ar_elt thr draw BiMul gb e Wb We ltac:(congruence)) as (g & Eg & Dg & Wg' & Gg).
  exists g. split; [exact Eg|]. split; [congruence|]. split; [exact Wg'|].
  intros i Hv. rewrite Gg by (rewrite Db; exact Hv). rewrite (Ge i Hv), (Gb i Hv), (Gyb i Hv).
  rewrite bF_mul, bF_eq. reflexivity.
Qed.

End VjpReduce.

(* ================================================================================= *)
(* 3. one-variable analysis of variance, standard deviation, maximum / minimum         *)
(* ================================================================================= *)

(* unbiased sample variance of the first n values of v (0 for a single value, as the library) *)
Definition varN (n : nat) (v : nat -> R) : R :=
  if (1 <? n)%nat
  then Rsum (map (fun k => (v k - meanN n v) * (v k - meanN n v)) (seq 0 n)) / (INR n - 1)
  else 0.

Lemma meanN_ext n v w : (forall k, v k = w k) -> meanN n v = meanN n w.
Proof. intros H. unfold meanN. rewrite (sumN_ext n v w H). reflexivity. Qed.

Lemma varN_ext n v w : (forall k, v k = w k) -> varN n v = varN n w.
Proof.
  intros H. unfold varN. rewrite (meanN_ext n v w H). destruct (1 <? n)%nat; [|reflexivity].
  f_equal. apply Rsum_ext_in. intros k _. rewrite (H k). reflexivity.
Qed.

Lemma meanN_bump n c k0 t : (k0 < n)%nat -> meanN n (bump c k0 t) = meanN n c + t / INR n.
Proof. intros H. unfold meanN. rewrite sumN_bump by exact H. unfold Rdiv. ring. Qed.

(* the deviations from the mean sum to zero *)
Lemma sum_dev_zero n c : (0 < n)%nat -> Rsum (map (fun k => c k - meanN n c) (seq 0 n)) = 0.
Proof.
  intros H. rewrite (Rsum_ext_in _ _ (fun k => 1 * c k + (-1) * meanN n c)) by (intros; ring).
  rewrite (Rsum_lin (seq 0 n) 1 (-1) c (fun _ => meanN n c)), Rsum_const, seq_length.
  unfold meanN, sumN. field. apply not_0_INR. lia.
Qed.

Lemma INR_minus1 n : (1 <= n)%nat -> INR (n - 1) = INR n - 1.
Proof. intros H. rewrite minus_INR by exact H. reflexivity. Qed.

(* d var / d x_k0 = 2 (x_k0 - mean) / (n - 1) *)
Lemma d_varN n c k0 : (k0 < n)%nat ->
  is_derive (fun t => varN n (bump c k0 t)) 0
            (if (1 <? n)%nat then 2 * (c k0 - meanN n c) / (INR n - 1) else 0).
Proof.
  intros H. unfold varN. destruct (1 <? n)%nat eqn:E1; [|apply (is_derive_const 0 0)].
  apply Nat.ltb_lt in E1.
  assert (Hn : INR n <> 0) by (apply not_0_INR; lia).
  assert (Hn1 : INR n - 1 <> 0) by (rewrite <- INR_minus1 by lia; apply not_0_INR; lia).
  set (m0 := meanN n c).
  pose (a := fun k : nat => c k - m0).
  pose (b := fun k : nat => (if (k =? k0)%nat then 1 else 0) - / INR n).
  pose (S := fun t : R => Rsum (map (fun k => (a k + b k * t) * (a k + b k * t)) (seq 0 n))).
  assert (Eq : forall t, / (INR n - 1) * S t =
     Rsum (map (fun k => (bump c k0 t k - meanN n (bump c k0 t)) * (bump c k0 t k - meanN n (bump c k0 t))) (seq 0 n))
     / (INR n - 1)).
  { intros t. unfold S, Rdiv. rewrite Rmult_comm. f_equal. apply Rsum_ext_in. intros k _.
    rewrite meanN_bump by exact H. fold m0. unfold a, b, bump.
    destruct (k =? k0)%nat; field; exact Hn. }
  apply (is_derive_ext (fun t => / (INR n - 1) * S t)); [exact Eq|].
  assert (HS : is_derive S 0 (Rsum (map (fun k => 2 * a k * b k) (seq 0 n)))).
  { unfold S. apply (is_derive_Rsum (seq 0 n) (fun k t => (a k + b k * t) * (a k + b k * t)) (fun k => 2 * a k * b k) 0).
    intros k _. auto_derive; [exact I|ring]. }
  assert (Es : Rsum (map (fun k => 2 * a k * b k) (seq 0 n)) = 2 * a k0).
  { rewrite (Rsum_ext_in _ _ (fun k => 1 * (if (k =? k0)%nat then 2 * a k else 0) + (- 2 / INR n) * a k)).
    - rewrite (Rsum_lin (seq 0 n) 1 (- 2 / INR n) (fun k => if (k =? k0)%nat then 2 * a k else 0) a).
      rewrite (Rsum_single n 0 k0 (fun k => 2 * a k)).
      destruct (Nat.leb_spec 0 k0), (Nat.ltb_spec k0 (0 + n)); cbn [andb]; try lia.
      unfold a at 2. unfold m0. rewrite sum_dev_zero by lia. ring.
    - intros k _. unfold b. destruct (k =? k0)%nat; field; exact Hn. }
  rewrite Es in HS.
  replace (2 * (c k0 - m0) / (INR n - 1)) with (/ (INR n - 1) * (2 * a k0)) by (unfold a, Rdiv; ring).
  apply is_derive_scal. exact HS.
Qed.

(* d sqrt(var) / d x_k0 = (x_k0 - mean) / ((n - 1) sqrt(var)),  where var > 0 *)
Lemma d_stdN n c k0 : (k0 < n)%nat -> ((1 < n)%nat -> 0 < varN n c) ->
  is_derive (fun t => sqrt (varN n (bump c k0 t))) 0
            (if (1 <? n)%nat then (c k0 - meanN n c) / ((INR n - 1) * sqrt (varN n c)) else 0).
Proof.
  intros H Hpos. pose proof (d_varN n c k0 H) as Hv. destruct (1 <? n)%nat eqn:E1.
  - apply Nat.ltb_lt in E1. specialize (Hpos E1).
    assert (Hn1 : INR n - 1 <> 0) by (rewrite <- INR_minus1 by lia; apply not_0_INR; lia).
    assert (E0 : varN n (bump c k0 0) = varN n c)
      by (apply varN_ext; intros k; unfold bump; destruct (k =? k0)%nat; ring).
    assert (Hs : is_derive sqrt (varN n (bump c k0 0)) (/ (2 * sqrt (varN n c)))).
    { rewrite E0. auto_derive; [exact Hpos|field]. apply Rgt_not_eq, sqrt_lt_R0, Hpos. }
    pose proof (is_derive_comp sqrt (fun t => varN n (bump c k0 t)) 0 _ _ Hs Hv) as Hc.
    unfold scal in Hc; cbn in Hc. unfold mult in Hc; cbn in Hc.
    replace ((c k0 - meanN n c) / ((INR n - 1) * sqrt (varN n c)))
      with (2 * (c k0 - meanN n c) / (INR n - 1) * / (2 * sqrt (varN n c))); [exact Hc|].
    field. split; [apply Rgt_not_eq, sqrt_lt_R0, Hpos|exact Hn1].
  - apply (is_derive_ext (fun _ => sqrt 0)); [|apply (is_derive_const (sqrt 0) 0)].
    intros t. unfold varN. rewrite E1. reflexivity.
Qed.

(* ---- maximum / minimum, order-theoretically: sg = 1 maximum, sg = -1 minimum ---- *)
Definition is_ext (sg : R) (n : nat) (M : (nat -> R) -> R) : Prop :=
  forall v, (forall k, (k < n)%nat -> sg * v k <= sg * M v) /\ (exists k, (k < n)%nat /\ M v = v k).

Definition is_maxN (n : nat) (M : (nat -> R) -> R) : Prop :=
  forall v, (forall k, (k < n)%nat -> v k <= M v) /\ (exists k, (k < n)%nat /\ M v = v k).
Definition is_minN (n : nat) (M : (nat -> R) -> R) : Prop :=
  forall v, (forall k, (k < n)%nat -> M v <= v k) /\ (exists k, (k < n)%nat /\ M v = v k).

Lemma is_maxN_ext n M : is_maxN n M -> is_ext 1 n M.
Proof. intros H v. destruct (H v) as [U A]. split; [|exact A]. intros k Hk. specialize (U k Hk). lra. Qed.
Lemma is_minN_ext n M : is_minN n M -> is_ext (-1) n M.
Proof. intros H v. destruct (H v) as [U A]. split; [|exact A]. intros k Hk. specialize (U k Hk). lra. Qed.

Lemma ext_fun_ext sg n M v w : sg = 1 \/ sg = -1 -> is_ext sg n M -> (forall k, v k = w k) -> M v = M w.
Proof.
  intros Hs HM Hvw. destruct (HM v) as [Uv (kv & Hkv & Ev)]. destruct (HM w) as [Uw (kw & Hkw & Ew)].
  assert (A1 : sg * M v <= sg * M w) by (rewrite Ev, (Hvw kv); apply Uw, Hkv).
  assert (A2 : sg * M w <= sg * M v) by (rewrite Ew, <- (Hvw kw); apply Uv, Hkw).
  destruct Hs as [-> | ->]; lra.
Qed.

(* a strict extremum at ks is the value *)
Lemma ext_unique sg n M v ks : is_ext sg n M -> (ks < n)%nat ->
  (forall k, (k < n)%nat -> k <> ks -> sg * v k < sg * v ks) -> M v = v ks.
Proof.
  intros HM Hks Hst. destruct (HM v) as [U (k' & Hk' & E)].
  destruct (Nat.eq_dec k' ks) as [->|N]; [exact E|].
  exfalso. pose proof (U ks Hks) as H1. pose proof (Hst k' Hk' N) as H2. rewrite E in H1. lra.
Qed.

(* any upper (lower) bound that is attained is the value of M *)
Lemma ext_value_unique sg n M v m : sg = 1 \/ sg = -1 -> is_ext sg n M ->
  (forall k, (k < n)%nat -> sg * v k <= sg * m) -> (exists k, (k < n)%nat /\ m = v k) -> m = M v.
Proof.
  intros Hs HM U (k & Hk & E). destruct (HM v) as [U' (k' & Hk' & E')].
  pose proof (U k' Hk') as A1. pose proof (U' k Hk) as A2. rewrite <- E in A2. rewrite <- E' in A1.
  destruct Hs as [-> | ->]; lra.
Qed.

Lemma min_gap n : forall f : nat -> R, (forall k, (k < n)%nat -> 0 < f k) ->
  exists e, 0 < e /\ forall k, (k < n)%nat -> e <= f k.
Proof.
  induction n as [|n IH]; intros f Hf.
  - exists 1. split; [lra|]. intros k Hk. lia.
  - destruct (IH f) as (e & He & Hle); [intros k Hk; apply Hf; lia|].
    exists (Rmin e (f n)). split; [apply Rmin_glb_lt; [exact He|apply Hf; lia]|].
    intros k Hk. destruct (Nat.eq_dec k n) as [->|N]; [apply Rmin_r|].
    apply Rle_trans with e; [apply Rmin_l|apply Hle; lia].
Qed.

(* with a unique strict extremum at ks the extremum is, locally, the coordinate ks *)
Lemma d_extN sg n M c k0 ks : sg = 1 \/ sg = -1 -> is_ext sg n M -> (k0 < n)%nat -> (ks < n)%nat ->
  (forall k, (k < n)%nat -> k <> ks -> sg * c k < sg * c ks) ->
  is_derive (fun t => M (bump c k0 t)) 0 (if (k0 =? ks)%nat then 1 else 0).
Proof.
  intros Hs HM Hk0 Hks Hst.
  destruct (min_gap n (fun k => if (k =? ks)%nat then 1 else sg * c ks - sg * c k)) as (e & He & Hle).
  { intros k Hk. destruct (Nat.eqb_spec k ks) as [E|E]; [lra|]. specialize (Hst k Hk E). lra. }
  assert (Hgap : forall k, (k < n)%nat -> k <> ks -> e <= sg * c ks - sg * c k).
  { intros k Hk N. specialize (Hle k Hk). destruct (Nat.eqb_spec k ks) as [E|E]; [contradiction|exact Hle]. }
  assert (Hloc : forall t, Rabs t < e -> M (bump c k0 t) = bump c k0 t ks).
  { intros t Ht. apply Rabs_def2 in Ht. apply (ext_unique sg n M _ ks HM Hks).
    intros k Hk N. specialize (Hgap k Hk N). unfold bump.
    destruct (Nat.eqb_spec k k0) as [E1|E1]; destruct (Nat.eqb_spec ks k0) as [E2|E2];
      try (exfalso; congruence); destruct Hs as [-> | ->]; lra. }
  destruct (Nat.eqb_spec k0 ks) as [E|E].
  - subst k0. apply (is_derive_ext_loc (fun t => c ks + t)); [|auto_derive; [exact I|ring]].
    exists (mkposreal e He). intros t Ht. apply ball_R in Ht. cbn in Ht. rewrite Rminus_0_r in Ht.
    rewrite (Hloc t Ht). unfold bump. rewrite Nat.eqb_refl. reflexivity.
  - apply (is_derive_ext_loc (fun _ => c ks)); [|apply (is_derive_const (c ks) 0)].
    exists (mkposreal e He). intros t Ht. apply ball_R in Ht. cbn in Ht. rewrite Rminus_0_r in Ht.
    rewrite (Hloc t Ht). unfold bump. destruct (Nat.eqb_spec ks k0) as [E2|E2]; [congruence|symmetry; apply Rplus_0_r].
Qed.

(* concrete witnesses: the maximum / minimum of the first n values (n >= 1) *)
Fixpoint maxN (n : nat) (v : nat -> R) : R :=
  match n with
  | O => v 0%nat
  | S m => match m with O => v 0%nat | S _ => Rmax (maxN m v) (v m) end
  end.
Definition minN (n : nat) (v : nat -> R) : R := - maxN n (fun k => - v k).

Lemma maxN_is_max n : (1 <= n)%nat -> is_maxN n (maxN n).
Proof.
  intros Hn v. destruct n as [|m]; [lia|]. clear Hn. induction m as [|m IH].
  - cbn [maxN]. split; [intros k Hk; replace k with 0%nat by lia; lra|exists 0%nat; split; [lia|reflexivity]].
  - destruct IH as [U (ka & Hka & Ea)].
    change (maxN (S (S m)) v) with (Rmax (maxN (S m) v) (v (S m))). split.
    + intros k Hk. destruct (Nat.eq_dec k (S m)) as [->|N]; [apply Rmax_r|].
      apply Rle_trans with (maxN (S m) v); [apply U; lia|apply Rmax_l].
    + destruct (Rmax_case (maxN (S m) v) (v (S m)) (fun r => r = maxN (S m) v \/ r = v (S m))) as [E|E];
        [left; reflexivity|right; reflexivity| |].
      * exists ka. split; [lia|]. rewrite E. exact Ea.
      * exists (S m). split; [lia|exact E].
Qed.

Lemma minN_is_min n : (1 <= n)%nat -> is_minN n (minN n).
Proof.
  intros Hn v. destruct (maxN_is_max n Hn (fun k => - v k)) as [U (ka & Hka & Ea)]. unfold minN. split.
  - intros k Hk. specialize (U k Hk). lra.
  - exists ka. split; [exact Hka|]. rewrite Ea. ring.
Qed.

(* ================================================================================= *)
(* 4. the analytic theorems for Var / Std / Max / Min, and the forward relation        *)
(* ================================================================================= *)
Section VjpReduceA.
Variables (thr : R) (draw : bool -> nat -> R).
Local Hint Extern 0 (Scalar R) => exact (R_scalar thr draw) : typeclass_instances.
Notation T := (tensor R).
Local Notation nOf xv dim := (nth dim (dims xv) 0%nat).
Implicit Types (rd : bred) (h : @heap R) (xv yv gy : T).

Tactic Notation "from_eval" constr(L) ident(g) ident(E) ident(D) ident(W) ident(G) :=
  destruct L as (g & E & D & W & G); exists g; split; [exact E|]; split; [exact D|]; split; [exact W|].

Lemma nOf_pos xv dim : wf xv -> (dim < length (dims xv))%nat -> (0 < nOf xv dim)%nat.
Proof. intros [_ Hp] Hl. apply (proj1 (Forall_nth _ _) Hp). exact Hl. Qed.

Lemma fib_self (a : assignment) dim ds i : validIdx ds i -> (dim < length ds)%nat ->
  fib a dim (del dim i) (nth dim i 0%nat) = a i.
Proof.
  intros Hv Hl. unfold fib. rewrite ins_del; [reflexivity|]. rewrite (validIdx_length _ _ Hv). exact Hl.
Qed.

Lemma varL_fib n (a : assignment) dim j : varL (map (fib a dim j) (seq 0 n)) = varN n (fib a dim j).
Proof.
  rewrite (var_is_unbiased_sample_variance thr draw). rewrite map_length, seq_length. unfold varN.
  destruct (1 <? n)%nat; [|reflexivity]. rewrite (meanL_fib thr draw), map_map. reflexivity.
Qed.

(* the forward values of the five arithmetic reductions, as the maps F differentiated below *)
Theorem forward_along (r : reducer) xv dim : wf xv -> (dim < length (dims xv))%nat ->
  exists yv, v_reduceAlong r xv (Z.of_nat dim) = Ok yv /\ dims yv = squeezeDims dim (dims xv) /\ wf yv /\
    forall j, validIdx (squeezeDims dim (dims xv)) j ->
      match r with
      | RdSum => elt yv j = Rsum (map (fun k => elt xv (ins dim k j)) (seq 0 (nOf xv dim)))
      | RdAvg | RdMean => elt yv j = Rsum (map (fun k => elt xv (ins dim k j)) (seq 0 (nOf xv dim))) / INR (nOf xv dim)
      | RdVar => elt yv j = varN (nOf xv dim) (fun k => elt xv (ins dim k j))
      | RdStd => elt yv j = sqrt (varN (nOf xv dim) (fun k => elt xv (ins dim k j)))
      | RdMax => elt yv j = maxL (map (fun k => elt xv (ins dim k j)) (seq 0 (nOf xv dim)))
      | RdMin => elt yv j = minL (map (fun k => elt xv (ins dim k j)) (seq 0 (nOf xv dim)))
      end.
Proof.
  intros Wx Hl. destruct (along_elt thr draw r xv dim Wx Hl) as (yv & E & D & W & G).
  exists yv. repeat (split; [assumption|]). intros j Hv. specialize (G j Hv).
  destruct r; cbn [redL] in G; rewrite G.
  - apply (sum_is_sum thr draw).
  - reflexivity.
  - reflexivity.
  - apply (meanL_fib thr draw).
  - apply varL_fib.
  - unfold stdL. rewrite varL_fib. reflexivity.
  - apply (meanL_fib thr draw).
Qed.

(* ---------- VarAlong: analytic ---------- *)
Theorem vjp_varAlong rd h y x dim xv gy :
  valOf h x = Some xv -> gradOf h y = Some gy -> wf xv -> wf gy ->
  (dim < length (dims xv))%nat -> dims gy = squeezeDims dim (dims xv) ->
  exists g, eval_rule rd h (RVarAlong y x (Z.of_nat dim)) = Ok g /\ dims g = dims xv /\ wf g /\
    is_vjp (dims xv) (squeezeDims dim (dims xv))
      (fun a j => varN (nOf xv dim) (fun k => a (ins dim k j)))
      (elt xv) (elt gy) (elt g).
Proof.
  intros Hx Hg Wx Wg Hl Ed. from_eval (rvar_eval thr draw rd h y x dim xv gy Hx Hg Wx Wg Hl Ed) g E D W G.
  pose proof (nOf_pos xv dim Wx Hl) as Hn.
  apply (vjp_fibrewise (dims xv) dim (varN (nOf xv dim))
           (fun j k0 => if (1 <? nOf xv dim)%nat
                        then 2 * (fib (elt xv) dim j k0 - meanN (nOf xv dim) (fib (elt xv) dim j)) / (INR (nOf xv dim) - 1)
                        else 0)).
  - exact Hl.
  - apply varN_ext.
  - intros j k0 _ Hk. apply d_varN, Hk.
  - intros i Hv. rewrite (G i Hv), (fib_self _ dim _ i Hv Hl).
    destruct (Nat.eqb_spec (nOf xv dim) 1) as [E1|E1]; destruct (Nat.ltb_spec 1 (nOf xv dim)) as [E2|E2]; try lia.
    + ring.
    + rewrite INR_minus1 by lia. field. rewrite <- INR_minus1 by lia. apply not_0_INR. lia.
Qed.

(* ---------- StdAlong: analytic, where every fibre has positive variance ---------- *)
Theorem vjp_stdAlong rd h y x dim xv yv gy :
  valOf h x = Some xv -> valOf h y = Some yv -> gradOf h y = Some gy -> wf xv -> wf yv -> wf gy ->
  (dim < length (dims xv))%nat ->
  dims yv = squeezeDims dim (dims xv) -> dims gy = squeezeDims dim (dims xv) ->
  (* the forward relation (see [forward_along RdStd]) *)
  (forall j, validIdx (squeezeDims dim (dims xv)) j ->
     elt yv j = sqrt (varN (nOf xv dim) (fun k => elt xv (ins dim k j)))) ->
  (* guard of differentiability *)
  ((1 < nOf xv dim)%nat -> forall j, validIdx (squeezeDims dim (dims xv)) j ->
     0 < varN (nOf xv dim) (fun k => elt xv (ins dim k j))) ->
  exists g, eval_rule rd h (RStdAlong y x (Z.of_nat dim)) = Ok g /\ dims g = dims xv /\ wf g /\
    is_vjp (dims xv) (squeezeDims dim (dims xv))
      (fun a j => sqrt (varN (nOf xv dim) (fun k => a (ins dim k j))))
      (elt xv) (elt gy) (elt g).
Proof.
  intros Hx Hy Hg Wx Wy Wg Hl Edy Ed Hfwd Hpos.
  from_eval (rstd_eval thr draw rd h y x dim xv yv gy Hx Hy Hg Wx Wy Wg Hl Edy Ed) g E D W G.
  pose proof (nOf_pos xv dim Wx Hl) as Hn.
  apply (vjp_fibrewise (dims xv) dim (fun v => sqrt (varN (nOf xv dim) v))
           (fun j k0 => if (1 <? nOf xv dim)%nat
                        then (fib (elt xv) dim j k0 - meanN (nOf xv dim) (fib (elt xv) dim j))
                             / ((INR (nOf xv dim) - 1) * sqrt (varN (nOf xv dim) (fib (elt xv) dim j)))
                        else 0)).
  - exact Hl.
  - intros v w Hvw. rewrite (varN_ext _ v w Hvw). reflexivity.
  - intros j k0 Hj Hk. apply d_stdN; [exact Hk|]. intros H1. apply (Hpos H1 j Hj).
  - intros i Hv. rewrite (G i Hv), (fib_self _ dim _ i Hv Hl).
    pose proof (vi_del dim _ _ Hv) as Hvd.
    destruct (Nat.eqb_spec (nOf xv dim) 1) as [E1|E1]; destruct (Nat.ltb_spec 1 (nOf xv dim)) as [E2|E2]; try lia.
    + ring.
    + rewrite (Hfwd _ Hvd). specialize (Hpos E2 _ Hvd). fold (fib (elt xv) dim (del dim i)) in *.
      rewrite INR_minus1 by lia. field. split.
      * apply Rgt_not_eq, sqrt_lt_R0, Hpos.
      * rewrite <- INR_minus1 by lia. apply not_0_INR. lia.
Qed.

(* ---------- MaxAlong / MinAlong: analytic, at a unique extremum separated by more than thr ---------- *)
Theorem vjp_extAlong (sg : R) (M : (nat -> R) -> R) rd h y x dim xv yv gy :
  sg = 1 \/ sg = -1 -> is_ext sg (nOf xv dim) M ->
  valOf h x = Some xv -> valOf h y = Some yv -> gradOf h y = Some gy -> wf xv -> wf yv -> wf gy ->
  (dim < length (dims xv))%nat ->
  dims yv = squeezeDims dim (dims xv) -> dims gy = squeezeDims dim (dims xv) ->
  0 <= thr ->
  (forall j, validIdx (squeezeDims dim (dims xv)) j -> elt yv j = M (fun k => elt xv (ins dim k j))) ->
  (forall j, validIdx (squeezeDims dim (dims xv)) j ->
     exists ks, (ks < nOf xv dim)%nat /\
       forall k, (k < nOf xv dim)%nat -> k <> ks ->
         thr < sg * (elt xv (ins dim ks j) - elt xv (ins dim k j))) ->
  exists g, eval_rule rd h (RExtAlong y x (Z.of_nat dim)) = Ok g /\ dims g = dims xv /\ wf g /\
    is_vjp (dims xv) (squeezeDims dim (dims xv))
      (fun a j => M (fun k => a (ins dim k j)))
      (elt xv) (elt gy) (elt g).
Proof.
  intros Hs HM Hx Hy Hg Wx Wy Wg Hl Edy Ed Hthr Hfwd Hguard.
  from_eval (rext_eval thr draw rd h y x dim xv yv gy Hx Hy Hg Wx Wy Wg Hl Edy Ed) g E D W G.
  apply (vjp_fibrewise (dims xv) dim M
           (fun j k0 => eqt thr (fib (elt xv) dim j k0) (M (fib (elt xv) dim j)))).
  - exact Hl.
  - intros v w Hvw. apply (ext_fun_ext sg (nOf xv dim) M v w Hs HM Hvw).
  - intros j k0 Hj Hk. destruct (Hguard j Hj) as (ks & Hks & Hgap).
    set (c := fib (elt xv) dim j).
    assert (Hst : forall k, (k < nOf xv dim)%nat -> k <> ks -> sg * c k < sg * c ks).
    { intros k Hk' N. specialize (Hgap k Hk' N). unfold c, fib. destruct Hs as [-> | ->]; lra. }
    rewrite (ext_unique sg (nOf xv dim) M c ks HM Hks Hst).
    replace (eqt thr (c k0) (c ks)) with (if (k0 =? ks)%nat then 1 else 0);
      [apply (d_extN sg (nOf xv dim) M c k0 ks Hs HM Hk Hks Hst)|].
    destruct (Nat.eqb_spec k0 ks) as [E1|E1].
    + subst k0. symmetry. apply eqt_same, Hthr.
    + symmetry. apply eqt_far. specialize (Hgap k0 Hk E1). change (thr < sg * (c ks - c k0)) in Hgap.
      pose proof (Rle_abs (c k0 - c ks)) as A1. pose proof (Rle_abs (c ks - c k0)) as A2.
      rewrite (Rabs_minus_sym (c ks) (c k0)) in A2. destruct Hs as [-> | ->]; lra.
  - intros i Hv. rewrite (G i Hv), (fib_self _ dim _ i Hv Hl).
    rewrite (Hfwd _ (vi_del dim _ _ Hv)). reflexivity.
Qed.

Corollary vjp_maxAlong (M : (nat -> R) -> R) rd h y x dim xv yv gy :
  is_maxN (nOf xv dim) M ->
  valOf h x = Some xv -> valOf h y = Some yv -> gradOf h y = Some gy -> wf xv -> wf yv -> wf gy ->
  (dim < length (dims xv))%nat ->
  dims yv = squeezeDims dim (dims xv) -> dims gy = squeezeDims dim (dims xv) ->
  0 <= thr ->
  (forall j, validIdx (squeezeDims dim (dims xv)) j -> elt yv j = M (fun k => elt xv (ins dim k j))) ->
  (forall j, validIdx (squeezeDims dim (dims xv)) j ->
     exists ks, (ks < nOf xv dim)%nat /\
       forall k, (k < nOf xv dim)%nat -> k <> ks -> thr < elt xv (ins dim ks j) - elt xv (ins dim k j)) ->
  exists g, eval_rule rd h (RExtAlong y x (Z.of_nat dim)) = Ok g /\ dims g = dims xv /\ wf g /\
    is_vjp (dims xv) (squeezeDims dim (dims xv)) (fun a j => M (fun k => a (ins dim k j)))
      (elt xv) (elt gy) (elt g).
Proof.
  intros HM Hx Hy Hg Wx Wy Wg Hl Edy Ed Hthr Hfwd Hguard.
  apply (vjp_extAlong 1 M rd h y x dim xv yv gy (or_introl eq_refl) (is_maxN_ext _ _ HM)
           Hx Hy Hg Wx Wy Wg Hl Edy Ed Hthr Hfwd).
  intros j Hj. destruct (Hguard j Hj) as (ks & Hks & Hgap). exists ks. split; [exact Hks|].
  intros k Hk N. specialize (Hgap k Hk N). lra.
Qed.

Corollary vjp_minAlong (M : (nat -> R) -> R) rd h y x dim xv yv gy :
  is_minN (nOf xv dim) M ->
  valOf h x = Some xv -> valOf h y = Some yv -> gradOf h y = Some gy -> wf xv -> wf yv -> wf gy ->
  (dim < length (dims xv))%nat ->
  dims yv = squeezeDims dim (dims xv) -> dims gy = squeezeDims dim (dims xv) ->
  0 <= thr ->
  (forall j, validIdx (squeezeDims dim (dims xv)) j -> elt yv j = M (fun k => elt xv (ins dim k j))) ->
  (forall j, validIdx (squeezeDims dim (dims xv)) j ->
     exists ks, (ks < nOf xv dim)%nat /\
       forall k, (k < nOf xv dim)%nat -> k <> ks -> thr < elt xv (ins dim k j) - elt xv (ins dim ks j)) ->
  exists g, eval_rule rd h (RExtAlong y x (Z.of_nat dim)) = Ok g /\ dims g = dims xv /\ wf g /\
    is_vjp (dims xv) (squeezeDims dim (dims xv)) (fun a j => M (fun k => a (ins dim k j)))
      (elt xv) (elt gy) (elt g).
Proof.
  intros HM Hx Hy Hg Wx Wy Wg Hl Edy Ed Hthr Hfwd Hguard.
  apply (vjp_extAlong (-1) M rd h y x dim xv yv gy (or_intror eq_refl) (is_minN_ext _ _ HM)
           Hx Hy Hg Wx Wy Wg Hl Edy Ed Hthr Hfwd).
  intros j Hj. destruct (Hguard j Hj) as (ks & Hks & Hgap). exists ks. split; [exact Hks|].
  intros k Hk N. specialize (Hgap k Hk N). lra.
Qed.

(* the same two statements with the forward relation given order-theoretically: the stored output
   is a bound of its fibre that is attained (the real instance has no -Inf / +Inf, see RScalar.v) *)
Corollary vjp_maxAlong_ord (M : (nat -> R) -> R) rd h y x dim xv yv gy :
  is_maxN (nOf xv dim) M ->
  valOf h x = Some xv -> valOf h y = Some yv -> gradOf h y = Some gy -> wf xv -> wf yv -> wf gy ->
  (dim < length (dims xv))%nat ->
  dims yv = squeezeDims dim (dims xv) -> dims gy = squeezeDims dim (dims xv) ->
  0 <= thr ->
  (forall j, validIdx (squeezeDims dim (dims xv)) j ->
     (forall k, (k < nOf xv dim)%nat -> elt xv (ins dim k j) <= elt yv j) /\
     (exists k, (k < nOf xv dim)%nat /\ elt yv j = elt xv (ins dim k j))) ->
  (forall j, validIdx (squeezeDims dim (dims xv)) j ->
     exists ks, (ks < nOf xv dim)%nat /\
       forall k, (k < nOf xv dim)%nat -> k <> ks -> thr < elt xv (ins dim ks j) - elt xv (ins dim k j)) ->
  exists g, eval_rule rd h (RExtAlong y x (Z.of_nat dim)) = Ok g /\ dims g = dims xv /\ wf g /\
    is_vjp (dims xv) (squeezeDims dim (dims xv)) (fun a j => M (fun k => a (ins dim k j)))
      (elt xv) (elt gy) (elt g).
Proof.
  intros HM Hx Hy Hg Wx Wy Wg Hl Edy Ed Hthr Hord Hguard.
  apply (vjp_maxAlong M rd h y x dim xv yv gy HM Hx Hy Hg Wx Wy Wg Hl Edy Ed Hthr); [|exact Hguard].
  intros j Hj. destruct (Hord j Hj) as [U A].
  apply (ext_value_unique 1 (nOf xv dim) M _ _ (or_introl eq_refl) (is_maxN_ext _ _ HM)); [|exact A].
  intros k Hk. specialize (U k Hk). lra.
Qed.

Corollary vjp_minAlong_ord (M : (nat -> R) -> R) rd h y x dim xv yv gy :
  is_minN (nOf xv dim) M ->
  valOf h x = Some xv -> valOf h y = Some yv -> gradOf h y = Some gy -> wf xv -> wf yv -> wf gy ->
  (dim < length (dims xv))%nat ->
  dims yv = squeezeDims dim (dims xv) -> dims gy = squeezeDims dim (dims xv) ->
  0 <= thr ->
  (forall j, validIdx (squeezeDims dim (dims xv)) j ->
     (forall k, (k < nOf xv dim)%nat -> elt yv j <= elt xv (ins dim k j)) /\
     (exists k, (k < nOf xv dim)%nat /\ elt yv j = elt xv (ins dim k j))) ->
  (forall j, validIdx (squeezeDims dim (dims xv)) j ->
     exists ks, (ks < nOf xv dim)%nat /\
       forall k, (k < nOf xv dim)%nat -> k <> ks -> thr < elt xv (ins dim k j) - elt xv (ins dim ks j)) ->
  exists g, eval_rule rd h (RExtAlong y x (Z.of_nat dim)) = Ok g /\ dims g = dims xv /\ wf g /\
    is_vjp (dims xv) (squeezeDims dim (dims xv)) (fun a j => M (fun k => a (ins dim k j)))
      (elt xv) (elt gy) (elt g).
Proof.
  intros HM Hx Hy Hg Wx Wy Wg Hl Edy Ed Hthr Hord Hguard.
  apply (vjp_minAlong M rd h y x dim xv yv gy HM Hx Hy Hg Wx Wy Wg Hl Edy Ed Hthr); [|exact Hguard].
  intros j Hj. destruct (Hord j Hj) as [U A].
  apply (ext_value_unique (-1) (nOf xv dim) M _ _ (or_intror eq_refl) (is_minN_ext _ _ HM)); [|exact A].
  intros k Hk. specialize (U k Hk). lra.
Qed.

(* the model's own forward MaxAlong / MinAlong satisfy that relation on fibres containing an element
   on the right side of the placeholder 0 that stands for -Inf / +Inf in the real instance *)
Theorem forward_max_nonneg xv dim : wf xv -> (dim < length (dims xv))%nat ->
  exists yv, v_reduceAlong RdMax xv (Z.of_nat dim) = Ok yv /\ dims yv = squeezeDims dim (dims xv) /\ wf yv /\
    forall j, validIdx (squeezeDims dim (dims xv)) j ->
      (exists k, (k < nOf xv dim)%nat /\ 0 <= elt xv (ins dim k j)) ->
      (forall k, (k < nOf xv dim)%nat -> elt xv (ins dim k j) <= elt yv j) /\
      (exists k, (k < nOf xv dim)%nat /\ elt yv j = elt xv (ins dim k j)).
Proof.
  intros Wx Hl. destruct (along_elt thr draw RdMax xv dim Wx Hl) as (yv & E & D & W & G).
  exists yv. repeat (split; [assumption|]). intros j Hv (k1 & Hk1 & Hpos). rewrite (G j Hv). cbn [redL].
  set (xs := map (fib (elt xv) dim j) (seq 0 (nOf xv dim))).
  pose proof (max_fold_upper_bound_attained xs 0) as H. cbv zeta in H.
  change (fold_left (fun a b : R => if Rgt_dec a b then a else b) xs 0) with (maxL xs) in H.
  destruct H as (H0 & Hub & Hat).
  assert (Hin : forall k, (k < nOf xv dim)%nat -> In (elt xv (ins dim k j)) xs).
  { intros k Hk. unfold xs. apply in_map_iff. exists k. split; [reflexivity|apply in_seq; lia]. }
  split; [intros k Hk; apply Hub, Hin, Hk|].
  destruct Hat as [Hz|Hi].
  - exists k1. split; [exact Hk1|]. pose proof (Hub _ (Hin k1 Hk1)) as A. lra.
  - unfold xs in Hi. apply in_map_iff in Hi as (k & Ek & Hk). apply in_seq in Hk.
    exists k. split; [lia|]. symmetry. exact Ek.
Qed.

Theorem forward_min_nonpos xv dim : wf xv -> (dim < length (dims xv))%nat ->
  exists yv, v_reduceAlong RdMin xv (Z.of_nat dim) = Ok yv /\ dims yv = squeezeDims dim (dims xv) /\ wf yv /\
    forall j, validIdx (squeezeDims dim (dims xv)) j ->
      (exists k, (k < nOf xv dim)%nat /\ elt xv (ins dim k j) <= 0) ->
      (forall k, (k < nOf xv dim)%nat -> elt yv j <= elt xv (ins dim k j)) /\
      (exists k, (k < nOf xv dim)%nat /\ elt yv j = elt xv (ins dim k j)).
Proof.
  intros Wx Hl. destruct (along_elt thr draw RdMin xv dim Wx Hl) as (yv & E & D & W & G).
  exists yv. repeat (split; [assumption|]). intros j Hv (k1 & Hk1 & Hneg). rewrite (G j Hv). cbn [redL].
  set (xs := map (fib (elt xv) dim j) (seq 0 (nOf xv dim))).
  pose proof (min_fold_lower_bound_attained xs 0) as H. cbv zeta in H.
  change (fold_left (fun a b : R => if Rlt_dec a b then a else b) xs 0) with (minL xs) in H.
  destruct H as (H0 & Hlb & Hat).
  assert (Hin : forall k, (k < nOf xv dim)%nat -> In (elt xv (ins dim k j)) xs).
  { intros k Hk. unfold xs. apply in_map_iff. exists k. split; [reflexivity|apply in_seq; lia]. }
  split; [intros k Hk; apply Hlb, Hin, Hk|].
  destruct Hat as [Hz|Hi].
  - exists k1. split; [exact Hk1|]. pose proof (Hlb _ (Hin k1 Hk1)) as A. lra.
  - unfold xs in Hi. apply in_map_iff in Hi as (k & Ek & Hk). apply in_seq in Hk.
    exists k. split; [lia|]. symmetry. exact Ek.
Qed.

End VjpReduceA.

(* ================================================================================= *)
(* 5. examples: the hypotheses are satisfiable, the conclusions non-trivial           *)
(* ================================================================================= *)
Module VjpReduceExamples.
Section Ex.
Variables (thr : R) (draw : bool -> nat -> R).
Local Hint Extern 0 (Scalar R) => exact (R_scalar thr draw) : typeclass_instances.

(* x = [[1 2 3] [4 5 9]], reduced along dimension 1; upstream gradient gy = [10 20] *)
Definition xv : tensor R := mkT [2%nat; 3%nat] (Vec [Vec [Sc 1; Sc 2; Sc 3]; Vec [Sc 4; Sc 5; Sc 9]]).
Definition gy : tensor R := mkT [2%nat] (Vec [Sc 10; Sc 20]).

Lemma wf_xv : wf xv.  Proof. split; cbn; repeat constructor. Qed.
Lemma wf_v2 (a b : R) : wf (mkT [2%nat] (Vec [Sc a; Sc b])).  Proof. split; cbn; repeat constructor. Qed.
Lemma dim_ok : (1 < length (dims xv))%nat.  Proof. cbn. lia. Qed.

Lemma valid2 idx : validIdx [2%nat] idx -> idx = [0%nat] \/ idx = [1%nat].
Proof.
  intros Hv. apply validIdx_cons in Hv as (i & r & -> & Hi & Hr). apply validIdx_nil in Hr; subst r.
  destruct i as [|[|i]]; [left; reflexivity|right; reflexivity|lia].
Qed.

(* the tracked call  y := SumAlong(x, 1)  on a tracked leaf builds the back edge RSumAlong 1 0 1 *)
Definition h0 : @heap R := fst (leaf [] xv true None).
Example h_sumAlong : exists yv,
  h_reduceAlong h0 RdSum 0 1%Z None =
    ([mkNode xv true false None [] None; mkNode yv true false None [(0%nat, RSumAlong 1 0 1%Z)] None], Ok 1%nat)
  /\ dims yv = [2%nat] /\ elt yv [1%nat] = 0 + 4 + 5 + 9.
Proof. eexists. split; [vm_compute; reflexivity|]. split; reflexivity. Qed.

Definition ySum : tensor R := mkT [2%nat] (Vec [Sc 6; Sc 18]).
Definition hS : @heap R :=
  [mkNode xv true false None [] None; mkNode ySum true false (Some gy) [(0%nat, RSumAlong 1 0 1%Z)] None].

Example sum_ex rd : exists g, eval_rule rd hS (RSumAlong 1 0 1%Z) = Ok g /\ dims g = [2%nat; 3%nat] /\ wf g /\
  elt g [0%nat; 2%nat] = 10 /\ elt g [1%nat; 0%nat] = 20 /\
  is_vjp [2%nat; 3%nat] [2%nat]
    (fun a j => Rsum (map (fun k => a (ins 1 k j)) (seq 0 3))) (elt xv) (elt gy) (elt g).
Proof.
  destruct (rsum_eval thr draw rd hS 1 0 1 xv gy eq_refl eq_refl wf_xv (wf_v2 _ _) dim_ok eq_refl)
    as (g & E & D & W & G).
  destruct (vjp_sumAlong thr draw rd hS 1 0 1 xv gy eq_refl eq_refl wf_xv (wf_v2 _ _) dim_ok eq_refl)
    as (g' & E' & _ & _ & V).
  assert (g' = g) by congruence. subst g'.
  exists g. split; [exact E|]. split; [exact D|]. split; [exact W|].
  split; [|split; [|exact V]]; rewrite G by (repeat constructor); reflexivity.
Qed.

(* VarAlong: the gradient at [1;2] is 20 * (2/2) * (9 - 6) = 60 *)
Definition yVar : tensor R := mkT [2%nat] (Vec [Sc 1; Sc 7]).
Definition hV : @heap R :=
  [mkNode xv true false None [] None; mkNode yVar true false (Some gy) [(0%nat, RVarAlong 1 0 1%Z)] None].

Example var_ex rd : exists g, eval_rule rd hV (RVarAlong 1 0 1%Z) = Ok g /\ dims g = [2%nat; 3%nat] /\ wf g /\
  elt g [1%nat; 2%nat] = 60 /\
  is_vjp [2%nat; 3%nat] [2%nat]
    (fun a j => varN 3 (fun k => a (ins 1 k j))) (elt xv) (elt gy) (elt g).
Proof.
  destruct (rvar_eval thr draw rd hV 1 0 1 xv gy eq_refl eq_refl wf_xv (wf_v2 _ _) dim_ok eq_refl)
    as (g & E & D & W & G).
  destruct (vjp_varAlong thr draw rd hV 1 0 1 xv gy eq_refl eq_refl wf_xv (wf_v2 _ _) dim_ok eq_refl)
    as (g' & E' & _ & _ & V).
  assert (g' = g) by congruence. subst g'.
  exists g. split; [exact E|]. split; [exact D|]. split; [exact W|]. split; [|exact V].
  rewrite G by (repeat constructor). unfold meanN, sumN, Rsum, fib, elt. cbn. field.
Qed.
End Ex.

(* MaxAlong with threshold 0: y = [3 9], unique maxima at position 2 of both fibres;
   the gradient is gy at the arg-max and 0 elsewhere *)
Section ExMax.
Variable draw : bool -> nat -> R.
Definition yMax : tensor R := mkT [2%nat] (Vec [Sc 3; Sc 9]).
Definition hM : @heap R :=
  [mkNode xv true false None [] None; mkNode yMax true false (Some gy) [(0%nat, RExtAlong 1 0 1%Z)] None].

Example max_ex rd : exists g, eval_rule (SA:=R_scalar 0 draw) rd hM (RExtAlong 1 0 1%Z) = Ok g /\
  dims g = [2%nat; 3%nat] /\ wf g /\
  is_vjp [2%nat; 3%nat] [2%nat] (fun a j => maxN 3 (fun k => a (ins 1 k j))) (elt xv) (elt gy) (elt g).
Proof.
  apply (vjp_maxAlong 0 draw (maxN 3) rd hM 1 0 1 xv yMax gy (maxN_is_max 3 ltac:(lia))
           eq_refl eq_refl eq_refl wf_xv (wf_v2 _ _) (wf_v2 _ _) dim_ok eq_refl eq_refl (Rle_refl 0)).
  - intros j Hj. destruct (valid2 j Hj) as [-> | ->]; unfold elt, maxN; cbn;
      unfold Rmax; repeat destruct (Rle_dec _ _); lra.
  - intros j Hj. exists 2%nat. split; [cbn; lia|]. intros k Hk N. cbn in Hk.
    destruct (valid2 j Hj) as [-> | ->]; destruct k as [|[|[|k]]]; try lia; unfold elt; cbn; lra.
Qed.
End ExMax.
End VjpReduceExamples.

Print Assumptions reducerBroadcasted_get.
Print Assumptions arith_unsq_get.
Print Assumptions reducerBroadcasted_spec.
Print Assumptions vjp_fibrewise.
Print Assumptions forward_along.
Print Assumptions rsum_eval.
Print Assumptions vjp_sumAlong.
Print Assumptions ravg_eval.
Print Assumptions vjp_avgAlong.
Print Assumptions rvar_eval.
Print Assumptions vjp_varAlong.
Print Assumptions rstd_eval.
Print Assumptions vjp_stdAlong.
Print Assumptions rext_eval.
Print Assumptions vjp_extAlong.
Print Assumptions vjp_maxAlong.
Print Assumptions vjp_minAlong.
Print Assumptions vjp_maxAlong_ord.
Print Assumptions vjp_minAlong_ord.
Print Assumptions forward_max_nonneg.
Print Assumptions forward_min_nonpos.
Print Assumptions maxN_is_max.
Print Assumptions minN_is_min.
