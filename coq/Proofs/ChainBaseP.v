(* ChainBaseP.v (shared definitions; the theorems are in ChainActP, ChainFcP, ChainLossP, ChainSgdP, ChainRuleP, ChainKernP, ChainRedP so that an edited source function breaks only the file about it) — the translator tie for the composition layer.
   Model/Chains.v is GENERATED from /repo's Go sources on every run (harness/chainx): the
   straight-line chains of Tensor method calls of the component entry points and of the back-edge
   closures of gradtrack/gradients.go.  The theorems below interpret each generated chain with the
   model's own operations (Model/ChainIR.v) and state that the interpretation IS the model's
   definition of that component / rule — for every heap, every argument, every outcome (Ok / Err /
   Panic).  They are re-checked against what the code says now on every run; an edit of the Go
   source that is not semantically the same chain (another method, another constant, another
   operand or order, a dropped error check) changes Chains.v and the theorem about it no longer
   checks.  Closed under the global context (no scalar laws are used). *)
From Coq Require Import String List ZArith Bool Arith.
From Qeep Require Import Model.Scalar Model.Nd Model.Fill Model.Data Model.Valid Model.Api Model.Grad
  Model.Components Model.ChainIR.
Import ListNotations.
Local Open Scope string_scope.

Section CompBase.
Context {A : Type} {SA : Scalar A}.
Notation heap := (@heap A).
Notation hres := (@hres A).
Definition asHres (r : heap * res (option nat)) : hres :=
  match r with
  | (h, Ok (Some id)) => (h, Ok id)
  | (h, Ok None) => (h, Panic)
  | (h, Err) => (h, Err)
  | (h, Panic) => (h, Panic)
  end.

Definition userfun := string -> option (heap -> list (aval nat) -> option nat -> hres).

Definition hooksH (rs : @hres_resolver A) (userf : userfun) (name : option nat)
  (guard : heap -> string -> option bool) : hooks nat heap :=
  mkHooks (call_h rs userf name) guard (fun _ _ => None) (fun _ _ _ => None).

Definition rsNone : @hres_resolver A := mkHR (fun _ _ => None) (fun _ _ => None).
Definition noUser : userfun := fun _ => None.
Definition noGuard : heap -> string -> option bool := fun _ _ => None.

End CompBase.

Ltac chain_go :=
  repeat (cbn;
    match goal with
    | |- hbind ?X _ = _ => destruct X as [? [?| |]]
    | |- (_, _) = _ => fail 1
    | |- ?X = asHres _ => destruct X as [? [?| |]]
    end); cbn; try reflexivity.

(* ---- activations (component/layers/activations/*.go: forward) ---- *)

Section ValBase.
Context {A : Type} {SA : Scalar A}.
Notation T := (tensor A).
Notation heap := (@heap A).

Definition vuserfun := string -> option (list (aval T) -> res T).

Definition hooksV (rs : @vresolver A) (userf : vuserfun) (bind : string -> option (option (list T)))
  (cond : lets -> string -> option bool) : hooks T unit :=
  mkHooks (call_v rs userf) (fun _ _ => None) (fun _ t => bind t) (fun _ ls t => cond ls t).

Definition asRes (r : unit * res (option T)) : res T :=
  match r with
  | (_, Ok (Some v)) => Ok v
  | (_, Ok None) => Panic
  | (_, Err) => Err
  | (_, Panic) => Panic
  end.

Definition noBind : string -> option (option (list T)) := fun _ => None.
Definition noCond : lets -> string -> option bool := fun _ _ => None.
Definition noVUser : vuserfun := fun _ => None.

Definition vrNone : @vresolver A :=
  mkVR (fun _ _ => None) (fun _ _ => None) (fun _ _ => None) (fun _ _ => None) (fun _ => None).

(* y.Gradient() of the captured result tensor *)
Definition gradY (gy : T) : string -> option T := fun v => if String.eqb v "y" then Some gy else None.
Definition lk {X} (l : list (string * X)) : lets -> string -> option X := fun _ t => lookupS l t.

Definition vrOf (gy : T) (sc : lets -> string -> option A) (it : lets -> string -> option Z)
  (its : lets -> string -> option (list Z)) (rg : lets -> string -> option (list zrange)) : @vresolver A :=
  mkVR sc it its rg (gradY gy).
Definition vrG (gy : T) : @vresolver A := vrOf gy (lk []) (lk []) (lk []) (lk []).

End ValBase.

Ltac vgo :=
  repeat (cbn;
    match goal with
    | |- res_bind ?X _ = _ => destruct X as [?| |]
    | |- Ok _ = _ => fail 1
    | |- Err = _ => fail 1
    | |- Panic = _ => fail 1
    | |- ?X = asRes _ => destruct X as [?| |]
    end); cbn; try reflexivity.

Ltac open_rule :=
  unfold eval_rule;
  repeat match goal with
         | |- res_bind (gy_of ?h ?y) _ = res_bind (gy_of ?h ?y) _ => destruct (gy_of h y) as [?| |]; [|reflexivity|reflexivity]; cbn [res_bind]
         | |- res_bind (val_of ?h ?y) _ = res_bind (val_of ?h ?y) _ => destruct (val_of h y) as [?| |]; [|reflexivity|reflexivity]; cbn [res_bind]
         end.

