(* SoftmaxP.v — the Softmax activation (component/layers/activations/softmax.go, with the
   normaliser unsqueezed back before dividing) against the exact element expression, for an
   arbitrary [Scalar A] with no laws (property C14, Softmax part):

       y[idx] = exp(x[idx]) / ((((0 + exp x[idx|dim:=0]) + exp x[idx|dim:=1]) + ...) + exp x[idx|dim:=n-1])

   for an input of ANY rank greater than dim. *)
From Coq Require Import List Arith ZArith Bool Lia.
From Qeep Require Import Model.Scalar Model.Nd Model.Fill Model.Data Model.Valid Model.Api Model.Grad Model.Components.
From Qeep Require Import Proofs.NdP Proofs.ElemP Proofs.ReshapeP Proofs.BroadcastP Proofs.ReduceP Proofs.ArithP
  Proofs.MatMulP Proofs.TrackP Proofs.CompP Proofs.FcP.
Import ListNotations.

(* ================================================================== *)
(*  index surgery: deleting / inserting / overwriting a component      *)
(* ================================================================== *)

Lemma ins_S_nil {X} k (v : X) : ins (S k) v [] = [v].
Proof. reflexivity. Qed.

Lemma Forall2_del {X Y} (R : X -> Y -> Prop) k : forall l1 l2, Forall2 R l1 l2 -> Forall2 R (del k l1) (del k l2).
Proof.
  induction k as [|k IH]; intros l1 l2 H; destruct H as [|a b l1 l2 Hab Hl].
  - constructor.
  - rewrite !del_0. exact Hl.
  - constructor.
  - rewrite !del_S. constructor; [exact Hab|apply IH, Hl].
Qed.

Lemma Forall2_ins {X Y} (R : X -> Y -> Prop) k a b : R a b ->
  forall l1 l2, Forall2 R l1 l2 -> Forall2 R (ins k a l1) (ins k b l2).
Proof.
  intros Hab. induction k as [|k IH]; intros l1 l2 H.
  - rewrite !ins_0. constructor; assumption.
  - destruct H as [|x y l1 l2 Hxy Hl]; [rewrite !ins_S_nil; repeat constructor; exact Hab|].
    rewrite !ins_S. constructor; [exact Hxy|apply IH, Hl].
Qed.

(* idx with component dim set to k *)
Definition setAt (dim k : nat) (idx : list nat) : list nat := ins dim k (del dim idx).

Lemma validIdx_del dim ds idx : validIdx ds idx -> validIdx (del dim ds) (del dim idx).
Proof. apply Forall2_del. Qed.

Lemma validIdx_ins dim d k ds idx : k < d -> validIdx ds idx -> validIdx (ins dim d ds) (ins dim k idx).
Proof. intros Hk. apply Forall2_ins. exact Hk. Qed.

Lemma validIdx_setAt dim k ds idx : dim < length ds -> k < nth dim ds 0 -> validIdx ds idx -> validIdx ds (setAt dim k idx).
Proof.
  intros Hd Hk Hv. unfold setAt. rewrite <- (ins_del dim 0 ds Hd) at 1.
  apply validIdx_ins; [exact Hk|apply validIdx_del, Hv].
Qed.

Lemma setAt_self dim idx : dim < length idx -> setAt dim (nth dim idx 0) idx = idx.
Proof. apply ins_del. Qed.

Lemma validIdx_nth dim ds idx : validIdx ds idx -> dim < length ds -> nth dim idx 0 < nth dim ds 0.
Proof.
  intros Hv. revert dim. induction Hv as [|i d idx ds Hi _ IH]; intros dim Hd; cbn in Hd; [lia|].
  destruct dim as [|dim]; cbn [nth]; [exact Hi|apply IH; lia].
Qed.

(* the shape of the normaliser after UnSqueeze(dim): entry dim replaced by 1 *)
Lemma unsq_squeeze_rel dim : forall ds, dim < length ds ->
  Forall2 (fun a b => b = a \/ b = 1) ds (unsqueezeDims dim (squeezeDims dim ds)).
Proof.
  change (forall ds, dim < length ds -> Forall2 (fun a b => b = a \/ b = 1) ds (ins dim 1 (del dim ds))).
  induction dim as [|dim IH]; intros [|d ds] Hd; cbn in Hd; try lia.
  - rewrite del_0, ins_0. constructor; [right; reflexivity|]. clear Hd.
    induction ds as [|a ds IHds]; constructor; [left; reflexivity|exact IHds].
  - rewrite del_S, ins_S. constructor; [left; reflexivity|apply IH; lia].
Qed.

Lemma rel_compat2R l1 : forall l2, Forall2 (fun a b => b = a \/ b = 1) l1 l2 -> compat2R l1 l2.
Proof.
  intros l2 H. induction H as [|a b l1 l2 Hab _ IH]; cbn [compat2R]; [exact I|].
  split; [destruct Hab as [->| ->]; auto|exact IH].
Qed.

Lemma rel_tbdRev l1 : forall l2, Forall2 (fun a b => b = a \/ b = 1) l1 l2 -> allpos l1 -> tbdRev l1 l2 = l1.
Proof.
  intros l2 H. induction H as [|a b l1 l2 Hab _ IH]; intros Hp; cbn [tbdRev]; [reflexivity|].
  inversion Hp as [|? ? Ha Hp']; subst. rewrite IH by exact Hp'. f_equal. destruct Hab as [->| ->]; lia.
Qed.

Lemma rel_bcompat2 ds ds1 : Forall2 (fun a b => b = a \/ b = 1) ds ds1 -> bcompat2 ds ds1.
Proof. intros H. unfold bcompat2. apply rel_compat2R, OdometerP.Forall2_rev', H. Qed.

Lemma rel_target ds ds1 : Forall2 (fun a b => b = a \/ b = 1) ds ds1 -> allpos ds -> targetBroadcastDims ds ds1 = ds.
Proof.
  intros H Hp. unfold targetBroadcastDims. rewrite rel_tbdRev; [apply rev_involutive|apply OdometerP.Forall2_rev', H|].
  apply Forall_rev, Hp.
Qed.

(* projecting a target index onto the normaliser: component dim becomes 0 *)
Lemma bmap_id ds idx : validIdx ds idx -> map (fun p => if fst p =? 1 then 0 else snd p) (combine ds idx) = idx.
Proof.
  intros Hv. pose proof (bproj_id ds idx Hv) as H. unfold bproj in H. rewrite Nat.sub_diag in H. exact H.
Qed.

Lemma bproj_unsq dim : forall ds idx, dim < length ds -> validIdx ds idx ->
  bproj (unsqueezeDims dim (squeezeDims dim ds)) ds idx = setAt dim 0 idx.
Proof.
  intros ds idx Hd Hv. unfold bproj, setAt.
  change (unsqueezeDims dim (squeezeDims dim ds)) with (ins dim 1 (del dim ds)).
  rewrite ins_length, del_length by exact Hd. replace (length ds - S (length ds - 1)) with 0 by lia. cbn [skipn].
  revert ds idx Hd Hv. induction dim as [|dim IH]; intros ds idx Hd Hv.
  - destruct Hv as [|i d idx ds Hi Hv]; [cbn in Hd; lia|]. rewrite !del_0, !ins_0. cbn [combine map fst snd Nat.eqb].
    f_equal. apply bmap_id, Hv.
  - destruct Hv as [|i d idx ds Hi Hv]; [cbn in Hd; lia|]. rewrite !del_S, !ins_S. cbn [combine map fst snd].
    cbn in Hd. rewrite IH by (try exact Hv; lia). f_equal.
    destruct (d =? 1) eqn:E; [apply Nat.eqb_eq in E; lia|reflexivity].
Qed.

(* unsqueezing at dim and reading at component dim = 0 is reading the squeezed tensor *)
Lemma flatIdx_ins dim : forall ds idx, dim <= length ds -> length idx = length ds ->
  flatIdx (ins dim 1 ds) (ins dim 0 idx) = flatIdx ds idx.
Proof.
  induction dim as [|dim IH]; intros ds idx Hd Hl.
  - rewrite !ins_0. cbn [flatIdx]. lia.
  - destruct ds as [|d ds]; [cbn in Hd; lia|]. destruct idx as [|i idx]; [discriminate|].
    rewrite !ins_S. cbn [flatIdx]. cbn in Hd, Hl. rewrite IH by lia.
    change (ins dim 1 ds) with (unsqueezeDims dim ds). rewrite unsqueezeDims_prodn. reflexivity.
Qed.

Section SoftmaxP.
Context {A : Type} {SA : Scalar A}.
Notation T := (tensor A).
Notation heap := (@heap A).
Notation hres := (@hres A).

(* the composition at the value level, in the order of the Go code *)
Definition softmax_val (dim : nat) (xv : T) : res T :=
  dor ex <- v_unary UExpo xv;
  dor s <- v_reduceAlong RdSum ex (Z.of_nat dim);
  dor su <- v_unsqueeze s (Z.of_nat dim);
  v_arith BiDiv ex su.

Theorem softmax_forward_tracks (h : heap) dim x name xv : valOf h x = Some xv -> dim < length (dims xv) ->
  tracks h (softmax_forward h dim [Some x] name) (softmax_val dim xv) name.
Proof.
  intros Hx Hd. unfold softmax_forward, softmax_val. cbn [oneInput]. unfold rankOf. rewrite Hx.
  destruct (length (dims xv) <=? dim) eqn:E; [apply Nat.leb_le in E; lia|].
  apply tracks_atomically.
  eapply tracks_w_bind; [apply tracks_is_w, (h_math_tracks h FExp), Hx|].
  intros h1 ex exv X1 _ Hex _.
  eapply tracks_w_bind; [apply tracks_is_w, h_reduceAlong_tracks, Hex|].
  intros h2 s sv X2 _ Hs _.
  eapply tracks_w_bind; [apply tracks_is_w, h_unsqueeze_tracks, Hs|].
  intros h3 su suv X3 _ Hsu _.
  apply tracks_is_w, h_arith_tracks; [|exact Hsu].
  exact (extends_valOf _ _ _ _ X3 (extends_valOf _ _ _ _ X2 Hex)).
Qed.

(* e^x[idx] / (((0 + e^x[idx|dim:=0]) + e^x[idx|dim:=1]) + ... + e^x[idx|dim:=n-1]) *)
Definition smSum (xv : T) (dim : nat) (idx : list nat) : A :=
  fold_left sadd (map (fun k => sexp (elt (data xv) (setAt dim k idx))) (seq 0 (nth dim (dims xv) 0))) s0.
Definition smEl (xv : T) (dim : nat) (idx : list nat) : A :=
  sdiv (sexp (elt (data xv) idx)) (smSum xv dim idx).

Theorem softmax_val_spec (dim : nat) (xv : T) : wf xv -> dim < length (dims xv) ->
  exists r, softmax_val dim xv = Ok r /\ dims r = dims xv /\ wf r /\
    forall idx, validIdx (dims xv) idx -> get (data r) idx = Some (smEl xv dim idx).
Proof.
  intros Wx Hd. unfold softmax_val. pose proof Wx as [Wxd Px].
  (* ex := x.Exp() *)
  destruct (v_unary_spec UExpo xv Wx) as (ex & E1 & Dex & Wex & Gex). rewrite E1. cbn [res_bind unaryF] in *.
  (* s := ex.SumAlong(dim) *)
  assert (Hrg : (0 <= Z.of_nat dim < Z.of_nat (length (dims ex)))%Z) by (rewrite Dex; lia).
  pose proof (v_reduceAlong_elems RdSum ex (Z.of_nat dim) Wex Hrg) as Hr. cbv zeta in Hr.
  rewrite Nat2Z.id, Dex in Hr. destruct Hr as (s & E2 & Ds & Ws & Gs). rewrite E2. cbn [res_bind].
  (* su := s.UnSqueeze(dim) *)
  destruct (v_unsqueeze_spec A s (Z.of_nat dim) Ws) as [Hu _].
  destruct Hu as (su & E3 & Rsu).
  { apply validateUnSqueezeDim_iff. rewrite Ds, squeezeDims_del, del_length by exact Hd. lia. }
  rewrite E3. cbn [res_bind]. rewrite Nat2Z.id, Ds in Rsu. pose proof Rsu as (Dsu & Wsu & _).
  (* result := ex.Div(su) *)
  pose proof (unsq_squeeze_rel dim (dims xv) Hd) as Rel.
  pose proof (v_arith_spec BiDiv ex su Wex Wsu) as Ha. cbv zeta in Ha. destruct Ha as [Ha _].
  rewrite Dex, Dsu, (rel_target _ _ Rel Px) in Ha.
  destruct (Ha (rel_bcompat2 _ _ Rel)) as (r & E4 & Dr & Wr & Gr).
  exists r. split; [exact E4|]. split; [exact Dr|]. split; [exact Wr|].
  intros idx Hv. rewrite (Gr idx Hv), (bproj_id _ _ Hv), (bproj_unsq dim _ _ Hd Hv).
  rewrite (Gex idx Hv), (elt_some _ _ _ Wxd Hv). cbn [option_map].
  (* su[idx|dim:=0] = s[idx without dim] *)
  pose proof (validIdx_del dim _ _ Hv) as Hv'. rewrite <- squeezeDims_del in Hv'.
  pose proof (validIdx_length _ _ Hv') as Hl'.
  assert (Hdl : dim <= length (squeezeDims dim (dims xv))) by (rewrite squeezeDims_del, del_length by exact Hd; lia).
  assert (Esu : get (data su) (setAt dim 0 idx) = get (data s) (del dim idx)).
  { apply (reshaped_get s su _ _ _ Ws Rsu).
    - unfold setAt. change (unsqueezeDims dim (squeezeDims dim (dims xv))) with (ins dim 1 (squeezeDims dim (dims xv))).
      apply validIdx_ins; [lia|exact Hv'].
    - rewrite Ds. exact Hv'.
    - rewrite Ds. unfold setAt. apply flatIdx_ins; assumption. }
  rewrite Esu. destruct (Gs _ Hv') as (fibre & Efib & Gsi). rewrite Gsi. cbn [binaryF redL]. unfold smEl, smSum, sumL.
  assert (fibre = map (fun k => sexp (elt (data xv) (setAt dim k idx))) (seq 0 (nth dim (dims xv) 0))) as ->;
    [|reflexivity].
  apply map_Some_inj. rewrite Efib, map_map. apply map_ext_in. intros k Hk. apply in_seq in Hk.
  change (firstn dim (del dim idx) ++ k :: skipn dim (del dim idx)) with (setAt dim k idx).
  assert (Hvk : validIdx (dims xv) (setAt dim k idx)) by (apply validIdx_setAt; [exact Hd|lia|exact Hv]).
  rewrite (Gex _ Hvk), (elt_some _ _ _ Wxd Hvk). reflexivity.
Qed.

(* ---- the user-facing statement (C14, Softmax) ---- *)
Theorem softmax_forward_spec (h : heap) dim x name (xv : T) :
  valOf h x = Some xv -> wf xv -> dim < length (dims xv) ->
  exists r, produces h (softmax_forward h dim [Some x] name) r name /\ dims r = dims xv /\ wf r /\
    forall idx, validIdx (dims xv) idx ->
      get (data r) idx =
      Some (sdiv (sexp (elt (data xv) idx))
                 (fold_left sadd
                    (map (fun k => sexp (elt (data xv) (setAt dim k idx))) (seq 0 (nth dim (dims xv) 0))) s0)).
Proof.
  intros Hx Wx Hd. destruct (softmax_val_spec dim xv Wx Hd) as (r & Er & Hr). exists r. split; [|exact Hr].
  pose proof (softmax_forward_tracks h dim x name xv Hx Hd) as H. rewrite Er in H. exact H.
Qed.

(* the operands of the formula are the elements of x; idx itself is one of the positions summed over *)
Lemma softmax_operands (xv : T) dim idx : wf xv -> dim < length (dims xv) -> validIdx (dims xv) idx ->
  get (data xv) idx = Some (elt (data xv) idx) /\
  (forall k, k < nth dim (dims xv) 0 ->
     validIdx (dims xv) (setAt dim k idx) /\
     get (data xv) (setAt dim k idx) = Some (elt (data xv) (setAt dim k idx))) /\
  nth dim idx 0 < nth dim (dims xv) 0 /\ setAt dim (nth dim idx 0) idx = idx /\ 0 < nth dim (dims xv) 0.
Proof.
  intros [Wxd Px] Hd Hv. split; [apply (elt_some _ _ _ Wxd Hv)|]. split.
  - intros k Hk. assert (Hvk : validIdx (dims xv) (setAt dim k idx)) by (apply validIdx_setAt; assumption).
    split; [exact Hvk|apply (elt_some _ _ _ Wxd Hvk)].
  - pose proof (validIdx_nth dim _ _ Hv Hd) as Hn. split; [exact Hn|].
    split; [apply setAt_self; rewrite (validIdx_length _ _ Hv); exact Hd|lia].
Qed.

(* ---- rejections ---- *)
Theorem softmax_rejects (h : heap) dim xs name :
  (oneInput xs = None -> softmax_forward h dim xs name = (h, Err)) /\
  (forall x, xs = [Some x] -> rankOf h x <= dim -> softmax_forward h dim xs name = (h, Err)).
Proof.
  split.
  - intros E. unfold softmax_forward. rewrite E. reflexivity.
  - intros x -> Hr. unfold softmax_forward. cbn [oneInput].
    destruct (rankOf h x <=? dim) eqn:E; [reflexivity|apply Nat.leb_gt in E; lia].
Qed.

Theorem softmax_fail_frame (h : heap) dim xs name :
  (forall id, snd (softmax_forward h dim xs name) <> Ok id) -> fst (softmax_forward h dim xs name) = h.
Proof.
  unfold softmax_forward. destruct (oneInput xs) as [x|]; [|reflexivity].
  destruct (rankOf h x <=? dim); [reflexivity|].
  match goal with |- context [atomically h ?e] => destruct e as [h1 [id| |]] end; cbn; intros H;
    [exfalso; apply (H id); reflexivity|reflexivity|reflexivity].
Qed.

(* a well-formed input never makes Softmax fail or panic once the rank test is passed *)
Corollary softmax_forward_ok (h : heap) dim x name (xv : T) :
  valOf h x = Some xv -> wf xv -> dim < length (dims xv) ->
  exists h' id, softmax_forward h dim [Some x] name = (h', Ok id).
Proof.
  intros Hx Wx Hd. destruct (softmax_forward_spec h dim x name xv Hx Wx Hd) as (r & (h' & id & E & _) & _).
  exists h', id. exact E.
Qed.

End SoftmaxP.

(* ================================================================== *)
(*  non-vacuity                                                        *)
(* ================================================================== *)
Module SoftmaxExamples.

(* 1. the free term algebra: the model's result IS the expression of the theorem *)
Definition xT : tensor term := mkT [1; 2] (Vec [Vec [Sc (TVal 0 0); Sc (TVal 0 1)]]).
Lemma wf_xT : wf xT. Proof. split; [apply wfndb_spec; reflexivity|repeat constructor]. Qed.
Definition hT : @heap term := fst (leaf [] xT false (Some 0)).

Example softmax_term_ex :
  exists h', @softmax_forward term term_scalar hT 1 [Some 0] (Some 1) = (h', Ok 6) /\
    valOf h' 6 =
    Some (mkT [1; 2]
      (Vec [Vec [Sc (TBin BDiv (TUn UExp (TVal 0 0))
                      (TBin BAdd (TBin BAdd (TConst 0 0) (TUn UExp (TVal 0 0))) (TUn UExp (TVal 0 1))));
                 Sc (TBin BDiv (TUn UExp (TVal 0 1))
                      (TBin BAdd (TBin BAdd (TConst 0 0) (TUn UExp (TVal 0 0))) (TUn UExp (TVal 0 1))))]])).
Proof. eexists. vm_compute. auto. Qed.

Example softmax_spec_inst :
  exists r, produces hT (@softmax_forward term term_scalar hT 1 [Some 0] None) r None /\
    get (data r) [0; 1] =
    Some (TBin BDiv (TUn UExp (TVal 0 1))
            (TBin BAdd (TBin BAdd (TConst 0 0) (TUn UExp (TVal 0 0))) (TUn UExp (TVal 0 1)))).
Proof.
  destruct (@softmax_forward_spec term term_scalar hT 1 0 None xT eq_refl wf_xT ltac:(cbn; lia)) as (r & P & _ & _ & G).
  exists r. split; [exact P|]. rewrite G by (repeat constructor). reflexivity.
Qed.

(* 2. the throw-away integer instance (exp a = 2^a, integer division), rank 3, dim 1 *)
Import CompExamples.
Close Scope Z_scope.
Definition x3 : tensor Z := mkT [2; 2; 1] (Vec [Vec [Vec [Sc 3]; Vec [Sc 0]]; Vec [Vec [Sc 1]; Vec [Sc 1]]])%Z.
Lemma wf_x3 : wf x3. Proof. split; [apply wfndb_spec; reflexivity|repeat constructor]. Qed.
Definition h3 : @heap Z := fst (leaf [] x3 false (Some 0)).

Example softmax_z_ex :
  exists h', softmax_forward h3 1 [Some 0] (Some 1) = (h', Ok 6) /\ length h' = 7 /\
    valOf h' 6 = Some (mkT [2; 2; 1] (Vec [Vec [Vec [Sc (8 / (0 + 8 + 1))]; Vec [Sc (1 / (0 + 8 + 1))]];
                                          Vec [Vec [Sc (2 / (0 + 2 + 2))]; Vec [Sc (2 / (0 + 2 + 2))]]])%Z).
Proof. eexists. vm_compute. auto. Qed.

Example softmax_z_spec_inst :
  exists r, produces h3 (softmax_forward h3 1 [Some 0] None) r None /\ dims r = [2; 2; 1] /\
    get (data r) [0; 1; 0] = Some (2 ^ 0 / (0 + 2 ^ 3 + 2 ^ 0))%Z.
Proof.
  destruct (softmax_forward_spec h3 1 0 None x3 eq_refl wf_x3 ltac:(cbn; lia)) as (r & P & D & _ & G).
  exists r. split; [exact P|]. split; [exact D|]. rewrite G by (repeat constructor). reflexivity.
Qed.

Example softmax_reject_ex :
  softmax_forward h3 3 [Some 0] None = (h3, Err) /\          (* rank 3 <= dim 3 *)
  softmax_forward h3 1 [] None = (h3, Err) /\ softmax_forward h3 1 [None] None = (h3, Err) /\
  softmax_forward h3 1 [Some 0; Some 0] None = (h3, Err) /\
  softmax_forward h3 1 [Some 5] None = (h3, Err).            (* no such tensor: rank 0 <= dim *)
Proof. vm_compute. repeat split. Qed.

Example setAt_ex : setAt 1 7 [4; 5; 6] = [4; 7; 6] /\ setAt 0 7 [4; 5; 6] = [7; 5; 6] /\ setAt 2 7 [4; 5; 6] = [4; 5; 7].
Proof. vm_compute. auto. Qed.

End SoftmaxExamples.

Print Assumptions softmax_forward_tracks.
Print Assumptions softmax_val_spec.
Print Assumptions softmax_forward_spec.
Print Assumptions softmax_operands.
Print Assumptions softmax_rejects.
Print Assumptions softmax_fail_frame.
Print Assumptions softmax_forward_ok.
