(* ValidP.v — every validator of Model/Valid.v accepts exactly the documented precondition
   (Spec/ValidSpec.v), for ALL integer arguments; the constructors Full / Eye / TensorOf are total;
   the argument checks of the components. *)
From Coq Require Import List Arith ZArith Bool Lia ZifyBool.
From Qeep Require Import Model.Scalar Model.Nd Model.Fill Model.Data Model.Valid Model.Api
  Model.Grad Model.Components Proofs.NdP Proofs.FillP Spec.ValidSpec.
Import ListNotations.
Local Open Scope Z_scope.

(* ====================================================================== *)
(* generic helpers                                                         *)
(* ====================================================================== *)

Lemma Forall2_len {X Y} (P : X -> Y -> Prop) xs ys : Forall2 P xs ys -> length xs = length ys.
Proof. intros H. induction H as [|x y xs ys Hxy Hr IH]; cbn; congruence. Qed.

Lemma Forall2_rev {X Y} (P : X -> Y -> Prop) xs ys : Forall2 P xs ys -> Forall2 P (rev xs) (rev ys).
Proof.
  intros H. induction H as [|x y xs ys Hxy Hr IH]; cbn [rev]; [constructor|].
  apply Forall2_app; [exact IH|constructor; [exact Hxy|constructor]].
Qed.

Lemma Forall2_rev_iff {X Y} (P : X -> Y -> Prop) xs ys : Forall2 P (rev xs) (rev ys) <-> Forall2 P xs ys.
Proof.
  split; [|apply Forall2_rev]. intros H. apply Forall2_rev in H. rewrite !rev_involutive in H. exact H.
Qed.

(* "the first list is matched pointwise against a prefix of the second" — the common shape of
   sliceRangesOk, srcFits, coversSrc, bcastOkRev *)
Fixpoint prefixb {X Y} (p : X -> Y -> bool) (xs : list X) (ys : list Y) : bool :=
  match xs, ys with
  | [], _ => true
  | x :: xs', y :: ys' => p x y && prefixb p xs' ys'
  | _ :: _, [] => false
  end.

Lemma prefixb_spec {X Y} (p : X -> Y -> bool) (P : X -> Y -> Prop) :
  (forall x y, p x y = true <-> P x y) ->
  forall xs ys, prefixb p xs ys = true <->
                (length xs <= length ys)%nat /\ Forall2 P xs (firstn (length xs) ys).
Proof.
  intros Hp. induction xs as [|x xs IH]; intros [|y ys]; cbn [prefixb length firstn].
  - split; [intros _; split; [lia|constructor]|reflexivity].
  - split; [intros _; split; [lia|constructor]|reflexivity].
  - split; [discriminate|intros [H _]; lia].
  - rewrite andb_true_iff, Hp, IH. split.
    + intros [H1 [H2 H3]]. split; [lia|constructor; assumption].
    + intros [H1 H2]. inversion H2 as [|? ? ? ? H3 H4]; subst. repeat split; [exact H3|lia|exact H4].
Qed.

Lemma rev_cons_inv {X} (l : list X) a r : rev l = a :: r -> l = rev r ++ [a].
Proof. intros H. rewrite <- (rev_involutive l), H. reflexivity. Qed.

Lemma snoc_cases {X} (l : list X) : l = [] \/ exists p a, l = p ++ [a].
Proof.
  destruct (rev l) as [|a r] eqn:E.
  - left. rewrite <- (rev_involutive l), E. reflexivity.
  - right. exists (rev r), a. apply rev_cons_inv, E.
Qed.

Lemma nth_error_app_len {X} (p s : list X) j : nth_error (p ++ s) (length p + j) = nth_error s j.
Proof. rewrite nth_error_app2 by lia. f_equal. lia. Qed.

(* ====================================================================== *)
(* 1. validateInputDims                                                    *)
(* ====================================================================== *)

Theorem validateInputDims_spec dims : validateInputDims dims = true <-> inputDimsPre dims.
Proof.
  unfold validateInputDims, inputDimsPre. induction dims as [|d r IH]; cbn [forallb].
  - split; [constructor|reflexivity].
  - rewrite andb_true_iff, IH. split.
    + intros [H1 H2]; constructor; [lia|exact H2].
    + intros H; inversion H as [|? ? H1 H2]; subst; split; [lia|exact H2].
Qed.

(* rejected exactly when some entry is <= 0 *)
Lemma validateInputDims_false dims : validateInputDims dims = false <-> Exists (fun d => d <= 0) dims.
Proof.
  unfold validateInputDims. induction dims as [|d r IH]; cbn [forallb].
  - split; [discriminate|intros H; inversion H].
  - destruct (Z.leb_spec d 0) as [Hd|Hd]; cbn [negb andb].
    + split; [intros _; left; exact Hd|reflexivity].
    + rewrite IH. split; [intros H; right; exact H|].
      intros H; inversion H as [? ? H1|? ? H1]; subst; [lia|exact H1].
Qed.

Example validateInputDims_acc : validateInputDims [2; 3; 1] = true. Proof. reflexivity. Qed.
Example validateInputDims_rej0 : validateInputDims [2; 0; 1] = false. Proof. reflexivity. Qed.
Example validateInputDims_rejn : validateInputDims [2; -3] = false. Proof. reflexivity. Qed.

(* ====================================================================== *)
(* 2. validateAtIndexAgainstDims                                           *)
(* ====================================================================== *)

Lemma atIndexOk_spec : forall index dims,
  atIndexOk index dims = true <-> Forall2 (fun i d => 0 <= i < d) index dims.
Proof.
  induction index as [|i r IH]; intros [|d ds]; cbn [atIndexOk].
  - split; [constructor|reflexivity].
  - split; [discriminate|intros H; inversion H].
  - split; [discriminate|intros H; inversion H].
  - rewrite !andb_true_iff, IH. split.
    + intros [[H1 H2] H3]. constructor; [lia|exact H3].
    + intros H; inversion H as [|? ? ? ? H1 H2]; subst. repeat split; try lia; exact H2.
Qed.

Theorem validateAtIndexAgainstDims_spec index dims :
  validateAtIndexAgainstDims index dims = true <-> atIndexPre index dims.
Proof.
  unfold validateAtIndexAgainstDims, atIndexPre. rewrite andb_true_iff, Nat.eqb_eq, atIndexOk_spec. tauto.
Qed.

Example validateAt_acc : validateAtIndexAgainstDims [1; 0] [2; 3] = true. Proof. reflexivity. Qed.
Example validateAt_rej_hi : validateAtIndexAgainstDims [2; 0] [2; 3] = false. Proof. reflexivity. Qed.
Example validateAt_rej_neg : validateAtIndexAgainstDims [1; -1] [2; 3] = false. Proof. reflexivity. Qed.
Example validateAt_rej_len : validateAtIndexAgainstDims [1] [2; 3] = false. Proof. reflexivity. Qed.

(* ====================================================================== *)
(* 3. validateSliceIndexAgainstDims                                        *)
(* ====================================================================== *)

Definition rangeOkb (r : zrange) (d : Z) : bool :=
  let '(f, t) := r in
  if (f =? 0) && (t =? 0) then true
  else negb (f >=? t) && negb ((f <? 0) || (f >=? d) || (t <? 1) || (t >=? d + 1)).

Lemma rangeOkb_spec r d : rangeOkb r d = true <-> rangePre r d.
Proof.
  destruct r as [f t]. unfold rangeOkb, rangePre. cbn [fst snd].
  destruct ((f =? 0) && (t =? 0)) eqn:E; lia.
Qed.

Lemma sliceRangesOk_prefixb : forall index dims, sliceRangesOk index dims = prefixb rangeOkb index dims.
Proof.
  induction index as [|[f t] r IH]; intros [|d ds]; cbn [sliceRangesOk prefixb rangeOkb]; try reflexivity.
  rewrite IH. reflexivity.
Qed.

Theorem validateSliceIndexAgainstDims_spec index dims :
  validateSliceIndexAgainstDims index dims = true <-> sliceIndexPre index dims.
Proof.
  unfold validateSliceIndexAgainstDims, sliceIndexPre.
  rewrite andb_true_iff, Nat.leb_le, sliceRangesOk_prefixb, (prefixb_spec _ _ rangeOkb_spec). tauto.
Qed.

Example validateSlice_acc : validateSliceIndexAgainstDims [(0, 0); (1, 3)] [2; 3; 4] = true. Proof. reflexivity. Qed.
Example validateSlice_rej_empty : validateSliceIndexAgainstDims [(1, 1)] [2; 3] = false. Proof. reflexivity. Qed.
Example validateSlice_rej_hi : validateSliceIndexAgainstDims [(0, 3)] [2; 3] = false. Proof. reflexivity. Qed.
Example validateSlice_rej_neg : validateSliceIndexAgainstDims [(-1, 1)] [2; 3] = false. Proof. reflexivity. Qed.
Example validateSlice_rej_len : validateSliceIndexAgainstDims [(0, 0); (0, 0); (0, 0)] [2; 3] = false. Proof. reflexivity. Qed.

(* ====================================================================== *)
(* 4. validatePatchIndexAgainstDims                                        *)
(* ====================================================================== *)

Definition fitsb (s d : Z) : bool := negb (s >? d).
Definition coverb (r : zrange) (s : Z) : bool :=
  let '(f, t) := r in if (f =? 0) && (t =? 0) then true else (t - f =? s).

Lemma fitsb_spec s d : fitsb s d = true <-> s <= d.
Proof. unfold fitsb. lia. Qed.

Lemma coverb_spec r s : coverb r s = true <-> coverPre r s.
Proof.
  destruct r as [f t]. unfold coverb, coverPre. cbn [fst snd].
  destruct ((f =? 0) && (t =? 0)) eqn:E; lia.
Qed.

Lemma srcFits_prefixb : forall src dst, srcFits src dst = prefixb fitsb src dst.
Proof.
  induction src as [|s r IH]; intros [|d ds]; cbn [srcFits prefixb]; try reflexivity.
  rewrite IH. reflexivity.
Qed.

Lemma coversSrc_prefixb : forall index src, coversSrc index src = prefixb coverb index src.
Proof.
  induction index as [|[f t] r IH]; intros [|s ss]; cbn [coversSrc prefixb coverb]; try reflexivity.
  rewrite IH. reflexivity.
Qed.

Theorem validatePatchIndexAgainstDims_spec index src dst :
  validatePatchIndexAgainstDims index src dst = true <-> patchIndexPre index src dst.
Proof.
  unfold validatePatchIndexAgainstDims, patchIndexPre.
  rewrite !andb_true_iff, Nat.eqb_eq, validateSliceIndexAgainstDims_spec,
    srcFits_prefixb, coversSrc_prefixb, (prefixb_spec _ _ fitsb_spec), (prefixb_spec _ _ coverb_spec).
  split.
  - intros [[[Hl [_ Hf]] Hs] [Hc1 Hc2]]. rewrite Hl, firstn_all in Hf. tauto.
  - intros (Hl & Hf & Hs & Hc1 & Hc2).
    split; [split; [split; [exact Hl|split; [lia|]]|exact Hs]|split; [exact Hc1|exact Hc2]].
    rewrite Hl, firstn_all. exact Hf.
Qed.

Example validatePatch_acc : validatePatchIndexAgainstDims [(1, 3); (0, 0)] [2; 3] [4; 3] = true. Proof. reflexivity. Qed.
Example validatePatch_rej_cover : validatePatchIndexAgainstDims [(1, 4)] [2; 3] [4; 3] = false. Proof. reflexivity. Qed.
Example validatePatch_rej_fit : validatePatchIndexAgainstDims [(0, 0)] [5; 3] [4; 3] = false. Proof. reflexivity. Qed.
Example validatePatch_rej_rank : validatePatchIndexAgainstDims [(0, 0)] [3] [4; 3] = false. Proof. reflexivity. Qed.

(* ====================================================================== *)
(* 5. validateConcatTensorsDimsAlongDim                                    *)
(* ====================================================================== *)

Lemma offAxis_spec dim : forall (ds base : list Z) (k : nat), length ds = length base ->
  forallb (fun p : Z * (Z * Z) => let '(j, (d, b)) := p in (j =? dim) || (d =? b))
          (combine (map Z.of_nat (seq k (length ds))) (combine ds base)) = true
  <-> forall j : nat, Z.of_nat (k + j) <> dim -> nth_error ds j = nth_error base j.
Proof.
  induction ds as [|a ds IH]; intros [|b base] k Hl; cbn [length] in Hl; try discriminate.
  - cbn. split; [intros _ j _; destruct j; reflexivity|reflexivity].
  - cbn [length seq map combine forallb]. rewrite andb_true_iff, (IH base (S k)) by congruence. split.
    + intros [H1 H2] j Hj. destruct j as [|j]; cbn [nth_error].
      * f_equal. replace (k + 0)%nat with k in Hj by lia. lia.
      * apply H2. lia.
    + intros H. split.
      * destruct (Z.eqb_spec (Z.of_nat k) dim) as [He|He]; [reflexivity|]. cbn [orb].
        specialize (H 0%nat). cbn [nth_error] in H. replace (k + 0)%nat with k in H by lia.
        specialize (H He). inversion H; subst. apply Z.eqb_refl.
      * intros j Hj. apply (H (S j)). lia.
Qed.

Lemma concatShape_spec base dim ds :
  negb (length ds =? 0)%nat && (length ds =? length base)%nat
  && ((0 <=? dim) && (dim <? zlen base))
  && forallb (fun p : Z * (Z * Z) => let '(j, (d, b)) := p in (j =? dim) || (d =? b))
             (combine (map Z.of_nat (seq 0 (length ds))) (combine ds base)) = true
  <-> concatShapePre base dim ds.
Proof.
  unfold concatShapePre, zlen. rewrite !andb_true_iff. split.
  - intros [[[H1 H2] H3] H4]. apply Nat.eqb_eq in H2. rewrite (offAxis_spec dim ds base 0 H2) in H4.
    repeat split; try lia. intros j Hj. apply H4. lia.
  - intros (H1 & H2 & H3 & H4). split; [split; [split|]|].
    + apply negb_true_iff, Nat.eqb_neq. lia.
    + apply Nat.eqb_eq. exact H1.
    + lia.
    + apply (offAxis_spec dim ds base 0 H1). intros j Hj. apply H4. lia.
Qed.

Lemma concatDimsOk_spec base dim : forall tsDims,
  concatDimsOk base dim tsDims = true <-> Forall (concatShapePre base dim) tsDims.
Proof.
  induction tsDims as [|ds rest IH]; cbn [concatDimsOk].
  - split; [constructor|reflexivity].
  - rewrite andb_true_iff, IH, concatShape_spec. split.
    + intros [H1 H2]; constructor; assumption.
    + intros H; inversion H; subst; split; assumption.
Qed.

Theorem validateConcat_spec base rest dim :
  validateConcatTensorsDimsAlongDim (base :: rest) dim = Some true <-> concatPre base rest dim.
Proof.
  unfold validateConcatTensorsDimsAlongDim, concatPre. rewrite <- concatDimsOk_spec.
  split; [intros H; inversion H; reflexivity|intros ->; reflexivity].
Qed.

Theorem validateConcat_none tsDims dim :
  validateConcatTensorsDimsAlongDim tsDims dim = None <-> tsDims = [].
Proof. destruct tsDims; cbn; split; intros H; try reflexivity; discriminate. Qed.

Example validateConcat_acc : validateConcatTensorsDimsAlongDim [[2; 3]; [2; 5]; [2; 1]] 1 = Some true. Proof. reflexivity. Qed.
Example validateConcat_rej_off : validateConcatTensorsDimsAlongDim [[2; 3]; [4; 5]] 1 = Some false. Proof. reflexivity. Qed.
Example validateConcat_rej_dim : validateConcatTensorsDimsAlongDim [[2; 3]; [2; 3]] 2 = Some false. Proof. reflexivity. Qed.
Example validateConcat_rej_neg : validateConcatTensorsDimsAlongDim [[2; 3]; [2; 3]] (-1) = Some false. Proof. reflexivity. Qed.
Example validateConcat_rej_rank : validateConcatTensorsDimsAlongDim [[2; 3]; [2]] 0 = Some false. Proof. reflexivity. Qed.
Example validateConcat_rej_scalar : validateConcatTensorsDimsAlongDim [[]; []] 0 = Some false. Proof. reflexivity. Qed.

(* ====================================================================== *)
(* 6. operators                                                            *)
(* ====================================================================== *)

Theorem validateBinaryFuncDimsMatch_spec : forall d1 d2,
  validateBinaryFuncDimsMatch d1 d2 = true <-> sameDimsPre d1 d2.
Proof.
  unfold validateBinaryFuncDimsMatch, sameDimsPre.
  induction d1 as [|a r IH]; intros [|b r2]; cbn [dimsEq].
  - split; reflexivity.
  - split; discriminate.
  - split; discriminate.
  - rewrite andb_true_iff, IH, Z.eqb_eq. split.
    + intros [-> ->]; reflexivity.
    + intros H; inversion H; subst; split; reflexivity.
Qed.

Lemma dotPre_iff d1 d2 : dotPre d1 d2 <-> dotPre' d1 d2.
Proof.
  unfold dotPre, dotPre'. split.
  - intros (H1 & H2 & H3).
    destruct (snoc_cases d1) as [->|(p1 & a & ->)]; [cbn in H1; lia|].
    destruct (snoc_cases d2) as [->|(p2 & b & ->)]; [cbn in H2; lia|].
    rewrite !app_length in H3. cbn [length] in H3.
    replace (length p1 + 1 - 1)%nat with (length p1 + 0)%nat in H3 by lia.
    replace (length p2 + 1 - 1)%nat with (length p2 + 0)%nat in H3 by lia.
    rewrite !nth_error_app_len in H3. cbn in H3. inversion H3; subst. exists p1, p2, b. split; reflexivity.
  - intros (p1 & p2 & a & -> & ->). rewrite !app_length. cbn [length]. repeat split; try lia.
    replace (length p1 + 1 - 1)%nat with (length p1 + 0)%nat by lia.
    replace (length p2 + 1 - 1)%nat with (length p2 + 0)%nat by lia.
    rewrite !nth_error_app_len. reflexivity.
Qed.

Lemma validateDotProductDims_spec' d1 d2 : validateDotProductDims d1 d2 = true <-> dotPre' d1 d2.
Proof.
  unfold validateDotProductDims, dotPre'. split.
  - destruct (rev d1) as [|a r1] eqn:E1; [discriminate|].
    destruct (rev d2) as [|b r2] eqn:E2; [discriminate|].
    intros H. apply Z.eqb_eq in H. subst b. exists (rev r1), (rev r2), a.
    split; apply rev_cons_inv; assumption.
  - intros (p1 & p2 & a & -> & ->). rewrite !rev_app_distr. cbn. apply Z.eqb_refl.
Qed.

Theorem validateDotProductDims_spec d1 d2 : validateDotProductDims d1 d2 = true <-> dotPre d1 d2.
Proof. rewrite dotPre_iff. apply validateDotProductDims_spec'. Qed.

Lemma snoc2_cases {X} (l : list X) : (2 <= length l)%nat -> exists p a b, l = p ++ [a; b].
Proof.
  intros H. destruct (snoc_cases l) as [->|(q & b & ->)]; [cbn in H; lia|].
  rewrite app_length in H. cbn [length] in H.
  destruct (snoc_cases q) as [->|(p & a & ->)]; [cbn in H; lia|].
  exists p, a, b. rewrite <- app_assoc. reflexivity.
Qed.

Lemma matMulPre_iff d1 d2 : matMulPre d1 d2 <-> matMulPre' d1 d2.
Proof.
  unfold matMulPre, matMulPre'. split.
  - intros (H1 & H2 & H3).
    destruct (snoc2_cases d1 H1) as (p1 & m & k & ->).
    destruct (snoc2_cases d2 H2) as (p2 & k' & n & ->).
    rewrite !app_length in H3. cbn [length] in H3.
    replace (length p1 + 2 - 1)%nat with (length p1 + 1)%nat in H3 by lia.
    replace (length p2 + 2 - 2)%nat with (length p2 + 0)%nat in H3 by lia.
    rewrite !nth_error_app_len in H3. cbn in H3. inversion H3; subst.
    exists p1, m, k', p2, n. split; reflexivity.
  - intros (p1 & m & k & p2 & n & -> & ->). rewrite !app_length. cbn [length]. repeat split; try lia.
    replace (length p1 + 2 - 1)%nat with (length p1 + 1)%nat by lia.
    replace (length p2 + 2 - 2)%nat with (length p2 + 0)%nat by lia.
    rewrite !nth_error_app_len. reflexivity.
Qed.

Lemma validateMatMulDims_spec' d1 d2 : validateMatMulDims d1 d2 = true <-> matMulPre' d1 d2.
Proof.
  unfold validateMatMulDims, matMulPre'. split.
  - destruct (rev d1) as [|a [|m r1]] eqn:E1; try discriminate.
    destruct (rev d2) as [|n [|b r2]] eqn:E2; try discriminate.
    intros H. apply Z.eqb_eq in H. subst b.
    exists (rev r1), m, a, (rev r2), n.
    apply rev_cons_inv in E1. apply rev_cons_inv in E2. cbn [rev] in E1, E2.
    rewrite <- app_assoc in E1, E2. split; assumption.
  - intros (p1 & m & k & p2 & n & -> & ->). rewrite !rev_app_distr. cbn. apply Z.eqb_refl.
Qed.

Theorem validateMatMulDims_spec d1 d2 : validateMatMulDims d1 d2 = true <-> matMulPre d1 d2.
Proof. rewrite matMulPre_iff. apply validateMatMulDims_spec'. Qed.

Example validateSame_acc : validateBinaryFuncDimsMatch [2; 3] [2; 3] = true. Proof. reflexivity. Qed.
Example validateSame_rej : validateBinaryFuncDimsMatch [2; 3] [2; 4] = false. Proof. reflexivity. Qed.
Example validateSame_rej_len : validateBinaryFuncDimsMatch [2; 3] [2] = false. Proof. reflexivity. Qed.
Example validateDot_acc : validateDotProductDims [5; 3] [3] = true. Proof. reflexivity. Qed.
Example validateDot_rej : validateDotProductDims [5; 3] [5] = false. Proof. reflexivity. Qed.
Example validateDot_rej_scalar : validateDotProductDims [] [3] = false. Proof. reflexivity. Qed.
Example validateMatMul_acc : validateMatMulDims [7; 2; 3] [3; 4] = true. Proof. reflexivity. Qed.
Example validateMatMul_rej : validateMatMulDims [2; 3] [4; 3] = false. Proof. reflexivity. Qed.
Example validateMatMul_rej_rank : validateMatMulDims [3] [3; 4] = false. Proof. reflexivity. Qed.

(* ====================================================================== *)
(* 7. reducers / shape modifiers                                           *)
(* ====================================================================== *)

Theorem validateReducedDimAgainstDims_spec dim dims :
  validateReducedDimAgainstDims dim dims = true <-> axisPre dim dims.
Proof. unfold validateReducedDimAgainstDims, axisPre, zlen. lia. Qed.

Theorem validateFlattenDim_spec dim dims : validateFlattenDim dim dims = true <-> axisPre dim dims.
Proof. unfold validateFlattenDim, axisPre, zlen. lia. Qed.

Theorem validateUnSqueezeDim_spec dim dims : validateUnSqueezeDim dim dims = true <-> unSqueezePre dim dims.
Proof. unfold validateUnSqueezeDim, unSqueezePre, zlen. lia. Qed.

Theorem validateSqueezeDim_spec dim dims : validateSqueezeDim dim dims = true <-> squeezePre dim dims.
Proof.
  unfold validateSqueezeDim, squeezePre, zlen.
  destruct (nth_error dims (Z.to_nat dim)) as [d|].
  - split.
    + intros H. split; [lia|f_equal; lia].
    + intros [H1 H2]. inversion H2; subst. lia.
  - split; [intros H; lia|intros [_ H]; discriminate].
Qed.

Theorem validateTransposeDims_spec dims : validateTransposeDims dims = true <-> transposePre dims.
Proof. unfold validateTransposeDims, transposePre. apply Nat.leb_le. Qed.

Lemma fold_left_mul l : forall a, fold_left Z.mul l a = a * fold_right Z.mul 1 l.
Proof.
  induction l as [|x l IH]; intros a; cbn [fold_left fold_right]; [lia|].
  rewrite IH. apply eq_sym, Z.mul_assoc.
Qed.

Lemma dimsToNumElems_numElems l : dimsToNumElems l = numElems l.
Proof. unfold dimsToNumElems, numElems. rewrite fold_left_mul. lia. Qed.

Theorem validateReshape_spec src dst : validateReshape src dst = true <-> reshapePre src dst.
Proof. unfold validateReshape, reshapePre. rewrite !dimsToNumElems_numElems. apply Z.eqb_eq. Qed.

Definition bcastDimb (s d : Z) : bool := (s =? d) || (s =? 1).
Lemma bcastDimb_spec s d : bcastDimb s d = true <-> bcastDimPre s d.
Proof. unfold bcastDimb, bcastDimPre. lia. Qed.

Lemma bcastOkRev_prefixb : forall rs rd, bcastOkRev rs rd = prefixb bcastDimb rs rd.
Proof.
  induction rs as [|s r IH]; intros [|d ds]; cbn [bcastOkRev prefixb]; try reflexivity.
  rewrite IH. reflexivity.
Qed.

Lemma broadcastPre_iff src dst : broadcastPre src dst <-> broadcastPre' src dst.
Proof.
  unfold broadcastPre, broadcastPre'. rewrite firstn_rev, Forall2_rev_iff. tauto.
Qed.

Theorem validateBroadcast_spec' src dst : validateBroadcast src dst = true <-> broadcastPre' src dst.
Proof.
  unfold validateBroadcast, broadcastPre'.
  rewrite andb_true_iff, Nat.leb_le, bcastOkRev_prefixb, (prefixb_spec _ _ bcastDimb_spec), !rev_length. tauto.
Qed.

Theorem validateBroadcast_spec src dst : validateBroadcast src dst = true <-> broadcastPre src dst.
Proof. rewrite broadcastPre_iff. apply validateBroadcast_spec'. Qed.

Example validateReduced_acc : validateReducedDimAgainstDims 1 [2; 3] = true. Proof. reflexivity. Qed.
Example validateReduced_rej : validateReducedDimAgainstDims 2 [2; 3] = false. Proof. reflexivity. Qed.
Example validateReduced_rej_neg : validateReducedDimAgainstDims (-1) [2; 3] = false. Proof. reflexivity. Qed.
Example validateFlatten_acc : validateFlattenDim 0 [2; 3] = true. Proof. reflexivity. Qed.
Example validateFlatten_rej : validateFlattenDim 0 [] = false. Proof. reflexivity. Qed.
Example validateUnSqueeze_acc : validateUnSqueezeDim 2 [2; 3] = true. Proof. reflexivity. Qed.
Example validateUnSqueeze_rej : validateUnSqueezeDim 3 [2; 3] = false. Proof. reflexivity. Qed.
Example validateSqueeze_acc : validateSqueezeDim 1 [2; 1; 3] = true. Proof. reflexivity. Qed.
Example validateSqueeze_rej : validateSqueezeDim 0 [2; 1; 3] = false. Proof. reflexivity. Qed.
Example validateSqueeze_rej_hi : validateSqueezeDim 3 [2; 1; 3] = false. Proof. reflexivity. Qed.
Example validateTranspose_acc : validateTransposeDims [2; 3] = true. Proof. reflexivity. Qed.
Example validateTranspose_rej : validateTransposeDims [2] = false. Proof. reflexivity. Qed.
Example validateReshape_acc : validateReshape [2; 6] [3; 4] = true. Proof. reflexivity. Qed.
Example validateReshape_rej : validateReshape [2; 6] [3; 5] = false. Proof. reflexivity. Qed.
Example validateBroadcast_acc : validateBroadcast [3; 1] [2; 3; 4] = true. Proof. reflexivity. Qed.
Example validateBroadcast_rej : validateBroadcast [3; 2] [2; 3; 4] = false. Proof. reflexivity. Qed.
Example validateBroadcast_rej_len : validateBroadcast [1; 1; 1] [1; 1] = false. Proof. reflexivity. Qed.
