(* ValidP.v — every validator of Model/Valid.v accepts exactly the documented precondition
   (Spec/ValidSpec.v), for ALL integer arguments; the constructors Full / Eye / TensorOf are total;
   the argument checks of the components. *)
From Coq Require Import List Arith ZArith Bool Lia ZifyBool.
From Qeep Require Import Model.Scalar Model.Nd Model.Fill Model.Data Model.Valid Model.Api
  Model.Grad Model.Components Proofs.NdP Proofs.FillP Spec.ValidSpec.
Import ListNotations.
Local Open Scope Z_scope.

(* ====================================================================== *)
(* generic helpers                                                         *)
(* ====================================================================== *)

Lemma Forall2_len {X Y} (P : X -> Y -> Prop) xs ys : Forall2 P xs ys -> length xs = length ys.
Proof. intros H. induction H as [|x y xs ys Hxy Hr IH]; cbn; congruence. Qed.

Lemma Forall2_rev {X Y} (P : X -> Y -> Prop) xs ys : Forall2 P xs ys -> Forall2 P (rev xs) (rev ys).
Proof.
  intros H. induction H as [|x y xs ys Hxy Hr IH]; cbn [rev]; [constructor|].
  apply Forall2_app; [exact IH|constructor; [exact Hxy|constructor]].
Qed.

Lemma Forall2_rev_iff {X Y} (P : X -> Y -> Prop) xs ys : Forall2 P (rev xs) (rev ys) <-> Forall2 P xs ys.
Proof.
  split; [|apply Forall2_rev]. intros H. apply Forall2_rev in H. rewrite !rev_involutive in H. exact H.
Qed.

(* "the first list is matched pointwise against a prefix of the second" — the common shape of
   sliceRangesOk, srcFits, coversSrc, bcastOkRev *)
Fixpoint prefixb {X Y} (p : X -> Y -> bool) (xs : list X) (ys : list Y) : bool :=
  match xs, ys with
  | [], _ => true
  | x :: xs', y :: ys' => p x y && prefixb p xs' ys'
  | _ :: _, [] => false
  end.

Lemma prefixb_spec {X Y} (p : X -> Y -> bool) (P : X -> Y -> Prop) :
  (forall x y, p x y = true <-> P x y) ->
  forall xs ys, prefixb p xs ys = true <->
                (length xs <= length ys)%nat /\ Forall2 P xs (firstn (length xs) ys).
Proof.
  intros Hp. induction xs as [|x xs IH]; intros [|y ys]; cbn [prefixb length firstn].
  - split; [intros _; split; [lia|constructor]|reflexivity].
  - split; [intros _; split; [lia|constructor]|reflexivity].
  - split; [discriminate|intros [H _]; lia].
  - rewrite andb_true_iff, Hp, IH. split.
    + intros [H1 [H2 H3]]. split; [lia|constructor; assumption].
    + intros [H1 H2]. inversion H2 as [|? ? ? ? H3 H4]; subst. repeat split; [exact H3|lia|exact H4].
Qed.

Lemma rev_cons_inv {X} (l : list X) a r : rev l = a :: r -> l = rev r ++ [a].
Proof. intros H. rewrite <- (rev_involutive l), H. reflexivity. Qed.

Lemma snoc_cases {X} (l : list X) : l = [] \/ exists p a, l = p ++ [a].
Proof.
  destruct (rev l) as [|a r] eqn:E.
  - left. rewrite <- (rev_involutive l), E. reflexivity.
  - right. exists (rev r), a. apply rev_cons_inv, E.
Qed.

Lemma nth_error_app_len {X} (p s : list X) j : nth_error (p ++ s) (length p + j) = nth_error s j.
Proof. rewrite nth_error_app2 by lia. f_equal. lia. Qed.

(* ====================================================================== *)
(* 1. validateInputDims                                                    *)
(* ====================================================================== *)

Theorem validateInputDims_spec dims : validateInputDims dims = true <-> inputDimsPre dims.
Proof.
  unfold validateInputDims, inputDimsPre. induction dims as [|d r IH]; cbn [forallb].
  - split; [constructor|reflexivity].
  - rewrite andb_true_iff, IH. split.
    + intros [H1 H2]; constructor; [lia|exact H2].
    + intros H; inversion H as [|? ? H1 H2]; subst; split; [lia|exact H2].
Qed.

(* rejected exactly when some entry is <= 0 *)
Lemma validateInputDims_false dims : validateInputDims dims = false <-> Exists (fun d => d <= 0) dims.
Proof.
  unfold validateInputDims. induction dims as [|d r IH]; cbn [forallb].
  - split; [discriminate|intros H; inversion H].
  - destruct (Z.leb_spec d 0) as [Hd|Hd]; cbn [negb andb].
    + split; [intros _; left; exact Hd|reflexivity].
    + rewrite IH. split; [intros H; right; exact H|].
      intros H; inversion H as [? ? H1|? ? H1]; subst; [lia|exact H1].
Qed.

Example validateInputDims_acc : validateInputDims [2; 3; 1] = true. Proof. reflexivity. Qed.
Example validateInputDims_rej0 : validateInputDims [2; 0; 1] = false. Proof. reflexivity. Qed.
Example validateInputDims_rejn : validateInputDims [2; -3] = false. Proof. reflexivity. Qed.

(* ====================================================================== *)
(* 2. validateAtIndexAgainstDims                                           *)
(* ====================================================================== *)

Lemma atIndexOk_spec : forall index dims,
  atIndexOk index dims = true <-> Forall2 (fun i d => 0 <= i < d) index dims.
Proof.
  induction index as [|i r IH]; intros [|d ds]; cbn [atIndexOk].
  - split; [constructor|reflexivity].
  - split; [discriminate|intros H; inversion H].
  - split; [discriminate|intros H; inversion H].
  - rewrite !andb_true_iff, IH. split.
    + intros [[H1 H2] H3]. constructor; [lia|exact H3].
    + intros H; inversion H as [|? ? ? ? H1 H2]; subst. repeat split; try lia; exact H2.
Qed.

Theorem validateAtIndexAgainstDims_spec index dims :
  validateAtIndexAgainstDims index dims = true <-> atIndexPre index dims.
Proof.
  unfold validateAtIndexAgainstDims, atIndexPre. rewrite andb_true_iff, Nat.eqb_eq, atIndexOk_spec. tauto.
Qed.

Example validateAt_acc : validateAtIndexAgainstDims [1; 0] [2; 3] = true. Proof. reflexivity. Qed.
Example validateAt_rej_hi : validateAtIndexAgainstDims [2; 0] [2; 3] = false. Proof. reflexivity. Qed.
Example validateAt_rej_neg : validateAtIndexAgainstDims [1; -1] [2; 3] = false. Proof. reflexivity. Qed.
Example validateAt_rej_len : validateAtIndexAgainstDims [1] [2; 3] = false. Proof. reflexivity. Qed.

(* ====================================================================== *)
(* 3. validateSliceIndexAgainstDims                                        *)
(* ====================================================================== *)

Definition rangeOkb (r : zrange) (d : Z) : bool :=
  let '(f, t) := r in
  if (f =? 0) && (t =? 0) then true
  else negb (f >=? t) && negb ((f <? 0) || (f >=? d) || (t <? 1) || (t >=? d + 1)).

Lemma rangeOkb_spec r d : rangeOkb r d = true <-> rangePre r d.
Proof.
  destruct r as [f t]. unfold rangeOkb, rangePre. cbn [fst snd].
  destruct ((f =? 0) && (t =? 0)) eqn:E; lia.
Qed.

Lemma sliceRangesOk_prefixb : forall index dims, sliceRangesOk index dims = prefixb rangeOkb index dims.
Proof.
  induction index as [|[f t] r IH]; intros [|d ds]; cbn [sliceRangesOk prefixb rangeOkb]; try reflexivity.
  rewrite IH. reflexivity.
Qed.

Theorem validateSliceIndexAgainstDims_spec index dims :
  validateSliceIndexAgainstDims index dims = true <-> sliceIndexPre index dims.
Proof.
  unfold validateSliceIndexAgainstDims, sliceIndexPre.
  rewrite andb_true_iff, Nat.leb_le, sliceRangesOk_prefixb, (prefixb_spec _ _ rangeOkb_spec). tauto.
Qed.

Example validateSlice_acc : validateSliceIndexAgainstDims [(0, 0); (1, 3)] [2; 3; 4] = true. Proof. reflexivity. Qed.
Example validateSlice_rej_empty : validateSliceIndexAgainstDims [(1, 1)] [2; 3] = false. Proof. reflexivity. Qed.
Example validateSlice_rej_hi : validateSliceIndexAgainstDims [(0, 3)] [2; 3] = false. Proof. reflexivity. Qed.
Example validateSlice_rej_neg : validateSliceIndexAgainstDims [(-1, 1)] [2; 3] = false. Proof. reflexivity. Qed.
Example validateSlice_rej_len : validateSliceIndexAgainstDims [(0, 0); (0, 0); (0, 0)] [2; 3] = false. Proof. reflexivity. Qed.

(* ====================================================================== *)
(* 4. validatePatchIndexAgainstDims                                        *)
(* ====================================================================== *)

Definition fitsb (s d : Z) : bool := negb (s >? d).
Definition coverb (r : zrange) (s : Z) : bool :=
  let '(f, t) := r in if (f =? 0) && (t =? 0) then true else (t - f =? s).

Lemma fitsb_spec s d : fitsb s d = true <-> s <= d.
Proof. unfold fitsb. lia. Qed.

Lemma coverb_spec r s : coverb r s = true <-> coverPre r s.
Proof.
  destruct r as [f t]. unfold coverb, coverPre. cbn [fst snd].
  destruct ((f =? 0) && (t =? 0)) eqn:E; lia.
Qed.

Lemma srcFits_prefixb : forall src dst, srcFits src dst = prefixb fitsb src dst.
Proof.
  induction src as [|s r IH]; intros [|d ds]; cbn [srcFits prefixb]; try reflexivity.
  rewrite IH. reflexivity.
Qed.

Lemma coversSrc_prefixb : forall index src, coversSrc index src = prefixb coverb index src.
Proof.
  induction index as [|[f t] r IH]; intros [|s ss]; cbn [coversSrc prefixb coverb]; try reflexivity.
  rewrite IH. reflexivity.
Qed.

Theorem validatePatchIndexAgainstDims_spec index src dst :
  validatePatchIndexAgainstDims index src dst = true <-> patchIndexPre index src dst.
Proof.
  unfold validatePatchIndexAgainstDims, patchIndexPre.
  rewrite !andb_true_iff, Nat.eqb_eq, validateSliceIndexAgainstDims_spec,
    srcFits_prefixb, coversSrc_prefixb, (prefixb_spec _ _ fitsb_spec), (prefixb_spec _ _ coverb_spec).
  split.
  - intros [[[Hl [_ Hf]] Hs] [Hc1 Hc2]]. rewrite Hl, firstn_all in Hf. tauto.
  - intros (Hl & Hf & Hs & Hc1 & Hc2).
    split; [split; [split; [exact Hl|split; [lia|]]|exact Hs]|split; [exact Hc1|exact Hc2]].
    rewrite Hl, firstn_all. exact Hf.
Qed.

Example validatePatch_acc : validatePatchIndexAgainstDims [(1, 3); (0, 0)] [2; 3] [4; 3] = true. Proof. reflexivity. Qed.
Example validatePatch_rej_cover : validatePatchIndexAgainstDims [(1, 4)] [2; 3] [4; 3] = false. Proof. reflexivity. Qed.
Example validatePatch_rej_fit : validatePatchIndexAgainstDims [(0, 0)] [5; 3] [4; 3] = false. Proof. reflexivity. Qed.
Example validatePatch_rej_rank : validatePatchIndexAgainstDims [(0, 0)] [3] [4; 3] = false. Proof. reflexivity. Qed.

(* ====================================================================== *)
(* 5. validateConcatTensorsDimsAlongDim                                    *)
(* ====================================================================== *)

Lemma offAxis_spec dim : forall (ds base : list Z) (k : nat), length ds = length base ->
  forallb (fun p : Z * (Z * Z) => let '(j, (d, b)) := p in (j =? dim) || (d =? b))
          (combine (map Z.of_nat (seq k (length ds))) (combine ds base)) = true
  <-> forall j : nat, Z.of_nat (k + j) <> dim -> nth_error ds j = nth_error base j.
Proof.
  induction ds as [|a ds IH]; intros [|b base] k Hl; cbn [length] in Hl; try discriminate.
  - cbn. split; [intros _ j _; destruct j; reflexivity|reflexivity].
  - cbn [length seq map combine forallb]. rewrite andb_true_iff, (IH base (S k)) by congruence. split.
    + intros [H1 H2] j Hj. destruct j as [|j]; cbn [nth_error].
      * f_equal. replace (k + 0)%nat with k in Hj by lia. lia.
      * apply H2. lia.
    + intros H. split.
      * destruct (Z.eqb_spec (Z.of_nat k) dim) as [He|He]; [reflexivity|]. cbn [orb].
        specialize (H 0%nat). cbn [nth_error] in H. replace (k + 0)%nat with k in H by lia.
        specialize (H He). inversion H; subst. apply Z.eqb_refl.
      * intros j Hj. apply (H (S j)). lia.
Qed.

Lemma concatShape_spec base dim ds :
  negb (length ds =? 0)%nat && (length ds =? length base)%nat
  && ((0 <=? dim) && (dim <? zlen base))
  && forallb (fun p : Z * (Z * Z) => let '(j, (d, b)) := p in (j =? dim) || (d =? b))
             (combine (map Z.of_nat (seq 0 (length ds))) (combine ds base)) = true
  <-> concatShapePre base dim ds.
Proof.
  unfold concatShapePre, zlen. rewrite !andb_true_iff. split.
  - intros [[[H1 H2] H3] H4]. apply Nat.eqb_eq in H2. rewrite (offAxis_spec dim ds base 0 H2) in H4.
    repeat split; try lia. intros j Hj. apply H4. lia.
  - intros (H1 & H2 & H3 & H4). split; [split; [split|]|].
    + apply negb_true_iff, Nat.eqb_neq. lia.
    + apply Nat.eqb_eq. exact H1.
    + lia.
    + apply (offAxis_spec dim ds base 0 H1). intros j Hj. apply H4. lia.
Qed.

Lemma concatDimsOk_spec base dim : forall tsDims,
  concatDimsOk base dim tsDims = true <-> Forall (concatShapePre base dim) tsDims.
Proof.
  induction tsDims as [|ds rest IH]; cbn [concatDimsOk].
  - split; [constructor|reflexivity].
  - rewrite andb_true_iff, IH, concatShape_spec. split.
    + intros [H1 H2]; constructor; assumption.
    + intros H; inversion H; subst; split; assumption.
Qed.

Theorem validateConcat_spec base rest dim :
  validateConcatTensorsDimsAlongDim (base :: rest) dim = Some true <-> concatPre base rest dim.
Proof.
  unfold validateConcatTensorsDimsAlongDim, concatPre. rewrite <- concatDimsOk_spec.
  split; [intros H; inversion H; reflexivity|intros ->; reflexivity].
Qed.

Theorem validateConcat_none tsDims dim :
  validateConcatTensorsDimsAlongDim tsDims dim = None <-> tsDims = [].
Proof. destruct tsDims; cbn; split; intros H; try reflexivity; discriminate. Qed.

Example validateConcat_acc : validateConcatTensorsDimsAlongDim [[2; 3]; [2; 5]; [2; 1]] 1 = Some true. Proof. reflexivity. Qed.
Example validateConcat_rej_off : validateConcatTensorsDimsAlongDim [[2; 3]; [4; 5]] 1 = Some false. Proof. reflexivity. Qed.
Example validateConcat_rej_dim : validateConcatTensorsDimsAlongDim [[2; 3]; [2; 3]] 2 = Some false. Proof. reflexivity. Qed.
Example validateConcat_rej_neg : validateConcatTensorsDimsAlongDim [[2; 3]; [2; 3]] (-1) = Some false. Proof. reflexivity. Qed.
Example validateConcat_rej_rank : validateConcatTensorsDimsAlongDim [[2; 3]; [2]] 0 = Some false. Proof. reflexivity. Qed.
Example validateConcat_rej_scalar : validateConcatTensorsDimsAlongDim [[]; []] 0 = Some false. Proof. reflexivity. Qed.

(* ====================================================================== *)
(* 6. operators                                                            *)
(* ====================================================================== *)

Theorem validateBinaryFuncDimsMatch_spec : forall d1 d2,
  validateBinaryFuncDimsMatch d1 d2 = true <-> sameDimsPre d1 d2.
Proof.
  unfold validateBinaryFuncDimsMatch, sameDimsPre.
  induction d1 as [|a r IH]; intros [|b r2]; cbn [dimsEq].
  - split; reflexivity.
  - split; discriminate.
  - split; discriminate.
  - rewrite andb_true_iff, IH, Z.eqb_eq. split.
    + intros [-> ->]; reflexivity.
    + intros H; inversion H; subst; split; reflexivity.
Qed.

Lemma dotPre_iff d1 d2 : dotPre d1 d2 <-> dotPre' d1 d2.
Proof.
  unfold dotPre, dotPre'. split.
  - intros (H1 & H2 & H3).
    destruct (snoc_cases d1) as [->|(p1 & a & ->)]; [cbn in H1; lia|].
    destruct (snoc_cases d2) as [->|(p2 & b & ->)]; [cbn in H2; lia|].
    rewrite !app_length in H3. cbn [length] in H3.
    replace (length p1 + 1 - 1)%nat with (length p1 + 0)%nat in H3 by lia.
    replace (length p2 + 1 - 1)%nat with (length p2 + 0)%nat in H3 by lia.
    rewrite !nth_error_app_len in H3. cbn in H3. inversion H3; subst. exists p1, p2, b. split; reflexivity.
  - intros (p1 & p2 & a & -> & ->). rewrite !app_length. cbn [length]. repeat split; try lia.
    replace (length p1 + 1 - 1)%nat with (length p1 + 0)%nat by lia.
    replace (length p2 + 1 - 1)%nat with (length p2 + 0)%nat by lia.
    rewrite !nth_error_app_len. reflexivity.
Qed.

Lemma validateDotProductDims_spec' d1 d2 : validateDotProductDims d1 d2 = true <-> dotPre' d1 d2.
Proof.
  unfold validateDotProductDims, dotPre'. split.
  - destruct (rev d1) as [|a r1] eqn:E1; [discriminate|].
    destruct (rev d2) as [|b r2] eqn:E2; [discriminate|].
    intros H. apply Z.eqb_eq in H. subst b. exists (rev r1), (rev r2), a.
    split; apply rev_cons_inv; assumption.
  - intros (p1 & p2 & a & -> & ->). rewrite !rev_app_distr. cbn. apply Z.eqb_refl.
Qed.

Theorem validateDotProductDims_spec d1 d2 : validateDotProductDims d1 d2 = true <-> dotPre d1 d2.
Proof. rewrite dotPre_iff. apply validateDotProductDims_spec'. Qed.

Lemma snoc2_cases {X} (l : list X) : (2 <= length l)%nat -> exists p a b, l = p ++ [a; b].
Proof.
  intros H. destruct (snoc_cases l) as [->|(q & b & ->)]; [cbn in H; lia|].
  rewrite app_length in H. cbn [length] in H.
  destruct (snoc_cases q) as [->|(p & a & ->)]; [cbn in H; lia|].
  exists p, a, b. rewrite <- app_assoc. reflexivity.
Qed.

Lemma matMulPre_iff d1 d2 : matMulPre d1 d2 <-> matMulPre' d1 d2.
Proof.
  unfold matMulPre, matMulPre'. split.
  - intros (H1 & H2 & H3).
    destruct (snoc2_cases d1 H1) as (p1 & m & k & ->).
    destruct (snoc2_cases d2 H2) as (p2 & k' & n & ->).
    rewrite !app_length in H3. cbn [length] in H3.
    replace (length p1 + 2 - 1)%nat with (length p1 + 1)%nat in H3 by lia.
    replace (length p2 + 2 - 2)%nat with (length p2 + 0)%nat in H3 by lia.
    rewrite !nth_error_app_len in H3. cbn in H3. inversion H3; subst.
    exists p1, m, k', p2, n. split; reflexivity.
  - intros (p1 & m & k & p2 & n & -> & ->). rewrite !app_length. cbn [length]. repeat split; try lia.
    replace (length p1 + 2 - 1)%nat with (length p1 + 1)%nat by lia.
    replace (length p2 + 2 - 2)%nat with (length p2 + 0)%nat by lia.
    rewrite !nth_error_app_len. reflexivity.
Qed.

Lemma validateMatMulDims_spec' d1 d2 : validateMatMulDims d1 d2 = true <-> matMulPre' d1 d2.
Proof.
  unfold validateMatMulDims, matMulPre'. split.
  - destruct (rev d1) as [|a [|m r1]] eqn:E1; try discriminate.
    destruct (rev d2) as [|n [|b r2]] eqn:E2; try discriminate.
    intros H. apply Z.eqb_eq in H. subst b.
    exists (rev r1), m, a, (rev r2), n.
    apply rev_cons_inv in E1. apply rev_cons_inv in E2. cbn [rev] in E1, E2.
    rewrite <- app_assoc in E1, E2. split; assumption.
  - intros (p1 & m & k & p2 & n & -> & ->). rewrite !rev_app_distr. cbn. apply Z.eqb_refl.
Qed.

Theorem validateMatMulDims_spec d1 d2 : validateMatMulDims d1 d2 = true <-> matMulPre d1 d2.
Proof. rewrite matMulPre_iff. apply validateMatMulDims_spec'. Qed.

Example validateSame_acc : validateBinaryFuncDimsMatch [2; 3] [2; 3] = true. Proof. reflexivity. Qed.
Example validateSame_rej : validateBinaryFuncDimsMatch [2; 3] [2; 4] = false. Proof. reflexivity. Qed.
Example validateSame_rej_len : validateBinaryFuncDimsMatch [2; 3] [2] = false. Proof. reflexivity. Qed.
Example validateDot_acc : validateDotProductDims [5; 3] [3] = true. Proof. reflexivity. Qed.
Example validateDot_rej : validateDotProductDims [5; 3] [5] = false. Proof. reflexivity. Qed.
Example validateDot_rej_scalar : validateDotProductDims [] [3] = false. Proof. reflexivity. Qed.
Example validateMatMul_acc : validateMatMulDims [7; 2; 3] [3; 4] = true. Proof. reflexivity. Qed.
Example validateMatMul_rej : validateMatMulDims [2; 3] [4; 3] = false. Proof. reflexivity. Qed.
Example validateMatMul_rej_rank : validateMatMulDims [3] [3; 4] = false. Proof. reflexivity. Qed.

(* ====================================================================== *)
(* 7. reducers / shape modifiers                                           *)
(* ====================================================================== *)

Theorem validateReducedDimAgainstDims_spec dim dims :
  validateReducedDimAgainstDims dim dims = true <-> axisPre dim dims.
Proof. unfold validateReducedDimAgainstDims, axisPre, zlen. lia. Qed.

Theorem validateFlattenDim_spec dim dims : validateFlattenDim dim dims = true <-> axisPre dim dims.
Proof. unfold validateFlattenDim, axisPre, zlen. lia. Qed.

Theorem validateUnSqueezeDim_spec dim dims : validateUnSqueezeDim dim dims = true <-> unSqueezePre dim dims.
Proof. unfold validateUnSqueezeDim, unSqueezePre, zlen. lia. Qed.

Theorem validateSqueezeDim_spec dim dims : validateSqueezeDim dim dims = true <-> squeezePre dim dims.
Proof.
  unfold validateSqueezeDim, squeezePre, zlen.
  destruct (nth_error dims (Z.to_nat dim)) as [d|].
  - split.
    + intros H. split; [lia|f_equal; lia].
    + intros [H1 H2]. inversion H2; subst. lia.
  - split; [intros H; lia|intros [_ H]; discriminate].
Qed.

Theorem validateTransposeDims_spec dims : validateTransposeDims dims = true <-> transposePre dims.
Proof. unfold validateTransposeDims, transposePre. apply Nat.leb_le. Qed.

Lemma fold_left_mul l : forall a, fold_left Z.mul l a = a * fold_right Z.mul 1 l.
Proof.
  induction l as [|x l IH]; intros a; cbn [fold_left fold_right]; [lia|].
  rewrite IH. apply eq_sym, Z.mul_assoc.
Qed.

Lemma dimsToNumElems_numElems l : dimsToNumElems l = numElems l.
Proof. unfold dimsToNumElems, numElems. rewrite fold_left_mul. lia. Qed.

Theorem validateReshape_spec src dst : validateReshape src dst = true <-> reshapePre src dst.
Proof. unfold validateReshape, reshapePre. rewrite !dimsToNumElems_numElems. apply Z.eqb_eq. Qed.

Definition bcastDimb (s d : Z) : bool := (s =? d) || (s =? 1).
Lemma bcastDimb_spec s d : bcastDimb s d = true <-> bcastDimPre s d.
Proof. unfold bcastDimb, bcastDimPre. lia. Qed.

Lemma bcastOkRev_prefixb : forall rs rd, bcastOkRev rs rd = prefixb bcastDimb rs rd.
Proof.
  induction rs as [|s r IH]; intros [|d ds]; cbn [bcastOkRev prefixb]; try reflexivity.
  rewrite IH. reflexivity.
Qed.

Lemma broadcastPre_iff src dst : broadcastPre src dst <-> broadcastPre' src dst.
Proof.
  unfold broadcastPre, broadcastPre'. rewrite firstn_rev, Forall2_rev_iff. tauto.
Qed.

Theorem validateBroadcast_spec' src dst : validateBroadcast src dst = true <-> broadcastPre' src dst.
Proof.
  unfold validateBroadcast, broadcastPre'.
  rewrite andb_true_iff, Nat.leb_le, bcastOkRev_prefixb, (prefixb_spec _ _ bcastDimb_spec), !rev_length. tauto.
Qed.

Theorem validateBroadcast_spec src dst : validateBroadcast src dst = true <-> broadcastPre src dst.
Proof. rewrite broadcastPre_iff. apply validateBroadcast_spec'. Qed.

Example validateReduced_acc : validateReducedDimAgainstDims 1 [2; 3] = true. Proof. reflexivity. Qed.
Example validateReduced_rej : validateReducedDimAgainstDims 2 [2; 3] = false. Proof. reflexivity. Qed.
Example validateReduced_rej_neg : validateReducedDimAgainstDims (-1) [2; 3] = false. Proof. reflexivity. Qed.
Example validateFlatten_acc : validateFlattenDim 0 [2; 3] = true. Proof. reflexivity. Qed.
Example validateFlatten_rej : validateFlattenDim 0 [] = false. Proof. reflexivity. Qed.
Example validateUnSqueeze_acc : validateUnSqueezeDim 2 [2; 3] = true. Proof. reflexivity. Qed.
Example validateUnSqueeze_rej : validateUnSqueezeDim 3 [2; 3] = false. Proof. reflexivity. Qed.
Example validateSqueeze_acc : validateSqueezeDim 1 [2; 1; 3] = true. Proof. reflexivity. Qed.
Example validateSqueeze_rej : validateSqueezeDim 0 [2; 1; 3] = false. Proof. reflexivity. Qed.
Example validateSqueeze_rej_hi : validateSqueezeDim 3 [2; 1; 3] = false. Proof. reflexivity. Qed.
Example validateTranspose_acc : validateTransposeDims [2; 3] = true. Proof. reflexivity. Qed.
Example validateTranspose_rej : validateTransposeDims [2] = false. Proof. reflexivity. Qed.
Example validateReshape_acc : validateReshape [2; 6] [3; 4] = true. Proof. reflexivity. Qed.
Example validateReshape_rej : validateReshape [2; 6] [3; 5] = false. Proof. reflexivity. Qed.
Example validateBroadcast_acc : validateBroadcast [3; 1] [2; 3; 4] = true. Proof. reflexivity. Qed.
Example validateBroadcast_rej : validateBroadcast [3; 2] [2; 3; 4] = false. Proof. reflexivity. Qed.
Example validateBroadcast_rej_len : validateBroadcast [1; 1; 1] [1; 1] = false. Proof. reflexivity. Qed.

(* ====================================================================== *)
(* 9. Full / Eye are total                                                 *)
(* ====================================================================== *)

Lemma natsOf_pos ds : Forall (fun d => 0 < d) ds -> Forall (fun d => (0 < d)%nat) (natsOf ds).
Proof.
  intros H. induction H as [|d r Hd Hr IH]; cbn [natsOf map]; constructor; [lia|exact IH].
Qed.

Lemma not_Exists_nonpos ds : ~ Exists (fun d => d <= 0) ds -> Forall (fun d => 0 < d) ds.
Proof.
  intros H. apply validateInputDims_spec. destruct (validateInputDims ds) eqn:E; [reflexivity|].
  exfalso. apply H, validateInputDims_false, E.
Qed.

Lemma iter_S k : forall s, iter nat S k s = (k + s)%nat.
Proof. induction k as [|k IH]; intros s; cbn [iter]; [reflexivity|]. rewrite IH. lia. Qed.

(* position of (i,j) in an n x n matrix is on the diagonal pattern iff i = j *)
Lemma eye_arith (n i j : nat) : (i < n)%nat -> (j < n)%nat ->
  ((i * n + j) mod (n + 1) = 0 <-> i = j)%nat.
Proof.
  intros Hi Hj. destruct (le_lt_dec i j) as [Hle|Hlt].
  - replace (i * n + j)%nat with ((j - i) + i * (n + 1))%nat by nia.
    rewrite Nat.mod_add by lia. rewrite Nat.mod_small by lia. lia.
  - replace (i * n + j)%nat with ((n + 1 - (i - j)) + (i - 1) * (n + 1))%nat by nia.
    rewrite Nat.mod_add by lia. rewrite Nat.mod_small by lia. lia.
Qed.

Section Total.
Context {A : Type} {SA : Scalar A}.

Lemma constTensor_spec (v : A) ds : constTensor v ds = Some (mkT ds (tab ds (fun _ => v))).
Proof.
  unfold constTensor.
  rewrite (initWith_spec A unit (constGen v) (fun _ => Sc v) (fun s => s) (fun _ => True)
             (fun s _ => eq_refl) (fun s _ => I) ds tt I).
  cbn [obind]. rewrite (tabS_tab A unit (fun _ => Sc v) (fun s => s) (fun _ => v) (fun _ => eq_refl)).
  reflexivity.
Qed.

Definition eyeElem (i j : nat) : A := if (i =? j)%nat then s1 else s0.

Lemma eyeMatrix_spec (n : nat) :
  eyeMatrix n = Some (mkT [n; n] (tab [n; n]
     (fun idx => if (flatIdx [n; n] idx mod (n + 1) =? 0)%nat then s1 else s0))).
Proof.
  unfold eyeMatrix.
  rewrite (initWith_spec A nat (eyeGen n) (fun s => Sc (if (s mod (n + 1) =? 0)%nat then s1 else s0)) S
             (fun _ => True) (fun s _ => eq_refl) (fun s _ => I) [n; n] 0%nat I).
  cbn [obind].
  rewrite (tabS_tab A nat _ S (fun s => if (s mod (n + 1) =? 0)%nat then s1 else s0) (fun _ => eq_refl)).
  do 2 f_equal. apply (tab_ext A). intros idx _. rewrite iter_S, Nat.add_0_r. reflexivity.
Qed.

(* Full: an error exactly when some extent is <= 0; otherwise a well-formed tensor of the requested
   shape holding v everywhere.  Never a panic. *)
Theorem v_full_total (ds : list Z) (v : A) :
  (v_full ds v = Err <-> Exists (fun d => d <= 0) ds) /\
  (~ Exists (fun d => d <= 0) ds ->
     exists t, v_full ds v = Ok t /\ wf t /\ dims t = natsOf ds /\
               forall idx, validIdx (dims t) idx -> get (data t) idx = Some v) /\
  v_full ds v <> Panic.
Proof.
  unfold v_full, guard. rewrite constTensor_spec. cbn [of_opt].
  destruct (validateInputDims ds) eqn:E.
  - split; [|split].
    + split; [discriminate|]. intros H. apply validateInputDims_false in H. congruence.
    + intros _. eexists; split; [reflexivity|]. cbn [dims data]. split; [split|split].
      * cbn [dims data]. apply wfnd_tab.
      * cbn [dims]. apply natsOf_pos, validateInputDims_spec, E.
      * reflexivity.
      * intros idx Hv. apply (get_tab A _ (fun _ => v)), Hv.
    + discriminate.
  - split; [|split].
    + split; [intros _; apply validateInputDims_false, E|reflexivity].
    + intros H. exfalso. apply H, validateInputDims_false, E.
    + discriminate.
Qed.

Corollary v_full_ok_iff (ds : list Z) (v : A) :
  (exists t, v_full ds v = Ok t) <-> inputDimsPre ds.
Proof.
  unfold v_full, guard. rewrite constTensor_spec, <- validateInputDims_spec. cbn [of_opt].
  destruct (validateInputDims ds); split.
  - reflexivity.
  - intros _. eexists; reflexivity.
  - intros (t & H); discriminate.
  - discriminate.
Qed.

(* Eye: an error exactly when n <= 0; otherwise the n x n identity. *)
Theorem v_eye_total (n : Z) :
  (v_eye n = Err <-> n <= 0) /\
  (0 < n ->
     exists t, v_eye n = Ok t /\ wf t /\ dims t = [Z.to_nat n; Z.to_nat n] /\
               forall i j, (i < Z.to_nat n)%nat -> (j < Z.to_nat n)%nat ->
                           get (data t) [i; j] = Some (eyeElem i j)) /\
  v_eye n <> Panic.
Proof.
  unfold v_eye, guard. rewrite eyeMatrix_spec. cbn [of_opt validateInputDims forallb].
  destruct (Z.leb_spec n 0) as [Hn|Hn]; cbn [negb andb].
  - split; [|split]; [split; [intros _; exact Hn|reflexivity]|lia|discriminate].
  - split; [|split]; [split; [discriminate|lia]| |discriminate].
    intros _. eexists; split; [reflexivity|]. cbn [dims data]. split; [split|split].
    + cbn [dims data]. apply wfnd_tab.
    + cbn [dims]. repeat constructor; lia.
    + reflexivity.
    + intros i j Hi Hj. rewrite (get_tab A) by (repeat constructor; assumption).
      f_equal. unfold eyeElem. cbn [flatIdx prodn fold_right].
      replace (i * (Z.to_nat n * 1) + (j * 1 + 0))%nat with (i * Z.to_nat n + j)%nat by lia.
      pose proof (eye_arith (Z.to_nat n) i j Hi Hj) as Ha.
      destruct (Nat.eqb_spec ((i * Z.to_nat n + j) mod (Z.to_nat n + 1)) 0) as [E1|E1];
        destruct (Nat.eqb_spec i j) as [E2|E2]; try reflexivity; exfalso; tauto.
Qed.

End Total.

Example v_full_acc : exists t, @v_full Z [2; 3] 7 = Ok t /\ get (data t) [1%nat; 2%nat] = Some 7.
Proof. eexists; split; reflexivity. Qed.
Example v_full_rej : @v_full Z [2; 0] 7 = Err. Proof. reflexivity. Qed.
Example v_full_rej_neg : @v_full Z [-2] 7 = Err. Proof. reflexivity. Qed.
Example v_eye_acc :
  exists t, @v_eye term _ 3 = Ok t /\ get (data t) [1%nat; 1%nat] = Some s1 /\ get (data t) [1%nat; 2%nat] = Some s0.
Proof. eexists; repeat split; reflexivity. Qed.
Example v_eye_rej : @v_eye term _ 0 = Err. Proof. reflexivity. Qed.
Example v_eye_rej_neg : @v_eye term _ (-4) = Err. Proof. reflexivity. Qed.

(* ====================================================================== *)
(* 8. nested data: dataUnity / TensorOf                                    *)
(* ====================================================================== *)

Section DataUnityP.
Variable A : Type.
Implicit Types (x y : nd A) (l : list (nd A)).

Lemma firstLens_shapeOf : forall x, firstLens x = shapeOf x.
Proof.
  apply nd_ind'.
  - intros a. reflexivity.
  - intros l Hl. destruct l as [|y r]; [reflexivity|]. cbn [firstLens shapeOf].
    inversion Hl as [|? ? Hy Hr]; subst. rewrite Hy. reflexivity.
Qed.

Lemma list_eqb_spec : forall a b : list nat, list_eqb a b = true <-> a = b.
Proof.
  unfold list_eqb. induction a as [|n a IH]; intros [|m b]; cbn [length combine forallb fst snd].
  - split; reflexivity.
  - split; discriminate.
  - split; discriminate.
  - specialize (IH b). rewrite andb_true_iff in IH. rewrite !andb_true_iff.
    change (S (length a) =? S (length b))%nat with (length a =? length b)%nat. split.
    + intros [H1 [H2 H3]]. apply Nat.eqb_eq in H2. subst m. f_equal. apply IH. split; assumption.
    + intros H; inversion H; subst. destruct IH as [_ IH]. destruct (IH eq_refl) as [H1 H2].
      repeat split; [exact H1|apply Nat.eqb_refl|exact H2].
Qed.

(* the shape every row is compared with *)
Definition headShape l : list nat := match l with [] => [] | y :: _ => firstLens y end.

Lemma dataUnity_Vec l :
  dataUnity (Vec l) =
  negb (length l =? 0)%nat && forallb (fun sub => dataUnity sub && list_eqb (firstLens sub) (headShape l)) l.
Proof.
  (* the inner loop of dataUnity is forallb, up to conversion *)
  reflexivity.
Qed.

Lemma shapeOf_wf : forall ds x, wfnd ds x -> Forall (fun d => (0 < d)%nat) ds -> shapeOf x = ds.
Proof.
  induction ds as [|d ds IH]; intros x Hw Hp.
  - apply (wfnd_nil A) in Hw as (a & ->). reflexivity.
  - apply (wfnd_cons A) in Hw as (l & -> & Hl & Hf). inversion Hp as [|? ? Hd Hps]; subst.
    destruct l as [|y r]; [cbn in Hd; lia|]. cbn [shapeOf]. f_equal.
    inversion Hf as [|? ? Hy Hr]; subst. apply IH; assumption.
Qed.

(* accepted data is rectangular with the shape read off the first elements, and has no empty level.
   No assumption on the nesting depth is needed: the validator itself enforces it. *)
Lemma dataUnity_sound : forall x, dataUnity x = true -> dataPre x.
Proof.
  unfold dataPre.
  apply (nd_ind' A (fun x => dataUnity x = true ->
                             wfnd (shapeOf x) x /\ Forall (fun d => (0 < d)%nat) (shapeOf x))).
  - intros a _. split; [exact I|constructor].
  - intros l IH. rewrite dataUnity_Vec, andb_true_iff, forallb_forall. intros [Hne Hall].
    destruct l as [|y r]; [cbn in Hne; discriminate|].
    rewrite Forall_forall in IH. cbn [shapeOf]. split.
    + cbn [wfnd]. split; [reflexivity|]. apply Forall_forall. intros sub Hsub.
      specialize (Hall sub Hsub). apply andb_true_iff in Hall as [Hd He].
      apply list_eqb_spec in He. cbn [headShape] in He. rewrite (firstLens_shapeOf sub), (firstLens_shapeOf y) in He.
      destruct (IH sub Hsub Hd) as [Hw _]. rewrite He in Hw. exact Hw.
    + constructor; [cbn [length]; lia|].
      specialize (Hall y (or_introl eq_refl)). apply andb_true_iff in Hall as [Hd _].
      apply (IH y (or_introl eq_refl) Hd).
Qed.

Lemma dataUnity_complete_gen : forall ds x,
  wfnd ds x -> Forall (fun d => (0 < d)%nat) ds -> dataUnity x = true.
Proof.
  induction ds as [|d ds IH]; intros x Hw Hp.
  - apply (wfnd_nil A) in Hw as (a & ->). reflexivity.
  - apply (wfnd_cons A) in Hw as (l & -> & Hl & Hf). inversion Hp as [|? ? Hd Hps]; subst.
    rewrite Forall_forall in Hf.
    rewrite dataUnity_Vec, andb_true_iff, forallb_forall. split.
    + apply negb_true_iff, Nat.eqb_neq. lia.
    + intros sub Hsub. apply andb_true_iff. split; [apply IH; [apply Hf, Hsub|exact Hps]|].
      apply list_eqb_spec. destruct l as [|y r]; [destruct Hsub|]. cbn [headShape].
      rewrite (firstLens_shapeOf sub), (firstLens_shapeOf y).
      rewrite (shapeOf_wf ds sub (Hf sub Hsub) Hps), (shapeOf_wf ds y (Hf y (or_introl eq_refl)) Hps).
      reflexivity.
Qed.

(* TensorOf's validator accepts exactly the rectangular data without an empty level *)
Theorem dataUnity_spec x : dataUnity x = true <-> dataPre x.
Proof.
  split; [apply dataUnity_sound|]. intros [Hw Hp]. exact (dataUnity_complete_gen _ x Hw Hp).
Qed.

(* uniform depth (what Go's static slice types guarantee) is implied by well-formedness, hence by
   acceptance; the statement restricted to uniform-depth data is a special case *)
Lemma wfnd_uniformDepth : forall ds x, wfnd ds x -> uniformDepth (length ds) x.
Proof.
  induction ds as [|d ds IH]; intros x Hw.
  - apply (wfnd_nil A) in Hw as (a & ->). exact I.
  - apply (wfnd_cons A) in Hw as (l & -> & _ & Hf). cbn [length uniformDepth].
    rewrite Forall_forall in *. intros y Hy. apply IH, Hf, Hy.
Qed.

Corollary dataUnity_uniformDepth x : dataUnity x = true -> uniformDepth (length (shapeOf x)) x.
Proof. intros H. apply wfnd_uniformDepth, (dataUnity_sound x H). Qed.

Corollary dataUnity_spec_uniform n x : uniformDepth n x -> (dataUnity x = true <-> dataPre x).
Proof. intros _. apply dataUnity_spec. Qed.

(* copying well-formed data along its own shape is the identity (and never panics) *)
Lemma copyData_wf : forall ds x, wfnd ds x -> copyData ds x = Some x.
Proof.
  induction ds as [|d ds IH]; intros x Hw.
  - apply (wfnd_nil A) in Hw as (a & ->). reflexivity.
  - apply (wfnd_cons A) in Hw as (l & -> & Hl & Hf). cbn [copyData asV obind].
    subst d. rewrite Nat.eqb_refl. rewrite Forall_forall in Hf.
    rewrite (mapM_all_some (copyData ds) (fun y => y) l) by (intros y Hy; apply IH, Hf, Hy).
    cbn [obind]. rewrite map_id. reflexivity.
Qed.

Theorem tensorOf_total x : dataUnity x = true ->
  exists t, initTensorFromData x = Some t /\ wf t /\ dims t = shapeOf x /\ data t = x /\
            flat (data t) = flat x.
Proof.
  intros H. apply dataUnity_sound in H as [Hw Hp]. exists (mkT (shapeOf x) x).
  unfold initTensorFromData. cbv zeta. rewrite (copyData_wf _ x Hw). cbn [obind].
  split; [reflexivity|]. split; [split; assumption|]. repeat split; reflexivity.
Qed.

Corollary tensorOf_total_uniform n x : dataUnity x = true -> uniformDepth n x ->
  exists t, initTensorFromData x = Some t /\ wf t /\ dims t = shapeOf x /\ flat (data t) = flat x.
Proof.
  intros H _. destruct (tensorOf_total x H) as (t & H1 & H2 & H3 & _ & H5). exists t. tauto.
Qed.

(* the public call: an error exactly when the precondition fails, never a panic *)
Theorem v_tensorOf_total x :
  (v_tensorOf x = Err <-> ~ dataPre x) /\
  (dataPre x -> exists t, v_tensorOf x = Ok t /\ wf t /\ dims t = shapeOf x /\ data t = x) /\
  v_tensorOf x <> Panic.
Proof.
  unfold v_tensorOf, guard. rewrite <- dataUnity_spec. destruct (dataUnity x) eqn:E.
  - destruct (tensorOf_total x E) as (t & -> & Hwf & Hd & Hx & _). cbn [of_opt].
    split; [|split].
    + split; [discriminate|intros H; exfalso; apply H; reflexivity].
    + intros _. exists t. tauto.
    + discriminate.
  - split; [|split].
    + split; [intros _; discriminate|reflexivity].
    + discriminate.
    + discriminate.
Qed.

End DataUnityP.

Example dataUnity_acc : dataUnity (Vec [Vec [Sc 1; Sc 2; Sc 3]; Vec [Sc 4; Sc 5; Sc 6]]) = true. Proof. reflexivity. Qed.
Example dataUnity_rej_ragged : dataUnity (Vec [Vec [Sc 1; Sc 2]; Vec [Sc 4]]) = false. Proof. reflexivity. Qed.
Example dataUnity_rej_empty : dataUnity (Vec [Vec ([] : list (nd Z)); Vec []]) = false. Proof. reflexivity. Qed.
(* the case fix F6 is about: equal lengths at level 2, different lengths at level 3 *)
Example dataUnity_rej_inner :
  dataUnity (Vec [Vec [Vec [Sc 1; Sc 2]]; Vec [Vec [Sc 3]]]) = false. Proof. reflexivity. Qed.
(* mixed depth is rejected as well *)
Example dataUnity_rej_depth : dataUnity (Vec [Sc 1; Vec [Sc 2]]) = false. Proof. reflexivity. Qed.
Example v_tensorOf_acc :
  v_tensorOf (Vec [Vec [Sc 1; Sc 2]; Vec [Sc 3; Sc 4]])
  = Ok (mkT [2; 2]%nat (Vec [Vec [Sc 1; Sc 2]; Vec [Sc 3; Sc 4]])). Proof. reflexivity. Qed.
Example v_tensorOf_rej : v_tensorOf (Vec [Vec [Sc 1; Sc 2]; Vec [Sc 3]]) = Err. Proof. reflexivity. Qed.

(* ====================================================================== *)
(* 10. argument checks of the components                                   *)
(* ====================================================================== *)

Theorem oneInput_spec xs x : oneInput xs = Some x <-> oneInputPre xs x.
Proof.
  unfold oneInput, oneInputPre.
  destruct xs as [|[y|] [|z r]]; split; intros H; try discriminate; inversion H; reflexivity.
Qed.

Example oneInput_acc : oneInput [Some 3%nat] = Some 3%nat. Proof. reflexivity. Qed.
Example oneInput_rej_nil : oneInput [None] = None. Proof. reflexivity. Qed.
Example oneInput_rej_none : oneInput [] = None. Proof. reflexivity. Qed.
Example oneInput_rej_two : oneInput [Some 3%nat; Some 4%nat] = None. Proof. reflexivity. Qed.

Section LossArgs.
Context {A : Type}.

Lemma rank1_inv (h : @heap A) (p : nat) : rankOf h p = 1%nat ->
  exists v a, valOf h p = Some v /\ dims v = [a] /\ dim0Of h p = a.
Proof.
  unfold rankOf, dim0Of. destruct (valOf h p) as [v|]; [|discriminate].
  destruct (dims v) as [|a [|b r]] eqn:Ed; cbn [length]; intros H; try discriminate.
  exists v, a. repeat split. exact Ed.
Qed.

Theorem lossArgs1_spec (h : @heap A) (yp yt : targ) (p t : nat) :
  lossArgs1 h yp yt = Some (p, t) <-> lossArgs1Pre h yp yt p t.
Proof.
  unfold lossArgs1, lossArgs1Pre. split.
  - destruct yp as [p'|]; [|discriminate]. destruct yt as [t'|]; [|discriminate].
    destruct ((rankOf h p' =? 1)%nat && (rankOf h t' =? 1)%nat && (dim0Of h p' =? dim0Of h t')%nat) eqn:E;
      [|discriminate].
    intros H; inversion H; subst p' t'.
    apply andb_true_iff in E as [E E3]. apply andb_true_iff in E as [E1 E2].
    apply Nat.eqb_eq in E1, E2, E3.
    destruct (rank1_inv h p E1) as (vp & a & Hvp & Hdp & Hap).
    destruct (rank1_inv h t E2) as (vt & b & Hvt & Hdt & Hbt).
    repeat split. exists vp, vt, a. repeat split; try assumption. congruence.
  - intros (-> & -> & vp & vt & n & Hvp & Hvt & Hdp & Hdt).
    unfold rankOf, dim0Of. rewrite Hvp, Hvt, Hdp, Hdt. cbn [length nth].
    rewrite !Nat.eqb_refl. reflexivity.
Qed.

End LossArgs.

(* dec_lt compares  m1 * 10^e1  with  m2 * 10^e2 *)
Theorem dec_lt_spec (a b : dec) : dec_lt a b = true <-> decLt a b.
Proof.
  unfold dec_lt, dec_cmp, decLt. cbv zeta.
  set (X := fst a * 10 ^ (snd a - Z.min (snd a) (snd b))).
  set (Y := fst b * 10 ^ (snd b - Z.min (snd a) (snd b))).
  destruct (X ?= Y) eqn:E; split; intros H; try discriminate; try reflexivity.
  - apply Z.compare_lt_iff in H. congruence.
  - apply Z.compare_lt_iff. exact E.
  - apply Z.compare_lt_iff in H. congruence.
Qed.

(* ... and the choice of the common scale does not matter: any exponent below both will do *)
Theorem dec_lt_scale (a b : dec) (e : Z) : e <= snd a -> e <= snd b ->
  (dec_lt a b = true <-> fst a * 10 ^ (snd a - e) < fst b * 10 ^ (snd b - e)).
Proof.
  intros Ha Hb. rewrite dec_lt_spec. unfold decLt. cbv zeta.
  set (m := Z.min (snd a) (snd b)).
  assert (Hm : e <= m) by (unfold m; lia).
  assert (Hma : m <= snd a) by (unfold m; lia).
  assert (Hmb : m <= snd b) by (unfold m; lia).
  replace (snd a - e) with ((snd a - m) + (m - e)) by lia.
  replace (snd b - e) with ((snd b - m) + (m - e)) by lia.
  rewrite !Z.pow_add_r by lia. rewrite !Z.mul_assoc.
  assert (Hp : 0 < 10 ^ (m - e)) by (apply Z.pow_pos_nonneg; lia).
  apply Z.mul_lt_mono_pos_r. exact Hp.
Qed.

Theorem dec_pos_spec (a : dec) : dec_pos a = true <-> 0 < fst a.
Proof. unfold dec_pos. lia. Qed.

Theorem init_valid_spec (dUniL dUniU dNorS : dec) (s : initSpec) :
  init_valid dUniL dUniU dNorS s = true <-> initPre dUniL dUniU dNorS s.
Proof.
  destruct s as [v | [[l u]|] | [[m sd]|] | [f|] | [f|] | [[fi fo]|] | [[fi fo]|]];
    cbn [init_valid initPre];
    try apply dec_lt_spec; try apply dec_pos_spec; try lia;
    try (split; [discriminate|intros []]).
Qed.

Example dec_lt_acc : dec_lt (-5, -2) (5, -2) = true. Proof. reflexivity. Qed.       (* -0.05 < 0.05 *)
Example dec_lt_acc_scale : dec_lt (15, -1) (2, 0) = true. Proof. reflexivity. Qed.   (* 1.5 < 2 *)
Example dec_lt_rej_eq : dec_lt (10, -1) (1, 0) = false. Proof. reflexivity. Qed.     (* 1.0 < 1 fails *)
Example dec_lt_rej : dec_lt (3, 1) (299, -1) = false. Proof. reflexivity. Qed.       (* 30 < 29.9 fails *)
Example init_valid_acc : init_valid (-5, -2) (5, -2) (5, -2) (IUniform (Some ((0, 0), (1, 0)))) = true.
Proof. reflexivity. Qed.
Example init_valid_rej : init_valid (-5, -2) (5, -2) (5, -2) (IUniform (Some ((1, 0), (1, 0)))) = false.
Proof. reflexivity. Qed.
Example init_valid_rej_nil : init_valid (-5, -2) (5, -2) (5, -2) (IHeUniform None) = false.
Proof. reflexivity. Qed.
Example init_valid_rej_fan : init_valid (-5, -2) (5, -2) (5, -2) (IXavierNormal (Some (3, 0))) = false.
Proof. reflexivity. Qed.
Example init_valid_acc_fan : init_valid (-5, -2) (5, -2) (5, -2) (IXavierNormal (Some (3, 2))) = true.
Proof. reflexivity. Qed.
Example init_valid_rej_sd : init_valid (-5, -2) (5, -2) (5, -2) (INormal (Some ((0, 0), (0, 0)))) = false.
Proof. reflexivity. Qed.

(* ====================================================================== *)
Print Assumptions validateInputDims_spec.
Print Assumptions validateAtIndexAgainstDims_spec.
Print Assumptions validateSliceIndexAgainstDims_spec.
Print Assumptions validatePatchIndexAgainstDims_spec.
Print Assumptions validateConcat_spec.
Print Assumptions validateConcat_none.
Print Assumptions validateBinaryFuncDimsMatch_spec.
Print Assumptions validateDotProductDims_spec.
Print Assumptions validateDotProductDims_spec'.
Print Assumptions validateMatMulDims_spec.
Print Assumptions validateMatMulDims_spec'.
Print Assumptions validateReducedDimAgainstDims_spec.
Print Assumptions validateFlattenDim_spec.
Print Assumptions validateUnSqueezeDim_spec.
Print Assumptions validateSqueezeDim_spec.
Print Assumptions validateTransposeDims_spec.
Print Assumptions validateReshape_spec.
Print Assumptions validateBroadcast_spec.
Print Assumptions validateBroadcast_spec'.
Print Assumptions firstLens_shapeOf.
Print Assumptions dataUnity_spec.
Print Assumptions tensorOf_total.
Print Assumptions v_tensorOf_total.
Print Assumptions eye_arith.
Print Assumptions v_full_total.
Print Assumptions v_eye_total.
Print Assumptions oneInput_spec.
Print Assumptions lossArgs1_spec.
Print Assumptions dec_lt_spec.
Print Assumptions dec_lt_scale.
Print Assumptions init_valid_spec.
