(* OdometerP.v — the mixed-radix odometer [incr] of Model/Fill.v.
   States are least-significant digit first.  [oval ds st] is the number denoted by the
   digits [st] in radices [ds]; one [incr] is +1 modulo [prodn ds]; the k-th state reached
   from all zeros is the digit expansion [unflat ds k]; and for a row-major multi-index
   [idx] of shape [ds] (most significant first, as in NdP), the state reached after
   [flatIdx ds idx] steps of the odometer over [rev ds] is [rev idx]. *)
From Coq Require Import List Arith ZArith Bool Lia.
From Qeep Require Import Model.Scalar Model.Nd Model.Fill Proofs.NdP Proofs.FillP.
Import ListNotations.

(* ---------- small list facts ---------- *)

Lemma prodn_cons d ds : prodn (d :: ds) = d * prodn ds.
Proof. reflexivity. Qed.

Lemma prodn_app ds1 ds2 : prodn (ds1 ++ ds2) = prodn ds1 * prodn ds2.
Proof.
  induction ds1 as [|d ds1 IH]; cbn [app]; [cbn; lia|].
  rewrite !prodn_cons, IH. lia.
Qed.

Lemma prodn_rev ds : prodn (rev ds) = prodn ds.
Proof.
  induction ds as [|d ds IH]; [reflexivity|].
  cbn [rev]. rewrite prodn_app, IH, !prodn_cons. cbn. lia.
Qed.

Lemma prodn_pos ds : Forall (fun d => 0 < d) ds -> 0 < prodn ds.
Proof.
  induction 1 as [|d ds Hd _ IH]; [cbn; lia|]. rewrite prodn_cons. nia.
Qed.

Lemma Forall2_app_inv_len {T U} (R : T -> U -> Prop) l1 : forall l2 r1 r2,
  length l1 = length r1 -> Forall2 R (l1 ++ l2) (r1 ++ r2) -> Forall2 R l1 r1 /\ Forall2 R l2 r2.
Proof.
  induction l1 as [|a l1 IH]; intros l2 [|b r1] r2 Hl H; cbn in Hl; try discriminate.
  - split; [constructor|exact H].
  - cbn [app] in H. inversion H as [|? ? ? ? Hab Hr]; subst.
    destruct (IH l2 r1 r2 ltac:(lia) Hr) as [H1 H2]. split; [constructor; assumption|exact H2].
Qed.

Lemma Forall2_rev' {T U} (R : T -> U -> Prop) l r : Forall2 R l r -> Forall2 R (rev l) (rev r).
Proof.
  induction 1 as [|a b l r Hab _ IH]; [constructor|].
  cbn [rev]. apply Forall2_app; [exact IH|constructor; [exact Hab|constructor]].
Qed.

Lemma validIdx_rev ds idx : validIdx ds idx <-> validIdx (rev ds) (rev idx).
Proof.
  unfold validIdx. split; [apply Forall2_rev'|].
  intros H. apply Forall2_rev' in H. rewrite !rev_involutive in H. exact H.
Qed.

(* ---------- value and validity of an odometer state ---------- *)

Fixpoint oval (ds st : list nat) : nat :=
  match ds, st with
  | d :: ds', x :: st' => x + d * oval ds' st'
  | _, _ => 0
  end.

Fixpoint ovalid (ds st : list nat) : Prop :=
  match ds, st with
  | d :: ds', x :: st' => x < d /\ ovalid ds' st'
  | [], [] => True
  | _, _ => False
  end.

Lemma ovalid_validIdx ds : forall st, ovalid ds st <-> validIdx ds st.
Proof.
  induction ds as [|d ds IH]; intros [|x st]; cbn [ovalid]; unfold validIdx in *.
  - split; [constructor|exact (fun _ => I)].
  - split; [tauto|intros H; inversion H].
  - split; [tauto|intros H; inversion H].
  - rewrite IH. split.
    + intros [H1 H2]; constructor; assumption.
    + intros H; inversion H; subst; auto.
Qed.

Lemma ovalid_length ds st : ovalid ds st -> length st = length ds.
Proof. intros H. apply ovalid_validIdx in H. apply validIdx_length, H. Qed.

Lemma oval_lt ds : forall st, ovalid ds st -> oval ds st < prodn ds.
Proof.
  induction ds as [|d ds IH]; intros [|x st] H; cbn [ovalid] in H; try contradiction.
  - cbn. lia.
  - destruct H as [Hx Hr]. specialize (IH st Hr). cbn [oval]. rewrite prodn_cons. nia.
Qed.

Lemma ovalid_zeros ds : Forall (fun d => 0 < d) ds -> ovalid ds (repeat 0 (length ds)).
Proof. induction 1 as [|d ds Hd _ IH]; cbn; [exact I|split; assumption]. Qed.

Lemma oval_zeros ds : oval ds (repeat 0 (length ds)) = 0.
Proof. induction ds as [|d ds IH]; cbn; [reflexivity|]. rewrite IH. lia. Qed.

(* a valid state exists only when every radix is positive *)
Lemma ovalid_pos ds : forall st, ovalid ds st -> Forall (fun d => 0 < d) ds.
Proof.
  induction ds as [|d ds IH]; intros [|x st] H; cbn [ovalid] in H; try contradiction.
  - constructor.
  - destruct H as [Hx Hr]. constructor; [lia|eapply IH; eauto].
Qed.

(* the digits are determined by the value *)
Lemma oval_inj ds : forall st1 st2, ovalid ds st1 -> ovalid ds st2 -> oval ds st1 = oval ds st2 -> st1 = st2.
Proof.
  induction ds as [|d ds IH]; intros [|x1 st1] [|x2 st2] H1 H2 E; cbn [ovalid] in H1, H2; try contradiction.
  - reflexivity.
  - destruct H1 as [Hx1 Hr1]. destruct H2 as [Hx2 Hr2]. cbn [oval] in E.
    destruct (Nat.div_mod_unique d (oval ds st1) (oval ds st2) x1 x2 Hx1 Hx2 ltac:(lia)) as [Eq Er].
    subst x2. f_equal. apply IH; assumption.
Qed.

(* ---------- one step ---------- *)

Lemma incr_valid ds : forall st, ovalid ds st -> ovalid ds (incr ds st).
Proof.
  induction ds as [|d ds IH]; intros [|x st] H; cbn [ovalid] in H; try contradiction.
  - exact I.
  - destruct H as [Hx Hr]. cbn [incr]. destruct (S x <? d) eqn:E.
    + apply Nat.ltb_lt in E. cbn [ovalid]. split; assumption.
    + cbn [ovalid]. split; [lia|apply IH, Hr].
Qed.

Lemma incr_val ds : forall st, ovalid ds st ->
  oval ds (incr ds st) = if S (oval ds st) <? prodn ds then S (oval ds st) else 0.
Proof.
  induction ds as [|d ds IH]; intros [|x st] H; cbn [ovalid] in H; try contradiction.
  - reflexivity.
  - destruct H as [Hx Hr]. cbn [incr oval]. rewrite prodn_cons.
    pose proof (oval_lt ds st Hr) as Hlt.
    destruct (S x <? d) eqn:E.
    + apply Nat.ltb_lt in E. cbn [oval].
      destruct (S (x + d * oval ds st) <? d * prodn ds) eqn:E2; [lia|].
      apply Nat.ltb_ge in E2. nia.
    + apply Nat.ltb_ge in E. assert (x = d - 1) by lia. subst x.
      cbn [oval]. rewrite (IH st Hr).
      destruct (S (oval ds st) <? prodn ds) eqn:E3.
      * apply Nat.ltb_lt in E3.
        destruct (S (d - 1 + d * oval ds st) <? d * prodn ds) eqn:E2; [nia|].
        apply Nat.ltb_ge in E2. nia.
      * apply Nat.ltb_ge in E3.
        destruct (S (d - 1 + d * oval ds st) <? d * prodn ds) eqn:E2; [|lia].
        apply Nat.ltb_lt in E2. nia.
Qed.

(* the last state wraps to all zeros *)
Lemma incr_wrap ds st : ovalid ds st -> S (oval ds st) = prodn ds -> incr ds st = repeat 0 (length ds).
Proof.
  intros Hv E. apply (oval_inj ds).
  - apply incr_valid, Hv.
  - apply ovalid_zeros. eapply ovalid_pos; eauto.
  - rewrite incr_val by exact Hv. rewrite oval_zeros.
    destruct (S (oval ds st) <? prodn ds) eqn:E2; [apply Nat.ltb_lt in E2; lia|reflexivity].
Qed.

(* ---------- k steps ---------- *)

Lemma iter_incr_valid ds k : forall st, ovalid ds st -> ovalid ds (iter _ (incr ds) k st).
Proof. induction k as [|k IH]; intros st H; cbn [iter]; [exact H|apply IH, incr_valid, H]. Qed.

Lemma iter_incr_val ds k : forall st, ovalid ds st -> oval ds st + k < prodn ds ->
  oval ds (iter _ (incr ds) k st) = oval ds st + k.
Proof.
  induction k as [|k IH]; intros st Hv Hk; cbn [iter]; [lia|].
  rewrite IH.
  - rewrite incr_val by exact Hv. destruct (S (oval ds st) <? prodn ds) eqn:E; [lia|].
    apply Nat.ltb_ge in E. lia.
  - apply incr_valid, Hv.
  - rewrite incr_val by exact Hv. destruct (S (oval ds st) <? prodn ds) eqn:E; [lia|].
    apply Nat.ltb_ge in E. lia.
Qed.

Corollary iter_incr_zeros_val ds k : Forall (fun d => 0 < d) ds -> k < prodn ds ->
  oval ds (iter _ (incr ds) k (repeat 0 (length ds))) = k.
Proof.
  intros Hp Hk. rewrite iter_incr_val; rewrite ?oval_zeros; [lia|apply ovalid_zeros, Hp|lia].
Qed.

(* after a full period the odometer is back at all zeros *)
Corollary iter_incr_period ds : Forall (fun d => 0 < d) ds ->
  iter _ (incr ds) (prodn ds) (repeat 0 (length ds)) = repeat 0 (length ds).
Proof.
  intros Hp. pose proof (prodn_pos ds Hp) as Hpos.
  replace (prodn ds) with ((prodn ds - 1) + 1) at 1 by lia.
  rewrite iter_add. cbn [iter].
  apply incr_wrap.
  - apply iter_incr_valid, ovalid_zeros, Hp.
  - rewrite iter_incr_zeros_val by (auto; lia). lia.
Qed.

(* ---------- digit expansion ---------- *)

Fixpoint unflat (ds : list nat) (k : nat) : list nat :=
  match ds with
  | [] => []
  | d :: ds' => k mod d :: unflat ds' (k / d)
  end.

Lemma unflat_valid ds : Forall (fun d => 0 < d) ds -> forall k, ovalid ds (unflat ds k).
Proof.
  induction 1 as [|d ds Hd _ IH]; intros k; cbn [unflat ovalid]; [exact I|].
  split; [apply Nat.mod_upper_bound; lia|apply IH].
Qed.

Lemma unflat_val ds : forall k, k < prodn ds -> oval ds (unflat ds k) = k.
Proof.
  induction ds as [|d ds IH]; intros k Hk; cbn [unflat oval].
  - cbn in Hk. lia.
  - rewrite prodn_cons in Hk. assert (Hd : d <> 0) by (intros ->; lia).
    rewrite IH.
    + pose proof (Nat.div_mod k d Hd). lia.
    + apply Nat.div_lt_upper_bound; [exact Hd|exact Hk].
Qed.

Theorem iter_incr_unflat ds k : Forall (fun d => 0 < d) ds -> k < prodn ds ->
  iter _ (incr ds) k (repeat 0 (length ds)) = unflat ds k.
Proof.
  intros Hp Hk. apply (oval_inj ds).
  - apply iter_incr_valid, ovalid_zeros, Hp.
  - apply unflat_valid, Hp.
  - rewrite iter_incr_zeros_val, unflat_val by assumption. reflexivity.
Qed.

(* ---------- bridge to row-major positions ---------- *)

Lemma oval_app ds1 : forall st1 ds2 st2, length st1 = length ds1 ->
  oval (ds1 ++ ds2) (st1 ++ st2) = oval ds1 st1 + prodn ds1 * oval ds2 st2.
Proof.
  induction ds1 as [|d ds1 IH]; intros [|x st1] ds2 st2 Hl; cbn in Hl; try discriminate.
  - cbn [app oval prodn fold_right]. lia.
  - cbn [app oval]. rewrite IH by lia. rewrite prodn_cons. lia.
Qed.

Lemma oval_rev_flatIdx ds : forall idx, validIdx ds idx -> oval (rev ds) (rev idx) = flatIdx ds idx.
Proof.
  induction ds as [|d ds IH]; intros idx Hv.
  - apply validIdx_nil in Hv; subst. reflexivity.
  - apply validIdx_cons in Hv as (i & r & -> & Hi & Hr). cbn [rev flatIdx].
    rewrite oval_app by (rewrite !rev_length; apply validIdx_length, Hr).
    rewrite IH by exact Hr. rewrite prodn_rev. cbn [oval]. lia.
Qed.

Lemma ovalid_rev ds idx : validIdx ds idx -> ovalid (rev ds) (rev idx).
Proof. intros H. apply ovalid_validIdx. apply validIdx_rev in H. exact H. Qed.

Lemma validIdx_pos ds idx : validIdx ds idx -> Forall (fun d => 0 < d) ds.
Proof. intros H. apply ovalid_validIdx in H. eapply ovalid_pos; eauto. Qed.

(* the state of the odometer over [rev ds] after [flatIdx ds idx] steps is [rev idx] *)
Theorem iter_incr_flatIdx ds idx : validIdx ds idx ->
  iter _ (incr (rev ds)) (flatIdx ds idx) (repeat 0 (length ds)) = rev idx.
Proof.
  intros Hv. pose proof (validIdx_pos ds idx Hv) as Hp.
  assert (Hp' : Forall (fun d => 0 < d) (rev ds)) by (apply Forall_rev, Hp).
  rewrite <- (rev_length ds). apply (oval_inj (rev ds)).
  - apply iter_incr_valid, ovalid_zeros, Hp'.
  - apply ovalid_rev, Hv.
  - rewrite iter_incr_zeros_val.
    + symmetry. apply oval_rev_flatIdx, Hv.
    + exact Hp'.
    + rewrite prodn_rev. apply flatIdx_lt, Hv.
Qed.

(* row-major positions are in bijection with valid multi-indices *)
Definition unflatIdx (ds : list nat) (k : nat) : list nat := rev (unflat (rev ds) k).

Lemma unflatIdx_valid ds k : Forall (fun d => 0 < d) ds -> validIdx ds (unflatIdx ds k).
Proof.
  intros Hp. unfold unflatIdx. apply validIdx_rev. rewrite rev_involutive.
  apply ovalid_validIdx, unflat_valid, Forall_rev, Hp.
Qed.

Lemma flatIdx_unflatIdx ds k : Forall (fun d => 0 < d) ds -> k < prodn ds -> flatIdx ds (unflatIdx ds k) = k.
Proof.
  intros Hp Hk. rewrite <- oval_rev_flatIdx by (apply unflatIdx_valid, Hp).
  unfold unflatIdx. rewrite rev_involutive. apply unflat_val. rewrite prodn_rev. exact Hk.
Qed.

Lemma flatIdx_inj ds idx1 idx2 : validIdx ds idx1 -> validIdx ds idx2 -> flatIdx ds idx1 = flatIdx ds idx2 -> idx1 = idx2.
Proof.
  intros H1 H2 E. rewrite <- (rev_involutive idx1), <- (rev_involutive idx2). f_equal.
  apply (oval_inj (rev ds)); try (apply ovalid_rev; assumption).
  rewrite !oval_rev_flatIdx by assumption. exact E.
Qed.

(* a list is determined by its length and its entries; used for [flat] *)
Lemma flat_ext_by_idx {A} ds (x : nd A) : Forall (fun d => 0 < d) ds -> wfnd ds x ->
  forall l, length l = prodn ds ->
  (forall idx, validIdx ds idx -> get x idx = nth_error l (flatIdx ds idx)) -> flat x = l.
Proof.
  intros Hp Hx l Hl H. apply nth_error_ext_len.
  - rewrite (flat_length A ds x Hx). lia.
  - intros k Hk. rewrite (flat_length A ds x Hx) in Hk.
    rewrite <- (flatIdx_unflatIdx ds k Hp Hk).
    rewrite (flat_nth A ds x _ Hx (unflatIdx_valid ds k Hp)). apply H, unflatIdx_valid, Hp.
Qed.

(* ---------- non-vacuity ---------- *)
Example incr_ex : iter _ (incr [3; 2]) 4 [0; 0] = [1; 1] /\ oval [3; 2] [1; 1] = 4 /\ unflat [3; 2] 4 = [1; 1].
Proof. vm_compute. auto. Qed.
Example incr_wrap_ex : incr [3; 2] [2; 1] = [0; 0].
Proof. reflexivity. Qed.
Example iter_incr_flatIdx_ex :
  validIdx [2; 3] [1; 2] /\ flatIdx [2; 3] [1; 2] = 5 /\ iter _ (incr (rev [2; 3])) 5 (repeat 0 2) = rev [1; 2].
Proof. split; [repeat constructor|vm_compute; auto]. Qed.

Print Assumptions incr_val.
Print Assumptions iter_incr_unflat.
Print Assumptions iter_incr_flatIdx.
Print Assumptions flatIdx_unflatIdx.
