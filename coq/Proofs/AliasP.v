(* AliasP.v — C10, second half: index slices supplied by the caller are decoupled from the
   library when the library copies them ([Copied]); the statement is false of an implementation
   whose back-edge closures retain the caller's slice ([Retained], defect D9). *)
From Coq Require Import List Arith ZArith Bool Lia.
From Qeep Require Import Model.Scalar Model.Nd Model.Fill Model.Data Model.Valid Model.Api Model.Grad
     Model.Backprop Model.Components Model.Scenario Model.Alias.
From Qeep Require Import Proofs.NdP Proofs.TrackP Proofs.StepP Proofs.HistoryP.
Import ListNotations.

Lemma nth_of_nth_error {X} (l : list X) k d : nth k l d = match nth_error l k with Some x => x | None => d end.
Proof. revert k. induction l as [|a l IH]; intros [|k]; cbn; auto. Qed.

Lemma setSlice_length sl sid new : length (setSlice sl sid new) = length sl.
Proof. unfold setSlice. apply mapi_length. Qed.

Lemma setSlice_nth sl sid new k :
  nth k (setSlice sl sid new) [] = if (k =? sid) && (k <? length sl) then new else nth k sl [].
Proof.
  rewrite !nth_of_nth_error. unfold setSlice. rewrite mapi_nth. cbn [fst snd].
  destruct (nth_error sl k) as [x|] eqn:E; cbn [option_map].
  - assert (Hk : k <? length sl = true) by (apply Nat.ltb_lt; apply nth_error_Some; congruence).
    rewrite Hk, andb_true_r. reflexivity.
  - assert (Hk : k <? length sl = false) by (apply Nat.ltb_ge; apply nth_error_None; exact E).
    rewrite Hk, andb_false_r. reflexivity.
Qed.

Section AliasP.
Context {A : Type} {SA : Scalar A}.
Notation T := (tensor A).
Notation state := (@state A).
Notation cmd := (@cmd A).
Notation acmd := (@acmd A).

Variable rd : bred.
Variable sealv : nat -> T -> T.
Variable sealg : nat -> option nat -> T -> T.
Variables (c_eps c_one_m_eps : A) (c_leaky c_sgd_lr dFull dUniL dUniU dNorM dNorS : dec) (c_softmax_dim : Z).
Notation step := (step rd sealv sealg c_eps c_one_m_eps c_leaky c_sgd_lr dFull dUniL dUniU dNorM dNorS c_softmax_dim).
Notation run_from := (run_from rd sealv sealg c_eps c_one_m_eps c_leaky c_sgd_lr dFull dUniL dUniU dNorM dNorS c_softmax_dim).
Notation exec := (exec rd sealv sealg c_eps c_one_m_eps c_leaky c_sgd_lr dFull dUniL dUniU dNorM dNorS c_softmax_dim).
Notation astep := (astep rd sealv sealg c_eps c_one_m_eps c_leaky c_sgd_lr dFull dUniL dUniU dNorM dNorS c_softmax_dim).
Notation arun := (arun rd sealv sealg c_eps c_one_m_eps c_leaky c_sgd_lr dFull dUniL dUniU dNorM dNorS c_softmax_dim).
Notation aexec := (aexec rd sealv sealg c_eps c_one_m_eps c_leaky c_sgd_lr dFull dUniL dUniU dNorM dNorS c_softmax_dim).

(* ---------- decoupled: mode Copied ---------- *)
(* the observables of EVERY program (all tensors, all later back-propagations) are those of the
   core program in which each Slice/Patch carries the content its slice had AT CALL TIME and
   each caller-side mutation is a no-op *)
Theorem decoupled (s : state) (sl : store) recs (p : list acmd) :
  arun Copied (s, sl, recs) p = run_from s (compile sl p).
Proof.
  revert s sl recs. induction p as [|c p IH]; intros s sl recs; [reflexivity|].
  destruct c as [t sid|t sid u|sid new|c]; cbn [Alias.arun Alias.astep Alias.compile Scenario.run_from Alias.record].
  - destruct (step s (CSlice t (nth sid sl []))) as [s' o]. rewrite IH. reflexivity.
  - destruct (step s (CPatch t (nth sid sl []) u)) as [s' o]. rewrite IH. reflexivity.
  - destruct (step s CNop) as [s' o]. rewrite IH. reflexivity.
  - destruct (step s c) as [s' o]. rewrite IH. reflexivity.
Qed.

(* the same for the final state: the heap (values, gradients, flags, edges) is the one of the core run *)
Theorem decoupled_state (s : state) (sl : store) recs (p : list acmd) :
  aexec Copied (s, sl, recs) p = (exec s (compile sl p), store_after sl p, recs).
Proof.
  revert s sl recs. induction p as [|c p IH]; intros s sl recs; [reflexivity|].
  destruct c as [t sid|t sid u|sid new|c];
    cbn [Alias.aexec Alias.astep Alias.compile StepP.exec Alias.record Alias.store_after].
  - destruct (step s (CSlice t (nth sid sl []))) as [s' o]. cbn [fst]. apply IH.
  - destruct (step s (CPatch t (nth sid sl []) u)) as [s' o]. cbn [fst]. apply IH.
  - destruct (step s CNop) as [s' o]. cbn [fst]. apply IH.
  - destruct (step s c) as [s' o]. cbn [fst]. apply IH.
Qed.

Lemma compile_app (sl : store) (p q : list acmd) :
  compile sl (p ++ q) = compile sl p ++ compile (store_after sl p) q.
Proof.
  revert sl. induction p as [|c p IH]; intros sl; [reflexivity|].
  destruct c; cbn [app Alias.compile Alias.store_after]; rewrite IH; reflexivity.
Qed.

(* the compiled program depends on the store only through the entries the program passes *)
Lemma compile_agree (p : list acmd) : forall (sl sl' : store), length sl = length sl' ->
  (forall k, uses k p = true -> nth k sl [] = nth k sl' []) -> compile sl p = compile sl' p.
Proof.
  induction p as [|c p IH]; intros sl sl' Hl H; [reflexivity|].
  destruct c as [t sid|t sid u|sid new|c]; cbn [Alias.compile Alias.uses] in *.
  - rewrite (H sid) by (rewrite Nat.eqb_refl; reflexivity). f_equal. apply IH; [exact Hl|].
    intros k Hk. apply H. rewrite Hk. apply orb_true_r.
  - rewrite (H sid) by (rewrite Nat.eqb_refl; reflexivity). f_equal. apply IH; [exact Hl|].
    intros k Hk. apply H. rewrite Hk. apply orb_true_r.
  - f_equal. apply IH; [rewrite !setSlice_length; exact Hl|].
    intros k Hk. rewrite !setSlice_nth, Hl, (H k Hk). reflexivity.
  - f_equal. apply IH; assumption.
Qed.

(* mutations after the call change nothing: overwriting a slice that is not passed to the
   library again is indistinguishable from doing nothing, whatever happened before and whatever
   follows (further operations on the sliced tensors, back-propagations through them, ...) *)
Theorem mutation_invisible (s : state) (sl : store) recs (pre post : list acmd) sid new :
  uses sid post = false ->
  arun Copied (s, sl, recs) (pre ++ AMutate sid new :: post) =
  arun Copied (s, sl, recs) (pre ++ ACore CNop :: post).
Proof.
  intros Hu. rewrite !decoupled, !compile_app. cbn [Alias.compile]. do 3 f_equal.
  apply compile_agree; [apply setSlice_length|].
  intros k Hk. rewrite setSlice_nth.
  destruct (k =? sid) eqn:E; [|reflexivity]. apply Nat.eqb_eq in E. subst k. congruence.
Qed.

(* ---------- sanity of the Retained model: without caller-side mutation the two modes agree ---------- *)
Notation heap := (@heap A).

(* every recorded capture still carries the content of its slice *)
Definition fixed (sl : store) (recs : list (nat * nat)) (h : heap) : Prop :=
  forall id sid, In (id, sid) recs -> exists n, nth_error h id = Some n /\
    map (fun e : nat * @rule A => (fst e, refresh_rule (nth sid sl []) (snd e))) (nedges n) = nedges n.

Lemma updNode_id (h : heap) i f : (forall n, nth_error h i = Some n -> f n = n) -> updNode h i f = h.
Proof.
  intros Hf. apply nth_error_ext_len; [apply updNode_length|]. intros j _. rewrite updNode_nth.
  destruct (nth_error h j) as [n|] eqn:E; [|reflexivity]. cbn. destruct (j =? i) eqn:Ej; [|reflexivity].
  apply Nat.eqb_eq in Ej. subst j. rewrite (Hf n E). reflexivity.
Qed.

Lemma refresh_fixed (sl : store) recs (h : heap) : fixed sl recs h -> refresh sl recs h = h.
Proof.
  unfold refresh. induction recs as [|[id sid] recs IH]; intros Hf; [reflexivity|]. cbn [fold_left].
  assert (E : refresh1 sl h (id, sid) = h).
  { unfold refresh1. cbn [fst snd]. apply updNode_id. intros n Hn.
    destruct (Hf id sid (or_introl eq_refl)) as (n' & Hn' & He). assert (n' = n) by congruence. subst n'.
    destruct n; cbn in *. rewrite He. reflexivity. }
  rewrite E. apply IH. intros id' sid' Hin. apply Hf. right. exact Hin.
Qed.

Lemma fixed_step (sl : store) recs (s : state) (c : cmd) :
  fixed sl recs (st_heap s) -> fixed sl recs (st_heap (fst (step s c))).
Proof.
  intros Hf id sid Hin. destruct (Hf id sid Hin) as (n & Hn & He).
  destruct (step_frame_values rd sealv sealg c_eps c_one_m_eps c_leaky c_sgd_lr dFull dUniL dUniU dNorM dNorS c_softmax_dim s c id n Hn)
    as (n' & Hn' & _).
  exists n'. split; [exact Hn'|].
  destruct (step_rel rd sealv sealg c_eps c_one_m_eps c_leaky c_sgd_lr dFull dUniL dUniU dNorM dNorS c_softmax_dim s c)
    as [[Hx _|t b x _ _ E|t x log _ _ Eb] _].
  - rewrite (extends_nth _ _ Hx _ _ Hn) in Hn'. inversion Hn'; subst. exact He.
  - rewrite E in Hn'. destruct (h_reset_spec (st_heap s) x b) as (_ & Hs & Ho & _).
    destruct (Nat.eq_dec id x) as [->|Hne].
    + rewrite (Hs n Hn) in Hn'. inversion Hn'; subst. reflexivity.
    + rewrite Ho, Hn in Hn' by exact Hne. inversion Hn'; subst. exact He.
  - destruct (bp_nodes rd _ _ _ _ _ _ Eb) as [_ Hb]. destruct (Hb id n Hn) as (n'' & Hn'' & _ & _ & V & _).
    assert (n'' = n') by congruence. subst n''. rewrite V. exact He.
Qed.

Lemma slice_created (s : state) t idx id : created s (fst (step s (CSlice t idx))) = Some id ->
  exists n, nth_error (st_heap (fst (step s (CSlice t idx)))) id = Some n /\
    (nedges n = [] \/ exists x, nedges n = [(x, RSliceX id x idx)]).
Proof.
  unfold Scenario.step. destruct (lookupT s t) as [x|]; [|intros X; rewrite bad_created in X; discriminate].
  intros Hc. destruct (fin_created sealv _ _ _ Hc) as (h' & Er & Eh). rewrite Eh.
  apply h_slice_track in Er. destruct Er as (n & Hn & Hr & _ & _ & Hed & _).
  destruct (sealNode_node sealv h' id (length (st_env s)) n Hn) as (n' & Hn' & _ & _ & _ & G4 & _).
  exists n'. split; [exact Hn'|]. rewrite G4. destruct (ntracked n) eqn:Et.
  - right. exists x. apply Hed. reflexivity.
  - left. destruct Hr as (_ & _ & Hne & _). apply Hne. exact Et.
Qed.

Lemma patch_created (s : state) t idx u id : created s (fst (step s (CPatch t idx u))) = Some id ->
  exists n, nth_error (st_heap (fst (step s (CPatch t idx u)))) id = Some n /\
    (nedges n = [] \/ exists x p, nedges n = [(x, RPatchX id p idx); (p, RPatchP id p idx)]).
Proof.
  unfold Scenario.step. destruct (lookupT s t) as [x|]; [|intros X; rewrite bad_created in X; discriminate].
  destruct (lookupArg s u) as [[p|]|]; [|intros X; rewrite plain_created in X; discriminate|intros X; rewrite bad_created in X; discriminate].
  intros Hc. destruct (fin_created sealv _ _ _ Hc) as (h' & Er & Eh). rewrite Eh.
  apply h_patch_track in Er. destruct Er as (n & Hn & Hr & _ & _ & Hed & _).
  destruct (sealNode_node sealv h' id (length (st_env s)) n Hn) as (n' & Hn' & _ & _ & _ & G4 & _).
  exists n'. split; [exact Hn'|]. rewrite G4. destruct (ntracked n) eqn:Et.
  - right. exists x, p. apply Hed. reflexivity.
  - left. destruct Hr as (_ & _ & Hne & _). apply Hne. exact Et.
Qed.

Fixpoint no_mutation (p : list acmd) : bool :=
  match p with [] => true | AMutate _ _ :: _ => false | _ :: q => no_mutation q end.

Lemma retained_agrees_aux (p : list acmd) : forall (s : state) (sl : store) recs, no_mutation p = true ->
  fixed sl recs (st_heap s) -> arun Retained (s, sl, recs) p = arun Copied (s, sl, []) p.
Proof.
  induction p as [|c p IH]; intros s sl recs Hm Hf; [reflexivity|].
  destruct c as [t sid|t sid u|sid new|c]; cbn [no_mutation] in Hm; try discriminate;
    cbn [Alias.arun Alias.astep Alias.record].
  - pose proof (fixed_step sl recs s (CSlice t (nth sid sl [])) Hf) as Hf'.
    pose proof (slice_created s t (nth sid sl [])) as Hcr.
    destruct (step s (CSlice t (nth sid sl []))) as [s' o]. cbn [fst] in *. f_equal.
    change (newTensor s s') with (created s s'). destruct (created s s') as [id|] eqn:Ec; [|apply IH; assumption].
    apply IH; [exact Hm|]. intros id' sid' [X|Hin]; [|apply Hf'; exact Hin]. inversion X; subst id' sid'.
    destruct (Hcr id eq_refl) as (n & Hn & [He|(x & He)]); exists n; (split; [exact Hn|]); rewrite He; reflexivity.
  - pose proof (fixed_step sl recs s (CPatch t (nth sid sl []) u) Hf) as Hf'.
    pose proof (patch_created s t (nth sid sl []) u) as Hcr.
    destruct (step s (CPatch t (nth sid sl []) u)) as [s' o]. cbn [fst] in *. f_equal.
    change (newTensor s s') with (created s s'). destruct (created s s') as [id|] eqn:Ec; [|apply IH; assumption].
    apply IH; [exact Hm|]. intros id' sid' [X|Hin]; [|apply Hf'; exact Hin]. inversion X; subst id' sid'.
    destruct (Hcr id eq_refl) as (n & Hn & [He|(x & q & He)]); exists n; (split; [exact Hn|]); rewrite He; reflexivity.
  - assert (E : (if is_backprop c then {| st_heap := refresh sl recs (st_heap s); st_env := st_env s; st_rng := st_rng s |} else s) = s).
    { destruct (is_backprop c); [|reflexivity]. rewrite (refresh_fixed sl recs _ Hf). destruct s; reflexivity. }
    rewrite E. pose proof (fixed_step sl recs s c Hf) as Hf'.
    destruct (step s c) as [s' o]. cbn [fst] in *. f_equal. apply IH; assumption.
Qed.

(* the defect needs the mutation: programs in which the caller never overwrites a slice behave
   identically in both modes *)
Theorem retained_agrees_without_mutation (s : state) (sl : store) (p : list acmd) :
  no_mutation p = true -> arun Retained (s, sl, []) p = arun Copied (s, sl, []) p.
Proof. intros Hm. apply retained_agrees_aux; [exact Hm|]. intros id sid []. Qed.

End AliasP.

(* ================================================================== *)
(*  decoupled_refuted: mode Retained (defect D9)                       *)
(* ================================================================== *)
Module AliasEx.
Import TrackEx StepEx.
#[local] Existing Instance Z_scalar.
Local Open Scope Z_scope.

Notation arunZ := (arun RedSum idv idg 0 1 d0 d0 d0 d0 d0 d0 d0 0).

(* leaf [1;2;3;4] tracked (name 0); s = leaf.Slice(idx) with idx = [{0,2}] (name 1);
   the caller overwrites idx[0] = {2,4} (name 2); BackPropagate(s) (name 3) *)
Definition d9 : list (@acmd Z) :=
  [ACore (CLeaf [4%nat] [1; 2; 3; 4] true); ASlice 0 0; AMutate 0 [(2, 4)]; ACore (CBackprop (Some 1%nat))].
Definition st0 : @astate Z := (init_state, [[(0, 2)]], []).

Example d9_copied : arunZ Copied st0 d9 =
  [ObTensor [4%nat] [1; 2; 3; 4]; ObTensor [2%nat] [1; 2]; ObOk;
   ObGrads 2 [(0%nat, Some ([4%nat], [1; 1; 0; 0])); (1%nat, Some ([2%nat], [1; 1]))]].
Proof. vm_compute. reflexivity. Qed.

Example d9_retained : arunZ Retained st0 d9 =
  [ObTensor [4%nat] [1; 2; 3; 4]; ObTensor [2%nat] [1; 2]; ObOk;
   ObGrads 2 [(0%nat, Some ([4%nat], [0; 0; 1; 1])); (1%nat, Some ([2%nat], [1; 1]))]].
Proof. vm_compute. reflexivity. Qed.

(* in mode Retained the gradient observable of the back-propagation differs from the Copied run,
   and differs from the run of the same program without the mutation: the library is NOT
   decoupled from the caller's slice *)
Theorem decoupled_refuted :
  exists (p p' : list (@acmd Z)) (st : @astate Z),
    p' = [ACore (CLeaf [4%nat] [1; 2; 3; 4] true); ASlice 0 0; ACore CNop; ACore (CBackprop (Some 1%nat))] /\
    p = [ACore (CLeaf [4%nat] [1; 2; 3; 4] true); ASlice 0 0; AMutate 0 [(2, 4)]; ACore (CBackprop (Some 1%nat))] /\
    nth 3 (arunZ Retained st p) ObBad <> nth 3 (arunZ Copied st p) ObBad /\
    nth 3 (arunZ Retained st p) ObBad <> nth 3 (arunZ Retained st p') ObBad /\
    arunZ Copied st p = arunZ Copied st p' /\
    arunZ Retained st p <> run_from RedSum idv idg 0 1 d0 d0 d0 d0 d0 d0 d0 0 (fst (fst st)) (compile (snd (fst st)) p).
Proof.
  exists d9, [ACore (CLeaf [4%nat] [1; 2; 3; 4] true); ASlice 0 0; ACore CNop; ACore (CBackprop (Some 1%nat))], st0.
  split; [reflexivity|]. split; [reflexivity|].
  split; [vm_compute; discriminate|]. split; [vm_compute; discriminate|].
  split; [vm_compute; reflexivity|vm_compute; discriminate].
Qed.

(* the positive theorems on the same program *)
Example d9_decoupled : arunZ Copied st0 d9 =
  runZ init_state [CLeaf [4%nat] [1; 2; 3; 4] true; CSlice 0 [(0, 2)]; CNop; CBackprop (Some 1%nat)].
Proof. exact (decoupled RedSum idv idg 0 1 d0 d0 d0 d0 d0 d0 d0 0 init_state [[(0, 2)]] [] d9). Qed.

Example d9_mutation_invisible : arunZ Copied st0 d9 =
  arunZ Copied st0 [ACore (CLeaf [4%nat] [1; 2; 3; 4] true); ASlice 0 0; ACore CNop; ACore (CBackprop (Some 1%nat))].
Proof.
  apply (mutation_invisible RedSum idv idg 0 1 d0 d0 d0 d0 d0 d0 d0 0 init_state [[(0, 2)]] []
           [ACore (CLeaf [4%nat] [1; 2; 3; 4] true); ASlice 0 0] [ACore (CBackprop (Some 1%nat))] 0 [(2, 4)]).
  reflexivity.
Qed.
End AliasEx.

Print Assumptions decoupled.
Print Assumptions decoupled_state.
Print Assumptions mutation_invisible.
Print Assumptions retained_agrees_without_mutation.
Print Assumptions AliasEx.decoupled_refuted.
