(* GoDimsP1.v — the shape helpers numElems, transposeDims, unsqueezeDims, squeezeDims, flattenDims of
   tensor/internal/cputensor as translated by harness/gox (Model/GoFns.v) compute the hand-written model
   (Model/Data.v, Model/Nd.v) for all inputs satisfying the validators' preconditions. *)
From Coq Require Import String List ZArith Bool Lia Arith.
From Qeep Require Import Model.GoIR Model.GoFns Model.Nd Model.Fill Model.Data Proofs.GoIRP.
Import ListNotations.
Local Open Scope string_scope.
Local Open Scope Z_scope.
Local Open Scope list_scope.

(* ---------- embedding of naturals ---------- *)

Notation natV := (fun n : nat => VI (Z.of_nat n)).

Lemma nats_eq (l : list nat) : nats l = VL (map natV l).
Proof. reflexivity. Qed.

Lemma nth_error_natV (l : list nat) (k : nat) :
  nth_error (map natV l) k = option_map natV (nth_error l k).
Proof. revert k; induction l as [|a l IH]; intros [|k]; cbn; auto. Qed.

(* ---------- numElems ---------- *)

Lemma numElems_loop (body : env -> outcome) (i x : string) :
  (forall e k d acc, lookup e "n" = Some (VI acc) ->
     exists e1, body (upd (upd e i (VI k)) x (VI d)) = ONormal e1 /\ lookup e1 "n" = Some (VI (acc * d))) ->
  forall (ds : list nat) k e acc, lookup e "n" = Some (VI acc) ->
  exists e1, rangeLoop body i x (map natV ds) k e = ONormal e1 /\
             lookup e1 "n" = Some (VI (acc * Z.of_nat (prodn ds))).
Proof.
  intros Hb. induction ds as [|d ds IH]; intros k e acc He.
  - cbn. exists e. split; [reflexivity|]. rewrite He. do 2 f_equal. lia.
  - cbn [map rangeLoop].
    destruct (Hb e k (Z.of_nat d) acc He) as [e1 [Hb1 Hl1]]. rewrite Hb1.
    destruct (IH (k + 1) e1 _ Hl1) as [e2 [H2 Hl2]]. exists e2. split; [exact H2|].
    rewrite Hl2. do 2 f_equal. change (prodn (d :: ds)) with (d * prodn ds)%nat. lia.
Qed.

Theorem go_numElems call fuel (ds : list nat) :
  exec call fuel (fbody GoFns.numElems) [("t.dims", nats ds)] = ORet [VI (Z.of_nat (prodn ds))].
Proof.
  unfold GoFns.numElems. cbn [fbody]. gxs.
  match goal with |- context [rangeLoop ?b ?i ?x _ _ ?e0] =>
    destruct (numElems_loop b i x) with (ds := ds) (k := 0) (e := e0) (acc := 1) as [e1 [H1 Hl1]]
  end.
  - intros e k d acc He. gxs. rewrite He. gxs. eexists. split; [reflexivity|]. lk. reflexivity.
  - reflexivity.
  - rewrite H1. gxs. rewrite Hl1. do 3 f_equal. lia.
Qed.

Corollary run_numElems fuel (ds : list nat) :
  run ftab fuel GoFns.numElems [nats ds] = ORet [VI (Z.of_nat (prodn ds))].
Proof. unfold run. cbn [fparams GoFns.numElems bindArgs]. apply go_numElems. Qed.

(* ---------- transposeDims ---------- *)

(* ---------- list facts ---------- *)

Lemma leb0_nat (n : nat) : (0 <=? Z.of_nat n) = true.
Proof. apply Z.leb_le. lia. Qed.

Lemma copyInto_full (d s : list val) : length d = length s -> copyInto d s = s.
Proof.
  revert s; induction d as [|x d IH]; intros [|y s] H; cbn in *; try discriminate; auto.
  f_equal. apply IH. lia.
Qed.

Lemma copyInto_repeat (v : val) (s : list val) : copyInto (repeat v (length s)) s = s.
Proof. apply copyInto_full. apply repeat_length. Qed.

Lemma setNthV_app (p : list val) x r v : setNthV (p ++ x :: r) (length p) v = Some (p ++ v :: r).
Proof. induction p as [|y p IH]; cbn; [reflexivity|]. now rewrite IH. Qed.

Lemma last2 {T} (l : list T) : (2 <= length l)%nat -> exists pre a b, l = pre ++ [a; b].
Proof.
  induction l as [|x l IH]; cbn; intros H; [lia|].
  destruct l as [|y l]; cbn in *; [lia|].
  destruct l as [|z l].
  - exists [], x, y. reflexivity.
  - destruct IH as [pre [a [b E]]]; [cbn; lia|]. exists (x :: pre), a, b. cbn. now rewrite E.
Qed.

Lemma transposeDims_app (pre : list nat) a b : Data.transposeDims (pre ++ [a; b]) = pre ++ [b; a].
Proof.
  unfold Data.transposeDims. rewrite rev_app_distr. cbn. rewrite rev_involutive, <- app_assoc. reflexivity.
Qed.

Lemma nth_app_0 {T} (p : list T) x r : nth_error (p ++ x :: r) (length p) = Some x.
Proof. rewrite nth_error_app2, Nat.sub_diag by lia. reflexivity. Qed.
Lemma nth_app_1 {T} (p : list T) x y r : nth_error (p ++ x :: y :: r) (S (length p)) = Some y.
Proof. rewrite nth_error_app2 by lia. replace (S (length p) - length p)%nat with 1%nat by lia. reflexivity. Qed.
Lemma setNthV_app1 (p : list val) x y r v : setNthV (p ++ x :: y :: r) (S (length p)) v = Some (p ++ x :: v :: r).
Proof. induction p as [|z p IH]; cbn; [reflexivity|]. cbn in IH. now rewrite IH. Qed.

Theorem go_transposeDims call fuel (ds : list nat) : (2 <= length ds)%nat ->
  exec call fuel (fbody GoFns.transposeDims) [("dims", nats ds)] = ORet [nats (Data.transposeDims ds)].
Proof.
  intros H. destruct (last2 ds H) as [pre [a [b E]]]. subst ds. rewrite transposeDims_app.
  unfold GoFns.transposeDims. cbn [fbody]. gxs.
  rewrite !zlenV_map, leb0_nat, Nat2Z.id. gxs.
  rewrite <- (map_length natV), copyInto_repeat. gxs.
  rewrite !map_app. cbn [map]. set (P := map natV pre).
  unfold zlenV. rewrite !app_length. cbn [length].
  replace (Z.of_nat (length P + 2) - 1) with (Z.of_nat (S (length P))) by lia.
  replace (Z.of_nat (length P + 2) - 2) with (Z.of_nat (length P)) by lia.
  rewrite idxOf_nat, nth_app_1. gxs.
  replace (Z.of_nat (length P + 2) - 2) with (Z.of_nat (length P)) by lia.
  rewrite idxOf_nat, nth_app_0. gxs.
  unfold setElem at 1. gxs.
  replace (Z.of_nat (length P + 2) - 2) with (Z.of_nat (length P)) by lia.
  rewrite idxOf_nat, nth_app_0, setNthV_app. gxs.
  unfold setElem at 1. gxs.
  replace (Z.of_nat (length P + 2) - 1) with (Z.of_nat (S (length P))) by lia.
  rewrite idxOf_nat, nth_app_1, setNthV_app1. gxs.
  unfold nats. rewrite map_app. reflexivity.
Qed.

Theorem go_transposeDims_short call fuel (ds : list nat) : (length ds < 2)%nat ->
  exec call fuel (fbody GoFns.transposeDims) [("dims", nats ds)] = OPanic.
Proof.
  intros H. destruct ds as [|a [|b r]]; [| |cbn in H; lia]; reflexivity.
Qed.

Corollary run_transposeDims fuel (ds : list nat) : (2 <= length ds)%nat ->
  run ftab fuel GoFns.transposeDims [nats ds] = ORet [nats (Data.transposeDims ds)].
Proof. intros H. unfold run. cbn [fparams GoFns.transposeDims bindArgs]. now apply go_transposeDims. Qed.

(* ---------- slicing; unsqueezeDims ---------- *)

Lemma sub_okZ (l : list val) (zl zh : Z) (lo hi : nat) :
  zl = Z.of_nat lo -> zh = Z.of_nat hi -> (lo <= hi <= length l)%nat ->
  (if (0 <=? zl) && (zl <=? zh) && (zh <=? zlenV l)
   then Some (VL (firstn (Z.to_nat (zh - zl)) (skipn (Z.to_nat zl) l))) else None)
  = Some (VL (firstn (hi - lo) (skipn lo l))).
Proof.
  intros -> -> H. unfold zlenV.
  replace (0 <=? Z.of_nat lo) with true by (symmetry; apply Z.leb_le; lia).
  replace (Z.of_nat lo <=? Z.of_nat hi) with true by (symmetry; apply Z.leb_le; lia).
  replace (Z.of_nat hi <=? Z.of_nat (length l)) with true by (symmetry; apply Z.leb_le; lia).
  cbn [andb]. rewrite Nat2Z.id. replace (Z.to_nat (Z.of_nat hi - Z.of_nat lo)) with (hi - lo)%nat by lia.
  reflexivity.
Qed.

Lemma firstn_skipn_all {T} (l : list T) k : firstn (length l - k) (skipn k l) = skipn k l.
Proof. apply firstn_all2. rewrite skipn_length. lia. Qed.

Lemma make_copy (l : list val) :
  (if 0 <=? zlenV l then Some (VL (repeat (VI 0) (Z.to_nat (zlenV l)))) else None) = Some (VL (repeat (VI 0) (length l))).
Proof. unfold zlenV. now rewrite leb0_nat, Nat2Z.id. Qed.

Theorem go_unsqueezeDims call fuel (dim : nat) (ds : list nat) : (dim <= length ds)%nat ->
  exec call fuel (fbody GoFns.unsqueezeDims) [("dim", VI (Z.of_nat dim)); ("dims", nats ds)]
  = ORet [nats (Data.unsqueezeDims dim ds)].
Proof.
  intros H. unfold GoFns.unsqueezeDims, Data.unsqueezeDims. cbn [fbody]. gxs.
  rewrite (sub_okZ _ 0 (Z.of_nat dim) 0%nat dim) by (rewrite ?map_length; try reflexivity; lia).
  rewrite Nat.sub_0_r, skipn_O. gxs.
  rewrite make_copy. gxs. rewrite copyInto_repeat. gxs.
  destruct (Z.of_nat dim <? zlenV (map natV ds)) eqn:E; rewrite zlenV_map in E; gxs.
  - rewrite (sub_okZ _ (Z.of_nat dim) _ dim (length (map natV ds)))
      by (rewrite ?zlenV_map, ?map_length; try reflexivity; lia).
    rewrite firstn_skipn_all. gxs.
    unfold nats. rewrite map_app, firstn_map. cbn [map]. rewrite skipn_map, <- app_assoc. reflexivity.
  - apply Z.ltb_ge in E. assert (dim = length ds) by lia. subst dim.
    rewrite skipn_all. unfold nats. rewrite map_app, firstn_map. reflexivity.
Qed.

Corollary run_unsqueezeDims fuel (dim : nat) (ds : list nat) : (dim <= length ds)%nat ->
  run ftab fuel GoFns.unsqueezeDims [VI (Z.of_nat dim); nats ds] = ORet [nats (Data.unsqueezeDims dim ds)].
Proof. intros H. unfold run. cbn [fparams GoFns.unsqueezeDims bindArgs]. now apply go_unsqueezeDims. Qed.

Lemma sub_bad (l : list val) (zl zh : Z) :
  zlenV l < zh ->
  (if (0 <=? zl) && (zl <=? zh) && (zh <=? zlenV l)
   then Some (VL (firstn (Z.to_nat (zh - zl)) (skipn (Z.to_nat zl) l))) else None) = None.
Proof.
  intros H. replace (zh <=? zlenV l) with false by (symmetry; apply Z.leb_gt; lia).
  now rewrite andb_false_r.
Qed.

Theorem go_unsqueezeDims_out call fuel (dim : nat) (ds : list nat) : (length ds < dim)%nat ->
  exec call fuel (fbody GoFns.unsqueezeDims) [("dim", VI (Z.of_nat dim)); ("dims", nats ds)] = OPanic.
Proof.
  intros H. unfold GoFns.unsqueezeDims. cbn [fbody]. gxs.
  rewrite sub_bad by (rewrite zlenV_map; lia). reflexivity.
Qed.

(* ---------- squeezeDims ---------- *)

Theorem go_squeezeDims_le call fuel (dim : nat) (ds : list nat) : (dim <= length ds)%nat ->
  exec call fuel (fbody GoFns.squeezeDims) [("dim", VI (Z.of_nat dim)); ("dims", nats ds)]
  = ORet [nats (Data.squeezeDims dim ds)].
Proof.
  intros H. unfold GoFns.squeezeDims, Data.squeezeDims. cbn [fbody]. gxs.
  rewrite (sub_okZ _ 0 (Z.of_nat dim) 0%nat dim) by (rewrite ?map_length; try reflexivity; lia).
  rewrite Nat.sub_0_r, skipn_O. gxs.
  rewrite make_copy. gxs. rewrite copyInto_repeat. gxs.
  destruct (Z.of_nat dim <? zlenV (map natV ds) - 1) eqn:E; rewrite zlenV_map in E; gxs.
  - apply Z.ltb_lt in E.
    rewrite (sub_okZ _ (Z.of_nat dim + 1) _ (S dim) (length (map natV ds)))
      by (rewrite ?zlenV_map, ?map_length; try reflexivity; lia).
    rewrite firstn_skipn_all. gxs.
    unfold nats. rewrite map_app, firstn_map, skipn_map. reflexivity.
  - apply Z.ltb_ge in E.
    rewrite skipn_all2 by lia. unfold nats. rewrite map_app, firstn_map. cbn [map]. now rewrite app_nil_r.
Qed.

Theorem go_squeezeDims call fuel (dim : nat) (ds : list nat) : (dim < length ds)%nat ->
  exec call fuel (fbody GoFns.squeezeDims) [("dim", VI (Z.of_nat dim)); ("dims", nats ds)]
  = ORet [nats (Data.squeezeDims dim ds)].
Proof. intros H. apply go_squeezeDims_le. lia. Qed.

Theorem go_squeezeDims_out call fuel (dim : nat) (ds : list nat) : (length ds < dim)%nat ->
  exec call fuel (fbody GoFns.squeezeDims) [("dim", VI (Z.of_nat dim)); ("dims", nats ds)] = OPanic.
Proof.
  intros H. unfold GoFns.squeezeDims. cbn [fbody]. gxs.
  rewrite sub_bad by (rewrite zlenV_map; lia). reflexivity.
Qed.

Corollary run_squeezeDims fuel (dim : nat) (ds : list nat) : (dim < length ds)%nat ->
  run ftab fuel GoFns.squeezeDims [VI (Z.of_nat dim); nats ds] = ORet [nats (Data.squeezeDims dim ds)].
Proof. intros H. unfold run. cbn [fparams GoFns.squeezeDims bindArgs]. now apply go_squeezeDims. Qed.

(* ---------- flattenDims ---------- *)

Lemma skipn_nth_cons {T} (l : list T) k v : nth_error l k = Some v -> skipn k l = v :: skipn (S k) l.
Proof.
  revert k; induction l as [|a l IH]; intros [|k] Hn; cbn in *; try discriminate.
  - now inversion Hn.
  - now apply IH.
Qed.

(* the counting loop of flattenDims, for any cond / body / post that behave like the Go ones *)
Lemma flatten_loop (ds : list nat) (cond : env -> option val) (body post : env -> outcome) :
  (forall e k, lookup e "dims" = Some (nats ds) -> lookup e "i" = Some (VI (Z.of_nat k)) ->
     cond e = Some (VB (Z.of_nat k <? Z.of_nat (length ds)))) ->
  (forall e k acc, lookup e "dims" = Some (nats ds) -> lookup e "i" = Some (VI (Z.of_nat k)) ->
     lookup e "nElems" = Some (VI acc) ->
     body e = match nth_error ds k with
              | Some d => ONormal (upd e "nElems" (VI (acc * Z.of_nat d)))
              | None => OPanic
              end) ->
  (forall e k, lookup e "i" = Some (VI (Z.of_nat k)) -> post e = ONormal (upd e "i" (VI (Z.of_nat k + 1)))) ->
  forall (n k : nat) (e : env) (acc : Z) (fuel : nat),
  n = (length ds - k)%nat -> (k <= length ds)%nat ->
  lookup e "dims" = Some (nats ds) -> lookup e "i" = Some (VI (Z.of_nat k)) -> lookup e "nElems" = Some (VI acc) ->
  (n < fuel)%nat ->
  exists e', forLoop fuel cond body post e = ONormal e' /\
             lookup e' "nElems" = Some (VI (acc * Z.of_nat (prodn (skipn k ds)))) /\
             lookup e' "res" = lookup e "res".
Proof.
  intros Hc Hb Hp. induction n as [|n IH]; intros k e acc fuel Hn Hk Hd Hi Ha Hf;
    (destruct fuel as [|fuel]; [lia|]); cbn [forLoop]; rewrite (Hc e k Hd Hi).
  - replace (Z.of_nat k <? Z.of_nat (length ds)) with false by (symmetry; apply Z.ltb_ge; lia).
    exists e. split; [reflexivity|]. split; [|reflexivity].
    rewrite skipn_all2 by lia. cbn. rewrite Ha. do 2 f_equal. lia.
  - replace (Z.of_nat k <? Z.of_nat (length ds)) with true by (symmetry; apply Z.ltb_lt; lia).
    rewrite (Hb e k acc Hd Hi Ha).
    destruct (nth_error ds k) as [d|] eqn:En.
    2:{ apply nth_error_None in En. lia. }
    rewrite (Hp _ k) by (lk; exact Hi).
    replace (Z.of_nat k + 1) with (Z.of_nat (S k)) by lia.
    destruct (IH (S k) (upd (upd e "nElems" (VI (acc * Z.of_nat d))) "i" (VI (Z.of_nat (S k))))
                (acc * Z.of_nat d) fuel) as [e' [H1 [H2 H3]]]; try lia; try (lk; assumption); try (lk; reflexivity).
    exists e'. split; [exact H1|]. split.
    + rewrite H2, (skipn_nth_cons ds k d En). change (prodn (d :: skipn (S k) ds)) with (d * prodn (skipn (S k) ds))%nat.
      do 2 f_equal. lia.
    + rewrite H3. lk. reflexivity.
Qed.

Theorem go_flattenDims_le call fuel (dim : nat) (ds : list nat) :
  (dim <= length ds)%nat -> (S (length ds) <= fuel)%nat ->
  exec call fuel (fbody GoFns.flattenDims) [("dim", VI (Z.of_nat dim)); ("dims", nats ds)]
  = ORet [nats (Data.flattenDims dim ds)].
Proof.
  intros H Hfuel. unfold GoFns.flattenDims, Data.flattenDims. cbn [fbody]. gxs.
  rewrite (sub_okZ _ 0 (Z.of_nat dim) 0%nat dim) by (rewrite ?map_length; try reflexivity; lia).
  rewrite Nat.sub_0_r, skipn_O. gxs.
  rewrite make_copy. gxs. rewrite copyInto_repeat. gxs.
  match goal with |- context [forLoop _ ?c ?b ?p ?e0] =>
    destruct (flatten_loop ds c b p) with (n := (length ds - dim)%nat) (k := dim) (e := e0) (acc := 1) (fuel := fuel)
      as [e' [H1 [H2 H3]]]
  end.
  - intros e k Hd Hi. rewrite Hd, Hi. cbn [nats evalBin]. now rewrite zlenV_map.
  - intros e k acc Hd Hi Ha. gxs. rewrite Ha, Hd, Hi. cbn [nats]. rewrite idxOf_nat, nth_error_natV.
    destruct (nth_error ds k); reflexivity.
  - intros e k Hi. gxs. rewrite Hi. gxs. reflexivity.
  - reflexivity.
  - exact H.
  - reflexivity.
  - reflexivity.
  - reflexivity.
  - lia.
  - rewrite H1. gxs. rewrite H3, H2. lk. gxs.
    unfold nats. rewrite map_app, firstn_map. cbn [map]. do 6 f_equal. lia.
Qed.

Theorem go_flattenDims call fuel (dim : nat) (ds : list nat) :
  (dim < length ds)%nat -> (S (length ds) <= fuel)%nat ->
  exec call fuel (fbody GoFns.flattenDims) [("dim", VI (Z.of_nat dim)); ("dims", nats ds)]
  = ORet [nats (Data.flattenDims dim ds)].
Proof. intros H Hf. apply go_flattenDims_le; [lia | exact Hf]. Qed.

Theorem go_flattenDims_out call fuel (dim : nat) (ds : list nat) : (length ds < dim)%nat ->
  exec call fuel (fbody GoFns.flattenDims) [("dim", VI (Z.of_nat dim)); ("dims", nats ds)] = OPanic.
Proof.
  intros H. unfold GoFns.flattenDims. cbn [fbody]. gxs.
  rewrite sub_bad by (rewrite zlenV_map; lia). reflexivity.
Qed.

Corollary run_flattenDims fuel (dim : nat) (ds : list nat) :
  (dim < length ds)%nat -> (S (length ds) <= fuel)%nat ->
  run ftab fuel GoFns.flattenDims [VI (Z.of_nat dim); nats ds] = ORet [nats (Data.flattenDims dim ds)].
Proof. intros H Hf. unfold run. cbn [fparams GoFns.flattenDims bindArgs]. now apply go_flattenDims. Qed.

(* ---------- the translated functions run on concrete inputs ---------- *)

Example ex_numElems : run ftab 0 GoFns.numElems [nats [2; 3; 4]%nat] = ORet [VI 24].
Proof. vm_compute. reflexivity. Qed.
Example ex_transposeDims : run ftab 0 GoFns.transposeDims [nats [2; 3; 4]%nat] = ORet [nats [2; 4; 3]%nat].
Proof. vm_compute. reflexivity. Qed.
Example ex_unsqueezeDims : run ftab 0 GoFns.unsqueezeDims [VI 1; nats [2; 3; 4]%nat] = ORet [nats [2; 1; 3; 4]%nat].
Proof. vm_compute. reflexivity. Qed.
Example ex_unsqueezeDims_end : run ftab 0 GoFns.unsqueezeDims [VI 3; nats [2; 3; 4]%nat] = ORet [nats [2; 3; 4; 1]%nat].
Proof. vm_compute. reflexivity. Qed.
Example ex_squeezeDims : run ftab 0 GoFns.squeezeDims [VI 1; nats [2; 1; 4]%nat] = ORet [nats [2; 4]%nat].
Proof. vm_compute. reflexivity. Qed.
Example ex_squeezeDims_last : run ftab 0 GoFns.squeezeDims [VI 2; nats [2; 4; 1]%nat] = ORet [nats [2; 4]%nat].
Proof. vm_compute. reflexivity. Qed.
Example ex_flattenDims : run ftab 4 GoFns.flattenDims [VI 1; nats [2; 3; 4; 5]%nat] = ORet [nats [2; 60]%nat].
Proof. vm_compute. reflexivity. Qed.
Example ex_flattenDims_fuel : run ftab 3 GoFns.flattenDims [VI 1; nats [2; 3; 4; 5]%nat] = OFuel.
Proof. vm_compute. reflexivity. Qed.

Print Assumptions run_numElems.
Print Assumptions run_transposeDims.
Print Assumptions go_transposeDims_short.
Print Assumptions run_unsqueezeDims.
Print Assumptions go_unsqueezeDims_out.
Print Assumptions run_squeezeDims.
Print Assumptions go_squeezeDims_le.
Print Assumptions go_squeezeDims_out.
Print Assumptions run_flattenDims.
Print Assumptions go_flattenDims_le.
Print Assumptions go_flattenDims_out.
