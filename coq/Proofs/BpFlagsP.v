(* BpFlagsP.v — E3/F: what back-propagation does to the bookkeeping of the heap
   (which gradients become non-nil, which tensors become spent, and the frame), and
   that spent tensors isolate everything computed from them. *)
From Coq Require Import List Arith ZArith Bool Lia.
From Qeep Require Import Model.Scalar Model.Nd Model.Fill Model.Data Model.Valid Model.Api Model.Grad Model.Backprop.
From Qeep Require Import Proofs.NdP Proofs.TrackP Proofs.DfsP.
Import ListNotations.

Section BpFlagsP.
Context {A : Type} {SA : Scalar A}.
Notation T := (tensor A).
Notation heap := (@heap A).
Notation node := (@node A).
Notation rule := (@rule A).

Variable rd : bred.
Variable sealg : option nat -> T -> T.

(* everything of a node except its gradient *)
Definition skel (n : node) := (nval n, ntracked n, ndirty n, nedges n, nname n).
Definition same_skel (h h' : heap) : Prop := map skel h = map skel h'.

Lemma same_skel_refl h : same_skel h h.
Proof. reflexivity. Qed.
Lemma same_skel_sym h h' : same_skel h h' -> same_skel h' h.
Proof. unfold same_skel. intros E. symmetry. exact E. Qed.
Lemma same_skel_trans h1 h2 h3 : same_skel h1 h2 -> same_skel h2 h3 -> same_skel h1 h3.
Proof. unfold same_skel. intros E1 E2. rewrite E1. exact E2. Qed.

Lemma same_skel_length h h' : same_skel h h' -> length h = length h'.
Proof. intros E. rewrite <- (map_length skel h), <- (map_length skel h'). rewrite E. reflexivity. Qed.

Lemma same_skel_nth h h' : same_skel h h' ->
  forall i, option_map skel (nth_error h i) = option_map skel (nth_error h' i).
Proof. intros E i. rewrite <- !nth_error_map. unfold same_skel in E. rewrite E. reflexivity. Qed.

Lemma same_skel_node h h' i n : same_skel h h' -> nth_error h i = Some n ->
  exists n', nth_error h' i = Some n' /\ skel n' = skel n.
Proof.
  intros E Hn. pose proof (same_skel_nth h h' E i) as X. rewrite Hn in X. cbn in X.
  destruct (nth_error h' i) as [n'|]; [|discriminate]. cbn in X. exists n'. split; [reflexivity|]. congruence.
Qed.

Lemma same_skel_tracked h h' : same_skel h h' -> forall i, trackedOf h i = trackedOf h' i.
Proof.
  intros E i. pose proof (same_skel_nth h h' E i) as X. unfold trackedOf.
  destruct (nth_error h i) as [n|], (nth_error h' i) as [n'|]; cbn in X; try discriminate; [|reflexivity].
  unfold skel in X. congruence.
Qed.

Lemma same_skel_dirty h h' : same_skel h h' -> forall i, dirtyOf h i = dirtyOf h' i.
Proof.
  intros E i. pose proof (same_skel_nth h h' E i) as X. unfold dirtyOf.
  destruct (nth_error h i) as [n|], (nth_error h' i) as [n'|]; cbn in X; try discriminate; [|reflexivity].
  unfold skel in X. congruence.
Qed.

Lemma same_skel_edges h h' : same_skel h h' -> forall i, edgesOf h i = edgesOf h' i.
Proof.
  intros E i. pose proof (same_skel_nth h h' E i) as X. unfold edgesOf.
  destruct (nth_error h i) as [n|], (nth_error h' i) as [n'|]; cbn in X; try discriminate; [|reflexivity].
  unfold skel in X. congruence.
Qed.

Lemma same_skel_val h h' : same_skel h h' -> forall i, valOf h i = valOf h' i.
Proof.
  intros E i. pose proof (same_skel_nth h h' E i) as X. unfold valOf.
  destruct (nth_error h i) as [n|], (nth_error h' i) as [n'|]; cbn in X; try discriminate; [|reflexivity].
  unfold skel in X. cbn. congruence.
Qed.

Lemma setGrad_skel (h : heap) i g : same_skel h (setGrad h i g).
Proof.
  unfold same_skel. apply NdP.nth_error_ext_len.
  - rewrite !map_length, setGrad_length. reflexivity.
  - intros j _. rewrite !nth_error_map, setGrad_nth. destruct (nth_error h j) as [n|]; [|reflexivity].
    cbn. destruct (j =? i); reflexivity.
Qed.

Lemma gradOf_lt (h : heap) i : gradOf h i <> None -> i < length h.
Proof.
  unfold gradOf. intros H. apply nth_error_Some. destruct (nth_error h i); [discriminate|]. exfalso. apply H. reflexivity.
Qed.

Lemma gradOf_setGrad_other (h : heap) i g j : j <> i -> gradOf (setGrad h i g) j = gradOf h j.
Proof.
  intros H. unfold gradOf. rewrite setGrad_nth. apply Nat.eqb_neq in H. rewrite H.
  destruct (nth_error h j); reflexivity.
Qed.

Lemma gradOf_setGrad_same (h : heap) i g : i < length h -> gradOf (setGrad h i g) i = g.
Proof.
  intros H. destruct (lt_nth_some h i H) as [n Hn]. unfold gradOf. rewrite setGrad_nth, Hn, Nat.eqb_refl. reflexivity.
Qed.

(* one step of the gradient pass: only gradients inside S change, and none is lost *)
Definition step_ok (S : nat -> Prop) (h h' : heap) : Prop :=
  same_skel h h' /\ (forall j, ~ S j -> gradOf h' j = gradOf h j) /\ (forall j, gradOf h j <> None -> gradOf h' j <> None).

Lemma step_ok_refl S h : step_ok S h h.
Proof. split; [apply same_skel_refl|]. split; auto. Qed.

Lemma step_ok_trans S h1 h2 h3 : step_ok S h1 h2 -> step_ok S h2 h3 -> step_ok S h1 h3.
Proof.
  intros (E1 & F1 & M1) (E2 & F2 & M2). split; [eapply same_skel_trans; eauto|]. split.
  - intros j Hj. rewrite F2, F1; auto.
  - intros j Hj. apply M2, M1, Hj.
Qed.

Lemma step_ok_weaken (S S' : nat -> Prop) h h' : (forall j, S j -> S' j) -> step_ok S h h' -> step_ok S' h h'.
Proof. intros HS (E & F & M). split; [exact E|]. split; [|exact M]. intros j Hj. apply F. intro X. apply Hj, HS, X. Qed.

Lemma setGrad_step (h : heap) i g : step_ok (fun j => j = i) h (setGrad h i (Some g)).
Proof.
  split; [apply setGrad_skel|]. split.
  - intros j Hj. apply gradOf_setGrad_other. exact Hj.
  - intros j Hj. destruct (Nat.eq_dec j i) as [->|Hne].
    + rewrite gradOf_setGrad_same by (apply gradOf_lt; exact Hj). discriminate.
    + rewrite gradOf_setGrad_other by exact Hne. exact Hj.
Qed.

Lemma accumulate_ok (h : heap) i g h' r : accumulate h i g = (h', r) ->
  step_ok (fun j => j = i) h h' /\ (r = Ok tt -> i < length h -> gradOf h' i <> None).
Proof.
  unfold accumulate. destruct (gradOf h i) as [g0|] eqn:Eg.
  - destruct (v_arith BiAdd g0 g) as [s| |].
    + intros E. inversion E; subst. split; [apply setGrad_step|]. intros _ Hi. rewrite gradOf_setGrad_same by exact Hi. discriminate.
    + intros E. inversion E; subst. split; [apply step_ok_refl|]. intros X; discriminate.
    + intros E. inversion E; subst. split; [apply step_ok_refl|]. intros X; discriminate.
  - intros E. inversion E; subst. split; [apply setGrad_step|]. intros _ Hi. rewrite gradOf_setGrad_same by exact Hi. discriminate.
Qed.

Lemma process_edge_ok c (h : heap) r e h' r' : process_edge rd c (h, r) e = (h', r') ->
  step_ok (fun j => j = fst e /\ trackedOf h j = true) h h' /\
  (r' = Ok tt -> r = Ok tt /\ (trackedOf h (fst e) = true -> gradOf h' (fst e) <> None)) /\
  ((forall u, r <> Ok u) -> r' = r).
Proof.
  unfold process_edge. destruct r as [u| |].
  - destruct u. destruct (trackedOf h (fst e)) eqn:Et.
    + destruct (eval_rule rd h (snd e)) as [g| |].
      * intros E. apply accumulate_ok in E. destruct E as [Hs Hg]. split.
        { eapply step_ok_weaken; [|exact Hs]. intros j ->. split; [reflexivity|exact Et]. }
        split; [|intros X; exfalso; apply (X tt); reflexivity].
        intros Hr. split; [reflexivity|]. intros _. apply Hg; [exact Hr|]. apply trackedOf_true_lt. exact Et.
      * intros E. inversion E; subst. split; [apply step_ok_refl|]. split; [discriminate|].
        intros X; exfalso; apply (X tt); reflexivity.
      * intros E. inversion E; subst. split; [apply step_ok_refl|]. split; [discriminate|].
        intros X; exfalso; apply (X tt); reflexivity.
    + intros E. inversion E; subst. split; [apply step_ok_refl|]. split.
      * intros _. split; [reflexivity|]. discriminate.
      * intros X; exfalso; apply (X tt); reflexivity.
  - intros E. inversion E; subst. split; [apply step_ok_refl|]. split; [discriminate|reflexivity].
  - intros E. inversion E; subst. split; [apply step_ok_refl|]. split; [discriminate|reflexivity].
Qed.

Lemma fold_edges_ok c : forall es (h : heap) r h' r', fold_left (process_edge rd c) es (h, r) = (h', r') ->
  step_ok (fun j => exists e, In e es /\ fst e = j /\ trackedOf h j = true) h h' /\
  (r' = Ok tt -> r = Ok tt /\ forall e, In e es -> trackedOf h (fst e) = true -> gradOf h' (fst e) <> None) /\
  ((forall u, r <> Ok u) -> r' = r).
Proof.
  induction es as [|e es IH]; intros h r h' r' E; cbn [fold_left] in E.
  - inversion E; subst. split; [apply step_ok_refl|]. split; [|reflexivity].
    intros Hr. split; [exact Hr|]. intros e [].
  - destruct (process_edge rd c (h, r) e) as [h1 r1] eqn:E1.
    apply process_edge_ok in E1. destruct E1 as (S1 & O1 & N1).
    apply IH in E. destruct E as (S2 & O2 & N2).
    assert (Tk : forall j, trackedOf h1 j = trackedOf h j).
    { intros j. symmetry. apply same_skel_tracked. apply S1. }
    split.
    { eapply step_ok_trans.
      - eapply step_ok_weaken; [|exact S1]. intros j [-> Hj]. exists e. split; [left; reflexivity|]. split; [reflexivity|exact Hj].
      - eapply step_ok_weaken; [|exact S2]. intros j (e' & He' & Hf & Hj). exists e'. split; [right; exact He'|].
        split; [exact Hf|]. rewrite <- Tk. exact Hj. }
    split.
    + intros Hr. destruct (O2 Hr) as [Hr1 G2]. destruct (O1 Hr1) as [Hr0 G1]. split; [exact Hr0|].
      intros e' [<-|He'] Ht.
      * destruct S2 as (_ & _ & M2). apply M2. apply G1. exact Ht.
      * apply G2; [exact He'|]. rewrite Tk. exact Ht.
    + intros X. rewrite <- (N1 X). apply N2. rewrite (N1 X). exact X.
Qed.

Lemma process_node_ok (h : heap) log r c h' log' r' : process_node rd sealg (h, log, r) c = (h', log', r') ->
  step_ok (fun j => j = c \/ exists e, In e (edgesOf h c) /\ fst e = j /\ trackedOf h j = true) h h' /\
  (r' = Ok tt -> r = Ok tt /\
     (gradOf h c <> None -> forall e, In e (edgesOf h c) -> trackedOf h (fst e) = true -> gradOf h' (fst e) <> None)) /\
  ((forall u, r <> Ok u) -> r' = r).
Proof.
  unfold process_node. destruct r as [u| |].
  - destruct u. destruct (nth_error h c) as [n|] eqn:En.
    + assert (Ee : edgesOf h c = nedges n) by (unfold edgesOf; rewrite En; reflexivity).
      destruct (ngrad n) as [g|] eqn:Eg.
      * destruct (fold_left (process_edge rd c) (nedges n) (setGrad h c (Some (sealg (nname n) g)), Ok tt)) as [h2 r2] eqn:Ef.
        intros E. inversion E; subst. apply fold_edges_ok in Ef. destruct Ef as (S2 & O2 & _).
        pose proof (setGrad_step h c (sealg (nname n) g)) as S1.
        assert (Tk : forall j, trackedOf (setGrad h c (Some (sealg (nname n) g))) j = trackedOf h j).
        { intros j. symmetry. apply same_skel_tracked. apply S1. }
        split.
        { eapply step_ok_trans.
          - eapply step_ok_weaken; [|exact S1]. intros j ->. left; reflexivity.
          - eapply step_ok_weaken; [|exact S2]. intros j (e & He & Hf & Hj). right. exists e.
            rewrite Ee. split; [exact He|]. split; [exact Hf|]. rewrite <- Tk. exact Hj. }
        split; [|intros X; exfalso; apply (X tt); reflexivity].
        intros Hr. split; [reflexivity|]. intros _ e He Ht. destruct (O2 Hr) as [_ G2].
        apply G2; [rewrite <- Ee; exact He|]. rewrite Tk. exact Ht.
      * intros E. inversion E; subst. split; [apply step_ok_refl|].
        split; [|intros X; exfalso; apply (X tt); reflexivity].
        intros _. split; [reflexivity|]. intros Hg. exfalso. apply Hg. unfold gradOf. rewrite En. exact Eg.
    + intros E. inversion E; subst. split; [apply step_ok_refl|]. split; [discriminate|].
      intros X; exfalso; apply (X tt); reflexivity.
  - intros E. inversion E; subst. split; [apply step_ok_refl|]. split; [discriminate|reflexivity].
  - intros E. inversion E; subst. split; [apply step_ok_refl|]. split; [discriminate|reflexivity].
Qed.

(* the whole pass only touches gradients inside a set closed under tracked edge targets *)
Lemma fold_nodes_frame (S : nat -> Prop) (h0 : heap) :
  (forall n e, S n -> In e (edgesOf h0 n) -> trackedOf h0 (fst e) = true -> S (fst e)) ->
  forall l (h : heap) log r h' log' r', same_skel h h0 -> (forall c, In c l -> S c) ->
  fold_left (process_node rd sealg) l (h, log, r) = (h', log', r') ->
  step_ok S h h' /\ ((forall u, r <> Ok u) -> r' = r).
Proof.
  intros Hcl. induction l as [|c l IH]; intros h log r h' log' r' Hsk Hl E; cbn [fold_left] in E.
  - inversion E; subst. split; [apply step_ok_refl|reflexivity].
  - destruct (process_node rd sealg (h, log, r) c) as [[h1 log1] r1] eqn:E1.
    apply process_node_ok in E1. destruct E1 as (S1 & _ & N1).
    assert (Hsk1 : same_skel h1 h0).
    { eapply same_skel_trans; [|exact Hsk]. apply same_skel_sym. apply S1. }
    apply IH in E; [|exact Hsk1|intros c' Hc'; apply Hl; right; exact Hc'].
    destruct E as (S2 & N2). split.
    + eapply step_ok_trans; [|exact S2]. eapply step_ok_weaken; [|exact S1].
      intros j [->|(e & He & Hf & Hj)]; [apply Hl; left; reflexivity|].
      subst j. apply (Hcl c e); [apply Hl; left; reflexivity| |].
      * rewrite <- (same_skel_edges _ _ Hsk). exact He.
      * rewrite <- (same_skel_tracked _ _ Hsk). exact Hj.
    + intros X. rewrite <- (N1 X). apply N2. rewrite (N1 X). exact X.
Qed.

(* along an ordered duplicate-free list every member ends with a gradient, provided each member
   either has one already or is an edge target of another member *)
Lemma fold_nodes_nonnil (h0 : heap) : forall l (h : heap) log h' log',
  same_skel h h0 -> NoDup l -> ordered h0 l -> (forall c, In c l -> trackedOf h0 c = true) ->
  (forall c, In c l -> gradOf h c <> None \/ exists p e, In p l /\ p <> c /\ In e (edgesOf h0 p) /\ fst e = c) ->
  fold_left (process_node rd sealg) l (h, log, Ok tt) = (h', log', Ok tt) ->
  forall c, In c l -> gradOf h' c <> None.
Proof.
  induction l as [|p0 l IH]; intros h log h' log' Hsk Hnd Hord Htr Hcov E c Hc; [contradiction|].
  cbn [fold_left] in E.
  destruct (process_node rd sealg (h, log, Ok tt) p0) as [[h1 log1] r1] eqn:E1.
  assert (Htriv : forall (n : nat) (e : nat * rule), True -> In e (edgesOf h0 n) -> trackedOf h0 (fst e) = true -> True) by auto.
  apply process_node_ok in E1. destruct E1 as (S1 & O1 & _).
  assert (Hsk1 : same_skel h1 h0).
  { eapply same_skel_trans; [|exact Hsk]. apply same_skel_sym. apply S1. }
  destruct (fold_nodes_frame (fun _ => True) h0 Htriv l h1 log1 r1 h' log' (Ok tt) Hsk1 (fun _ _ => I) E) as (S2 & N2).
  assert (Hr1 : r1 = Ok tt).
  { destruct r1 as [[]| |]; [reflexivity| |]; symmetry; apply N2; intros u; discriminate. }
  subst r1. destruct (O1 eq_refl) as [_ G1].
  inversion Hnd as [|? ? Hp0 Hnd']; subst. cbn [ordered] in Hord. destruct Hord as [Hp0succ Hord'].
  assert (HG0 : gradOf h p0 <> None).
  { destruct (Hcov p0 (or_introl eq_refl)) as [Hg|(p & e & Hp & Hne & He & Hf)]; [exact Hg|].
    exfalso. destruct Hp as [Hp|Hp]; [congruence|]. apply Hp0. rewrite <- Hf.
    eapply ordered_closed; eauto. rewrite Hf. apply Htr. left; reflexivity. }
  assert (Hcov1 : forall c', In c' l ->
     gradOf h1 c' <> None \/ exists p e, In p l /\ p <> c' /\ In e (edgesOf h0 p) /\ fst e = c').
  { intros c' Hc'. destruct (Hcov c' (or_intror Hc')) as [Hg|(p & e & Hp & Hne & He & Hf)].
    - left. destruct S1 as (_ & _ & M1). apply M1. exact Hg.
    - destruct Hp as [<-|Hp].
      + left. rewrite <- Hf. apply G1; [exact HG0| |].
        * rewrite (same_skel_edges _ _ Hsk). exact He.
        * rewrite (same_skel_tracked _ _ Hsk), Hf. apply Htr. right; exact Hc'.
      + right. exists p, e. auto. }
  destruct Hc as [<-|Hc].
  - destruct S1 as (_ & _ & M1). destruct S2 as (_ & _ & M2). apply M2, M1, HG0.
  - eapply (IH h1 log1 h' log'); eauto. intros c' Hc'. apply Htr. right; exact Hc'.
Qed.

(* ---------- markDirty ---------- *)
Lemma markDirty_node (h : heap) l i n : nth_error h i = Some n ->
  exists n', nth_error (markDirty h l) i = Some n' /\
    nval n' = nval n /\ ntracked n' = ntracked n /\ nedges n' = nedges n /\ nname n' = nname n /\
    ngrad n' = ngrad n /\ ndirty n' = ndirty n || memb i l.
Proof.
  intros Hn. rewrite markDirty_nth, Hn. cbn [option_map]. eexists. split; [reflexivity|].
  destruct (memb i l); cbn; repeat split; auto using orb_true_r, orb_false_r.
Qed.

Lemma markDirty_tracked (h : heap) l i : trackedOf (markDirty h l) i = trackedOf h i.
Proof.
  unfold trackedOf. rewrite markDirty_nth. destruct (nth_error h i) as [n|]; [|reflexivity].
  cbn. destruct (memb i l); reflexivity.
Qed.

Lemma markDirty_edges (h : heap) l i : edgesOf (markDirty h l) i = edgesOf h i.
Proof.
  unfold edgesOf. rewrite markDirty_nth. destruct (nth_error h i) as [n|]; [|reflexivity].
  cbn. destruct (memb i l); reflexivity.
Qed.

Lemma markDirty_val (h : heap) l i : valOf (markDirty h l) i = valOf h i.
Proof.
  unfold valOf. rewrite markDirty_nth. destruct (nth_error h i) as [n|]; [|reflexivity].
  cbn. destruct (memb i l); reflexivity.
Qed.

Lemma markDirty_grad (h : heap) l i : gradOf (markDirty h l) i = gradOf h i.
Proof.
  unfold gradOf. rewrite markDirty_nth. destruct (nth_error h i) as [n|]; [|reflexivity].
  cbn. destruct (memb i l); reflexivity.
Qed.

(* ---------- E3: back-propagation from a tracked root ---------- *)
Lemma bp_topo_steps (h : heap) root h' log r : wf_heap h -> trackedOf h root = true ->
  bp_topo rd sealg h root = (h', log, r) ->
  step_ok (fun j => In j (topoOrder h root)) (markDirty h (topoOrder h root)) h' /\
  (r = Ok tt -> forall i, In i (topoOrder h root) -> gradOf h' i <> None).
Proof.
  intros W Ht. unfold bp_topo. rewrite Ht. cbn [negb].
  set (order := topoOrder h root). set (h1 := markDirty h order).
  assert (Hroot : In root order) by (apply topoOrder_root; assumption).
  assert (Hlt : root < length h1).
  { unfold h1. rewrite markDirty_length. apply trackedOf_true_lt. exact Ht. }
  assert (Hcl : forall n e, In n order -> In e (edgesOf h1 n) -> trackedOf h1 (fst e) = true -> In (fst e) order).
  { intros n e Hn He Hte. unfold h1 in He, Hte. rewrite markDirty_edges in He. rewrite markDirty_tracked in Hte.
    eapply topoOrder_closed; eauto. }
  destruct (valOf h1 root) as [rv|] eqn:Ev.
  2:{ exfalso. unfold h1 in Ev. rewrite markDirty_val in Ev. unfold valOf in Ev.
      destruct (lt_nth_some h root (trackedOf_true_lt h root Ht)) as [n Hn]. rewrite Hn in Ev. discriminate. }
  destruct (toOnes rv) as [ones| |].
  - destruct (accumulate h1 root ones) as [h2 r2] eqn:Ea. apply accumulate_ok in Ea. destruct Ea as [Sa Ga].
    assert (Sa' : step_ok (fun j => In j order) h1 h2).
    { eapply step_ok_weaken; [|exact Sa]. intros j ->. exact Hroot. }
    destruct r2 as [u| |].
    + destruct u. intros E.
      assert (Hsk2 : same_skel h2 h1) by (apply same_skel_sym; apply Sa).
      destruct (fold_nodes_frame (fun j => In j order) h1 Hcl order h2 [] (Ok tt) h' log r Hsk2 (fun c Hc => Hc) E) as (Sf & _).
      split; [eapply step_ok_trans; eauto|].
      intros ->. eapply (fold_nodes_nonnil h1 order h2 [] h' log); eauto.
      * apply topoOrder_NoDup. exact W.
      * eapply ordered_ext; [| |apply topoOrder_ordered; exact W].
        -- intros i. unfold h1. symmetry. apply markDirty_tracked.
        -- intros i. unfold h1. symmetry. apply markDirty_edges.
      * intros c Hc. unfold h1. rewrite markDirty_tracked. eapply topoOrder_tracked; eauto.
      * intros c Hc. destruct (Nat.eq_dec c root) as [->|Hne].
        -- left. apply Ga; [reflexivity|exact Hlt].
        -- right. destruct (topoOrder_pred h root c W Hc Hne) as (p & e & Hp & He & Hf & Hcp).
           exists p, e. split; [exact Hp|]. split; [lia|]. split; [|exact Hf].
           unfold h1. rewrite markDirty_edges. exact He.
    + intros E. inversion E; subst. split; [exact Sa'|discriminate].
    + intros E. inversion E; subst. split; [exact Sa'|discriminate].
  - intros E. inversion E; subst. split; [apply step_ok_refl|discriminate].
  - intros E. inversion E; subst. split; [apply step_ok_refl|discriminate].
Qed.

(* the statement about every node of the heap *)
Theorem bp_topo_flags (h : heap) root h' log r : wf_heap h -> trackedOf h root = true ->
  bp_topo rd sealg h root = (h', log, r) ->
  length h' = length h /\
  (forall i n, nth_error h i = Some n ->
     exists n', nth_error h' i = Some n' /\
       nval n' = nval n /\ ntracked n' = ntracked n /\ nedges n' = nedges n /\ nname n' = nname n /\
       ndirty n' = ndirty n || memb i (topoOrder h root) /\
       (~ In i (topoOrder h root) -> ngrad n' = ngrad n)) /\
  (r = Ok tt -> forall i, In i (topoOrder h root) -> gradOf h' i <> None).
Proof.
  intros W Ht E. destruct (bp_topo_steps h root h' log r W Ht E) as ((Sk & Fr & _) & Hnn).
  split; [rewrite <- (same_skel_length _ _ Sk); apply markDirty_length|]. split; [|exact Hnn].
  intros i n Hn. destruct (markDirty_node h (topoOrder h root) i n Hn) as (m & Hm & M1 & M2 & M3 & M4 & M5 & M6).
  destruct (same_skel_node _ _ i m Sk Hm) as (n' & Hn' & Hs). unfold skel in Hs. inversion Hs as [[V1 V2 V3 V4 V5]].
  exists n'. split; [exact Hn'|]. repeat split; try congruence.
  intros Hni. specialize (Fr i Hni). rewrite markDirty_grad in Fr. unfold gradOf in Fr. rewrite Hn', Hn in Fr. exact Fr.
Qed.

(* reformulations with the accessors *)
Corollary bp_topo_frame (h : heap) root h' log r : wf_heap h -> trackedOf h root = true ->
  bp_topo rd sealg h root = (h', log, r) ->
  length h' = length h /\ erase h' = erase h /\
  (forall i, valOf h' i = valOf h i) /\ (forall i, trackedOf h' i = trackedOf h i) /\
  (forall i, edgesOf h' i = edgesOf h i) /\
  (forall i, dirtyOf h' i = dirtyOf h i || (memb i (topoOrder h root) && (i <? length h))) /\
  (forall i, ~ In i (topoOrder h root) -> gradOf h' i = gradOf h i).
Proof.
  intros W Ht E. destruct (bp_topo_flags h root h' log r W Ht E) as (Hl & Hn & _).
  assert (Hnone : forall i, nth_error h i = None -> nth_error h' i = None).
  { intros i Hi. apply nth_error_None. rewrite Hl. apply nth_error_None. exact Hi. }
  split; [exact Hl|]. split.
  { apply NdP.nth_error_ext_len; [rewrite !erase_length; exact Hl|]. intros i _. unfold erase. rewrite !nth_error_map.
    destruct (nth_error h i) as [n|] eqn:En.
    - destruct (Hn i n En) as (n' & Hn' & V & _). rewrite Hn'. cbn. congruence.
    - rewrite (Hnone i En). reflexivity. }
  split; [|split; [|split; [|split]]]; intros i.
  - unfold valOf. destruct (nth_error h i) as [n|] eqn:En.
    + destruct (Hn i n En) as (n' & Hn' & V & _). rewrite Hn'. cbn. congruence.
    + rewrite (Hnone i En). reflexivity.
  - unfold trackedOf. destruct (nth_error h i) as [n|] eqn:En.
    + destruct (Hn i n En) as (n' & Hn' & _ & V & _). rewrite Hn'. exact V.
    + rewrite (Hnone i En). reflexivity.
  - unfold edgesOf. destruct (nth_error h i) as [n|] eqn:En.
    + destruct (Hn i n En) as (n' & Hn' & _ & _ & V & _). rewrite Hn'. exact V.
    + rewrite (Hnone i En). reflexivity.
  - unfold dirtyOf. destruct (nth_error h i) as [n|] eqn:En.
    + destruct (Hn i n En) as (n' & Hn' & _ & _ & _ & _ & V & _). rewrite Hn', V.
      assert (i <? length h = true) by (apply Nat.ltb_lt; apply nth_error_Some; congruence).
      rewrite H, andb_true_r. reflexivity.
    + rewrite (Hnone i En). apply nth_error_None in En.
      assert (i <? length h = false) by (apply Nat.ltb_ge; exact En). rewrite H, andb_false_r. reflexivity.
  - intros Hni. unfold gradOf. destruct (nth_error h i) as [n|] eqn:En.
    + destruct (Hn i n En) as (n' & Hn' & _ & _ & _ & _ & _ & V). rewrite Hn'. cbn. apply V. exact Hni.
    + rewrite (Hnone i En). reflexivity.
Qed.

Theorem bp_topo_wf (h : heap) root : wf_heap h -> wf_heap (fst (fst (bp_topo rd sealg h root))).
Proof.
  intros W. destruct (trackedOf h root) eqn:Ht.
  - destruct (bp_topo rd sealg h root) as [[h' log] r] eqn:E. cbn [fst].
    destruct (bp_topo_flags h root h' log r W Ht E) as (Hl & Hn & _).
    intros i n' Hi. assert (Hlt : i < length h) by (rewrite <- Hl; apply nth_error_Some; congruence).
    destruct (lt_nth_some h i Hlt) as [n En]. destruct (Hn i n En) as (n'' & Hn'' & _ & _ & V & _).
    assert (n'' = n') by congruence. subst n''. rewrite V. eapply W; eauto.
  - rewrite bp_untracked_root by exact Ht. exact W.
Qed.

(* exactly the reached tensors become spent, whatever the outcome *)
Corollary bp_topo_spent (h : heap) root h' log r x : wf_heap h ->
  bp_topo rd sealg h root = (h', log, r) -> In x (topoOrder h root) -> dirtyOf h' x = true.
Proof.
  intros W E Hx. destruct (trackedOf h root) eqn:Ht.
  - destruct (bp_topo_frame h root h' log r W Ht E) as (_ & _ & _ & _ & _ & Hd & _). rewrite Hd.
    assert (Hm : memb x (topoOrder h root) = true) by (apply memb_in; exact Hx).
    assert (Hl : x <? length h = true).
    { apply Nat.ltb_lt. apply trackedOf_true_lt. eapply topoOrder_tracked; eauto. }
    rewrite Hm, Hl. apply orb_true_r.
  - rewrite topoOrder_untracked in Hx by exact Ht. contradiction.
Qed.

(* ================================================================== *)
(*  F. spent tensors isolate what is computed from them                *)
(* ================================================================== *)
Definition isolated (h : heap) (id : nat) : Prop :=
  exists n, nth_error h id = Some n /\ ntracked n = false /\ ndirty n = true /\ nedges n = [].

Lemma isolated_flags (h : heap) id : isolated h id ->
  trackedOf h id = false /\ dirtyOf h id = true /\ edgesOf h id = [].
Proof. intros (n & Hn & H1 & H2 & H3). unfold trackedOf, dirtyOf, edgesOf. rewrite Hn. auto. Qed.

Theorem spent_op1 (h : heap) x f mk name h' id :
  dirtyOf h x = true -> h_op1 h x f mk name = (h', Ok id) -> isolated h' id.
Proof.
  intros Hd E. apply h_op1_track in E. destruct E as (n & Hn & Hr & _).
  exists n. split; [exact Hn|]. eapply ctx_rule_dirty; [exact Hr|left; reflexivity|exact Hd].
Qed.

Theorem spent_elsel (h : heap) b x u name h' id :
  dirtyOf h x = true \/ dirtyOf h u = true -> h_elsel h b x u name = (h', Ok id) -> isolated h' id.
Proof.
  intros Hd E. apply h_elsel_track in E. destruct E as (n & Hn & Hr & _).
  exists n. split; [exact Hn|]. destruct Hd as [Hd|Hd].
  - eapply ctx_rule_dirty; [exact Hr|left; reflexivity|exact Hd].
  - eapply ctx_rule_dirty; [exact Hr|right; left; reflexivity|exact Hd].
Qed.

Theorem spent_patch (h : heap) x index p name h' id :
  dirtyOf h x = true \/ dirtyOf h p = true -> h_patch h x index p name = (h', Ok id) -> isolated h' id.
Proof.
  intros Hd E. apply h_patch_track in E. destruct E as (n & Hn & Hr & _).
  exists n. split; [exact Hn|]. destruct Hd as [Hd|Hd].
  - eapply ctx_rule_dirty; [exact Hr|left; reflexivity|exact Hd].
  - eapply ctx_rule_dirty; [exact Hr|right; left; reflexivity|exact Hd].
Qed.

Theorem spent_concat (h : heap) xs dim name h' id x :
  In x xs -> dirtyOf h x = true -> h_concat h xs dim name = (h', Ok id) -> isolated h' id.
Proof.
  intros Hx Hd E. apply h_concat_track in E. destruct E as (n & Hn & Hr & _).
  exists n. split; [exact Hn|]. eapply ctx_rule_dirty; [exact Hr|exact Hx|exact Hd].
Qed.

Theorem spent_arith (h : heap) b x u name h' id :
  dirtyOf h x = true \/ dirtyOf h u = true -> h_arith h b x u name = (h', Ok id) -> isolated h' id.
Proof.
  intros Hd E. apply h_arith_track in E. destruct E as (n & Hn & Hr & _).
  exists n. split; [exact Hn|]. destruct Hd as [Hd|Hd].
  - eapply ctx_rule_dirty; [exact Hr|left; reflexivity|exact Hd].
  - eapply ctx_rule_dirty; [exact Hr|right; left; reflexivity|exact Hd].
Qed.

Theorem spent_dot (h : heap) x u name h' id :
  dirtyOf h x = true \/ dirtyOf h u = true -> h_dot h x u name = (h', Ok id) -> isolated h' id.
Proof.
  intros Hd E. apply h_dot_track in E. destruct E as (n & Hn & Hr & _).
  exists n. split; [exact Hn|]. destruct Hd as [Hd|Hd].
  - eapply ctx_rule_dirty; [exact Hr|left; reflexivity|exact Hd].
  - eapply ctx_rule_dirty; [exact Hr|right; left; reflexivity|exact Hd].
Qed.

Theorem spent_matmul (h : heap) x u name h' id :
  dirtyOf h x = true \/ dirtyOf h u = true -> h_matmul h x u name = (h', Ok id) -> isolated h' id.
Proof.
  intros Hd E. apply h_matmul_track in E. destruct E as (n & Hn & Hr & _).
  exists n. split; [exact Hn|]. destruct Hd as [Hd|Hd].
  - eapply ctx_rule_dirty; [exact Hr|left; reflexivity|exact Hd].
  - eapply ctx_rule_dirty; [exact Hr|right; left; reflexivity|exact Hd].
Qed.

(* after a back-propagation, anything computed with an operand from the reached set is
   untracked, spent itself (so the property propagates), and has no back edge *)
Theorem spent_isolated (h : heap) root hb log r x : wf_heap h ->
  bp_topo rd sealg h root = (hb, log, r) -> In x (topoOrder h root) ->
  dirtyOf hb x = true /\
  (forall f mk name h' id, h_op1 hb x f mk name = (h', Ok id) -> isolated h' id) /\
  (forall b u name h' id, h_elsel hb b x u name = (h', Ok id) -> isolated h' id) /\
  (forall b u name h' id, h_elsel hb b u x name = (h', Ok id) -> isolated h' id) /\
  (forall b u name h' id, h_arith hb b x u name = (h', Ok id) -> isolated h' id) /\
  (forall b u name h' id, h_arith hb b u x name = (h', Ok id) -> isolated h' id) /\
  (forall u name h' id, h_dot hb x u name = (h', Ok id) -> isolated h' id) /\
  (forall u name h' id, h_dot hb u x name = (h', Ok id) -> isolated h' id) /\
  (forall u name h' id, h_matmul hb x u name = (h', Ok id) -> isolated h' id) /\
  (forall u name h' id, h_matmul hb u x name = (h', Ok id) -> isolated h' id) /\
  (forall index p name h' id, h_patch hb x index p name = (h', Ok id) -> isolated h' id) /\
  (forall index u name h' id, h_patch hb u index x name = (h', Ok id) -> isolated h' id) /\
  (forall xs dim name h' id, In x xs -> h_concat hb xs dim name = (h', Ok id) -> isolated h' id).
Proof.
  intros W E Hx. pose proof (bp_topo_spent h root hb log r x W E Hx) as Hd.
  split; [exact Hd|].
  split; [intros f mk name h' id H; eapply spent_op1; [exact Hd|exact H]|].
  split; [intros b u name h' id H; eapply spent_elsel; [left; exact Hd|exact H]|].
  split; [intros b u name h' id H; eapply spent_elsel; [right; exact Hd|exact H]|].
  split; [intros b u name h' id H; eapply spent_arith; [left; exact Hd|exact H]|].
  split; [intros b u name h' id H; eapply spent_arith; [right; exact Hd|exact H]|].
  split; [intros u name h' id H; eapply spent_dot; [left; exact Hd|exact H]|].
  split; [intros u name h' id H; eapply spent_dot; [right; exact Hd|exact H]|].
  split; [intros u name h' id H; eapply spent_matmul; [left; exact Hd|exact H]|].
  split; [intros u name h' id H; eapply spent_matmul; [right; exact Hd|exact H]|].
  split; [intros index p name h' id H; eapply spent_patch; [left; exact Hd|exact H]|].
  split; [intros index u name h' id H; eapply spent_patch; [right; exact Hd|exact H]|].
  intros; eapply spent_concat; eauto.
Qed.

End BpFlagsP.

(* example on the heap of TrackEx: back-propagation from y (id 5) *)
Module BpEx.
Import TrackEx.
#[local] Existing Instance Z_scalar.

Definition ids : option nat -> tensor Z -> tensor Z := fun _ g => g.
Definition bp := bp_topo RedSum ids e5 5.
Definition hb : @heap Z := fst (fst bp).

Example ex_bp_run :
  snd bp = Ok tt /\ length hb = 8 /\
  map (fun i => match gradOf hb i with Some _ => true | None => false end) (seq 0 8)
    = [true; false; true; true; false; true; false; false] /\
  map (dirtyOf hb) (seq 0 8) = [true; false; true; true; false; true; false; false] /\
  map (trackedOf hb) (seq 0 8) = map (trackedOf e5) (seq 0 8) /\
  gradOf hb 0 = Some (vec2 2 2).
Proof. vm_compute. repeat split. Qed.

(* the theorem's hypotheses hold and its conclusion gives the same information *)
Example ex_bp_flags :
  (forall i, In i [5; 3; 2; 0] -> gradOf hb i <> None /\ dirtyOf hb i = true) /\
  (forall i, ~ In i [5; 3; 2; 0] -> gradOf hb i = gradOf e5 i) /\
  erase hb = erase e5.
Proof.
  assert (Ht : trackedOf e5 5 = true) by (vm_compute; reflexivity).
  assert (E : bp_topo RedSum ids e5 5 = (hb, snd (fst bp), Ok tt)) by (vm_compute; reflexivity).
  destruct (bp_topo_flags RedSum ids e5 5 _ _ _ ex_wf Ht E) as (_ & _ & Hnn).
  destruct (bp_topo_frame RedSum ids e5 5 _ _ _ ex_wf Ht E) as (_ & He & _ & _ & _ & _ & Hg).
  destruct DfsEx.ex_order as (Eo & _). rewrite Eo in *.
  split; [|split; [exact Hg|exact He]].
  intros i Hi. split; [apply Hnn; [reflexivity|exact Hi]|].
  apply (bp_topo_spent RedSum ids e5 5 _ _ _ i ex_wf E). rewrite Eo. exact Hi.
Qed.

(* F: scaling the spent leaf x afterwards gives an untracked, spent, edge-free result;
   resetting x first makes it usable again *)
Example ex_spent :
  isolated (fst (h_scale hb 0 2%Z None)) 8 /\
  trackedOf (fst (h_scale (h_reset hb 0 true) 0 2%Z None)) 8 = true.
Proof.
  split; [|vm_compute; reflexivity].
  assert (E : bp_topo RedSum ids e5 5 = (hb, snd (fst bp), Ok tt)) by (vm_compute; reflexivity).
  assert (Hx : In 0 (topoOrder e5 5)) by (vm_compute; auto).
  destruct (spent_isolated RedSum ids e5 5 _ _ _ 0 ex_wf E Hx) as (_ & Hop1 & _).
  apply (Hop1 (v_unary (UScale 2%Z)) (fun y => RScale y 2%Z) None). vm_compute. reflexivity.
Qed.
End BpEx.

Print Assumptions bp_topo_flags.
Print Assumptions bp_topo_frame.
Print Assumptions bp_topo_wf.
Print Assumptions spent_isolated.
