(* GradCeP.v — C13 for the categorical cross-entropy loss: back-propagating the loss value gives the
   prediction (shape [N; C], a leaf or the result of earlier tracked operations) the gradient
   -(t'/p)/N (t' = the target clipped to [0,1], N = batch size) at every prediction strictly inside
   the clipping interval (eps, 1-eps), and a finite ZERO where the prediction is clipped
   (including p = 0 and p = 1).  Built on the generic part Proofs/GradLossP.v.

   Graph (L = length of the heap before the call): L+0..L+4 clip of the target (untracked),
   L+5..L+9 clip of the prediction (p^0, eps*, ome*, ElMin p, ElMax), L+10 Log, L+11/L+12 the two
   same-shape Broadcasts of Mul, L+13 Mul, L+14 SumAlong(1), L+15 Scale(-1), L+16 MeanAlong(0).
   Processing order: L+16, L+15, L+14, L+13, L+12, L+10, L+9, L+8, L+7, L+6, L+5, p, ancestry of p.

   The equality test of the ElMax/ElMin rules uses the library's absolute threshold thr (1e-240 in
   Go): the formula is stated with the guards  eps + thr < p < ome - thr,  p < eps - thr,
   p > ome + thr  ([ce_grad_formula], [ce_grad_elementwise]); at thr = 0 these are exactly the
   property's ([ce_grad_formula_thr0]).  Inside the band of width thr above eps the model hands
   over HALF the gradient ([ceD_near_eps], the near-tie finding D10 again). *)
From Coq Require Import List Arith ZArith Bool Lia Reals Lra.
From Coquelicot Require Import Coquelicot.
From Qeep Require Import Model.Scalar Model.Nd Model.Fill Model.Data Model.Valid Model.Api Model.Grad Model.Backprop
  Model.Components.
From Qeep Require Import Spec.RScalar Spec.VjpSpec.
From Qeep Require Import Proofs.NdP Proofs.ElemP Proofs.BroadcastP Proofs.ReduceP Proofs.ReduceRP Proofs.CompP Proofs.LossP
  Proofs.VjpElemP Proofs.VjpReduceP Proofs.TrackP Proofs.BackpropP Proofs.GradLossP.
Import ListNotations.
Local Open Scope nat_scope.

Section CeStructure.
Context {A : Type} {SA : Scalar A}.
Notation T := (tensor A).
Notation heap := (@heap A).
Notation rule := (@rule A).
Notation c0 := (@cst A SA 0 0).
Notation c1 := (@cst A SA 1 0).
Notation cm1 := (@cst A SA (-1) 0).
Variables (eps ome : A).

(* the seventeen nodes CE.Compute appends; tp = is the prediction tracked *)
Definition ce_nodes (L p t : nat) (tp : bool) (name : option nat)
  (a0 a1 a2 a3 a4 b0 b1 b2 b3 b4 lpv k1 k2 sv lv lnv lossv : T) : heap :=
  [ xnode a0 false [(t, RPow (L + 0) t c0 true)] None;
    xnode a1 false [(L + 0, RScale (L + 1) c0)] None;
    xnode a2 false [(L + 0, RScale (L + 2) c1)] None;
    xnode a3 false [(t, RElSel (L + 3) t (L + 2)); (L + 2, RElSel (L + 3) (L + 2) t)] None;
    xnode a4 false [(L + 1, RElSel (L + 4) (L + 1) (L + 3)); (L + 3, RElSel (L + 4) (L + 3) (L + 1))] None;
    xnode b0 tp [(p, RPow (L + 5) p c0 true)] None;
    xnode b1 tp [(L + 5, RScale (L + 6) eps)] None;
    xnode b2 tp [(L + 5, RScale (L + 7) ome)] None;
    xnode b3 tp [(p, RElSel (L + 8) p (L + 7)); (L + 7, RElSel (L + 8) (L + 7) p)] None;
    xnode b4 tp [(L + 6, RElSel (L + 9) (L + 6) (L + 8)); (L + 8, RElSel (L + 9) (L + 8) (L + 6))] None;
    xnode lpv tp [(L + 9, RLog (L + 10) (L + 9))] None;
    xnode k1 false [(L + 4, RBroadcast (L + 11) (L + 4))] None;
    xnode k2 tp [(L + 10, RBroadcast (L + 12) (L + 10))] None;
    xnode sv tp (arithEdges BiMul (L + 13) (L + 11) (L + 12)) None;
    xnode lv tp [(L + 13, RSumAlong (L + 14) (L + 13) 1%Z)] None;
    xnode lnv tp [(L + 14, RScale (L + 15) cm1)] None;
    xnode lossv tp [(L + 15, RAvgAlong (L + 16) (L + 15) 0%Z)] name ].

Definition ce_bshape (x u : T) : list Z := map Z.of_nat (targetBroadcastDims (dims x) (dims u)).

(* the forward equations between the seventeen values *)
Definition ce_fwd (pv tv : T) (a0 a1 a2 a3 a4 b0 b1 b2 b3 b4 lpv k1 k2 sv lv lnv lossv : T) : Prop :=
  v_unary (UPow c0) tv = Ok a0 /\ v_unary (UScale c0) a0 = Ok a1 /\ v_unary (UScale c1) a0 = Ok a2 /\
  v_same BiElMin tv a2 = Ok a3 /\ v_same BiElMax a1 a3 = Ok a4 /\
  v_unary (UPow c0) pv = Ok b0 /\ v_unary (UScale eps) b0 = Ok b1 /\ v_unary (UScale ome) b0 = Ok b2 /\
  v_same BiElMin pv b2 = Ok b3 /\ v_same BiElMax b1 b3 = Ok b4 /\
  v_unary ULn b4 = Ok lpv /\
  v_broadcast a4 (ce_bshape a4 lpv) = Ok k1 /\ v_broadcast lpv (ce_bshape a4 lpv) = Ok k2 /\ apply2 (binaryF BiMul) k1 k2 = Some sv /\
  v_reduceAlong RdSum sv 1%Z = Ok lv /\ v_unary (UScale cm1) lv = Ok lnv /\ v_reduceAlong RdMean lnv 0%Z = Ok lossv.

Ltac norm_heap := rewrite <- ?app_assoc in *; cbn [app length Nat.add] in *.
Ltac side_off := first [ rewrite trackedOf_off; reflexivity | rewrite dirtyOf_off; reflexivity
                       | rewrite trackedOf_app by assumption; assumption | rewrite dirtyOf_app by assumption; assumption ].
Ltac look V := rewrite valOf_off in V; cbn [valOf nth_error obind nval xnode] in V; inversion V; clear V.
Ltac flags := rewrite ?orb_false_r, ?orb_diag in *; cbn [orb] in *.

Lemma ce_structure (h : heap) p t name h1 l tp pv tv :
  valOf h p = Some pv -> valOf h t = Some tv ->
  trackedOf h p = tp -> dirtyOf h p = false -> trackedOf h t = false -> dirtyOf h t = false ->
  ceArgs h (Some p) (Some t) = Some (p, t) ->
  ce_compute eps ome h (Some p) (Some t) name = (h1, Ok l) ->
  exists a0 a1 a2 a3 a4 b0 b1 b2 b3 b4 lpv k1 k2 sv lv lnv lossv,
    ce_fwd pv tv a0 a1 a2 a3 a4 b0 b1 b2 b3 b4 lpv k1 k2 sv lv lnv lossv /\
    l = length h + 16 /\
    h1 = h ++ ce_nodes (length h) p t tp name a0 a1 a2 a3 a4 b0 b1 b2 b3 b4 lpv k1 k2 sv lv lnv lossv.
Proof.
  intros Vp Vt Tp Dp Tt Dt Ea E. rewrite ce_compute_unfold, Ea in E. apply atomically_ok in E.
  assert (Hp : p < length h) by (eapply valOf_some_lt; eauto).
  assert (Ht : t < length h) by (eapply valOf_some_lt; eauto).
  apply hbind_ok in E as (hh1 & ytc & E1 & E). apply hbind_ok in E as (hh2 & ypc & E2 & E).
  apply hbind_ok in E as (hh3 & lp & E3 & E). apply hbind_ok in E as (hh4 & s & E4 & E).
  apply hbind_ok in E as (hh5 & ll & E5 & E). apply hbind_ok in E as (hh6 & ln & E6 & E7).
  (* clip t *)
  rewrite <- (app_nil_r h) in E1.
  apply (clip_X h [] t c0 c1 hh1 ytc false) in E1; [|rewrite app_nil_r; exact Tt|rewrite app_nil_r; exact Dt].
  cbv zeta in E1. destruct E1 as (tv' & a0 & a1 & a2 & a3 & a4 & Vt' & Fa0 & Fa1 & Fa2 & Fa3 & Fa4 & -> & ->).
  rewrite app_nil_r in Vt'. assert (tv' = tv) by congruence. subst tv'. clear Vt'. norm_heap.
  (* clip p *)
  match type of E2 with clip (h ++ ?l) _ _ _ = _ =>
    apply (clip_X h l p eps ome hh2 ypc tp) in E2; [|side_off|side_off] end.
  cbv zeta in E2. destruct E2 as (pv' & b0 & b1 & b2 & b3 & b4 & Vp' & Fb0 & Fb1 & Fb2 & Fb3 & Fb4 & -> & ->).
  rewrite valOf_app in Vp' by exact Hp. assert (pv' = pv) by congruence. subst pv'. clear Vp'. norm_heap.
  (* lp = Log ypc *)
  unfold h_math in E3. cbn [mathUnary mathRule] in E3.
  match type of E3 with h_op1 (h ++ ?l) _ _ _ _ = _ => apply (op1_X h l _ _ _ _ _ _ tp) in E3; [|side_off|side_off] end.
  destruct E3 as (x1 & lpv & V1 & Flp & -> & ->). look V1. subst x1. norm_heap.
  (* s = ytc * lp *)
  match type of E4 with h_arith (h ++ ?l) _ _ _ _ = _ =>
    apply (arith_X h l _ _ _ _ _ _ false tp) in E4; [|side_off|side_off|side_off|side_off] end.
  cbv zeta in E4. destruct E4 as (x1 & x2 & k1 & k2 & sv & V1 & V2 & Fk1 & Fk2 & Fs & -> & ->).
  look V1. look V2. subst x1 x2. flags. norm_heap.
  (* l = SumAlong(1) s *)
  unfold h_reduceAlong in E5. cbn [alongRule] in E5.
  match type of E5 with h_op1 (h ++ ?l) _ _ _ _ = _ => apply (op1_X h l _ _ _ _ _ _ tp) in E5; [|side_off|side_off] end.
  destruct E5 as (x1 & lv & V1 & Fl & -> & ->). look V1. subst x1. norm_heap.
  (* ln = -l *)
  unfold h_scale in E6.
  match type of E6 with h_op1 (h ++ ?l) _ _ _ _ = _ => apply (op1_X h l _ _ _ _ _ _ tp) in E6; [|side_off|side_off] end.
  destruct E6 as (x1 & lnv & V1 & Fln & -> & ->). look V1. subst x1. norm_heap.
  (* loss = mean *)
  unfold h_reduceAlong in E7. cbn [alongRule] in E7.
  match type of E7 with h_op1 (h ++ ?l) _ _ _ _ = _ => apply (op1_X h l _ _ _ _ _ _ tp) in E7; [|side_off|side_off] end.
  destruct E7 as (x1 & lossv & V1 & Floss & -> & ->). look V1. subst x1. norm_heap.
  exists a0, a1, a2, a3, a4, b0, b1, b2, b3, b4, lpv, k1, k2, sv, lv, lnv, lossv.
  split; [unfold ce_fwd, ce_bshape; repeat (split; [assumption|]); assumption|]. split; reflexivity.
Qed.
End CeStructure.

Section CeOwn.
Context {A : Type} {SA : Scalar A}.
Notation T := (tensor A).
Notation heap := (@heap A).
Variables (eps ome : A).

Lemma ce_own_wf (h : heap) p t name (a0 a1 a2 a3 a4 b0 b1 b2 b3 b4 lpv k1 k2 sv lv lnv lossv : T) :
  rules_own h -> wf_heap h -> p < length h -> t < length h ->
  let nodes := ce_nodes eps ome (length h) p t true name a0 a1 a2 a3 a4 b0 b1 b2 b3 b4 lpv k1 k2 sv lv lnv lossv in
  rules_own (h ++ nodes) /\ wf_heap (h ++ nodes).
Proof.
  intros Ho Hw Hp Ht nodes. apply own_wf_ext; [exact Ho|exact Hw|]. intros k nd e Hn He.
  do 17 (destruct k as [|k]; [cbn [nth_error nodes ce_nodes] in Hn; inversion Hn; subst nd; cbn [nedges xnode arithEdges] in He;
    repeat (destruct He as [<-|He]; [cbn [fst snd rule_y]; split; lia|]); destruct He|]).
  destruct k; discriminate.
Qed.
End CeOwn.

Local Open Scope R_scope.

Section Ce.
Variables (thr : R) (draw : bool -> nat -> R).
Local Hint Extern 0 (Scalar R) => exact (R_scalar thr draw) : typeclass_instances.
Notation T := (tensor R).
Notation heap := (@heap R).
Notation rule := (@rule R).
Notation idseal := (fun (_ : option nat) (g : T) => g).
Notation c0 := (@cst R (R_scalar thr draw) 0 0).
Notation c1 := (@cst R (R_scalar thr draw) 1 0).
Notation cm1 := (@cst R (R_scalar thr draw) (-1) 0).
Variables (eps ome : R).

Lemma ce_pow0_isT ds f (xv v : T) : isT ds f xv -> v_unary (UPow c0) xv = Ok v -> isT ds (fun _ => 1) v.
Proof.
  intros Tx E. apply (isT_ext _ _ _ _ (un_isT thr draw _ _ _ _ _ Tx E)). intros idx _.
  rewrite uF_pow, cst_R, dec2R_0. apply Rpow_0.
Qed.

Lemma ce_scale_isT ds f a (xv v : T) : isT ds f xv -> v_unary (UScale a) xv = Ok v -> isT ds (fun i => a * f i) v.
Proof. intros Tx E. exact (un_isT thr draw _ _ _ _ _ Tx E). Qed.

(* element-wise reading of the forward values *)
Lemma ce_fwd_isT N C (pv tv : T) (a0 a1 a2 a3 a4 b0 b1 b2 b3 b4 lpv k1 k2 sv lv lnv lossv : T) :
  wf pv -> wf tv -> dims pv = [N; C] -> dims tv = [N; C] ->
  ce_fwd eps ome pv tv a0 a1 a2 a3 a4 b0 b1 b2 b3 b4 lpv k1 k2 sv lv lnv lossv ->
  let P := elt pv in let Tt := elt tv in
  let A4 := fun i => Rmax 0 (Rmin (Tt i) 1) in
  let B3 := fun i => Rmin (P i) ome in let B4 := fun i => Rmax eps (B3 i) in
  exists FLp Fs Fl Fln,
  isT [N; C] A4 a4 /\
  isT [N; C] (fun _ => 1) b0 /\ isT [N; C] (fun _ => eps) b1 /\ isT [N; C] (fun _ => ome) b2 /\
  isT [N; C] B3 b3 /\ isT [N; C] B4 b4 /\
  isT [N; C] FLp lpv /\ isT [N; C] A4 k1 /\ isT [N; C] FLp k2 /\ isT [N; C] Fs sv /\
  isT [N] Fl lv /\ isT [N] Fln lnv /\ dims lossv = [] /\ wf lossv.
Proof.
  intros Wp Wt Edp Edt Hf P Tt A4 B3 B4.
  destruct Hf as (Fa0 & Fa1 & Fa2 & Fa3 & Fa4 & Fb0 & Fb1 & Fb2 & Fb3 & Fb4 & Flp & Fk1 & Fk2 & Fs & Fl & Fln & Floss).
  assert (Ttv : isT [N; C] Tt tv) by (rewrite <- Edt; apply isT_self, Wt).
  assert (Tpv : isT [N; C] P pv) by (rewrite <- Edp; apply isT_self, Wp).
  pose proof (ce_pow0_isT _ _ _ _ Ttv Fa0) as Ta0.
  assert (Ta1 : isT [N; C] (fun _ => 0) a1).
  { apply (isT_ext _ _ _ _ (ce_scale_isT _ _ _ _ _ Ta0 Fa1)). intros idx _. rewrite cst_R, dec2R_0. ring. }
  assert (Ta2 : isT [N; C] (fun _ => 1) a2).
  { apply (isT_ext _ _ _ _ (ce_scale_isT _ _ _ _ _ Ta0 Fa2)). intros idx _. rewrite cst_R, dec2R_1. ring. }
  pose proof (same_isT thr draw _ _ _ _ _ _ _ Ttv Ta2 Fa3) as Ta3.
  pose proof (same_isT thr draw _ _ _ _ _ _ _ Ta1 Ta3 Fa4) as Ta4.
  pose proof (ce_pow0_isT _ _ _ _ Tpv Fb0) as Tb0.
  assert (Tb1 : isT [N; C] (fun _ => eps) b1).
  { apply (isT_ext _ _ _ _ (ce_scale_isT _ _ _ _ _ Tb0 Fb1)). intros idx _. ring. }
  assert (Tb2 : isT [N; C] (fun _ => ome) b2).
  { apply (isT_ext _ _ _ _ (ce_scale_isT _ _ _ _ _ Tb0 Fb2)). intros idx _. ring. }
  pose proof (same_isT thr draw _ _ _ _ _ _ _ Tpv Tb2 Fb3) as Tb3.
  pose proof (same_isT thr draw _ _ _ _ _ _ _ Tb1 Tb3 Fb4) as Tb4.
  pose proof (un_isT thr draw _ _ _ _ _ Tb4 Flp) as Tlp.
  assert (ES : ce_bshape a4 lpv = map Z.of_nat [N; C]).
  { unfold ce_bshape. rewrite (proj1 Ta4), (proj1 Tlp), targetBroadcastDims_same. reflexivity. }
  rewrite ES in Fk1, Fk2.
  pose proof (bcast_same_isT _ _ _ _ Ta4 Fk1) as Tk1. pose proof (bcast_same_isT _ _ _ _ Tlp Fk2) as Tk2.
  pose proof (apply2_isT thr draw BiMul _ _ _ _ _ _ Tk1 Tk2 Fs) as Ts.
  destruct (along_elt thr draw RdSum sv 1 (proj1 (proj2 Ts))) as (lv' & Elv & Dlv & Wlv & _).
  { rewrite (proj1 Ts). cbn [length]. lia. }
  change (Z.of_nat 1) with 1%Z in Elv. assert (lv' = lv) by congruence. subst lv'. clear Elv.
  rewrite (proj1 Ts) in Dlv. change (squeezeDims 1 [N; C]) with [N] in Dlv.
  assert (Tl : isT [N] (elt lv) lv) by (rewrite <- Dlv; apply isT_self, Wlv).
  pose proof (un_isT thr draw _ _ _ _ _ Tl Fln) as Tln.
  destruct (along_elt thr draw RdMean lnv 0 (proj1 (proj2 Tln))) as (ls' & Els & Dls & Wls & _).
  { rewrite (proj1 Tln). cbn [length]. lia. }
  change (Z.of_nat 0) with 0%Z in Els. assert (ls' = lossv) by congruence. subst ls'. clear Els.
  rewrite (proj1 Tln) in Dls. change (squeezeDims 0 [N]) with (@nil nat) in Dls.
  do 4 eexists.
  split; [exact Ta4|]. split; [exact Tb0|]. split; [exact Tb1|]. split; [exact Tb2|]. split; [exact Tb3|].
  split; [exact Tb4|]. split; [exact Tlp|]. split; [exact Tk1|]. split; [exact Tk2|]. split; [exact Ts|].
  split; [exact Tl|]. split; [exact Tln|]. split; [exact Dls|exact Wls].
Qed.

(* the factor the model hands to prediction element p with target element t *)
Definition ceD (N : nat) (p t : R) : R :=
  let tc := Rmax 0 (Rmin t 1) in
  let b3 := Rmin p ome in
  let b4 := Rmax eps b3 in
  1 / INR N * -1 * tc * / b4 * (eqt thr b4 b3 - / 2 * eqt thr b3 eps) * (eqt thr b3 p - / 2 * eqt thr p ome).

(* the tensor the property names *)
Definition ceG (pv tv : T) : T :=
  let N := nth 0 (dims pv) 0%nat in let C := nth 1 (dims pv) 0%nat in
  ofFun [N; C] (fun idx => ceD N (elt pv idx) (elt tv idx)).

Lemma ceArgs_dims (h : heap) p t pv tv :
  ceArgs h (Some p) (Some t) = Some (p, t) -> valOf h p = Some pv -> valOf h t = Some tv ->
  exists N C, dims pv = [N; C] /\ dims tv = [N; C].
Proof.
  intros E Vp Vt. apply ceArgs_spec in E as (_ & _ & vp & vt & m & k & Hvp & Hvt & Hdp & Hdt).
  exists m, k. split; congruence.
Qed.

Lemma ce_bp rd (h : heap) p t name pv tv g0 h1 l :
  rules_own h -> wf_heap h ->
  valOf h p = Some pv -> wf pv -> valOf h t = Some tv -> wf tv ->
  trackedOf h p = true -> dirtyOf h p = false -> trackedOf h t = false -> dirtyOf h t = false ->
  ceArgs h (Some p) (Some t) = Some (p, t) ->
  gradOf h p = g0 -> prior_ok (dims pv) g0 ->
  ce_compute eps ome h (Some p) (Some t) name = (h1, Ok l) ->
  exists hm logm rest g,
    bp_topo rd idseal h1 l = fold_left (process_node rd idseal) (p :: rest) (hm, logm, Ok tt) /\
    (forall c, In c rest -> (c < p)%nat) /\ (edgesOf h p = [] -> rest = []) /\
    sameS h1 hm /\ wf_heap h1 /\ trackedOf h1 t = false /\ edgesOf h1 p = edgesOf h p /\
    gradOf hm p = Some g /\ dims g = dims pv /\ wf g /\
    acc1 g0 (ceG pv tv) = Some (Some g) /\
    (forall j, (j < length h)%nat -> j <> p -> gradOf hm j = gradOf h j) /\
    (forall j, (j < length h)%nat -> gradOf h1 j = gradOf h j).
Proof.
  intros Ho Hw Vp Wp Vt Wt Tp Dp Tt Dt Ea Eg0 Hprior E. unfold ceG.
  set (N := nth 0 (dims pv) 0%nat). set (C := nth 1 (dims pv) 0%nat).
  destruct (ceArgs_dims h p t pv tv Ea Vp Vt) as (n & c & Edp & Edt).
  assert (EN : N = n) by (unfold N; rewrite Edp; reflexivity).
  assert (EC : C = c) by (unfold C; rewrite Edp; reflexivity). clearbody N C. subst n c.
  destruct (ce_structure eps ome h p t name h1 l true pv tv Vp Vt Tp Dp Tt Dt Ea E)
    as (a0 & a1 & a2 & a3 & a4 & b0 & b1 & b2 & b3 & b4 & lpv & k1 & k2 & sv & lv & lnv & lossv & Hfwd & -> & EH).
  assert (Hp : (p < length h)%nat) by (eapply valOf_some_lt; eauto).
  assert (Ht : (t < length h)%nat) by (eapply valOf_some_lt; eauto).
  assert (Npos : (0 < N)%nat /\ (0 < C)%nat).
  { destruct Wp as [_ Hpos]. rewrite Edp in Hpos. inversion Hpos as [|? ? H1 H2]. inversion H2. split; assumption. }
  destruct Npos as [Npos Cpos].
  destruct (ce_fwd_isT N C pv tv _ _ _ _ _ _ _ _ _ _ _ _ _ _ _ _ _ Wp Wt Edp Edt Hfwd)
    as (FLp & Fs & Fl & Fln & Ta4 & Tb0 & Tb1 & Tb2 & Tb3 & Tb4 & Tlp & Tk1 & Tk2 & Ts & Tl & Tln & Dls & Wls).
  cbv zeta in *.
  (* the heap *)
  set (nodes := ce_nodes eps ome (length h) p t true name a0 a1 a2 a3 a4 b0 b1 b2 b3 b4 lpv k1 k2 sv lv lnv lossv) in EH.
  assert (OW : rules_own (h ++ nodes) /\ wf_heap (h ++ nodes)) by (apply ce_own_wf; assumption).
  unfold ce_nodes in nodes.
  set (H := h ++ nodes) in *. subst h1. destruct OW as [HoH HwH].
  assert (VHp : valOf H p = Some pv) by (unfold H; rewrite valOf_app by exact Hp; exact Vp).
  assert (THp : trackedOf H p = true) by (unfold H; rewrite trackedOf_app by exact Hp; exact Tp).
  assert (GHp : gradOf H p = g0) by (unfold H; rewrite gradOf_old by exact Hp; exact Eg0).
  assert (LH : length H = (length h + 17)%nat) by (unfold H; rewrite app_length; reflexivity).
  node_edges h nodes H 5%nat E5. node_edges h nodes H 6%nat E6. node_edges h nodes H 7%nat E7.
  node_edges h nodes H 8%nat E8. node_edges h nodes H 9%nat E9. node_edges h nodes H 10%nat E10.
  node_edges h nodes H 12%nat E12. node_edges h nodes H 13%nat E13. node_edges h nodes H 14%nat E14.
  node_edges h nodes H 15%nat E15. node_edges h nodes H 16%nat E16.
  node_tracked h nodes H 5%nat T5. node_tracked h nodes H 6%nat T6. node_tracked h nodes H 7%nat T7.
  node_tracked h nodes H 8%nat T8. node_tracked h nodes H 9%nat T9. node_tracked h nodes H 10%nat T10.
  node_tracked h nodes H 11%nat T11. node_tracked h nodes H 12%nat T12. node_tracked h nodes H 13%nat T13.
  node_tracked h nodes H 14%nat T14. node_tracked h nodes H 15%nat T15. node_tracked h nodes H 16%nat T16.
  node_val h nodes H 5%nat V5. node_val h nodes H 6%nat V6. node_val h nodes H 7%nat V7.
  node_val h nodes H 8%nat V8. node_val h nodes H 9%nat V9. node_val h nodes H 10%nat V10.
  node_val h nodes H 11%nat V11. node_val h nodes H 12%nat V12. node_val h nodes H 13%nat V13.
  node_val h nodes H 14%nat V14. node_val h nodes H 15%nat V15. node_val h nodes H 16%nat V16.
  (* the processing order *)
  assert (Hord : exists rest, topoOrder H (length h + 16) =
      [length h + 16; length h + 15; length h + 14; length h + 13; length h + 12; length h + 10; length h + 9;
       length h + 8; length h + 7; length h + 6; length h + 5]%nat ++ p :: rest /\
      (forall x, In x rest -> (x < p)%nat) /\ (edgesOf H p = [] -> rest = [])).
  { clear - E5 E6 E7 E8 E9 E10 E12 E13 E14 E15 E16 T5 T6 T7 T8 T9 T10 T11 T12 T13 T14 T15 T16 THp Hp HwH. unfold topoOrder.
    rewrite dfs_t; [|blia|exact T16|reflexivity]. rewrite E16. cbn [fold_left fst snd].
    rewrite dfs_t; [|blia|exact T15|memb_dec Hp]. rewrite E15. cbn [fold_left fst snd].
    rewrite dfs_t; [|blia|exact T14|memb_dec Hp]. rewrite E14. cbn [fold_left fst snd].
    rewrite dfs_t; [|blia|exact T13|memb_dec Hp]. rewrite E13. cbn [fold_left fst snd].
    rewrite (dfs_u H _ (length h + 11)%nat) by exact T11.
    rewrite dfs_t; [|blia|exact T12|memb_dec Hp]. rewrite E12. cbn [fold_left fst snd].
    rewrite dfs_t; [|blia|exact T10|memb_dec Hp]. rewrite E10. cbn [fold_left fst snd].
    rewrite dfs_t; [|blia|exact T9|memb_dec Hp]. rewrite E9. cbn [fold_left fst snd].
    rewrite dfs_t; [|blia|exact T6|memb_dec Hp]. rewrite E6. cbn [fold_left fst snd].
    rewrite dfs_t; [|blia|exact T5|memb_dec Hp]. rewrite E5. cbn [fold_left fst snd].
    match goal with |- context [dfs ?f H p (?V, ?R)] =>
      destruct (dfs_cut H HwH f p V R) as (nv & rest & Ecut & Bnv & Inv & Brest & Hleaf);
        [blia|exact THp|memb_dec Hp|rewrite Ecut] end.
    rewrite !post_pair.
    rewrite dfs_t; [|blia|exact T8|rewrite (memb_app_gt nv _ p) by (try exact Bnv; blia); memb_dec Hp].
    rewrite E8. cbn [fold_left fst snd].
    rewrite (dfs_v H _ p); [|cbn [fst]; rewrite memb_cons, (memb_app_in nv _ p Inv); apply orb_true_r].
    rewrite dfs_t; [|blia|exact T7|rewrite memb_cons, (memb_app_gt nv _ p) by (try exact Bnv; blia); memb_dec Hp].
    rewrite E7. cbn [fold_left fst snd].
    rewrite (dfs_v H _ (length h + 5)%nat);
      [|cbn [fst]; rewrite !memb_cons, (memb_app_gt nv _ p) by (try exact Bnv; blia); memb_dec Hp].
    rewrite !post_pair. cbn [snd app]. exists rest. rewrite app_nil_r. split; [reflexivity|]. split; [exact Brest|exact Hleaf]. }
  destruct Hord as (rest & Eord & Brest & Hleaf).
  (* the seed *)
  destruct (un_elt thr draw (UPow (sconst 0 0)) lossv Wls) as (ones & Eones & Dones & Wones & Gones).
  assert (Tones : isT (Dm H (length h + 16)) (fun _ => 1) ones).
  { unfold Dm. rewrite V16, Dls. split; [congruence|]. split; [exact Wones|]. intros idx Hv.
    rewrite Gones by (rewrite Dls; exact Hv). rewrite uF_pow, sconst_R, dec2R_0. apply Rpow_0. }
  assert (GH16 : gradOf H (length h + 16) = None).
  { unfold H. apply gradOf_ext_none; [|blia]. unfold nodes. repeat constructor. }
  rewrite (bp_topo_split rd H (length h + 16) _ _ lossv ones T16 Eord V16 Eones GH16).
  set (pre := [(length h + 16)%nat; (length h + 15)%nat; (length h + 14)%nat; (length h + 13)%nat; (length h + 12)%nat;
               (length h + 10)%nat; (length h + 9)%nat; (length h + 8)%nat; (length h + 7)%nat; (length h + 6)%nat;
               (length h + 5)%nat]) in *.
  set (order := pre ++ p :: rest).
  set (hh0 := setGrad (markDirty H order) (length h + 16) (Some ones)).
  assert (HS0 : sameS H hh0).
  { eapply sameS_trans; [apply sameS_markDirty|apply sameS_setGrad]. }
  set (dom := fun j : nat => (length h <= j)%nat \/ j = p).
  set (s0 := (fun j => if (j =? length h + 16)%nat then Some (fun _ : list nat => 1)
                       else if (j =? p)%nat then option_map elt g0 else None) : astate).
  assert (HM0 : models H dom hh0 s0).
  { intros j Hj. unfold s0, hh0. rewrite gradOf_setGrad, gradOf_markDirty.
    destruct (j =? length h + 16)%nat eqn:Ej.
    - rewrite length_markDirty, LH. assert (X : (length h + 16 <? length h + 17)%nat = true) by (apply Nat.ltb_lt; blia).
      rewrite X. exists ones. apply Nat.eqb_eq in Ej. subst j. split; [reflexivity|exact Tones].
    - destruct (j =? p)%nat eqn:Ejp.
      + apply Nat.eqb_eq in Ejp. subst j. rewrite GHp. destruct g0 as [g|]; cbn [option_map]; [|reflexivity].
        exists g. split; [reflexivity|]. destruct Hprior as [Wg Dg]. unfold Dm. rewrite VHp, <- Dg. apply isT_self, Wg.
      + apply Nat.eqb_neq in Ejp. destruct Hj as [Hj|Hj]; [|contradiction].
        unfold H. apply gradOf_ext_none; [|exact Hj]. unfold nodes. repeat constructor. }
  (* shapes *)
  assert (D5 : Dm H (length h + 5) = [N; C]) by (unfold Dm; rewrite V5; exact (proj1 Tb0)).
  assert (D6 : Dm H (length h + 6) = [N; C]) by (unfold Dm; rewrite V6; exact (proj1 Tb1)).
  assert (D7 : Dm H (length h + 7) = [N; C]) by (unfold Dm; rewrite V7; exact (proj1 Tb2)).
  assert (D8 : Dm H (length h + 8) = [N; C]) by (unfold Dm; rewrite V8; exact (proj1 Tb3)).
  assert (D9 : Dm H (length h + 9) = [N; C]) by (unfold Dm; rewrite V9; exact (proj1 Tb4)).
  assert (D10 : Dm H (length h + 10) = [N; C]) by (unfold Dm; rewrite V10; exact (proj1 Tlp)).
  assert (D11 : Dm H (length h + 11) = [N; C]) by (unfold Dm; rewrite V11; exact (proj1 Tk1)).
  assert (D12 : Dm H (length h + 12) = [N; C]) by (unfold Dm; rewrite V12; exact (proj1 Tk2)).
  assert (D13 : Dm H (length h + 13) = [N; C]) by (unfold Dm; rewrite V13; exact (proj1 Ts)).
  assert (D14 : Dm H (length h + 14) = [N]) by (unfold Dm; rewrite V14; exact (proj1 Tl)).
  assert (D15 : Dm H (length h + 15) = [N]) by (unfold Dm; rewrite V15; exact (proj1 Tln)).
  assert (D16 : Dm H (length h + 16) = []) by (unfold Dm; rewrite V16; exact Dls).
  assert (DP : Dm H p = [N; C]) by (unfold Dm; rewrite VHp; exact Edp).
  assert (O5 : okv H (length h + 5)) by (exists b0; split; [exact V5|exact (proj1 (proj2 Tb0))]).
  assert (O6 : okv H (length h + 6)) by (exists b1; split; [exact V6|exact (proj1 (proj2 Tb1))]).
  assert (O7 : okv H (length h + 7)) by (exists b2; split; [exact V7|exact (proj1 (proj2 Tb2))]).
  assert (O8 : okv H (length h + 8)) by (exists b3; split; [exact V8|exact (proj1 (proj2 Tb3))]).
  assert (O9 : okv H (length h + 9)) by (exists b4; split; [exact V9|exact (proj1 (proj2 Tb4))]).
  assert (O10 : okv H (length h + 10)) by (exists lpv; split; [exact V10|exact (proj1 (proj2 Tlp))]).
  assert (O11 : okv H (length h + 11)) by (exists k1; split; [exact V11|exact (proj1 (proj2 Tk1))]).
  assert (O12 : okv H (length h + 12)) by (exists k2; split; [exact V12|exact (proj1 (proj2 Tk2))]).
  assert (O13 : okv H (length h + 13)) by (exists sv; split; [exact V13|exact (proj1 (proj2 Ts))]).
  assert (O15 : okv H (length h + 15)) by (exists lnv; split; [exact V15|exact (proj1 (proj2 Tln))]).
  assert (OP : okv H p) by (exists pv; split; [exact VHp|exact Wp]).
  destruct (fold_abs thr draw rd H dom HoH HwH pre hh0 [] s0 HS0 HM0) as (hm & logm & Ef & HSm & HMm & Hfr).
  { intros c Hc. split; [|split].
    - left. unfold pre in Hc. repeat (destruct Hc as [<-|Hc]; [apply Nat.le_add_r|]). destruct Hc.
    - rewrite LH. unfold pre in Hc. repeat (destruct Hc as [<-|Hc]; [blia|]). destruct Hc.
    - intros e He Ht'. unfold pre in Hc.
      destruct Hc as [<-|[<-|[<-|[<-|[<-|[<-|[<-|[<-|[<-|[<-|[<-|[]]]]]]]]]]]].
      + rewrite E16 in He. destruct He as [<-|[]]. cbn [fst snd rok]. split; [left; apply Nat.le_add_r|].
        split; [reflexivity|]. split; [exact O15|]. exists 0%nat. rewrite D15, D16.
        split; [reflexivity|]. split; [cbn [length]; apply Nat.lt_0_succ|reflexivity].
      + rewrite E15 in He. destruct He as [<-|[]]. cbn [fst snd rok]. split; [left; apply Nat.le_add_r|]. congruence.
      + rewrite E14 in He. destruct He as [<-|[]]. cbn [fst snd rok]. split; [left; apply Nat.le_add_r|].
        split; [reflexivity|]. split; [exact O13|]. exists 1%nat. rewrite D13, D14.
        split; [reflexivity|]. split; [cbn [length]; blia|reflexivity].
      + rewrite E13 in He. destruct He as [<-|[<-|[]]]; cbn [fst snd rok] in *; [congruence|].
        split; [left; apply Nat.le_add_r|]. split; [congruence|]. split; [congruence|exact O11].
      + rewrite E12 in He. destruct He as [<-|[]]. cbn [fst snd rok]. split; [left; apply Nat.le_add_r|].
        split; [reflexivity|]. split; [congruence|]. split; [exact O12|exact O10].
      + rewrite E10 in He. destruct He as [<-|[]]. cbn [fst snd rok]. split; [left; apply Nat.le_add_r|].
        split; [reflexivity|]. split; [congruence|exact O9].
      + rewrite E9 in He. destruct He as [<-|[<-|[]]]; cbn [fst snd rok]; (split; [left; apply Nat.le_add_r|]);
          (split; [reflexivity|]); (split; [congruence|]); (split; [congruence|]); (split; [exact O9|]); split; assumption.
      + rewrite E8 in He. destruct He as [<-|[<-|[]]]; cbn [fst snd rok].
        * split; [right; reflexivity|]. split; [reflexivity|]. split; [congruence|]. split; [congruence|].
          split; [exact O8|]. split; assumption.
        * split; [left; apply Nat.le_add_r|]. split; [reflexivity|]. split; [congruence|]. split; [congruence|].
          split; [exact O8|]. split; assumption.
      + rewrite E7 in He. destruct He as [<-|[]]. cbn [fst snd rok]. split; [left; apply Nat.le_add_r|]. congruence.
      + rewrite E6 in He. destruct He as [<-|[]]. cbn [fst snd rok]. split; [left; apply Nat.le_add_r|]. congruence.
      + rewrite E5 in He. destruct He as [<-|[]]. cbn [fst snd rok]. split; [right; reflexivity|].
        split; [reflexivity|]. split; [congruence|exact OP]. }
  (* the gradient of the prediction *)
  assert (S016 : s0 (length h + 16)%nat = Some (fun _ => 1)) by (unfold s0; rewrite Nat.eqb_refl; reflexivity).
  assert (S0k : forall k, (k <? 16)%nat = true -> s0 (length h + k)%nat = None).
  { intros k Hk. unfold s0. rewrite eqb_off, (eqb_off_lt _ _ _ Hp).
    apply Nat.ltb_lt in Hk. assert (X : (k =? 16)%nat = false) by (apply Nat.eqb_neq; blia). rewrite X. reflexivity. }
  pose proof (S0k 15%nat eq_refl) as S015. pose proof (S0k 14%nat eq_refl) as S014. pose proof (S0k 13%nat eq_refl) as S013.
  pose proof (S0k 12%nat eq_refl) as S012. pose proof (S0k 10%nat eq_refl) as S010. pose proof (S0k 9%nat eq_refl) as S09.
  pose proof (S0k 8%nat eq_refl) as S08. pose proof (S0k 7%nat eq_refl) as S07. pose proof (S0k 6%nat eq_refl) as S06.
  pose proof (S0k 5%nat eq_refl) as S05. clear S0k.
  assert (S0p : s0 p = option_map elt g0) by (unfold s0; rewrite (eqb_lt_off _ _ _ Hp), Nat.eqb_refl; reflexivity).
  assert (Fin : exists f, fold_left (anode thr H) pre s0 p = Some f /\
           forall idx, validIdx [N; C] idx -> f idx = prior g0 idx + ceD N (elt pv idx) (elt tv idx)).
  { clear HMm HM0. clearbody s0. unfold pre. cbn [fold_left]. do 11 anode_step Hp. aq Hp. s0q.
    eexists. split; [reflexivity|]. intros idx Hv.
    assert (EV11 : Vl H (length h + 11) idx = Rmax 0 (Rmin (elt tv idx) 1)).
    { unfold Vl. rewrite V11. exact (proj2 (proj2 Tk1) idx Hv). }
    assert (EV9 : Vl H (length h + 9) idx = Rmax eps (Rmin (elt pv idx) ome)).
    { unfold Vl. rewrite V9. exact (proj2 (proj2 Tb4) idx Hv). }
    assert (EV8 : Vl H (length h + 8) idx = Rmin (elt pv idx) ome).
    { unfold Vl. rewrite V8. exact (proj2 (proj2 Tb3) idx Hv). }
    assert (EV7 : Vl H (length h + 7) idx = ome).
    { unfold Vl. rewrite V7. exact (proj2 (proj2 Tb2) idx Hv). }
    assert (EV6 : Vl H (length h + 6) idx = eps).
    { unfold Vl. rewrite V6. exact (proj2 (proj2 Tb1) idx Hv). }
    assert (EVp : Vl H p idx = elt pv idx).
    { unfold Vl. rewrite VHp. reflexivity. }
    unfold ceD.
    destruct g0 as [gp|]; cbn [option_map prior rsem]; rewrite D15, EV11, EV9, EV8, EV7, EV6, EVp, cst_R, dec2R_m1;
      change (Z.to_nat 0) with 0%nat; cbn [nth]; unfold Rdiv; ring. }
  destruct Fin as (f & Ef' & Hf). specialize (HMm p (or_intror eq_refl)). rewrite Ef' in HMm.
  destruct HMm as (g & Eg & Tg). rewrite DP in Tg.
  rewrite Ef. exists hm, logm, rest, g. split; [reflexivity|]. split; [exact Brest|]. split.
  { intros Hl. apply Hleaf. unfold H. rewrite edgesOf_old by exact Hp. exact Hl. }
  split; [exact HSm|]. split; [exact HwH|]. split; [unfold H; rewrite trackedOf_app by exact Ht; exact Tt|].
  split; [unfold H; apply edgesOf_old; exact Hp|].
  split; [exact Eg|]. split; [rewrite Edp; exact (proj1 Tg)|]. split; [exact (proj1 (proj2 Tg))|]. split.
  { apply (acc1_final thr draw g0 [N; C] _ f g); [rewrite <- Edp; exact Hprior|repeat constructor; assumption|exact Tg|exact Hf]. }
  split; [|intros j Hj; unfold H; apply gradOf_old; exact Hj].
  intros j Hj Hjp. rewrite Hfr by (unfold dom; blia). unfold hh0. rewrite gradOf_setGrad, gradOf_markDirty.
  assert (X : (j =? length h + 16)%nat = false) by (apply Nat.eqb_neq; blia). rewrite X.
  unfold H. apply gradOf_old. exact Hj.
Qed.

(* C13, CE.  Whatever the outcome of the back-propagation below the prediction (p may be a leaf or
   the result of earlier tracked operations: NO hypothesis restricts the back edges of p), the
   prediction ends with its previous gradient accumulated with the tensor ceG, which has the
   prediction's shape; the untracked target receives nothing and no value changes. *)
Theorem ce_grad rd (h : heap) p t name pv tv g0 h1 l :
  rules_own h -> wf_heap h ->
  valOf h p = Some pv -> wf pv -> valOf h t = Some tv -> wf tv ->
  trackedOf h p = true -> dirtyOf h p = false -> trackedOf h t = false -> dirtyOf h t = false ->
  ceArgs h (Some p) (Some t) = Some (p, t) ->
  gradOf h p = g0 -> prior_ok (dims pv) g0 ->
  ce_compute eps ome h (Some p) (Some t) name = (h1, Ok l) ->
  forall h2 log r, bp_topo rd idseal h1 l = (h2, log, r) ->
    (exists g, gradOf h2 p = Some g /\ dims g = dims pv /\ wf g /\ acc1 g0 (ceG pv tv) = Some (Some g)) /\
    gradOf h2 t = gradOf h1 t /\
    (forall i, valOf h2 i = valOf h1 i).
Proof.
  intros Ho Hw Vp Wp Vt Wt Tp Dp Tt Dt Ea Eg0 Hprior E h2 log r E2.
  destruct (ce_bp rd h p t name pv tv g0 h1 l Ho Hw Vp Wp Vt Wt Tp Dp Tt Dt Ea Eg0 Hprior E)
    as (hm & logm & rest & g & Esp & Brest & _ & HSm & W1 & Tt1 & _ & Eg & Dg & Wg & Hacc & Hfr & Hold).
  assert (Ht : (t < length h)%nat) by (eapply valOf_some_lt; eauto).
  assert (Hpt : t <> p) by (intros X; subst t; congruence).
  destruct (split_any rd h1 l p rest hm logm p W1 HSm Esp Brest (or_introl eq_refl) h2 log r E2) as [HS2 Hgp].
  destruct (split_any rd h1 l p rest hm logm t W1 HSm Esp Brest (or_intror Tt1) h2 log r E2) as [_ Hgt].
  split; [exists g; rewrite Hgp; auto|]. split.
  - rewrite Hgt, (Hfr t Ht Hpt), (Hold t Ht). reflexivity.
  - intros i. symmetry. apply (sameS_val _ _ HS2).
Qed.

(* the same statement read for an interior prediction: it IS the same theorem *)
Definition ce_grad_interior := ce_grad.

(* the shape of the gradient tensor is the prediction's *)
Lemma ceG_dims (h : heap) p t pv tv :
  ceArgs h (Some p) (Some t) = Some (p, t) -> valOf h p = Some pv -> valOf h t = Some tv ->
  dims (ceG pv tv) = dims pv.
Proof.
  intros Ea Vp Vt. destruct (ceArgs_dims h p t pv tv Ea Vp Vt) as (N & C & Edp & _).
  unfold ceG. rewrite Edp. reflexivity.
Qed.

(* never fails: a leaf prediction *)
Theorem ce_grad_leaf rd (h : heap) p t name pv tv g0 h1 l :
  rules_own h -> wf_heap h ->
  valOf h p = Some pv -> wf pv -> valOf h t = Some tv -> wf tv ->
  trackedOf h p = true -> dirtyOf h p = false -> trackedOf h t = false -> dirtyOf h t = false ->
  ceArgs h (Some p) (Some t) = Some (p, t) ->
  gradOf h p = g0 -> prior_ok (dims pv) g0 ->
  ce_compute eps ome h (Some p) (Some t) name = (h1, Ok l) ->
  edgesOf h p = [] ->
  exists h2 log, bp_topo rd idseal h1 l = (h2, log, Ok tt) /\
    (exists g, gradOf h2 p = Some g /\ dims g = dims pv /\ wf g /\ acc1 g0 (ceG pv tv) = Some (Some g)) /\
    gradOf h2 t = gradOf h1 t /\
    (forall i, valOf h2 i = valOf h1 i).
Proof.
  intros Ho Hw Vp Wp Vt Wt Tp Dp Tt Dt Ea Eg0 Hprior E Hleaf.
  destruct (ce_bp rd h p t name pv tv g0 h1 l Ho Hw Vp Wp Vt Wt Tp Dp Tt Dt Ea Eg0 Hprior E)
    as (hm & logm & rest & g & Esp & _ & Hrest & HSm & _ & _ & Hed & Eg & _).
  rewrite (Hrest Hleaf) in Esp. rewrite (split_leaf rd h1 p hm logm g HSm) in Esp; [|congruence|exact Eg].
  eexists _, _. split; [exact Esp|].
  exact (ce_grad rd h p t name pv tv g0 h1 l Ho Hw Vp Wp Vt Wt Tp Dp Tt Dt Ea Eg0 Hprior E _ _ _ Esp).
Qed.

(* an untracked prediction: the loss is untracked and back-propagation changes nothing *)
Theorem ce_grad_untracked rd sealg (h : heap) p t name pv tv h1 l :
  valOf h p = Some pv -> valOf h t = Some tv ->
  trackedOf h p = false -> dirtyOf h p = false -> trackedOf h t = false -> dirtyOf h t = false ->
  ceArgs h (Some p) (Some t) = Some (p, t) ->
  ce_compute eps ome h (Some p) (Some t) name = (h1, Ok l) ->
  bp_topo rd sealg h1 l = (h1, [], Ok tt).
Proof.
  intros Vp Vt Tp Dp Tt Dt Ea E.
  destruct (ce_structure eps ome h p t name h1 l false pv tv Vp Vt Tp Dp Tt Dt Ea E)
    as (a0 & a1 & a2 & a3 & a4 & b0 & b1 & b2 & b3 & b4 & lpv & k1 & k2 & sv & lv & lnv & lossv & _ & -> & ->).
  apply bp_topo_untracked. rewrite trackedOf_off. reflexivity.
Qed.

(* ------------------------------------------------------------------------------------ *)
(* the analytic reading of ceD                                                           *)
(* ------------------------------------------------------------------------------------ *)
Definition clip01 (t : R) : R := Rmax 0 (Rmin t 1).

Lemma clip01_id t : 0 <= t <= 1 -> clip01 t = t.
Proof. intros [H0 H1]. unfold clip01. rewrite Rmin_left by exact H1. apply Rmax_right, H0. Qed.

Lemma clip01_range t : 0 <= clip01 t <= 1.
Proof.
  unfold clip01. split; [apply Rmax_l|]. apply Rmax_lub; [lra|apply Rmin_r].
Qed.

Lemma ce_eqt_gt a b : 0 <= thr -> thr < a - b -> eqt thr a b = 0 /\ eqt thr b a = 0.
Proof.
  intros Ht Hl. split; apply eqt_far.
  - rewrite Rabs_pos_eq; lra.
  - rewrite Rabs_minus_sym, Rabs_pos_eq; lra.
Qed.

(* strictly inside the clipping interval (beyond the equality threshold): -(t'/p)/N *)
Lemma ceD_inside N p t : 0 <= thr -> 0 < eps -> eps + thr < p -> p < ome - thr ->
  ceD N p t = - (clip01 t / p) / INR N.
Proof.
  intros Ht He Hl Hu. unfold ceD. fold (clip01 t).
  rewrite (Rmin_left p ome) by lra. rewrite (Rmax_right eps p) by lra.
  rewrite (eqt_same thr p Ht).
  destruct (ce_eqt_gt p eps Ht ltac:(lra)) as [X1 _]. destruct (ce_eqt_gt ome p Ht ltac:(lra)) as [_ X2].
  rewrite X1, X2. unfold Rdiv. ring.
Qed.

(* clipped from below (p < eps, in particular p = 0): a finite zero *)
Lemma ceD_below N p t : 0 <= thr -> eps < ome -> p < eps - thr -> ceD N p t = 0.
Proof.
  intros Ht He Hl. unfold ceD.
  rewrite (Rmin_left p ome) by lra. rewrite (Rmax_left eps p) by lra.
  destruct (ce_eqt_gt eps p Ht ltac:(lra)) as [X1 X2]. rewrite X1, X2. ring.
Qed.

(* clipped from above (p > 1 - eps, in particular p = 1): a finite zero *)
Lemma ceD_above N p t : 0 <= thr -> eps < ome -> ome + thr < p -> ceD N p t = 0.
Proof.
  intros Ht He Hl. unfold ceD.
  rewrite (Rmin_right p ome) by lra.
  destruct (ce_eqt_gt p ome Ht ltac:(lra)) as [X1 X2]. rewrite X1, X2. ring.
Qed.

(* C13, the formula.  In Go eps = 1e-12, ome = 1 - 1e-12 and the equality threshold thr is 1e-240;
   at thr = 0 the guards are exactly  eps < p < ome,  p < eps,  p > ome. *)
Theorem ce_grad_formula (pv tv : T) N C idx :
  0 <= thr -> 0 < eps -> eps < ome -> ome < 1 ->
  dims pv = [N; C] -> validIdx [N; C] idx ->
  let p := elt pv idx in let t := elt tv idx in
  dims (ceG pv tv) = [N; C] /\ wf (ceG pv tv) /\
  (eps + thr < p -> p < ome - thr -> elt (ceG pv tv) idx = - (clip01 t / p) / INR N) /\
  (eps + thr < p -> p < ome - thr -> 0 <= t <= 1 -> elt (ceG pv tv) idx = - (t / p) / INR N) /\
  (p < eps - thr -> elt (ceG pv tv) idx = 0) /\
  (ome + thr < p -> elt (ceG pv tv) idx = 0) /\
  (thr < eps -> p = 0 -> elt (ceG pv tv) idx = 0) /\
  (ome + thr < 1 -> p = 1 -> elt (ceG pv tv) idx = 0).
Proof.
  intros Ht He Heo Ho Edp Hv p t. unfold ceG. rewrite Edp. cbn [nth].
  assert (Hpos : List.Forall (fun d : nat => (0 < d)%nat) [N; C]).
  { clear - Hv. inversion Hv as [|i0 n0 l1 l2 H1 H2]; subst. inversion H2 as [|i1 n1 l3 l4 H3 H4]; subst.
    repeat constructor; lia. }
  split; [reflexivity|]. split; [apply ofFun_wf, Hpos|].
  rewrite (elt_ofFun _ _ _ Hv). fold p t.
  split; [intros Hl Hu; apply ceD_inside; assumption|].
  split; [intros Hl Hu Ht01; rewrite <- (clip01_id t Ht01) at 2; apply ceD_inside; assumption|].
  split; [intros Hl; apply ceD_below; assumption|].
  split; [intros Hu; apply ceD_above; assumption|].
  split; [intros Hte Hp0; apply ceD_below; [assumption|assumption|lra]|].
  intros Hte Hp1; apply ceD_above; [assumption|assumption|lra].
Qed.

Lemma ce_acc1_elt ds (o : option T) (G g : T) : prior_ok ds o -> wf G -> dims G = ds -> acc1 o G = Some (Some g) ->
  forall idx, validIdx ds idx -> elt g idx = prior o idx + elt G idx.
Proof.
  intros Hp WG DG Ha idx Hv. destruct o as [gp|]; cbn [acc1 prior] in *.
  - destruct Hp as [Wp Dp].
    destruct (ar_elt thr draw BiAdd gp G Wp WG ltac:(congruence)) as (s & Es & _ & _ & Gs).
    rewrite Es in Ha. assert (s = g) by congruence. subst s.
    rewrite Gs by (rewrite Dp; exact Hv). reflexivity.
  - assert (G = g) by congruence. subst g. ring.
Qed.

(* C13, CE, end to end: ce_grad and ce_grad_formula combined, element by element *)
Theorem ce_grad_elementwise rd (h : heap) p t name pv tv g0 h1 l N C :
  0 <= thr -> 0 < eps -> eps < ome -> ome < 1 ->
  rules_own h -> wf_heap h ->
  valOf h p = Some pv -> wf pv -> valOf h t = Some tv -> wf tv ->
  trackedOf h p = true -> dirtyOf h p = false -> trackedOf h t = false -> dirtyOf h t = false ->
  ceArgs h (Some p) (Some t) = Some (p, t) ->
  gradOf h p = g0 -> prior_ok (dims pv) g0 ->
  ce_compute eps ome h (Some p) (Some t) name = (h1, Ok l) ->
  dims pv = [N; C] ->
  forall h2 log r, bp_topo rd idseal h1 l = (h2, log, r) ->
    exists g, gradOf h2 p = Some g /\ dims g = [N; C] /\ wf g /\
      forall idx, validIdx [N; C] idx ->
        let pe := elt pv idx in let te := elt tv idx in
        (eps + thr < pe -> pe < ome - thr -> elt g idx = prior g0 idx + - (clip01 te / pe) / INR N) /\
        (eps + thr < pe -> pe < ome - thr -> 0 <= te <= 1 -> elt g idx = prior g0 idx + - (te / pe) / INR N) /\
        (pe < eps - thr \/ ome + thr < pe -> elt g idx = prior g0 idx) /\
        (thr < eps /\ pe = 0 \/ ome + thr < 1 /\ pe = 1 -> elt g idx = prior g0 idx).
Proof.
  intros Hthr He Heo Ho1 Ho Hw Vp Wp Vt Wt Tp Dp Tt Dt Ea Eg0 Hprior E Edp h2 log r E2.
  destruct (ce_grad rd h p t name pv tv g0 h1 l Ho Hw Vp Wp Vt Wt Tp Dp Tt Dt Ea Eg0 Hprior E h2 log r E2)
    as ((g & Eg & Dg & Wg & Hacc) & _ & _).
  exists g. split; [exact Eg|]. split; [congruence|]. split; [exact Wg|]. intros idx Hv pe te.
  destruct (ce_grad_formula pv tv N C idx Hthr He Heo Ho1 Edp Hv) as (DG & WG & F1 & F2 & F3 & F4 & F5 & F6).
  fold pe te in F1, F2, F3, F4, F5, F6.
  rewrite Edp in Hprior.
  pose proof (ce_acc1_elt [N; C] g0 (ceG pv tv) g Hprior WG DG Hacc idx Hv) as Hel.
  split; [intros Hl Hu; rewrite Hel, F1 by assumption; reflexivity|].
  split; [intros Hl Hu Ht; rewrite Hel, F2 by assumption; reflexivity|].
  split; [intros [Hl|Hu]; rewrite Hel; [rewrite F3 by exact Hl|rewrite F4 by exact Hu]; ring|].
  intros [[Hte H0]|[Hte H1']]; rewrite Hel; [rewrite F5 by assumption|rewrite F6 by assumption]; ring.
Qed.

(* the recorded near-tie finding (D10 again): a prediction inside the interval but within the
   equality threshold of eps receives HALF the gradient; excluded by the guards above (at thr = 0
   the band is empty) *)
Lemma ceD_near_eps N p t : 0 <= thr -> 0 < eps -> eps < p -> p <= eps + thr -> p < ome - thr ->
  ceD N p t = / 2 * (- (clip01 t / p) / INR N).
Proof.
  intros Ht He Hl Hn Hu. unfold ceD. fold (clip01 t).
  rewrite (Rmin_left p ome) by lra. rewrite (Rmax_right eps p) by lra.
  rewrite (eqt_same thr p Ht).
  assert (X1 : eqt thr p eps = 1) by (apply eqt_near; rewrite Rabs_pos_eq; lra).
  destruct (ce_eqt_gt ome p Ht ltac:(lra)) as [_ X2].
  rewrite X1, X2. replace (1 - / 2 * 1) with (/ 2) by lra. unfold Rdiv. ring.
Qed.

End Ce.

(* the exact-threshold reading (thr = 0): the guards are the property's *)
Corollary ce_grad_formula_thr0 (eps ome : R) (pv tv : tensor R) N C idx :
  0 < eps -> eps < ome -> ome < 1 -> dims pv = [N; C] -> validIdx [N; C] idx ->
  let p := elt pv idx in let t := elt tv idx in
  (eps < p -> p < ome -> elt (ceG 0 eps ome pv tv) idx = - (clip01 t / p) / INR N) /\
  (eps < p -> p < ome -> 0 <= t <= 1 -> elt (ceG 0 eps ome pv tv) idx = - (t / p) / INR N) /\
  (p < eps \/ ome < p -> elt (ceG 0 eps ome pv tv) idx = 0) /\
  (p = 0 \/ p = 1 -> elt (ceG 0 eps ome pv tv) idx = 0).
Proof.
  intros He Heo Ho Edp Hv p t.
  destruct (ce_grad_formula 0 eps ome pv tv N C idx (Rle_refl 0) He Heo Ho Edp Hv)
    as (_ & _ & F1 & F2 & F3 & F4 & F5 & F6). fold p t in F1, F2, F3, F4, F5, F6.
  split; [intros Hl Hu; apply F1; lra|]. split; [intros Hl Hu Ht; apply F2; [lra|lra|exact Ht]|].
  split; [intros [Hl|Hu]; [apply F3; lra|apply F4; lra]|].
  intros [H0|H1]; [apply F5; [lra|exact H0]|apply F6; [lra|exact H1]].
Qed.

(* ---- non-vacuity: a leaf prediction [[1/2; 0]; [1; 1/2]], targets all 1, eps = 1/4, 1-eps = 3/4, exact
   equality (thr = 0): gradient [[-1; 0]; [0; -1]] (zero at the clipped predictions 0 and 1) ---- *)
Section CeEx.
Variable draw : bool -> nat -> R.
Local Hint Extern 0 (Scalar R) => exact (R_scalar 0 draw) : typeclass_instances.
Local Open Scope R_scope.

Definition cexP : tensor R := mkT [2%nat; 2%nat] (Vec [Vec [Sc (1 / 2); Sc 0]; Vec [Sc 1; Sc (1 / 2)]]).
Definition cexT : tensor R := mkT [2%nat; 2%nat] (Vec [Vec [Sc 1; Sc 1]; Vec [Sc 1; Sc 1]]).
Definition cexH : @heap R :=
  [mkNode cexP true false None [] (Some 0%nat); mkNode cexT false false None [] (Some 1%nat)].

Lemma wf_m22 (a b c d : R) : wf (mkT [2%nat; 2%nat] (Vec [Vec [Sc a; Sc b]; Vec [Sc c; Sc d]])).
Proof. split; [cbn; repeat constructor|repeat constructor]. Qed.

Example ce_grad_ex rd : exists h1 l h2 log g,
  ce_compute (1 / 4) (3 / 4) cexH (Some 0%nat) (Some 1%nat) None = (h1, Ok l) /\
  bp_topo rd (fun _ g => g) h1 l = (h2, log, Ok tt) /\
  gradOf h2 0 = Some g /\ dims g = [2%nat; 2%nat] /\
  elt g [0%nat; 0%nat] = -1 /\ elt g [0%nat; 1%nat] = 0 /\ elt g [1%nat; 0%nat] = 0 /\ elt g [1%nat; 1%nat] = -1.
Proof.
  assert (Ho : rules_own cexH) by (intros c n e Hn He; destruct c as [|[|[|c]]]; cbn in Hn; try discriminate; inversion Hn; subst n; destruct He).
  assert (Hw : wf_heap cexH) by (intros c n e Hn He; destruct c as [|[|[|c]]]; cbn in Hn; try discriminate; inversion Hn; subst n; destruct He).
  destruct (ce_compute_spec (1 / 4) (3 / 4) cexH (Some 0%nat) (Some 1%nat) 0%nat 1%nat None cexP cexT 2 2
              (fun i j => elt cexP [i; j]) (fun i j => elt cexT [i; j]) eq_refl eq_refl eq_refl
              (wf_m22 _ _ _ _) (wf_m22 _ _ _ _) eq_refl) as (r & (h1 & l & E & _) & _).
  { intros i j Hi Hj. destruct i as [|[|i]]; [| |lia]; (destruct j as [|[|j]]; [reflexivity|reflexivity|lia]). }
  { intros i j Hi Hj. destruct i as [|[|i]]; [| |lia]; (destruct j as [|[|j]]; [reflexivity|reflexivity|lia]). }
  destruct (ce_grad_leaf 0 draw (1 / 4) (3 / 4) rd cexH 0%nat 1%nat None cexP cexT None h1 l Ho Hw eq_refl (wf_m22 _ _ _ _)
              eq_refl (wf_m22 _ _ _ _) eq_refl eq_refl eq_refl eq_refl eq_refl eq_refl I E eq_refl)
    as (h2 & log & E2 & (g & Eg & Dg & _ & Hacc) & _).
  exists h1, l, h2, log, g. split; [exact E|]. split; [exact E2|]. split; [exact Eg|]. split; [exact Dg|].
  cbn [acc1] in Hacc. assert (g = ceG 0 (1 / 4) (3 / 4) cexP cexT) by congruence. subst g.
  assert (V : forall i j, (i < 2)%nat -> (j < 2)%nat -> validIdx [2%nat; 2%nat] [i; j]) by (intros i j Hi Hj; constructor; [exact Hi|constructor; [exact Hj|constructor]]).
  assert (K1 : 0 < 1 / 4) by lra. assert (K2 : 1 / 4 < 3 / 4) by lra. assert (K3 : 3 / 4 < 1) by lra.
  assert (L0 : (0 < 2)%nat) by lia. assert (L1 : (1 < 2)%nat) by lia.
  destruct (ce_grad_formula_thr0 (1 / 4) (3 / 4) cexP cexT 2 2 [0%nat; 0%nat] K1 K2 K3 eq_refl (V _ _ L0 L0))
    as (_ & F00 & _ & _).
  destruct (ce_grad_formula_thr0 (1 / 4) (3 / 4) cexP cexT 2 2 [0%nat; 1%nat] K1 K2 K3 eq_refl (V _ _ L0 L1))
    as (_ & _ & _ & F01).
  destruct (ce_grad_formula_thr0 (1 / 4) (3 / 4) cexP cexT 2 2 [1%nat; 0%nat] K1 K2 K3 eq_refl (V _ _ L1 L0))
    as (_ & _ & _ & F10).
  destruct (ce_grad_formula_thr0 (1 / 4) (3 / 4) cexP cexT 2 2 [1%nat; 1%nat] K1 K2 K3 eq_refl (V _ _ L1 L1))
    as (_ & F11 & _ & _).
  assert (P00 : elt cexP [0%nat; 0%nat] = 1 / 2) by reflexivity.
  assert (P01 : elt cexP [0%nat; 1%nat] = 0) by reflexivity.
  assert (P10 : elt cexP [1%nat; 0%nat] = 1) by reflexivity.
  assert (P11 : elt cexP [1%nat; 1%nat] = 1 / 2) by reflexivity.
  assert (T00 : elt cexT [0%nat; 0%nat] = 1) by reflexivity.
  assert (T11 : elt cexT [1%nat; 1%nat] = 1) by reflexivity.
  rewrite P00, T00 in F00. rewrite P01 in F01. rewrite P10 in F10. rewrite P11, T11 in F11.
  split; [rewrite F00; [simpl INR; lra|lra|lra|lra]|]. split; [apply F01; left; reflexivity|].
  split; [apply F10; right; reflexivity|]. rewrite F11; [simpl INR; lra|lra|lra|lra].
Qed.
End CeEx.

Print Assumptions ce_structure.
Print Assumptions ce_bp.
Print Assumptions ce_grad.
Print Assumptions ce_grad_leaf.
Print Assumptions ce_grad_untracked.
Print Assumptions ce_grad_formula.
Print Assumptions ce_grad_elementwise.
Print Assumptions ce_grad_formula_thr0.
Print Assumptions ce_grad_ex.
