(* MatMulRP.v — algebraic identities of MatMul over the real numbers (Spec/RScalar.v), from the
   element formulas of MatMulP.v / TransposeP.v / ValidP.v (v_eye_total) by ring reasoning on
   finite sums:   A . I = A,   I . A = A,   (A . B)^T = B^T . A^T   for matrices.
   (Over float64 these hold only up to the usual caveats: 0 * Inf, NaN, signed zeros.) *)
From Coq Require Import List Arith ZArith Bool Lia Reals Lra.
From Qeep Require Import Model.Scalar Model.Nd Model.Fill Model.Data Model.Valid Model.Api.
From Qeep Require Import Spec.ValidSpec Proofs.ValidP.
From Qeep Require Import Proofs.NdP Proofs.FillP Proofs.OdometerP Proofs.ReshapeP Proofs.ElemP Proofs.BroadcastP
  Proofs.ArithP Proofs.TransposeP Proofs.MatMulP Spec.RScalar.
Import ListNotations.
Local Open Scope R_scope.

(* ---------- finite sums ---------- *)

Definition Rsum (n : nat) (h : nat -> R) : R := fold_left (fun s p => s + h p) (seq 0 n) 0.

Lemma Rsum_S n h : Rsum (S n) h = Rsum n h + h n.
Proof. unfold Rsum. rewrite seq_S, fold_left_app. reflexivity. Qed.

Lemma Rsum_ext n h h' : (forall p, (p < n)%nat -> h p = h' p) -> Rsum n h = Rsum n h'.
Proof.
  intros H. unfold Rsum. apply fold_left_ext_in. intros p u Hp. apply in_seq in Hp.
  rewrite H by lia. reflexivity.
Qed.

Lemma Rsum_zero n h : (forall p, (p < n)%nat -> h p = 0) -> Rsum n h = 0.
Proof.
  induction n as [|n IH]; intros H; [reflexivity|].
  rewrite Rsum_S, IH, H by (intros; try apply H; lia). lra.
Qed.

(* sum against a Kronecker delta *)
Lemma Rsum_delta n j f : (j < n)%nat -> Rsum n (fun p => f p * (if (p =? j)%nat then 1 else 0)) = f j.
Proof.
  induction n as [|n IH]; intros Hj; [lia|]. rewrite Rsum_S.
  destruct (Nat.eq_dec j n) as [->|Hne].
  - rewrite Nat.eqb_refl. rewrite Rsum_zero; [lra|].
    intros p Hp. destruct (Nat.eqb_spec p n) as [E|E]; [lia|lra].
  - rewrite IH by lia. destruct (Nat.eqb_spec n j) as [E|E]; [lia|lra].
Qed.

Lemma Rsum_delta_l n i f : (i < n)%nat -> Rsum n (fun p => (if (i =? p)%nat then 1 else 0) * f p) = f i.
Proof.
  intros Hi. rewrite <- (Rsum_delta n i f Hi). apply Rsum_ext. intros p _.
  rewrite (Nat.eqb_sym i p). lra.
Qed.

Lemma validIdx2_inv a b idx : validIdx [a; b] idx -> exists i j, idx = [i; j] /\ (i < a)%nat /\ (j < b)%nat.
Proof.
  intros H. apply validIdx_cons in H as (i & r & -> & Hi & H). apply validIdx_cons in H as (j & r' & -> & Hj & H).
  apply validIdx_nil in H. subst r'. exists i, j. auto.
Qed.

(* two well-formed matrices of the same shape with the same elements are the same tensor *)
Lemma tensor2_ext {B} (r r' : tensor B) a b : wf r -> wf r' -> dims r = [a; b] -> dims r' = [a; b] ->
  (forall i j, (i < a)%nat -> (j < b)%nat -> get (data r) [i; j] = get (data r') [i; j]) -> r = r'.
Proof.
  intros [Hw _] [Hw' _] Hd Hd' H. destruct r as [rd rx]. destruct r' as [rd' rx']. cbn [dims data] in *.
  subst rd rd'. f_equal. apply (nd_ext B [a; b]); [exact Hw|exact Hw'|].
  intros idx Hv. apply validIdx2_inv in Hv as (i & j & -> & Hi & Hj). apply H; assumption.
Qed.

Section Reals.
Variable thr : R.
Variable draw : bool -> nat -> R.
Local Instance RS : Scalar R := R_scalar thr draw.
Notation T := (tensor R).

(* the exact left fold of MatMulP is the finite sum of products *)
Lemma fold_Rsum n (f g : nat -> R) :
  fold_left (fun s p => @sadd R RS s (@smul R RS (f p) (g p))) (seq 0 n) (@s0 R RS) = Rsum n (fun p => f p * g p).
Proof. reflexivity. Qed.

Lemma eyeElem_R i j : @eyeElem R RS i j = if (i =? j)%nat then 1 else 0.
Proof. reflexivity. Qed.

Lemma wf_dims2_pos (a : T) m n : wf a -> dims a = [m; n] -> (0 < m)%nat /\ (0 < n)%nat.
Proof.
  intros [_ Hp] E. rewrite E in Hp. inversion Hp as [|? ? Hm Hp']; subst. inversion Hp' as [|? ? Hn _]; subst. auto.
Qed.

(* the n x n identity, as produced by Eye *)
Lemma eye_ok n : (0 < n)%nat ->
  exists e : T, @v_eye R RS (Z.of_nat n) = Ok e /\ wf e /\ dims e = [n; n] /\
    forall i j, (i < n)%nat -> (j < n)%nat -> @elt R RS (data e) [i; j] = if (i =? j)%nat then 1 else 0.
Proof.
  intros Hn. destruct (@v_eye_total R RS (Z.of_nat n)) as (_ & H & _).
  destruct (H ltac:(lia)) as (e & Ee & Hw & Hd & Hg). rewrite Nat2Z.id in Hd, Hg.
  exists e. repeat (split; [assumption|]). intros i j Hi Hj. unfold elt. rewrite (Hg i j Hi Hj). apply eyeElem_R.
Qed.

(* A . I = A *)
Theorem matmul_eye (a : T) m n : wf a -> dims a = [m; n] ->
  exists e, @v_eye R RS (Z.of_nat n) = Ok e /\ @v_matmul R RS a e = Ok a.
Proof.
  intros Ha E. destruct (wf_dims2_pos a m n Ha E) as [Hm Hn].
  destruct (eye_ok n Hn) as (e & Ee & Hwe & Hde & Hge). exists e. split; [exact Ee|].
  destruct (@v_matmul_2d R RS a e m n n Ha Hwe E Hde) as (r & Er & Hd & Hw & Hg).
  rewrite Er. f_equal. apply (tensor2_ext r a m n Hw Ha Hd E). intros i j Hi Hj.
  rewrite (Hg i j Hi Hj), fold_Rsum.
  rewrite (Rsum_ext n _ (fun p => @elt R RS (data a) [i; p] * (if (p =? j)%nat then 1 else 0)))
    by (intros p Hp; rewrite (Hge p j Hp Hj); reflexivity).
  rewrite (Rsum_delta n j (fun p => @elt R RS (data a) [i; p]) Hj).
  symmetry. apply (elt_some [m; n]); [rewrite <- E; exact (proj1 Ha)|apply validIdx2; auto].
Qed.

(* I . A = A *)
Theorem eye_matmul (a : T) m n : wf a -> dims a = [m; n] ->
  exists e, @v_eye R RS (Z.of_nat m) = Ok e /\ @v_matmul R RS e a = Ok a.
Proof.
  intros Ha E. destruct (wf_dims2_pos a m n Ha E) as [Hm Hn].
  destruct (eye_ok m Hm) as (e & Ee & Hwe & Hde & Hge). exists e. split; [exact Ee|].
  destruct (@v_matmul_2d R RS e a m m n Hwe Ha Hde E) as (r & Er & Hd & Hw & Hg).
  rewrite Er. f_equal. apply (tensor2_ext r a m n Hw Ha Hd E). intros i j Hi Hj.
  rewrite (Hg i j Hi Hj), fold_Rsum.
  rewrite (Rsum_ext m _ (fun p => (if (i =? p)%nat then 1 else 0) * @elt R RS (data a) [p; j]))
    by (intros p Hp; rewrite (Hge i p Hi Hp); reflexivity).
  rewrite (Rsum_delta_l m i (fun p => @elt R RS (data a) [p; j]) Hi).
  symmetry. apply (elt_some [m; n]); [rewrite <- E; exact (proj1 Ha)|apply validIdx2; auto].
Qed.

(* (A . B)^T = B^T . A^T *)
Theorem matmul_transpose (a b : T) m n k : wf a -> wf b -> dims a = [m; n] -> dims b = [n; k] ->
  exists ab abT aT bT,
    @v_matmul R RS a b = Ok ab /\ v_transpose ab = Ok abT /\
    v_transpose a = Ok aT /\ v_transpose b = Ok bT /\
    @v_matmul R RS bT aT = Ok abT.
Proof.
  intros Ha Hb Ea Eb.
  destruct (@v_matmul_2d R RS a b m n k Ha Hb Ea Eb) as (ab & Eab & Hdab & Hwab & Hgab).
  destruct (v_transpose_2d R ab m k Hwab Hdab) as (abT & EabT & HdabT & HwabT & HgabT).
  destruct (v_transpose_2d R a m n Ha Ea) as (aT & EaT & HdaT & HwaT & HgaT).
  destruct (v_transpose_2d R b n k Hb Eb) as (bT & EbT & HdbT & HwbT & HgbT).
  destruct (@v_matmul_2d R RS bT aT k n m HwbT HwaT HdbT HdaT) as (r & Er & Hdr & Hwr & Hgr).
  exists ab, abT, aT, bT. repeat (split; [assumption|]).
  rewrite Er. f_equal. apply (tensor2_ext r abT k m Hwr HwabT Hdr HdabT). intros j i Hj Hi.
  rewrite (Hgr j i Hj Hi), (HgabT i j Hi Hj), (Hgab i j Hi Hj), !fold_Rsum. f_equal.
  apply Rsum_ext. intros p Hp.
  rewrite (elt_get_eq _ _ _ _ (HgbT p j Hp Hj)), (elt_get_eq _ _ _ _ (HgaT i p Hi Hp)). apply Rmult_comm.
Qed.

End Reals.

(* ---------- the hypotheses are satisfiable ---------- *)
Example matmul_eye_hyp : exists a : tensor R, wf a /\ dims a = [2%nat; 3%nat].
Proof.
  exists (mkT [2%nat; 3%nat] (tab [2%nat; 3%nat] (fun idx => INR (flatIdx [2%nat; 3%nat] idx)))).
  split; [split; [apply wfnd_tab|repeat constructor]|reflexivity].
Qed.

Print Assumptions matmul_eye.
Print Assumptions eye_matmul.
Print Assumptions matmul_transpose.
