(* GradSoftmaxP.v — property C15, Softmax part: back-propagation through
       ex = x.Exp(); s = ex.SumAlong(dim); su = s.UnSqueeze(dim); y = ex.Div(su)
   (Div broadcasts su — size 1 along dim — through an internal Broadcast node with expansion
   factor n = x.Shape()[dim]) delivers to x
       gx_i = p_i * (gy_i - c * Σ_k p_(i|dim:=k) * gy_(i|dim:=k)),      p = the Softmax output,
   with c = 1 when the Broadcast back edge sums over the copies ([RedSum], the property) and
   c = 1/n for the pinned library ([RedAvg], known finding D2), for an input of ANY rank > dim.

   Same formulation as GradActP.v: [hh] is any heap with the structure of the heap [h1] after the
   component, holding the final gradient [gy] on [y], none on the five internal nodes and an
   arbitrary prior of x's shape on [x]; the model's [process_node] is folded over the nodes of the
   component in bp_topo's order [y; b2; su; s; b1; ex]; the result is [Ok] and x holds
   prior + the formula.   Ids: ex = a, s = a+1, su = a+2, b1 = a+3, b2 = a+4, y = a+5. *)
From Coq Require Import List Arith ZArith Bool Lia Reals Lra.
From Coquelicot Require Import Coquelicot.
From Qeep Require Import Model.Scalar Model.Nd Model.Fill Model.Data Model.Valid Model.Api Model.Grad
  Model.Backprop Model.Components.
From Qeep Require Import Proofs.NdP Proofs.ElemP Proofs.ReshapeP Proofs.BroadcastP Proofs.ReduceP Proofs.ArithP
  Proofs.OdometerP Proofs.TrackP Proofs.CompP Proofs.BackpropP Proofs.SoftmaxP.
From Qeep Require Import Spec.RScalar Spec.ScalarDeriv Spec.VjpSpec Proofs.VjpElemP Proofs.VjpGatherP Proofs.VjpReduceP
  Proofs.ReduceRP Proofs.GradActP.
Import ListNotations.
Local Open Scope nat_scope.

(* ===================================================================================== *)
(* 1. the exact heap of the component (any scalar)                                         *)
(* ===================================================================================== *)
Section Gen.
Context {A : Type} {SA : Scalar A}.
Notation T := (tensor A).
Notation heap := (@heap A).
Notation rule := (@rule A).
Notation node := (@node A).

Ltac at_obs :=
  first
    [ rewrite valOf_app by assumption
    | rewrite trackedOf_app by assumption
    | rewrite dirtyOf_app by assumption
    | unfold valOf, trackedOf, dirtyOf;
      first [rewrite at_app | rewrite at_app0];
      cbn [nth_error tnode nval ntracked ndirty obind] ];
  try reflexivity; try assumption.

Ltac norm_in E :=
  rewrite <- ?app_assoc, ?app_length in E; cbn [app length] in E;
  rewrite <- ?Nat.add_succ_r in E; rewrite <- ?Nat.add_assoc in E; cbn [Nat.add] in E.

Tactic Notation "hstep" hyp(H) ident(E) :=
  match type of H with
  | context [hbind ?r _] => destruct r as [? [?| |]] eqn:E; cbn [hbind atomically] in H; try discriminate H
  end.

(* Add/Sub/Mul/Div of a tracked x and a tracked u that is broadcast to x's shape *)
Lemma arith_step_bc (h : heap) b x u name h' id xv uv :
  h_arith h b x u name = (h', Ok id) -> valOf h x = Some xv -> valOf h u = Some uv -> wf xv ->
  targetBroadcastDims (dims xv) (dims uv) = dims xv ->
  trackedOf h x = true -> dirtyOf h x = false -> trackedOf h u = true -> dirtyOf h u = false ->
  exists ub v, v_broadcast uv (zdims xv) = Ok ub /\ apply2 (binaryF b) xv ub = Some v /\ id = S (S (length h)) /\
    h' = h ++ [tnode xv [(x, RBroadcast (length h) x)] None;
               tnode ub [(u, RBroadcast (S (length h)) u)] None;
               tnode v (arithEdges b (S (S (length h))) (length h) (S (length h))) name].
Proof.
  intros E Hx Hu Wx Et Tx Dx Tu Du.
  unfold h_arith in E. rewrite Hx, Hu in E. cbv zeta in E. rewrite Et in E.
  apply h_binop_inv in E. destruct E as (xv' & uv' & v1 & v2 & v & Hx' & Hb1 & Hu' & Hb2 & Hf & -> & ->).
  assert (xv' = xv) by congruence. subst xv'.
  rewrite v_broadcast_id in Hb1 by exact Wx. inversion Hb1; subst v1.
  assert (Hul : u < length h) by (eapply valOf_some_lt; eauto).
  rewrite valOf_app in Hu' by exact Hul. assert (uv' = uv) by congruence. subst uv'.
  exists v2, v. split; [exact Hb2|]. split; [exact Hf|]. split; [reflexivity|].
  assert (B1 : bnode1 h x xv = tnode xv [(x, RBroadcast (length h) x)] None).
  { unfold bnode1. rewrite mkCtx_tracked1 by assumption. reflexivity. }
  assert (B2 : bnode2 h x u xv v2 = tnode v2 [(u, RBroadcast (S (length h)) u)] None).
  { unfold bnode2. rewrite mkCtx_tracked1; [reflexivity| |].
    - rewrite trackedOf_app by exact Hul. exact Tu.
    - rewrite dirtyOf_app by exact Hul. exact Du. }
  assert (B3 : rnode h x u xv v2 v (arithEdges b) name =
               tnode v (arithEdges b (S (S (length h))) (length h) (S (length h))) name).
  { unfold rnode. rewrite B1, B2. rewrite mkCtx_tracked2; [reflexivity| | |].
    - unfold trackedOf. rewrite nth_error_app2 by lia. rewrite Nat.sub_diag. reflexivity.
    - unfold dirtyOf. rewrite nth_error_app2 by lia. rewrite Nat.sub_diag. reflexivity.
    - unfold dirtyOf. rewrite nth_error_app2 by lia. replace (S (length h) - length h) with 1 by lia. reflexivity. }
  rewrite B1, B2, B3. reflexivity.
Qed.

Lemma softmax_structure (h : heap) dim x name h1 y xv :
  softmax_forward h dim [Some x] name = (h1, Ok y) ->
  valOf h x = Some xv -> wf xv -> trackedOf h x = true -> dirtyOf h x = false ->
  exists exv sv suv subv yv, let a := length h in
    dim < length (dims xv) /\
    v_unary UExpo xv = Ok exv /\ v_reduceAlong RdSum exv (Z.of_nat dim) = Ok sv /\
    v_unsqueeze sv (Z.of_nat dim) = Ok suv /\ v_broadcast suv (zdims exv) = Ok subv /\
    apply2 (binaryF BiDiv) exv subv = Some yv /\
    y = a + 5 /\ length h1 = a + 6 /\ isOld h h1 /\
    isNode h1 a exv [(x, RExp a)] /\
    isNode h1 (a + 1) sv [(a, RSumAlong (a + 1) a (Z.of_nat dim))] /\
    isNode h1 (a + 2) suv [(a + 1, RReshape (a + 2) (a + 1))] /\
    isNode h1 (a + 3) exv [(a, RBroadcast (a + 3) a)] /\
    isNode h1 (a + 4) subv [(a + 2, RBroadcast (a + 4) (a + 2))] /\
    isNode h1 y yv [(a + 3, RDivA y (a + 4)); (a + 4, RDivB y (a + 3) (a + 4))].
Proof.
  intros E Hx Wx Tx Dx. unfold softmax_forward in E. cbn [oneInput] in E.
  assert (Hxl : x < length h) by (apply tracked_lt; exact Tx).
  unfold rankOf in E. rewrite Hx in E.
  destruct (length (dims xv) <=? dim) eqn:Er; [discriminate E|]. apply Nat.leb_gt in Er.
  (* ex = x.Exp() *)
  hstep E E1. unfold h_math in E1. apply op1_step in E1; [|assumption|assumption].
  destruct E1 as (xv1 & exv & Hx1 & Hex & -> & ->). assert (xv1 = xv) by congruence. subst xv1.
  cbn [mathUnary mathRule] in *.
  destruct (un_shape _ _ _ Wx Hex) as [Dex Wex].
  (* s = ex.SumAlong(dim) *)
  hstep E E2. unfold h_reduceAlong in E2. apply op1_step in E2; [|at_obs|at_obs].
  destruct E2 as (exv' & sv & Hex' & Hs & -> & ->).
  assert (exv' = exv) by (revert Hex'; at_obs; congruence). subst exv'. clear Hex'.
  cbn [alongRule] in *. norm_in E.
  assert (Hrg : (0 <= Z.of_nat dim < Z.of_nat (length (dims exv)))%Z) by (rewrite Dex; lia).
  pose proof (v_reduceAlong_elems RdSum exv (Z.of_nat dim) Wex Hrg) as Hr. cbv zeta in Hr. rewrite Nat2Z.id in Hr.
  destruct Hr as (sv' & Es' & Ds & Ws & _). assert (sv' = sv) by congruence. subst sv'. clear Es'.
  (* su = s.UnSqueeze(dim) *)
  hstep E E3. unfold h_unsqueeze in E3. apply op1_step in E3; [|at_obs|at_obs].
  destruct E3 as (sv' & suv & Hs' & Hsu & -> & ->).
  assert (sv' = sv) by (revert Hs'; at_obs; congruence). subst sv'. clear Hs'.
  norm_in E.
  destruct (unsq_bcast_get sv exv dim Ws Wex ltac:(lia) Ds) as (suv' & subv' & Esu' & Esub' & Dsu & Wsu & _).
  assert (suv' = suv) by congruence. subst suv'. clear Esu'.
  (* y = ex.Div(su) *)
  destruct (h_arith _ BiDiv (length h) (length h + 2) name) as [hb [yy| |]] eqn:E4;
    cbn [atomically] in E; try discriminate E.
  inversion E; subst hb yy. clear E.
  apply (arith_step_bc _ BiDiv _ _ name _ _ exv suv) in E4;
    [|at_obs|at_obs|exact Wex| |at_obs|at_obs|at_obs|at_obs].
  2:{ rewrite Dsu. apply tbd_ins1; [exact (proj2 Wex)|lia]. }
  destruct E4 as (subv & yv & Hsub & Hy & -> & ->).
  rewrite <- ?app_assoc, ?app_length. cbn [app length]. rewrite <- ?Nat.add_succ_r, <- ?Nat.add_assoc. cbn [Nat.add].
  exists exv, sv, suv, subv, yv. cbv zeta.
  split; [exact Er|].
  repeat (split; [solve [assumption|reflexivity]|]).
  split; [apply isOld_app|].
  split; [eapply isNode_at0; reflexivity|].
  repeat (split; [eapply isNode_at; reflexivity|]). eapply isNode_at; reflexivity.
Qed.

End Gen.

(* ===================================================================================== *)
(* 2. index and sum bookkeeping                                                            *)
(* ===================================================================================== *)
Lemma ins_inj {X} dim (k : X) a b : dim <= length a -> dim <= length b -> ins dim k a = ins dim k b -> a = b.
Proof. intros Ha Hb E. apply (f_equal (del dim)) in E. rewrite !del_ins in E by assumption. exact E. Qed.

Lemma idx_eqb_ins dim k a b : dim <= length a -> dim <= length b ->
  idx_eqb (ins dim k a) (ins dim k b) = idx_eqb a b.
Proof.
  intros Ha Hb. apply bool_eq_iff. rewrite !idx_eqb_eq. split.
  - apply ins_inj; assumption.
  - intros ->. reflexivity.
Qed.

Lemma prodn_del dim : forall ds, dim < length ds -> prodn ds = nth dim ds 0 * prodn (del dim ds).
Proof.
  induction dim as [|m IH]; intros [|d ds] Hl; cbn [length] in Hl; try lia.
  - rewrite del_0. cbn [nth]. apply prodn_cons.
  - rewrite del_S, !prodn_cons. cbn [nth]. rewrite (IH ds) by lia. lia.
Qed.

Lemma allpos_del dim ds : allpos ds -> allpos (del dim ds).
Proof. intros H. rewrite <- squeezeDims_del. apply squeezeDims_pos, H. Qed.

Lemma validIdx_len ds i : validIdx ds i -> length i = length ds.
Proof. intros H. apply (Forall2_len _ _ _ H). Qed.

Local Open Scope R_scope.

Notation sumN := VjpGatherP.sumN.

Lemma lsum_scal {X} (l : list X) c f : lsum l (fun x => c * f x) = c * lsum l f.
Proof. unfold lsum. induction l as [|a l IH]; cbn; [ring|rewrite IH; ring]. Qed.

Lemma sumN_scal n c f : sumN n (fun k => c * f k) = c * sumN n f.
Proof. apply lsum_scal. Qed.

Lemma lsum_pos {X} (l : list X) f : l <> [] -> (forall x, In x l -> 0 < f x) -> 0 < lsum l f.
Proof.
  unfold lsum. induction l as [|a l IH]; intros Hn Hp; [congruence|]. cbn.
  destruct l as [|b l].
  - cbn. pose proof (Hp a (or_introl eq_refl)). lra.
  - pose proof (Hp a (or_introl eq_refl)).
    assert (0 < fold_right Rplus 0 (map f (b :: l))) by (apply IH; [discriminate|intros x Hx; apply Hp; right; exact Hx]).
    lra.
Qed.

Lemma sumN_pos n f : (0 < n)%nat -> (forall k, 0 < f k) -> 0 < sumN n f.
Proof.
  intros Hn Hf. apply lsum_pos; [|intros x _; apply Hf]. destruct n; [lia|]. cbn. discriminate.
Qed.

(* the factor of the Broadcast back edge when one dimension of size n was expanded *)
Lemma bfac_ins1 rd dim ds : allpos ds -> (dim < length ds)%nat ->
  bfac rd (ins dim 1%nat (del dim ds)) ds = rdc rd (nth dim ds 0%nat).
Proof.
  intros Hp Hl. destruct rd; unfold rdc.
  - apply bfac_sum.
  - rewrite bfac_avg; [|apply bcompat_ins1, Hl|exact Hp]. f_equal. f_equal.
    rewrite prodn_ins1, (prodn_del dim ds Hl). apply Nat.div_mul.
    pose proof (prodn_pos _ (allpos_del dim ds Hp)). lia.
Qed.
