(* GradSoftmaxP.v — property C15, Softmax part: back-propagation through
       ex = x.Exp(); s = ex.SumAlong(dim); su = s.UnSqueeze(dim); y = ex.Div(su)
   (Div broadcasts su — size 1 along dim — through an internal Broadcast node with expansion
   factor n = x.Shape()[dim]) delivers to x
       gx_i = p_i * (gy_i - c * Σ_k p_(i|dim:=k) * gy_(i|dim:=k)),      p = the Softmax output,
   with c = 1 when the Broadcast back edge sums over the copies ([RedSum], the property) and
   c = 1/n for the pinned library ([RedAvg], known finding D2), for an input of ANY rank > dim.

   Same formulation as GradActP.v: [hh] is any heap with the structure of the heap [h1] after the
   component, holding the final gradient [gy] on [y], none on the five internal nodes and an
   arbitrary prior of x's shape on [x]; the model's [process_node] is folded over the nodes of the
   component in bp_topo's order [y; b2; su; s; b1; ex]; the result is [Ok] and x holds
   prior + the formula.   Ids: ex = a, s = a+1, su = a+2, b1 = a+3, b2 = a+4, y = a+5. *)
From Coq Require Import List Arith ZArith Bool Lia Reals Lra.
From Coquelicot Require Import Coquelicot.
From Qeep Require Import Model.Scalar Model.Nd Model.Fill Model.Data Model.Valid Model.Api Model.Grad
  Model.Backprop Model.Components.
From Qeep Require Import Proofs.NdP Proofs.ElemP Proofs.ReshapeP Proofs.BroadcastP Proofs.ReduceP Proofs.ArithP
  Proofs.OdometerP Proofs.TrackP Proofs.CompP Proofs.BackpropP Proofs.SoftmaxP.
From Qeep Require Import Spec.RScalar Spec.ScalarDeriv Spec.VjpSpec Proofs.VjpElemP Proofs.VjpGatherP Proofs.VjpReduceP
  Proofs.ReduceRP Proofs.GradActP.
Import ListNotations.
Local Open Scope nat_scope.

(* ===================================================================================== *)
(* 1. the exact heap of the component (any scalar)                                         *)
(* ===================================================================================== *)
Section Gen.
Context {A : Type} {SA : Scalar A}.
Notation T := (tensor A).
Notation heap := (@heap A).
Notation rule := (@rule A).
Notation node := (@node A).

Ltac at_obs :=
  first
    [ rewrite valOf_app by assumption
    | rewrite trackedOf_app by assumption
    | rewrite dirtyOf_app by assumption
    | unfold valOf, trackedOf, dirtyOf;
      first [rewrite at_app | rewrite at_app0];
      cbn [nth_error tnode nval ntracked ndirty obind] ];
  try reflexivity; try assumption.

Ltac norm_in E :=
  rewrite <- ?app_assoc, ?app_length in E; cbn [app length] in E;
  rewrite <- ?Nat.add_succ_r in E; rewrite <- ?Nat.add_assoc in E; cbn [Nat.add] in E.

Tactic Notation "hstep" hyp(H) ident(E) :=
  match type of H with
  | context [hbind ?r _] => destruct r as [? [?| |]] eqn:E; cbn [hbind atomically] in H; try discriminate H
  end.

(* Add/Sub/Mul/Div of a tracked x and a tracked u that is broadcast to x's shape *)
Lemma arith_step_bc (h : heap) b x u name h' id xv uv :
  h_arith h b x u name = (h', Ok id) -> valOf h x = Some xv -> valOf h u = Some uv -> wf xv ->
  targetBroadcastDims (dims xv) (dims uv) = dims xv ->
  trackedOf h x = true -> dirtyOf h x = false -> trackedOf h u = true -> dirtyOf h u = false ->
  exists ub v, v_broadcast uv (zdims xv) = Ok ub /\ apply2 (binaryF b) xv ub = Some v /\ id = S (S (length h)) /\
    h' = h ++ [tnode xv [(x, RBroadcast (length h) x)] None;
               tnode ub [(u, RBroadcast (S (length h)) u)] None;
               tnode v (arithEdges b (S (S (length h))) (length h) (S (length h))) name].
Proof.
  intros E Hx Hu Wx Et Tx Dx Tu Du.
  unfold h_arith in E. rewrite Hx, Hu in E. cbv zeta in E. rewrite Et in E.
  apply h_binop_inv in E. destruct E as (xv' & uv' & v1 & v2 & v & Hx' & Hb1 & Hu' & Hb2 & Hf & -> & ->).
  assert (xv' = xv) by congruence. subst xv'.
  rewrite v_broadcast_id in Hb1 by exact Wx. inversion Hb1; subst v1.
  assert (Hul : u < length h) by (eapply valOf_some_lt; eauto).
  rewrite valOf_app in Hu' by exact Hul. assert (uv' = uv) by congruence. subst uv'.
  exists v2, v. split; [exact Hb2|]. split; [exact Hf|]. split; [reflexivity|].
  assert (B1 : bnode1 h x xv = tnode xv [(x, RBroadcast (length h) x)] None).
  { unfold bnode1. rewrite mkCtx_tracked1 by assumption. reflexivity. }
  assert (B2 : bnode2 h x u xv v2 = tnode v2 [(u, RBroadcast (S (length h)) u)] None).
  { unfold bnode2. rewrite mkCtx_tracked1; [reflexivity| |].
    - rewrite trackedOf_app by exact Hul. exact Tu.
    - rewrite dirtyOf_app by exact Hul. exact Du. }
  assert (B3 : rnode h x u xv v2 v (arithEdges b) name =
               tnode v (arithEdges b (S (S (length h))) (length h) (S (length h))) name).
  { unfold rnode. rewrite B1, B2. rewrite mkCtx_tracked2; [reflexivity| | |].
    - unfold trackedOf. rewrite nth_error_app2 by lia. rewrite Nat.sub_diag. reflexivity.
    - unfold dirtyOf. rewrite nth_error_app2 by lia. rewrite Nat.sub_diag. reflexivity.
    - unfold dirtyOf. rewrite nth_error_app2 by lia. replace (S (length h) - length h) with 1 by lia. reflexivity. }
  rewrite B1, B2, B3. reflexivity.
Qed.

Lemma softmax_structure (h : heap) dim x name h1 y xv :
  softmax_forward h dim [Some x] name = (h1, Ok y) ->
  valOf h x = Some xv -> wf xv -> trackedOf h x = true -> dirtyOf h x = false ->
  exists exv sv suv subv yv, let a := length h in
    dim < length (dims xv) /\
    v_unary UExpo xv = Ok exv /\ v_reduceAlong RdSum exv (Z.of_nat dim) = Ok sv /\
    v_unsqueeze sv (Z.of_nat dim) = Ok suv /\ v_broadcast suv (zdims exv) = Ok subv /\
    apply2 (binaryF BiDiv) exv subv = Some yv /\
    y = a + 5 /\ length h1 = a + 6 /\ isOld h h1 /\
    isNode h1 a exv [(x, RExp a)] /\
    isNode h1 (a + 1) sv [(a, RSumAlong (a + 1) a (Z.of_nat dim))] /\
    isNode h1 (a + 2) suv [(a + 1, RReshape (a + 2) (a + 1))] /\
    isNode h1 (a + 3) exv [(a, RBroadcast (a + 3) a)] /\
    isNode h1 (a + 4) subv [(a + 2, RBroadcast (a + 4) (a + 2))] /\
    isNode h1 y yv [(a + 3, RDivA y (a + 4)); (a + 4, RDivB y (a + 3) (a + 4))].
Proof.
  intros E Hx Wx Tx Dx. unfold softmax_forward in E. cbn [oneInput] in E.
  assert (Hxl : x < length h) by (apply tracked_lt; exact Tx).
  unfold rankOf in E. rewrite Hx in E.
  destruct (length (dims xv) <=? dim) eqn:Er; [discriminate E|]. apply Nat.leb_gt in Er.
  (* ex = x.Exp() *)
  hstep E E1. unfold h_math in E1. apply op1_step in E1; [|assumption|assumption].
  destruct E1 as (xv1 & exv & Hx1 & Hex & -> & ->). assert (xv1 = xv) by congruence. subst xv1.
  cbn [mathUnary mathRule] in *.
  destruct (un_shape _ _ _ Wx Hex) as [Dex Wex].
  (* s = ex.SumAlong(dim) *)
  hstep E E2. unfold h_reduceAlong in E2. apply op1_step in E2; [|at_obs|at_obs].
  destruct E2 as (exv' & sv & Hex' & Hs & -> & ->).
  assert (exv' = exv) by (revert Hex'; at_obs; congruence). subst exv'. clear Hex'.
  cbn [alongRule] in *. norm_in E.
  assert (Hrg : (0 <= Z.of_nat dim < Z.of_nat (length (dims exv)))%Z) by (rewrite Dex; lia).
  pose proof (v_reduceAlong_elems RdSum exv (Z.of_nat dim) Wex Hrg) as Hr. cbv zeta in Hr. rewrite Nat2Z.id in Hr.
  destruct Hr as (sv' & Es' & Ds & Ws & _). assert (sv' = sv) by congruence. subst sv'. clear Es'.
  (* su = s.UnSqueeze(dim) *)
  hstep E E3. unfold h_unsqueeze in E3. apply op1_step in E3; [|at_obs|at_obs].
  destruct E3 as (sv' & suv & Hs' & Hsu & -> & ->).
  assert (sv' = sv) by (revert Hs'; at_obs; congruence). subst sv'. clear Hs'.
  norm_in E.
  destruct (unsq_bcast_get sv exv dim Ws Wex ltac:(lia) Ds) as (suv' & subv' & Esu' & Esub' & Dsu & Wsu & _).
  assert (suv' = suv) by congruence. subst suv'. clear Esu'.
  (* y = ex.Div(su) *)
  destruct (h_arith _ BiDiv (length h) (length h + 2) name) as [hb [yy| |]] eqn:E4;
    cbn [atomically] in E; try discriminate E.
  inversion E; subst hb yy. clear E.
  apply (arith_step_bc _ BiDiv _ _ name _ _ exv suv) in E4;
    [|at_obs|at_obs|exact Wex| |at_obs|at_obs|at_obs|at_obs].
  2:{ rewrite Dsu. apply tbd_ins1; [exact (proj2 Wex)|lia]. }
  destruct E4 as (subv & yv & Hsub & Hy & -> & ->).
  rewrite <- ?app_assoc, ?app_length. cbn [app length]. rewrite <- ?Nat.add_succ_r, <- ?Nat.add_assoc. cbn [Nat.add].
  exists exv, sv, suv, subv, yv. cbv zeta.
  split; [exact Er|].
  repeat (split; [solve [assumption|reflexivity]|]).
  split; [apply isOld_app|].
  split; [eapply isNode_at0; reflexivity|].
  repeat (split; [eapply isNode_at; reflexivity|]). eapply isNode_at; reflexivity.
Qed.

End Gen.

(* ===================================================================================== *)
(* 2. index and sum bookkeeping                                                            *)
(* ===================================================================================== *)
Lemma ins_inj {X} dim (k : X) a b : dim <= length a -> dim <= length b -> ins dim k a = ins dim k b -> a = b.
Proof. intros Ha Hb E. apply (f_equal (del dim)) in E. rewrite !del_ins in E by assumption. exact E. Qed.

Lemma idx_eqb_ins dim k a b : dim <= length a -> dim <= length b ->
  idx_eqb (ins dim k a) (ins dim k b) = idx_eqb a b.
Proof.
  intros Ha Hb. apply bool_eq_iff. rewrite !idx_eqb_eq. split.
  - apply ins_inj; assumption.
  - intros ->. reflexivity.
Qed.

Lemma prodn_del dim : forall ds, dim < length ds -> prodn ds = nth dim ds 0 * prodn (del dim ds).
Proof.
  induction dim as [|m IH]; intros [|d ds] Hl; cbn [length] in Hl; try lia.
  - rewrite del_0. cbn [nth]. apply prodn_cons.
  - rewrite del_S, !prodn_cons. cbn [nth]. rewrite (IH ds) by lia. lia.
Qed.

Lemma allpos_del dim ds : allpos ds -> allpos (del dim ds).
Proof. intros H. rewrite <- squeezeDims_del. apply squeezeDims_pos, H. Qed.

Lemma validIdx_len ds i : validIdx ds i -> length i = length ds.
Proof. intros H. apply (Forall2_len _ _ _ H). Qed.

Local Open Scope R_scope.

Notation sumN := VjpGatherP.sumN.

Lemma lsum_scal {X} (l : list X) c f : lsum l (fun x => c * f x) = c * lsum l f.
Proof. unfold lsum. induction l as [|a l IH]; cbn; [ring|rewrite IH; ring]. Qed.

Lemma sumN_scal n c f : sumN n (fun k => c * f k) = c * sumN n f.
Proof. apply lsum_scal. Qed.

Lemma lsum_pos {X} (l : list X) f : l <> [] -> (forall x, In x l -> 0 < f x) -> 0 < lsum l f.
Proof.
  unfold lsum. induction l as [|a l IH]; intros Hn Hp; [congruence|]. cbn.
  destruct l as [|b l].
  - cbn. pose proof (Hp a (or_introl eq_refl)). lra.
  - pose proof (Hp a (or_introl eq_refl)).
    assert (0 < fold_right Rplus 0 (map f (b :: l))) by (apply IH; [discriminate|intros x Hx; apply Hp; right; exact Hx]).
    lra.
Qed.

Lemma sumN_pos n f : (0 < n)%nat -> (forall k, 0 < f k) -> 0 < sumN n f.
Proof.
  intros Hn Hf. apply lsum_pos; [|intros x _; apply Hf]. destruct n; [lia|]. cbn. discriminate.
Qed.

(* the factor of the Broadcast back edge when one dimension of size n was expanded *)
Lemma bfac_ins1 rd dim ds : allpos ds -> (dim < length ds)%nat ->
  bfac rd (ins dim 1%nat (del dim ds)) ds = rdc rd (nth dim ds 0%nat).
Proof.
  intros Hp Hl. destruct rd; unfold rdc.
  - apply bfac_sum.
  - rewrite bfac_avg; [|apply bcompat_ins1, Hl|exact Hp]. f_equal. f_equal.
    rewrite prodn_ins1, (prodn_del dim ds Hl). apply Nat.div_mul.
    pose proof (prodn_pos _ (allpos_del dim ds Hp)). lia.
Qed.

(* ===================================================================================== *)
(* 3. the real-number instance                                                             *)
(* ===================================================================================== *)
Section R.
Variables (thr : R) (draw : bool -> nat -> R).
Local Hint Extern 0 (Scalar R) => exact (R_scalar thr draw) : typeclass_instances.
Notation T := (tensor R).
Notation heap := (@heap R).
Notation idseal := (fun (_ : option nat) (g : T) => g).

Ltac nlia :=
  repeat match goal with
         | H : ?P |- _ =>
             lazymatch type of P with Prop => idtac end;
             lazymatch P with
             | @eq nat _ _ => fail | lt _ _ => fail | le _ _ => fail | not (@eq nat _ _) => fail
             | or _ _ => fail | and _ _ => fail | _ => idtac
             end; clear H
         end; lia.
Ltac upd_eq :=
  unfold upd;
  repeat match goal with
         | |- context [Nat.eqb ?a ?b] =>
             first [ rewrite (proj2 (Nat.eqb_eq a b)) by nlia | rewrite (proj2 (Nat.eqb_neq a b)) by nlia ]
         end.

(* the Broadcast back edge of the normaliser: one dimension of size 1 expanded to n *)
Lemma bcast_back_unsq rd (g4 : T) dim ds : wf g4 -> dims g4 = ds -> (dim < length ds)%nat ->
  exists g2, bcastBack rd g4 (ins dim 1%nat (del dim ds)) ds = Ok g2 /\
    dims g2 = ins dim 1%nat (del dim ds) /\ wf g2 /\
    forall j, validIdx (del dim ds) j ->
      elt g2 (ins dim 0%nat j) =
      rdc rd (nth dim ds 0%nat) * sumN (nth dim ds 0%nat) (fun k => elt g4 (ins dim k j)).
Proof.
  intros W D Hl. assert (Hp : allpos ds) by (rewrite <- D; exact (proj2 W)).
  assert (Hdl : (dim <= length (del dim ds))%nat) by (rewrite del_length by exact Hl; lia).
  destruct (bcastBack_char thr draw rd g4 (ins dim 1%nat (del dim ds)) ds W D (bcompat_ins1 dim ds Hl))
    as (g2 & E & D2 & W2 & F).
  exists g2. split; [exact E|]. split; [exact D2|]. split; [exact W2|].
  intros j Hj. rewrite F by (apply vi_ins1; [exact Hdl|exact Hj]).
  rewrite (bfac_ins1 rd dim ds Hp Hl). f_equal.
  rewrite <- (sum_del dim ds (elt g4) j Hl Hj). unfold push. apply sumIdx_ext. intros q Hq.
  rewrite (bproj_ins1 dim ds q Hl Hq). rewrite idx_eqb_ins; [reflexivity| |].
  - pose proof (validIdx_len _ _ (vi_del dim _ _ Hq)) as L. rewrite L. exact Hdl.
  - rewrite (validIdx_len _ _ Hj). exact Hdl.
Qed.

Lemma unflat_unsq dim D j : (dim <= length D)%nat -> validIdx D j ->
  unflatIdx (ins dim 1%nat D) (flatIdx D j) = ins dim 0%nat j.
Proof.
  intros Hl Hj. rewrite <- (flatIdx_ins10 dim D j Hl Hj). apply unflatIdx_flatIdx. apply vi_ins1; assumption.
Qed.

Theorem softmax_grad rd (h h1 hh : heap) dim x y name xv gy log :
  valOf h x = Some xv -> wf xv -> trackedOf h x = true -> dirtyOf h x = false ->
  softmax_forward h dim [Some x] name = (h1, Ok y) ->
  let a := length h in
  let n := nth dim (dims xv) 0%nat in
  sameS h1 hh -> gradOf hh y = Some gy -> wf gy -> dims gy = dims xv ->
  (forall k, (k < 5)%nat -> gradOf hh (a + k)%nat = None) ->
  prior_ok (dims xv) (gradOf hh x) ->
  exists yv hh' gx lg,
    (* the Softmax output p *)
    valOf h1 y = Some yv /\ dims yv = dims xv /\
    (forall i, validIdx (dims xv) i ->
       elt yv i = exp (elt xv i) / sumN n (fun k => exp (elt xv (setAt dim k i)))) /\
    (* processing the component's nodes never fails *)
    fold_left (process_node rd idseal) [y; a + 4; a + 2; a + 1; a + 3; a]%nat (hh, log, Ok tt)
      = (hh', lg ++ log, Ok tt) /\
    map fst lg = [a; a + 3; a + 1; a + 2; a + 4; y]%nat /\
    sameS hh hh' /\
    (forall m, m <> x -> (m < a \/ a + 5 <= m)%nat -> gradOf hh' m = gradOf hh m) /\
    gradOf hh' x = Some gx /\ dims gx = dims xv /\ wf gx /\
    forall i, validIdx (dims xv) i ->
      elt gx i = prior (gradOf hh x) i +
                 elt yv i * (elt gy i - rdc rd n * sumN n (fun k => elt yv (setAt dim k i) * elt gy (setAt dim k i))).
Proof.
  intros Hx Wx Tx Dx E a n S Hgy Wgy Dgy Hint Hp.
  pose proof (softmax_structure h dim x name h1 y xv E Hx Wx Tx Dx) as St. cbv zeta in St. fold a in St.
  destruct St as (exv & sv & suv & subv & yv & Hl & Hex & Hs & Hsu & Hsub & Hy & Ey & L1 & Old & N0 & N1 & N2 & N3 & N4 & N5).
  subst y.
  destruct N0 as (L0 & V0 & T0 & E0 & _). destruct N1 as (_ & V1 & T1 & E1 & _). destruct N2 as (_ & V2 & T2 & E2 & _).
  destruct N3 as (_ & V3 & T3 & E3 & _). destruct N4 as (_ & V4 & T4 & E4 & _). destruct N5 as (_ & V5 & T5 & E5 & _).
  assert (I0 : gradOf hh a = None) by (rewrite <- (Nat.add_0_r a); apply Hint; nlia).
  pose proof (Hint 1%nat ltac:(nlia)) as I1. pose proof (Hint 2%nat ltac:(nlia)) as I2.
  pose proof (Hint 3%nat ltac:(nlia)) as I3. pose proof (Hint 4%nat ltac:(nlia)) as I4.
  pose proof (HS_init h1 hh S) as H0.
  assert (Hxl : (x < a)%nat) by (apply tracked_lt; exact Tx).
  assert (Vx1 : valOf h1 x = Some xv) by (eapply isOld_val; eauto).
  assert (Tx1 : trackedOf h1 x = true) by (rewrite (isOld_trk h h1 x Old Hxl); exact Tx).
  (* ---- forward values ---- *)
  destruct (un_elt thr draw UExpo xv Wx) as (t0 & Et0 & Dex & Wex & Fex).
  rewrite Hex in Et0. inversion Et0; subst t0. clear Et0.
  assert (Hl' : (dim < length (dims exv))%nat) by (rewrite Dex; exact Hl).
  destruct (along_elt thr draw RdSum exv dim Wex Hl') as (t0 & Et0 & Ds & Ws & Fs).
  rewrite Hs in Et0. inversion Et0; subst t0. clear Et0.
  destruct (unsq_bcast_get sv exv dim Ws Wex Hl' Ds) as (o & ub & Eo & Eb & Dsu & Wsu & Dsub & Wsub & Gsub).
  rewrite Hsu in Eo. inversion Eo; subst o. clear Eo.
  rewrite Hsub in Eb. inversion Eb; subst ub. clear Eb.
  destruct (apply2_spec (binaryF BiDiv) exv subv Wex Wsub (eq_sym Dsub)) as (t0 & Et0 & Dy & Wy & Gy).
  rewrite Hy in Et0. inversion Et0; subst t0. clear Et0.
  rewrite Dex in *. rewrite squeezeDims_del in *.
  set (ds := dims xv) in *.
  assert (Hpos : allpos ds) by exact (proj2 Wx).
  assert (Hn : (0 < n)%nat).
  { unfold n. fold ds. clear - Hpos Hl. revert dim Hl. induction Hpos as [|d l Hd _ IH]; intros dim Hl; cbn in Hl; [lia|].
    destruct dim; cbn [nth]; [exact Hd|apply IH; lia]. }
  assert (Fsub : forall i, validIdx ds i -> elt subv i = elt sv (del dim i)).
  { intros i Hv. unfold elt. rewrite (Gsub i Hv). reflexivity. }
  assert (Fy : forall i, validIdx ds i -> elt yv i = elt exv i / elt subv i).
  { intros i Hv. unfold elt at 1. rewrite (Gy i Hv).
    rewrite (VjpReduceP.elt_some exv i Wex) by (rewrite Dex; exact Hv).
    rewrite (VjpReduceP.elt_some subv i Wsub) by (rewrite Dsub; exact Hv). reflexivity. }
  assert (Fsv : forall j, validIdx (del dim ds) j -> elt sv j = sumN n (fun k => exp (elt xv (ins dim k j)))).
  { intros j Hj. rewrite (Fs j Hj). cbn [redL]. rewrite (sum_is_sum thr draw).
    change (Rsum (map (fib (elt exv) dim j) (seq 0 n))) with (sumN n (fib (elt exv) dim j)).
    apply VjpGatherP.sumN_ext. intros k Hk. unfold fib. rewrite Fex; [reflexivity|].
    apply vi_ins; assumption. }
  assert (Spos : forall j, validIdx (del dim ds) j -> 0 < elt sv j).
  { intros j Hj. rewrite (Fsv j Hj). apply sumN_pos; [exact Hn|]. intros k. apply exp_pos. }
  assert (Vxh : forall G hx, HS h1 G hx -> valOf hx x = Some xv) by (intros G hx HH; rewrite (HS_val _ _ _ _ HH); exact Vx1).
  (* ---- 1. y = b1 / b2 ---- *)
  destruct (rdiva_eval thr draw rd hh (a + 5) (a + 4) subv gy)%nat as (g3 & Eg3 & Dg3 & Wg3 & Gg3);
    [rewrite (HS_val _ _ _ _ H0); exact V4|exact Hgy|exact Wsub|exact Wgy|congruence|].
  destruct (rdivb_eval thr draw rd hh (a + 5) (a + 3) (a + 4) exv subv gy)%nat as (g4 & Eg4 & Dg4 & Wg4 & Gg4);
    [rewrite (HS_val _ _ _ _ H0); exact V3|rewrite (HS_val _ _ _ _ H0); exact V4|exact Hgy|exact Wex|exact Wsub|exact Wgy
    |congruence|congruence|].
  destruct (node_run2 rd h1 _ hh log (a + 5) gy (a + 3) (RDivA (a + 5) (a + 4)) (a + 4) (RDivB (a + 5) (a + 3) (a + 4))
              g3 (Some g3) g4 (Some g4) H0)%nat as (hhA & EpA & HA);
    [nlia|exact Hgy|exact E5|exact T3|nlia|reflexivity|exact T4|nlia|reflexivity
    |exact Eg3|rewrite I3; reflexivity|exact Eg4|upd_eq; rewrite I4; reflexivity|].
  (* ---- 2. b2 = Broadcast(su): the normaliser's share, summed (or averaged) over the fibre ---- *)
  destruct (bcast_back_unsq rd g4 dim ds Wg4 ltac:(congruence) Hl) as (g2 & Eg2 & Dg2 & Wg2 & Gg2).
  assert (Ebc : eval_rule rd hhA (RBroadcast (a + 4) (a + 2)) = Ok g2).
  { unfold eval_rule, gy_of, val_of. rewrite (proj2 HA (a + 4)%nat), !(HS_val _ _ _ _ HA), V2, V4.
    replace (upd (upd (gradOf hh) (a + 3)%nat (Some g3)) (a + 4)%nat (Some g4) (a + 4)%nat) with (Some g4) by (upd_eq; reflexivity).
    cbn [of_opt res_bind]. rewrite Dsu, Dsub. exact Eg2. }
  destruct (node_run1 rd h1 _ hhA ((a + 5, gy) :: log)%nat (a + 4) g4 (a + 2) (RBroadcast (a + 4) (a + 2)) g2 (Some g2) HA)%nat
    as (hhB & EpB & HB);
    [nlia|upd_eq; reflexivity|exact E4|exact T2|nlia|reflexivity|exact Ebc|upd_eq; rewrite I2; reflexivity|].
  (* ---- 3. su = s.UnSqueeze(dim): Reshape back ---- *)
  destruct (vjp_reshape thr draw rd hhB (a + 2) (a + 1) sv g2)%nat as (g1 & Eg1 & Dg1 & Wg1 & Gg1 & _);
    [rewrite (HS_val _ _ _ _ HB); exact V1|rewrite (proj2 HB); upd_eq; reflexivity|exact Ws|exact Wg2
    |rewrite Dg2, Ds; apply prodn_ins1|].
  destruct (node_run1 rd h1 _ hhB ((a + 4, g4) :: (a + 5, gy) :: log)%nat (a + 2) g2 (a + 1) (RReshape (a + 2) (a + 1)) g1 (Some g1) HB)%nat
    as (hhC & EpC & HC);
    [nlia|upd_eq; reflexivity|exact E2|exact T1|nlia|reflexivity|exact Eg1|upd_eq; rewrite I1; reflexivity|].
  (* ---- 4. s = ex.SumAlong(dim) ---- *)
  destruct (rsum_eval thr draw rd hhC (a + 1) a dim exv g1)%nat as (gA & EgA & DgA & WgA & GgA);
    [rewrite (HS_val _ _ _ _ HC); exact V0|rewrite (proj2 HC); upd_eq; reflexivity|exact Wex|exact Wg1
    |rewrite Dex; exact Hl|rewrite Dg1, Ds, Dex; reflexivity|].
  destruct (node_run1 rd h1 _ hhC ((a + 2, g2) :: (a + 4, g4) :: (a + 5, gy) :: log)%nat (a + 1) g1 a
              (RSumAlong (a + 1) a (Z.of_nat dim)) gA (Some gA) HC)%nat as (hhD & EpD & HD);
    [nlia|upd_eq; reflexivity|exact E1|exact T0|nlia|reflexivity|exact EgA|upd_eq; rewrite I0; reflexivity|].
  (* ---- 5. b1 = Broadcast(ex): factor 1 ---- *)
  destruct (acc1_R thr draw ds (Some gA) g3 (conj WgA (eq_trans DgA Dex)) Wg3 (eq_trans Dg3 Dsub)) as (sE & EsE & WsE & DsE & GsE).
  destruct (node_run1 rd h1 _ hhD ((a + 1, g1) :: (a + 2, g2) :: (a + 4, g4) :: (a + 5, gy) :: log)%nat (a + 3) g3 a
              (RBroadcast (a + 3) a) g3 (Some sE) HD)%nat as (hhE & EpE & HE);
    [nlia|upd_eq; reflexivity|exact E3|exact T0|nlia|reflexivity| |upd_eq; exact EsE|].
  { apply (rbroadcast_same rd hhD (a + 3) a exv exv g3)%nat;
      [rewrite (HS_val _ _ _ _ HD); exact V3|rewrite (HS_val _ _ _ _ HD); exact V0
      |rewrite (proj2 HD); upd_eq; reflexivity|reflexivity]. }
  (* ---- 6. ex = x.Exp() ---- *)
  destruct (rexp_eval thr draw rd hhE a exv sE) as (gX & EgX & DgX & WgX & GgX);
    [rewrite (HS_val _ _ _ _ HE); exact V0|rewrite (proj2 HE); upd_eq; reflexivity|exact Wex|exact WsE|congruence|].
  destruct (acc1_R thr draw ds (gradOf hh x) gX Hp WgX ltac:(congruence)) as (sX & EsX & WsX & DsX & GsX).
  destruct (node_run1 rd h1 _ hhE ((a + 3, g3) :: (a + 1, g1) :: (a + 2, g2) :: (a + 4, g4) :: (a + 5, gy) :: log)%nat
              a sE x (RExp a) gX (Some sX) HE)%nat as (hhF & EpF & HF);
    [nlia|upd_eq; reflexivity|exact E0|exact Tx1|nlia|reflexivity|exact EgX|upd_eq; exact EsX|].
  exists yv, hhF, sX, [(a, sE); (a + 3, g3); (a + 1, g1); (a + 2, g2); (a + 4, g4); (a + 5, gy)]%nat.
  split; [exact V5|]. split; [congruence|].
  assert (Ysm : forall i, validIdx ds i -> elt yv i = exp (elt xv i) / sumN n (fun k => exp (elt xv (setAt dim k i)))).
  { intros i Hv. rewrite (Fy i Hv), (Fex i Hv), (Fsub i Hv), Fsv by (apply vi_del; exact Hv). reflexivity. }
  split; [exact Ysm|].
  split; [cbn [fold_left]; rewrite EpA, EpB, EpC, EpD, EpE; exact EpF|].
  split; [reflexivity|].
  split; [eapply sameS_trans; [apply sameS_sym; exact S|exact (proj1 HF)]|].
  split; [intros m Hm1 Hm2; rewrite (proj2 HF m); upd_eq; reflexivity|].
  split; [rewrite (proj2 HF x); upd_eq; reflexivity|].
  split; [exact DsX|]. split; [exact WsX|].
  (* ---- the formula ---- *)
  intros i Hv.
  assert (Hj : validIdx (del dim ds) (del dim i)) by (apply vi_del; exact Hv).
  assert (Hdl : (dim <= length (del dim ds))%nat) by (rewrite del_length by exact Hl; lia).
  set (j := del dim i) in *. set (Sg := elt sv j).
  assert (HS0 : Sg <> 0) by (pose proof (Spos j Hj); unfold Sg; lra).
  assert (Hq : forall k, (k < n)%nat -> validIdx ds (ins dim k j)) by (intros k Hk; apply vi_ins; assumption).
  assert (Sq : forall k, (k < n)%nat -> elt subv (ins dim k j) = Sg).
  { intros k Hk. rewrite (Fsub _ (Hq k Hk)). rewrite del_ins by (rewrite (validIdx_len _ _ Hj); exact Hdl). reflexivity. }
  set (Sig := sumN n (fun k => elt exv (ins dim k j) * elt gy (ins dim k j))).
  assert (S4 : sumN n (fun k => elt g4 (ins dim k j)) = (- / Sg ^ 2) * Sig).
  { unfold Sig. rewrite <- sumN_scal. apply VjpGatherP.sumN_ext. intros k Hk.
    rewrite Gg4 by (rewrite Dsub; apply Hq; exact Hk). rewrite (Sq k Hk). field. exact HS0. }
  assert (Sy : sumN n (fun k => elt yv (setAt dim k i) * elt gy (setAt dim k i)) = (/ Sg) * Sig).
  { unfold Sig. rewrite <- sumN_scal. apply VjpGatherP.sumN_ext. intros k Hk. unfold setAt. fold j.
    rewrite (Fy _ (Hq k Hk)), (Sq k Hk). field. exact HS0. }
  rewrite (GsX i Hv), GgX by (rewrite Dex; exact Hv). rewrite (GsE i Hv). cbn [prior].
  rewrite GgA by (rewrite Dex; exact Hv). fold j.
  rewrite Gg1 by (rewrite Ds; exact Hj). rewrite Dg2, Ds, (unflat_unsq dim (del dim ds) j Hdl Hj).
  rewrite (Gg2 j Hj). fold n. rewrite S4.
  rewrite Gg3 by (rewrite Dsub; exact Hv).
  rewrite Sy, (Fy i Hv), (Fsub i Hv). fold j. fold Sg. field. exact HS0.
Qed.

End R.
