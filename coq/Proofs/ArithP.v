(* ArithP.v — Add / Sub / Mul / Div (cputensor.go: broadcastForBinaryOp, then
   applyBinaryFuncOnTensorsElemWise) with implicit NumPy-style broadcasting (property C03).
   Arbitrary element type, no Scalar laws: the element formulas are exact expressions. *)
From Coq Require Import List Arith ZArith Bool Lia.
From Qeep Require Import Model.Scalar Model.Nd Model.Fill Model.Data Model.Valid Model.Api.
From Qeep Require Import Proofs.NdP Proofs.FillP Proofs.OdometerP Proofs.ReshapeP Proofs.ElemP Proofs.BroadcastP.
Import ListNotations.

(* ---------- shape facts ---------- *)

Lemma compat2R_dec r1 : forall r2, {compat2R r1 r2} + {~ compat2R r1 r2}.
Proof.
  induction r1 as [|a r1 IH]; intros [|b r2]; cbn [compat2R]; try (left; exact I).
  destruct (IH r2) as [H|H].
  - destruct (Nat.eq_dec a b) as [E|E]; [left; auto|].
    destruct (Nat.eq_dec a 1) as [E1|E1]; [left; auto|].
    destruct (Nat.eq_dec b 1) as [E2|E2]; [left; auto|].
    right. intros [[X|[X|X]] _]; contradiction.
  - right. intros [_ H']. contradiction.
Qed.

Lemma bcompat2_dec d1 d2 : {bcompat2 d1 d2} + {~ bcompat2 d1 d2}.
Proof. apply compat2R_dec. Qed.

Lemma compat2R_refl r : compat2R r r.
Proof. induction r as [|a r IH]; cbn; auto. Qed.

Lemma bcompat2_refl ds : bcompat2 ds ds.
Proof. apply compat2R_refl. Qed.

Lemma bcompat_refl ds : bcompat ds ds.
Proof. apply bcompat_compatR, compatR_refl. Qed.

Lemma tbdRev_id r : tbdRev r r = r.
Proof. induction r as [|a r IH]; cbn [tbdRev]; [reflexivity|]. rewrite IH, Nat.max_id. reflexivity. Qed.

Lemma targetBroadcastDims_id ds : targetBroadcastDims ds ds = ds.
Proof. unfold targetBroadcastDims. rewrite tbdRev_id. apply rev_involutive. Qed.

(* no expansion: the projection of an index onto an identical shape is the index itself *)
Lemma bproj_id ds idx : validIdx ds idx -> bproj ds ds idx = idx.
Proof.
  intros Hv. unfold bproj. rewrite Nat.sub_diag. cbn [skipn]. unfold validIdx in Hv.
  induction Hv as [|i d idx ds Hi _ IH]; cbn [combine map fst snd]; [reflexivity|].
  rewrite IH. f_equal. destruct (Nat.eqb_spec d 1) as [E|E]; lia.
Qed.

Section ArithP.
Context {A : Type} {SA : Scalar A}.
Notation T := (tensor A).

(* ---------- broadcasting to one's own shape is the identity ---------- *)

Lemma broadcast_id (t : T) : wf t -> broadcast t (dims t) = Some t.
Proof.
  intros Ht.
  destruct (broadcast_spec A t (dims t) Ht (proj2 Ht) (bcompat_refl _)) as (r & Er & Hd & [Hwr _] & Hg).
  rewrite Er. f_equal. destruct Ht as [Hwt _].
  destruct r as [rd rx]. destruct t as [td tx]. cbn [dims data] in *. subst rd. f_equal.
  apply (nd_ext A td); [exact Hwr|exact Hwt|]. intros idx Hv.
  rewrite (Hg idx Hv), bproj_id by exact Hv. reflexivity.
Qed.

Lemma v_broadcast_id (t : T) : wf t -> v_broadcast t (map Z.of_nat (dims t)) = Ok t.
Proof.
  intros Ht. unfold v_broadcast, guard.
  assert (H1 : validateInputDims (map Z.of_nat (dims t)) = true)
    by (apply validateInputDims_iff, of_nat_pos; exact (proj2 Ht)).
  assert (H2 : validateBroadcast (zdims t) (map Z.of_nat (dims t)) = true)
    by (unfold zdims; apply validateBroadcast_iff, bcompat_refl).
  rewrite H1, H2, natsOf_of_nat, broadcast_id by exact Ht. reflexivity.
Qed.

(* an Ok result of the public Broadcast is the broadcast of its argument *)
Lemma v_broadcast_ok_inv (t r : T) shape : wf t -> v_broadcast t shape = Ok r -> broadcasted A t r (natsOf shape).
Proof.
  intros Ht E. destruct (v_broadcast_spec A t shape Ht) as [H1 H2].
  destruct (validateInputDims shape && validateBroadcast (zdims t) shape).
  - destruct (H1 eq_refl) as (r' & Er' & Hb). rewrite Er' in E. inversion E; subst r'. exact Hb.
  - rewrite (H2 eq_refl) in E. discriminate.
Qed.

(* ---------- 1. the main theorem ---------- *)

Theorem v_arith_spec (b : binary) (t u : T) : wf t -> wf u ->
  let target := targetBroadcastDims (dims t) (dims u) in
  (bcompat2 (dims t) (dims u) ->
     exists r, v_arith b t u = Ok r /\ dims r = target /\ wf r /\
       forall idx, validIdx target idx ->
         get (data r) idx =
         match get (data t) (bproj (dims t) target idx), get (data u) (bproj (dims u) target idx) with
         | Some x, Some y => Some (binaryF b x y)
         | _, _ => None
         end) /\
  (~ bcompat2 (dims t) (dims u) -> v_arith b t u = Err).
Proof.
  intros Ht Hu. cbv zeta. pose proof (v_bcast2_spec t u Ht Hu) as H. cbv zeta in H. destruct H as [H1 H2]. split.
  - intros Hc. destruct (H1 Hc) as (t1 & u1 & E & (Hd1 & Hw1 & Hg1) & (Hd2 & Hw2 & Hg2)).
    unfold v_arith. rewrite E. cbn [res_bind fst snd].
    assert (Hdd : dims t1 = dims u1) by congruence.
    destruct (apply2_spec (binaryF b) t1 u1 Hw1 Hw2 Hdd) as (r & Er & Hdr & Hwr & Hgr).
    rewrite Er. cbn [of_opt]. exists r. split; [reflexivity|]. split; [congruence|]. split; [exact Hwr|].
    intros idx Hv. rewrite Hd1 in Hgr. rewrite (Hgr idx Hv), (Hg1 idx Hv), (Hg2 idx Hv). reflexivity.
  - intros Hn. unfold v_arith. rewrite (H2 Hn). reflexivity.
Qed.

(* the elements read always exist: the formula with the two source elements named *)
Corollary v_arith_get (b : binary) (t u : T) : wf t -> wf u -> bcompat2 (dims t) (dims u) ->
  let target := targetBroadcastDims (dims t) (dims u) in
  exists r, v_arith b t u = Ok r /\ dims r = target /\ wf r /\
    forall idx, validIdx target idx ->
      exists x y, get (data t) (bproj (dims t) target idx) = Some x /\
                  get (data u) (bproj (dims u) target idx) = Some y /\
                  get (data r) idx = Some (binaryF b x y).
Proof.
  intros Ht Hu Hc. cbv zeta. pose proof (v_arith_spec b t u Ht Hu) as H. cbv zeta in H. destruct H as [H _].
  destruct (H Hc) as (r & Er & Hd & Hw & Hg). exists r. repeat (split; [assumption|]). intros idx Hv.
  apply (targetBroadcastDims_compat _ _ (proj2 Ht) (proj2 Hu)) in Hc as [Hc1 Hc2].
  destruct (get_wf A _ _ _ (proj1 Ht) (bproj_valid _ _ _ Hc1 Hv)) as (x & Ex).
  destruct (get_wf A _ _ _ (proj1 Hu) (bproj_valid _ _ _ Hc2 Hv)) as (y & Ey).
  exists x, y. rewrite (Hg idx Hv), Ex, Ey. auto.
Qed.

Corollary v_arith_ok_iff (b : binary) (t u : T) : wf t -> wf u ->
  ((exists r, v_arith b t u = Ok r) <-> bcompat2 (dims t) (dims u)) /\ v_arith b t u <> Panic.
Proof.
  intros Ht Hu. pose proof (v_arith_spec b t u Ht Hu) as H. cbv zeta in H. destruct H as [H1 H2].
  destruct (bcompat2_dec (dims t) (dims u)) as [Hc|Hn].
  - destruct (H1 Hc) as (r & Er & _). split; [split; [intros _; exact Hc|intros _; exists r; exact Er]|].
    rewrite Er. discriminate.
  - rewrite (H2 Hn). split; [split; [intros (r & Er); discriminate|intros Hc; contradiction]|discriminate].
Qed.

(* ---------- 2. implicit = explicit broadcasting ---------- *)

Theorem v_arith_eq_explicit (b : binary) (t u t1 u1 : T) : wf t -> wf u ->
  let target := map Z.of_nat (targetBroadcastDims (dims t) (dims u)) in
  v_broadcast t target = Ok t1 -> v_broadcast u target = Ok u1 ->
  v_arith b t u = of_opt (apply2 (binaryF b) t1 u1) /\
  v_arith b t u = v_same b t1 u1 /\
  v_arith b t u = v_arith b t1 u1.
Proof.
  intros Ht Hu. cbv zeta. intros E1 E2.
  assert (E0 : v_arith b t u = of_opt (apply2 (binaryF b) t1 u1)).
  { unfold v_arith, v_bcast2. rewrite E1. cbn [res_bind]. rewrite E2. reflexivity. }
  pose proof (v_broadcast_ok_inv t t1 _ Ht E1) as (Hd1 & Hw1 & _).
  pose proof (v_broadcast_ok_inv u u1 _ Hu E2) as (Hd2 & Hw2 & _).
  rewrite natsOf_of_nat in Hd1, Hd2.
  assert (Hdd : dims t1 = dims u1) by congruence.
  split; [exact E0|]. split.
  - rewrite E0. unfold v_same, guard.
    rewrite (proj2 (validateBinaryFuncDimsMatch_spec t1 u1) Hdd). reflexivity.
  - rewrite E0. unfold v_arith, v_bcast2. rewrite <- Hdd, targetBroadcastDims_id.
    rewrite (v_broadcast_id t1 Hw1). cbn [res_bind]. rewrite Hdd, (v_broadcast_id u1 Hw2). reflexivity.
Qed.

(* ---------- 3. equal shapes: no expansion ---------- *)

Theorem v_arith_same_dims (b : binary) (t u : T) : wf t -> wf u -> dims t = dims u ->
  v_arith b t u = of_opt (apply2 (binaryF b) t u) /\
  v_arith b t u = v_same b t u /\
  exists r, v_arith b t u = Ok r /\ dims r = dims t /\ wf r /\
    forall idx, validIdx (dims t) idx ->
      exists x y, get (data t) idx = Some x /\ get (data u) idx = Some y /\
                  get (data r) idx = Some (binaryF b x y).
Proof.
  intros Ht Hu E.
  assert (Et : v_broadcast t (map Z.of_nat (targetBroadcastDims (dims t) (dims u))) = Ok t)
    by (rewrite <- E, targetBroadcastDims_id; apply v_broadcast_id, Ht).
  assert (Eu : v_broadcast u (map Z.of_nat (targetBroadcastDims (dims t) (dims u))) = Ok u)
    by (rewrite E, targetBroadcastDims_id; apply v_broadcast_id, Hu).
  pose proof (v_arith_eq_explicit b t u t u Ht Hu) as H. cbv zeta in H.
  destruct (H Et Eu) as (E0 & E1 & _). split; [exact E0|]. split; [exact E1|].
  destruct (apply2_spec (binaryF b) t u Ht Hu E) as (r & Er & Hd & Hw & Hg).
  exists r. rewrite E0, Er. split; [reflexivity|]. split; [exact Hd|]. split; [exact Hw|].
  intros idx Hv.
  destruct (get_wf A _ _ _ (proj1 Ht) Hv) as (x & Ex).
  pose proof Hv as Hv'. rewrite E in Hv'.
  destruct (get_wf A _ _ _ (proj1 Hu) Hv') as (y & Ey).
  exists x, y. rewrite (Hg idx Hv), Ex, Ey. auto.
Qed.

End ArithP.

(* ---------- examples: the hypotheses are satisfiable, the conclusions non-trivial ---------- *)
Module ArithExamples.

Definition b2n (b : bool) : nat := if b then 1 else 0.
#[local] Instance nat_scalar : Scalar nat := {|
  s0 := 0; s1 := 1;
  sadd := Nat.add; ssub := Nat.sub; smul := Nat.mul; sdiv := Nat.div; spow := Nat.pow;
  sexp := fun a => 2 ^ a; slog := Nat.log2; ssin := fun a => a; scos := fun a => a; stan := fun a => a;
  ssinh := fun a => a; scosh := fun a => a; stanh := fun a => a; ssqrt := Nat.sqrt;
  smax := Nat.max; smin := Nat.min;
  sselgt := fun a b => if b <? a then a else b; ssellt := fun a b => if a <? b then a else b;
  seqt := fun a b => b2n (a =? b); snet := fun a b => b2n (negb (a =? b));
  sgt := fun a b => b2n (b <? a); sge := fun a b => b2n (b <=? a);
  slt := fun a b => b2n (a <? b); sle := fun a b => b2n (a <=? b);
  sgeb := fun a b => b2n (b <=? a); strunc := fun a => a; sofnat := fun n => n;
  sconst := fun m e => Z.to_nat m; sneginf := 0; sposinf := 1000; srnd := fun _ k => k
|}.

Definition a21 : tensor nat := mkT [2; 1] (Vec [Vec [Sc 10]; Vec [Sc 20]]).
Definition a13 : tensor nat := mkT [1; 3] (Vec [Vec [Sc 1; Sc 2; Sc 3]]).
Definition a3 : tensor nat := mkT [3] (Vec [Sc 1; Sc 2; Sc 3]).
Definition a2 : tensor nat := mkT [2] (Vec [Sc 1; Sc 2]).
Definition a0 : tensor nat := mkT [] (Sc 7).

Lemma wf_a21 : wf a21. Proof. split; cbn; repeat constructor. Qed.
Lemma wf_a13 : wf a13. Proof. split; cbn; repeat constructor. Qed.
Lemma wf_a3 : wf a3. Proof. split; cbn; repeat constructor. Qed.
Lemma wf_a2 : wf a2. Proof. split; cbn; repeat constructor. Qed.

Example hyp_ok : bcompat2 (dims a21) (dims a13) /\ targetBroadcastDims (dims a21) (dims a13) = [2; 3].
Proof. split; [cbn; auto|reflexivity]. Qed.

Example v_arith_ex :
  v_arith BiAdd a21 a13 = Ok (mkT [2; 3] (Vec [Vec [Sc 11; Sc 12; Sc 13]; Vec [Sc 21; Sc 22; Sc 23]])) /\
  v_arith BiSub a21 a3 = Ok (mkT [2; 3] (Vec [Vec [Sc 9; Sc 8; Sc 7]; Vec [Sc 19; Sc 18; Sc 17]])) /\
  v_arith BiMul a0 a3 = Ok (mkT [3] (Vec [Sc 7; Sc 14; Sc 21])) /\
  v_arith BiDiv a21 a21 = Ok (mkT [2; 1] (Vec [Vec [Sc 1]; Vec [Sc 1]])).
Proof. vm_compute. auto. Qed.

Example v_arith_err_hyp : ~ bcompat2 (dims a3) (dims a2).
Proof. cbn. intros [[H|[H|H]] _]; discriminate. Qed.
Example v_arith_err : v_arith BiAdd a3 a2 = Err.
Proof. apply (v_arith_spec BiAdd a3 a2 wf_a3 wf_a2), v_arith_err_hyp. Qed.

(* through the theorem: element [1;2] of a21 - a13 is 20 - 3 *)
Example v_arith_spec_ex : exists r, v_arith BiSub a21 a13 = Ok r /\ dims r = [2; 3] /\ get (data r) [1; 2] = Some 17.
Proof.
  pose proof (v_arith_spec BiSub a21 a13 wf_a21 wf_a13) as H. cbv zeta in H. destruct H as [H _].
  destruct (H (proj1 hyp_ok)) as (r & Er & Hd & _ & Hg). exists r. split; [exact Er|]. split; [exact Hd|].
  rewrite Hg by (repeat constructor). reflexivity.
Qed.

Example v_arith_eq_explicit_ex :
  exists t1 u1, v_broadcast a21 [2%Z; 3%Z] = Ok t1 /\ v_broadcast a13 [2%Z; 3%Z] = Ok u1 /\
                v_arith BiAdd a21 a13 = v_same BiAdd t1 u1.
Proof. eexists _, _. vm_compute. auto. Qed.

End ArithExamples.

Print Assumptions v_arith_spec.
Print Assumptions v_arith_get.
Print Assumptions v_arith_ok_iff.
Print Assumptions broadcast_id.
Print Assumptions v_arith_eq_explicit.
Print Assumptions v_arith_same_dims.
