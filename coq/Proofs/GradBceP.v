(* GradBceP.v — C13 for the binary cross-entropy loss.  Built on Proofs/GradLossP.v. *)
From Coq Require Import List Arith ZArith Bool Lia Reals Lra.
From Coquelicot Require Import Coquelicot.
From Qeep Require Import Model.Scalar Model.Nd Model.Fill Model.Data Model.Valid Model.Api Model.Grad Model.Backprop
  Model.Components.
From Qeep Require Import Spec.RScalar Spec.VjpSpec.
From Qeep Require Import Proofs.NdP Proofs.ElemP Proofs.BroadcastP Proofs.ReduceP Proofs.ReduceRP Proofs.CompP Proofs.LossP
  Proofs.VjpElemP Proofs.VjpReduceP Proofs.TrackP Proofs.BackpropP Proofs.CompRP Proofs.GradLossP.
Import ListNotations.
Local Open Scope nat_scope.

Section BceStructure.
Context {A : Type} {SA : Scalar A}.
Notation T := (tensor A).
Notation heap := (@heap A).
Notation rule := (@rule A).
Notation c0 := (@cst A SA 0 0).
Notation c1 := (@cst A SA 1 0).
Notation cm1 := (@cst A SA (-1) 0).
Variables (eps ome : A).

(* the thirty nodes BCE.Compute appends; tp = is the prediction tracked *)
Definition bce_nodes (L p t : nat) (tp : bool) (name : option nat)
  (a0 a1 a2 a3 a4 b0 b1 b2 b3 b4 lpv k1 k2 sAv one2 d1 d2 t2v e1 e2 y2v ly2v f1 f2 sBv g1 g2 lv lnv lossv : T)
  : heap :=
  [ xnode a0 false [(t, RPow (L + 0) t c0 true)] None;
    xnode a1 false [(L + 0, RScale (L + 1) c0)] None;
    xnode a2 false [(L + 0, RScale (L + 2) c1)] None;
    xnode a3 false [(t, RElSel (L + 3) t (L + 2)); (L + 2, RElSel (L + 3) (L + 2) t)] None;
    xnode a4 false [(L + 1, RElSel (L + 4) (L + 1) (L + 3)); (L + 3, RElSel (L + 4) (L + 3) (L + 1))] None;
    xnode b0 tp [(p, RPow (L + 5) p c0 true)] None;
    xnode b1 tp [(L + 5, RScale (L + 6) eps)] None;
    xnode b2 tp [(L + 5, RScale (L + 7) ome)] None;
    xnode b3 tp [(p, RElSel (L + 8) p (L + 7)); (L + 7, RElSel (L + 8) (L + 7) p)] None;
    xnode b4 tp [(L + 6, RElSel (L + 9) (L + 6) (L + 8)); (L + 8, RElSel (L + 9) (L + 8) (L + 6))] None;
    xnode lpv tp [(L + 9, RLog (L + 10) (L + 9))] None;
    xnode k1 false [(L + 4, RBroadcast (L + 11) (L + 4))] None;
    xnode k2 tp [(L + 10, RBroadcast (L + 12) (L + 10))] None;
    xnode sAv tp (arithEdges BiMul (L + 13) (L + 11) (L + 12)) None;
    xnode one2 tp [(L + 9, RPow (L + 14) (L + 9) c0 true)] None;
    xnode d1 tp [(L + 14, RBroadcast (L + 15) (L + 14))] None;
    xnode d2 false [(L + 4, RBroadcast (L + 16) (L + 4))] None;
    xnode t2v tp (arithEdges BiSub (L + 17) (L + 15) (L + 16)) None;
    xnode e1 tp [(L + 14, RBroadcast (L + 18) (L + 14))] None;
    xnode e2 tp [(L + 9, RBroadcast (L + 19) (L + 9))] None;
    xnode y2v tp (arithEdges BiSub (L + 20) (L + 18) (L + 19)) None;
    xnode ly2v tp [(L + 20, RLog (L + 21) (L + 20))] None;
    xnode f1 tp [(L + 17, RBroadcast (L + 22) (L + 17))] None;
    xnode f2 tp [(L + 21, RBroadcast (L + 23) (L + 21))] None;
    xnode sBv tp (arithEdges BiMul (L + 24) (L + 22) (L + 23)) None;
    xnode g1 tp [(L + 13, RBroadcast (L + 25) (L + 13))] None;
    xnode g2 tp [(L + 24, RBroadcast (L + 26) (L + 24))] None;
    xnode lv tp (arithEdges BiAdd (L + 27) (L + 25) (L + 26)) None;
    xnode lnv tp [(L + 27, RScale (L + 28) cm1)] None;
    xnode lossv tp [(L + 28, RAvgAlong (L + 29) (L + 28) 0%Z)] name ].

Definition bshape (x u : T) : list Z := map Z.of_nat (targetBroadcastDims (dims x) (dims u)).

(* the forward equations between the thirty values *)
Definition bce_fwd (pv tv : T)
  (a0 a1 a2 a3 a4 b0 b1 b2 b3 b4 lpv k1 k2 sAv one2 d1 d2 t2v e1 e2 y2v ly2v f1 f2 sBv g1 g2 lv lnv lossv : T) : Prop :=
  v_unary (UPow c0) tv = Ok a0 /\ v_unary (UScale c0) a0 = Ok a1 /\ v_unary (UScale c1) a0 = Ok a2 /\
  v_same BiElMin tv a2 = Ok a3 /\ v_same BiElMax a1 a3 = Ok a4 /\
  v_unary (UPow c0) pv = Ok b0 /\ v_unary (UScale eps) b0 = Ok b1 /\ v_unary (UScale ome) b0 = Ok b2 /\
  v_same BiElMin pv b2 = Ok b3 /\ v_same BiElMax b1 b3 = Ok b4 /\
  v_unary ULn b4 = Ok lpv /\
  v_broadcast a4 (bshape a4 lpv) = Ok k1 /\ v_broadcast lpv (bshape a4 lpv) = Ok k2 /\ apply2 (binaryF BiMul) k1 k2 = Some sAv /\
  v_unary (UPow c0) b4 = Ok one2 /\
  v_broadcast one2 (bshape one2 a4) = Ok d1 /\ v_broadcast a4 (bshape one2 a4) = Ok d2 /\ apply2 (binaryF BiSub) d1 d2 = Some t2v /\
  v_broadcast one2 (bshape one2 b4) = Ok e1 /\ v_broadcast b4 (bshape one2 b4) = Ok e2 /\ apply2 (binaryF BiSub) e1 e2 = Some y2v /\
  v_unary ULn y2v = Ok ly2v /\
  v_broadcast t2v (bshape t2v ly2v) = Ok f1 /\ v_broadcast ly2v (bshape t2v ly2v) = Ok f2 /\ apply2 (binaryF BiMul) f1 f2 = Some sBv /\
  v_broadcast sAv (bshape sAv sBv) = Ok g1 /\ v_broadcast sBv (bshape sAv sBv) = Ok g2 /\ apply2 (binaryF BiAdd) g1 g2 = Some lv /\
  v_unary (UScale cm1) lv = Ok lnv /\ v_reduceAlong RdMean lnv 0%Z = Ok lossv.

Ltac norm_heap := rewrite <- ?app_assoc in *; cbn [app length Nat.add] in *.
Ltac side_off := first [ rewrite trackedOf_off; reflexivity | rewrite dirtyOf_off; reflexivity
                       | rewrite trackedOf_app by assumption; assumption | rewrite dirtyOf_app by assumption; assumption ].

Ltac look V := rewrite valOf_off in V; cbn [valOf nth_error obind nval xnode] in V; inversion V; clear V.
Ltac flags := rewrite ?orb_false_r, ?orb_diag in *; cbn [orb] in *.

Lemma bce_structure (h : heap) p t name h1 l tp pv tv :
  valOf h p = Some pv -> valOf h t = Some tv ->
  trackedOf h p = tp -> dirtyOf h p = false -> trackedOf h t = false -> dirtyOf h t = false ->
  lossArgs1 h (Some p) (Some t) = Some (p, t) ->
  bce_compute eps ome h (Some p) (Some t) name = (h1, Ok l) ->
  exists a0 a1 a2 a3 a4 b0 b1 b2 b3 b4 lpv k1 k2 sAv one2 d1 d2 t2v e1 e2 y2v ly2v f1 f2 sBv g1 g2 lv lnv lossv,
    bce_fwd pv tv a0 a1 a2 a3 a4 b0 b1 b2 b3 b4 lpv k1 k2 sAv one2 d1 d2 t2v e1 e2 y2v ly2v f1 f2 sBv g1 g2 lv lnv lossv /\
    l = length h + 29 /\
    h1 = h ++ bce_nodes (length h) p t tp name
                a0 a1 a2 a3 a4 b0 b1 b2 b3 b4 lpv k1 k2 sAv one2 d1 d2 t2v e1 e2 y2v ly2v f1 f2 sBv g1 g2 lv lnv lossv.
Proof.
  intros Vp Vt Tp Dp Tt Dt Ea E. unfold bce_compute in E. rewrite Ea in E. apply atomically_ok in E.
  assert (Hp : p < length h) by (eapply valOf_some_lt; eauto).
  assert (Ht : t < length h) by (eapply valOf_some_lt; eauto).
  apply hbind_ok in E as (hh1 & ytc & E1 & E). apply hbind_ok in E as (hh2 & ypc & E2 & E).
  apply hbind_ok in E as (hh3 & lp & E3 & E). apply hbind_ok in E as (hh4 & sA & E4 & E).
  apply hbind_ok in E as (hh5 & one & E5 & E). apply hbind_ok in E as (hh6 & t2 & E6 & E).
  apply hbind_ok in E as (hh7 & y2 & E7 & E). apply hbind_ok in E as (hh8 & ly2 & E8 & E).
  apply hbind_ok in E as (hh9 & sB & E9 & E). apply hbind_ok in E as (hh10 & ll & E10 & E).
  apply hbind_ok in E as (hh11 & ln & E11 & E12).
  (* clip t *)
  rewrite <- (app_nil_r h) in E1.
  apply (clip_X h [] t c0 c1 hh1 ytc false) in E1; [|rewrite app_nil_r; exact Tt|rewrite app_nil_r; exact Dt].
  cbv zeta in E1. destruct E1 as (tv' & a0 & a1 & a2 & a3 & a4 & Vt' & Fa0 & Fa1 & Fa2 & Fa3 & Fa4 & -> & ->).
  rewrite app_nil_r in Vt'. assert (tv' = tv) by congruence. subst tv'. clear Vt'. norm_heap.
  (* clip p *)
  match type of E2 with clip (h ++ ?l) _ _ _ = _ =>
    apply (clip_X h l p eps ome hh2 ypc tp) in E2; [|side_off|side_off] end.
  cbv zeta in E2. destruct E2 as (pv' & b0 & b1 & b2 & b3 & b4 & Vp' & Fb0 & Fb1 & Fb2 & Fb3 & Fb4 & -> & ->).
  rewrite valOf_app in Vp' by exact Hp. assert (pv' = pv) by congruence. subst pv'. clear Vp'. norm_heap.
  (* lp = Log ypc *)
  unfold h_math in E3. cbn [mathUnary mathRule] in E3.
  match type of E3 with h_op1 (h ++ ?l) _ _ _ _ = _ => apply (op1_X h l _ _ _ _ _ _ tp) in E3; [|side_off|side_off] end.
  destruct E3 as (x1 & lpv & V1 & Flp & -> & ->). look V1. subst x1. norm_heap.
  (* sA = ytc * lp *)
  match type of E4 with h_arith (h ++ ?l) _ _ _ _ = _ =>
    apply (arith_X h l _ _ _ _ _ _ false tp) in E4; [|side_off|side_off|side_off|side_off] end.
  cbv zeta in E4. destruct E4 as (x1 & x2 & k1 & k2 & sAv & V1 & V2 & Fk1 & Fk2 & FsA & -> & ->).
  look V1. look V2. subst x1 x2. flags. norm_heap.
  (* one = ypc ^ 0 *)
  unfold h_pow in E5.
  match type of E5 with h_op1 (h ++ ?l) _ _ _ _ = _ => apply (op1_X h l _ _ _ _ _ _ tp) in E5; [|side_off|side_off] end.
  destruct E5 as (x1 & one2 & V1 & Fone2 & -> & ->). look V1. subst x1. norm_heap.
  (* t2 = one - ytc *)
  match type of E6 with h_arith (h ++ ?l) _ _ _ _ = _ =>
    apply (arith_X h l _ _ _ _ _ _ tp false) in E6; [|side_off|side_off|side_off|side_off] end.
  cbv zeta in E6. destruct E6 as (x1 & x2 & d1 & d2 & t2v & V1 & V2 & Fd1 & Fd2 & Ft2 & -> & ->).
  look V1. look V2. subst x1 x2. flags. norm_heap.
  (* y2 = one - ypc *)
  match type of E7 with h_arith (h ++ ?l) _ _ _ _ = _ =>
    apply (arith_X h l _ _ _ _ _ _ tp tp) in E7; [|side_off|side_off|side_off|side_off] end.
  cbv zeta in E7. destruct E7 as (x1 & x2 & e1 & e2 & y2v & V1 & V2 & Fe1 & Fe2 & Fy2 & -> & ->).
  look V1. look V2. subst x1 x2. flags. norm_heap.
  (* ly2 = Log y2 *)
  unfold h_math in E8. cbn [mathUnary mathRule] in E8.
  match type of E8 with h_op1 (h ++ ?l) _ _ _ _ = _ => apply (op1_X h l _ _ _ _ _ _ tp) in E8; [|side_off|side_off] end.
  destruct E8 as (x1 & ly2v & V1 & Fly2 & -> & ->). look V1. subst x1. norm_heap.
  (* sB = t2 * ly2 *)
  match type of E9 with h_arith (h ++ ?l) _ _ _ _ = _ =>
    apply (arith_X h l _ _ _ _ _ _ tp tp) in E9; [|side_off|side_off|side_off|side_off] end.
  cbv zeta in E9. destruct E9 as (x1 & x2 & f1 & f2 & sBv & V1 & V2 & Ff1 & Ff2 & FsB & -> & ->).
  look V1. look V2. subst x1 x2. flags. norm_heap.
  (* l = sA + sB *)
  match type of E10 with h_arith (h ++ ?l) _ _ _ _ = _ =>
    apply (arith_X h l _ _ _ _ _ _ tp tp) in E10; [|side_off|side_off|side_off|side_off] end.
  cbv zeta in E10. destruct E10 as (x1 & x2 & g1 & g2 & lv & V1 & V2 & Fg1 & Fg2 & Fl & -> & ->).
  look V1. look V2. subst x1 x2. flags. norm_heap.
  (* ln = -l *)
  unfold h_scale in E11.
  match type of E11 with h_op1 (h ++ ?l) _ _ _ _ = _ => apply (op1_X h l _ _ _ _ _ _ tp) in E11; [|side_off|side_off] end.
  destruct E11 as (x1 & lnv & V1 & Fln & -> & ->). look V1. subst x1. norm_heap.
  (* loss = mean *)
  unfold h_reduceAlong in E12. cbn [alongRule] in E12.
  match type of E12 with h_op1 (h ++ ?l) _ _ _ _ = _ => apply (op1_X h l _ _ _ _ _ _ tp) in E12; [|side_off|side_off] end.
  destruct E12 as (x1 & lossv & V1 & Floss & -> & ->). look V1. subst x1. norm_heap.
  exists a0, a1, a2, a3, a4, b0, b1, b2, b3, b4, lpv, k1, k2, sAv, one2, d1, d2, t2v, e1, e2, y2v, ly2v, f1, f2, sBv, g1, g2, lv, lnv, lossv.
  split; [unfold bce_fwd, bshape; repeat (split; [assumption|]); assumption|]. split; reflexivity.
Qed.
End BceStructure.
