(* GradBceP.v — C13 for the binary cross-entropy loss.  Built on Proofs/GradLossP.v. *)
From Coq Require Import List Arith ZArith Bool Lia Reals Lra.
From Coquelicot Require Import Coquelicot.
From Qeep Require Import Model.Scalar Model.Nd Model.Fill Model.Data Model.Valid Model.Api Model.Grad Model.Backprop
  Model.Components.
From Qeep Require Import Spec.RScalar Spec.VjpSpec.
From Qeep Require Import Proofs.NdP Proofs.ElemP Proofs.BroadcastP Proofs.ReduceP Proofs.ReduceRP Proofs.CompP Proofs.LossP
  Proofs.VjpElemP Proofs.VjpReduceP Proofs.TrackP Proofs.BackpropP Proofs.CompRP Proofs.GradLossP.
Import ListNotations.
Local Open Scope nat_scope.

Section BceStructure.
Context {A : Type} {SA : Scalar A}.
Notation T := (tensor A).
Notation heap := (@heap A).
Notation rule := (@rule A).
Notation c0 := (@cst A SA 0 0).
Notation c1 := (@cst A SA 1 0).
Notation cm1 := (@cst A SA (-1) 0).
Variables (eps ome : A).

(* the thirty nodes BCE.Compute appends; tp = is the prediction tracked *)
Definition bce_nodes (L p t : nat) (tp : bool) (name : option nat)
  (a0 a1 a2 a3 a4 b0 b1 b2 b3 b4 lpv k1 k2 sAv one2 d1 d2 t2v e1 e2 y2v ly2v f1 f2 sBv g1 g2 lv lnv lossv : T)
  : heap :=
  [ xnode a0 false [(t, RPow (L + 0) t c0 true)] None;
    xnode a1 false [(L + 0, RScale (L + 1) c0)] None;
    xnode a2 false [(L + 0, RScale (L + 2) c1)] None;
    xnode a3 false [(t, RElSel (L + 3) t (L + 2)); (L + 2, RElSel (L + 3) (L + 2) t)] None;
    xnode a4 false [(L + 1, RElSel (L + 4) (L + 1) (L + 3)); (L + 3, RElSel (L + 4) (L + 3) (L + 1))] None;
    xnode b0 tp [(p, RPow (L + 5) p c0 true)] None;
    xnode b1 tp [(L + 5, RScale (L + 6) eps)] None;
    xnode b2 tp [(L + 5, RScale (L + 7) ome)] None;
    xnode b3 tp [(p, RElSel (L + 8) p (L + 7)); (L + 7, RElSel (L + 8) (L + 7) p)] None;
    xnode b4 tp [(L + 6, RElSel (L + 9) (L + 6) (L + 8)); (L + 8, RElSel (L + 9) (L + 8) (L + 6))] None;
    xnode lpv tp [(L + 9, RLog (L + 10) (L + 9))] None;
    xnode k1 false [(L + 4, RBroadcast (L + 11) (L + 4))] None;
    xnode k2 tp [(L + 10, RBroadcast (L + 12) (L + 10))] None;
    xnode sAv tp (arithEdges BiMul (L + 13) (L + 11) (L + 12)) None;
    xnode one2 tp [(L + 9, RPow (L + 14) (L + 9) c0 true)] None;
    xnode d1 tp [(L + 14, RBroadcast (L + 15) (L + 14))] None;
    xnode d2 false [(L + 4, RBroadcast (L + 16) (L + 4))] None;
    xnode t2v tp (arithEdges BiSub (L + 17) (L + 15) (L + 16)) None;
    xnode e1 tp [(L + 14, RBroadcast (L + 18) (L + 14))] None;
    xnode e2 tp [(L + 9, RBroadcast (L + 19) (L + 9))] None;
    xnode y2v tp (arithEdges BiSub (L + 20) (L + 18) (L + 19)) None;
    xnode ly2v tp [(L + 20, RLog (L + 21) (L + 20))] None;
    xnode f1 tp [(L + 17, RBroadcast (L + 22) (L + 17))] None;
    xnode f2 tp [(L + 21, RBroadcast (L + 23) (L + 21))] None;
    xnode sBv tp (arithEdges BiMul (L + 24) (L + 22) (L + 23)) None;
    xnode g1 tp [(L + 13, RBroadcast (L + 25) (L + 13))] None;
    xnode g2 tp [(L + 24, RBroadcast (L + 26) (L + 24))] None;
    xnode lv tp (arithEdges BiAdd (L + 27) (L + 25) (L + 26)) None;
    xnode lnv tp [(L + 27, RScale (L + 28) cm1)] None;
    xnode lossv tp [(L + 28, RAvgAlong (L + 29) (L + 28) 0%Z)] name ].

Definition bshape (x u : T) : list Z := map Z.of_nat (targetBroadcastDims (dims x) (dims u)).

(* the forward equations between the thirty values *)
Definition bce_fwd (pv tv : T)
  (a0 a1 a2 a3 a4 b0 b1 b2 b3 b4 lpv k1 k2 sAv one2 d1 d2 t2v e1 e2 y2v ly2v f1 f2 sBv g1 g2 lv lnv lossv : T) : Prop :=
  v_unary (UPow c0) tv = Ok a0 /\ v_unary (UScale c0) a0 = Ok a1 /\ v_unary (UScale c1) a0 = Ok a2 /\
  v_same BiElMin tv a2 = Ok a3 /\ v_same BiElMax a1 a3 = Ok a4 /\
  v_unary (UPow c0) pv = Ok b0 /\ v_unary (UScale eps) b0 = Ok b1 /\ v_unary (UScale ome) b0 = Ok b2 /\
  v_same BiElMin pv b2 = Ok b3 /\ v_same BiElMax b1 b3 = Ok b4 /\
  v_unary ULn b4 = Ok lpv /\
  v_broadcast a4 (bshape a4 lpv) = Ok k1 /\ v_broadcast lpv (bshape a4 lpv) = Ok k2 /\ apply2 (binaryF BiMul) k1 k2 = Some sAv /\
  v_unary (UPow c0) b4 = Ok one2 /\
  v_broadcast one2 (bshape one2 a4) = Ok d1 /\ v_broadcast a4 (bshape one2 a4) = Ok d2 /\ apply2 (binaryF BiSub) d1 d2 = Some t2v /\
  v_broadcast one2 (bshape one2 b4) = Ok e1 /\ v_broadcast b4 (bshape one2 b4) = Ok e2 /\ apply2 (binaryF BiSub) e1 e2 = Some y2v /\
  v_unary ULn y2v = Ok ly2v /\
  v_broadcast t2v (bshape t2v ly2v) = Ok f1 /\ v_broadcast ly2v (bshape t2v ly2v) = Ok f2 /\ apply2 (binaryF BiMul) f1 f2 = Some sBv /\
  v_broadcast sAv (bshape sAv sBv) = Ok g1 /\ v_broadcast sBv (bshape sAv sBv) = Ok g2 /\ apply2 (binaryF BiAdd) g1 g2 = Some lv /\
  v_unary (UScale cm1) lv = Ok lnv /\ v_reduceAlong RdMean lnv 0%Z = Ok lossv.

Ltac norm_heap := rewrite <- ?app_assoc in *; cbn [app length Nat.add] in *.
Ltac side_off := first [ rewrite trackedOf_off; reflexivity | rewrite dirtyOf_off; reflexivity
                       | rewrite trackedOf_app by assumption; assumption | rewrite dirtyOf_app by assumption; assumption ].

Ltac look V := rewrite valOf_off in V; cbn [valOf nth_error obind nval xnode] in V; inversion V; clear V.
Ltac flags := rewrite ?orb_false_r, ?orb_diag in *; cbn [orb] in *.

Lemma bce_structure (h : heap) p t name h1 l tp pv tv :
  valOf h p = Some pv -> valOf h t = Some tv ->
  trackedOf h p = tp -> dirtyOf h p = false -> trackedOf h t = false -> dirtyOf h t = false ->
  lossArgs1 h (Some p) (Some t) = Some (p, t) ->
  bce_compute eps ome h (Some p) (Some t) name = (h1, Ok l) ->
  exists a0 a1 a2 a3 a4 b0 b1 b2 b3 b4 lpv k1 k2 sAv one2 d1 d2 t2v e1 e2 y2v ly2v f1 f2 sBv g1 g2 lv lnv lossv,
    bce_fwd pv tv a0 a1 a2 a3 a4 b0 b1 b2 b3 b4 lpv k1 k2 sAv one2 d1 d2 t2v e1 e2 y2v ly2v f1 f2 sBv g1 g2 lv lnv lossv /\
    l = length h + 29 /\
    h1 = h ++ bce_nodes (length h) p t tp name
                a0 a1 a2 a3 a4 b0 b1 b2 b3 b4 lpv k1 k2 sAv one2 d1 d2 t2v e1 e2 y2v ly2v f1 f2 sBv g1 g2 lv lnv lossv.
Proof.
  intros Vp Vt Tp Dp Tt Dt Ea E. unfold bce_compute in E. rewrite Ea in E. apply atomically_ok in E.
  assert (Hp : p < length h) by (eapply valOf_some_lt; eauto).
  assert (Ht : t < length h) by (eapply valOf_some_lt; eauto).
  apply hbind_ok in E as (hh1 & ytc & E1 & E). apply hbind_ok in E as (hh2 & ypc & E2 & E).
  apply hbind_ok in E as (hh3 & lp & E3 & E). apply hbind_ok in E as (hh4 & sA & E4 & E).
  apply hbind_ok in E as (hh5 & one & E5 & E). apply hbind_ok in E as (hh6 & t2 & E6 & E).
  apply hbind_ok in E as (hh7 & y2 & E7 & E). apply hbind_ok in E as (hh8 & ly2 & E8 & E).
  apply hbind_ok in E as (hh9 & sB & E9 & E). apply hbind_ok in E as (hh10 & ll & E10 & E).
  apply hbind_ok in E as (hh11 & ln & E11 & E12).
  (* clip t *)
  rewrite <- (app_nil_r h) in E1.
  apply (clip_X h [] t c0 c1 hh1 ytc false) in E1; [|rewrite app_nil_r; exact Tt|rewrite app_nil_r; exact Dt].
  cbv zeta in E1. destruct E1 as (tv' & a0 & a1 & a2 & a3 & a4 & Vt' & Fa0 & Fa1 & Fa2 & Fa3 & Fa4 & -> & ->).
  rewrite app_nil_r in Vt'. assert (tv' = tv) by congruence. subst tv'. clear Vt'. norm_heap.
  (* clip p *)
  match type of E2 with clip (h ++ ?l) _ _ _ = _ =>
    apply (clip_X h l p eps ome hh2 ypc tp) in E2; [|side_off|side_off] end.
  cbv zeta in E2. destruct E2 as (pv' & b0 & b1 & b2 & b3 & b4 & Vp' & Fb0 & Fb1 & Fb2 & Fb3 & Fb4 & -> & ->).
  rewrite valOf_app in Vp' by exact Hp. assert (pv' = pv) by congruence. subst pv'. clear Vp'. norm_heap.
  (* lp = Log ypc *)
  unfold h_math in E3. cbn [mathUnary mathRule] in E3.
  match type of E3 with h_op1 (h ++ ?l) _ _ _ _ = _ => apply (op1_X h l _ _ _ _ _ _ tp) in E3; [|side_off|side_off] end.
  destruct E3 as (x1 & lpv & V1 & Flp & -> & ->). look V1. subst x1. norm_heap.
  (* sA = ytc * lp *)
  match type of E4 with h_arith (h ++ ?l) _ _ _ _ = _ =>
    apply (arith_X h l _ _ _ _ _ _ false tp) in E4; [|side_off|side_off|side_off|side_off] end.
  cbv zeta in E4. destruct E4 as (x1 & x2 & k1 & k2 & sAv & V1 & V2 & Fk1 & Fk2 & FsA & -> & ->).
  look V1. look V2. subst x1 x2. flags. norm_heap.
  (* one = ypc ^ 0 *)
  unfold h_pow in E5.
  match type of E5 with h_op1 (h ++ ?l) _ _ _ _ = _ => apply (op1_X h l _ _ _ _ _ _ tp) in E5; [|side_off|side_off] end.
  destruct E5 as (x1 & one2 & V1 & Fone2 & -> & ->). look V1. subst x1. norm_heap.
  (* t2 = one - ytc *)
  match type of E6 with h_arith (h ++ ?l) _ _ _ _ = _ =>
    apply (arith_X h l _ _ _ _ _ _ tp false) in E6; [|side_off|side_off|side_off|side_off] end.
  cbv zeta in E6. destruct E6 as (x1 & x2 & d1 & d2 & t2v & V1 & V2 & Fd1 & Fd2 & Ft2 & -> & ->).
  look V1. look V2. subst x1 x2. flags. norm_heap.
  (* y2 = one - ypc *)
  match type of E7 with h_arith (h ++ ?l) _ _ _ _ = _ =>
    apply (arith_X h l _ _ _ _ _ _ tp tp) in E7; [|side_off|side_off|side_off|side_off] end.
  cbv zeta in E7. destruct E7 as (x1 & x2 & e1 & e2 & y2v & V1 & V2 & Fe1 & Fe2 & Fy2 & -> & ->).
  look V1. look V2. subst x1 x2. flags. norm_heap.
  (* ly2 = Log y2 *)
  unfold h_math in E8. cbn [mathUnary mathRule] in E8.
  match type of E8 with h_op1 (h ++ ?l) _ _ _ _ = _ => apply (op1_X h l _ _ _ _ _ _ tp) in E8; [|side_off|side_off] end.
  destruct E8 as (x1 & ly2v & V1 & Fly2 & -> & ->). look V1. subst x1. norm_heap.
  (* sB = t2 * ly2 *)
  match type of E9 with h_arith (h ++ ?l) _ _ _ _ = _ =>
    apply (arith_X h l _ _ _ _ _ _ tp tp) in E9; [|side_off|side_off|side_off|side_off] end.
  cbv zeta in E9. destruct E9 as (x1 & x2 & f1 & f2 & sBv & V1 & V2 & Ff1 & Ff2 & FsB & -> & ->).
  look V1. look V2. subst x1 x2. flags. norm_heap.
  (* l = sA + sB *)
  match type of E10 with h_arith (h ++ ?l) _ _ _ _ = _ =>
    apply (arith_X h l _ _ _ _ _ _ tp tp) in E10; [|side_off|side_off|side_off|side_off] end.
  cbv zeta in E10. destruct E10 as (x1 & x2 & g1 & g2 & lv & V1 & V2 & Fg1 & Fg2 & Fl & -> & ->).
  look V1. look V2. subst x1 x2. flags. norm_heap.
  (* ln = -l *)
  unfold h_scale in E11.
  match type of E11 with h_op1 (h ++ ?l) _ _ _ _ = _ => apply (op1_X h l _ _ _ _ _ _ tp) in E11; [|side_off|side_off] end.
  destruct E11 as (x1 & lnv & V1 & Fln & -> & ->). look V1. subst x1. norm_heap.
  (* loss = mean *)
  unfold h_reduceAlong in E12. cbn [alongRule] in E12.
  match type of E12 with h_op1 (h ++ ?l) _ _ _ _ = _ => apply (op1_X h l _ _ _ _ _ _ tp) in E12; [|side_off|side_off] end.
  destruct E12 as (x1 & lossv & V1 & Floss & -> & ->). look V1. subst x1. norm_heap.
  exists a0, a1, a2, a3, a4, b0, b1, b2, b3, b4, lpv, k1, k2, sAv, one2, d1, d2, t2v, e1, e2, y2v, ly2v, f1, f2, sBv, g1, g2, lv, lnv, lossv.
  split; [unfold bce_fwd, bshape; repeat (split; [assumption|]); assumption|]. split; reflexivity.
Qed.
End BceStructure.

Section BceOwn.
Context {A : Type} {SA : Scalar A}.
Notation T := (tensor A).
Notation heap := (@heap A).
Variables (eps ome : A).

Lemma bce_own_wf (h : heap) p t name
  (a0 a1 a2 a3 a4 b0 b1 b2 b3 b4 lpv k1 k2 sAv one2 d1 d2 t2v e1 e2 y2v ly2v f1 f2 sBv g1 g2 lv lnv lossv : T) :
  rules_own h -> wf_heap h -> p < length h -> t < length h ->
  let nodes := bce_nodes eps ome (length h) p t true name
                 a0 a1 a2 a3 a4 b0 b1 b2 b3 b4 lpv k1 k2 sAv one2 d1 d2 t2v e1 e2 y2v ly2v f1 f2 sBv g1 g2 lv lnv lossv in
  rules_own (h ++ nodes) /\ wf_heap (h ++ nodes).
Proof.
  intros Ho Hw Hp Ht nodes. apply own_wf_ext; [exact Ho|exact Hw|]. intros k nd e Hn He.
  do 30 (destruct k as [|k]; [cbn [nth_error nodes bce_nodes] in Hn; inversion Hn; subst nd; cbn [nedges xnode arithEdges] in He;
    repeat (destruct He as [<-|He]; [cbn [fst snd rule_y]; split; lia|]); destruct He|]).
  destruct k; discriminate.
Qed.
End BceOwn.

Local Open Scope R_scope.

Section Bce.
Variables (thr : R) (draw : bool -> nat -> R).
Local Hint Extern 0 (Scalar R) => exact (R_scalar thr draw) : typeclass_instances.
Notation T := (tensor R).
Notation heap := (@heap R).
Notation rule := (@rule R).
Notation idseal := (fun (_ : option nat) (g : T) => g).
Notation c0 := (@cst R (R_scalar thr draw) 0 0).
Notation c1 := (@cst R (R_scalar thr draw) 1 0).
Notation cm1 := (@cst R (R_scalar thr draw) (-1) 0).
Variables (eps ome : R).

(* element-wise reading of the thirty forward values *)
Lemma bce_fwd_isT N (pv tv : T)
  (a0 a1 a2 a3 a4 b0 b1 b2 b3 b4 lpv k1 k2 sAv one2 d1 d2 t2v e1 e2 y2v ly2v f1 f2 sBv g1 g2 lv lnv lossv : T) :
  wf pv -> wf tv -> dims pv = [N] -> dims tv = [N] ->
  bce_fwd eps ome pv tv a0 a1 a2 a3 a4 b0 b1 b2 b3 b4 lpv k1 k2 sAv one2 d1 d2 t2v e1 e2 y2v ly2v f1 f2 sBv g1 g2 lv lnv lossv ->
  let P := elt pv in let Tt := elt tv in
  let A0 := fun i => Rpow (Tt i) c0 in
  let A4 := fun i => Rmax (c0 * A0 i) (Rmin (Tt i) (c1 * A0 i)) in
  let B0 := fun i => Rpow (P i) c0 in
  let B1 := fun i => eps * B0 i in let B2 := fun i => ome * B0 i in
  let B3 := fun i => Rmin (P i) (B2 i) in let B4 := fun i => Rmax (B1 i) (B3 i) in
  let O2 := fun i => Rpow (B4 i) c0 in
  exists FA1 FA2 FA3 FLp FsA FLy FsB FL FLn,
  isT [N] A0 a0 /\ isT [N] FA1 a1 /\ isT [N] FA2 a2 /\ isT [N] FA3 a3 /\ isT [N] A4 a4 /\
  isT [N] B0 b0 /\ isT [N] B1 b1 /\ isT [N] B2 b2 /\ isT [N] B3 b3 /\ isT [N] B4 b4 /\
  isT [N] FLp lpv /\ isT [N] A4 k1 /\ isT [N] FLp k2 /\ isT [N] FsA sAv /\
  isT [N] O2 one2 /\ isT [N] O2 d1 /\ isT [N] A4 d2 /\ isT [N] (fun i => O2 i - A4 i) t2v /\
  isT [N] O2 e1 /\ isT [N] B4 e2 /\ isT [N] (fun i => O2 i - B4 i) y2v /\
  isT [N] FLy ly2v /\ isT [N] (fun i => O2 i - A4 i) f1 /\ isT [N] FLy f2 /\ isT [N] FsB sBv /\
  isT [N] FsA g1 /\ isT [N] FsB g2 /\ isT [N] FL lv /\ isT [N] FLn lnv /\
  dims lossv = [] /\ wf lossv.
Proof.
  intros Wp Wt Edp Edt Hf P Tt A0 A4 B0 B1 B2 B3 B4 O2.
  destruct Hf as (Fa0 & Fa1 & Fa2 & Fa3 & Fa4 & Fb0 & Fb1 & Fb2 & Fb3 & Fb4 & Flp & Fk1 & Fk2 & FsA & Fone2 & Fd1 & Fd2 & Ft2
                  & Fe1 & Fe2 & Fy2 & Fly2 & Ff1 & Ff2 & FsB & Fg1 & Fg2 & Fl & Fln & Floss).
  assert (Ttv : isT [N] Tt tv) by (rewrite <- Edt; apply isT_self, Wt).
  assert (Tpv : isT [N] P pv) by (rewrite <- Edp; apply isT_self, Wp).
  pose proof (un_isT thr draw _ _ _ _ _ Ttv Fa0) as Ta0.
  pose proof (un_isT thr draw _ _ _ _ _ Ta0 Fa1) as Ta1.
  pose proof (un_isT thr draw _ _ _ _ _ Ta0 Fa2) as Ta2.
  pose proof (same_isT thr draw _ _ _ _ _ _ _ Ttv Ta2 Fa3) as Ta3.
  pose proof (same_isT thr draw _ _ _ _ _ _ _ Ta1 Ta3 Fa4) as Ta4.
  pose proof (un_isT thr draw _ _ _ _ _ Tpv Fb0) as Tb0.
  pose proof (un_isT thr draw _ _ _ _ _ Tb0 Fb1) as Tb1.
  pose proof (un_isT thr draw _ _ _ _ _ Tb0 Fb2) as Tb2.
  pose proof (same_isT thr draw _ _ _ _ _ _ _ Tpv Tb2 Fb3) as Tb3.
  pose proof (same_isT thr draw _ _ _ _ _ _ _ Tb1 Tb3 Fb4) as Tb4.
  pose proof (un_isT thr draw _ _ _ _ _ Tb4 Flp) as Tlp.
  assert (ES : forall (x u : T) fx fu, isT [N] fx x -> isT [N] fu u -> bshape x u = map Z.of_nat [N]).
  { intros x u fx fu (Dx & _) (Du & _). unfold bshape. rewrite Dx, Du, targetBroadcastDims_same. reflexivity. }
  rewrite (ES _ _ _ _ Ta4 Tlp) in Fk1, Fk2.
  pose proof (bcast_same_isT _ _ _ _ Ta4 Fk1) as Tk1. pose proof (bcast_same_isT _ _ _ _ Tlp Fk2) as Tk2.
  pose proof (apply2_isT thr draw BiMul _ _ _ _ _ _ Tk1 Tk2 FsA) as TsA.
  pose proof (un_isT thr draw _ _ _ _ _ Tb4 Fone2) as Tone2.
  rewrite (ES _ _ _ _ Tone2 Ta4) in Fd1, Fd2.
  pose proof (bcast_same_isT _ _ _ _ Tone2 Fd1) as Td1. pose proof (bcast_same_isT _ _ _ _ Ta4 Fd2) as Td2.
  pose proof (apply2_isT thr draw BiSub _ _ _ _ _ _ Td1 Td2 Ft2) as Tt2.
  rewrite (ES _ _ _ _ Tone2 Tb4) in Fe1, Fe2.
  pose proof (bcast_same_isT _ _ _ _ Tone2 Fe1) as Te1. pose proof (bcast_same_isT _ _ _ _ Tb4 Fe2) as Te2.
  pose proof (apply2_isT thr draw BiSub _ _ _ _ _ _ Te1 Te2 Fy2) as Ty2.
  pose proof (un_isT thr draw _ _ _ _ _ Ty2 Fly2) as Tly2.
  rewrite (ES _ _ _ _ Tt2 Tly2) in Ff1, Ff2.
  pose proof (bcast_same_isT _ _ _ _ Tt2 Ff1) as Tf1. pose proof (bcast_same_isT _ _ _ _ Tly2 Ff2) as Tf2.
  pose proof (apply2_isT thr draw BiMul _ _ _ _ _ _ Tf1 Tf2 FsB) as TsB.
  rewrite (ES _ _ _ _ TsA TsB) in Fg1, Fg2.
  pose proof (bcast_same_isT _ _ _ _ TsA Fg1) as Tg1. pose proof (bcast_same_isT _ _ _ _ TsB Fg2) as Tg2.
  pose proof (apply2_isT thr draw BiAdd _ _ _ _ _ _ Tg1 Tg2 Fl) as Tl.
  pose proof (un_isT thr draw _ _ _ _ _ Tl Fln) as Tln.
  destruct (along_elt thr draw RdMean lnv 0 (proj1 (proj2 Tln))) as (lv' & Elv & Dlv & Wlv & _).
  { rewrite (proj1 Tln). cbn [length]. lia. }
  change (Z.of_nat 0) with 0%Z in Elv. assert (lv' = lossv) by congruence. subst lv'. clear Elv.
  rewrite (proj1 Tln) in Dlv. change (squeezeDims 0 [N]) with (@nil nat) in Dlv.
  do 9 eexists.
  split; [exact Ta0|]. split; [exact Ta1|]. split; [exact Ta2|]. split; [exact Ta3|]. split; [exact Ta4|].
  split; [exact Tb0|]. split; [exact Tb1|]. split; [exact Tb2|]. split; [exact Tb3|]. split; [exact Tb4|].
  split; [exact Tlp|]. split; [exact Tk1|]. split; [exact Tk2|]. split; [exact TsA|].
  split; [exact Tone2|]. split; [exact Td1|]. split; [exact Td2|]. split; [exact Tt2|].
  split; [exact Te1|]. split; [exact Te2|]. split; [exact Ty2|].
  split; [exact Tly2|]. split; [exact Tf1|]. split; [exact Tf2|]. split; [exact TsB|].
  split; [exact Tg1|]. split; [exact Tg2|]. split; [exact Tl|]. split; [exact Tln|].
  split; [exact Dlv|exact Wlv].
Qed.

End Bce.

(* ------------------------------------------------------------------------------------ *)
(* back-propagation through the thirty nodes                                             *)
(* ------------------------------------------------------------------------------------ *)
Section BceBp.
Variables (thr : R) (draw : bool -> nat -> R).
Local Hint Extern 0 (Scalar R) => exact (R_scalar thr draw) : typeclass_instances.
Notation T := (tensor R).
Notation heap := (@heap R).
Notation rule := (@rule R).
Notation idseal := (fun (_ : option nat) (g : T) => g).
Notation c0 := (@cst R (R_scalar thr draw) 0 0).
Notation c1 := (@cst R (R_scalar thr draw) 1 0).
Notation cm1 := (@cst R (R_scalar thr draw) (-1) 0).
Variables (eps ome : R).

(* the processing order of the component: the twenty-three tracked nodes above the prediction *)
Definition bce_pre (L : nat) : list nat :=
  map (fun k => (L + k)%nat) [29; 28; 27; 26; 24; 23; 21; 20; 19; 18; 22; 17; 15; 14; 25; 13; 12; 10; 9; 8; 7; 6; 5]%nat.

(* deciding membership in the visited list: before the search below p (offsets only), and after it
   (the visited list is  new offsets ++ nv ++ old offsets  with every element of nv <= p) *)
Ltac mdec Hp := rewrite ?memb_cons, ?eqb_off, ?(eqb_lt_off _ _ _ Hp), ?(eqb_off_lt _ _ _ Hp); reflexivity.
Ltac mdec2 Hp Bnv :=
  rewrite ?memb_cons; rewrite (memb_app_gt _ _ _ _ Bnv) by blia;
  rewrite ?memb_cons, ?eqb_off, ?(eqb_lt_off _ _ _ Hp), ?(eqb_off_lt _ _ _ Hp); reflexivity.

(* facts about the k-th of the thirty appended nodes of H = h ++ nodes *)
Tactic Notation "bnode_edges" constr(h) constr(nodes) constr(H) constr(k) ident(E) :=
  pose proof (edgesOf_off h nodes k) as E; change (h ++ nodes) with H in E; unfold nodes, bce_nodes in E;
  cbn [edgesOf nth_error nedges xnode arithEdges] in E.
Tactic Notation "bnode_tracked" constr(h) constr(nodes) constr(H) constr(k) ident(E) :=
  pose proof (trackedOf_off h nodes k) as E; change (h ++ nodes) with H in E; unfold nodes, bce_nodes in E;
  cbn [trackedOf nth_error ntracked xnode] in E.
Tactic Notation "bnode_val" constr(h) constr(nodes) constr(H) constr(k) ident(E) :=
  pose proof (valOf_off h nodes k) as E; change (h ++ nodes) with H in E; unfold nodes, bce_nodes in E;
  cbn [valOf nth_error nval xnode obind] in E.

(* the depth-first search from the loss: reverse post-order = bce_pre, then p and its own ancestry.
   p is reached first through the lower clip bound (29 .. 9, 6, 5, p); the later edges into p and
   into 5, 9, 14 find them visited. *)
Lemma bce_order (h : heap) p t name
  (a0 a1 a2 a3 a4 b0 b1 b2 b3 b4 lpv k1 k2 sAv one2 d1 d2 t2v e1 e2 y2v ly2v f1 f2 sBv g1 g2 lv lnv lossv : T) :
  wf_heap (h ++ bce_nodes eps ome (length h) p t true name
                 a0 a1 a2 a3 a4 b0 b1 b2 b3 b4 lpv k1 k2 sAv one2 d1 d2 t2v e1 e2 y2v ly2v f1 f2 sBv g1 g2 lv lnv lossv) ->
  (p < length h)%nat -> trackedOf h p = true ->
  let H := h ++ bce_nodes eps ome (length h) p t true name
                 a0 a1 a2 a3 a4 b0 b1 b2 b3 b4 lpv k1 k2 sAv one2 d1 d2 t2v e1 e2 y2v ly2v f1 f2 sBv g1 g2 lv lnv lossv in
  exists rest, topoOrder H (length h + 29) = bce_pre (length h) ++ p :: rest /\
    (forall x, In x rest -> (x < p)%nat) /\ (edgesOf H p = [] -> rest = []).
Proof.
  intros HwH Hp Tp H.
  set (nodes := bce_nodes eps ome (length h) p t true name
                 a0 a1 a2 a3 a4 b0 b1 b2 b3 b4 lpv k1 k2 sAv one2 d1 d2 t2v e1 e2 y2v ly2v f1 f2 sBv g1 g2 lv lnv lossv) in *.
  assert (THp : trackedOf H p = true) by (unfold H; rewrite trackedOf_app by exact Hp; exact Tp).
  bnode_edges h nodes H 5%nat E5. bnode_tracked h nodes H 5%nat T5.
  bnode_edges h nodes H 6%nat E6. bnode_tracked h nodes H 6%nat T6.
  bnode_edges h nodes H 7%nat E7. bnode_tracked h nodes H 7%nat T7.
  bnode_edges h nodes H 8%nat E8. bnode_tracked h nodes H 8%nat T8.
  bnode_edges h nodes H 9%nat E9. bnode_tracked h nodes H 9%nat T9.
  bnode_edges h nodes H 10%nat E10. bnode_tracked h nodes H 10%nat T10.
  bnode_edges h nodes H 12%nat E12. bnode_tracked h nodes H 12%nat T12.
  bnode_edges h nodes H 13%nat E13. bnode_tracked h nodes H 13%nat T13.
  bnode_edges h nodes H 14%nat E14. bnode_tracked h nodes H 14%nat T14.
  bnode_edges h nodes H 15%nat E15. bnode_tracked h nodes H 15%nat T15.
  bnode_edges h nodes H 17%nat E17. bnode_tracked h nodes H 17%nat T17.
  bnode_edges h nodes H 18%nat E18. bnode_tracked h nodes H 18%nat T18.
  bnode_edges h nodes H 19%nat E19. bnode_tracked h nodes H 19%nat T19.
  bnode_edges h nodes H 20%nat E20. bnode_tracked h nodes H 20%nat T20.
  bnode_edges h nodes H 21%nat E21. bnode_tracked h nodes H 21%nat T21.
  bnode_edges h nodes H 22%nat E22. bnode_tracked h nodes H 22%nat T22.
  bnode_edges h nodes H 23%nat E23. bnode_tracked h nodes H 23%nat T23.
  bnode_edges h nodes H 24%nat E24. bnode_tracked h nodes H 24%nat T24.
  bnode_edges h nodes H 25%nat E25. bnode_tracked h nodes H 25%nat T25.
  bnode_edges h nodes H 26%nat E26. bnode_tracked h nodes H 26%nat T26.
  bnode_edges h nodes H 27%nat E27. bnode_tracked h nodes H 27%nat T27.
  bnode_edges h nodes H 28%nat E28. bnode_tracked h nodes H 28%nat T28.
  bnode_edges h nodes H 29%nat E29. bnode_tracked h nodes H 29%nat T29.
  bnode_tracked h nodes H 11%nat T11. bnode_tracked h nodes H 16%nat T16.
  change (h ++ nodes) with H in HwH. clearbody H. clear nodes.
  unfold topoOrder.
  rewrite dfs_t; [|blia|exact T29|reflexivity]. rewrite E29. cbn [fold_left fst snd].
  rewrite dfs_t; [|blia|exact T28|mdec Hp]. rewrite E28. cbn [fold_left fst snd].
  rewrite dfs_t; [|blia|exact T27|mdec Hp]. rewrite E27. cbn [fold_left fst snd].
  rewrite dfs_t; [|blia|exact T25|mdec Hp]. rewrite E25. cbn [fold_left fst snd].
  rewrite dfs_t; [|blia|exact T13|mdec Hp]. rewrite E13. cbn [fold_left fst snd].
  rewrite (dfs_u H _ (length h + 11)%nat) by exact T11.
  rewrite dfs_t; [|blia|exact T12|mdec Hp]. rewrite E12. cbn [fold_left fst snd].
  rewrite dfs_t; [|blia|exact T10|mdec Hp]. rewrite E10. cbn [fold_left fst snd].
  rewrite dfs_t; [|blia|exact T9|mdec Hp]. rewrite E9. cbn [fold_left fst snd].
  rewrite dfs_t; [|blia|exact T6|mdec Hp]. rewrite E6. cbn [fold_left fst snd].
  rewrite dfs_t; [|blia|exact T5|mdec Hp]. rewrite E5. cbn [fold_left fst snd].
  match goal with |- context [dfs ?f H p (?V, ?R)] =>
    destruct (dfs_cut H HwH f p V R) as (nv & rest & Ecut & Bnv & Inv & Brest & Hleaf);
      [blia|exact THp|mdec Hp|rewrite Ecut] end.
  rewrite !post_pair.
  rewrite dfs_t; [|blia|exact T8|mdec2 Hp Bnv]. rewrite E8. cbn [fold_left fst snd].
  rewrite (dfs_v H _ p) by (cbn [fst]; rewrite memb_cons, (memb_app_in _ _ _ Inv); apply orb_true_r).
  rewrite dfs_t; [|blia|exact T7|mdec2 Hp Bnv]. rewrite E7. cbn [fold_left fst snd].
  rewrite (dfs_v H _ (length h + 5)%nat) by (cbn [fst]; mdec2 Hp Bnv).
  rewrite !post_pair.
  rewrite dfs_t; [|blia|exact T26|mdec2 Hp Bnv]. rewrite E26. cbn [fold_left fst snd].
  rewrite dfs_t; [|blia|exact T24|mdec2 Hp Bnv]. rewrite E24. cbn [fold_left fst snd].
  rewrite dfs_t; [|blia|exact T22|mdec2 Hp Bnv]. rewrite E22. cbn [fold_left fst snd].
  rewrite dfs_t; [|blia|exact T17|mdec2 Hp Bnv]. rewrite E17. cbn [fold_left fst snd].
  rewrite dfs_t; [|blia|exact T15|mdec2 Hp Bnv]. rewrite E15. cbn [fold_left fst snd].
  rewrite dfs_t; [|blia|exact T14|mdec2 Hp Bnv]. rewrite E14. cbn [fold_left fst snd].
  rewrite (dfs_v H _ (length h + 9)%nat) by (cbn [fst]; mdec2 Hp Bnv).
  rewrite !post_pair.
  rewrite (dfs_u H _ (length h + 16)%nat) by exact T16.
  rewrite !post_pair.
  rewrite dfs_t; [|blia|exact T23|mdec2 Hp Bnv]. rewrite E23. cbn [fold_left fst snd].
  rewrite dfs_t; [|blia|exact T21|mdec2 Hp Bnv]. rewrite E21. cbn [fold_left fst snd].
  rewrite dfs_t; [|blia|exact T20|mdec2 Hp Bnv]. rewrite E20. cbn [fold_left fst snd].
  rewrite dfs_t; [|blia|exact T18|mdec2 Hp Bnv]. rewrite E18. cbn [fold_left fst snd].
  rewrite (dfs_v H _ (length h + 14)%nat) by (cbn [fst]; mdec2 Hp Bnv).
  rewrite !post_pair.
  rewrite dfs_t; [|blia|exact T19|mdec2 Hp Bnv]. rewrite E19. cbn [fold_left fst snd].
  rewrite (dfs_v H _ (length h + 9)%nat) by (cbn [fst]; mdec2 Hp Bnv).
  rewrite !post_pair.
  cbn [snd]. exists rest. split; [rewrite app_nil_r; reflexivity|]. split; [exact Brest|exact Hleaf].
Qed.

(* the element of the gradient at a prediction x with target t, as the rules compute it:
   t' = clipped target, y = clipped prediction, G27 = gradient of the sum l (mean, then negation),
   G9 = gradient of the clipped prediction (through log(1-y), the zero rule of the ones-like node 14,
   and log y), then the two tie-splitting ElMax / ElMin factors *)
Definition bceD (N : nat) (x t : R) : R :=
  let t' := Rmax 0 (Rmin t 1) in
  let m := Rmin x ome in
  let y := Rmax eps m in
  let G27 := 1 / INR N * -1 in
  let G9 := (G27 * (1 - t') * / (1 - y)) * -1 + 0 + G27 * t' * / y in
  G9 * (eqt thr y m - / 2 * eqt thr m eps) * (eqt thr m x - / 2 * eqt thr x ome).

Definition bceG (pv tv : T) : T :=
  let N := nth 0 (dims pv) 0%nat in ofFun [N] (fun idx => bceD N (elt pv idx) (elt tv idx)).

Lemma clipR_simpl lo up x : Rmax (lo * Rpow x c0) (Rmin x (up * Rpow x c0)) = Rmax lo (Rmin x up).
Proof. rewrite cst_R, dec2R_0, Rpow_0, !Rmult_1_r. reflexivity. Qed.

Lemma Rpow_c0 x : Rpow x c0 = 1.
Proof. rewrite cst_R, dec2R_0. apply Rpow_0. Qed.

Lemma Vl_isT (H : heap) i v ds f idx : valOf H i = Some v -> isT ds f v -> validIdx ds idx -> Vl H i idx = f idx.
Proof. intros E (_ & _ & G) Hv. unfold Vl. rewrite E. apply G, Hv. Qed.

Ltac use_edges He :=
  match type of He with In _ (edgesOf ?H ?c) => match goal with Ek : edgesOf H c = _ |- _ => rewrite Ek in He end end.
Ltac dm_solve H := repeat match goal with D : Dm H _ = _ |- _ => rewrite D end; reflexivity.
Ltac rok_solve H :=
  cbn [fst snd] in *;
  first [ exfalso; congruence
        | split; [first [left; apply Nat.le_add_r | right; reflexivity]
                 | cbn [rok]; repeat match goal with |- _ /\ _ => split end;
                   first [reflexivity | assumption | dm_solve H]] ].

(* MASTER LEMMA.  Back-propagation from the loss processes the twenty-three tracked nodes of the
   component above the prediction, which never fails, and then continues with the prediction p
   and its own ancestry [rest] from a heap hm in which p already carries its final gradient. *)
Lemma bce_bp rd (h : heap) p t name pv tv g0 h1 l :
  rules_own h -> wf_heap h ->
  valOf h p = Some pv -> wf pv -> valOf h t = Some tv -> wf tv ->
  trackedOf h p = true -> dirtyOf h p = false -> trackedOf h t = false -> dirtyOf h t = false ->
  lossArgs1 h (Some p) (Some t) = Some (p, t) ->
  gradOf h p = g0 -> prior_ok (dims pv) g0 ->
  bce_compute eps ome h (Some p) (Some t) name = (h1, Ok l) ->
  exists hm logm rest g,
    bp_topo rd idseal h1 l = fold_left (process_node rd idseal) (p :: rest) (hm, logm, Ok tt) /\
    (forall c, In c rest -> (c < p)%nat) /\ (edgesOf h p = [] -> rest = []) /\
    sameS h1 hm /\ wf_heap h1 /\ trackedOf h1 t = false /\ edgesOf h1 p = edgesOf h p /\
    gradOf hm p = Some g /\ dims g = dims pv /\ wf g /\
    acc1 g0 (bceG pv tv) = Some (Some g) /\
    (forall j, (j < length h)%nat -> j <> p -> gradOf hm j = gradOf h j) /\
    (forall j, (j < length h)%nat -> gradOf h1 j = gradOf h j).
Proof.
  intros Ho Hw Vp Wp Vt Wt Tp Dp Tt Dt Ea Eg0 Hprior E. unfold bceG. set (N := nth 0 (dims pv) 0%nat).
  destruct (lossArgs1_dims h (Some p) (Some t) p t pv tv Ea Vp Vt) as (n & Edp & Edt).
  assert (EN : N = n) by (unfold N; rewrite Edp; reflexivity). clearbody N. subst n.
  destruct (bce_structure eps ome h p t name h1 l true pv tv Vp Vt Tp Dp Tt Dt Ea E)
    as (a0 & a1 & a2 & a3 & a4 & b0 & b1 & b2 & b3 & b4 & lpv & k1 & k2 & sAv & one2 & d1 & d2 & t2v & e1 & e2 & y2v & ly2v & f1 & f2 & sBv & g1 & g2 & lv & lnv & lossv & Hf & -> & EH).
  destruct (bce_fwd_isT thr draw eps ome N pv tv a0 a1 a2 a3 a4 b0 b1 b2 b3 b4 lpv k1 k2 sAv one2 d1 d2 t2v e1 e2 y2v ly2v f1 f2 sBv g1 g2 lv lnv lossv Wp Wt Edp Edt Hf)
    as (FA1 & FA2 & FA3 & FLp & FsA & FLy & FsB & FL & FLn & I0 & I1 & I2 & I3 & I4 & I5 & I6 & I7 & I8 & I9 & I10 & I11 & I12 & I13 & I14 & I15 & I16 & I17 & I18 & I19 & I20 & I21 & I22 & I23 & I24 & I25 & I26 & I27 & I28 & Dlv & Wlv).
  cbv zeta in *. clear Hf.
  assert (Hp : (p < length h)%nat) by (eapply valOf_some_lt; eauto).
  assert (Ht : (t < length h)%nat) by (eapply valOf_some_lt; eauto).
  assert (Npos : (0 < N)%nat) by (destruct Wp as [_ Hpos]; rewrite Edp in Hpos; inversion Hpos; assumption).
  assert (OW := bce_own_wf eps ome h p t name a0 a1 a2 a3 a4 b0 b1 b2 b3 b4 lpv k1 k2 sAv one2 d1 d2 t2v e1 e2 y2v ly2v f1 f2 sBv g1 g2 lv lnv lossv Ho Hw Hp Ht). cbv zeta in OW. destruct OW as [HoH HwH].
  destruct (bce_order h p t name a0 a1 a2 a3 a4 b0 b1 b2 b3 b4 lpv k1 k2 sAv one2 d1 d2 t2v e1 e2 y2v ly2v f1 f2 sBv g1 g2 lv lnv lossv HwH Hp Tp) as (rest & Eord & Brest & Hleaf). cbv zeta in Eord, Hleaf.
  set (nodes := bce_nodes eps ome (length h) p t true name a0 a1 a2 a3 a4 b0 b1 b2 b3 b4 lpv k1 k2 sAv one2 d1 d2 t2v e1 e2 y2v ly2v f1 f2 sBv g1 g2 lv lnv lossv) in *.
  set (H := h ++ nodes) in *. subst h1.
  assert (VHp : valOf H p = Some pv) by (unfold H; rewrite valOf_app by exact Hp; exact Vp).
  assert (THp : trackedOf H p = true) by (unfold H; rewrite trackedOf_app by exact Hp; exact Tp).
  assert (GHp : gradOf H p = g0) by (unfold H; rewrite gradOf_old by exact Hp; exact Eg0).
  assert (LH : length H = (length h + 30)%nat) by (unfold H; rewrite app_length; reflexivity).
  assert (Gnone : forall j, (length h <= j)%nat -> gradOf H j = None).
  { intros j Hj. unfold H. apply gradOf_ext_none; [|exact Hj]. unfold nodes, bce_nodes. repeat constructor. }
  bnode_edges h nodes H 5%nat E5.  bnode_edges h nodes H 6%nat E6.
  bnode_edges h nodes H 7%nat E7.  bnode_edges h nodes H 8%nat E8.  bnode_edges h nodes H 9%nat E9.
  bnode_edges h nodes H 10%nat E10.  bnode_edges h nodes H 12%nat E12.
  bnode_edges h nodes H 13%nat E13.  bnode_edges h nodes H 14%nat E14.  bnode_edges h nodes H 15%nat E15.
  bnode_edges h nodes H 17%nat E17.  bnode_edges h nodes H 18%nat E18.
  bnode_edges h nodes H 19%nat E19.  bnode_edges h nodes H 20%nat E20.  bnode_edges h nodes H 21%nat E21.
  bnode_edges h nodes H 22%nat E22.  bnode_edges h nodes H 23%nat E23.  bnode_edges h nodes H 24%nat E24.
  bnode_edges h nodes H 25%nat E25.  bnode_edges h nodes H 26%nat E26.  bnode_edges h nodes H 27%nat E27.
  bnode_edges h nodes H 28%nat E28.  bnode_edges h nodes H 29%nat E29.
  bnode_tracked h nodes H 0%nat T0. bnode_val h nodes H 0%nat V0.
  bnode_tracked h nodes H 1%nat T1. bnode_val h nodes H 1%nat V1.
  bnode_tracked h nodes H 2%nat T2. bnode_val h nodes H 2%nat V2.
  bnode_tracked h nodes H 3%nat T3. bnode_val h nodes H 3%nat V3.
  bnode_tracked h nodes H 4%nat T4. bnode_val h nodes H 4%nat V4.
  bnode_tracked h nodes H 5%nat T5. bnode_val h nodes H 5%nat V5.
  bnode_tracked h nodes H 6%nat T6. bnode_val h nodes H 6%nat V6.
  bnode_tracked h nodes H 7%nat T7. bnode_val h nodes H 7%nat V7.
  bnode_tracked h nodes H 8%nat T8. bnode_val h nodes H 8%nat V8.
  bnode_tracked h nodes H 9%nat T9. bnode_val h nodes H 9%nat V9.
  bnode_tracked h nodes H 10%nat T10. bnode_val h nodes H 10%nat V10.
  bnode_tracked h nodes H 11%nat T11. bnode_val h nodes H 11%nat V11.
  bnode_tracked h nodes H 12%nat T12. bnode_val h nodes H 12%nat V12.
  bnode_tracked h nodes H 13%nat T13. bnode_val h nodes H 13%nat V13.
  bnode_tracked h nodes H 14%nat T14. bnode_val h nodes H 14%nat V14.
  bnode_tracked h nodes H 15%nat T15. bnode_val h nodes H 15%nat V15.
  bnode_tracked h nodes H 16%nat T16. bnode_val h nodes H 16%nat V16.
  bnode_tracked h nodes H 17%nat T17. bnode_val h nodes H 17%nat V17.
  bnode_tracked h nodes H 18%nat T18. bnode_val h nodes H 18%nat V18.
  bnode_tracked h nodes H 19%nat T19. bnode_val h nodes H 19%nat V19.
  bnode_tracked h nodes H 20%nat T20. bnode_val h nodes H 20%nat V20.
  bnode_tracked h nodes H 21%nat T21. bnode_val h nodes H 21%nat V21.
  bnode_tracked h nodes H 22%nat T22. bnode_val h nodes H 22%nat V22.
  bnode_tracked h nodes H 23%nat T23. bnode_val h nodes H 23%nat V23.
  bnode_tracked h nodes H 24%nat T24. bnode_val h nodes H 24%nat V24.
  bnode_tracked h nodes H 25%nat T25. bnode_val h nodes H 25%nat V25.
  bnode_tracked h nodes H 26%nat T26. bnode_val h nodes H 26%nat V26.
  bnode_tracked h nodes H 27%nat T27. bnode_val h nodes H 27%nat V27.
  bnode_tracked h nodes H 28%nat T28. bnode_val h nodes H 28%nat V28.
  bnode_tracked h nodes H 29%nat T29. bnode_val h nodes H 29%nat V29.
  assert (D0 : Dm H (length h + 0) = [N]) by (unfold Dm; rewrite V0; exact (proj1 I0)).
  assert (O0 : okv H (length h + 0)) by (eexists; split; [exact V0|exact (proj1 (proj2 I0))]).
  assert (D1 : Dm H (length h + 1) = [N]) by (unfold Dm; rewrite V1; exact (proj1 I1)).
  assert (O1 : okv H (length h + 1)) by (eexists; split; [exact V1|exact (proj1 (proj2 I1))]).
  assert (D2 : Dm H (length h + 2) = [N]) by (unfold Dm; rewrite V2; exact (proj1 I2)).
  assert (O2 : okv H (length h + 2)) by (eexists; split; [exact V2|exact (proj1 (proj2 I2))]).
  assert (D3 : Dm H (length h + 3) = [N]) by (unfold Dm; rewrite V3; exact (proj1 I3)).
  assert (O3 : okv H (length h + 3)) by (eexists; split; [exact V3|exact (proj1 (proj2 I3))]).
  assert (D4 : Dm H (length h + 4) = [N]) by (unfold Dm; rewrite V4; exact (proj1 I4)).
  assert (O4 : okv H (length h + 4)) by (eexists; split; [exact V4|exact (proj1 (proj2 I4))]).
  assert (D5 : Dm H (length h + 5) = [N]) by (unfold Dm; rewrite V5; exact (proj1 I5)).
  assert (O5 : okv H (length h + 5)) by (eexists; split; [exact V5|exact (proj1 (proj2 I5))]).
  assert (D6 : Dm H (length h + 6) = [N]) by (unfold Dm; rewrite V6; exact (proj1 I6)).
  assert (O6 : okv H (length h + 6)) by (eexists; split; [exact V6|exact (proj1 (proj2 I6))]).
  assert (D7 : Dm H (length h + 7) = [N]) by (unfold Dm; rewrite V7; exact (proj1 I7)).
  assert (O7 : okv H (length h + 7)) by (eexists; split; [exact V7|exact (proj1 (proj2 I7))]).
  assert (D8 : Dm H (length h + 8) = [N]) by (unfold Dm; rewrite V8; exact (proj1 I8)).
  assert (O8 : okv H (length h + 8)) by (eexists; split; [exact V8|exact (proj1 (proj2 I8))]).
  assert (D9 : Dm H (length h + 9) = [N]) by (unfold Dm; rewrite V9; exact (proj1 I9)).
  assert (O9 : okv H (length h + 9)) by (eexists; split; [exact V9|exact (proj1 (proj2 I9))]).
  assert (D10 : Dm H (length h + 10) = [N]) by (unfold Dm; rewrite V10; exact (proj1 I10)).
  assert (O10 : okv H (length h + 10)) by (eexists; split; [exact V10|exact (proj1 (proj2 I10))]).
  assert (D11 : Dm H (length h + 11) = [N]) by (unfold Dm; rewrite V11; exact (proj1 I11)).
  assert (O11 : okv H (length h + 11)) by (eexists; split; [exact V11|exact (proj1 (proj2 I11))]).
  assert (D12 : Dm H (length h + 12) = [N]) by (unfold Dm; rewrite V12; exact (proj1 I12)).
  assert (O12 : okv H (length h + 12)) by (eexists; split; [exact V12|exact (proj1 (proj2 I12))]).
  assert (D13 : Dm H (length h + 13) = [N]) by (unfold Dm; rewrite V13; exact (proj1 I13)).
  assert (O13 : okv H (length h + 13)) by (eexists; split; [exact V13|exact (proj1 (proj2 I13))]).
  assert (D14 : Dm H (length h + 14) = [N]) by (unfold Dm; rewrite V14; exact (proj1 I14)).
  assert (O14 : okv H (length h + 14)) by (eexists; split; [exact V14|exact (proj1 (proj2 I14))]).
  assert (D15 : Dm H (length h + 15) = [N]) by (unfold Dm; rewrite V15; exact (proj1 I15)).
  assert (O15 : okv H (length h + 15)) by (eexists; split; [exact V15|exact (proj1 (proj2 I15))]).
  assert (D16 : Dm H (length h + 16) = [N]) by (unfold Dm; rewrite V16; exact (proj1 I16)).
  assert (O16 : okv H (length h + 16)) by (eexists; split; [exact V16|exact (proj1 (proj2 I16))]).
  assert (D17 : Dm H (length h + 17) = [N]) by (unfold Dm; rewrite V17; exact (proj1 I17)).
  assert (O17 : okv H (length h + 17)) by (eexists; split; [exact V17|exact (proj1 (proj2 I17))]).
  assert (D18 : Dm H (length h + 18) = [N]) by (unfold Dm; rewrite V18; exact (proj1 I18)).
  assert (O18 : okv H (length h + 18)) by (eexists; split; [exact V18|exact (proj1 (proj2 I18))]).
  assert (D19 : Dm H (length h + 19) = [N]) by (unfold Dm; rewrite V19; exact (proj1 I19)).
  assert (O19 : okv H (length h + 19)) by (eexists; split; [exact V19|exact (proj1 (proj2 I19))]).
  assert (D20 : Dm H (length h + 20) = [N]) by (unfold Dm; rewrite V20; exact (proj1 I20)).
  assert (O20 : okv H (length h + 20)) by (eexists; split; [exact V20|exact (proj1 (proj2 I20))]).
  assert (D21 : Dm H (length h + 21) = [N]) by (unfold Dm; rewrite V21; exact (proj1 I21)).
  assert (O21 : okv H (length h + 21)) by (eexists; split; [exact V21|exact (proj1 (proj2 I21))]).
  assert (D22 : Dm H (length h + 22) = [N]) by (unfold Dm; rewrite V22; exact (proj1 I22)).
  assert (O22 : okv H (length h + 22)) by (eexists; split; [exact V22|exact (proj1 (proj2 I22))]).
  assert (D23 : Dm H (length h + 23) = [N]) by (unfold Dm; rewrite V23; exact (proj1 I23)).
  assert (O23 : okv H (length h + 23)) by (eexists; split; [exact V23|exact (proj1 (proj2 I23))]).
  assert (D24 : Dm H (length h + 24) = [N]) by (unfold Dm; rewrite V24; exact (proj1 I24)).
  assert (O24 : okv H (length h + 24)) by (eexists; split; [exact V24|exact (proj1 (proj2 I24))]).
  assert (D25 : Dm H (length h + 25) = [N]) by (unfold Dm; rewrite V25; exact (proj1 I25)).
  assert (O25 : okv H (length h + 25)) by (eexists; split; [exact V25|exact (proj1 (proj2 I25))]).
  assert (D26 : Dm H (length h + 26) = [N]) by (unfold Dm; rewrite V26; exact (proj1 I26)).
  assert (O26 : okv H (length h + 26)) by (eexists; split; [exact V26|exact (proj1 (proj2 I26))]).
  assert (D27 : Dm H (length h + 27) = [N]) by (unfold Dm; rewrite V27; exact (proj1 I27)).
  assert (O27 : okv H (length h + 27)) by (eexists; split; [exact V27|exact (proj1 (proj2 I27))]).
  assert (D28 : Dm H (length h + 28) = [N]) by (unfold Dm; rewrite V28; exact (proj1 I28)).
  assert (O28 : okv H (length h + 28)) by (eexists; split; [exact V28|exact (proj1 (proj2 I28))]).
  assert (D29 : Dm H (length h + 29) = []) by (unfold Dm; rewrite V29; exact Dlv).
  assert (DP : Dm H p = [N]) by (unfold Dm; rewrite VHp; exact Edp).
  assert (OP : okv H p) by (exists pv; split; [exact VHp|exact Wp]).
  (* the seed *)
  destruct (un_elt thr draw (UPow (sconst 0 0)) lossv Wlv) as (ones & Eones & Dones & Wones & Gones).
  assert (Tones : isT (Dm H (length h + 29)) (fun _ => 1) ones).
  { rewrite D29. split; [congruence|]. split; [exact Wones|]. intros idx Hv.
    rewrite Gones by (rewrite Dlv; exact Hv). rewrite uF_pow, sconst_R, dec2R_0. apply Rpow_0. }
  rewrite (bp_topo_split rd H (length h + 29) _ _ lossv ones T29 Eord V29 Eones (Gnone _ (Nat.le_add_r _ _))).
  set (order := bce_pre (length h) ++ p :: rest).
  set (hh0 := setGrad (markDirty H order) (length h + 29) (Some ones)).
  assert (HS0 : sameS H hh0).
  { eapply sameS_trans; [apply sameS_markDirty|apply sameS_setGrad]. }
  set (dom := fun j : nat => (length h <= j)%nat \/ j = p).
  set (s0 := (fun j => if (j =? length h + 29)%nat then Some (fun _ : list nat => 1)
                       else if (j =? p)%nat then option_map elt g0 else None) : astate).
  assert (HM0 : models H dom hh0 s0).
  { intros j Hj. unfold s0, hh0. rewrite gradOf_setGrad, gradOf_markDirty.
    destruct (j =? length h + 29)%nat eqn:Ej.
    - rewrite length_markDirty, LH. assert (X : (length h + 29 <? length h + 30)%nat = true) by (apply Nat.ltb_lt; blia).
      rewrite X. exists ones. apply Nat.eqb_eq in Ej. subst j. split; [reflexivity|exact Tones].
    - destruct (j =? p)%nat eqn:Ejp.
      + apply Nat.eqb_eq in Ejp. subst j. rewrite GHp. destruct g0 as [g|]; cbn [option_map]; [|reflexivity].
        exists g. split; [reflexivity|]. destruct Hprior as [Wg Dg]. rewrite DP, <- Edp, <- Dg. apply isT_self, Wg.
      + apply Nat.eqb_neq in Ejp. destruct Hj as [Hj|Hj]; [|contradiction]. apply Gnone, Hj. }
  destruct (fold_abs thr draw rd H dom HoH HwH (bce_pre (length h)) hh0 [] s0 HS0 HM0)
    as (hm & logm & Ef & HSm & HMm & Hfr).
  { intros c Hc. unfold bce_pre in Hc. cbn [map] in Hc. split; [|split].
    - left. repeat (destruct Hc as [<-|Hc]; [apply Nat.le_add_r|]). destruct Hc.
    - rewrite LH. repeat (destruct Hc as [<-|Hc]; [blia|]). destruct Hc.
    - intros e He Ht'. destruct Hc as [<-|Hc].
      { rewrite E29 in He. destruct He as [<-|[]]. cbn [fst snd rok]. split; [left; apply Nat.le_add_r|].
        split; [reflexivity|]. split; [exact O28|]. exists 0%nat. rewrite D28, D29.
        split; [reflexivity|]. split; [cbn [length]; apply Nat.lt_0_succ|reflexivity]. }
      repeat (destruct Hc as [<-|Hc];
        [use_edges He; cbn [In] in He; repeat (destruct He as [<-|He]; [rok_solve H|]); destruct He|]).
      destruct Hc. }
  assert (S029 : s0 (length h + 29)%nat = Some (fun _ => 1)) by (unfold s0; rewrite Nat.eqb_refl; reflexivity).
  assert (S028 : s0 (length h + 28)%nat = None) by (unfold s0; rewrite eqb_off, (eqb_off_lt _ _ _ Hp); reflexivity).
  assert (S027 : s0 (length h + 27)%nat = None) by (unfold s0; rewrite eqb_off, (eqb_off_lt _ _ _ Hp); reflexivity).
  assert (S026 : s0 (length h + 26)%nat = None) by (unfold s0; rewrite eqb_off, (eqb_off_lt _ _ _ Hp); reflexivity).
  assert (S024 : s0 (length h + 24)%nat = None) by (unfold s0; rewrite eqb_off, (eqb_off_lt _ _ _ Hp); reflexivity).
  assert (S023 : s0 (length h + 23)%nat = None) by (unfold s0; rewrite eqb_off, (eqb_off_lt _ _ _ Hp); reflexivity).
  assert (S021 : s0 (length h + 21)%nat = None) by (unfold s0; rewrite eqb_off, (eqb_off_lt _ _ _ Hp); reflexivity).
  assert (S020 : s0 (length h + 20)%nat = None) by (unfold s0; rewrite eqb_off, (eqb_off_lt _ _ _ Hp); reflexivity).
  assert (S019 : s0 (length h + 19)%nat = None) by (unfold s0; rewrite eqb_off, (eqb_off_lt _ _ _ Hp); reflexivity).
  assert (S018 : s0 (length h + 18)%nat = None) by (unfold s0; rewrite eqb_off, (eqb_off_lt _ _ _ Hp); reflexivity).
  assert (S022 : s0 (length h + 22)%nat = None) by (unfold s0; rewrite eqb_off, (eqb_off_lt _ _ _ Hp); reflexivity).
  assert (S017 : s0 (length h + 17)%nat = None) by (unfold s0; rewrite eqb_off, (eqb_off_lt _ _ _ Hp); reflexivity).
  assert (S015 : s0 (length h + 15)%nat = None) by (unfold s0; rewrite eqb_off, (eqb_off_lt _ _ _ Hp); reflexivity).
  assert (S014 : s0 (length h + 14)%nat = None) by (unfold s0; rewrite eqb_off, (eqb_off_lt _ _ _ Hp); reflexivity).
  assert (S025 : s0 (length h + 25)%nat = None) by (unfold s0; rewrite eqb_off, (eqb_off_lt _ _ _ Hp); reflexivity).
  assert (S013 : s0 (length h + 13)%nat = None) by (unfold s0; rewrite eqb_off, (eqb_off_lt _ _ _ Hp); reflexivity).
  assert (S012 : s0 (length h + 12)%nat = None) by (unfold s0; rewrite eqb_off, (eqb_off_lt _ _ _ Hp); reflexivity).
  assert (S010 : s0 (length h + 10)%nat = None) by (unfold s0; rewrite eqb_off, (eqb_off_lt _ _ _ Hp); reflexivity).
  assert (S09 : s0 (length h + 9)%nat = None) by (unfold s0; rewrite eqb_off, (eqb_off_lt _ _ _ Hp); reflexivity).
  assert (S08 : s0 (length h + 8)%nat = None) by (unfold s0; rewrite eqb_off, (eqb_off_lt _ _ _ Hp); reflexivity).
  assert (S07 : s0 (length h + 7)%nat = None) by (unfold s0; rewrite eqb_off, (eqb_off_lt _ _ _ Hp); reflexivity).
  assert (S06 : s0 (length h + 6)%nat = None) by (unfold s0; rewrite eqb_off, (eqb_off_lt _ _ _ Hp); reflexivity).
  assert (S05 : s0 (length h + 5)%nat = None) by (unfold s0; rewrite eqb_off, (eqb_off_lt _ _ _ Hp); reflexivity).
  assert (S0p : s0 p = option_map elt g0) by (unfold s0; rewrite (eqb_lt_off _ _ _ Hp), Nat.eqb_refl; reflexivity).
  assert (Fin : exists f, fold_left (anode thr H) (bce_pre (length h)) s0 p = Some f /\
           forall idx, validIdx [N] idx -> f idx = prior g0 idx + bceD N (elt pv idx) (elt tv idx)).
  { clear HMm HM0. clearbody s0. unfold bce_pre. cbn [map fold_left]. do 23 anode_step Hp. aq Hp. s0q.
    eexists. split; [reflexivity|]. intros idx Hv. cbv beta.
    pose proof (Vl_isT H _ _ _ _ idx V22 I22 Hv) as EV22. cbv beta in EV22.
    pose proof (Vl_isT H _ _ _ _ idx V20 I20 Hv) as EV20. cbv beta in EV20.
    pose proof (Vl_isT H _ _ _ _ idx V11 I11 Hv) as EV11. cbv beta in EV11.
    pose proof (Vl_isT H _ _ _ _ idx V9 I9 Hv) as EV9. cbv beta in EV9.
    pose proof (Vl_isT H _ _ _ _ idx V6 I6 Hv) as EV6. cbv beta in EV6.
    pose proof (Vl_isT H _ _ _ _ idx V8 I8 Hv) as EV8. cbv beta in EV8.
    pose proof (Vl_isT H _ _ _ _ idx V7 I7 Hv) as EV7. cbv beta in EV7.
    assert (EVp : Vl H p idx = elt pv idx) by (unfold Vl; rewrite VHp; reflexivity).
    destruct g0 as [gp|]; cbn [option_map prior rsem];
      rewrite EV22, EV20, EV11, EV9, EV6, EV8, EV7, EVp, D28; change (Z.to_nat 0) with 0%nat; cbn [nth];
      rewrite !clipR_simpl, !Rpow_c0, !cst_R, dec2R_0, dec2R_1, dec2R_m1, !Rmult_1_r;
      unfold bceD; cbv zeta; unfold Rdiv.
    all: ring. }
  destruct Fin as (f & Ef' & Hf). specialize (HMm p (or_intror eq_refl)). rewrite Ef' in HMm.
  destruct HMm as (g & Eg & Tg). rewrite DP in Tg.
  rewrite Ef. exists hm, logm, rest, g. split; [reflexivity|]. split; [exact Brest|]. split.
  { intros Hl. apply Hleaf. unfold H. rewrite edgesOf_old by exact Hp. exact Hl. }
  split; [exact HSm|]. split; [exact HwH|]. split; [unfold H; rewrite trackedOf_app by exact Ht; exact Tt|].
  split; [unfold H; apply edgesOf_old; exact Hp|].
  split; [exact Eg|]. split; [rewrite Edp; exact (proj1 Tg)|]. split; [exact (proj1 (proj2 Tg))|]. split.
  { apply (acc1_final thr draw g0 [N] _ f g); [rewrite <- Edp; exact Hprior|repeat constructor; exact Npos|exact Tg|exact Hf]. }
  split; [|intros j Hj; unfold H; apply gradOf_old; exact Hj].
  intros j Hj Hjp. rewrite Hfr by (unfold dom; blia). unfold hh0. rewrite gradOf_setGrad, gradOf_markDirty.
  assert (X : (j =? length h + 29)%nat = false) by (apply Nat.eqb_neq; blia). rewrite X.
  unfold H. apply gradOf_old. exact Hj.
Qed.

(* C13, BCE.  Whatever the outcome of the back-propagation below the prediction (p may be a leaf or
   the result of earlier tracked operations: NO hypothesis restricts the back edges of p), the
   prediction ends with its previous gradient accumulated with the tensor bceG, which has the
   prediction's shape; the untracked target receives nothing and no value changes.  Holds for
   both variants rd of the Broadcast back edge (every implicit broadcast is between equal shapes). *)
Theorem bce_grad rd (h : heap) p t name pv tv g0 h1 l :
  rules_own h -> wf_heap h ->
  valOf h p = Some pv -> wf pv -> valOf h t = Some tv -> wf tv ->
  trackedOf h p = true -> dirtyOf h p = false -> trackedOf h t = false -> dirtyOf h t = false ->
  lossArgs1 h (Some p) (Some t) = Some (p, t) ->
  gradOf h p = g0 -> prior_ok (dims pv) g0 ->
  bce_compute eps ome h (Some p) (Some t) name = (h1, Ok l) ->
  forall h2 log r, bp_topo rd idseal h1 l = (h2, log, r) ->
    (exists g, gradOf h2 p = Some g /\ dims g = dims pv /\ wf g /\ acc1 g0 (bceG pv tv) = Some (Some g)) /\
    gradOf h2 t = gradOf h1 t /\
    (forall i, valOf h2 i = valOf h1 i).
Proof.
  intros Ho Hw Vp Wp Vt Wt Tp Dp Tt Dt Ea Eg0 Hprior E h2 log r E2.
  destruct (bce_bp rd h p t name pv tv g0 h1 l Ho Hw Vp Wp Vt Wt Tp Dp Tt Dt Ea Eg0 Hprior E)
    as (hm & logm & rest & g & Esp & Brest & _ & HSm & W1 & Tt1 & _ & Eg & Dg & Wg & Hacc & Hfr & Hold).
  assert (Ht : (t < length h)%nat) by (eapply valOf_some_lt; eauto).
  assert (Hpt : t <> p) by (intros X; subst t; congruence).
  destruct (split_any rd h1 l p rest hm logm p W1 HSm Esp Brest (or_introl eq_refl) h2 log r E2) as [HS2 Hgp].
  destruct (split_any rd h1 l p rest hm logm t W1 HSm Esp Brest (or_intror Tt1) h2 log r E2) as [_ Hgt].
  split; [exists g; rewrite Hgp; auto|]. split.
  - rewrite Hgt, (Hfr t Ht Hpt), (Hold t Ht). reflexivity.
  - intros i. symmetry. apply (sameS_val _ _ HS2).
Qed.

(* the same statement read for an interior prediction: it IS the same theorem *)
Definition bce_grad_interior := bce_grad.

(* never fails: a leaf prediction *)
Theorem bce_grad_leaf rd (h : heap) p t name pv tv g0 h1 l :
  rules_own h -> wf_heap h ->
  valOf h p = Some pv -> wf pv -> valOf h t = Some tv -> wf tv ->
  trackedOf h p = true -> dirtyOf h p = false -> trackedOf h t = false -> dirtyOf h t = false ->
  lossArgs1 h (Some p) (Some t) = Some (p, t) ->
  gradOf h p = g0 -> prior_ok (dims pv) g0 ->
  bce_compute eps ome h (Some p) (Some t) name = (h1, Ok l) ->
  edgesOf h p = [] ->
  exists h2 log, bp_topo rd idseal h1 l = (h2, log, Ok tt) /\
    (exists g, gradOf h2 p = Some g /\ dims g = dims pv /\ wf g /\ acc1 g0 (bceG pv tv) = Some (Some g)) /\
    gradOf h2 t = gradOf h1 t /\
    (forall i, valOf h2 i = valOf h1 i).
Proof.
  intros Ho Hw Vp Wp Vt Wt Tp Dp Tt Dt Ea Eg0 Hprior E Hleaf.
  destruct (bce_bp rd h p t name pv tv g0 h1 l Ho Hw Vp Wp Vt Wt Tp Dp Tt Dt Ea Eg0 Hprior E)
    as (hm & logm & rest & g & Esp & _ & Hrest & HSm & _ & _ & Hed & Eg & _).
  rewrite (Hrest Hleaf) in Esp. rewrite (split_leaf rd h1 p hm logm g HSm) in Esp; [|congruence|exact Eg].
  eexists _, _. split; [exact Esp|].
  exact (bce_grad rd h p t name pv tv g0 h1 l Ho Hw Vp Wp Vt Wt Tp Dp Tt Dt Ea Eg0 Hprior E _ _ _ Esp).
Qed.

(* an untracked prediction: the loss is untracked and back-propagation changes nothing *)
Theorem bce_grad_untracked rd sealg (h : heap) p t name pv tv h1 l :
  valOf h p = Some pv -> valOf h t = Some tv ->
  trackedOf h p = false -> dirtyOf h p = false -> trackedOf h t = false -> dirtyOf h t = false ->
  lossArgs1 h (Some p) (Some t) = Some (p, t) ->
  bce_compute eps ome h (Some p) (Some t) name = (h1, Ok l) ->
  bp_topo rd sealg h1 l = (h1, [], Ok tt).
Proof.
  intros Vp Vt Tp Dp Tt Dt Ea E.
  destruct (bce_structure eps ome h p t name h1 l false pv tv Vp Vt Tp Dp Tt Dt Ea E)
    as (a0 & a1 & a2 & a3 & a4 & b0 & b1 & b2 & b3 & b4 & lpv & k1 & k2 & sAv & one2 & d1 & d2 & t2v & e1 & e2 & y2v
        & ly2v & f1 & f2 & sBv & g1 & g2 & lv & lnv & lossv & _ & -> & ->).
  apply bp_topo_untracked. rewrite trackedOf_off. reflexivity.
Qed.

(* ---------------------------------------------------------------------------------------- *)
(* the analytic reading of bceG                                                             *)
(* ---------------------------------------------------------------------------------------- *)
Definition bclip01 (t : R) : R := Rmax 0 (Rmin t 1).

Lemma bclip01_id t : 0 <= t <= 1 -> bclip01 t = t.
Proof. intros [H0 H1]. unfold bclip01. rewrite Rmin_left by exact H1. apply Rmax_right, H0. Qed.

Lemma bclip01_range t : 0 <= bclip01 t <= 1.
Proof.
  unfold bclip01. split; [apply Rmax_l|]. apply Rmax_lub; [lra|apply Rmin_r].
Qed.

Lemma bce_eqt_gt a b : 0 <= thr -> thr < a - b -> eqt thr a b = 0 /\ eqt thr b a = 0.
Proof.
  intros Ht H. split; apply eqt_far.
  - rewrite Rabs_pos_eq by lra. exact H.
  - rewrite Rabs_minus_sym, Rabs_pos_eq by lra. exact H.
Qed.

(* strictly inside the clipping interval: the derivative of the loss *)
Lemma bceD_inside N x t : 0 <= thr -> 0 < eps -> ome < 1 -> (0 < N)%nat -> eps + thr < x -> x < ome - thr ->
  bceD N x t = ((1 - bclip01 t) / (1 - x) - bclip01 t / x) / INR N.
Proof.
  intros Ht He Ho HN Hl Hu. unfold bceD. fold (bclip01 t).
  rewrite (Rmin_left x ome) by lra. rewrite (Rmax_right eps x) by lra.
  rewrite (eqt_same thr x Ht).
  destruct (bce_eqt_gt x eps Ht ltac:(lra)) as [X1 _]. destruct (bce_eqt_gt ome x Ht ltac:(lra)) as [_ X2].
  rewrite X1, X2. assert (HN' : INR N <> 0) by (apply not_0_INR; lia). field. repeat split; lra.
Qed.

(* clipped from below (x < eps, in particular x = 0): a finite zero *)
Lemma bceD_below N x t : 0 <= thr -> eps < ome -> x < eps - thr -> bceD N x t = 0.
Proof.
  intros Ht He Hl. unfold bceD.
  rewrite (Rmin_left x ome) by lra. rewrite (Rmax_left eps x) by lra.
  destruct (bce_eqt_gt eps x Ht ltac:(lra)) as [X1 X2]. rewrite X1, X2. ring.
Qed.

(* clipped from above (x > 1 - eps, in particular x = 1): a finite zero *)
Lemma bceD_above N x t : 0 <= thr -> ome + thr < x -> bceD N x t = 0.
Proof.
  intros Ht Hl. unfold bceD.
  rewrite (Rmin_right x ome) by lra.
  destruct (bce_eqt_gt x ome Ht ltac:(lra)) as [X1 X2]. rewrite X1, X2. ring.
Qed.

(* C13, the formula.  In Go eps = 1e-12, ome = 1 - 1e-12 and the equality threshold thr is 1e-240;
   at thr = 0 the guards are exactly  eps < p < ome,  p < eps,  p > ome. *)
Theorem bce_grad_formula (pv tv : T) N idx :
  0 <= thr -> 0 < eps -> eps < ome -> ome < 1 ->
  dims pv = [N] -> validIdx [N] idx ->
  let x := elt pv idx in let t := elt tv idx in
  dims (bceG pv tv) = [N] /\ wf (bceG pv tv) /\
  (eps + thr < x -> x < ome - thr ->
     elt (bceG pv tv) idx = ((1 - bclip01 t) / (1 - x) - bclip01 t / x) / INR N) /\
  (eps + thr < x -> x < ome - thr -> 0 <= t <= 1 ->
     elt (bceG pv tv) idx = ((1 - t) / (1 - x) - t / x) / INR N) /\
  (x < eps - thr -> elt (bceG pv tv) idx = 0) /\
  (ome + thr < x -> elt (bceG pv tv) idx = 0) /\
  (thr < eps -> x = 0 -> elt (bceG pv tv) idx = 0) /\
  (ome + thr < 1 -> x = 1 -> elt (bceG pv tv) idx = 0).
Proof.
  intros Ht He Heo Ho Edp Hv x t. unfold bceG. rewrite Edp. cbn [nth].
  assert (HN : (0 < N)%nat).
  { clear - Hv. inversion Hv as [|i0 n0 l1 l2 H1 H2]; subst. lia. }
  assert (Hpos : List.Forall (fun d : nat => (0 < d)%nat) [N]) by (repeat constructor; exact HN).
  split; [reflexivity|]. split; [apply ofFun_wf, Hpos|].
  rewrite (elt_ofFun _ _ _ Hv). fold x t.
  split; [intros Hl Hu; apply bceD_inside; assumption|].
  split; [intros Hl Hu Ht01; rewrite <- (bclip01_id t Ht01) at 2 3; apply bceD_inside; assumption|].
  split; [intros Hl; apply bceD_below; assumption|].
  split; [intros Hu; apply bceD_above; assumption|].
  split; [intros Hte Hp0; apply bceD_below; [assumption|assumption|lra]|].
  intros Hte Hp1; apply bceD_above; [assumption|lra].
Qed.

Lemma bce_acc1_elt ds (o : option T) (G g : T) : prior_ok ds o -> wf G -> dims G = ds -> acc1 o G = Some (Some g) ->
  forall idx, validIdx ds idx -> elt g idx = prior o idx + elt G idx.
Proof.
  intros Hp WG DG Ha idx Hv. destruct o as [gp|]; cbn [acc1 prior] in *.
  - destruct Hp as [Wp Dp].
    destruct (ar_elt thr draw BiAdd gp G Wp WG ltac:(congruence)) as (s & Es & _ & _ & Gs).
    rewrite Es in Ha. assert (s = g) by congruence. subst s.
    rewrite Gs by (rewrite Dp; exact Hv). reflexivity.
  - assert (G = g) by congruence. subst g. ring.
Qed.

(* C13, BCE, end to end: bce_grad and bce_grad_formula combined, element by element *)
Theorem bce_grad_elementwise rd (h : heap) p t name pv tv g0 h1 l N :
  0 <= thr -> 0 < eps -> eps < ome -> ome < 1 ->
  rules_own h -> wf_heap h ->
  valOf h p = Some pv -> wf pv -> valOf h t = Some tv -> wf tv ->
  trackedOf h p = true -> dirtyOf h p = false -> trackedOf h t = false -> dirtyOf h t = false ->
  lossArgs1 h (Some p) (Some t) = Some (p, t) ->
  gradOf h p = g0 -> prior_ok (dims pv) g0 ->
  bce_compute eps ome h (Some p) (Some t) name = (h1, Ok l) ->
  dims pv = [N] ->
  forall h2 log r, bp_topo rd idseal h1 l = (h2, log, r) ->
    exists g, gradOf h2 p = Some g /\ dims g = [N] /\ wf g /\
      forall idx, validIdx [N] idx ->
        let pe := elt pv idx in let te := elt tv idx in
        (eps + thr < pe -> pe < ome - thr ->
           elt g idx = prior g0 idx + ((1 - bclip01 te) / (1 - pe) - bclip01 te / pe) / INR N) /\
        (eps + thr < pe -> pe < ome - thr -> 0 <= te <= 1 ->
           elt g idx = prior g0 idx + ((1 - te) / (1 - pe) - te / pe) / INR N) /\
        (pe < eps - thr \/ ome + thr < pe -> elt g idx = prior g0 idx) /\
        (thr < eps /\ pe = 0 \/ ome + thr < 1 /\ pe = 1 -> elt g idx = prior g0 idx).
Proof.
  intros Hthr He Heo Ho1 Ho Hw Vp Wp Vt Wt Tp Dp Tt Dt Ea Eg0 Hprior E Edp h2 log r E2.
  destruct (bce_grad rd h p t name pv tv g0 h1 l Ho Hw Vp Wp Vt Wt Tp Dp Tt Dt Ea Eg0 Hprior E h2 log r E2)
    as ((g & Eg & Dg & Wg & Hacc) & _ & _).
  exists g. split; [exact Eg|]. split; [congruence|]. split; [exact Wg|]. intros idx Hv pe te.
  destruct (bce_grad_formula pv tv N idx Hthr He Heo Ho1 Edp Hv) as (DG & WG & F1 & F2 & F3 & F4 & F5 & F6).
  fold pe te in F1, F2, F3, F4, F5, F6.
  rewrite Edp in Hprior.
  pose proof (bce_acc1_elt [N] g0 (bceG pv tv) g Hprior WG DG Hacc idx Hv) as Hel.
  split; [intros Hl Hu; rewrite Hel, F1 by assumption; reflexivity|].
  split; [intros Hl Hu Ht; rewrite Hel, F2 by assumption; reflexivity|].
  split; [intros [Hl|Hu]; rewrite Hel; [rewrite F3 by exact Hl|rewrite F4 by exact Hu]; ring|].
  intros [[Hte H0]|[Hte H1']]; rewrite Hel; [rewrite F5 by assumption|rewrite F6 by assumption]; ring.
Qed.

(* exactly AT the bounds (excluded by the property) the ElMax/ElMin rules split the tie: half the
   interior value.  With thr > 0 the same happens in the band within thr of a bound (the recorded
   near-tie finding D10); at thr = 0 the band is the single point. *)
Lemma bceD_near_eps N x t : 0 <= thr -> 0 < eps -> ome < 1 -> (0 < N)%nat -> eps <= x -> x <= eps + thr -> x < ome - thr ->
  bceD N x t = / 2 * (((1 - bclip01 t) / (1 - x) - bclip01 t / x) / INR N).
Proof.
  intros Ht He Ho HN Hl Hn Hu. unfold bceD. fold (bclip01 t).
  rewrite (Rmin_left x ome) by lra. rewrite (Rmax_right eps x) by lra.
  rewrite (eqt_same thr x Ht).
  assert (X1 : eqt thr x eps = 1) by (apply eqt_near; rewrite Rabs_pos_eq; lra).
  destruct (bce_eqt_gt ome x Ht ltac:(lra)) as [_ X2].
  rewrite X1, X2. assert (HN' : INR N <> 0) by (apply not_0_INR; lia). field. repeat split; lra.
Qed.

Lemma bceD_near_ome N x t : 0 <= thr -> 0 < eps -> ome < 1 -> (0 < N)%nat -> eps + thr < x -> ome - thr <= x -> x <= ome ->
  bceD N x t = / 2 * (((1 - bclip01 t) / (1 - x) - bclip01 t / x) / INR N).
Proof.
  intros Ht He Ho HN Hl Hn Hu. unfold bceD. fold (bclip01 t).
  rewrite (Rmin_left x ome) by lra. rewrite (Rmax_right eps x) by lra.
  rewrite (eqt_same thr x Ht).
  assert (X1 : eqt thr x ome = 1) by (apply eqt_near; rewrite Rabs_minus_sym, Rabs_pos_eq; lra).
  destruct (bce_eqt_gt x eps Ht ltac:(lra)) as [X2 _].
  rewrite X1, X2. assert (HN' : INR N <> 0) by (apply not_0_INR; lia). field. repeat split; lra.
Qed.

End BceBp.

(* the exact-threshold reading (thr = 0): the guards are the property's *)
Corollary bce_grad_formula_thr0 (eps ome : R) (pv tv : tensor R) N idx :
  0 < eps -> eps < ome -> ome < 1 -> dims pv = [N] -> validIdx [N] idx ->
  let x := elt pv idx in let t := elt tv idx in
  (eps < x -> x < ome -> elt (bceG 0 eps ome pv tv) idx = ((1 - bclip01 t) / (1 - x) - bclip01 t / x) / INR N) /\
  (eps < x -> x < ome -> 0 <= t <= 1 -> elt (bceG 0 eps ome pv tv) idx = ((1 - t) / (1 - x) - t / x) / INR N) /\
  (x < eps \/ ome < x -> elt (bceG 0 eps ome pv tv) idx = 0) /\
  (x = 0 \/ x = 1 -> elt (bceG 0 eps ome pv tv) idx = 0).
Proof.
  intros He Heo Ho Edp Hv x t.
  destruct (bce_grad_formula 0 eps ome pv tv N idx (Rle_refl 0) He Heo Ho Edp Hv)
    as (_ & _ & F1 & F2 & F3 & F4 & F5 & F6). fold x t in F1, F2, F3, F4, F5, F6.
  split; [intros Hl Hu; apply F1; lra|]. split; [intros Hl Hu Ht; apply F2; [lra|lra|exact Ht]|].
  split; [intros [Hl|Hu]; [apply F3; lra|apply F4; lra]|].
  intros [H0|H1]; [apply F5; [lra|exact H0]|apply F6; [lra|exact H1]].
Qed.

(* ---- non-vacuity: a leaf prediction [1/2; 1], target [1; 0], eps = 1/4, 1-eps = 3/4, exact equality
   (thr = 0): gradient [-1; 0] (zero at the clipped prediction 1) ---- *)
Section BceEx.
Variable draw : bool -> nat -> R.
Local Hint Extern 0 (Scalar R) => exact (R_scalar 0 draw) : typeclass_instances.
Local Open Scope R_scope.

Definition bexP : tensor R := mkT [2%nat] (Vec [Sc (1 / 2); Sc 1]).
Definition bexT : tensor R := mkT [2%nat] (Vec [Sc 1; Sc 0]).
Definition bexH : @heap R :=
  [mkNode bexP true false None [] (Some 0%nat); mkNode bexT false false None [] (Some 1%nat)].

Lemma wf_bv2 (a b : R) : wf (mkT [2%nat] (Vec [Sc a; Sc b])).
Proof. split; [cbn; repeat constructor|repeat constructor]. Qed.

Example bce_grad_ex rd : exists h1 l h2 log g,
  bce_compute (1 / 4) (3 / 4) bexH (Some 0%nat) (Some 1%nat) None = (h1, Ok l) /\
  bp_topo rd (fun _ g => g) h1 l = (h2, log, Ok tt) /\
  gradOf h2 0 = Some g /\ dims g = [2%nat] /\ elt g [0%nat] = -1 /\ elt g [1%nat] = 0.
Proof.
  assert (Ho : rules_own bexH) by (intros c n e Hn He; destruct c as [|[|[|c]]]; cbn in Hn; try discriminate; inversion Hn; subst n; destruct He).
  assert (Hw : wf_heap bexH) by (intros c n e Hn He; destruct c as [|[|[|c]]]; cbn in Hn; try discriminate; inversion Hn; subst n; destruct He).
  destruct (bce_compute_spec (1 / 4) (3 / 4) bexH (Some 0%nat) (Some 1%nat) 0%nat 1%nat None bexP bexT eq_refl eq_refl eq_refl
              (wf_bv2 _ _) (wf_bv2 _ _)) as (n & r & _ & _ & (h1 & l & E & _) & _).
  destruct (bce_grad_leaf 0 draw (1 / 4) (3 / 4) rd bexH 0%nat 1%nat None bexP bexT None h1 l Ho Hw eq_refl (wf_bv2 _ _)
              eq_refl (wf_bv2 _ _) eq_refl eq_refl eq_refl eq_refl eq_refl eq_refl I E eq_refl)
    as (h2 & log & E2 & (g & Eg & Dg & _ & Hacc) & _).
  exists h1, l, h2, log, g. split; [exact E|]. split; [exact E2|]. split; [exact Eg|]. split; [exact Dg|].
  cbn [acc1] in Hacc. assert (g = bceG 0 (1 / 4) (3 / 4) bexP bexT) by congruence. subst g.
  assert (V : forall i, (i < 2)%nat -> validIdx [2%nat] [i]) by (intros i Hi; constructor; [exact Hi|constructor]).
  assert (K1 : 0 < 1 / 4) by lra. assert (K2 : 1 / 4 < 3 / 4) by lra. assert (K3 : 3 / 4 < 1) by lra.
  assert (L0 : (0 < 2)%nat) by lia. assert (L1 : (1 < 2)%nat) by lia.
  destruct (bce_grad_formula_thr0 (1 / 4) (3 / 4) bexP bexT 2 [0%nat] K1 K2 K3 eq_refl (V _ L0)) as (_ & F0 & _ & _).
  destruct (bce_grad_formula_thr0 (1 / 4) (3 / 4) bexP bexT 2 [1%nat] K1 K2 K3 eq_refl (V _ L1)) as (_ & _ & _ & F1).
  assert (P0 : elt bexP [0%nat] = 1 / 2) by reflexivity.
  assert (P1 : elt bexP [1%nat] = 1) by reflexivity.
  assert (T0 : elt bexT [0%nat] = 1) by reflexivity.
  rewrite P0, T0 in F0. rewrite P1 in F1.
  split; [rewrite F0; [simpl INR; lra|lra|lra|lra]|]. apply F1; right; reflexivity.
Qed.
End BceEx.

Print Assumptions bce_structure.
Print Assumptions bce_bp.
Print Assumptions bce_grad.
Print Assumptions bce_grad_leaf.
Print Assumptions bce_grad_untracked.
Print Assumptions bce_grad_formula.
Print Assumptions bce_grad_elementwise.
Print Assumptions bce_grad_formula_thr0.
Print Assumptions bce_grad_ex.
