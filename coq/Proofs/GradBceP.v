(* GradBceP.v — C13 for the binary cross-entropy loss.  Built on Proofs/GradLossP.v. *)
From Coq Require Import List Arith ZArith Bool Lia Reals Lra.
From Coquelicot Require Import Coquelicot.
From Qeep Require Import Model.Scalar Model.Nd Model.Fill Model.Data Model.Valid Model.Api Model.Grad Model.Backprop
  Model.Components.
From Qeep Require Import Spec.RScalar Spec.VjpSpec.
From Qeep Require Import Proofs.NdP Proofs.ElemP Proofs.BroadcastP Proofs.ReduceP Proofs.ReduceRP Proofs.CompP Proofs.LossP
  Proofs.VjpElemP Proofs.VjpReduceP Proofs.TrackP Proofs.BackpropP Proofs.CompRP Proofs.GradLossP.
Import ListNotations.
Local Open Scope nat_scope.

Section BceStructure.
Context {A : Type} {SA : Scalar A}.
Notation T := (tensor A).
Notation heap := (@heap A).
Notation rule := (@rule A).
Notation c0 := (@cst A SA 0 0).
Notation c1 := (@cst A SA 1 0).
Notation cm1 := (@cst A SA (-1) 0).
Variables (eps ome : A).

(* the thirty nodes BCE.Compute appends; tp = is the prediction tracked *)
Definition bce_nodes (L p t : nat) (tp : bool) (name : option nat)
  (a0 a1 a2 a3 a4 b0 b1 b2 b3 b4 lpv k1 k2 sAv one2 d1 d2 t2v e1 e2 y2v ly2v f1 f2 sBv g1 g2 lv lnv lossv : T)
  : heap :=
  [ xnode a0 false [(t, RPow (L + 0) t c0 true)] None;
    xnode a1 false [(L + 0, RScale (L + 1) c0)] None;
    xnode a2 false [(L + 0, RScale (L + 2) c1)] None;
    xnode a3 false [(t, RElSel (L + 3) t (L + 2)); (L + 2, RElSel (L + 3) (L + 2) t)] None;
    xnode a4 false [(L + 1, RElSel (L + 4) (L + 1) (L + 3)); (L + 3, RElSel (L + 4) (L + 3) (L + 1))] None;
    xnode b0 tp [(p, RPow (L + 5) p c0 true)] None;
    xnode b1 tp [(L + 5, RScale (L + 6) eps)] None;
    xnode b2 tp [(L + 5, RScale (L + 7) ome)] None;
    xnode b3 tp [(p, RElSel (L + 8) p (L + 7)); (L + 7, RElSel (L + 8) (L + 7) p)] None;
    xnode b4 tp [(L + 6, RElSel (L + 9) (L + 6) (L + 8)); (L + 8, RElSel (L + 9) (L + 8) (L + 6))] None;
    xnode lpv tp [(L + 9, RLog (L + 10) (L + 9))] None;
    xnode k1 false [(L + 4, RBroadcast (L + 11) (L + 4))] None;
    xnode k2 tp [(L + 10, RBroadcast (L + 12) (L + 10))] None;
    xnode sAv tp (arithEdges BiMul (L + 13) (L + 11) (L + 12)) None;
    xnode one2 tp [(L + 9, RPow (L + 14) (L + 9) c0 true)] None;
    xnode d1 tp [(L + 14, RBroadcast (L + 15) (L + 14))] None;
    xnode d2 false [(L + 4, RBroadcast (L + 16) (L + 4))] None;
    xnode t2v tp (arithEdges BiSub (L + 17) (L + 15) (L + 16)) None;
    xnode e1 tp [(L + 14, RBroadcast (L + 18) (L + 14))] None;
    xnode e2 tp [(L + 9, RBroadcast (L + 19) (L + 9))] None;
    xnode y2v tp (arithEdges BiSub (L + 20) (L + 18) (L + 19)) None;
    xnode ly2v tp [(L + 20, RLog (L + 21) (L + 20))] None;
    xnode f1 tp [(L + 17, RBroadcast (L + 22) (L + 17))] None;
    xnode f2 tp [(L + 21, RBroadcast (L + 23) (L + 21))] None;
    xnode sBv tp (arithEdges BiMul (L + 24) (L + 22) (L + 23)) None;
    xnode g1 tp [(L + 13, RBroadcast (L + 25) (L + 13))] None;
    xnode g2 tp [(L + 24, RBroadcast (L + 26) (L + 24))] None;
    xnode lv tp (arithEdges BiAdd (L + 27) (L + 25) (L + 26)) None;
    xnode lnv tp [(L + 27, RScale (L + 28) cm1)] None;
    xnode lossv tp [(L + 28, RAvgAlong (L + 29) (L + 28) 0%Z)] name ].

Definition bshape (x u : T) : list Z := map Z.of_nat (targetBroadcastDims (dims x) (dims u)).

(* the forward equations between the thirty values *)
Definition bce_fwd (pv tv : T)
  (a0 a1 a2 a3 a4 b0 b1 b2 b3 b4 lpv k1 k2 sAv one2 d1 d2 t2v e1 e2 y2v ly2v f1 f2 sBv g1 g2 lv lnv lossv : T) : Prop :=
  v_unary (UPow c0) tv = Ok a0 /\ v_unary (UScale c0) a0 = Ok a1 /\ v_unary (UScale c1) a0 = Ok a2 /\
  v_same BiElMin tv a2 = Ok a3 /\ v_same BiElMax a1 a3 = Ok a4 /\
  v_unary (UPow c0) pv = Ok b0 /\ v_unary (UScale eps) b0 = Ok b1 /\ v_unary (UScale ome) b0 = Ok b2 /\
  v_same BiElMin pv b2 = Ok b3 /\ v_same BiElMax b1 b3 = Ok b4 /\
  v_unary ULn b4 = Ok lpv /\
  v_broadcast a4 (bshape a4 lpv) = Ok k1 /\ v_broadcast lpv (bshape a4 lpv) = Ok k2 /\ apply2 (binaryF BiMul) k1 k2 = Some sAv /\
  v_unary (UPow c0) b4 = Ok one2 /\
  v_broadcast one2 (bshape one2 a4) = Ok d1 /\ v_broadcast a4 (bshape one2 a4) = Ok d2 /\ apply2 (binaryF BiSub) d1 d2 = Some t2v /\
  v_broadcast one2 (bshape one2 b4) = Ok e1 /\ v_broadcast b4 (bshape one2 b4) = Ok e2 /\ apply2 (binaryF BiSub) e1 e2 = Some y2v /\
  v_unary ULn y2v = Ok ly2v /\
  v_broadcast t2v (bshape t2v ly2v) = Ok f1 /\ v_broadcast ly2v (bshape t2v ly2v) = Ok f2 /\ apply2 (binaryF BiMul) f1 f2 = Some sBv /\
  v_broadcast sAv (bshape sAv sBv) = Ok g1 /\ v_broadcast sBv (bshape sAv sBv) = Ok g2 /\ apply2 (binaryF BiAdd) g1 g2 = Some lv /\
  v_unary (UScale cm1) lv = Ok lnv /\ v_reduceAlong RdMean lnv 0%Z = Ok lossv.

Ltac norm_heap := rewrite <- ?app_assoc in *; cbn [app length Nat.add] in *.
Ltac side_off := first [ rewrite trackedOf_off; reflexivity | rewrite dirtyOf_off; reflexivity
                       | rewrite trackedOf_app by assumption; assumption | rewrite dirtyOf_app by assumption; assumption ].

Ltac look V := rewrite valOf_off in V; cbn [valOf nth_error obind nval xnode] in V; inversion V; clear V.
Ltac flags := rewrite ?orb_false_r, ?orb_diag in *; cbn [orb] in *.

Lemma bce_structure (h : heap) p t name h1 l tp pv tv :
  valOf h p = Some pv -> valOf h t = Some tv ->
  trackedOf h p = tp -> dirtyOf h p = false -> trackedOf h t = false -> dirtyOf h t = false ->
  lossArgs1 h (Some p) (Some t) = Some (p, t) ->
  bce_compute eps ome h (Some p) (Some t) name = (h1, Ok l) ->
  exists a0 a1 a2 a3 a4 b0 b1 b2 b3 b4 lpv k1 k2 sAv one2 d1 d2 t2v e1 e2 y2v ly2v f1 f2 sBv g1 g2 lv lnv lossv,
    bce_fwd pv tv a0 a1 a2 a3 a4 b0 b1 b2 b3 b4 lpv k1 k2 sAv one2 d1 d2 t2v e1 e2 y2v ly2v f1 f2 sBv g1 g2 lv lnv lossv /\
    l = length h + 29 /\
    h1 = h ++ bce_nodes (length h) p t tp name
                a0 a1 a2 a3 a4 b0 b1 b2 b3 b4 lpv k1 k2 sAv one2 d1 d2 t2v e1 e2 y2v ly2v f1 f2 sBv g1 g2 lv lnv lossv.
Proof.
  intros Vp Vt Tp Dp Tt Dt Ea E. unfold bce_compute in E. rewrite Ea in E. apply atomically_ok in E.
  assert (Hp : p < length h) by (eapply valOf_some_lt; eauto).
  assert (Ht : t < length h) by (eapply valOf_some_lt; eauto).
  apply hbind_ok in E as (hh1 & ytc & E1 & E). apply hbind_ok in E as (hh2 & ypc & E2 & E).
  apply hbind_ok in E as (hh3 & lp & E3 & E). apply hbind_ok in E as (hh4 & sA & E4 & E).
  apply hbind_ok in E as (hh5 & one & E5 & E). apply hbind_ok in E as (hh6 & t2 & E6 & E).
  apply hbind_ok in E as (hh7 & y2 & E7 & E). apply hbind_ok in E as (hh8 & ly2 & E8 & E).
  apply hbind_ok in E as (hh9 & sB & E9 & E). apply hbind_ok in E as (hh10 & ll & E10 & E).
  apply hbind_ok in E as (hh11 & ln & E11 & E12).
  (* clip t *)
  rewrite <- (app_nil_r h) in E1.
  apply (clip_X h [] t c0 c1 hh1 ytc false) in E1; [|rewrite app_nil_r; exact Tt|rewrite app_nil_r; exact Dt].
  cbv zeta in E1. destruct E1 as (tv' & a0 & a1 & a2 & a3 & a4 & Vt' & Fa0 & Fa1 & Fa2 & Fa3 & Fa4 & -> & ->).
  rewrite app_nil_r in Vt'. assert (tv' = tv) by congruence. subst tv'. clear Vt'. norm_heap.
  (* clip p *)
  match type of E2 with clip (h ++ ?l) _ _ _ = _ =>
    apply (clip_X h l p eps ome hh2 ypc tp) in E2; [|side_off|side_off] end.
  cbv zeta in E2. destruct E2 as (pv' & b0 & b1 & b2 & b3 & b4 & Vp' & Fb0 & Fb1 & Fb2 & Fb3 & Fb4 & -> & ->).
  rewrite valOf_app in Vp' by exact Hp. assert (pv' = pv) by congruence. subst pv'. clear Vp'. norm_heap.
  (* lp = Log ypc *)
  unfold h_math in E3. cbn [mathUnary mathRule] in E3.
  match type of E3 with h_op1 (h ++ ?l) _ _ _ _ = _ => apply (op1_X h l _ _ _ _ _ _ tp) in E3; [|side_off|side_off] end.
  destruct E3 as (x1 & lpv & V1 & Flp & -> & ->). look V1. subst x1. norm_heap.
  (* sA = ytc * lp *)
  match type of E4 with h_arith (h ++ ?l) _ _ _ _ = _ =>
    apply (arith_X h l _ _ _ _ _ _ false tp) in E4; [|side_off|side_off|side_off|side_off] end.
  cbv zeta in E4. destruct E4 as (x1 & x2 & k1 & k2 & sAv & V1 & V2 & Fk1 & Fk2 & FsA & -> & ->).
  look V1. look V2. subst x1 x2. flags. norm_heap.
  (* one = ypc ^ 0 *)
  unfold h_pow in E5.
  match type of E5 with h_op1 (h ++ ?l) _ _ _ _ = _ => apply (op1_X h l _ _ _ _ _ _ tp) in E5; [|side_off|side_off] end.
  destruct E5 as (x1 & one2 & V1 & Fone2 & -> & ->). look V1. subst x1. norm_heap.
  (* t2 = one - ytc *)
  match type of E6 with h_arith (h ++ ?l) _ _ _ _ = _ =>
    apply (arith_X h l _ _ _ _ _ _ tp false) in E6; [|side_off|side_off|side_off|side_off] end.
  cbv zeta in E6. destruct E6 as (x1 & x2 & d1 & d2 & t2v & V1 & V2 & Fd1 & Fd2 & Ft2 & -> & ->).
  look V1. look V2. subst x1 x2. flags. norm_heap.
  (* y2 = one - ypc *)
  match type of E7 with h_arith (h ++ ?l) _ _ _ _ = _ =>
    apply (arith_X h l _ _ _ _ _ _ tp tp) in E7; [|side_off|side_off|side_off|side_off] end.
  cbv zeta in E7. destruct E7 as (x1 & x2 & e1 & e2 & y2v & V1 & V2 & Fe1 & Fe2 & Fy2 & -> & ->).
  look V1. look V2. subst x1 x2. flags. norm_heap.
  (* ly2 = Log y2 *)
  unfold h_math in E8. cbn [mathUnary mathRule] in E8.
  match type of E8 with h_op1 (h ++ ?l) _ _ _ _ = _ => apply (op1_X h l _ _ _ _ _ _ tp) in E8; [|side_off|side_off] end.
  destruct E8 as (x1 & ly2v & V1 & Fly2 & -> & ->). look V1. subst x1. norm_heap.
  (* sB = t2 * ly2 *)
  match type of E9 with h_arith (h ++ ?l) _ _ _ _ = _ =>
    apply (arith_X h l _ _ _ _ _ _ tp tp) in E9; [|side_off|side_off|side_off|side_off] end.
  cbv zeta in E9. destruct E9 as (x1 & x2 & f1 & f2 & sBv & V1 & V2 & Ff1 & Ff2 & FsB & -> & ->).
  look V1. look V2. subst x1 x2. flags. norm_heap.
  (* l = sA + sB *)
  match type of E10 with h_arith (h ++ ?l) _ _ _ _ = _ =>
    apply (arith_X h l _ _ _ _ _ _ tp tp) in E10; [|side_off|side_off|side_off|side_off] end.
  cbv zeta in E10. destruct E10 as (x1 & x2 & g1 & g2 & lv & V1 & V2 & Fg1 & Fg2 & Fl & -> & ->).
  look V1. look V2. subst x1 x2. flags. norm_heap.
  (* ln = -l *)
  unfold h_scale in E11.
  match type of E11 with h_op1 (h ++ ?l) _ _ _ _ = _ => apply (op1_X h l _ _ _ _ _ _ tp) in E11; [|side_off|side_off] end.
  destruct E11 as (x1 & lnv & V1 & Fln & -> & ->). look V1. subst x1. norm_heap.
  (* loss = mean *)
  unfold h_reduceAlong in E12. cbn [alongRule] in E12.
  match type of E12 with h_op1 (h ++ ?l) _ _ _ _ = _ => apply (op1_X h l _ _ _ _ _ _ tp) in E12; [|side_off|side_off] end.
  destruct E12 as (x1 & lossv & V1 & Floss & -> & ->). look V1. subst x1. norm_heap.
  exists a0, a1, a2, a3, a4, b0, b1, b2, b3, b4, lpv, k1, k2, sAv, one2, d1, d2, t2v, e1, e2, y2v, ly2v, f1, f2, sBv, g1, g2, lv, lnv, lossv.
  split; [unfold bce_fwd, bshape; repeat (split; [assumption|]); assumption|]. split; reflexivity.
Qed.
End BceStructure.

Section BceOwn.
Context {A : Type} {SA : Scalar A}.
Notation T := (tensor A).
Notation heap := (@heap A).
Variables (eps ome : A).

Lemma bce_own_wf (h : heap) p t name
  (a0 a1 a2 a3 a4 b0 b1 b2 b3 b4 lpv k1 k2 sAv one2 d1 d2 t2v e1 e2 y2v ly2v f1 f2 sBv g1 g2 lv lnv lossv : T) :
  rules_own h -> wf_heap h -> p < length h -> t < length h ->
  let nodes := bce_nodes eps ome (length h) p t true name
                 a0 a1 a2 a3 a4 b0 b1 b2 b3 b4 lpv k1 k2 sAv one2 d1 d2 t2v e1 e2 y2v ly2v f1 f2 sBv g1 g2 lv lnv lossv in
  rules_own (h ++ nodes) /\ wf_heap (h ++ nodes).
Proof.
  intros Ho Hw Hp Ht nodes. apply own_wf_ext; [exact Ho|exact Hw|]. intros k nd e Hn He.
  do 30 (destruct k as [|k]; [cbn [nth_error nodes bce_nodes] in Hn; inversion Hn; subst nd; cbn [nedges xnode arithEdges] in He;
    repeat (destruct He as [<-|He]; [cbn [fst snd rule_y]; split; lia|]); destruct He|]).
  destruct k; discriminate.
Qed.
End BceOwn.

Local Open Scope R_scope.

Section Bce.
Variables (thr : R) (draw : bool -> nat -> R).
Local Hint Extern 0 (Scalar R) => exact (R_scalar thr draw) : typeclass_instances.
Notation T := (tensor R).
Notation heap := (@heap R).
Notation rule := (@rule R).
Notation idseal := (fun (_ : option nat) (g : T) => g).
Notation c0 := (@cst R (R_scalar thr draw) 0 0).
Notation c1 := (@cst R (R_scalar thr draw) 1 0).
Notation cm1 := (@cst R (R_scalar thr draw) (-1) 0).
Variables (eps ome : R).

(* element-wise reading of the thirty forward values *)
Lemma bce_fwd_isT N (pv tv : T)
  (a0 a1 a2 a3 a4 b0 b1 b2 b3 b4 lpv k1 k2 sAv one2 d1 d2 t2v e1 e2 y2v ly2v f1 f2 sBv g1 g2 lv lnv lossv : T) :
  wf pv -> wf tv -> dims pv = [N] -> dims tv = [N] ->
  bce_fwd eps ome pv tv a0 a1 a2 a3 a4 b0 b1 b2 b3 b4 lpv k1 k2 sAv one2 d1 d2 t2v e1 e2 y2v ly2v f1 f2 sBv g1 g2 lv lnv lossv ->
  let P := elt pv in let Tt := elt tv in
  let A0 := fun i => Rpow (Tt i) c0 in
  let A4 := fun i => Rmax (c0 * A0 i) (Rmin (Tt i) (c1 * A0 i)) in
  let B0 := fun i => Rpow (P i) c0 in
  let B1 := fun i => eps * B0 i in let B2 := fun i => ome * B0 i in
  let B3 := fun i => Rmin (P i) (B2 i) in let B4 := fun i => Rmax (B1 i) (B3 i) in
  let O2 := fun i => Rpow (B4 i) c0 in
  exists FA1 FA2 FA3 FLp FsA FLy FsB FL FLn,
  isT [N] A0 a0 /\ isT [N] FA1 a1 /\ isT [N] FA2 a2 /\ isT [N] FA3 a3 /\ isT [N] A4 a4 /\
  isT [N] B0 b0 /\ isT [N] B1 b1 /\ isT [N] B2 b2 /\ isT [N] B3 b3 /\ isT [N] B4 b4 /\
  isT [N] FLp lpv /\ isT [N] A4 k1 /\ isT [N] FLp k2 /\ isT [N] FsA sAv /\
  isT [N] O2 one2 /\ isT [N] O2 d1 /\ isT [N] A4 d2 /\ isT [N] (fun i => O2 i - A4 i) t2v /\
  isT [N] O2 e1 /\ isT [N] B4 e2 /\ isT [N] (fun i => O2 i - B4 i) y2v /\
  isT [N] FLy ly2v /\ isT [N] (fun i => O2 i - A4 i) f1 /\ isT [N] FLy f2 /\ isT [N] FsB sBv /\
  isT [N] FsA g1 /\ isT [N] FsB g2 /\ isT [N] FL lv /\ isT [N] FLn lnv /\
  dims lossv = [] /\ wf lossv.
Proof.
  intros Wp Wt Edp Edt Hf P Tt A0 A4 B0 B1 B2 B3 B4 O2.
  destruct Hf as (Fa0 & Fa1 & Fa2 & Fa3 & Fa4 & Fb0 & Fb1 & Fb2 & Fb3 & Fb4 & Flp & Fk1 & Fk2 & FsA & Fone2 & Fd1 & Fd2 & Ft2
                  & Fe1 & Fe2 & Fy2 & Fly2 & Ff1 & Ff2 & FsB & Fg1 & Fg2 & Fl & Fln & Floss).
  assert (Ttv : isT [N] Tt tv) by (rewrite <- Edt; apply isT_self, Wt).
  assert (Tpv : isT [N] P pv) by (rewrite <- Edp; apply isT_self, Wp).
  pose proof (un_isT thr draw _ _ _ _ _ Ttv Fa0) as Ta0.
  pose proof (un_isT thr draw _ _ _ _ _ Ta0 Fa1) as Ta1.
  pose proof (un_isT thr draw _ _ _ _ _ Ta0 Fa2) as Ta2.
  pose proof (same_isT thr draw _ _ _ _ _ _ _ Ttv Ta2 Fa3) as Ta3.
  pose proof (same_isT thr draw _ _ _ _ _ _ _ Ta1 Ta3 Fa4) as Ta4.
  pose proof (un_isT thr draw _ _ _ _ _ Tpv Fb0) as Tb0.
  pose proof (un_isT thr draw _ _ _ _ _ Tb0 Fb1) as Tb1.
  pose proof (un_isT thr draw _ _ _ _ _ Tb0 Fb2) as Tb2.
  pose proof (same_isT thr draw _ _ _ _ _ _ _ Tpv Tb2 Fb3) as Tb3.
  pose proof (same_isT thr draw _ _ _ _ _ _ _ Tb1 Tb3 Fb4) as Tb4.
  pose proof (un_isT thr draw _ _ _ _ _ Tb4 Flp) as Tlp.
  assert (ES : forall (x u : T) fx fu, isT [N] fx x -> isT [N] fu u -> bshape x u = map Z.of_nat [N]).
  { intros x u fx fu (Dx & _) (Du & _). unfold bshape. rewrite Dx, Du, targetBroadcastDims_same. reflexivity. }
  rewrite (ES _ _ _ _ Ta4 Tlp) in Fk1, Fk2.
  pose proof (bcast_same_isT _ _ _ _ Ta4 Fk1) as Tk1. pose proof (bcast_same_isT _ _ _ _ Tlp Fk2) as Tk2.
  pose proof (apply2_isT thr draw BiMul _ _ _ _ _ _ Tk1 Tk2 FsA) as TsA.
  pose proof (un_isT thr draw _ _ _ _ _ Tb4 Fone2) as Tone2.
  rewrite (ES _ _ _ _ Tone2 Ta4) in Fd1, Fd2.
  pose proof (bcast_same_isT _ _ _ _ Tone2 Fd1) as Td1. pose proof (bcast_same_isT _ _ _ _ Ta4 Fd2) as Td2.
  pose proof (apply2_isT thr draw BiSub _ _ _ _ _ _ Td1 Td2 Ft2) as Tt2.
  rewrite (ES _ _ _ _ Tone2 Tb4) in Fe1, Fe2.
  pose proof (bcast_same_isT _ _ _ _ Tone2 Fe1) as Te1. pose proof (bcast_same_isT _ _ _ _ Tb4 Fe2) as Te2.
  pose proof (apply2_isT thr draw BiSub _ _ _ _ _ _ Te1 Te2 Fy2) as Ty2.
  pose proof (un_isT thr draw _ _ _ _ _ Ty2 Fly2) as Tly2.
  rewrite (ES _ _ _ _ Tt2 Tly2) in Ff1, Ff2.
  pose proof (bcast_same_isT _ _ _ _ Tt2 Ff1) as Tf1. pose proof (bcast_same_isT _ _ _ _ Tly2 Ff2) as Tf2.
  pose proof (apply2_isT thr draw BiMul _ _ _ _ _ _ Tf1 Tf2 FsB) as TsB.
  rewrite (ES _ _ _ _ TsA TsB) in Fg1, Fg2.
  pose proof (bcast_same_isT _ _ _ _ TsA Fg1) as Tg1. pose proof (bcast_same_isT _ _ _ _ TsB Fg2) as Tg2.
  pose proof (apply2_isT thr draw BiAdd _ _ _ _ _ _ Tg1 Tg2 Fl) as Tl.
  pose proof (un_isT thr draw _ _ _ _ _ Tl Fln) as Tln.
  destruct (along_elt thr draw RdMean lnv 0 (proj1 (proj2 Tln))) as (lv' & Elv & Dlv & Wlv & _).
  { rewrite (proj1 Tln). cbn [length]. lia. }
  change (Z.of_nat 0) with 0%Z in Elv. assert (lv' = lossv) by congruence. subst lv'. clear Elv.
  rewrite (proj1 Tln) in Dlv. change (squeezeDims 0 [N]) with (@nil nat) in Dlv.
  do 9 eexists.
  split; [exact Ta0|]. split; [exact Ta1|]. split; [exact Ta2|]. split; [exact Ta3|]. split; [exact Ta4|].
  split; [exact Tb0|]. split; [exact Tb1|]. split; [exact Tb2|]. split; [exact Tb3|]. split; [exact Tb4|].
  split; [exact Tlp|]. split; [exact Tk1|]. split; [exact Tk2|]. split; [exact TsA|].
  split; [exact Tone2|]. split; [exact Td1|]. split; [exact Td2|]. split; [exact Tt2|].
  split; [exact Te1|]. split; [exact Te2|]. split; [exact Ty2|].
  split; [exact Tly2|]. split; [exact Tf1|]. split; [exact Tf2|]. split; [exact TsB|].
  split; [exact Tg1|]. split; [exact Tg2|]. split; [exact Tl|]. split; [exact Tln|].
  split; [exact Dlv|exact Wlv].
Qed.

End Bce.
