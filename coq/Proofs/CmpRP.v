(* CmpRP.v — over the reals: comparison results are exactly 0 or 1 and agree with the order;
   Equals is true exactly when every position compares equal (for values that are identical or
   further apart than the library's absolute threshold). *)
From Coq Require Import List Arith Lia Reals Lra.
From Qeep Require Import Model.Scalar Model.Nd Model.Data Model.Components Model.Consts Spec.RScalar Proofs.ElemP.
Import ListNotations.
Open Scope R_scope.

Section R.
Variable thr : R.
Variable draw : bool -> nat -> R.
Hypothesis thr_nonneg : 0 <= thr.
Local Instance RS : Scalar R := R_scalar thr draw.

Theorem comparisons_are_01 (b : binary) (x y : R) :
  match b with
  | BiGt => binaryF b x y = (if Rgt_dec x y then 1 else 0)
  | BiGe => binaryF b x y = (if Rge_dec x y then 1 else 0)
  | BiLt => binaryF b x y = (if Rlt_dec x y then 1 else 0)
  | BiLe => binaryF b x y = (if Rle_dec x y then 1 else 0)
  | BiEq => (x = y -> binaryF b x y = 1) /\ (thr < Rabs (x - y) -> binaryF b x y = 0)
  | BiNe => (x = y -> binaryF b x y = 0) /\ (thr < Rabs (x - y) -> binaryF b x y = 1)
  | BiElMax => binaryF b x y = Rmax x y
  | BiElMin => binaryF b x y = Rmin x y
  | BiAdd => binaryF b x y = x + y
  | BiSub => binaryF b x y = x - y
  | BiMul => binaryF b x y = x * y
  | BiDiv => binaryF b x y = x / y
  end.
Proof.
  destruct b; cbn; try reflexivity; split; intros H.
  - subst. replace (y - y) with 0 by ring. rewrite Rabs_R0. destruct (Rle_dec 0 thr); [reflexivity|contradiction].
  - destruct (Rle_dec (Rabs (x - y)) thr); [lra|reflexivity].
  - subst. replace (y - y) with 0 by ring. rewrite Rabs_R0. destruct (Rle_dec 0 thr); [reflexivity|contradiction].
  - destruct (Rle_dec (Rabs (x - y)) thr); [lra|reflexivity].
Qed.

Theorem comparison_values_in_01 (b : binary) (x y : R) :
  match b with
  | BiEq | BiNe | BiGt | BiGe | BiLt | BiLe => binaryF b x y = 0 \/ binaryF b x y = 1
  | _ => True
  end.
Proof.
  destruct b; cbn; try exact I;
    match goal with |- context [if ?d then _ else _] => destruct d end; auto.
Qed.

(* sum of 0/1 indicators *)
Definition sep (x y : R) : Prop := x = y \/ thr < Rabs (x - y).

Lemma fold_ind_le (l : list (R * R)) : forall a,
  Forall (fun p => sep (fst p) (snd p)) l ->
  fold_left Rplus (map (fun p => seqt (fst p) (snd p)) l) a <= a + INR (length l) /\
  (fold_left Rplus (map (fun p => seqt (fst p) (snd p)) l) a = a + INR (length l) <-> Forall (fun p => fst p = snd p) l).
Proof.
  induction l as [|[x y] l IH]; intros a H.
  - cbn [map fold_left length INR]. split; [lra|]. split; [constructor|intros _; ring].
  - inversion H as [|? ? Hp Hl]; subst. cbn [map fold_left length fst snd]. rewrite S_INR.
    destruct (IH (a + seqt x y) Hl) as [IH1 IH2].
    pose proof (comparisons_are_01 BiEq x y) as [E1 E0]. cbn [binaryF] in E1, E0.
    destruct Hp as [Hp|Hp]; cbn [fst snd] in Hp.
    + rewrite (E1 Hp) in *. split; [lra|]. rewrite Forall_cons_iff. cbn [fst snd]. split.
      * intros E. split; [exact Hp|]. apply IH2. lra.
      * intros [_ Hf]. apply IH2 in Hf. lra.
    + rewrite (E0 Hp) in *. split; [lra|]. rewrite Forall_cons_iff. cbn [fst snd]. split.
      * intros E. exfalso. lra.
      * intros [Hxy _]. exfalso. subst. replace (y - y) with 0 in Hp by ring. rewrite Rabs_R0 in Hp. lra.
Qed.

(* Equals: the Go bool  sum(eq) >= n  is true exactly when every position compares equal *)
Theorem equals_iff (xs ys : list R) :
  length xs = length ys ->
  Forall (fun p => sep (fst p) (snd p)) (combine xs ys) ->
  (sgeb (fold_left sadd (map2 seqt xs ys) s0) (sofnat (length xs)) = 1 <-> xs = ys) /\
  (sgeb (fold_left sadd (map2 seqt xs ys) s0) (sofnat (length xs)) = 0 <-> xs <> ys).
Proof.
  intros Hlen Hsep. unfold map2.
  destruct (fold_ind_le (combine xs ys) 0 Hsep) as [Hle Hiff].
  rewrite combine_length, Hlen, Nat.min_id in Hle, Hiff.
  assert (Heq : Forall (fun p => fst p = snd p) (combine xs ys) <-> xs = ys).
  { clear -Hlen. revert ys Hlen. induction xs as [|x xs IH]; intros [|y ys] Hlen; cbn in Hlen; try discriminate.
    - split; [reflexivity|constructor].
    - cbn [combine]. rewrite Forall_cons_iff. cbn [fst snd]. rewrite (IH ys) by congruence.
      split; [intros [-> ->]; reflexivity|intros E; inversion E; auto]. }
  cbn [sgeb sadd s0 sofnat RS R_scalar]. rewrite Hlen.
  set (S := fold_left Rplus (map (fun p => seqt (fst p) (snd p)) (combine xs ys)) 0) in *.
  destruct (Rge_dec S (INR (length ys))) as [Hge|Hlt].
  - assert (E : S = 0 + INR (length ys)) by lra. apply Hiff in E. apply Heq in E.
    split; split; intros H; try reflexivity; try exact E; try lra; try contradiction.
  - assert (N : xs <> ys). { intros E. apply Heq in E. apply Hiff in E. lra. }
    split; split; intros H; try reflexivity; try exact N; try lra; try contradiction.
Qed.

End R.

(* the library's threshold, as read from the Go source, is non-negative (side condition of the above) *)
Lemma eq_threshold_nonneg : 0 <= dec2R (fst c_eq_threshold) (snd c_eq_threshold).
Proof.
  unfold dec2R, c_eq_threshold; cbn [fst snd]. rewrite Rmult_1_l.
  left. apply powerRZ_lt. lra.
Qed.
