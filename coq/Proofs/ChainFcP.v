(* ChainFcP.v — FC.forward is its source chain  (see ChainBaseP.v for the scheme). *)
From Coq Require Import String List ZArith Bool Arith.
From Qeep Require Import Model.Scalar Model.Nd Model.Fill Model.Data Model.Valid Model.Api Model.Grad
  Model.Components Model.ChainIR.
From Qeep Require Model.Chains.
Import ListNotations.
Local Open Scope string_scope.
From Qeep Require Import Proofs.ChainBaseP.

Section Fc.
Context {A : Type} {SA : Scalar A}.
Notation heap := (@heap A).
Notation hres := (@hres A).

(* ---- FC (component/layers/fc.go: forward); c.Weight / c.Bias are the current cell contents ---- *)
Theorem fc_chain h w b x nm : (rankOf h x =? 2)%nat = true ->
  fc_forward h w b [Some x] nm =
  atomically h (asHres (runFun (hooksH rsNone noUser nm noGuard) Chains.fc_forward h
                          [("c.Weight", w); ("c.Bias", b); ("x", x)])).
Proof. intros E. unfold fc_forward, oneInput. rewrite E. cbn [negb]. f_equal. unfold cst. chain_go. Qed.

End Fc.
