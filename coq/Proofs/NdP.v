(* NdP.v — basic facts about nested data: induction principle, well-formedness, get, tab,
   extensionality, mapM, row-major flattening. *)
From Coq Require Import List Arith ZArith Bool Lia.
From Qeep Require Import Model.Nd.
Import ListNotations.

Section NdInd.
Variable A : Type.
Variable P : nd A -> Prop.
Hypothesis HSc : forall a, P (Sc a).
Hypothesis HVec : forall l, Forall P l -> P (Vec l).
Fixpoint nd_ind' (x : nd A) : P x :=
  match x with
  | Sc a => HSc a
  | Vec l => HVec l ((fix go (l : list (nd A)) : Forall P l :=
                      match l with
                      | [] => Forall_nil P
                      | y :: r => Forall_cons y (nd_ind' y) (go r)
                      end) l)
  end.
End NdInd.

(* ---------- option monad helpers ---------- *)
Lemma obind_some {T U} (o : option T) (f : T -> option U) (u : U) :
  obind o f = Some u <-> exists t, o = Some t /\ f t = Some u.
Proof.
  destruct o as [t|]; cbn; split.
  - intros H; exists t; auto.
  - intros (t' & E & H); inversion E; subst; auto.
  - discriminate.
  - intros (t' & E & _); discriminate.
Qed.

(* ---------- mapM ---------- *)
Lemma mapM_length {T U} (f : T -> option U) l : forall r, mapM f l = Some r -> length r = length l.
Proof.
  induction l as [|x l IH]; intros r H; cbn in H.
  - inversion H; reflexivity.
  - destruct (f x) as [y|]; cbn in H; [|discriminate].
    destruct (mapM f l) as [ys|] eqn:E; cbn in H; [|discriminate].
    inversion H; subst; cbn; f_equal; apply IH; reflexivity.
Qed.

Lemma mapM_nth {T U} (f : T -> option U) l : forall r, mapM f l = Some r ->
  forall i x, nth_error l i = Some x -> exists y, nth_error r i = Some y /\ f x = Some y.
Proof.
  induction l as [|a l IH]; intros r H i x Hi; cbn in H.
  - destruct i; discriminate.
  - destruct (f a) as [y|] eqn:Ea; cbn in H; [|discriminate].
    destruct (mapM f l) as [ys|] eqn:E; cbn in H; [|discriminate].
    inversion H; subst. destruct i as [|i]; cbn in *.
    + inversion Hi; subst. exists y; auto.
    + eapply IH; eauto.
Qed.

Lemma mapM_all_some {T U} (f : T -> option U) (g : T -> U) l :
  (forall x, In x l -> f x = Some (g x)) -> mapM f l = Some (map g l).
Proof.
  induction l as [|a l IH]; intros H; cbn; [reflexivity|].
  rewrite (H a (or_introl eq_refl)). cbn. rewrite IH; [reflexivity|].
  intros x Hx; apply H; right; exact Hx.
Qed.

Lemma mapM_ext {T U} (f g : T -> option U) l :
  (forall x, In x l -> f x = g x) -> mapM f l = mapM g l.
Proof.
  induction l as [|a l IH]; intros H; cbn; [reflexivity|].
  rewrite (H a (or_introl eq_refl)). destruct (g a); cbn; [|reflexivity].
  rewrite IH; [reflexivity|]. intros x Hx; apply H; right; exact Hx.
Qed.

Lemma mapM_none_iff {T U} (f : T -> option U) l :
  mapM f l = None <-> exists x, In x l /\ f x = None.
Proof.
  induction l as [|a l IH]; cbn.
  - split; [discriminate|intros (x & [] & _)].
  - destruct (f a) as [y|] eqn:Ea; cbn.
    + destruct (mapM f l) as [ys|] eqn:E; cbn.
      * split; [discriminate|]. intros (x & [->|Hx] & Hn); [congruence|].
        destruct IH as [_ IH2].
        specialize (IH2 (ex_intro _ x (conj Hx Hn))). discriminate.
      * split; [intros _|reflexivity]. destruct IH as [IH1 _]. destruct (IH1 eq_refl) as (x & Hx & Hn).
        exists x; split; [right; exact Hx|exact Hn].
    + split; [intros _; exists a; split; [left; reflexivity|exact Ea]|reflexivity].
Qed.

(* mapM over positions 0..n-1 *)
Lemma mapM_seq_some {U} (f : nat -> option U) (g : nat -> U) n :
  (forall i, i < n -> f i = Some (g i)) -> mapM f (seq 0 n) = Some (map g (seq 0 n)).
Proof.
  intros H. apply mapM_all_some. intros x Hx. apply in_seq in Hx. apply H. lia.
Qed.

Lemma mapM_seq_inv {U} (f : nat -> option U) n r :
  mapM f (seq 0 n) = Some r -> length r = n /\ forall i, i < n -> exists y, nth_error r i = Some y /\ f i = Some y.
Proof.
  intros H. split.
  - rewrite (mapM_length _ _ _ H). apply seq_length.
  - intros i Hi. eapply mapM_nth; eauto. rewrite nth_error_nth' with (d := 0); [|rewrite seq_length; exact Hi].
    rewrite seq_nth; [reflexivity|exact Hi].
Qed.

Lemma nth_error_ext_len {T} (l1 l2 : list T) :
  length l1 = length l2 -> (forall i, i < length l1 -> nth_error l1 i = nth_error l2 i) -> l1 = l2.
Proof.
  revert l2. induction l1 as [|a l1 IH]; intros [|b l2] Hl H; cbn in Hl; try discriminate; [reflexivity|].
  f_equal.
  - specialize (H 0 ltac:(cbn; lia)). cbn in H. congruence.
  - apply IH; [congruence|]. intros i Hi. apply (H (S i)). cbn; lia.
Qed.

Section NdFacts.
Variable A : Type.
Implicit Types (x y : nd A) (ds : list nat) (idx : list nat).

Definition validIdx ds idx : Prop := Forall2 lt idx ds.

Lemma validIdx_nil idx : validIdx [] idx <-> idx = [].
Proof. split; [intros H; inversion H; reflexivity|intros ->; constructor]. Qed.

Lemma validIdx_cons d ds idx : validIdx (d :: ds) idx <-> exists i r, idx = i :: r /\ i < d /\ validIdx ds r.
Proof.
  split.
  - intros H; inversion H; subst. eexists _, _; repeat split; eauto.
  - intros (i & r & -> & Hi & Hr). constructor; assumption.
Qed.

Lemma validIdx_length ds idx : validIdx ds idx -> length idx = length ds.
Proof. intros H. induction H; cbn; congruence. Qed.

Lemma wfnd_nil x : wfnd [] x <-> exists a, x = Sc a.
Proof.
  destruct x as [a|l]; cbn; split; try tauto.
  - intros _; exists a; reflexivity.
  - intros (a & E); discriminate.
Qed.

Lemma wfnd_cons d ds x : wfnd (d :: ds) x <-> exists l, x = Vec l /\ length l = d /\ Forall (wfnd ds) l.
Proof.
  destruct x as [a|l]; cbn; split; try tauto.
  - intros (l & E & _); discriminate.
  - intros [H1 H2]; exists l; auto.
  - intros (l' & E & H1 & H2); inversion E; subst; auto.
Qed.

Lemma wfndb_spec ds : forall x, wfndb ds x = true <-> wfnd ds x.
Proof.
  induction ds as [|d ds IH]; intros [a|l]; cbn; try tauto; try (split; [discriminate|tauto]).
  rewrite andb_true_iff, Nat.eqb_eq, forallb_forall, Forall_forall.
  split; intros [H1 H2]; split; auto; intros y Hy; apply IH; auto.
Qed.

Lemma get_nil x : get x [] = asF x.
Proof. reflexivity. Qed.

Lemma get_cons x i r : get x (i :: r) = match x with Vec l => match nth_error l i with Some y => get y r | None => None end | Sc _ => None end.
Proof. unfold get; cbn. destruct x as [a|l]; cbn; [reflexivity|]. destruct (nth_error l i); reflexivity. Qed.

Lemma dataAt_app x i1 : forall i2, dataAt x (i1 ++ i2) = obind (dataAt x i1) (fun y => dataAt y i2).
Proof.
  revert x. induction i1 as [|i r IH]; intros x i2; cbn; [reflexivity|].
  destruct x as [a|l]; cbn; [reflexivity|]. destruct (nth_error l i) as [y|]; cbn; [apply IH|reflexivity].
Qed.

Lemma get_wf ds : forall x idx, wfnd ds x -> validIdx ds idx -> exists a, get x idx = Some a.
Proof.
  induction ds as [|d ds IH]; intros x idx Hw Hv.
  - apply validIdx_nil in Hv; subst. apply wfnd_nil in Hw as (a & ->). exists a; reflexivity.
  - apply validIdx_cons in Hv as (i & r & -> & Hi & Hr). apply wfnd_cons in Hw as (l & -> & Hl & Hf).
    rewrite get_cons. destruct (nth_error l i) as [y|] eqn:E.
    + apply IH; [|exact Hr]. rewrite Forall_forall in Hf. apply Hf. eapply nth_error_In; eauto.
    + apply nth_error_None in E. lia.
Qed.

Lemma dataAt_wf ds1 : forall ds2 x idx, wfnd (ds1 ++ ds2) x -> validIdx ds1 idx ->
  exists y, dataAt x idx = Some y /\ wfnd ds2 y.
Proof.
  induction ds1 as [|d ds1 IH]; intros ds2 x idx Hw Hv.
  - apply validIdx_nil in Hv; subst. exists x; split; [reflexivity|exact Hw].
  - apply validIdx_cons in Hv as (i & r & -> & Hi & Hr). cbn [app] in Hw.
    apply wfnd_cons in Hw as (l & -> & Hl & Hf). cbn.
    destruct (nth_error l i) as [y|] eqn:E.
    + cbn. apply IH; [|exact Hr]. rewrite Forall_forall in Hf. apply Hf. eapply nth_error_In; eauto.
    + apply nth_error_None in E. lia.
Qed.

(* two well-formed values of the same shape with the same elements are equal *)
Lemma nd_ext ds : forall x y, wfnd ds x -> wfnd ds y ->
  (forall idx, validIdx ds idx -> get x idx = get y idx) -> x = y.
Proof.
  induction ds as [|d ds IH]; intros x y Hx Hy H.
  - apply wfnd_nil in Hx as (a & ->). apply wfnd_nil in Hy as (b & ->).
    specialize (H [] (Forall2_nil _)). cbn in H. inversion H; reflexivity.
  - apply wfnd_cons in Hx as (lx & -> & Hlx & Hfx). apply wfnd_cons in Hy as (ly & -> & Hly & Hfy).
    f_equal. apply nth_error_ext_len; [lia|]. intros i Hi.
    destruct (nth_error lx i) as [a|] eqn:Ea; [|apply nth_error_None in Ea; lia].
    destruct (nth_error ly i) as [b|] eqn:Eb; [|apply nth_error_None in Eb; lia].
    f_equal. apply IH.
    + rewrite Forall_forall in Hfx; apply Hfx; eapply nth_error_In; eauto.
    + rewrite Forall_forall in Hfy; apply Hfy; eapply nth_error_In; eauto.
    + intros idx Hv. specialize (H (i :: idx)). rewrite !get_cons, Ea, Eb in H. apply H.
      constructor; [lia|exact Hv].
Qed.

Lemma wfnd_tab ds : forall (f : list nat -> A), wfnd ds (tab ds f).
Proof.
  induction ds as [|d ds IH]; intros f; cbn; [exact I|].
  split; [rewrite map_length, seq_length; reflexivity|].
  apply Forall_forall. intros y Hy. apply in_map_iff in Hy as (k & <- & _). apply IH.
Qed.

Lemma get_tab ds : forall (f : list nat -> A) idx, validIdx ds idx -> get (tab ds f) idx = Some (f idx).
Proof.
  induction ds as [|d ds IH]; intros f idx Hv.
  - apply validIdx_nil in Hv; subst. reflexivity.
  - apply validIdx_cons in Hv as (i & r & -> & Hi & Hr). cbn [tab]. rewrite get_cons.
    rewrite nth_error_map. rewrite nth_error_nth' with (d := 0) by (rewrite seq_length; exact Hi).
    rewrite seq_nth by exact Hi. cbn. rewrite IH by exact Hr. reflexivity.
Qed.

Lemma tab_ext ds : forall (f g : list nat -> A), (forall idx, validIdx ds idx -> f idx = g idx) -> tab ds f = tab ds g.
Proof.
  intros f g H. apply (nd_ext ds); try apply wfnd_tab. intros idx Hv. rewrite !get_tab by exact Hv. f_equal; auto.
Qed.

(* every well-formed value is the tabulation of its own elements *)
Lemma tab_get ds (dflt : A) : forall x, wfnd ds x ->
  x = tab ds (fun idx => match get x idx with Some a => a | None => dflt end).
Proof.
  intros x Hx. apply (nd_ext ds); [exact Hx|apply wfnd_tab|]. intros idx Hv.
  rewrite get_tab by exact Hv. destruct (get_wf _ _ _ Hx Hv) as (a & ->). reflexivity.
Qed.

(* ---------- row-major positions ---------- *)
Fixpoint flatIdx ds idx : nat :=
  match ds, idx with
  | d :: ds', i :: idx' => i * prodn ds' + flatIdx ds' idx'
  | _, _ => 0
  end.

Lemma flatIdx_lt ds : forall idx, validIdx ds idx -> flatIdx ds idx < prodn ds.
Proof.
  induction ds as [|d ds IH]; intros idx Hv.
  - cbn. lia.
  - apply validIdx_cons in Hv as (i & r & -> & Hi & Hr). specialize (IH _ Hr). cbn [flatIdx prodn fold_right].
    fold (prodn ds). nia.
Qed.

Fixpoint flat_list (l : list (nd A)) : list A := match l with [] => [] | y :: r => flat y ++ flat_list r end.
Lemma flat_Vec l : flat (Vec l) = flat_list l.
Proof. cbn. induction l as [|y r IH]; [reflexivity|]. cbn. rewrite IH. reflexivity. Qed.

Lemma flat_length ds : forall x, wfnd ds x -> length (flat x) = prodn ds.
Proof.
  induction ds as [|d ds IH]; intros x Hx.
  - apply wfnd_nil in Hx as (a & ->). reflexivity.
  - apply wfnd_cons in Hx as (l & -> & Hl & Hf). rewrite flat_Vec. cbn [prodn fold_right]. fold (prodn ds).
    subst d. induction l as [|y r IHr]; [reflexivity|]. inversion Hf; subst. cbn. rewrite app_length.
    rewrite IH by assumption. rewrite IHr by assumption. lia.
Qed.

Lemma flat_nth ds : forall x idx, wfnd ds x -> validIdx ds idx -> nth_error (flat x) (flatIdx ds idx) = get x idx.
Proof.
  induction ds as [|d ds IH]; intros x idx Hx Hv.
  - apply validIdx_nil in Hv; subst. apply wfnd_nil in Hx as (a & ->). reflexivity.
  - apply validIdx_cons in Hv as (i & r & -> & Hi & Hr). apply wfnd_cons in Hx as (l & -> & Hl & Hf).
    rewrite flat_Vec, get_cons. cbn [flatIdx]. subst d.
    revert i Hi. induction l as [|y l IHl]; intros i Hi; [cbn in Hi; lia|].
    inversion Hf; subst. destruct i as [|i]; cbn [flat_list nth_error].
    + cbn [Nat.mul Nat.add]. rewrite nth_error_app1.
      * apply IH; assumption.
      * rewrite (flat_length ds) by assumption. apply flatIdx_lt; exact Hr.
    + rewrite nth_error_app2 by (rewrite (flat_length ds) by assumption; cbn; lia).
      rewrite (flat_length ds) by assumption.
      replace (S i * prodn ds + flatIdx ds r - prodn ds) with (i * prodn ds + flatIdx ds r) by (cbn; lia).
      apply IHl; [assumption|cbn in Hi; lia].
Qed.

End NdFacts.

