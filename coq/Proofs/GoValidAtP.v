(* GoValidAtP.v — ValidateAtIndexAgainstDims (tensor/internal/validator/accessors.go) as translated by harness/gox
   computes Model/Valid.v validateAtIndexAgainstDims, for all integer lists; worked example of the proof style
   (see coq/GOIR_NOTES.md). *)
From Coq Require Import String List ZArith Bool Lia Arith.
From Qeep Require Import Model.GoIR Model.GoFns Model.Nd Model.Valid Proofs.GoIRP.
Import ListNotations.
Local Open Scope string_scope.
Local Open Scope Z_scope.
Local Open Scope list_scope.

Lemma nth_ints_app (pre : list Z) d (dims : list Z) :
  nth_error (map VI (pre ++ d :: dims)) (length pre) = Some (VI d).
Proof. rewrite nth_error_map_VI, nth_error_app2, Nat.sub_diag by lia. reflexivity. Qed.

(* the loop of ValidateAtIndexAgainstDims, for any body that behaves like the Go body *)
Lemma atIndex_loop (D : list Z) (body : env -> outcome) :
  (forall e k a, lookup e "dims" = Some (ints D) ->
     body (upd (upd e "i" (VI (Z.of_nat k))) "idx" (VI a)) =
     match nth_error D k with
     | Some d => if (0 <=? a) && (a <? d) then ONormal (upd (upd e "i" (VI (Z.of_nat k))) "idx" (VI a)) else ORet [VI 1]
     | None => OPanic
     end) ->
  forall (index dims pre : list Z) (e : env),
  D = pre ++ dims -> length index = length dims -> lookup e "dims" = Some (ints D) ->
  (atIndexOk index dims = true -> exists e', rangeLoop body "i" "idx" (map VI index) (Z.of_nat (length pre)) e = ONormal e') /\
  (atIndexOk index dims = false -> rangeLoop body "i" "idx" (map VI index) (Z.of_nat (length pre)) e = ORet [VI 1]).
Proof.
  intros Hb. induction index as [|a index IH]; intros [|d dims] pre e HD Hlen Hd; cbn in Hlen; try discriminate.
  - cbn. split; [eauto | discriminate].
  - cbn [map rangeLoop atIndexOk]. rewrite (Hb _ _ _ Hd).
    assert (Hn : nth_error D (length pre) = Some d).
    { subst D. rewrite nth_error_app2, Nat.sub_diag by lia. reflexivity. }
    rewrite Hn.
    destruct ((0 <=? a) && (a <? d)) eqn:E; cbn [andb].
    + replace (Z.of_nat (length pre) + 1) with (Z.of_nat (length (pre ++ [d]))) by (rewrite app_length; cbn; lia).
      apply IH; [subst D; now rewrite <- app_assoc | lia | now lk].
    + split; [discriminate | reflexivity].
Qed.

Theorem go_ValidateAtIndexAgainstDims call fuel (index dims : list Z) :
  exec call fuel (fbody ValidateAtIndexAgainstDims) [("index", ints index); ("dims", ints dims)]
  = ORet [errOf (validateAtIndexAgainstDims index dims)].
Proof.
  unfold validateAtIndexAgainstDims, ValidateAtIndexAgainstDims. cbn [fbody].
  gxs.
  rewrite !zlenV_map.
  destruct (length index =? length dims)%nat eqn:El.
  - apply Nat.eqb_eq in El.
    replace (Z.of_nat (length index) =? Z.of_nat (length dims)) with true by (symmetry; apply Z.eqb_eq; lia).
    gxs.
    match goal with |- context [rangeLoop ?b _ _ _ _ ?e0] =>
      assert (Hspec : forall e k a, lookup e "dims" = Some (ints dims) ->
         b (upd (upd e "i" (VI (Z.of_nat k))) "idx" (VI a)) =
         match nth_error dims k with
         | Some d => if (0 <=? a) && (a <? d) then ONormal (upd (upd e "i" (VI (Z.of_nat k))) "idx" (VI a)) else ORet [VI 1]
         | None => OPanic
         end);
      [| destruct (atIndex_loop dims b Hspec index dims [] e0 eq_refl El eq_refl) as [HT HF]]
    end.
    + intros e k a Hd. gxs. rewrite Hd. gxs. rewrite idxOf_nat, nth_error_map_VI.
      destruct (nth_error dims k) as [d|] eqn:En; cbn [option_map].
      2:{ destruct (0 <=? a); gxs; [reflexivity|]. rewrite ?Hd; gxs. rewrite ?idxOf_nat, ?nth_error_map_VI, ?En. reflexivity. }
      gxs. destruct (0 <=? a); gxs.
      * destruct (a <? d); gxs; [reflexivity|].
        rewrite ?Hd; gxs; rewrite ?idxOf_nat, ?nth_error_map_VI, ?En; gxs; reflexivity.
      * rewrite ?Hd; gxs; rewrite ?idxOf_nat, ?nth_error_map_VI, ?En; gxs; reflexivity.
    + cbn [length Z.of_nat] in HT, HF.
      destruct (atIndexOk index dims).
      * destruct (HT eq_refl) as [e' He']. rewrite He'. gxs. reflexivity.
      * rewrite (HF eq_refl). reflexivity.
  - apply Nat.eqb_neq in El.
    replace (Z.of_nat (length index) =? Z.of_nat (length dims)) with false by (symmetry; apply Z.eqb_neq; lia).
    gxs. reflexivity.
Qed.

Corollary run_ValidateAtIndexAgainstDims fuel (index dims : list Z) :
  run ftab fuel ValidateAtIndexAgainstDims [ints index; ints dims]
  = ORet [errOf (validateAtIndexAgainstDims index dims)].
Proof. unfold run. cbn [fparams ValidateAtIndexAgainstDims bindArgs]. apply go_ValidateAtIndexAgainstDims. Qed.

Print Assumptions run_ValidateAtIndexAgainstDims.
