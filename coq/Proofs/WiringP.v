(* WiringP.v — the method layer of tensor/internal/cputensor/cputensor.go.
   Every public method is a fixed sequence: validation calls ("?" = followed by the error check that
   returns), the data-layer operation computing the value, gradtrack.<F>(result, operands...) giving the
   gradient context, return.  [method_wiring_expected] is the wiring the model's h_* / v_* functions were
   written for (Model/Api.v: validator then data layer; Model/Grad.v: h_op1 / h_binop / h_elsel / h_cmp ...
   with mkCtx over the same operands in the same order).  Model/Chains.v's [method_wiring] is REGENERATED
   from the source on every run; the theorems pin it, per group of methods, to the expected table.
   This tie is SYNTACTIC: it detects any edit of the method layer (a fast path, a dropped or reordered
   validator, another gradtrack constructor or operand order); what the wiring MEANS is tied to the model
   by the correspondence check, not by these theorems. *)
From Coq Require Import String List Bool.
From Qeep Require Import Model.ChainIR.
From Qeep Require Model.Chains.
Import ListNotations.
Local Open Scope string_scope.

Definition method_wiring_expected : list (string * list string) :=
  [ ("Add", ["cu, err := assertCPUTensor(u) ?"; "ct1, ct2, err := broadcastForBinaryOp(t, cu) ?"; "r := ct1.add(ct2)"; "r.gctx = gradtrack.Add(r, ct1, ct2)"; "return r, nil"]);
    ("At", ["err = validator.ValidateAtIndexAgainstDims(index, t.dims) ?"; "return t.dataAt(index).(float64), nil"]);
    ("Avg", ["return t.avg()"]);
    ("AvgAlong", ["err = validator.ValidateReducedDimAgainstDims(dim, t.dims) ?"; "r := t.avgAlong(dim)"; "r.gctx = gradtrack.AvgAlong(r, t, dim)"; "return r, nil"]);
    ("Broadcast", ["err = validator.ValidateInputDims(shape) ?"; "err = validator.ValidateBroadcastSourceDimsAgainstTargetDims(t.dims, shape) ?"; "r := t.broadcast(shape)"; "r.gctx = gradtrack.Broadcast(r, t)"; "return r, nil"]);
    ("Concat", ["cus, err := assertCPUTensors(ts) ?"; "cusDims := make([][]int, len(ts))"; "for for i, cu := range cus { cusDims[i] = cu.dims }"; "err = validator.ValidateConcatTensorsDimsAlongDim(cusDims, dim) ?"; "r := initConcatResultTensor(cus, dim)"; "r.gctx = gradtrack.Concat(r, ts, dim)"; "return r, nil"]);
    ("Cos", ["r := t.cos()"; "r.gctx = gradtrack.Cos(r, t)"; "return r"]);
    ("Cosh", ["r := t.cosh()"; "r.gctx = gradtrack.Cosh(r, t)"; "return r"]);
    ("Div", ["cu, err := assertCPUTensor(u) ?"; "ct1, ct2, err := broadcastForBinaryOp(t, cu) ?"; "r := ct1.div(ct2)"; "r.gctx = gradtrack.Div(r, ct1, ct2)"; "return r, nil"]);
    ("Dot", ["cu, err := assertCPUTensor(u) ?"; "err = validator.ValidateDotProductDims(t.dims, cu.dims) ?"; "ct1, ct2, err := broadcastForBinaryOp(t, cu) ?"; "r := ct1.dot(ct2)"; "r.gctx = gradtrack.Dot(r, ct1, ct2)"; "return r, nil"]);
    ("ElMax", ["cu, err := assertCPUTensor(u) ?"; "err = validator.ValidateBinaryFuncDimsMatch(t.dims, cu.dims) ?"; "r := t.elmax(cu)"; "r.gctx = gradtrack.ElMax(r, t, cu)"; "return r, nil"]);
    ("ElMin", ["cu, err := assertCPUTensor(u) ?"; "err = validator.ValidateBinaryFuncDimsMatch(t.dims, cu.dims) ?"; "r := t.elmin(cu)"; "r.gctx = gradtrack.ElMin(r, t, cu)"; "return r, nil"]);
    ("Eq", ["cu, err := assertCPUTensor(u) ?"; "err = validator.ValidateBinaryFuncDimsMatch(t.dims, cu.dims) ?"; "r := t.eq(cu)"; "r.gctx = gradtrack.NewGradContext(false)"; "return r, nil"]);
    ("Equals", ["cu, err := assertCPUTensor(u) ?"; "err = validator.ValidateBinaryFuncDimsMatch(t.dims, cu.dims) ?"; "return t.equals(cu), nil"]);
    ("Exp", ["r := t.exp()"; "r.gctx = gradtrack.Exp(r, t)"; "return r"]);
    ("Eye", ["err = validator.ValidateInputDims([]int{…}) ?"; "r := eyeMatrix(n)"; "r.gctx = gradtrack.NewGradContext(withGrad)"; "return r, nil"]);
    ("Flatten", ["err = validator.ValidateFlattenDimAgainstDims(fromDim, t.dims) ?"; "r := t.flatten(fromDim)"; "r.gctx = gradtrack.Flatten(r, t)"; "return r, nil"]);
    ("Full", ["err = validator.ValidateInputDims(dims) ?"; "r := constTensor(value, dims)"; "r.gctx = gradtrack.NewGradContext(withGrad)"; "return r, nil"]);
    ("Ge", ["cu, err := assertCPUTensor(u) ?"; "err = validator.ValidateBinaryFuncDimsMatch(t.dims, cu.dims) ?"; "r := t.ge(cu)"; "r.gctx = gradtrack.NewGradContext(false)"; "return r, nil"]);
    ("GradContext", ["return t.gctx"]);
    ("Gradient", ["return t.gctx.Gradient()"]);
    ("Gt", ["cu, err := assertCPUTensor(u) ?"; "err = validator.ValidateBinaryFuncDimsMatch(t.dims, cu.dims) ?"; "r := t.gt(cu)"; "r.gctx = gradtrack.NewGradContext(false)"; "return r, nil"]);
    ("Le", ["cu, err := assertCPUTensor(u) ?"; "err = validator.ValidateBinaryFuncDimsMatch(t.dims, cu.dims) ?"; "r := t.le(cu)"; "r.gctx = gradtrack.NewGradContext(false)"; "return r, nil"]);
    ("Log", ["r := t.log()"; "r.gctx = gradtrack.Log(r, t)"; "return r"]);
    ("Lt", ["cu, err := assertCPUTensor(u) ?"; "err = validator.ValidateBinaryFuncDimsMatch(t.dims, cu.dims) ?"; "r := t.lt(cu)"; "r.gctx = gradtrack.NewGradContext(false)"; "return r, nil"]);
    ("MatMul", ["cu, err := assertCPUTensor(u) ?"; "err = validator.ValidateMatMulDims(t.dims, cu.dims) ?"; "ct1, ct2, err := broadcastForMatMul(t, cu) ?"; "r := ct1.matMul(ct2)"; "r.gctx = gradtrack.MatMul(r, ct1, ct2)"; "return r, nil"]);
    ("Max", ["return t.max()"]);
    ("MaxAlong", ["err = validator.ValidateReducedDimAgainstDims(dim, t.dims) ?"; "r := t.maxAlong(dim)"; "r.gctx = gradtrack.MaxAlong(r, t, dim)"; "return r, nil"]);
    ("Mean", ["return t.mean()"]);
    ("MeanAlong", ["err = validator.ValidateReducedDimAgainstDims(dim, t.dims) ?"; "r := t.meanAlong(dim)"; "r.gctx = gradtrack.MeanAlong(r, t, dim)"; "return r, nil"]);
    ("Min", ["return t.min()"]);
    ("MinAlong", ["err = validator.ValidateReducedDimAgainstDims(dim, t.dims) ?"; "r := t.minAlong(dim)"; "r.gctx = gradtrack.MinAlong(r, t, dim)"; "return r, nil"]);
    ("Mul", ["cu, err := assertCPUTensor(u) ?"; "ct1, ct2, err := broadcastForBinaryOp(t, cu) ?"; "r := ct1.mul(ct2)"; "r.gctx = gradtrack.Mul(r, ct1, ct2)"; "return r, nil"]);
    ("NElems", ["return t.numElems()"]);
    ("Ne", ["cu, err := assertCPUTensor(u) ?"; "err = validator.ValidateBinaryFuncDimsMatch(t.dims, cu.dims) ?"; "r := t.ne(cu)"; "r.gctx = gradtrack.NewGradContext(false)"; "return r, nil"]);
    ("Ones", ["err = validator.ValidateInputDims(dims) ?"; "return Full(dims, 1., withGrad)"]);
    ("Patch", ["cu, err := assertCPUTensor(u) ?"; "err = validator.ValidatePatchIndexAgainstDims(index, cu.dims, t.dims) ?"; "index = copiedIndex(index)"; "r := t.patch(index, cu)"; "r.gctx = gradtrack.Patch(r, t, u, index)"; "return r, nil"]);
    ("Pow", ["r := t.pow(u)"; "r.gctx = gradtrack.Pow(r, t, u)"; "return r"]);
    ("RandN", ["err = validator.ValidateRandNParams(u, s) ?"; "err = validator.ValidateInputDims(dims) ?"; "r := normalRandomTensor(u, s, dims)"; "r.gctx = gradtrack.NewGradContext(withGrad)"; "return r, nil"]);
    ("RandU", ["err = validator.ValidateRandUParams(l, u) ?"; "err = validator.ValidateInputDims(dims) ?"; "r := uniformRandomTensor(l, u, dims)"; "r.gctx = gradtrack.NewGradContext(withGrad)"; "return r, nil"]);
    ("ResetGradContext", ["t.gctx = gradtrack.NewGradContext(tracked)"]);
    ("Reshape", ["err = validator.ValidateInputDims(shape) ?"; "err = validator.ValidateReshapeSourceDimsAgainstTargetDims(t.dims, shape) ?"; "r := t.reshape(shape)"; "r.gctx = gradtrack.Reshape(r, t)"; "return r, nil"]);
    ("Scale", ["r := t.scale(u)"; "r.gctx = gradtrack.Scale(r, t, u)"; "return r"]);
    ("Shape", ["shape = make([]int, len(t.dims))"; "copy(shape, t.dims)"; "return shape"]);
    ("Sin", ["r := t.sin()"; "r.gctx = gradtrack.Sin(r, t)"; "return r"]);
    ("Sinh", ["r := t.sinh()"; "r.gctx = gradtrack.Sinh(r, t)"; "return r"]);
    ("Slice", ["err = validator.ValidateSliceIndexAgainstDims(index, t.dims) ?"; "index = copiedIndex(index)"; "r := t.slice(index)"; "r.gctx = gradtrack.Slice(r, t, index)"; "return r, nil"]);
    ("Squeeze", ["err = validator.ValidateSqueezeDimAgainstDims(dim, t.dims) ?"; "r := t.squeeze(dim)"; "r.gctx = gradtrack.Squeeze(r, t)"; "return r, nil"]);
    ("Std", ["return t.std()"]);
    ("StdAlong", ["err = validator.ValidateReducedDimAgainstDims(dim, t.dims) ?"; "r := t.stdAlong(dim)"; "r.gctx = gradtrack.StdAlong(r, t, dim)"; "return r, nil"]);
    ("Sub", ["cu, err := assertCPUTensor(u) ?"; "ct1, ct2, err := broadcastForBinaryOp(t, cu) ?"; "r := ct1.sub(ct2)"; "r.gctx = gradtrack.Sub(r, ct1, ct2)"; "return r, nil"]);
    ("Sum", ["return t.sum()"]);
    ("SumAlong", ["err = validator.ValidateReducedDimAgainstDims(dim, t.dims) ?"; "r := t.sumAlong(dim)"; "r.gctx = gradtrack.SumAlong(r, t, dim)"; "return r, nil"]);
    ("Tan", ["r := t.tan()"; "r.gctx = gradtrack.Tan(r, t)"; "return r"]);
    ("Tanh", ["r := t.tanh()"; "r.gctx = gradtrack.Tanh(r, t)"; "return r"]);
    ("TensorOf", ["err = validator.ValidateInputDataDimUnity(data) ?"; "r := initTensorFromData(data)"; "r.gctx = gradtrack.NewGradContext(withGrad)"; "return r, nil"]);
    ("Transpose", ["err = validator.ValidateTransposeDims(t.dims) ?"; "r := t.transpose()"; "r.gctx = gradtrack.Transpose(r, t)"; "return r, nil"]);
    ("UnSqueeze", ["err = validator.ValidateUnSqueezeDimAgainstDims(dim, t.dims) ?"; "r := t.unSqueeze(dim)"; "r.gctx = gradtrack.UnSqueeze(r, t)"; "return r, nil"]);
    ("Var", ["return t._var()"]);
    ("VarAlong", ["err = validator.ValidateReducedDimAgainstDims(dim, t.dims) ?"; "r := t.varAlong(dim)"; "r.gctx = gradtrack.VarAlong(r, t, dim)"; "return r, nil"]);
    ("Zeros", ["err = validator.ValidateInputDims(dims) ?"; "return Full(dims, 0., withGrad)"]) ].

Definition wiring_of (tbl : list (string * list string)) (names : list string) : list (option (list string)) :=
  map (lookupS tbl) names.
Definition same_wiring (names : list string) : Prop :=
  wiring_of Chains.method_wiring names = wiring_of method_wiring_expected names.

Definition elementwise_methods := ["Scale"; "Pow"; "Exp"; "Log"; "Sin"; "Cos"; "Tan"; "Sinh"; "Cosh"; "Tanh";
  "Eq"; "Ne"; "Gt"; "Ge"; "Lt"; "Le"; "ElMax"; "ElMin"; "Add"; "Sub"; "Mul"; "Div"; "Equals"].
Definition linalg_methods := ["Transpose"; "Dot"; "MatMul"].
Definition reducer_methods := ["Sum"; "Max"; "Min"; "Avg"; "Var"; "Std"; "Mean";
  "SumAlong"; "MaxAlong"; "MinAlong"; "AvgAlong"; "VarAlong"; "StdAlong"; "MeanAlong"].
Definition access_methods := ["At"; "Slice"; "Patch"; "Reshape"; "UnSqueeze"; "Squeeze"; "Flatten"; "Broadcast"; "Concat";
  "Full"; "Zeros"; "Ones"; "Eye"; "TensorOf"; "NElems"; "Shape"].
Definition random_methods := ["RandU"; "RandN"].
Definition context_methods := ["GradContext"; "ResetGradContext"; "Gradient"].
Definition all_methods := (elementwise_methods ++ linalg_methods ++ reducer_methods ++ access_methods ++ random_methods ++ context_methods)%list.
Definition differentiable_methods := ["Slice"; "Patch"; "Transpose"; "Reshape"; "UnSqueeze"; "Squeeze"; "Flatten"; "Broadcast"; "Concat";
  "SumAlong"; "MaxAlong"; "MinAlong"; "AvgAlong"; "VarAlong"; "StdAlong"; "MeanAlong";
  "Scale"; "Pow"; "Exp"; "Log"; "Sin"; "Cos"; "Tan"; "Sinh"; "Cosh"; "Tanh"; "ElMax"; "ElMin"; "Add"; "Sub"; "Mul"; "Div"; "Dot"; "MatMul"].
Definition slice_taking_methods := ["Slice"; "Patch"; "Concat"; "Shape"; "TensorOf"; "Reshape"; "Broadcast"; "Full"; "Zeros"; "Ones"; "RandU"; "RandN"; "At"].

Theorem wiring_elementwise : same_wiring elementwise_methods. Proof. vm_compute. reflexivity. Qed.
Theorem wiring_linalg : same_wiring linalg_methods. Proof. vm_compute. reflexivity. Qed.
Theorem wiring_reducers : same_wiring reducer_methods. Proof. vm_compute. reflexivity. Qed.
Theorem wiring_access : same_wiring access_methods. Proof. vm_compute. reflexivity. Qed.
Theorem wiring_random : same_wiring random_methods. Proof. vm_compute. reflexivity. Qed.
Theorem wiring_differentiable : same_wiring differentiable_methods. Proof. vm_compute. reflexivity. Qed.
Theorem wiring_slice_taking : same_wiring slice_taking_methods. Proof. vm_compute. reflexivity. Qed.
Theorem wiring_all : same_wiring all_methods /\ length Chains.method_wiring = length all_methods.
Proof. split; vm_compute; reflexivity. Qed.
(* the expected table really has an entry for every method named above *)
Theorem wiring_expected_complete : forallb (fun n => match lookupS method_wiring_expected n with Some _ => true | None => false end) all_methods = true.
Proof. vm_compute. reflexivity. Qed.
