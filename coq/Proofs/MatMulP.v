(* MatMulP.v — Dot / MatMul (operators.go: dotProductOf1DInputs, matMulDataOf2DInputs,
   linearLastDimDotProductElemGenerator, linearLast2DimsMatMulElemGenerator) and the public
   methods (broadcastForBinaryOp / broadcastForMatMul) (property C04).
   Arbitrary [Scalar A] with NO laws: every element is the exact left fold
       (((0 + a0*b0) + a1*b1) + ... ) + a(n-1)*b(n-1)
   with the evaluation order of the Go loops. *)
From Coq Require Import List Arith ZArith Bool Lia.
From Qeep Require Import Model.Scalar Model.Nd Model.Fill Model.Data Model.Valid Model.Api.
From Qeep Require Import Spec.ValidSpec Proofs.ValidP.
From Qeep Require Import Proofs.NdP Proofs.FillP Proofs.OdometerP Proofs.ReshapeP Proofs.ElemP Proofs.BroadcastP
  Proofs.ArithP.
Import ListNotations.

(* ---------- generic helpers ---------- *)

Lemma foldM_all_some {X U} (f : U -> X -> option U) (g : U -> X -> U) l :
  (forall x u, In x l -> f u x = Some (g u x)) -> forall u, foldM f l u = Some (fold_left g l u).
Proof.
  induction l as [|a l IH]; intros H u; cbn [foldM fold_left]; [reflexivity|].
  rewrite (H a u (or_introl eq_refl)). cbn [obind]. apply IH. intros x u' Hx. apply H. right. exact Hx.
Qed.

Lemma fold_left_ext_in {X U} (f g : U -> X -> U) l :
  (forall x u, In x l -> f u x = g u x) -> forall u, fold_left f l u = fold_left g l u.
Proof.
  induction l as [|a l IH]; intros H u; cbn [fold_left]; [reflexivity|].
  rewrite (H a u (or_introl eq_refl)). apply IH. intros x u' Hx. apply H. right. exact Hx.
Qed.

Lemma fold_left_map' {X Y U} (f : U -> Y -> U) (g : X -> Y) l :
  forall u, fold_left f (map g l) u = fold_left (fun s x => f s (g x)) l u.
Proof. induction l as [|a l IH]; intros u; cbn [map fold_left]; [reflexivity|apply IH]. Qed.

Lemma fold_seq_combine {X U} (F : U -> X -> X -> U) (d : X) xs : forall ys u, length xs = length ys ->
  fold_left (fun s p => F s (nth p xs d) (nth p ys d)) (seq 0 (length xs)) u =
  fold_left (fun s q => F s (fst q) (snd q)) (combine xs ys) u.
Proof.
  induction xs as [|x xs IH]; intros [|y ys] u Hl; cbn in Hl; try discriminate; [reflexivity|].
  cbn [length seq fold_left combine fst snd nth]. rewrite <- seq_shift, fold_left_map'. cbn [nth].
  apply IH. lia.
Qed.

Lemma firstn_length_app {X} (l r : list X) : firstn (length l) (l ++ r) = l.
Proof. induction l as [|a l IH]; cbn [length app firstn]; [destruct r; reflexivity|]. rewrite IH. reflexivity. Qed.

Lemma skipn_length_app {X} (l r : list X) : skipn (length l) (l ++ r) = r.
Proof. induction l as [|a l IH]; cbn [length app skipn]; [reflexivity|exact IH]. Qed.

Lemma validIdx_app ds1 ds2 i1 i2 : validIdx ds1 i1 -> validIdx ds2 i2 -> validIdx (ds1 ++ ds2) (i1 ++ i2).
Proof. unfold validIdx. apply Forall2_app. Qed.

Lemma validIdx_app_inv ds1 ds2 i1 i2 : length i2 = length ds2 -> validIdx (ds1 ++ ds2) (i1 ++ i2) ->
  validIdx ds1 i1 /\ validIdx ds2 i2.
Proof.
  intros Hl Hv. pose proof (validIdx_length _ _ Hv) as L. rewrite !app_length in L.
  unfold validIdx in *. apply Forall2_app_inv_len in Hv; [exact Hv|lia].
Qed.

Lemma validIdx2 m k i j : validIdx [m; k] [i; j] <-> i < m /\ j < k.
Proof.
  split.
  - intros H. inversion H as [|? ? ? ? Hi H']; subst. inversion H' as [|? ? ? ? Hj _]; subst. auto.
  - intros [Hi Hj]. repeat constructor; assumption.
Qed.

Lemma validIdx1 n p : validIdx [n] [p] <-> p < n.
Proof.
  split.
  - intros H. inversion H as [|? ? ? ? Hp _]; subst. exact Hp.
  - intros Hp. repeat constructor; assumption.
Qed.

(* ---------- nesting: a value of shape ds1 ++ ds2 is a ds1-shaped nesting of ds2-shaped values ---------- *)
Section Nest.
Variable B : Type.

Fixpoint nest (ds : list nat) (P : nd B -> Prop) (x : nd B) {struct ds} : Prop :=
  match ds with
  | [] => P x
  | d :: r => match x with Vec l => length l = d /\ Forall (nest r P) l | Sc _ => False end
  end.

Lemma wfnd_app_nest ds1 ds2 : forall x : nd B, wfnd (ds1 ++ ds2) x <-> nest ds1 (wfnd ds2) x.
Proof.
  induction ds1 as [|d r IH]; intros x; cbn [app nest]; [tauto|].
  destruct x as [a|l]; cbn [wfnd]; [tauto|].
  split; intros [Hl Hf]; (split; [exact Hl|]); eapply Forall_impl; try exact Hf; intros y Hy; apply IH; exact Hy.
Qed.

Lemma get_app (x : nd B) i1 i2 : get x (i1 ++ i2) = do y <- dataAt x i1; get y i2.
Proof. unfold get. rewrite dataAt_app. destruct (dataAt x i1); reflexivity. Qed.

(* tabulation by stream position of block-valued outputs *)
Variables (St : Type) (out : St -> nd B) (next : St -> St) (Inv : St -> Prop).
Hypothesis Hnext : forall s, Inv s -> Inv (next s).

Lemma wfnd_tabS e : (forall s, Inv s -> wfnd e (out s)) ->
  forall ds s, Inv s -> wfnd (ds ++ e) (tabS B St out next ds s).
Proof.
  intros Ho ds. induction ds as [|d r IH]; intros s Hs; cbn [tabS app].
  - apply Ho, Hs.
  - cbn [wfnd]. split; [rewrite map_length, seq_length; reflexivity|].
    apply Forall_forall. intros y Hy. apply in_map_iff in Hy as (k & <- & _).
    apply IH. apply (iter_inv St next Inv Hnext). exact Hs.
Qed.

Lemma dataAt_tabS ds : forall s idx, validIdx ds idx ->
  dataAt (tabS B St out next ds s) idx = Some (out (iter St next (flatIdx ds idx) s)).
Proof.
  induction ds as [|d r IH]; intros s idx Hv.
  - apply validIdx_nil in Hv; subst. reflexivity.
  - apply validIdx_cons in Hv as (i & r' & -> & Hi & Hr). cbn [tabS dataAt asV obind flatIdx].
    rewrite nth_error_map. rewrite nth_error_nth' with (d := 0) by (rewrite seq_length; exact Hi).
    rewrite seq_nth by exact Hi. cbn [option_map obind Nat.add]. rewrite (IH _ _ Hr), iter_add. reflexivity.
Qed.

End Nest.

(* ---------- shapes of Dot / MatMul ---------- *)

Lemma tbd_snoc p1 p2 a b :
  targetBroadcastDims (p1 ++ [a]) (p2 ++ [b]) = targetBroadcastDims p1 p2 ++ [Nat.max a b].
Proof. unfold targetBroadcastDims. rewrite !rev_app_distr. cbn [rev app tbdRev]. reflexivity. Qed.

Lemma tbd_snoc2 p1 p2 a b c d :
  targetBroadcastDims (p1 ++ [a; b]) (p2 ++ [c; d]) = targetBroadcastDims p1 p2 ++ [Nat.max a c; Nat.max b d].
Proof.
  change (p1 ++ [a; b]) with (p1 ++ [a] ++ [b]). change (p2 ++ [c; d]) with (p2 ++ [c] ++ [d]).
  rewrite !app_assoc, !tbd_snoc, <- app_assoc. reflexivity.
Qed.

Lemma snoc2_inj {X} (p q : list X) a b c d : p ++ [a; b] = q ++ [c; d] -> p = q /\ a = c /\ b = d.
Proof.
  intros E. apply (f_equal (@rev X)) in E. rewrite !rev_app_distr in E. cbn [rev app] in E.
  inversion E as [[Hb Ha Hr]]. apply (f_equal (@rev X)) in Hr. rewrite !rev_involutive in Hr. auto.
Qed.

(* the validators on shapes of naturals, by decomposition (from ValidP) *)
Lemma validateDot_nat d1 d2 :
  validateDotProductDims (map Z.of_nat d1) (map Z.of_nat d2) = true <->
  exists p1 p2 n, d1 = p1 ++ [n] /\ d2 = p2 ++ [n].
Proof.
  rewrite validateDotProductDims_spec'. unfold dotPre'. split.
  - intros (q1 & q2 & a & E1 & E2). exists (natsOf q1), (natsOf q2), (Z.to_nat a).
    apply (f_equal natsOf) in E1. apply (f_equal natsOf) in E2. rewrite natsOf_of_nat in E1, E2.
    unfold natsOf in *. rewrite map_app in E1, E2. auto.
  - intros (p1 & p2 & n & -> & ->). exists (map Z.of_nat p1), (map Z.of_nat p2), (Z.of_nat n).
    rewrite !map_app. auto.
Qed.

Lemma validateMatMul_nat d1 d2 :
  validateMatMulDims (map Z.of_nat d1) (map Z.of_nat d2) = true <->
  exists p1 p2 m n k, d1 = p1 ++ [m; n] /\ d2 = p2 ++ [n; k].
Proof.
  rewrite validateMatMulDims_spec'. unfold matMulPre'. split.
  - intros (q1 & m & k & q2 & n & E1 & E2). exists (natsOf q1), (natsOf q2), (Z.to_nat m), (Z.to_nat k), (Z.to_nat n).
    apply (f_equal natsOf) in E1. apply (f_equal natsOf) in E2. rewrite natsOf_of_nat in E1, E2.
    unfold natsOf in *. rewrite map_app in E1, E2. auto.
  - intros (p1 & p2 & m & n & k & -> & ->).
    exists (map Z.of_nat p1), (Z.of_nat m), (Z.of_nat n), (map Z.of_nat p2), (Z.of_nat k).
    rewrite !map_app. auto.
Qed.

(* ... and against the declarative preconditions of Spec/ValidSpec.v *)
Lemma dotPre_nat d1 d2 :
  dotPre (map Z.of_nat d1) (map Z.of_nat d2) <-> exists p1 p2 n, d1 = p1 ++ [n] /\ d2 = p2 ++ [n].
Proof. rewrite <- validateDotProductDims_spec. apply validateDot_nat. Qed.

Lemma matMulPre_nat d1 d2 :
  matMulPre (map Z.of_nat d1) (map Z.of_nat d2) <-> exists p1 p2 m n k, d1 = p1 ++ [m; n] /\ d2 = p2 ++ [n; k].
Proof. rewrite <- validateMatMulDims_spec. apply validateMatMul_nat. Qed.

Lemma compatR_app_same s : forall a b, compatR (s ++ a) (s ++ b) <-> compatR a b.
Proof.
  induction s as [|d s IH]; intros a b; cbn [app compatR]; [tauto|].
  rewrite IH. split; [tauto|]. intros H. split; [left; reflexivity|exact H].
Qed.

(* common trailing dims do not matter for broadcast compatibility *)
Lemma bcompat_app_same p tb s : bcompat (p ++ s) (tb ++ s) <-> bcompat p tb.
Proof. rewrite !bcompat_compatR, !rev_app_distr. apply compatR_app_same. Qed.

(* ... and are projected to themselves *)
Lemma bproj_app_same p tb s b is : length p <= length tb -> length b = length tb -> validIdx s is ->
  bproj (p ++ s) (tb ++ s) (b ++ is) = bproj p tb b ++ is.
Proof.
  intros Hl Hb Hs. pose proof (bproj_id s is Hs) as Hid. unfold bproj in *.
  rewrite Nat.sub_diag in Hid. cbn [skipn] in Hid.
  rewrite !app_length. replace (length tb + length s - (length p + length s)) with (length tb - length p) by lia.
  rewrite skipn_app. replace (length tb - length p - length b) with 0 by lia. cbn [skipn].
  rewrite combine_app_eq by (rewrite skipn_length; lia).
  rewrite map_app, Hid. reflexivity.
Qed.

Section MatMulP.
Context {A : Type} {SA : Scalar A}.
Notation T := (tensor A).

(* the element at an index (s0 outside the shape; never used outside) *)
Definition elt (x : nd A) (idx : list nat) : A := match get x idx with Some v => v | None => s0 end.

(* (((s0 + f0*g0) + f1*g1) + ...) + f(n-1)*g(n-1) *)
Definition dotsum (n : nat) (f g : nat -> A) : A :=
  fold_left (fun s p => sadd s (smul (f p) (g p))) (seq 0 n) s0.

Lemma dotsum_ext n f g f' g' : (forall p, p < n -> f p = f' p) -> (forall p, p < n -> g p = g' p) ->
  dotsum n f g = dotsum n f' g'.
Proof.
  intros Hf Hg. unfold dotsum. apply fold_left_ext_in. intros p u Hp. apply in_seq in Hp.
  rewrite Hf, Hg by lia. reflexivity.
Qed.

Lemma elt_some ds (x : nd A) idx : wfnd ds x -> validIdx ds idx -> get x idx = Some (elt x idx).
Proof. intros Hw Hv. unfold elt. destruct (get_wf A ds x idx Hw Hv) as (a & ->). reflexivity. Qed.

Lemma elt_app (x y : nd A) i1 i2 : dataAt x i1 = Some y -> elt x (i1 ++ i2) = elt y i2.
Proof. intros E. unfold elt. rewrite get_app, E. reflexivity. Qed.

Lemma get1 (l : list (nd A)) p : get (Vec l) [p] = do e <- nth_error l p; asF e.
Proof. unfold get. cbn. destruct (nth_error l p); reflexivity. Qed.

Lemma get2 (l : list (nd A)) i p :
  get (Vec l) [i; p] = do mi <- nth_error l i; do r <- asV mi; do e <- nth_error r p; asF e.
Proof.
  unfold get. cbn. destruct (nth_error l i) as [mi|]; cbn; [|reflexivity].
  destruct mi as [a|r]; cbn; [reflexivity|]. destruct (nth_error r p); reflexivity.
Qed.

(* ---------- 1. the 1-D and 2-D kernels ---------- *)

Definition dotStep (v1 v2 : list (nd A)) : A -> nat -> option A :=
  fun s i => do e1 <- nth_error v1 i; do x1 <- asF e1;
             do e2 <- nth_error v2 i; do x2 <- asF e2;
             Some (sadd s (smul x1 x2)).

Lemma dotStep_ok v1 v2 s p x y : get (Vec v1) [p] = Some x -> get (Vec v2) [p] = Some y ->
  dotStep v1 v2 s p = Some (sadd s (smul x y)).
Proof.
  rewrite !get1. unfold dotStep. intros H1 H2.
  destruct (nth_error v1 p) as [e1|]; cbn [obind] in *; [|discriminate].
  destruct (asF e1) as [x1|]; cbn [obind] in *; [|discriminate].
  destruct (nth_error v2 p) as [e2|]; cbn [obind] in *; [|discriminate].
  destruct (asF e2) as [x2|]; cbn [obind] in *; [|discriminate]. congruence.
Qed.

Theorem dot1d_spec n (a b : nd A) : wfnd [n] a -> wfnd [n] b ->
  dot1d a b = Some (Sc (dotsum n (fun p => elt a [p]) (fun p => elt b [p]))).
Proof.
  intros Ha Hb. pose proof Ha as Ha'. pose proof Hb as Hb'.
  apply wfnd_cons in Ha' as (v1 & -> & Hl1 & _). apply wfnd_cons in Hb' as (v2 & -> & Hl2 & _).
  unfold dot1d. cbn [asV obind]. rewrite Hl1.
  rewrite (foldM_all_some _ (fun s p => sadd s (smul (elt (Vec v1) [p]) (elt (Vec v2) [p])))); [reflexivity|].
  intros p s Hp. apply in_seq in Hp. apply (dotStep_ok v1 v2).
  - apply (elt_some [n]); [exact Ha|apply validIdx1; lia].
  - apply (elt_some [n]); [exact Hb|apply validIdx1; lia].
Qed.

Lemma elt_vec_sc xs p : elt (Vec (map Sc xs)) [p] = nth p xs s0.
Proof.
  unfold elt. rewrite get1, nth_error_map. destruct (nth_error xs p) as [x|] eqn:E; cbn.
  - symmetry. apply nth_error_nth. exact E.
  - apply nth_error_None in E. rewrite nth_overflow by lia. reflexivity.
Qed.

Lemma wfnd_vec_sc (xs : list A) : wfnd [length xs] (Vec (map Sc xs)).
Proof.
  cbn. split; [apply map_length|]. apply Forall_forall. intros y Hy.
  apply in_map_iff in Hy as (x & <- & _). exact I.
Qed.

(* the same for two explicit vectors of scalars *)
Corollary dot1d_combine (xs ys : list A) : length xs = length ys ->
  dot1d (Vec (map Sc xs)) (Vec (map Sc ys)) =
  Some (Sc (fold_left (fun s p => sadd s (smul (fst p) (snd p))) (combine xs ys) s0)).
Proof.
  intros Hl. rewrite (dot1d_spec (length xs)); [|apply wfnd_vec_sc|rewrite Hl; apply wfnd_vec_sc].
  f_equal. f_equal. unfold dotsum.
  rewrite <- (fold_seq_combine (fun s x y => sadd s (smul x y)) s0 xs ys s0 Hl).
  apply fold_left_ext_in. intros p u _. rewrite !elt_vec_sc. reflexivity.
Qed.

Definition mmStep (m1 m2 : list (nd A)) (i j : nat) : A -> nat -> option A :=
  fun eij p => do mi <- nth_error m1 i; do rim1 <- asV mi;
               do mp <- nth_error m2 p; do rpm2 <- asV mp;
               do e1 <- nth_error rim1 p; do x1 <- asF e1;
               do e2 <- nth_error rpm2 j; do x2 <- asF e2;
               Some (sadd eij (smul x1 x2)).

Lemma mmStep_ok m1 m2 i j s p x y : get (Vec m1) [i; p] = Some x -> get (Vec m2) [p; j] = Some y ->
  mmStep m1 m2 i j s p = Some (sadd s (smul x y)).
Proof.
  rewrite !get2. unfold mmStep. intros H1 H2.
  destruct (nth_error m1 i) as [mi|]; cbn [obind] in *; [|discriminate].
  destruct (asV mi) as [rim1|]; cbn [obind] in *; [|discriminate].
  destruct (nth_error m2 p) as [mp|]; cbn [obind] in *; [|discriminate].
  destruct (asV mp) as [rpm2|]; cbn [obind] in *; [|discriminate].
  destruct (nth_error rim1 p) as [e1|]; cbn [obind] in *; [|discriminate].
  destruct (asF e1) as [x1|]; cbn [obind] in *; [|discriminate].
  destruct (nth_error rpm2 j) as [e2|]; cbn [obind] in *; [|discriminate].
  destruct (asF e2) as [x2|]; cbn [obind] in *; [|discriminate]. congruence.
Qed.

(* element (i, j) of the product of two blocks *)
Definition mmEl (n : nat) (a b : nd A) (i j : nat) : A :=
  dotsum n (fun p => elt a [i; p]) (fun p => elt b [p; j]).

Definition mmBlock (m n k : nat) (a b : nd A) : nd A :=
  tab [m; k] (fun idx => mmEl n a b (nth 0 idx 0) (nth 1 idx 0)).

Theorem matmul2d_tab m n k (a b : nd A) : wfnd [m; n] a -> wfnd [n; k] b -> 0 < m -> 0 < n ->
  matmul2d a b = Some (mmBlock m n k a b).
Proof.
  intros Ha Hb Hm Hn. pose proof Ha as Ha'. pose proof Hb as Hb'.
  apply wfnd_cons in Ha' as (m1 & -> & Hl1 & Hf1). apply wfnd_cons in Hb' as (m2 & -> & Hl2 & Hf2).
  destruct (nth_error_lt_some m1 0 ltac:(lia)) as (r01 & E01).
  destruct (nth_error_lt_some m2 0 ltac:(lia)) as (r02 & E02).
  pose proof (Forall_nth_error_inv _ _ _ _ Hf1 E01) as W1. apply wfnd_cons in W1 as (r0m1 & -> & Hn1 & _).
  pose proof (Forall_nth_error_inv _ _ _ _ Hf2 E02) as W2. apply wfnd_cons in W2 as (r0m2 & -> & Hk2 & _).
  unfold matmul2d. cbn [asV obind]. rewrite E01. cbn [asV obind]. rewrite E02. cbn [asV obind]. cbv zeta.
  rewrite Hn1, Hk2, Hl1.
  rewrite (mapM_seq_some _ (fun i => Vec (map (fun j => Sc (mmEl n (Vec m1) (Vec m2) i j)) (seq 0 k)))).
  - reflexivity.
  - intros i Hi.
    rewrite (mapM_seq_some _ (fun j => Sc (mmEl n (Vec m1) (Vec m2) i j))); [reflexivity|].
    intros j Hj.
    rewrite (foldM_all_some _ (fun s p => sadd s (smul (elt (Vec m1) [i; p]) (elt (Vec m2) [p; j]))));
      [reflexivity|].
    intros p s Hp. apply in_seq in Hp. apply (mmStep_ok m1 m2).
    + apply (elt_some [m; n]); [exact Ha|apply validIdx2; lia].
    + apply (elt_some [n; k]); [exact Hb|apply validIdx2; lia].
Qed.

Theorem matmul2d_spec m n k (a b : nd A) : wfnd [m; n] a -> wfnd [n; k] b -> 0 < m -> 0 < n ->
  exists r, matmul2d a b = Some r /\ wfnd [m; k] r /\
    forall i j, i < m -> j < k ->
      get r [i; j] = Some (fold_left (fun s p => sadd s (smul (elt a [i; p]) (elt b [p; j]))) (seq 0 n) s0).
Proof.
  intros Ha Hb Hm Hn. exists (mmBlock m n k a b). split; [apply matmul2d_tab; assumption|].
  split; [apply wfnd_tab|]. intros i j Hi Hj. unfold mmBlock.
  rewrite get_tab by (apply validIdx2; auto). reflexivity.
Qed.

(* ---------- 2. the batched data layer ---------- *)

(* the generator [batchGen f]: a linear odometer over the batch dims emitting one block per step *)
Lemma batch_data (f : nd A -> nd A -> option (nd A)) (h : nd A -> nd A -> nd A) batch e1 e2 e3 (x1 x2 : nd A) :
  (forall d1 d2, wfnd e1 d1 -> wfnd e2 d2 -> f d1 d2 = Some (h d1 d2) /\ wfnd e3 (h d1 d2)) ->
  wfnd (batch ++ e1) x1 -> wfnd (batch ++ e2) x2 -> allpos batch ->
  exists d, initWith batch (batchGen f batch x1 x2) (linInit batch) = Some d /\ wfnd (batch ++ e3) d /\
    forall b, validIdx batch b ->
      exists d1 d2, dataAt x1 b = Some d1 /\ wfnd e1 d1 /\ dataAt x2 b = Some d2 /\ wfnd e2 d2 /\
                    dataAt d b = Some (h d1 d2).
Proof.
  intros Hf Hw1 Hw2 Hp.
  set (blk := fun (x : nd A) (idx : list nat) => match dataAt x idx with Some y => y | None => x end).
  set (out := fun st : list nat => h (blk x1 (rev st)) (blk x2 (rev st))).
  assert (Hrd : forall st, ovalid (rev batch) st ->
            exists y1 y2, dataAt x1 (rev st) = Some y1 /\ wfnd e1 y1 /\ dataAt x2 (rev st) = Some y2 /\ wfnd e2 y2).
  { intros st Hst.
    assert (Hi : validIdx batch (rev st)).
    { apply ovalid_validIdx in Hst. apply validIdx_rev in Hst. rewrite rev_involutive in Hst. exact Hst. }
    destruct (dataAt_wf A batch e1 x1 _ Hw1 Hi) as (y1 & E1 & W1).
    destruct (dataAt_wf A batch e2 x2 _ Hw2 Hi) as (y2 & E2 & W2). exists y1, y2. auto. }
  assert (Hg : forall st, ovalid (rev batch) st -> batchGen f batch x1 x2 st = Some (out st, incr (rev batch) st)).
  { intros st Hst. destruct (Hrd st Hst) as (y1 & y2 & E1 & W1 & E2 & W2).
    unfold batchGen, out, blk. rewrite E1, E2. cbn [obind]. rewrite (proj1 (Hf y1 y2 W1 W2)). reflexivity. }
  assert (Ho : forall st, ovalid (rev batch) st -> wfnd e3 (out st)).
  { intros st Hst. destruct (Hrd st Hst) as (y1 & y2 & E1 & W1 & E2 & W2).
    unfold out, blk. rewrite E1, E2. apply (Hf y1 y2 W1 W2). }
  assert (Hinit : ovalid (rev batch) (linInit batch)).
  { unfold linInit. rewrite <- (rev_length batch). apply ovalid_zeros, Forall_rev, Hp. }
  pose proof (initWith_spec A (list nat) (batchGen f batch x1 x2) out (incr (rev batch))
                (ovalid (rev batch)) Hg (incr_valid (rev batch)) batch (linInit batch) Hinit) as HI.
  eexists. split; [exact HI|]. split.
  - apply (wfnd_tabS A (list nat) out (incr (rev batch)) (ovalid (rev batch)) (incr_valid (rev batch)) e3 Ho).
    exact Hinit.
  - intros b Hb. rewrite (dataAt_tabS A (list nat) out (incr (rev batch)) batch _ b Hb).
    unfold linInit. rewrite (iter_incr_flatIdx batch b Hb).
    destruct (Hrd (rev b) (ovalid_rev batch b Hb)) as (y1 & y2 & E1 & W1 & E2 & W2).
    rewrite rev_involutive in E1, E2. exists y1, y2. repeat (split; [assumption|]).
    unfold out, blk. rewrite rev_involutive, E1, E2. reflexivity.
Qed.

Lemma dotDims_snoc batch (n : nat) : dotDims (batch ++ [n]) = batch.
Proof.
  unfold dotDims. rewrite app_length. cbn [length].
  replace (length batch + 1 - 1) with (length batch) by lia. apply firstn_length_app.
Qed.

Theorem dot_spec (t1 t2 : T) batch n : wf t1 -> wf t2 -> dims t1 = batch ++ [n] -> dims t2 = batch ++ [n] ->
  exists r, dot t1 t2 = Some r /\ dims r = batch /\ wf r /\
    forall b, validIdx batch b ->
      get (data r) b =
      Some (fold_left (fun s p => sadd s (smul (elt (data t1) (b ++ [p])) (elt (data t2) (b ++ [p]))))
                      (seq 0 n) s0).
Proof.
  intros [Hw1 Hp1] [Hw2 _] E1 E2. rewrite E1 in Hw1, Hp1. rewrite E2 in Hw2.
  apply Forall_app in Hp1 as [Hpb _].
  destruct (batch_data dot1d (fun d1 d2 => Sc (dotsum n (fun p => elt d1 [p]) (fun p => elt d2 [p])))
              batch [n] [n] [] (data t1) (data t2)) as (d & Ed & Hwd & Hg); try assumption.
  { intros d1 d2 W1 W2. split; [apply dot1d_spec; assumption|exact I]. }
  rewrite app_nil_r in Hwd.
  exists (mkT batch d). unfold dot. rewrite E1, dotDims_snoc, Ed. cbn [obind dims data].
  split; [reflexivity|]. split; [reflexivity|]. split; [split; assumption|].
  intros b Hb. destruct (Hg b Hb) as (d1 & d2 & D1 & _ & D2 & _ & Dd).
  unfold get. rewrite Dd. cbn [obind asF]. f_equal. apply dotsum_ext; intros p _; symmetry; apply elt_app; assumption.
Qed.

Lemma matMulDims_snoc batch (m n n' k : nat) batch' : length batch' = length batch ->
  matMulDims (batch ++ [m; n]) (batch' ++ [n'; k]) = Some (batch ++ [m; k]).
Proof.
  intros Hl. unfold matMulDims. rewrite app_length. cbn [length].
  replace (length batch + 2 - 2) with (length batch) by lia.
  replace (length batch + 2 - 1) with (length batch' + 1) by lia.
  rewrite nth_error_app2 by lia. rewrite Nat.sub_diag. cbn [nth_error obind].
  rewrite nth_error_app2 by lia. replace (length batch' + 1 - length batch') with 1 by lia. cbn [nth_error obind].
  rewrite firstn_length_app. reflexivity.
Qed.

Theorem matMul_spec (t1 t2 : T) batch m n k : wf t1 -> wf t2 ->
  dims t1 = batch ++ [m; n] -> dims t2 = batch ++ [n; k] ->
  exists r, matMul t1 t2 = Some r /\ dims r = batch ++ [m; k] /\ wf r /\
    forall b i j, validIdx (batch ++ [m; k]) (b ++ [i; j]) ->
      get (data r) (b ++ [i; j]) =
      Some (fold_left (fun s p => sadd s (smul (elt (data t1) (b ++ [i; p])) (elt (data t2) (b ++ [p; j]))))
                      (seq 0 n) s0).
Proof.
  intros [Hw1 Hp1] [Hw2 Hp2] E1 E2. rewrite E1 in Hw1, Hp1. rewrite E2 in Hw2, Hp2.
  apply Forall_app in Hp1 as [Hpb Hmn]. apply Forall_app in Hp2 as [_ Hnk].
  assert (Hm : 0 < m) by (inversion Hmn; assumption).
  assert (Hn : 0 < n) by (inversion Hnk; assumption).
  assert (Hk : 0 < k) by (inversion Hnk as [|? ? _ Hk']; inversion Hk'; assumption).
  destruct (batch_data matmul2d (mmBlock m n k) batch [m; n] [n; k] [m; k] (data t1) (data t2))
    as (d & Ed & Hwd & Hg); try assumption.
  { intros d1 d2 W1 W2. split; [apply matmul2d_tab; assumption|apply wfnd_tab]. }
  exists (mkT (batch ++ [m; k]) d). unfold matMul. rewrite E1, E2, matMulDims_snoc by reflexivity. cbn [obind].
  rewrite app_length. cbn [length]. replace (length batch + 2 - 2) with (length batch) by lia.
  rewrite firstn_length_app, Ed. cbn [obind dims data].
  split; [reflexivity|]. split; [reflexivity|]. split.
  { split; [exact Hwd|]. apply Forall_app. split; [exact Hpb|]. repeat constructor; assumption. }
  intros b i j Hv. apply validIdx_app_inv in Hv as [Hb Hij]; [|reflexivity].
  destruct (Hg b Hb) as (d1 & d2 & D1 & _ & D2 & _ & Dd).
  rewrite get_app, Dd. cbn [obind]. unfold mmBlock. rewrite get_tab by exact Hij. cbn [nth]. f_equal.
  apply dotsum_ext; intros p _; symmetry; apply elt_app; assumption.
Qed.


(* ---------- 3. API level ---------- *)

Lemma elt_get_eq (x y : nd A) i1 i2 : get x i1 = get y i2 -> elt x i1 = elt y i2.
Proof. intros E. unfold elt. rewrite E. reflexivity. Qed.

(* -- Dot -- *)

Theorem v_dot_spec (t u : T) : wf t -> wf u ->
  let target := targetBroadcastDims (dims t) (dims u) in
  (forall p1 p2 n, dims t = p1 ++ [n] -> dims u = p2 ++ [n] -> bcompat2 (dims t) (dims u) ->
     exists r, v_dot t u = Ok r /\ dims r = removelast target /\ target = dims r ++ [n] /\
       dims r = targetBroadcastDims p1 p2 /\ wf r /\
       forall b, validIdx (dims r) b ->
         get (data r) b =
         Some (fold_left (fun s p => sadd s (smul (elt (data t) (bproj (dims t) target (b ++ [p])))
                                                  (elt (data u) (bproj (dims u) target (b ++ [p])))))
                         (seq 0 n) s0)) /\
  ((~ exists p1 p2 n, dims t = p1 ++ [n] /\ dims u = p2 ++ [n]) \/ ~ bcompat2 (dims t) (dims u) ->
   v_dot t u = Err).
Proof.
  intros Ht Hu. cbv zeta. pose proof (v_bcast2_spec t u Ht Hu) as HB. cbv zeta in HB. destruct HB as [HB1 HB2].
  split.
  - intros p1 p2 n E1 E2 Hc.
    assert (V : validateDotProductDims (zdims t) (zdims u) = true)
      by (unfold zdims; apply validateDot_nat; exists p1, p2, n; auto).
    destruct (HB1 Hc) as (t1 & u1 & E & (Hd1 & Hw1 & Hg1) & (Hd2 & Hw2 & Hg2)).
    set (tb := targetBroadcastDims p1 p2).
    assert (Etg : targetBroadcastDims (dims t) (dims u) = tb ++ [n])
      by (rewrite E1, E2, tbd_snoc, Nat.max_id; reflexivity).
    rewrite Etg in *.
    destruct (dot_spec t1 u1 tb n Hw1 Hw2 Hd1 Hd2) as (r & Er & Hdr & Hwr & Hgr).
    exists r. unfold v_dot. rewrite V, E. cbn [res_bind fst snd]. rewrite Er. cbn [of_opt].
    split; [reflexivity|]. split; [rewrite removelast_last; exact Hdr|]. split; [rewrite Hdr; reflexivity|].
    split; [exact Hdr|]. split; [exact Hwr|].
    intros b Hb. rewrite Hdr in Hb. rewrite (Hgr b Hb). f_equal. apply fold_left_ext_in.
    intros p s Hp. apply in_seq in Hp.
    assert (Hv : validIdx (tb ++ [n]) (b ++ [p])) by (apply validIdx_app; [exact Hb|apply validIdx1; lia]).
    rewrite (elt_get_eq _ _ _ _ (Hg1 _ Hv)), (elt_get_eq _ _ _ _ (Hg2 _ Hv)). reflexivity.
  - intros H. unfold v_dot. destruct (validateDotProductDims (zdims t) (zdims u)) eqn:V; [|reflexivity].
    destruct H as [H|H].
    + exfalso. apply H. apply validateDot_nat. exact V.
    + rewrite (HB2 H). reflexivity.
Qed.

Corollary v_dot_ok_iff (t u : T) : wf t -> wf u ->
  ((exists r, v_dot t u = Ok r) <->
   (exists p1 p2 n, dims t = p1 ++ [n] /\ dims u = p2 ++ [n]) /\ bcompat2 (dims t) (dims u)) /\
  v_dot t u <> Panic.
Proof.
  intros Ht Hu. pose proof (v_dot_spec t u Ht Hu) as H. cbv zeta in H. destruct H as [H1 H2].
  destruct (validateDotProductDims (zdims t) (zdims u)) eqn:V.
  - pose proof V as V'. unfold zdims in V'. apply validateDot_nat in V' as (p1 & p2 & n & E1 & E2).
    destruct (bcompat2_dec (dims t) (dims u)) as [Hc|Hn].
    + destruct (H1 p1 p2 n E1 E2 Hc) as (r & Er & _). rewrite Er. split; [|discriminate].
      split; [intros _; split; [exists p1, p2, n; auto|exact Hc]|intros _; exists r; reflexivity].
    + rewrite (H2 (or_intror Hn)). split; [|discriminate].
      split; [intros (r & Er); discriminate|intros [_ Hc]; contradiction].
  - assert (Hn : ~ exists p1 p2 n, dims t = p1 ++ [n] /\ dims u = p2 ++ [n]).
    { intros Hd. apply validateDot_nat in Hd. unfold zdims in V. congruence. }
    rewrite (H2 (or_introl Hn)). split; [|discriminate].
    split; [intros (r & Er); discriminate|intros [Hd _]; contradiction].
Qed.

(* -- MatMul -- *)

(* broadcastForMatMul: each operand is broadcast to (broadcast batch) ++ (its own last two dims) *)
Lemma v_bcastMM_spec (t u : T) p1 p2 m n n' k : wf t -> wf u ->
  dims t = p1 ++ [m; n] -> dims u = p2 ++ [n'; k] ->
  let tb := targetBroadcastDims p1 p2 in
  (bcompat2 p1 p2 ->
     exists t1 u1, v_bcastMM t u = Ok (t1, u1) /\
       broadcasted A t t1 (tb ++ [m; n]) /\ broadcasted A u u1 (tb ++ [n'; k])) /\
  (~ bcompat2 p1 p2 -> v_bcastMM t u = Err).
Proof.
  intros Ht Hu E1 E2. cbv zeta. set (tb := targetBroadcastDims p1 p2).
  pose proof (proj2 Ht) as Hpt. pose proof (proj2 Hu) as Hpu. rewrite E1 in Hpt. rewrite E2 in Hpu.
  apply Forall_app in Hpt as [Hp1 Hmn]. apply Forall_app in Hpu as [Hp2 Hnk].
  destruct (targetBroadcastDims_spec p1 p2) as (_ & _ & Hp). destruct (Hp Hp1 Hp2) as [Hptb _]. fold tb in Hptb.
  assert (S1 : mmShape (targetBroadcastDims (dims t) (dims u)) (dims t) = tb ++ [m; n]).
  { rewrite E1, E2, tbd_snoc2. fold tb. unfold mmShape. rewrite !app_length. cbn [length].
    replace (length tb + 2 - 2) with (length tb) by lia. replace (length p1 + 2 - 2) with (length p1) by lia.
    rewrite firstn_length_app, skipn_length_app. reflexivity. }
  assert (S2 : mmShape (targetBroadcastDims (dims t) (dims u)) (dims u) = tb ++ [n'; k]).
  { rewrite E1, E2, tbd_snoc2. fold tb. unfold mmShape. rewrite !app_length. cbn [length].
    replace (length tb + 2 - 2) with (length tb) by lia. replace (length p2 + 2 - 2) with (length p2) by lia.
    rewrite firstn_length_app, skipn_length_app. reflexivity. }
  assert (Hin1 : validateInputDims (map Z.of_nat (tb ++ [m; n])) = true).
  { apply validateInputDims_iff, of_nat_pos. apply Forall_app. split; assumption. }
  assert (Hin2 : validateInputDims (map Z.of_nat (tb ++ [n'; k])) = true).
  { apply validateInputDims_iff, of_nat_pos. apply Forall_app. split; assumption. }
  assert (C1 : validateBroadcast (zdims t) (map Z.of_nat (tb ++ [m; n])) = true <-> bcompat p1 tb).
  { unfold zdims. rewrite E1, validateBroadcast_iff. apply bcompat_app_same. }
  assert (C2 : validateBroadcast (zdims u) (map Z.of_nat (tb ++ [n'; k])) = true <-> bcompat p2 tb).
  { unfold zdims. rewrite E2, validateBroadcast_iff. apply bcompat_app_same. }
  unfold v_bcastMM. rewrite S1, S2.
  destruct (v_broadcast_spec A t (map Z.of_nat (tb ++ [m; n])) Ht) as [Ht1 Ht2].
  destruct (v_broadcast_spec A u (map Z.of_nat (tb ++ [n'; k])) Hu) as [Hu1 Hu2].
  rewrite Hin1 in Ht1, Ht2. rewrite Hin2 in Hu1, Hu2. cbn [andb] in Ht1, Ht2, Hu1, Hu2.
  rewrite natsOf_of_nat in Ht1, Hu1.
  pose proof (targetBroadcastDims_compat p1 p2 Hp1 Hp2) as HC. fold tb in HC.
  split.
  - intros Hc. apply HC in Hc as [Hc1 Hc2].
    destruct (Ht1 (proj2 C1 Hc1)) as (t1 & Et & Hbt). destruct (Hu1 (proj2 C2 Hc2)) as (u1 & Eu & Hbu).
    exists t1, u1. rewrite Et. cbn [res_bind]. rewrite Eu. cbn [res_bind]. auto.
  - intros Hn.
    destruct (validateBroadcast (zdims t) (map Z.of_nat (tb ++ [m; n]))) eqn:V1.
    + destruct (validateBroadcast (zdims u) (map Z.of_nat (tb ++ [n'; k]))) eqn:V2.
      * exfalso. apply Hn, HC. split; [apply C1|apply C2]; reflexivity.
      * destruct (Ht1 eq_refl) as (t1 & Et & _). rewrite Et. cbn [res_bind]. rewrite (Hu2 eq_refl). reflexivity.
    + rewrite (Ht2 eq_refl). reflexivity.
Qed.

Theorem v_matmul_spec (t u : T) : wf t -> wf u ->
  (forall p1 p2 m n k, dims t = p1 ++ [m; n] -> dims u = p2 ++ [n; k] -> bcompat2 p1 p2 ->
     let tb := targetBroadcastDims p1 p2 in
     exists r, v_matmul t u = Ok r /\ dims r = tb ++ [m; k] /\ wf r /\
       forall b i j, validIdx (tb ++ [m; k]) (b ++ [i; j]) ->
         get (data r) (b ++ [i; j]) =
         Some (fold_left (fun s p => sadd s (smul (elt (data t) (bproj p1 tb b ++ [i; p]))
                                                  (elt (data u) (bproj p2 tb b ++ [p; j]))))
                         (seq 0 n) s0)) /\
  ((~ exists p1 p2 m n k, dims t = p1 ++ [m; n] /\ dims u = p2 ++ [n; k]) -> v_matmul t u = Err) /\
  (forall p1 p2 m n k, dims t = p1 ++ [m; n] -> dims u = p2 ++ [n; k] -> ~ bcompat2 p1 p2 ->
     v_matmul t u = Err).
Proof.
  intros Ht Hu. split; [|split].
  - intros p1 p2 m n k E1 E2 Hc. cbv zeta. set (tb := targetBroadcastDims p1 p2).
    assert (V : validateMatMulDims (zdims t) (zdims u) = true)
      by (unfold zdims; apply validateMatMul_nat; exists p1, p2, m, n, k; auto).
    pose proof (v_bcastMM_spec t u p1 p2 m n n k Ht Hu E1 E2) as HB. cbv zeta in HB. fold tb in HB.
    destruct HB as [HB _]. destruct (HB Hc) as (t1 & u1 & E & (Hd1 & Hw1 & Hg1) & (Hd2 & Hw2 & Hg2)).
    destruct (matMul_spec t1 u1 tb m n k Hw1 Hw2 Hd1 Hd2) as (r & Er & Hdr & Hwr & Hgr).
    exists r. unfold v_matmul. rewrite V, E. cbn [res_bind fst snd]. rewrite Er. cbn [of_opt].
    split; [reflexivity|]. split; [exact Hdr|]. split; [exact Hwr|].
    intros b i j Hv. rewrite (Hgr b i j Hv). f_equal.
    apply validIdx_app_inv in Hv as [Hb Hij]; [|reflexivity]. apply validIdx2 in Hij as [Hi Hj].
    pose proof (proj2 Ht) as Hpt. pose proof (proj2 Hu) as Hpu. rewrite E1 in Hpt. rewrite E2 in Hpu.
    apply Forall_app in Hpt as [Hp1 _]. apply Forall_app in Hpu as [Hp2 _].
    apply (targetBroadcastDims_compat p1 p2 Hp1 Hp2) in Hc as [Hc1 Hc2]. fold tb in Hc1, Hc2.
    pose proof (validIdx_length _ _ Hb) as Lb.
    apply fold_left_ext_in. intros p s Hp. apply in_seq in Hp.
    assert (Hv1 : validIdx (tb ++ [m; n]) (b ++ [i; p]))
      by (apply validIdx_app; [exact Hb|apply validIdx2; lia]).
    assert (Hv2 : validIdx (tb ++ [n; k]) (b ++ [p; j]))
      by (apply validIdx_app; [exact Hb|apply validIdx2; lia]).
    rewrite (elt_get_eq _ _ _ _ (Hg1 _ Hv1)), (elt_get_eq _ _ _ _ (Hg2 _ Hv2)). rewrite E1, E2.
    rewrite (bproj_app_same p1 tb [m; n] b [i; p]) by (try apply Hc1; try exact Lb; apply validIdx2; lia).
    rewrite (bproj_app_same p2 tb [n; k] b [p; j]) by (try apply Hc2; try exact Lb; apply validIdx2; lia).
    reflexivity.
  - intros Hn. unfold v_matmul. destruct (validateMatMulDims (zdims t) (zdims u)) eqn:V; [|reflexivity].
    exfalso. apply Hn. apply validateMatMul_nat. exact V.
  - intros p1 p2 m n k E1 E2 Hn.
    pose proof (v_bcastMM_spec t u p1 p2 m n n k Ht Hu E1 E2) as HB. cbv zeta in HB. destruct HB as [_ HB].
    unfold v_matmul. destruct (validateMatMulDims (zdims t) (zdims u)); [|reflexivity].
    rewrite (HB Hn). reflexivity.
Qed.

Corollary v_matmul_ok_iff (t u : T) : wf t -> wf u ->
  ((exists r, v_matmul t u = Ok r) <->
   exists p1 p2 m n k, dims t = p1 ++ [m; n] /\ dims u = p2 ++ [n; k] /\ bcompat2 p1 p2) /\
  v_matmul t u <> Panic.
Proof.
  intros Ht Hu. destruct (v_matmul_spec t u Ht Hu) as (H1 & H2 & H3).
  destruct (validateMatMulDims (zdims t) (zdims u)) eqn:V.
  - pose proof V as V'. unfold zdims in V'. apply validateMatMul_nat in V' as (p1 & p2 & m & n & k & E1 & E2).
    destruct (bcompat2_dec p1 p2) as [Hc|Hn].
    + pose proof (H1 p1 p2 m n k E1 E2 Hc) as H. cbv zeta in H. destruct H as (r & Er & _).
      rewrite Er. split; [|discriminate].
      split; [intros _; exists p1, p2, m, n, k; auto|intros _; exists r; reflexivity].
    + rewrite (H3 p1 p2 m n k E1 E2 Hn). split; [|discriminate].
      split; [intros (r & Er); discriminate|].
      intros (q1 & q2 & m' & n' & k' & E1' & E2' & Hc). exfalso. apply Hn.
      rewrite E1 in E1'. rewrite E2 in E2'.
      apply snoc2_inj in E1' as (-> & _ & _). apply snoc2_inj in E2' as (-> & _ & _). exact Hc.
  - assert (Hn : ~ exists p1 p2 m n k, dims t = p1 ++ [m; n] /\ dims u = p2 ++ [n; k]).
    { intros Hd. apply validateMatMul_nat in Hd. unfold zdims in V. congruence. }
    rewrite (H2 Hn). split; [|discriminate].
    split; [intros (r & Er); discriminate|].
    intros (p1 & p2 & m & n & k & E1 & E2 & _). exfalso. apply Hn. exists p1, p2, m, n, k. auto.
Qed.

(* -- the plain cases: vectors and matrices, no broadcasting -- *)

Corollary v_dot_1d (t u : T) n : wf t -> wf u -> dims t = [n] -> dims u = [n] ->
  exists r, v_dot t u = Ok r /\ dims r = [] /\ wf r /\
    get (data r) [] =
    Some (fold_left (fun s p => sadd s (smul (elt (data t) [p]) (elt (data u) [p]))) (seq 0 n) s0).
Proof.
  intros Ht Hu E1 E2. pose proof (v_dot_spec t u Ht Hu) as H. cbv zeta in H. destruct H as [H _].
  rewrite E1, E2 in H.
  destruct (H [] [] n eq_refl eq_refl (bcompat2_refl _)) as (r & Er & _ & _ & Hd & Hw & Hg).
  change (targetBroadcastDims [] []) with (@nil nat) in Hd.
  exists r. split; [exact Er|]. split; [exact Hd|]. split; [exact Hw|].
  rewrite (Hg []) by (rewrite Hd; constructor). f_equal. apply fold_left_ext_in.
  intros p s Hp. apply in_seq in Hp. cbn [app].
  rewrite targetBroadcastDims_id, bproj_id by (apply validIdx1; lia). reflexivity.
Qed.

Corollary v_matmul_2d (t u : T) m n k : wf t -> wf u -> dims t = [m; n] -> dims u = [n; k] ->
  exists r, v_matmul t u = Ok r /\ dims r = [m; k] /\ wf r /\
    forall i j, i < m -> j < k ->
      get (data r) [i; j] =
      Some (fold_left (fun s p => sadd s (smul (elt (data t) [i; p]) (elt (data u) [p; j]))) (seq 0 n) s0).
Proof.
  intros Ht Hu E1 E2. destruct (v_matmul_spec t u Ht Hu) as (H & _).
  pose proof (H [] [] m n k E1 E2 I) as H'. cbv zeta in H'.
  change (targetBroadcastDims [] []) with (@nil nat) in H'. cbn [app] in H'.
  destruct H' as (r & Er & Hd & Hw & Hg). exists r. split; [exact Er|]. split; [exact Hd|]. split; [exact Hw|].
  intros i j Hi Hj. apply (Hg [] i j). apply validIdx2. auto.
Qed.

End MatMulP.

(* ---------- examples: the hypotheses are satisfiable, the conclusions non-trivial ---------- *)
Module MatMulExamples.
#[local] Existing Instance ArithExamples.nat_scalar.

Definition m23 : tensor nat := mkT [2; 3] (Vec [Vec [Sc 1; Sc 2; Sc 3]; Vec [Sc 4; Sc 5; Sc 6]]).
Definition m32 : tensor nat := mkT [3; 2] (Vec [Vec [Sc 1; Sc 0]; Vec [Sc 0; Sc 1]; Vec [Sc 1; Sc 1]]).
Definition m34 : tensor nat :=
  mkT [3; 4] (Vec [Vec [Sc 1; Sc 0; Sc 0; Sc 2]; Vec [Sc 0; Sc 1; Sc 0; Sc 2]; Vec [Sc 0; Sc 0; Sc 1; Sc 2]]).
Definition m223 : tensor nat :=
  mkT [2; 2; 3] (Vec [Vec [Vec [Sc 1; Sc 2; Sc 3]; Vec [Sc 4; Sc 5; Sc 6]];
                      Vec [Vec [Sc 7; Sc 8; Sc 9]; Vec [Sc 10; Sc 11; Sc 12]]]).
Definition m332 : tensor nat :=
  mkT [3; 3; 2] (tab [3; 3; 2] (fun _ => 1)).
Definition v3 : tensor nat := mkT [3] (Vec [Sc 4; Sc 5; Sc 6]).
Definition v2 : tensor nat := mkT [2] (Vec [Sc 4; Sc 5]).
Definition sc7 : tensor nat := mkT [] (Sc 7).

Lemma wf_m23 : wf m23. Proof. split; cbn; repeat constructor. Qed.
Lemma wf_m32 : wf m32. Proof. split; cbn; repeat constructor. Qed.
Lemma wf_m223 : wf m223. Proof. split; cbn; repeat constructor. Qed.
Lemma wf_v3 : wf v3. Proof. split; cbn; repeat constructor. Qed.

Example dot1d_ex : dot1d (data v3) (Vec [Sc 1; Sc 2; Sc 3]) = Some (Sc 32).
Proof. vm_compute. reflexivity. Qed.
Example dot1d_combine_ex :
  dot1d (Vec (map Sc [4; 5; 6])) (Vec (map Sc [1; 2; 3])) = Some (Sc (((0 + 4 * 1) + 5 * 2) + 6 * 3)).
Proof. rewrite dot1d_combine by reflexivity. reflexivity. Qed.
Example matmul2d_ex : matmul2d (data m23) (data m32) = Some (Vec [Vec [Sc 4; Sc 5]; Vec [Sc 10; Sc 11]]).
Proof. vm_compute. reflexivity. Qed.
Example matmul2d_spec_ex : exists r, matmul2d (data m23) (data m32) = Some r /\ get r [1; 0] = Some 10.
Proof.
  destruct (matmul2d_spec 2 3 2 (data m23) (data m32) (proj1 wf_m23) (proj1 wf_m32)) as (r & Er & _ & Hg); try lia.
  exists r. split; [exact Er|]. rewrite Hg by lia. reflexivity.
Qed.

(* rank-0 result *)
Example dot_rank0_ex : dot v3 v3 = Some (mkT [] (Sc 77)).
Proof. vm_compute. reflexivity. Qed.
Example dot_batch_ex : dot m23 m23 = Some (mkT [2] (Vec [Sc 14; Sc 77])).
Proof. vm_compute. reflexivity. Qed.
Example dot_spec_ex : exists r, dot m23 m23 = Some r /\ dims r = [2] /\ get (data r) [1] = Some 77.
Proof.
  destruct (dot_spec m23 m23 [2] 3 wf_m23 wf_m23 eq_refl eq_refl) as (r & Er & Hd & _ & Hg).
  exists r. split; [exact Er|]. split; [exact Hd|]. rewrite Hg by (repeat constructor). reflexivity.
Qed.
Example matMul_ex : matMul m23 m32 = Some (mkT [2; 2] (Vec [Vec [Sc 4; Sc 5]; Vec [Sc 10; Sc 11]])).
Proof. vm_compute. reflexivity. Qed.

(* Dot broadcasts everything, the last dimension included *)
Example v_dot_ex :
  v_dot m23 v3 = Ok (mkT [2] (Vec [Sc 32; Sc 77])) /\
  v_dot v3 m23 = Ok (mkT [2] (Vec [Sc 32; Sc 77])) /\
  v_dot v3 v3 = Ok (mkT [] (Sc 77)) /\
  v_dot m223 m23 = Ok (mkT [2; 2] (Vec [Vec [Sc 14; Sc 77]; Vec [Sc 50; Sc 167]])).
Proof. vm_compute. auto. Qed.
(* last dims differ / rank 0 / batch parts incompatible *)
Example v_dot_err : v_dot m23 v2 = Err /\ v_dot sc7 v3 = Err /\ v_dot m23 (mkT [4; 3] (tab [4; 3] (fun _ => 1))) = Err.
Proof. vm_compute. auto. Qed.
Example v_dot_spec_ex : exists r, v_dot m23 v3 = Ok r /\ dims r = [2] /\ get (data r) [1] = Some 77.
Proof.
  pose proof (v_dot_spec m23 v3 wf_m23 wf_v3) as H. cbv zeta in H. destruct H as [H _].
  destruct (H [2] [] 3 eq_refl eq_refl ltac:(cbn; auto)) as (r & Er & Hd & _ & _ & _ & Hg).
  exists r. split; [exact Er|]. split; [exact Hd|]. rewrite Hg by (rewrite Hd; repeat constructor). reflexivity.
Qed.

(* MatMul broadcasts the batch parts only: (2,3) x (3,4) are not NumPy-compatible as full shapes *)
Example v_matmul_ex :
  v_matmul m23 m32 = Ok (mkT [2; 2] (Vec [Vec [Sc 4; Sc 5]; Vec [Sc 10; Sc 11]])) /\
  v_matmul m23 m34 = Ok (mkT [2; 4] (Vec [Vec [Sc 1; Sc 2; Sc 3; Sc 12]; Vec [Sc 4; Sc 5; Sc 6; Sc 30]])) /\
  v_matmul m223 m32 = Ok (mkT [2; 2; 2] (Vec [Vec [Vec [Sc 4; Sc 5]; Vec [Sc 10; Sc 11]];
                                              Vec [Vec [Sc 16; Sc 17]; Vec [Sc 22; Sc 23]]])).
Proof. vm_compute. auto. Qed.
(* inner sizes differ / rank 1 / batch parts incompatible *)
Example v_matmul_err : v_matmul m23 m23 = Err /\ v_matmul v3 m32 = Err /\ v_matmul m223 m332 = Err.
Proof. vm_compute. auto. Qed.
Example v_matmul_spec_ex : exists r, v_matmul m223 m32 = Ok r /\ dims r = [2; 2; 2] /\ get (data r) ([1] ++ [1; 0]) = Some 22.
Proof.
  destruct (v_matmul_spec m223 m32 wf_m223 wf_m32) as (H & _).
  pose proof (H [2] [] 2 3 2 eq_refl eq_refl I) as H'. cbv zeta in H'.
  destruct H' as (r & Er & Hd & _ & Hg).
  exists r. split; [exact Er|]. split; [exact Hd|]. rewrite Hg by (repeat constructor). reflexivity.
Qed.

End MatMulExamples.

Print Assumptions dot1d_spec.
Print Assumptions dot1d_combine.
Print Assumptions matmul2d_spec.
Print Assumptions wfnd_app_nest.
Print Assumptions batch_data.
Print Assumptions dot_spec.
Print Assumptions matMul_spec.
Print Assumptions v_dot_spec.
Print Assumptions v_dot_ok_iff.
Print Assumptions v_bcastMM_spec.
Print Assumptions v_matmul_spec.
Print Assumptions v_matmul_ok_iff.
Print Assumptions v_dot_1d.
Print Assumptions v_matmul_2d.
