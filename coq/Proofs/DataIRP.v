(* DataIRP.v — infrastructure for reasoning about DataIR programs (Model/DataIR.v): environment facts, one-step
   unfolding of [dexec], loop rules.  Mirrors Proofs/GoIRP.v. *)
From Coq Require Import String List ZArith Bool Lia Arith.
From Qeep Require Import Model.Scalar Model.Nd Model.DataIR.
From Qeep Require Model.GoIR.
Import ListNotations.
Local Open Scope Z_scope.

Section DataIRP.
Context {A : Type} {SA : Scalar A}.
Notation dval := (@dval A).
Notation denv := (@denv A).
Notation cres := (@cres A).

(* ---------- environments ---------- *)

Lemma dlookup_dupd (e : denv) (x y : string) (v : dval) :
  dlookup (dupd e x v) y = if String.eqb y x then Some v else dlookup e y.
Proof.
  induction e as [|[z w] e IH]; cbn.
  - reflexivity.
  - destruct (String.eqb x z) eqn:Exz; cbn.
    + apply String.eqb_eq in Exz; subst z. destruct (String.eqb y x); reflexivity.
    + rewrite IH. destruct (String.eqb y z) eqn:Eyz; [|reflexivity].
      apply String.eqb_eq in Eyz; subst z.
      destruct (String.eqb y x) eqn:Eyx; [|reflexivity].
      apply String.eqb_eq in Eyx; subst y. rewrite String.eqb_refl in Exz. discriminate.
Qed.

Lemma dhas_dupd (e : denv) (x y : string) (v : dval) :
  dhas (dupd e x v) y = if String.eqb y x then true else dhas e y.
Proof. unfold dhas. rewrite dlookup_dupd. destruct (String.eqb y x); reflexivity. Qed.

(* lookup after an assignment, whichever environment received it *)
Lemma vlookup_vassign (atMain : bool) (g l : denv) (x y : string) (v : dval) :
  let '(g1, l1) := vassign atMain g l x v in
  vlookup g1 l1 y = if String.eqb y x then Some v else vlookup g l y.
Proof.
  unfold vassign, vlookup.
  destruct (dhas l x) eqn:Hl.
  - rewrite dlookup_dupd. destruct (String.eqb y x); reflexivity.
  - assert (Hlx : dlookup l x = None) by (unfold dhas in Hl; destruct (dlookup l x); [discriminate|reflexivity]).
    destruct (dhas g x) eqn:Hg.
    + rewrite dlookup_dupd. destruct (String.eqb y x) eqn:E.
      * apply String.eqb_eq in E; subst y. now rewrite Hlx.
      * reflexivity.
    + destruct atMain.
      * rewrite dlookup_dupd. destruct (String.eqb y x) eqn:E.
        -- apply String.eqb_eq in E; subst y. now rewrite Hlx.
        -- reflexivity.
      * rewrite dlookup_dupd. destruct (String.eqb y x); reflexivity.
Qed.

Lemma vlookup_vdefine_local (g l : denv) (x y : string) (v : dval) :
  let '(g1, l1) := vdefine false g l x v in
  g1 = g /\ vlookup g1 l1 y = if String.eqb y x then Some v else vlookup g l y.
Proof.
  unfold vdefine, vlookup. split; [reflexivity|]. rewrite dlookup_dupd. destruct (String.eqb y x); reflexivity.
Qed.

Lemma vlookup_vdefine_main (g : denv) (x y : string) (v : dval) :
  let '(g1, l1) := vdefine true g [] x v in
  l1 = [] /\ vlookup g1 l1 y = if String.eqb y x then Some v else vlookup g [] y.
Proof.
  unfold vdefine, vlookup. split; [reflexivity|]. cbn [dlookup]. rewrite dlookup_dupd. reflexivity.
Qed.

Lemma didx_nat (n : nat) : didx (Z.of_nat n) = Some n.
Proof. unfold didx. destruct (0 <=? Z.of_nat n) eqn:E; [now rewrite Nat2Z.id | apply Z.leb_gt in E; lia]. Qed.
Lemma didx_nonneg (z : Z) : 0 <= z -> didx z = Some (Z.to_nat z).
Proof. unfold didx; intros H. destruct (0 <=? z) eqn:E; [reflexivity | apply Z.leb_gt in E; lia]. Qed.
Lemma didx_neg (z : Z) : z < 0 -> didx z = None.
Proof. unfold didx; intros H. destruct (0 <=? z) eqn:E; [apply Z.leb_le in E; lia | reflexivity]. Qed.

Lemma dlen_map {T} (f : T -> dval) (l : list T) : dlen (map f l) = Z.of_nat (length l).
Proof. unfold dlen; now rewrite map_length. Qed.

(* ---------- one-step unfolding of [dexec] ---------- *)
Section ExecEq.
Variable fapp : string -> list A -> option A.
Variables (St : Type) (ext : string -> list dval -> St -> option (list dval * St)).
Variables (callL : string -> list dval -> St -> denv -> cres St) (fuel : nat) (atMain : bool).
Notation ex := (dexec fapp St ext callL fuel atMain).
Notation ev := (deval fapp).

Lemma dexec_TSkip s g l : ex TSkip s g l = DNormal St s g l. Proof. reflexivity. Qed.
Lemma dexec_TDef x e s g l :
  ex (TDef x e) s g l = match ev g l e with
                        | Some v => let '(g1, l1) := vdefine atMain g l x v in DNormal St s g1 l1
                        | None => DPanic St
                        end.
Proof. reflexivity. Qed.
Lemma dexec_TSet x e s g l :
  ex (TSet x e) s g l = match ev g l e with
                        | Some v => let '(g1, l1) := vassign atMain g l x v in DNormal St s g1 l1
                        | None => DPanic St
                        end.
Proof. reflexivity. Qed.
Lemma dexec_TSetIdx x i e s g l :
  ex (TSetIdx x i e) s g l =
  match ev g l e, ev g l i with
  | Some v, Some (DI z) =>
      match didx z with
      | Some n => match setSlot atMain g l x n v with Some (g1, l1) => DNormal St s g1 l1 | None => DPanic St end
      | None => DPanic St
      end
  | _, _ => DPanic St
  end.
Proof. reflexivity. Qed.
Lemma dexec_TCopy x e s g l :
  ex (TCopy x e) s g l =
  match vlookup g l x, ev g l e with
  | Some (DL d), Some (DL src) => let '(g1, l1) := vassign atMain g l x (DL (dcopyInto d src)) in DNormal St s g1 l1
  | _, _ => DPanic St
  end.
Proof. reflexivity. Qed.
Lemma dexec_TSeq a b s g l :
  ex (TSeq a b) s g l = match ex a s g l with DNormal _ s1 g1 l1 => ex b s1 g1 l1 | o => o end.
Proof. reflexivity. Qed.
Lemma dexec_TIf c a b s g l :
  ex (TIf c a b) s g l = match ev g l c with
                         | Some (DB true) => ex a s g l
                         | Some (DB false) => ex b s g l
                         | _ => DPanic St
                         end.
Proof. reflexivity. Qed.
Lemma dexec_TFor c post body s g l :
  ex (TFor c post body) s g l = dforLoop St fuel (fun g' l' => ev g' l' c) (ex body) (ex post) s g l.
Proof. reflexivity. Qed.
Lemma dexec_TRange i x a body s g l :
  ex (TRange i x a body) s g l =
  match ev g l a with
  | Some (DL m) =>
      drangeLoop St (ex body)
                 (fun g' l' k v => let '(g1, l1) := vdefine atMain g' l' i (DI k) in vdefine atMain g1 l1 x v)
                 m 0 s g l
  | _ => DPanic St
  end.
Proof. reflexivity. Qed.
Lemma dexec_TBreak s g l : ex TBreak s g l = DBreak St s g l. Proof. reflexivity. Qed.
Lemma dexec_TContinue s g l : ex TContinue s g l = DContinue St s g l. Proof. reflexivity. Qed.
Lemma dexec_TRet es s g l :
  ex (TRet es) s g l = match devals fapp g l es with Some vs => DRet St vs s g l | None => DPanic St end.
Proof. reflexivity. Qed.
Lemma dexec_TCall f args s g l :
  ex (TCall f args) s g l =
  match argVals fapp g l args with
  | Some vs =>
      match callL f vs s g with
      | CRet _ outs s1 g1 =>
          match copyOut fapp atMain g1 l args outs with
          | Some (g2, l2) => DNormal St s1 g2 l2
          | None => DPanic St
          end
      | CPanic _ => DPanic St
      | CFuel _ => DFuel St
      end
  | None => DPanic St
  end.
Proof. reflexivity. Qed.
Lemma dexec_TExt def xs f args s g l :
  ex (TExt def xs f args) s g l =
  match devals fapp g l args with
  | Some vs =>
      match ext f vs s with
      | Some (rs, s1) =>
          match dassignAll def atMain g l xs rs with
          | Some (g1, l1) => DNormal St s1 g1 l1
          | None => DPanic St
          end
      | None => DPanic St
      end
  | None => DPanic St
  end.
Proof. reflexivity. Qed.
End ExecEq.

(* ---------- loop rules ---------- *)
Section Loops.
Variable St : Type.
Notation doutcome := (@DataIR.doutcome A St).

Lemma dforLoop_rule (P : St -> denv -> denv -> Prop) (Q : doutcome -> Prop) (m : St -> denv -> denv -> nat)
      (cond : denv -> denv -> option dval) (body post : St -> denv -> denv -> doutcome) :
  (forall s g l, P s g l ->
     (cond g l = Some (DB false) /\ Q (DNormal St s g l)) \/
     (cond g l = Some (DB true) /\
        ((exists s1 g1 l1, body s g l = DBreak St s1 g1 l1 /\ Q (DNormal St s1 g1 l1)) \/
         (exists vs s1 g1 l1, body s g l = DRet St vs s1 g1 l1 /\ Q (DRet St vs s1 g1 l1)) \/
         (exists s1 g1 l1 s2 g2 l2,
            (body s g l = DNormal St s1 g1 l1 \/ body s g l = DContinue St s1 g1 l1) /\
            post s1 g1 l1 = DNormal St s2 g2 l2 /\ P s2 g2 l2 /\ (m s2 g2 l2 < m s g l)%nat)))) ->
  forall s g l, P s g l -> forall fuel, (m s g l < fuel)%nat -> Q (dforLoop St fuel cond body post s g l).
Proof.
  intros Hstep s g l HP fuel. revert s g l HP.
  induction fuel as [|fuel IH]; intros s g l HP Hm; [lia|].
  cbn [dforLoop].
  destruct (Hstep s g l HP) as [[Hc HQ] | [Hc [[s1 [g1 [l1 [Hb HQ]]]] | [[vs [s1 [g1 [l1 [Hb HQ]]]]] |
     [s1 [g1 [l1 [s2 [g2 [l2 [Hb [Hp [HP2 Hlt]]]]]]]]]]]]]; rewrite Hc; auto.
  - now rewrite Hb.
  - now rewrite Hb.
  - assert (Hgo : Q (dforLoop St fuel cond body post s2 g2 l2)) by (apply IH; [exact HP2 | lia]).
    destruct Hb as [Hb | Hb]; rewrite Hb, Hp; exact Hgo.
Qed.

(* range: invariant P k before iteration k (k counts from [k0]) *)
Lemma drangeLoop_rule (P : nat -> St -> denv -> denv -> Prop) (Q : doutcome -> Prop)
      (body : St -> denv -> denv -> doutcome) (assign : denv -> denv -> Z -> dval -> denv * denv) (m : list dval) :
  (forall k s g l v, P k s g l -> nth_error m k = Some v ->
     let '(g0, l0) := assign g l (Z.of_nat k) v in
     (exists s1 g1 l1, (body s g0 l0 = DNormal St s1 g1 l1 \/ body s g0 l0 = DContinue St s1 g1 l1) /\ P (S k) s1 g1 l1) \/
     (exists s1 g1 l1, body s g0 l0 = DBreak St s1 g1 l1 /\ Q (DNormal St s1 g1 l1)) \/
     (exists vs s1 g1 l1, body s g0 l0 = DRet St vs s1 g1 l1 /\ Q (DRet St vs s1 g1 l1)) \/
     (body s g0 l0 = DPanic St /\ Q (DPanic St)) \/
     (body s g0 l0 = DFuel St /\ Q (DFuel St))) ->
  (forall s g l, P (length m) s g l -> Q (DNormal St s g l)) ->
  forall k s g l, (k <= length m)%nat -> P k s g l ->
  Q (drangeLoop St body assign (skipn k m) (Z.of_nat k) s g l).
Proof.
  intros Hstep Hend k s g l Hk HP.
  remember (length m - k)%nat as r eqn:Hr.
  revert k s g l Hk HP Hr. induction r as [|r IH]; intros k s g l Hk HP Hr.
  - assert (k = length m) by lia. subst k. rewrite skipn_all. cbn. now apply Hend.
  - destruct (nth_error m k) as [v|] eqn:Hn.
    2:{ apply nth_error_None in Hn. lia. }
    assert (Hs : skipn k m = v :: skipn (S k) m).
    { clear -Hn. revert k Hn. induction m as [|a m IHm]; intros [|k] Hn; cbn in *; try discriminate.
      - now inversion Hn.
      - now apply IHm. }
    rewrite Hs. cbn [drangeLoop].
    pose proof (Hstep k s g l v HP Hn) as Hst.
    destruct (assign g l (Z.of_nat k) v) as [g0 l0].
    destruct Hst as [[s1 [g1 [l1 [Hb HP1]]]] | [[s1 [g1 [l1 [Hb HQ]]]] | [[vs [s1 [g1 [l1 [Hb HQ]]]]] | [[Hb HQ] | [Hb HQ]]]]].
    + assert (Hgo : Q (drangeLoop St body assign (skipn (S k) m) (Z.of_nat (S k)) s1 g1 l1)).
      { apply IH; [ | exact HP1 | lia ].
        assert (k < length m)%nat by (apply nth_error_Some; congruence). lia. }
      replace (Z.of_nat k + 1) with (Z.of_nat (S k)) by lia.
      destruct Hb as [Hb | Hb]; rewrite Hb; exact Hgo.
    + now rewrite Hb.
    + now rewrite Hb.
    + now rewrite Hb.
    + now rewrite Hb.
Qed.
End Loops.

End DataIRP.

#[export] Hint Rewrite @dexec_TSkip @dexec_TDef @dexec_TSet @dexec_TSetIdx @dexec_TCopy @dexec_TSeq @dexec_TIf @dexec_TFor @dexec_TRange
  @dexec_TBreak @dexec_TContinue @dexec_TRet @dexec_TCall @dexec_TExt : dataexec.

(* unfold the statement structure where [dexec] is fully applied, compute expressions over concrete names;
   never unfolds [dexec] under a loop *)
Ltac dx := autorewrite with dataexec;
           cbn [tseq deval devals devalBin negb andb orb vlookup dlookup dupd dhas vassign vdefine String.eqb Ascii.eqb Bool.eqb
                argVals copyOut dassignAll setSlot fopF].
Ltac dxs := repeat (progress dx).
