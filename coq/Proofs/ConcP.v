(* ConcP.v — C20, model part: in the shared-prefix model of Model/Conc.v a goroutine that only
   runs forward computations on shared tensors and back-propagates / resets / stores into its
   own private objects never writes a shared tensor or a shared API object. *)
From Coq Require Import List Arith ZArith Bool Lia.
From Qeep Require Import Model.Scalar Model.Nd Model.Fill Model.Data Model.Valid Model.Api Model.Grad
     Model.Backprop Model.Components Model.Scenario Model.Conc.
From Qeep Require Import Proofs.NdP Proofs.TrackP Proofs.DfsP Proofs.BpFlagsP Proofs.StepP.
Import ListNotations.

Lemma node_eq {A} (n n' : @node A) :
  nval n' = nval n -> ntracked n' = ntracked n -> ndirty n' = ndirty n -> ngrad n' = ngrad n ->
  nedges n' = nedges n -> nname n' = nname n -> n' = n.
Proof. destruct n, n'; cbn; intros; subst; reflexivity. Qed.

Section ConcP.
Context {A : Type} {SA : Scalar A}.
Notation T := (tensor A).
Notation heap := (@heap A).
Notation state := (@state A).
Notation cmd := (@cmd A).

Variable rd : bred.
Variable sealv : nat -> T -> T.
Variable sealg : nat -> option nat -> T -> T.
Variables (c_eps c_one_m_eps : A) (c_leaky c_sgd_lr dFull dUniL dUniU dNorM dNorS : dec) (c_softmax_dim : Z).
Notation step := (step rd sealv sealg c_eps c_one_m_eps c_leaky c_sgd_lr dFull dUniL dUniU dNorM dNorS c_softmax_dim).
Notation run_from := (run_from rd sealv sealg c_eps c_one_m_eps c_leaky c_sgd_lr dFull dUniL dUniU dNorM dNorS c_softmax_dim).
Notation exec := (exec rd sealv sealg c_eps c_one_m_eps c_leaky c_sgd_lr dFull dUniL dUniU dNorM dNorS c_softmax_dim).
Notation g_exec := (g_exec rd sealv sealg c_eps c_one_m_eps c_leaky c_sgd_lr dFull dUniL dUniU dNorM dNorS c_softmax_dim).
Notation run_safe := (run_safe rd sealv sealg c_eps c_one_m_eps c_leaky c_sgd_lr dFull dUniL dUniU dNorM dNorS c_softmax_dim).
Notation run_safeb := (run_safeb rd sealv sealg c_eps c_one_m_eps c_leaky c_sgd_lr dFull dUniL dUniU dNorM dNorS c_softmax_dim).
Notation sys_safe := (sys_safe rd sealv sealg c_eps c_one_m_eps c_leaky c_sgd_lr dFull dUniL dUniU dNorM dNorS c_softmax_dim).
Notation sys_obs := (sys_obs rd sealv sealg c_eps c_one_m_eps c_leaky c_sgd_lr dFull dUniL dUniU dNorM dNorS c_softmax_dim).
Notation step_rel := (step_rel rd sealv sealg c_eps c_one_m_eps c_leaky c_sgd_lr dFull dUniL dUniU dNorM dNorS c_softmax_dim).

Lemma g_exec_exec (s : state) cs : g_exec s cs = exec s cs.
Proof. revert s. induction cs as [|c cs IH]; intros s; cbn; [reflexivity|apply IH]. Qed.

(* ---------- the proviso, read as a proposition ---------- *)
Theorem safe_spec n0 e0 (s : state) (c : cmd) :
  safe n0 e0 s c <->
  match c with
  | CBackprop (Some t) => forall x, lookupT s t = Some x -> Forall (fun i => n0 <= i) (topoOrder (st_heap s) x)
  | CReset t _ => forall x, lookupT s t = Some x -> n0 <= x
  | CFCSet fc _ _ => e0 <= fc
  | CSGDUpdate _ cell => forall k, cellTarget cell = Some k -> e0 <= k
  | CAccumulate acc _ _ => e0 <= acc
  | _ => True
  end.
Proof.
  unfold safe. destruct c; cbn [safeb]; try (split; [intros _; exact I|intros _; reflexivity]).
  - destruct t as [t|]; [|split; [intros _; exact I|intros _; reflexivity]].
    destruct (lookupT s t) as [x|].
    + rewrite forallb_forall. split.
      * intros H y Ey. inversion Ey; subst y. apply Forall_forall. intros i Hi. apply Nat.leb_le. apply H. exact Hi.
      * intros H i Hi. apply Nat.leb_le. specialize (H x eq_refl). rewrite Forall_forall in H. apply H. exact Hi.
    + split; [intros _ y Ey; discriminate|intros _; reflexivity].
  - destruct (lookupT s t) as [x|].
    + rewrite Nat.leb_le. split; [intros H y Ey; inversion Ey; subst; exact H|intros H; apply H; reflexivity].
    + split; [intros _ y Ey; discriminate|intros _; reflexivity].
  - apply Nat.leb_le.
  - destruct (cellTarget cell) as [k|].
    + rewrite Nat.leb_le. split; [intros H y Ey; inversion Ey; subst; exact H|intros H; apply H; reflexivity].
    + split; [intros _ y Ey; discriminate|intros _; reflexivity].
  - apply Nat.leb_le.
Qed.

Lemma run_safeb_spec n0 e0 (s : state) cs : run_safeb n0 e0 s cs = true <-> run_safe n0 e0 s cs.
Proof.
  revert s. induction cs as [|c cs IH]; intros s; cbn [Conc.run_safeb Conc.run_safe]; [split; auto|].
  rewrite andb_true_iff, IH. reflexivity.
Qed.

Lemma writes_safe n0 e0 (s : state) (c : cmd) k : safe n0 e0 s c -> writes c k -> e0 <= k.
Proof.
  unfold safe. destruct c; cbn [safeb writes]; try contradiction.
  - intros H ->. apply Nat.leb_le. exact H.
  - destruct cell as [fc|fc|cl|]; cbn [cellTarget]; try contradiction; intros H ->; apply Nat.leb_le; exact H.
  - intros H ->. apply Nat.leb_le. exact H.
Qed.

(* ---------- one command ---------- *)
Theorem shared_heap_frame n0 e0 (s : state) (c : cmd) : wf_heap (st_heap s) -> safe n0 e0 s c ->
  let s' := fst (step s c) in
  (forall i n, i < n0 -> nth_error (st_heap s) i = Some n -> nth_error (st_heap s') i = Some n) /\
  (forall j o, j < e0 -> nth_error (st_env s) j = Some o -> nth_error (st_env s') j = Some o).
Proof.
  intros W Hs. cbv zeta. destruct (step_rel s c) as [Hh He]. split.
  - intros i n Hi Hn. destruct Hh as [Hx _|t b x Ec El E|t x log Ec El Eb].
    + eapply extends_nth; eauto.
    + subst c. rewrite E. unfold safe in Hs. cbn [safeb] in Hs. rewrite El in Hs. apply Nat.leb_le in Hs.
      destruct (h_reset_spec (st_heap s) x b) as (_ & _ & Ho & _). rewrite Ho by lia. exact Hn.
    + subst c. unfold safe in Hs. cbn [safeb] in Hs. rewrite El in Hs.
      assert (Hni : ~ In i (topoOrder (st_heap s) x)).
      { intros Hin. rewrite forallb_forall in Hs. specialize (Hs i Hin). apply Nat.leb_le in Hs. lia. }
      destruct (trackedOf (st_heap s) x) eqn:Ht.
      * destruct (bp_topo_flags _ _ _ _ _ _ _ W Ht Eb) as (_ & Hf & _).
        destruct (Hf i n Hn) as (n' & Hn' & V1 & V2 & V3 & V4 & V5 & V6).
        rewrite Hn'. f_equal. apply node_eq; auto.
        rewrite V5. apply memb_false in Hni. rewrite Hni. apply orb_false_r.
      * rewrite bp_untracked_root in Eb by exact Ht.
        assert (E1 : st_heap s = st_heap (fst (step s (CBackprop (Some t))))) by congruence.
        rewrite <- E1. exact Hn.
  - intros j o Hj Ho. destruct He as (o1 & [E|(k & o' & Hw & E)]); rewrite E.
    + apply nth_error_snoc_old. exact Ho.
    + apply nth_error_snoc_old. rewrite setNthObj_nth, Ho. cbn [option_map].
      pose proof (writes_safe _ _ _ _ _ Hs Hw) as Hk.
      assert (X : j =? k = false) by (apply Nat.eqb_neq; lia). rewrite X. reflexivity.
Qed.

(* ---------- whole programs ---------- *)
Lemma run_safe_app n0 e0 (s : state) cs1 cs2 :
  run_safe n0 e0 s (cs1 ++ cs2) <-> run_safe n0 e0 s cs1 /\ run_safe n0 e0 (g_exec s cs1) cs2.
Proof.
  revert s. induction cs1 as [|c cs1 IH]; intros s; cbn [app Conc.run_safe Conc.g_exec]; [tauto|].
  rewrite IH. tauto.
Qed.

Lemma run_safe_firstn n0 e0 (s : state) cs k : run_safe n0 e0 s cs -> run_safe n0 e0 s (firstn k cs).
Proof.
  intros H. rewrite <- (firstn_skipn k cs) in H. apply run_safe_app in H. apply H.
Qed.

Theorem run_safe_shared n0 e0 (s : state) cs : hinv (st_heap s) -> run_safe n0 e0 s cs ->
  (forall i n, i < n0 -> nth_error (st_heap s) i = Some n -> nth_error (st_heap (g_exec s cs)) i = Some n) /\
  (forall j o, j < e0 -> nth_error (st_env s) j = Some o -> nth_error (st_env (g_exec s cs)) j = Some o).
Proof.
  revert s. induction cs as [|c cs IH]; intros s Hi Hs; cbn [Conc.g_exec]; [auto|].
  destruct Hs as [Hc Hs].
  destruct (shared_heap_frame n0 e0 s c (hinv_wf _ Hi) Hc) as [F1 F2].
  destruct (IH (fst (step s c)) (step_hinv _ _ _ _ _ _ _ _ _ _ _ _ _ _ _ Hi) Hs) as [G1 G2].
  split.
  - intros i n Hlt Hn. apply G1; [exact Hlt|]. apply F1; assumption.
  - intros j o Hlt Ho. apply G2; [exact Hlt|]. apply F2; assumption.
Qed.

Lemma firstn_same {X} (l l' : list X) k : k <= length l ->
  (forall i x, i < k -> nth_error l i = Some x -> nth_error l' i = Some x) -> firstn k l' = firstn k l.
Proof.
  revert l l'. induction k as [|k IH]; intros l l' Hk H; [reflexivity|].
  destruct l as [|a l]; [cbn in Hk; lia|].
  pose proof (H 0 a (Nat.lt_0_succ k) eq_refl) as H0. destruct l' as [|b l']; [discriminate|].
  cbn in H0. inversion H0; subst b. cbn [firstn]. f_equal. apply IH; [cbn in Hk; lia|].
  intros i x Hi Hx. apply (H (S i) x); [lia|exact Hx].
Qed.

(* the shared prefix is identical in EVERY state the goroutine reaches *)
Theorem run_safe_shared_prefix n0 e0 (s : state) cs k : hinv (st_heap s) ->
  n0 <= length (st_heap s) -> e0 <= length (st_env s) -> run_safe n0 e0 s cs ->
  shared_heap n0 (g_exec s (firstn k cs)) = shared_heap n0 s /\
  shared_env e0 (g_exec s (firstn k cs)) = shared_env e0 s.
Proof.
  intros Hi Hn He Hs. destruct (run_safe_shared n0 e0 s (firstn k cs) Hi (run_safe_firstn _ _ _ _ k Hs)) as [G1 G2].
  unfold shared_heap, shared_env. split; apply firstn_same; assumption.
Qed.

(* the system: nobody ever changes the state the goroutines were started in *)
Theorem system_shared_immutable (y : system) : hinv (st_heap (sys_start y)) -> sys_safe y ->
  forall j k,
    shared_heap (sys_n0 y) (g_exec (sys_start y) (firstn k (nth j (sys_progs y) []))) = st_heap (sys_start y) /\
    shared_env (sys_e0 y) (g_exec (sys_start y) (firstn k (nth j (sys_progs y) []))) = st_env (sys_start y).
Proof.
  intros Hi Hs j k. unfold Conc.sys_safe in Hs.
  assert (Hp : run_safe (sys_n0 y) (sys_e0 y) (sys_start y) (nth j (sys_progs y) [])).
  { destruct (nth_in_or_default j (sys_progs y) []) as [Hin|E].
    - rewrite Forall_forall in Hs. apply Hs. exact Hin.
    - rewrite E. exact I. }
  destruct (run_safe_shared_prefix (sys_n0 y) (sys_e0 y) (sys_start y) _ k Hi (le_n _) (le_n _) Hp) as [E1 E2].
  rewrite E1, E2. unfold shared_heap, shared_env, sys_n0, sys_e0. rewrite !firstn_all. auto.
Qed.

(* a goroutine's observables are a function of the start state and its own program only *)
Theorem private_determinism (s1 s2 : state) prog :
  st_heap s1 = st_heap s2 -> st_env s1 = st_env s2 -> st_rng s1 = st_rng s2 ->
  run_from s1 prog = run_from s2 prog.
Proof. destruct s1, s2; cbn; intros; subst; reflexivity. Qed.

Corollary system_obs_independent (y y' : system) j :
  sys_start y = sys_start y' -> nth j (sys_progs y) [] = nth j (sys_progs y') [] -> sys_obs y j = sys_obs y' j.
Proof. unfold Conc.sys_obs. intros -> ->. reflexivity. Qed.

End ConcP.

(* ================================================================== *)
(*  Example: two goroutines on a shared tracked tensor x and a shared   *)
(*  constant c.  Forward use of x is safe; back-propagating a private    *)
(*  result that depends on the shared tracked x is exactly what the      *)
(*  proviso excludes — and it does write x's gradient.                   *)
(* ================================================================== *)
Module ConcEx.
Import TrackEx StepEx.
#[local] Existing Instance Z_scalar.
Local Open Scope Z_scope.

Notation g_execZ := (g_exec RedSum idv idg 0 1 d0 d0 d0 d0 d0 d0 d0 0).
Notation run_safebZ := (run_safeb RedSum idv idg 0 1 d0 d0 d0 d0 d0 d0 d0 0).

(* shared: 0 x=[3;5] tracked, 1 c=[1;1] untracked *)
Definition s0 : @state Z := execZ init_state [CLeaf [2%nat] [3; 5] true; CLeaf [2%nat] [1; 1] false].

(* goroutine 1: forward on shared x, own tracked leaf w (name 3), z = w*c (name 4), back-propagate z, reset w *)
Definition prog1 : list (@cmd Z) :=
  [CScale 0 (2, 0); CLeaf [2%nat] [7; 7] true; CBin BiMul 3 (Some 1%nat); CBackprop (Some 4%nat); CGradOf 3; CReset 3 true].
(* goroutine 2: y = x*2 (private, but depending on the shared tracked x), back-propagate y *)
Definition prog2 : list (@cmd Z) := [CScale 0 (2, 0); CBackprop (Some 2%nat)].

Example ex_safe : run_safebZ 2%nat 2%nat s0 prog1 = true /\ run_safebZ 2%nat 2%nat s0 prog2 = false.
Proof. vm_compute. split; reflexivity. Qed.

Example ex_obs1 : runZ s0 prog1 =
  [ObTensor [2%nat] [6; 10]; ObTensor [2%nat] [7; 7]; ObTensor [2%nat] [7; 7];
   ObGrads 3 [(0%nat, None); (1%nat, None); (2%nat, None); (3%nat, Some ([2%nat], [1; 1])); (4%nat, Some ([2%nat], [1; 1]))];
   ObTensor [2%nat] [1; 1]; ObOk].
Proof. vm_compute. reflexivity. Qed.

(* the theorem on goroutine 1: the shared prefix is untouched in every reachable state *)
Example ex_shared1 : forall k, shared_heap 2 (g_execZ s0 (firstn k prog1)) = st_heap s0.
Proof.
  intros k.
  destruct (run_safe_shared_prefix RedSum idv idg 0 1 d0 d0 d0 d0 d0 d0 d0 0 2 2 s0 prog1 k) as [E _].
  - apply reachable_hinv.
  - vm_compute. lia.
  - vm_compute. lia.
  - apply run_safeb_spec. vm_compute. reflexivity.
  - rewrite E. reflexivity.
Qed.

(* the proviso is needed: goroutine 2 assigns a gradient to the shared x and spends it *)
Example ex_proviso_needed :
  gradOf (st_heap s0) 0 = None /\ dirtyOf (st_heap s0) 0 = false /\
  gradOf (st_heap (g_execZ s0 prog2)) 0 = Some (vec2 2 2) /\ dirtyOf (st_heap (g_execZ s0 prog2)) 0 = true.
Proof. vm_compute. repeat split. Qed.

Example ex_system : forall j k,
  shared_heap 2 (g_execZ s0 (firstn k (nth j [prog1; prog1] []))) = st_heap s0.
Proof.
  intros j k.
  destruct (system_shared_immutable RedSum idv idg 0 1 d0 d0 d0 d0 d0 d0 d0 0 (mkSystem s0 [prog1; prog1])) with (j := j) (k := k) as [E _].
  - apply reachable_hinv.
  - repeat constructor; apply run_safeb_spec; vm_compute; reflexivity.
  - exact E.
Qed.
End ConcEx.

Print Assumptions safe_spec.
Print Assumptions shared_heap_frame.
Print Assumptions run_safe_shared.
Print Assumptions run_safe_shared_prefix.
Print Assumptions system_shared_immutable.
Print Assumptions private_determinism.
